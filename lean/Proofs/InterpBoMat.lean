import Proofs.InterpSpec
/-!
`BackoffManager`'s per-model bookkeeping: while `SameContext(c)` runs, `Get(m, level)` returns the
back-off of component `m` for the suffix of `c` of length `level + 1` (0 if the component does not
have it below its top order), `Exit` restores the matrix, and the charging loop of `SameContext`
computes `LM.charge`.
-/
namespace KV.Interp
variable {W : Type} [DecidableEq W]

/-- dimensions: `N` models, `K` levels -/
def BoMat.WF (M : BoMat) (N K : Nat) : Prop := M.maxOrder = K ∧ M.backing.length = N * K

theorem idx_inj {K i i' l l' : Nat} (hl : l < K) (hl' : l' < K) (h : i * K + l = i' * K + l') :
    i = i' ∧ l = l' := by
  have hK : 0 < K := by omega
  have h1 : (i * K + l) / K = i := by
    rw [Nat.mul_comm, Nat.mul_add_div hK, Nat.div_eq_of_lt hl, Nat.add_zero]
  have h2 : (i' * K + l') / K = i' := by
    rw [Nat.mul_comm, Nat.mul_add_div hK, Nat.div_eq_of_lt hl', Nat.add_zero]
  have hi : i = i' := by rw [← h1, ← h2, h]
  subst hi
  exact ⟨rfl, by omega⟩

theorem idx_lt {N K i l : Nat} (hi : i < N) (hl : l < K) : i * K + l < N * K := by
  have : (i + 1) * K ≤ N * K := Nat.mul_le_mul_right K hi
  rw [Nat.add_mul, Nat.one_mul] at this
  omega

theorem BoMat.wf_set {M : BoMat} {N K : Nat} (h : M.WF N K) (i l : Nat) (v : Rat) : (M.set i l v).WF N K := by
  unfold BoMat.set BoMat.WF at *
  simp [h.1, h.2]

theorem BoMat.get_set {M : BoMat} {N K : Nat} (h : M.WF N K) {i i' l l' : Nat} (hi : i < N) (hl : l < K)
    (hl' : l' < K) (v : Rat) :
    (M.set i l v).get i' l' = if i = i' ∧ l = l' then v else M.get i' l' := by
  unfold BoMat.set BoMat.get
  simp only [h.1]
  rw [List.getD_eq_getElem?_getD, List.getD_eq_getElem?_getD, List.getElem?_set]
  by_cases heq : i * K + l = i' * K + l'
  · have := idx_inj hl hl' heq
    have hlt : i * K + l < M.backing.length := by rw [h.2]; exact idx_lt hi hl
    simp [heq, this.1, this.2, hlt, ← heq]
  · have : ¬ (i = i' ∧ l = l') := fun ⟨a, b⟩ => heq (by rw [a, b])
    simp [heq, this]

/-- what `Enter(c)` writes for the component at position `i'` of `l` (numbered from `n`) -/
def enterVal (val : Entry W → Rat) (l : Comps W) (n : Nat) (c : List W) (i' : Nat) : Option Rat :=
  if n ≤ i' then
    (l[i' - n]?).bind (fun p => if c.length < p.2.order then (p.2.findGram c).map val else none)
  else none

def enterStep (val : Entry W → Rat) (c : List W) (M : BoMat) (pi : (Rat × LM W) × Nat) : BoMat :=
  if c.length < pi.1.2.order then
    match pi.1.2.findGram c with
    | some e => M.set pi.2 (c.length - 1) (val e)
    | none => M
  else M

theorem enter_fold (val : Entry W → Rat) (c : List W) (N K : Nat) (hc1 : 0 < c.length) (hcK : c.length ≤ K) :
    ∀ (l : Comps W) (n : Nat) (M : BoMat), M.WF N K → n + l.length ≤ N →
      ((l.zipIdx n).foldl (enterStep val c) M).WF N K ∧
      ∀ i' l', l' < K → ((l.zipIdx n).foldl (enterStep val c) M).get i' l' =
        if l' = c.length - 1 then (enterVal val l n c i').getD (M.get i' l') else M.get i' l'
  | [], n, M, hM, _ => by
    refine ⟨hM, fun i' l' _ => ?_⟩
    simp [enterVal]
  | p :: l, n, M, hM, hn => by
    have hn' : n + 1 + l.length ≤ N := by simp at hn; omega
    have hnN : n < N := by simp at hn; omega
    have hlvl : c.length - 1 < K := by omega
    rw [List.zipIdx_cons, List.foldl_cons]
    have hM1 : (enterStep val c M (p, n)).WF N K := by
      unfold enterStep
      split
      · split
        · exact BoMat.wf_set hM _ _ _
        · exact hM
      · exact hM
    obtain ⟨ihW, ihG⟩ := enter_fold val c N K hc1 hcK l (n + 1) (enterStep val c M (p, n)) hM1 hn'
    refine ⟨ihW, fun i' l' hl' => ?_⟩
    rw [ihG i' l' hl']
    have hM1get : (enterStep val c M (p, n)).get i' l' =
        if n = i' ∧ c.length - 1 = l' then
          ((if c.length < p.2.order then (p.2.findGram c).map val else none).getD (M.get i' l'))
        else M.get i' l' := by
      unfold enterStep
      simp only
      by_cases ho : c.length < p.2.order
      · simp only [ho, if_true]
        cases hf : p.2.findGram c with
        | some e =>
          simp only [Option.map_some, Option.getD_some]
          rw [BoMat.get_set hM hnN hlvl hl']
        | none => simp
      · simp [ho]
    rw [hM1get]
    by_cases hlev : l' = c.length - 1
    · simp only [hlev, if_true, and_true]
      unfold enterVal
      by_cases hin : n = i'
      · subst hin
        have : ¬ n + 1 ≤ n := by omega
        simp [this]
      · by_cases hle : n ≤ i'
        · have h1 : n + 1 ≤ i' := by omega
          have h2 : i' - n = (i' - (n + 1)) + 1 := by omega
          simp [hin, hle, h1, h2]
        · have h1 : ¬ n + 1 ≤ i' := by omega
          simp [hin, hle, h1]
    · have : ¬ (n = i' ∧ c.length - 1 = l') := fun h => hlev h.2.symm
      simp [hlev, this]

theorem enterMat_eq_fold (cs : Comps W) (M : BoMat) (c : List W) :
    enterMat cs M c = (cs.zipIdx 0).foldl (enterStep (·.bo) c) M := rfl

theorem wf_enterMat (cs : Comps W) (M : BoMat) (K : Nat) (c : List W) (hM : M.WF cs.length K)
    (hc1 : 0 < c.length) (hcK : c.length ≤ K) : (enterMat cs M c).WF cs.length K :=
  (enter_fold (·.bo) c cs.length K hc1 hcK cs 0 M hM (by omega)).1

/-- **`Get` after `Enter(c)`**: the level of `c` holds every component's back-off for `c`
(`LM.boOf`: 0 unless the component has `c` below its top order); the other levels are untouched -/
theorem get_enterMat (cs : Comps W) (M : BoMat) (K : Nat) (c : List W) (hM : M.WF cs.length K)
    (hc1 : 0 < c.length) (hcK : c.length ≤ K)
    (hclean : ∀ i, M.get i (c.length - 1) = 0) (i l : Nat) (hi : i < cs.length) (hl : l < K) :
    (enterMat cs M c).get i l = if l = c.length - 1 then (cs[i]).2.boOf c else M.get i l := by
  obtain ⟨hW, hG⟩ := enter_fold (·.bo) c cs.length K hc1 hcK cs 0 M hM (by omega)
  rw [enterMat_eq_fold, hG i l hl]
  by_cases hlev : l = c.length - 1
  · simp only [hlev, if_true]
    unfold enterVal LM.boOf
    simp only [Nat.zero_le, if_true, Nat.sub_zero, List.getElem?_eq_getElem hi, Option.bind_some]
    rw [hclean i]
    by_cases ho : c.length < (cs[i]).2.order
    · simp only [ho, if_true]
      cases (cs[i]).2.findGram c <;> simp
    · simp [ho]
  · simp [hlev]

theorem exitMat_eq_fold (cs : Comps W) (M : BoMat) (c : List W) :
    exitMat cs M c = (cs.zipIdx 0).foldl (enterStep (fun _ => 0) c) M := rfl

/-- **`Exit` restores the matrix** (as far as `Get` can see) -/
theorem get_exit_enter (cs : Comps W) (M : BoMat) (K : Nat) (c : List W) (hM : M.WF cs.length K)
    (hc1 : 0 < c.length) (hcK : c.length ≤ K)
    (hclean : ∀ i, M.get i (c.length - 1) = 0) (i l : Nat) (hi : i < cs.length) (hl : l < K) :
    (exitMat cs (enterMat cs M c) c).get i l = M.get i l := by
  have hW := wf_enterMat cs M K c hM hc1 hcK
  have hG := get_enterMat cs M K c hM hc1 hcK hclean i l hi hl
  obtain ⟨_, hG2⟩ := enter_fold (fun _ => 0) c cs.length K hc1 hcK cs 0 (enterMat cs M c) hW (by omega)
  rw [exitMat_eq_fold, hG2 i l hl, hG]
  by_cases hlev : l = c.length - 1
  · simp only [hlev, if_true]
    unfold enterVal LM.boOf
    simp only [Nat.zero_le, if_true, Nat.sub_zero, List.getElem?_eq_getElem hi, Option.bind_some]
    rw [hclean i]
    by_cases ho : c.length < (cs[i]).2.order
    · simp only [ho, if_true]
      cases (cs[i]).2.findGram c <;> simp
    · simp [ho]
  · simp [hlev]

theorem wf_zero (N K : Nat) : (BoMat.zero N K).WF N K := by
  simp [BoMat.zero, BoMat.WF]

theorem get_zero (N K i l : Nat) : (BoMat.zero N K).get i l = 0 := by
  unfold BoMat.zero BoMat.get
  rw [List.getD_eq_getElem?_getD, List.getElem?_replicate]
  split <;> rfl

theorem get_out_of_range {M : BoMat} {N K : Nat} (h : M.WF N K) {i l : Nat} (hi : N ≤ i) :
    M.get i l = 0 := by
  unfold BoMat.get
  rw [List.getD_eq_getElem?_getD, List.getElem?_eq_none]
  · rfl
  · rw [h.2, h.1]
    have : N * K ≤ i * K := Nat.mul_le_mul_right K hi
    omega

/-- the suffix of `c` of length `j` -/
def sufOf (c : List W) (j : Nat) : List W := c.drop (c.length - j)

/-- **`Get` while `SameContext(c)` runs**: level `l` holds component `i`'s back-off for the suffix of
`c` of length `l + 1`; the levels from `|c|` upwards are zero -/
theorem get_pathMat (cs : Comps W) (K : Nat) : ∀ (c : List W), c.length ≤ K →
    (pathMat cs K c).WF cs.length K ∧
    ∀ i l (hi : i < cs.length), l < K →
      (pathMat cs K c).get i l = if l < c.length then (cs[i]).2.boOf (sufOf c (l + 1)) else 0
  | [], _ => ⟨wf_zero _ _, fun i l _ _ => by simp [pathMat, get_zero]⟩
  | y :: c, hK => by
    have hK' : c.length ≤ K := by simp at hK; omega
    have hcK : c.length < K := by simp at hK; omega
    obtain ⟨ihW, ihG⟩ := get_pathMat cs K c hK'
    have hclean : ∀ i, (pathMat cs K c).get i ((y :: c).length - 1) = 0 := by
      intro i
      by_cases hi : i < cs.length
      · rw [ihG i _ hi (by simpa using hcK)]
        simp
      · exact get_out_of_range ihW (by omega)
    refine ⟨wf_enterMat cs _ K (y :: c) ihW (by simp) hK, fun i l hi hl => ?_⟩
    rw [pathMat, get_enterMat cs _ K (y :: c) ihW (by simp) hK hclean i l hi hl]
    by_cases hlev : l = (y :: c).length - 1
    · have hlt : l < (y :: c).length := by rw [hlev]; simp
      have hs : sufOf (y :: c) (l + 1) = y :: c := by
        unfold sufOf
        have : (y :: c).length - (l + 1) = 0 := by rw [hlev]; simp
        rw [this, List.drop_zero]
      rw [if_pos hlev, if_pos hlt, hs]
    · rw [if_neg hlev, ihG i l hi hl]
      by_cases hlc : l < c.length
      · have h1 : l < (y :: c).length := by simp; omega
        have hs : sufOf (y :: c) (l + 1) = sufOf c (l + 1) := by
          unfold sufOf
          have : (y :: c).length - (l + 1) = (c.length - (l + 1)) + 1 := by simp; omega
          rw [this, List.drop_succ_cons]
        rw [if_pos hlc, if_pos h1, hs]
      · have h1 : ¬ l < (y :: c).length := by simp at hlev ⊢; omega
        rw [if_neg hlc, if_neg h1]

theorem sufOf_cons_of_le (y : W) (c : List W) {j : Nat} (hj : j ≤ c.length) :
    sufOf (y :: c) j = sufOf c j := by
  unfold sufOf
  have : (y :: c).length - j = (c.length - j) + 1 := by simp; omega
  rw [this, List.drop_succ_cons]

theorem sufOf_full (c : List W) : sufOf c c.length = c := by
  unfold sufOf; simp

/-- `LM.charge` as the sum over the levels the code loops over -/
theorem charge_eq_sum (m : LM W) : ∀ (c : List W) (from_ : Nat),
    m.charge c from_ =
      ((List.range' from_ (c.length - from_)).map (fun bt => m.boOf (sufOf c (bt + 1)))).sum
  | [], from_ => by simp [LM.charge]
  | y :: c, from_ => by
    rw [LM.charge]
    by_cases h : from_ < (y :: c).length
    · rw [if_pos h, charge_eq_sum m c from_]
      have hle : from_ ≤ c.length := by simp at h; omega
      have hn : (y :: c).length - from_ = (c.length - from_) + 1 := by simp; omega
      rw [hn, List.range'_concat, List.map_append, List.sum_append]
      simp only [List.map_cons, List.map_nil, List.sum_cons, List.sum_nil, Nat.one_mul, add_zero]
      have hlast : from_ + (c.length - from_) + 1 = (y :: c).length := by simp; omega
      rw [hlast, sufOf_full]
      have hmap : (List.range' from_ (c.length - from_)).map (fun bt => m.boOf (sufOf (y :: c) (bt + 1))) =
          (List.range' from_ (c.length - from_)).map (fun bt => m.boOf (sufOf c (bt + 1))) := by
        apply List.map_congr_left
        intro bt hbt
        have := List.mem_range'_1.1 hbt
        rw [sufOf_cons_of_le y c (by omega)]
      rw [hmap]
      ring
    · rw [if_neg h]
      have : (y :: c).length - from_ = 0 := by omega
      rw [this]
      simp

/-- **the charging loop of `SameContext` computes `LM.charge`**: with the matrix as it stands while
`SameContext(c)` runs, what is added to `Prob()` for component `i` found at level `from_` is
`charge c from_`, what is added to `LowerProb()` is `charge c.tail from_`. -/
theorem chargeLoop_pathMat (cs : Comps W) (K : Nat) (c : List W) (hK : c.length ≤ K) (i : Nat)
    (hi : i < cs.length) (from_ : Nat) :
    (chargeLoop (pathMat cs K c) i from_ c.length).2 = (cs[i]).2.charge c from_ ∧
    (chargeLoop (pathMat cs K c) i from_ c.length).1 = (cs[i]).2.charge c.tail from_ := by
  obtain ⟨_, hG⟩ := get_pathMat cs K c hK
  have hget : ∀ bt, bt < c.length → (pathMat cs K c).get i bt = (cs[i]).2.boOf (sufOf c (bt + 1)) := by
    intro bt hbt
    rw [hG i bt hi (by omega), if_pos hbt]
  have hlower : ((List.range' from_ (c.length - 1 - from_)).map (fun bt => (pathMat cs K c).get i bt)).sum =
      (cs[i]).2.charge c.tail from_ := by
    rw [charge_eq_sum]
    cases c with
    | nil => simp
    | cons y c' =>
      simp only [List.length_cons, Nat.add_sub_cancel, List.tail_cons]
      congr 1
      apply List.map_congr_left
      intro bt hbt
      have := List.mem_range'_1.1 hbt
      rw [hget bt (by simp; omega), sufOf_cons_of_le y c' (by omega)]
  unfold chargeLoop
  simp only
  refine ⟨?_, hlower⟩
  by_cases h : from_ < c.length
  · rw [if_pos h, charge_eq_sum]
    have hn : c.length - from_ = (c.length - 1 - from_) + 1 := by omega
    rw [hn, List.range'_concat, List.map_append, List.sum_append]
    simp only [List.map_cons, List.map_nil, List.sum_cons, List.sum_nil, Nat.one_mul, add_zero]
    have hlast : from_ + (c.length - 1 - from_) = c.length - 1 := by omega
    rw [hlast, hget (c.length - 1) (by omega)]
    have hmap : (List.range' from_ (c.length - 1 - from_)).map (fun bt => (pathMat cs K c).get i bt) =
        (List.range' from_ (c.length - 1 - from_)).map (fun bt => (cs[i]).2.boOf (sufOf c (bt + 1))) := by
      apply List.map_congr_left
      intro bt hbt
      have := List.mem_range'_1.1 hbt
      exact hget bt (by omega)
    rw [hmap]
  · rw [if_neg h, charge_eq_sum]
    have h1 : c.length - 1 - from_ = 0 := by omega
    have h2 : c.length - from_ = 0 := by omega
    rw [h1, h2]
    simp

end KV.Interp
