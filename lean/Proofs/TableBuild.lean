import Proofs.ScoreSpec
/-! `Table.build a unmarked` satisfies the interface `TableFor a` for every well-formed model and
every set of blanks that lose their extends-right mark (pre-observation G). -/
namespace KV.Score
open KV.Arpa KV.Table KV.State

theorem lookup_some_mem {β} (l : List (List Word × β)) (k : List Word) (v : β) :
    l.lookup k = some v → (k, v) ∈ l := by
  induction l with
  | nil => intro h; cases h
  | cons p l ih =>
    obtain ⟨k', v'⟩ := p
    intro h
    rw [List.lookup_cons] at h
    by_cases hk : k = k'
    · subst hk; simp at h; subst h; exact List.mem_cons_self
    · have : (k == k') = false := by simpa using hk
      rw [this] at h
      exact List.mem_cons_of_mem _ (ih h)

theorem mem_lookup_ne_none {β} (l : List (List Word × β)) (k : List Word) (v : β) :
    (k, v) ∈ l → l.lookup k ≠ none := by
  induction l with
  | nil => intro h; cases h
  | cons p l ih =>
    obtain ⟨k', v'⟩ := p
    intro h
    rw [List.lookup_cons]
    by_cases hk : k = k'
    · subst hk; simp
    · have : (k == k') = false := by simpa using hk
      rw [this]
      rcases List.mem_cons.mp h with h | h
      · cases h; exact absurd rfl hk
      · exact ih h

theorem extendsLeft_iff (a : Arpa) (g : List Word) :
    extendsLeft a g = true ↔ ∃ p, a.gram p ≠ none ∧ g.length < p.length ∧ g <+: p := by
  unfold extendsLeft
  rw [List.any_eq_true]
  constructor
  · rintro ⟨⟨k, e⟩, hmem, h⟩
    simp only [Bool.and_eq_true, decide_eq_true_eq, List.isPrefixOf_iff_prefix] at h
    exact ⟨k, mem_lookup_ne_none _ _ _ hmem, h.1, h.2⟩
  · rintro ⟨p, hp, hl, hpre⟩
    obtain ⟨e, he⟩ := Option.ne_none_iff_exists'.mp hp
    exact ⟨(p, e), lookup_some_mem _ _ _ he, by simp [hl, List.isPrefixOf_iff_prefix, hpre]⟩

theorem isContext_of_real (a : Arpa) (g : List Word) (x : Word) (h : a.gram (x :: g) ≠ none) : isContext a g = true := by
  unfold isContext
  rw [List.any_eq_true]
  obtain ⟨e, he⟩ := Option.ne_none_iff_exists'.mp h
  exact ⟨(x :: g, e), lookup_some_mem _ _ _ he, by simp⟩

theorem build_lookup_ne_none (a : Arpa) (um : List Word → Bool) (g : List Word) :
    (build a um).lookup g ≠ none ↔ g ≠ [] ∧ (a.gram g ≠ none ∨ extendsLeft a g = true) := by
  cases g with
  | nil => simp [build]
  | cons w ctx =>
    simp only [build]
    cases hg : a.gram (w :: ctx) with
    | some e => simp
    | none =>
      by_cases hx : extendsLeft a (w :: ctx) = true
      · simp [hx]
      · simp [hx]

theorem build_tableFor (a : Arpa) (wf : WellFormed a) (um : List Word → Bool) : TableFor a (build a um) := by
  have key : ∀ g x, g ≠ [] → (build a um).lookup (g ++ [x]) ≠ none → extendsLeft a g = true := by
    intro g x hg h
    rw [build_lookup_ne_none] at h
    rw [extendsLeft_iff]
    rcases h.2 with hr | hx
    · exact ⟨g ++ [x], hr, by simp, List.prefix_append _ _⟩
    · obtain ⟨p, hp, hl, hpre⟩ := (extendsLeft_iff _ _).mp hx
      exact ⟨p, hp, by simp at hl; omega, List.IsPrefix.trans (List.prefix_append _ _) hpre⟩
  refine { order_ge := wf.order_ge, prefix_closed := ?_, xl_sound := ?_, len_le := ?_, order_eq := rfl,
           real := ?_, blank := ?_, xr_live := ?_, nil_none := rfl }
  · intro g x hg h
    rw [build_lookup_ne_none]
    exact ⟨hg, Or.inr (key g x hg h)⟩
  · intro g x t ht hxl
    cases g with
    | nil => cases ht
    | cons w ctx =>
      apply Classical.byContradiction; intro hne
      have hx := key (w :: ctx) x (by simp) hne
      simp only [build] at ht
      cases hg : a.gram (w :: ctx) with
      | some e => simp [hg] at ht; subst ht; simp [hx] at hxl
      | none => simp [hg, hx] at ht; subst ht; simp at hxl
  · intro g h
    rw [build_lookup_ne_none] at h
    rcases h.2 with hr | hx
    · exact wf.len_le g hr
    · obtain ⟨p, hp, hl, _⟩ := (extendsLeft_iff _ _).mp hx
      have := wf.len_le p hp
      show g.length ≤ a.order
      omega
  · intro g e hg
    cases g with
    | nil => exact absurd rfl (wf.len_pos [] (by simp [hg]))
    | cons w ctx => exact ⟨_, by simp only [build, hg]; rfl, rfl, rfl⟩
  · intro w ctx t ht hg
    simp only [build, hg] at ht
    by_cases hx : extendsLeft a (w :: ctx) = true
    · simp [hx] at ht; subst ht; exact ⟨rfl, rfl⟩
    · simp [hx] at ht
  · intro g t ht hlive
    obtain ⟨e, he, hor⟩ := hlive
    cases g with
    | nil => cases ht
    | cons w ctx =>
      simp only [build, he] at ht
      simp at ht; subst ht
      rcases hor with hb | ⟨x, hx⟩
      · simp [hb]
      · simp [isContext_of_real a _ x hx]

end KV.Score
