import Model.Format
import Proofs.Format
import Proofs.FormatRead
import Proofs.FormatChars
/-! Helper lemmas for C19 (core only): the floating-point reader grammar recovers, from the shortest text,
exactly the decimal value `0.d₁…dₙ × 10^point` — for each of the four shapes the formatter produces. -/
namespace KV.Format

/-- what follows the number in the file does not continue it -/
def NumTerm (rest : List Char) : Prop :=
  ∀ c, rest.head? = some c → c.isDigit = false ∧ c ≠ '.' ∧ c ≠ 'e' ∧ c ≠ 'E'

theorem numTerm_nil : NumTerm [] := by intro c h; simp at h

theorem NumTerm.noDigit {rest : List Char} (h : NumTerm rest) : NoDigitHead rest := fun c hc => (h c hc).1

/-- value of a digit list d₁…dₙ as the integer d₁…dₙ -/
def digitsVal (ds : List Nat) : Nat := Nat.ofDigitChars 10 (digitChars ds) 0

theorem readExponent_term (rest : List Char) (h : NumTerm rest) : readExponent rest = (0, rest) := by
  cases rest with
  | nil => rfl
  | cons c t =>
    obtain ⟨_, _, he, hE⟩ := h c rfl
    simp [readExponent, he, hE]

theorem readFraction_term (rest : List Char) (h : NumTerm rest) : readFraction rest = ([], rest) := by
  cases rest with
  | nil => rfl
  | cons c t =>
    obtain ⟨_, hdot, _, _⟩ := h c rfl
    unfold readFraction
    split
    · rename_i heq; simp at heq; exact absurd heq.1 hdot
    · rfl

theorem readMantissa_eq (neg : Bool) (ip fp s1 s2 s3 rest : List Char) (e : Int)
    (h1 : spanDigits s1 = (ip, s2)) (h2 : readFraction s2 = (fp, s3))
    (hne : (ip.isEmpty && fp.isEmpty) = false) (h3 : readExponent s3 = (e, rest)) :
    readMantissa neg s1 = .num neg (Nat.ofDigitChars 10 (ip ++ fp) 0) (e - fp.length) rest := by
  simp [readMantissa, h1, h2, hne, h3]

/-! ### the four shapes -/

theorem decRep_shape_A (c : Conv) (digits : List Nat) (point : Int)
    (h1 : c.emitTrailingDecimalPoint = false) (h2 : c.emitTrailingZeroAfterPoint = false)
    (hp : point ≤ 0) (hL : 1 ≤ digits.length) :
    decRep c digits point (max 0 ((digits.length : Int) - point))
      = '0' :: '.' :: (pad '0' (-point) ++ digitChars digits) := by
  have ha : max 0 ((digits.length : Int) - point) > 0 := by omega
  have hne : ¬ max 0 ((digits.length : Int) - point) = 0 := by omega
  have hz : max 0 ((digits.length : Int) - point) - (-point) - (digits.length : Int) = 0 := by omega
  simp only [decRep, if_pos hp, if_pos ha, if_neg hne, hz, pad, Int.toNat_zero, List.replicate_zero, List.append_nil]

theorem decRep_shape_B (c : Conv) (digits : List Nat) (point : Int)
    (h1 : c.emitTrailingDecimalPoint = false) (h2 : c.emitTrailingZeroAfterPoint = false)
    (hp : ¬ point ≤ 0) (hq : point ≥ (digits.length : Int)) :
    decRep c digits point (max 0 ((digits.length : Int) - point))
      = digitChars digits ++ pad '0' (point - digits.length) := by
  have h0 : max 0 ((digits.length : Int) - point) = 0 := by omega
  have hn : ¬ (0 : Int) > 0 := by omega
  simp [decRep, if_neg hp, if_pos hq, h0, h1, h2]

theorem decRep_shape_C (c : Conv) (digits : List Nat) (point : Int)
    (hp : ¬ point ≤ 0) (hq : ¬ point ≥ (digits.length : Int)) :
    decRep c digits point (max 0 ((digits.length : Int) - point))
      = (digitChars digits).take point.toNat ++ '.' :: (digitChars digits).drop point.toNat := by
  have hne : ¬ max 0 ((digits.length : Int) - point) = 0 := by omega
  have hz : max 0 ((digits.length : Int) - point) - ((digits.length : Int) - point) = 0 := by omega
  simp only [decRep, if_neg hp, if_neg hq, if_neg hne, hz, pad, Int.toNat_zero, List.replicate_zero, List.append_nil]

theorem expRep_shape (c : Conv) (digits : List Nat) (e : Int)
    (hc : c.expChar = 'e') (hplus : c.emitPositiveExponentSign = false) (hw : c.minExpWidth = 0) :
    expRep c digits e
      = (digitChars digits).take 1 ++ (if digits.length ≠ 1 then '.' :: (digitChars digits).drop 1 else [])
        ++ 'e' :: ((if e < 0 then ['-'] else []) ++ fmtNat e.natAbs) := by
  unfold expRep
  simp only [hc, hplus, hw]
  by_cases he : e < 0 <;> simp [he]

/-! ### reading each shape back -/

theorem digitChars_all (ds : List Nat) (hd : ∀ d ∈ ds, d < 10) : ∀ ch ∈ digitChars ds, ch.isDigit = true :=
  digitChars_isDigit ds hd

theorem read_shape_A (neg : Bool) (digits : List Nat) (point : Int) (rest : List Char)
    (hd : ∀ d ∈ digits, d < 10) (hL : 1 ≤ digits.length) (hr : NumTerm rest) :
    readMantissa neg (('0' :: '.' :: (pad '0' (-point) ++ digitChars digits)) ++ rest)
      = .num neg (digitsVal digits) (-(((-point).toNat + digits.length : Nat) : Int)) rest := by
  have hfp : ∀ ch ∈ pad '0' (-point) ++ digitChars digits, ch.isDigit = true := by
    intro ch h
    rcases List.mem_append.mp h with h | h
    · exact pad_zero_isDigit _ _ h
    · exact digitChars_all digits hd _ h
  have h1 : spanDigits (('0' :: '.' :: (pad '0' (-point) ++ digitChars digits)) ++ rest)
      = (['0'], '.' :: ((pad '0' (-point) ++ digitChars digits) ++ rest)) :=
    spanDigits_append ['0'] _ (by intro c hc; simp at hc; subst hc; rfl) (by intro c hc; simp at hc; subst hc; rfl)
  have h2 : readFraction ('.' :: ((pad '0' (-point) ++ digitChars digits) ++ rest))
      = (pad '0' (-point) ++ digitChars digits, rest) := by
    show spanDigits _ = _
    exact spanDigits_append _ _ hfp hr.noDigit
  rw [readMantissa_eq neg _ _ _ _ _ _ 0 h1 h2 (by rfl) (readExponent_term rest hr)]
  congr 1
  · simp [digitsVal, pad, Nat.ofDigitChars_cons, Nat.ofDigitChars_append]
  · simp [pad]

theorem read_shape_B (neg : Bool) (digits : List Nat) (k : Int) (rest : List Char)
    (hd : ∀ d ∈ digits, d < 10) (hL : 1 ≤ digits.length) (hr : NumTerm rest) :
    readMantissa neg ((digitChars digits ++ pad '0' k) ++ rest)
      = .num neg (digitsVal digits * 10 ^ k.toNat) 0 rest := by
  have hip : ∀ ch ∈ digitChars digits ++ pad '0' k, ch.isDigit = true := by
    intro ch h
    rcases List.mem_append.mp h with h | h
    · exact digitChars_all digits hd _ h
    · exact pad_zero_isDigit _ _ h
  have h1 := spanDigits_append _ rest hip hr.noDigit
  have hne : ((digitChars digits ++ pad '0' k).isEmpty && ([] : List Char).isEmpty) = false := by
    cases h : digitChars digits with
    | nil => have := length_digitChars digits; rw [h] at this; simp at this; omega
    | cons a t => rfl
  rw [readMantissa_eq neg _ _ _ _ _ _ 0 h1 (readFraction_term rest hr) hne (readExponent_term rest hr)]
  congr 1
  · simp [digitsVal, pad, Nat.ofDigitChars_append, Nat.mul_comm]

theorem read_shape_C (neg : Bool) (digits : List Nat) (p : Nat) (rest : List Char)
    (hd : ∀ d ∈ digits, d < 10) (hp : 0 < p) (hpL : p < digits.length) (hr : NumTerm rest) :
    readMantissa neg (((digitChars digits).take p ++ '.' :: (digitChars digits).drop p) ++ rest)
      = .num neg (digitsVal digits) (-((digits.length - p : Nat) : Int)) rest := by
  have hall := digitChars_all digits hd
  have h1 : spanDigits (((digitChars digits).take p ++ '.' :: (digitChars digits).drop p) ++ rest)
      = ((digitChars digits).take p, '.' :: ((digitChars digits).drop p ++ rest)) := by
    rw [List.append_assoc]
    exact spanDigits_append _ _ (fun c hc => hall c (List.mem_of_mem_take hc))
      (by intro c hc; simp at hc; subst hc; rfl)
  have h2 : readFraction ('.' :: ((digitChars digits).drop p ++ rest)) = ((digitChars digits).drop p, rest) := by
    show spanDigits _ = _
    exact spanDigits_append _ _ (fun c hc => hall c (List.mem_of_mem_drop hc)) hr.noDigit
  have hne : (((digitChars digits).take p).isEmpty && ((digitChars digits).drop p).isEmpty) = false := by
    have : ((digitChars digits).take p).length = p := by simp; omega
    cases h : (digitChars digits).take p with
    | nil => rw [h] at this; simp at this; omega
    | cons a t => rfl
  rw [readMantissa_eq neg _ _ _ _ _ _ 0 h1 h2 hne (readExponent_term rest hr)]
  congr 1
  · simp [digitsVal]
  · simp

theorem readExponent_fmt (e : Int) (rest : List Char) (he : e.natAbs ≤ 1073741823) (hr : NumTerm rest) :
    readExponent ('e' :: ((if e < 0 then ['-'] else []) ++ fmtNat e.natAbs) ++ rest) = (e, rest) := by
  obtain ⟨p1, p2, p3, p4⟩ := read_prefix e.natAbs rest hr.noDigit
  have hmin : min e.natAbs 1073741823 = e.natAbs := by omega
  by_cases hneg : e < 0
  · have ht : takeSign ('-' :: (fmtNat e.natAbs ++ rest)) = (true, fmtNat e.natAbs ++ rest) := rfl
    have h6 : -((e.natAbs : Nat) : Int) = e := by omega
    simp [readExponent, hneg, ht, p3, p4, ofDigitChars_fmtNat, hmin, h6]
  · have h6 : ((e.natAbs : Nat) : Int) = e := by omega
    simp [readExponent, hneg, p2, p3, p4, ofDigitChars_fmtNat, hmin, h6]

theorem read_shape_D (neg : Bool) (digits : List Nat) (e : Int) (rest : List Char)
    (hd : ∀ d ∈ digits, d < 10) (hL : 1 ≤ digits.length) (he : e.natAbs ≤ 1073741823) (hr : NumTerm rest) :
    readMantissa neg (((digitChars digits).take 1 ++ (if digits.length ≠ 1 then '.' :: (digitChars digits).drop 1 else [])
        ++ 'e' :: ((if e < 0 then ['-'] else []) ++ fmtNat e.natAbs)) ++ rest)
      = .num neg (digitsVal digits) (e - ((digits.length - 1 : Nat) : Int)) rest := by
  have hall := digitChars_all digits hd
  have hexp := readExponent_fmt e rest he hr
  have htk : ((digitChars digits).take 1).isEmpty = false := by
    cases h : digitChars digits with
    | nil => have := length_digitChars digits; rw [h] at this; simp at this; omega
    | cons a t => rfl
  by_cases h1L : digits.length ≠ 1
  · have h1 : spanDigits (((digitChars digits).take 1 ++ (if digits.length ≠ 1 then '.' :: (digitChars digits).drop 1 else [])
        ++ 'e' :: ((if e < 0 then ['-'] else []) ++ fmtNat e.natAbs)) ++ rest)
        = ((digitChars digits).take 1, '.' :: ((digitChars digits).drop 1 ++
            ('e' :: ((if e < 0 then ['-'] else []) ++ fmtNat e.natAbs) ++ rest))) := by
      rw [if_pos h1L]
      simp only [List.append_assoc, List.cons_append]
      exact spanDigits_append _ _ (fun c hc => hall c (List.mem_of_mem_take hc))
        (by intro c hc; simp at hc; subst hc; rfl)
    have h2 : readFraction ('.' :: ((digitChars digits).drop 1 ++
            ('e' :: ((if e < 0 then ['-'] else []) ++ fmtNat e.natAbs) ++ rest)))
        = ((digitChars digits).drop 1, 'e' :: ((if e < 0 then ['-'] else []) ++ fmtNat e.natAbs) ++ rest) := by
      show spanDigits _ = _
      exact spanDigits_append _ _ (fun c hc => hall c (List.mem_of_mem_drop hc))
        (by intro c hc; simp at hc; subst hc; rfl)
    rw [readMantissa_eq neg _ _ _ _ _ _ e h1 h2 (by simp [htk]) hexp]
    congr 1
    · rw [List.take_append_drop]; rfl
    · simp
  · have hL1 : digits.length = 1 := by omega
    have h1 : spanDigits (((digitChars digits).take 1 ++ (if digits.length ≠ 1 then '.' :: (digitChars digits).drop 1 else [])
        ++ 'e' :: ((if e < 0 then ['-'] else []) ++ fmtNat e.natAbs)) ++ rest)
        = ((digitChars digits).take 1, 'e' :: ((if e < 0 then ['-'] else []) ++ fmtNat e.natAbs) ++ rest) := by
      rw [if_neg h1L]
      simp only [List.append_nil, List.append_assoc, List.cons_append]
      exact spanDigits_append _ _ (fun c hc => hall c (List.mem_of_mem_take hc))
        (by intro c hc; simp at hc; subst hc; rfl)
    have h2 : readFraction ('e' :: ((if e < 0 then ['-'] else []) ++ fmtNat e.natAbs) ++ rest)
        = ([], 'e' :: ((if e < 0 then ['-'] else []) ++ fmtNat e.natAbs) ++ rest) := rfl
    rw [readMantissa_eq neg _ _ _ _ _ _ e h1 h2 (by simp [htk]) hexp]
    have htake : (digitChars digits).take 1 = digitChars digits :=
      List.take_of_length_le (by simp [hL1])
    congr 1
    · simp [digitsVal, htake]
    · simp [hL1]

end KV.Format

namespace KV.Format

/-- the text of `fmtShortest` without its sign -/
def shortestBody (c : Conv) (digits : List Nat) (point : Int) : List Char :=
  if c.low ≤ point - 1 ∧ point - 1 < c.high then decRep c digits point (max 0 ((digits.length : Int) - point))
  else expRep c digits (point - 1)

theorem fmtShortest_eq (c : Conv) (neg : Bool) (digits : List Nat) (point : Int) :
    fmtShortest c neg digits point
      = (if neg && (!(digits.all (· == 0)) || !c.uniqueZero) then ['-'] else []) ++ shortestBody c digits point := rfl

/-- configuration facts the value theorem needs (all hold for util::kConverter, checked by `rfl` on the
regenerated constants) -/
structure PlainConv (c : Conv) : Prop where
  tdp : c.emitTrailingDecimalPoint = false
  tz : c.emitTrailingZeroAfterPoint = false
  plus : c.emitPositiveExponentSign = false
  expc : c.expChar = 'e'
  width : c.minExpWidth = 0

theorem digitChars_cons (digits : List Nat) (hd : ∀ d ∈ digits, d < 10) (hL : 1 ≤ digits.length) :
    ∃ a t, digitChars digits = a :: t ∧ a.isDigit = true := by
  cases h : digitChars digits with
  | nil => have := length_digitChars digits; rw [h] at this; simp at this; omega
  | cons a t => exact ⟨a, t, rfl, digitChars_isDigit digits hd a (by simp [h])⟩

/-- the reader recovers digits and exponent from the unsigned text; `k` counts the padding zeros that
were merged into the mantissa. -/
theorem readMantissa_body (c : Conv) (pc : PlainConv c) (neg : Bool) (digits : List Nat) (point : Int)
    (rest : List Char) (hd : ∀ d ∈ digits, d < 10) (hL : 1 ≤ digits.length)
    (hE : (point - 1).natAbs ≤ 1073741823) (hr : NumTerm rest) :
    ∃ (mant : Nat) (exp : Int) (k : Nat),
      readMantissa neg (shortestBody c digits point ++ rest) = .num neg mant exp rest ∧
      mant = digitsVal digits * 10 ^ k ∧ exp + k = point - digits.length := by
  unfold shortestBody
  by_cases hdec : c.low ≤ point - 1 ∧ point - 1 < c.high
  · rw [if_pos hdec]
    by_cases hp : point ≤ 0
    · rw [decRep_shape_A c digits point pc.tdp pc.tz hp hL, read_shape_A neg digits point rest hd hL hr]
      exact ⟨_, _, 0, rfl, by simp, by omega⟩
    · by_cases hq : point ≥ (digits.length : Int)
      · rw [decRep_shape_B c digits point pc.tdp pc.tz hp hq, read_shape_B neg digits _ rest hd hL hr]
        exact ⟨_, _, (point - digits.length).toNat, rfl, rfl, by omega⟩
      · rw [decRep_shape_C c digits point hp hq,
          read_shape_C neg digits point.toNat rest hd (by omega) (by omega) hr]
        exact ⟨_, _, 0, rfl, by simp, by omega⟩
  · rw [if_neg hdec, expRep_shape c digits (point - 1) pc.expc pc.plus pc.width,
      read_shape_D neg digits (point - 1) rest hd hL hE hr]
    exact ⟨_, _, 0, rfl, by simp, by omega⟩

/-- the unsigned text starts with a digit -/
theorem shortestBody_head (c : Conv) (pc : PlainConv c) (digits : List Nat) (point : Int)
    (hd : ∀ d ∈ digits, d < 10) (hL : 1 ≤ digits.length) :
    ∃ a t, shortestBody c digits point = a :: t ∧ a.isDigit = true := by
  obtain ⟨a, t, hat, ha⟩ := digitChars_cons digits hd hL
  unfold shortestBody
  by_cases hdec : c.low ≤ point - 1 ∧ point - 1 < c.high
  · rw [if_pos hdec]
    by_cases hp : point ≤ 0
    · rw [decRep_shape_A c digits point pc.tdp pc.tz hp hL]; exact ⟨'0', _, rfl, rfl⟩
    · by_cases hq : point ≥ (digits.length : Int)
      · rw [decRep_shape_B c digits point pc.tdp pc.tz hp hq, hat]; exact ⟨a, _, rfl, ha⟩
      · rw [decRep_shape_C c digits point hp hq, hat]
        have : point.toNat = (point.toNat - 1) + 1 := by omega
        rw [this, List.take_succ_cons]; exact ⟨a, _, rfl, ha⟩
  · rw [if_neg hdec, expRep_shape c digits (point - 1) pc.expc pc.plus pc.width, hat]
    exact ⟨a, _, rfl, ha⟩

theorem startsWith_false (sym : List Char) (c1 : Char) (hs : ∀ c, sym.head? = some c → c.isDigit = false)
    (h1 : c1.isDigit = true) : startsWith sym c1 = false := by
  unfold startsWith
  cases h : sym.head? with
  | none => rfl
  | some c =>
    have := hs c h
    simp only [beq_eq_false_iff_ne, ne_eq, Option.some.injEq]
    intro hc; subst hc; rw [h1] at this; exact absurd this (by decide)

/-- sign handling of `StringToIeee`: an optional '-' directly followed by a digit. -/
theorem readDecimal_signed (inf nan : List Char) (neg : Bool) (a : Char) (t : List Char)
    (ha : a.isDigit = true) (hinf : ∀ c, inf.head? = some c → c.isDigit = false)
    (hnan : ∀ c, nan.head? = some c → c.isDigit = false) :
    readDecimal inf nan ((if neg then ['-'] else []) ++ a :: t) = readMantissa neg (a :: t) := by
  have hsp : isWhitespaceDC a = false := isSpaceC_of_isDigit ha
  have h1 : a ≠ '-' := by intro hc; subst hc; revert ha; decide
  have h2 : a ≠ '+' := by intro hc; subst hc; revert ha; decide
  have hi := startsWith_false inf a hinf ha
  have hn := startsWith_false nan a hnan ha
  cases neg with
  | true =>
    have hd : ('-' :: a :: t).dropWhile isWhitespaceDC = '-' :: a :: t := List.dropWhile_cons_of_neg (by decide)
    simp [readDecimal, hd, hsp, hi, hn]
  | false =>
    have hd : (a :: t).dropWhile isWhitespaceDC = a :: t := List.dropWhile_cons_of_neg (by simp [hsp])
    have hneg : (a == '-') = false := by simp [h1]
    simp [readDecimal, hd, hi, hn, h1, h2, hneg]

theorem ofDigitChars_digitChars (ds : List Nat) (hd : ∀ d ∈ ds, d < 10) (init : Nat) :
    Nat.ofDigitChars 10 (digitChars ds) init = ds.foldl (fun a d => 10 * a + d) init := by
  induction ds generalizing init with
  | nil => rfl
  | cons d t ih =>
    have hd0 : d < 10 := hd d (by simp)
    have := ih (fun x hx => hd x (by simp [hx])) (10 * init + d)
    simpa [digitChars, Nat.ofDigitChars_cons_digitChar_of_lt_ten hd0] using this

/-- `digitsVal [d₁,…,dₙ]` is the integer d₁…dₙ -/
theorem digitsVal_eq_foldl (ds : List Nat) (hd : ∀ d ∈ ds, d < 10) :
    digitsVal ds = ds.foldl (fun a d => 10 * a + d) 0 := ofDigitChars_digitChars ds hd 0

end KV.Format
