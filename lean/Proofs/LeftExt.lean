import Proofs.LeftSem
/-! What a resumed score means: the probability of the entry reached plus the charged back-offs is the
textbook score given the fragment-internal context `c'` followed by the outside history `h`. -/
namespace KV.Left
open KV.Arpa KV.Table KV.State KV.Score

variable {a : Arpa} {T : Table}

theorem rsum_shift (f : Nat → Rat) (i lo : Nat) : ∀ d, rsum f (i + lo) d = rsum (fun j => f (i + j)) lo d := by
  intro d
  induction d with
  | zero => rfl
  | succ d ih => simp only [rsum, ih, Nat.add_assoc]

theorem take_append_len {α} (c' h : List α) (k : Nat) : (c' ++ h).take (c'.length + k) = c' ++ h.take k := by
  rw [List.take_append, List.take_of_length_le (by omega)]; simp

theorem take_ne_nil {α} {h : List α} {k : Nat} (h1 : 1 ≤ k) (h2 : k ≤ h.length) : h.take k ≠ [] := by
  intro hn
  have := congrArg List.length hn
  simp only [List.length_take, List.length_nil] at this
  omega

/-- **score of one extension.**  `u` was matched with fragment-internal context `c'`; `nu` words of the outside
history `h` are offered (the longer contexts are dead); `c0` of them matched (`t` is the entry reached).
Then entry probability + back-offs of the offered but unmatched contexts = textbook score given `c' ++ h`. -/
theorem ext_score (H : Hyp a T) (u : Word) (c' h : List Word) (nu c0 : Nat) (t : TEntry)
    (hnu : nu ≤ h.length) (hN : c'.length + nu ≤ a.order - 1)
    (hD : ∀ k, nu < k → k ≤ h.length → ¬ live a (c' ++ h.take k))
    (hc0 : c0 ≤ nu)
    (hfound : T.lookup (u :: c' ++ h.take c0) = some t)
    (hstop : c0 < nu → T.lookup (u :: c' ++ h.take (c0+1)) = none) :
    t.prob + rsum (fun j => a.boW (c' ++ h.take (j+1))) c0 (nu - c0) = score a (c' ++ h) u := by
  have ok := H.ok
  have tf := H.tf
  let hh := c' ++ h
  let i := c'.length
  let C := i + c0
  let n := min hh.length (a.order - 1)
  have hhl : hh.length = i + h.length := by simp [hh, i]
  have hCn : i + nu ≤ n := by simp only [n, hhl]; omega
  have hC1 : C ≤ hh.length := by omega
  have hC2 : C ≤ a.order - 1 := by omega
  have htk : ∀ k, hh.take (i + k) = c' ++ h.take k := fun k => take_append_len c' h k
  have hA : t.prob = scoreAt a hh u C := by
    apply entry_prob_eq tf hh u C hC1 hC2 t
    rw [htk c0]; exact hfound
  -- nothing longer than C context words matches
  have hnone : ∀ c, C < c → c ≤ C + (n - C) → a.gram (u :: hh.take c) = none := by
    intro c h1 h2
    have hcn : c ≤ n := by omega
    have hcl : c ≤ hh.length := by simp only [n] at hcn; omega
    obtain ⟨k, rfl⟩ : ∃ k, c = i + k := ⟨c - i, by omega⟩
    have hk1 : c0 < k := by omega
    have hk2 : k ≤ h.length := by omega
    rw [htk k]
    apply Classical.byContradiction; intro hreal
    by_cases hlt : c0 < nu
    · have h0 := hstop hlt
      have : T.lookup (u :: hh.take (i + (c0+1))) = none := by rw [htk]; exact h0
      have h3 := lookup_none_take ok u hh (i + (c0+1)) (i + k) (by omega) this
      rw [htk k] at h3
      exact H.real_in hreal h3
    · have hknu : nu < k := by omega
      have hne : c' ++ h.take k ≠ [] := by
        have := take_ne_nil (h := h) (k := k) (by omega) hk2
        simp [this]
      have hctx := H.wf.ctx_present u (c' ++ h.take k) hne hreal
      obtain ⟨e, he⟩ := Option.ne_none_iff_exists'.mp hctx
      exact hD k hknu hk2 ⟨e, he, Or.inr ⟨u, hreal⟩⟩
  have hskip := scoreAt_skip a hh u C (n - C) hnone
  have hCn' : C + (n - C) = n := by omega
  rw [hCn'] at hskip
  show t.prob + _ = scoreAt a hh u n
  rw [hskip, hA]
  congr 1
  -- the back-off sums
  have hsplit : n - C = (nu - c0) + (n - (i + nu)) := by omega
  rw [hsplit]
  have hz := rsum_zero_tail (f := fun c => a.boW (hh.take (c+1))) (lo := C) (d := nu - c0) (e := n - (i + nu))
    (by
      intro c h1 h2
      show a.boW (hh.take (c+1)) = 0
      obtain ⟨k, rfl⟩ : ∃ k, c = i + k := ⟨c - i, by omega⟩
      have : i + k + 1 = i + (k + 1) := by omega
      rw [this, htk (k+1)]
      apply boW_zero_of_dead
      apply hD (k+1) (by omega)
      have : i + k < n := by omega
      simp only [n, hhl] at this
      omega)
  rw [hz]
  show rsum (fun j => a.boW (c' ++ h.take (j+1))) c0 (nu - c0) = rsum (fun c => a.boW (hh.take (c+1))) (i + c0) (nu - c0)
  rw [rsum_shift]
  apply rsum_congr
  intro j _ _
  show a.boW (c' ++ h.take (j+1)) = a.boW (hh.take (i + j + 1))
  have : i + j + 1 = i + (j + 1) := by omega
  rw [this, htk (j+1)]

end KV.Left

namespace KV.Left
open KV.Arpa KV.Table KV.State KV.Score

variable {a : Arpa} {T : Table}

/-- what one `ExtendLeft` call means, in the terms the loop invariants of `NonTerminal` / `ExtendLoop` use.
`g = u :: c'` is the pointer (the fragment's n-gram ending in `u`), `h` the outside history of which `nu` words
are offered. -/
structure ExtStep (a : Arpa) (T : Table) (R : Ptr → Rat) (u : Word) (c' h : List Word) (nu : Nat) (r : ExtRet) (c0 : Nat) : Prop where
  c0_le : c0 ≤ nu
  len_le : c'.length + 1 + c0 ≤ T.order
  found : T.lookup (u :: c' ++ h.take c0) ≠ none
  prob : r.prob + R (u :: c') = score a (c' ++ h) u
  len : r.ngramLength = c'.length + 1 + c0
  indep : r.independentLeft = (decide (c'.length + 1 + c0 = T.order) || decide (c0 < nu) || !T.xl (u :: c' ++ h.take c0))
  stop : c0 < nu → c'.length + 1 + c0 < T.order → T.lookup (u :: c' ++ h.take (c0+1)) = none
  rest : c'.length + 1 + c0 < T.order → r.rest + R (u :: c') = R (u :: c' ++ h.take c0)
  ptr : c'.length + 1 + c0 < T.order → r.extendLeft = u :: c' ++ h.take c0
  nu_le : r.nextUse ≤ c0 ∧ c'.length + 1 + r.nextUse ≤ T.order - 1
  back : r.backoffOut.take r.nextUse = (List.range r.nextUse).map (fun j => a.boW (u :: c' ++ h.take (j+1)))
  dead : ∀ k, r.nextUse < k → k ≤ h.length → ¬ live a (u :: c' ++ h.take k)
  marked : 0 < r.nextUse → T.xr (u :: c' ++ h.take r.nextUse) = true
  unmarked : ∀ k, r.nextUse < k → k ≤ c0 → c'.length + 1 + k ≤ T.order - 1 → T.xr (u :: c' ++ h.take k) = false

theorem take_take_le {α} (h : List α) {j nu : Nat} (hj : j ≤ nu) : (h.take nu).take j = h.take j := by
  rw [List.take_take, Nat.min_eq_left hj]

theorem extendLeft_step (H : Hyp a T) (R : Ptr → Rat) (u : Word) (c' h : List Word) (nu : Nat) (back : List Rat)
    (tg : TEntry) (hg : T.lookup (u :: c') = some tg) (hxl : tg.extendsLeft = true)
    (hnu : nu ≤ h.length) (hN : c'.length + 1 + nu ≤ a.order)
    (hgN : c'.length + 1 ≤ a.order - 1)
    (hback : back.take nu = (List.range nu).map (fun j => a.boW (c' ++ h.take (j+1))))
    (hD : ∀ k, nu < k → k ≤ h.length → ¬ live a (c' ++ h.take k)) :
    ∃ c0, ExtStep a T R u c' h nu (extendLeft T R (h.take nu) back (u :: c') (c'.length + 1)) c0 := by
  have ok := H.ok
  have tf := H.tf
  have hord : T.order = a.order := tf.order_eq
  let g := u :: c'
  let add := h.take nu
  have haddl : add.length = nu := by simp [add, List.length_take]; omega
  let acc0 : Acc Ptr :=
    { ret := { prob := tg.prob, rest := R g, ngramLength := c'.length + 1, independentLeft := false, extendLeft := g },
      backoffOut := [], nextUse := c'.length + 1 }
  have hf : (foundOf T R g).getD notFound = { toFound tg with rest := R g } := by simp [foundOf, g, hg]
  have hinv : ExtInv T R g add acc0 0 g acc0 := by
    refine ⟨by simp, by omega, ?_, rfl, ⟨tg, by simpa [g] using hg, rfl, by simp [acc0, hxl]⟩, by simp [acc0], by simp [acc0], by simp, Or.inl ⟨rfl, fun j hj => by omega⟩⟩
    show (u :: c').length + 0 ≤ T.order - 1
    simp only [List.length_cons]; omega
  obtain ⟨c0, post⟩ := resume_ext T R ok g add acc0 (by simp [g]) (add.length - 0) 0 g acc0 rfl hinv
  have hgl : g.length = c'.length + 1 := by simp [g]
  simp only [List.drop_zero, Nat.add_zero, hgl, Nat.add_sub_cancel] at post
  -- the result of the model function, in terms of the resumed loop
  have hdef : extendLeft T R add back g (c'.length + 1) =
      (let acc := resumeScore (restSearch T R) add (c'.length + 1 - 1) g acc0
       { prob := acc.ret.prob + ((back.take add.length).drop (acc.ret.ngramLength - (c'.length + 1))).sum - R g,
         rest := acc.ret.rest - R g, ngramLength := acc.ret.ngramLength, independentLeft := acc.ret.independentLeft,
         extendLeft := acc.ret.extendLeft, backoffOut := acc.backoffOut, nextUse := acc.nextUse - (c'.length + 1) }) := by
    unfold extendLeft
    simp only [hf, toFound, acc0, hxl]
    by_cases h1 : (c'.length + 1 == 1) = true <;> simp [h1]
  simp only [Nat.add_sub_cancel] at hdef
  generalize hacc : resumeScore (restSearch T R) add c'.length g acc0 = acc at post hdef
  have hc0 := post.c0_le
  rw [haddl] at hc0
  have hlenle := post.len_le
  rw [hgl] at hlenle
  obtain ⟨t, ht, hp⟩ := post.found
  have hgt : ∀ j, j ≤ nu → g ++ add.take j = u :: c' ++ h.take j := by
    intro j hj; simp only [add, take_take_le h hj, g, List.cons_append]
  rw [hgt c0 hc0] at ht
  let m := min c0 (T.order - 1 - (c'.length + 1))
  have hm_le : m ≤ c0 := Nat.min_le_left _ _
  -- nextUse facts
  have hnu : ∃ nx, acc.nextUse - (c'.length + 1) = nx ∧ nx ≤ m ∧
      (∀ j, nx ≤ j → j < m → T.xr (u :: c' ++ h.take (j+1)) = false) ∧ (0 < nx → T.xr (u :: c' ++ h.take nx) = true) := by
    rcases post.nu with ⟨he, hall⟩ | ⟨j, hj, he, hxr, hall⟩
    · refine ⟨0, by rw [he]; simp [acc0], by omega, ?_, by omega⟩
      intro j _ hj
      have := hall j (by simpa [hgl] using hj)
      rwa [hgt (j+1) (by omega)] at this
    · rw [hgl] at hj he hall
      refine ⟨j+1, by rw [he]; omega, by omega, ?_, ?_⟩
      · intro j' h1 h2
        have := hall j' (by omega) h2
        rwa [hgt (j'+1) (by omega)] at this
      · intro _
        rwa [hgt (j+1) (by omega)] at hxr
  obtain ⟨nx, hnx, hnxm, hun, hma⟩ := hnu
  have hmN : c'.length + 1 + m ≤ T.order - 1 := by
    have := Nat.min_le_right c0 (T.order - 1 - (c'.length + 1)); omega
  refine ⟨c0, ?_⟩
  rw [hdef]
  refine { c0_le := hc0, len_le := hlenle, found := by rw [ht]; simp, prob := ?_, len := ?_, indep := ?_, stop := ?_,
           rest := ?_, ptr := ?_, nu_le := ?_, back := ?_, dead := ?_, marked := ?_, unmarked := ?_ }
  · -- probability
    show acc.ret.prob + ((back.take add.length).drop (acc.ret.ngramLength - (c'.length + 1))).sum - R g + R (u :: c') = _
    rw [post.len, hgl, haddl, hp, hback]
    have e1 : c'.length + 1 + c0 - (c'.length + 1) = c0 := by omega
    rw [e1, sum_drop_range_map _ _ _ hc0]
    have hsc := ext_score H u c' h nu c0 t hnu (by omega) hD hc0 ht
      (by
        intro hlt
        by_cases hN' : c'.length + 1 + c0 < T.order
        · have := post.stop (by rw [haddl]; exact hlt) (by rw [hgl]; exact hN')
          rwa [hgt (c0+1) (by omega)] at this
        · omega)
    rw [← hsc]
    show t.prob + _ - R (u :: c') + R (u :: c') = _
    grind
  · show acc.ret.ngramLength = _
    rw [post.len, hgl]
  · show acc.ret.independentLeft = _
    rw [post.indep, hgl, haddl, hgt c0 hc0]
  · intro h1 h2
    have := post.stop (by rw [haddl]; exact h1) (by rw [hgl]; exact h2)
    rwa [hgt (c0+1) (by omega)] at this
  · intro h1
    show acc.ret.rest - R g + R (u :: c') = _
    rw [post.rest, hgl]
    have : ¬ (c'.length + 1 + c0 = T.order) := by omega
    simp only [this, if_false, hgt c0 hc0]
    show R (u :: c' ++ h.take c0) - R (u :: c') + R (u :: c') = _
    grind
  · intro h1
    show acc.ret.extendLeft = _
    rw [post.ptr (by rw [hgl]; exact h1), hgt c0 hc0]
  · show acc.nextUse - (c'.length + 1) ≤ c0 ∧ c'.length + 1 + (acc.nextUse - (c'.length + 1)) ≤ T.order - 1
    rw [hnx]; omega
  · show acc.backoffOut.take (acc.nextUse - (c'.length + 1)) = _
    rw [hnx, post.bo, hgl]
    show ([] ++ (List.range m).map _).take nx = _
    rw [List.nil_append, ← List.map_take, List.take_range, Nat.min_eq_left hnxm]
    apply List.map_congr_left
    intro j hj
    have hj' : j < nx := by simpa using hj
    rw [hgt (j+1) (by omega), tf.bo_eq H.wf]
  · -- deadness of the longer contexts
    show ∀ k, acc.nextUse - (c'.length + 1) < k → k ≤ h.length → ¬ live a (u :: c' ++ h.take k)
    rw [hnx]
    intro k hk1 hk2
    by_cases hkc : k ≤ c0
    · by_cases hkm : k ≤ m
      · -- a middle entry without the mark
        have hx := hun (k-1) (by omega) (by omega)
        have e : k - 1 + 1 = k := by omega
        rw [e] at hx
        intro hl
        have := H.xr_of_live hl
        rw [hx] at this; cases this
      · -- the highest order
        intro hl
        obtain ⟨e, he, hor⟩ := hl
        have hlen : (u :: c' ++ h.take k).length = a.order := by
          simp only [List.length_cons, List.length_append, List.length_take]
          have : min k h.length = k := by omega
          simp only [m] at hkm
          omega
        rcases hor with hb | ⟨x, hx⟩
        · exact hb (H.wf.top_bo _ e he hlen)
        · have := H.wf.len_le _ hx
          simp only [List.length_cons] at this hlen
          omega
    · by_cases hlt : c0 < nu
      · intro hl
        have hr := live_real hl
        by_cases hN' : c'.length + 1 + c0 < T.order
        · have h0 := post.stop (by rw [haddl]; exact hlt) (by rw [hgl]; exact hN')
          rw [hgt (c0+1) (by omega)] at h0
          have e : u :: c' ++ h.take k = (u :: c' ++ h.take (c0+1)) ++ (h.drop (c0+1)).take (k - (c0+1)) := by
            have : k = (c0 + 1) + (k - (c0+1)) := by omega
            conv => lhs; rw [this, List.take_add]
            simp
          rw [e] at hr
          exact H.real_in hr (lookup_none_extend ok _ _ (by simp) h0)
        · have := H.wf.len_le _ hr
          simp only [List.length_cons, List.length_append, List.length_take] at this
          have : min k h.length = k := by omega
          omega
      · have hknu : nu < k := by omega
        have := hD k hknu hk2
        have hne : c' ++ h.take k ≠ [] := by
          have := take_ne_nil (h := h) (k := k) (by omega) hk2
          simp [this]
        exact H.dead_cons [u] _ hne this
  · show 0 < acc.nextUse - (c'.length + 1) → T.xr (u :: c' ++ h.take (acc.nextUse - (c'.length + 1))) = true
    rw [hnx]; exact hma
  · show ∀ k, acc.nextUse - (c'.length + 1) < k → k ≤ c0 → c'.length + 1 + k ≤ T.order - 1 → _
    rw [hnx]
    intro k h1 h2 h3
    have hx := hun (k-1) (by omega) (by simp only [m]; omega)
    have e : k - 1 + 1 = k := by omega
    rwa [e] at hx

end KV.Left
