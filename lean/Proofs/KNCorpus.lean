import Proofs.KNTable
/-!
From the corpus to the table hypotheses: for every non-empty corpus without special symbols
(all word ids ≥ 3) and monotone thresholds, `countFull cfg.order corpus` satisfies `Spec.TableWF`
(`tableWF_countFull`), hence the model `Spec.estimate` returns is normalised in every context
(`normalised_corpus`), with no table-level assumption left.
-/
namespace KV.KN.Norm

open KV.KN KV.KN.Spec

/-! ## A. `combineSorted` -/

/-- the total count of the rows whose n-gram satisfies `P` -/
def sumP (P : Gram → Bool) (l : List (Gram × Nat)) : Nat :=
  ((l.filter fun e => P e.1).map (·.2)).sum

theorem sumP_cons (P : Gram → Bool) (g : Gram) (c : Nat) (l : List (Gram × Nat)) :
    sumP P ((g, c) :: l) = (if P g then c else 0) + sumP P l := by
  unfold sumP
  by_cases h : P g = true <;> simp [h]

theorem cs_nil {g : Gram} {c : Nat} {t : List (Gram × Nat)} (h : combineSorted t = []) :
    combineSorted ((g, c) :: t) = [(g, c)] := by
  rw [combineSorted, h]

theorem cs_eq {g : Gram} {c d : Nat} {t r : List (Gram × Nat)} (h : combineSorted t = (g, d) :: r) :
    combineSorted ((g, c) :: t) = (g, c + d) :: r := by
  rw [combineSorted, h]; simp

theorem cs_ne {g h' : Gram} {c d : Nat} {t r : List (Gram × Nat)}
    (h : combineSorted t = (h', d) :: r) (hne : g ≠ h') :
    combineSorted ((g, c) :: t) = (g, c) :: (h', d) :: r := by
  rw [combineSorted, h]; simp [hne]

/-- case analysis on one step of `combineSorted` -/
theorem cs_cases (g : Gram) (c : Nat) (t : List (Gram × Nat)) :
    (combineSorted t = [] ∧ combineSorted ((g, c) :: t) = [(g, c)]) ∨
    (∃ d r, combineSorted t = (g, d) :: r ∧ combineSorted ((g, c) :: t) = (g, c + d) :: r) ∨
    (∃ h' d r, g ≠ h' ∧ combineSorted t = (h', d) :: r ∧
      combineSorted ((g, c) :: t) = (g, c) :: (h', d) :: r) := by
  cases hR : combineSorted t with
  | nil => exact Or.inl ⟨rfl, cs_nil hR⟩
  | cons a r =>
    obtain ⟨h', d⟩ := a
    by_cases hg : g = h'
    · subst hg; exact Or.inr (Or.inl ⟨d, r, rfl, cs_eq hR⟩)
    · exact Or.inr (Or.inr ⟨h', d, r, hg, rfl, cs_ne hR hg⟩)

theorem cs_sum (P : Gram → Bool) (l : List (Gram × Nat)) : sumP P (combineSorted l) = sumP P l := by
  induction l with
  | nil => simp [combineSorted]
  | cons a t ih =>
    obtain ⟨g, c⟩ := a
    rw [sumP_cons, ← ih]
    rcases cs_cases g c t with ⟨h1, h2⟩ | ⟨d, r, h1, h2⟩ | ⟨h', d, r, _, h1, h2⟩
    · rw [h2, h1, sumP_cons]
    · rw [h2, h1, sumP_cons, sumP_cons]; split <;> omega
    · rw [h2, h1, sumP_cons]

theorem cs_keys (l : List (Gram × Nat)) (g : Gram) :
    g ∈ (combineSorted l).map (·.1) ↔ g ∈ l.map (·.1) := by
  induction l with
  | nil => simp [combineSorted]
  | cons a t ih =>
    obtain ⟨g', c⟩ := a
    rcases cs_cases g' c t with ⟨h1, h2⟩ | ⟨d, r, h1, h2⟩ | ⟨h', d, r, _, h1, h2⟩
    · rw [h2]; rw [h1] at ih; simp only [List.map_cons, List.mem_cons] at ih ⊢
      simp only [List.map_nil, List.not_mem_nil, false_iff] at ih
      simp [ih]
    · rw [h2]; rw [h1] at ih; simp only [List.map_cons, List.mem_cons] at ih ⊢
      rw [← ih]; simp
    · rw [h2]; rw [h1] at ih; simp only [List.map_cons, List.mem_cons] at ih ⊢
      rw [← ih]

theorem cs_pos (l : List (Gram × Nat)) (h : ∀ e ∈ l, 1 ≤ e.2) : ∀ e ∈ combineSorted l, 1 ≤ e.2 := by
  induction l with
  | nil => simp [combineSorted]
  | cons a t ih =>
    obtain ⟨g, c⟩ := a
    have hc : 1 ≤ c := h (g, c) (List.mem_cons_self ..)
    have ih' := ih (fun e he => h e (List.mem_cons_of_mem _ he))
    rcases cs_cases g c t with ⟨h1, h2⟩ | ⟨d, r, h1, h2⟩ | ⟨h', d, r, _, h1, h2⟩
    · rw [h2]; intro e he; simp at he; subst he; exact hc
    · rw [h2]; rw [h1] at ih'
      intro e he
      rcases List.mem_cons.mp he with rfl | he
      · show 1 ≤ c + d; omega
      · exact ih' e (List.mem_cons_of_mem _ he)
    · rw [h2]; rw [h1] at ih'
      intro e he
      rcases List.mem_cons.mp he with rfl | he
      · exact hc
      · exact ih' e he

/-- a sorted input gives a sorted output without repeated n-grams -/
theorem cs_sorted_nodup (l : List (Gram × Nat)) (h : l.Pairwise fun a b => a.1 ≤ b.1) :
    (combineSorted l).Pairwise (fun a b => a.1 ≤ b.1) ∧ ((combineSorted l).map (·.1)).Nodup := by
  induction l with
  | nil => simp [combineSorted]
  | cons a t ih =>
    obtain ⟨g, c⟩ := a
    rw [List.pairwise_cons] at h
    obtain ⟨ih1, ih2⟩ := ih h.2
    -- `g` is below every n-gram of the combined tail
    have hle : ∀ e ∈ combineSorted t, g ≤ e.1 := by
      intro e he
      have : e.1 ∈ t.map (·.1) := (cs_keys t e.1).mp (List.mem_map.mpr ⟨e, he, rfl⟩)
      obtain ⟨e', he', h3⟩ := List.mem_map.mp this
      rw [← h3]; exact h.1 e' he'
    rcases cs_cases g c t with ⟨h1, h2⟩ | ⟨d, r, h1, h2⟩ | ⟨h', d, r, hne, h1, h2⟩
    · rw [h2]; simp
    · rw [h2]; rw [h1] at ih1 ih2
      rw [List.pairwise_cons] at ih1 ⊢
      exact ⟨⟨ih1.1, ih1.2⟩, by simpa using ih2⟩
    · rw [h2]; rw [h1] at ih1 ih2 hle
      refine ⟨List.pairwise_cons.mpr ⟨hle, ih1⟩, ?_⟩
      rw [List.map_cons, List.nodup_cons]
      refine ⟨?_, ih2⟩
      intro hmem
      obtain ⟨e, he, h3⟩ := List.mem_map.mp hmem
      rcases List.mem_cons.mp he with rfl | he
      · exact hne h3.symm
      · -- g ≤ h' ≤ e.1 = g
        have h4 : h' ≤ e.1 := (List.pairwise_cons.mp ih1).1 e he
        have h5 : g ≤ h' := hle (h', d) (List.mem_cons_self ..)
        rw [h3] at h4
        exact hne (List.le_antisymm h5 h4)

/-! ## B. `countFull` -/

theorem gramLe_sorted (l : List (Gram × Nat)) :
    (l.mergeSort gramLe).Pairwise fun a b => a.1 ≤ b.1 := by
  have := List.pairwise_mergeSort (le := gramLe)
    (fun a b c h1 h2 => by
      simp only [gramLe, decide_eq_true_eq] at *
      exact List.le_trans h1 h2)
    (fun a b => by
      simp only [gramLe, Bool.or_eq_true, decide_eq_true_eq]
      exact List.le_total a.1 b.1) l
  exact this.imp (fun h => by simpa [gramLe] using h)

theorem countFull_nodup (N : Nat) (corpus : List (List Word)) :
    ((countFull N corpus).map (·.1)).Nodup :=
  (cs_sorted_nodup _ (gramLe_sorted _)).2

theorem mem_countFull_keys (N : Nat) (corpus : List (List Word)) (g : Gram) :
    g ∈ (countFull N corpus).map (·.1) ↔ g ∈ occurrences N corpus := by
  unfold countFull
  rw [cs_keys, List.mem_map]
  constructor
  · rintro ⟨e, he, rfl⟩
    rw [List.mem_mergeSort] at he
    obtain ⟨g', hg', rfl⟩ := List.mem_map.mp he
    exact hg'
  · intro hg
    exact ⟨(g, 1), List.mem_mergeSort.mpr (List.mem_map.mpr ⟨g, hg, rfl⟩), rfl⟩

theorem countFull_pos (N : Nat) (corpus : List (List Word)) : ∀ e ∈ countFull N corpus, 1 ≤ e.2 := by
  apply cs_pos
  intro e he
  rw [List.mem_mergeSort] at he
  obtain ⟨g', _, rfl⟩ := List.mem_map.mp he
  exact Nat.le_refl 1

theorem sumP_ones (P : Gram → Bool) (l : List Gram) :
    sumP P (l.map fun g => (g, 1)) = l.countP P := by
  induction l with
  | nil => rfl
  | cons a t ih =>
    rw [List.map_cons, sumP_cons, ih, List.countP_cons]
    split <;> omega

theorem sumP_countFull (P : Gram → Bool) (N : Nat) (corpus : List (List Word)) :
    sumP P (countFull N corpus) = (occurrences N corpus).countP P := by
  unfold countFull
  rw [cs_sum, ← sumP_ones]
  unfold sumP
  exact (((List.mergeSort_perm _ _).filter _).map _).sum_eq

/-- the true count of `k` in the table is the number of occurrences with suffix `k` -/
theorem trueCount_countFull (N : Nat) (corpus : List (List Word)) (k : Gram) :
    trueCount (countFull N corpus) k =
      (occurrences N corpus).countP (fun g => g.take k.length == k) :=
  sumP_countFull (fun g => g.take k.length == k) N corpus

/-! ## C. `windows` -/

theorem windows_cons (n : Nat) (a : Word) (t : List Word) :
    windows n (a :: t) =
      if n ≤ (a :: t).length then ((a :: t).take n).reverse :: windows n t else [] := by
  rw [windows]

theorem mem_windows {n : Nat} {l : List Word} {g : Gram} (h : g ∈ windows n l) :
    ∃ i, i + n ≤ l.length ∧ g = ((l.drop i).take n).reverse := by
  induction l with
  | nil => simp [windows] at h
  | cons a t ih =>
    rw [windows_cons] at h
    split at h
    · rename_i hn
      rcases List.mem_cons.mp h with rfl | h
      · exact ⟨0, by simpa using hn, rfl⟩
      · obtain ⟨i, hi, hg⟩ := ih h
        exact ⟨i + 1, by simp only [List.length_cons]; omega, by rw [List.drop_succ_cons]; exact hg⟩
    · cases h

theorem shift_local (M n : Nat) (hn : n ≤ M) (y : Word) (Q : List Word) (hQ : M + 1 ≤ Q.length)
    (k : Gram) (h : ((Q.take (M + 1)).reverse).take (n + 1) = k) :
    (((y :: Q).take (M + 1)).reverse).take n = k.tail := by
  have hq : Q[M]? = some (Q[M]'(by omega)) := List.getElem?_eq_getElem (by omega)
  have h1 : Q.take (M + 1) = Q.take M ++ [Q[M]'(by omega)] := by
    rw [List.take_add_one, hq]; rfl
  rw [h1, List.reverse_append] at h
  simp only [List.reverse_cons, List.reverse_nil, List.nil_append, List.cons_append,
    List.take_succ_cons] at h
  rw [← h, List.tail_cons, List.take_succ_cons, List.reverse_cons]
  apply List.take_append_of_le_length
  rw [List.length_reverse, List.length_take]
  omega

/-- every window after the first has a predecessor whose suffix is its context -/
theorem countP_windows_shift (N n : Nat) (hn : n < N) (k : Gram) (l : List Word) :
    (windows N l.tail).countP (fun g => g.take (n + 1) == k) ≤
      (windows N l).countP (fun g => g.take n == k.tail) := by
  obtain ⟨M, rfl⟩ : ∃ M, N = M + 1 := ⟨N - 1, by omega⟩
  induction l with
  | nil => simp [windows]
  | cons y Q ih =>
    rw [List.tail_cons]
    cases Q with
    | nil => simp [windows]
    | cons z Q' =>
      rw [List.tail_cons] at ih
      rw [windows_cons (M + 1) z Q']
      split
      · rename_i hlen
        rw [windows_cons (M + 1) y (z :: Q'), if_pos (by simp only [List.length_cons] at *; omega),
          List.countP_cons, List.countP_cons]
        have hloc : (((z :: Q').take (M + 1)).reverse.take (n + 1) == k) = true →
            (((y :: z :: Q').take (M + 1)).reverse.take n == k.tail) = true := by
          intro h
          have h' := shift_local M n (by omega) y (z :: Q') hlen k (by simpa using h)
          rw [h']; exact beq_self_eq_true _
        rw [windows_cons (M + 1) z Q', if_pos hlen, List.countP_cons]
        rw [windows_cons (M + 1) z Q', if_pos hlen, List.countP_cons] at ih
        by_cases hp : (((z :: Q').take (M + 1)).reverse.take (n + 1) == k) = true
        · simp only [hp, hloc hp, if_true]; omega
        · simp only [hp, Bool.false_eq_true, if_false]; omega
      · simp

/-! ## D. The padded sentence -/

theorem paddedN_length (N : Nat) (s : List Word) : (paddedN N s).length = N - 1 + s.length + 1 := by
  simp [paddedN]; omega

theorem pad_get_lo {N : Nat} {s : List Word} {m : Nat} (hm : m < N - 1) :
    (paddedN N s)[m]? = some bos := by
  unfold paddedN
  rw [List.append_assoc, List.getElem?_append_left (by simpa using hm), List.getElem?_replicate,
    if_pos hm]

theorem pad_get_hi {N : Nat} {s : List Word} {m : Nat} {x : Word} (hm : N - 1 ≤ m)
    (hx : (paddedN N s)[m]? = some x) : x ∈ s ∨ x = eos := by
  unfold paddedN at hx
  rw [List.append_assoc, List.getElem?_append_right (by simpa using hm)] at hx
  have := List.mem_of_getElem? hx
  simpa using this

theorem pad_get_mid {N : Nat} {s : List Word} {m : Nat} {x : Word} (hm : N - 1 ≤ m)
    (hm' : m + 1 < (paddedN N s).length) (hx : (paddedN N s)[m]? = some x) : x ∈ s := by
  rw [paddedN_length] at hm'
  unfold paddedN at hx
  rw [List.append_assoc, List.getElem?_append_right (by simpa using hm),
    List.getElem?_append_left (by simp only [List.length_replicate]; omega)] at hx
  exact List.mem_of_getElem? hx

/-- the words of a window, newest first, by position in the sentence -/
theorem win_get {N : Nat} {P : List Word} {i j : Nat} (hi : i + N ≤ P.length) (hj : j < N) :
    (((P.drop i).take N).reverse)[j]? = P[i + (N - 1 - j)]? := by
  have hl : ((P.drop i).take N).length = N := by
    rw [List.length_take, List.length_drop]; omega
  rw [List.getElem?_reverse (by omega), hl, List.getElem?_take, if_pos (by omega),
    List.getElem?_drop]

theorem not_special_of_mem {s : List Word} (hs : ∀ w ∈ s, 3 ≤ w) {x : Word} (hx : x ∈ s ∨ x = eos) :
    x ≠ bos ∧ x ≠ unk := by
  rcases hx with h | rfl
  · have := hs x h
    exact ⟨fun e => absurd (e ▸ this) (by decide), fun e => absurd (e ▸ this) (by decide)⟩
  · exact ⟨by decide, by decide⟩

section
variable {N : Nat} {s : List Word} (hs : ∀ w ∈ s, 3 ≤ w) {i : Nat}
  (hi : i + N ≤ (paddedN N s).length)
include hs hi

omit hs in
theorem win_len : (((paddedN N s).drop i).take N).reverse.length = N := by
  rw [List.length_reverse, List.length_take, List.length_drop]; omega

theorem win_head (hN : 1 ≤ N) :
    (((paddedN N s).drop i).take N).reverse.head? ≠ some bos ∧
    (((paddedN N s).drop i).take N).reverse.head? ≠ some unk := by
  rw [List.head?_eq_getElem?, win_get hi (by omega)]
  have key : ∀ x, (paddedN N s)[i + (N - 1 - 0)]? = some x → x ≠ bos ∧ x ≠ unk :=
    fun x hx => not_special_of_mem hs (pad_get_hi (by omega) hx)
  exact ⟨fun h => (key _ h).1 rfl, fun h => (key _ h).2 rfl⟩

theorem win_second (hN : 2 ≤ N) :
    (((paddedN N s).drop i).take N).reverse[1]? ≠ some unk ∧
    (((paddedN N s).drop i).take N).reverse[1]? ≠ some eos := by
  rw [win_get hi (by omega)]
  by_cases h0 : i = 0
  · subst h0
    rw [pad_get_lo (by omega)]
    exact ⟨by decide, by decide⟩
  · have key : ∀ x, (paddedN N s)[i + (N - 1 - 1)]? = some x → 3 ≤ x :=
      fun x hx => hs x (pad_get_mid (by omega) (by omega) hx)
    exact ⟨fun h => absurd (key _ h) (by decide), fun h => absurd (key _ h) (by decide)⟩

theorem win_bosRun : BosRun N (((paddedN N s).drop i).take N).reverse := by
  intro a b hab hb h
  rw [win_get hi (by omega)] at h
  rw [win_get hi hb]
  have hlo : i + (N - 1 - a) < N - 1 := by
    by_contra hge
    exact (not_special_of_mem hs (pad_get_hi (by omega) h)).1 rfl
  exact pad_get_lo (by omega)

end

theorem occ_rep {N : Nat} {corpus : List (List Word)} {g : Gram} (hg : g ∈ occurrences N corpus) :
    ∃ s ∈ corpus, ∃ i, i + N ≤ (paddedN N s).length ∧
      g = (((paddedN N s).drop i).take N).reverse := by
  unfold occurrences at hg
  obtain ⟨s, hs, hg'⟩ := List.mem_flatMap.mp hg
  exact ⟨s, hs, mem_windows hg'⟩

theorem sum_map_le_nat {α : Type} (l : List α) (f g : α → Nat) (h : ∀ x ∈ l, f x ≤ g x) :
    (l.map f).sum ≤ (l.map g).sum := by
  induction l with
  | nil => simp
  | cons a t ih =>
    have := h a (List.mem_cons_self ..)
    have := ih (fun x hx => h x (List.mem_cons_of_mem _ hx))
    simp only [List.map_cons, List.sum_cons]; omega

/-- per sentence: occurrences with suffix `k` are dominated by occurrences with suffix `k.tail` -/
theorem sentence_tailDom {N : Nat} (s : List Word) (hN : 2 ≤ N) {n : Nat} (h1 : 1 ≤ n) (hn : n < N)
    (k : Gram) (hk : k.length = n + 1) (hval : bos ∉ k.take n) (hne : k.tail ≠ [bos]) :
    (windows N (paddedN N s)).countP (fun g => g.take (n + 1) == k) ≤
      (windows N (paddedN N s)).countP (fun g => g.take n == k.tail) := by
  have hlen := paddedN_length N s
  cases hP : paddedN N s with
  | nil => rw [hP] at hlen; simp at hlen
  | cons b P' =>
    have hshift := countP_windows_shift N n hn k (b :: P')
    rw [List.tail_cons] at hshift
    have hle : N ≤ (b :: P').length := by rw [← hP, hlen]; omega
    have hw : windows N (b :: P') = ((b :: P').take N).reverse :: windows N P' := by
      rw [windows_cons, if_pos hle]
    -- the first window does not have suffix `k`
    have h0 : ((((b :: P').take N).reverse).take (n + 1) == k) = false := by
      cases hb : ((((b :: P').take N).reverse).take (n + 1) == k) with
      | false => rfl
      | true =>
        exfalso
        have hk' : (((b :: P').take N).reverse).take (n + 1) = k := by simpa using hb
        have hget : k[1]? = some bos := by
          rw [← hk', List.getElem?_take, if_pos (by omega)]
          have := win_get (N := N) (P := paddedN N s) (i := 0) (j := 1) (by omega) (by omega)
          rw [List.drop_zero, hP] at this
          rw [this, ← hP, pad_get_lo (by omega)]
        by_cases hn2 : 2 ≤ n
        · apply hval
          apply List.mem_of_getElem? (i := 1)
          rw [List.getElem?_take, if_pos (by omega)]; exact hget
        · have hn1 : n = 1 := by omega
          subst hn1
          apply hne
          cases k with
          | nil => simp at hk
          | cons a t =>
            cases t with
            | nil => simp at hk
            | cons c t' =>
              cases t' with
              | nil => simp at hget; simp [hget]
              | cons _ _ => simp at hk
    rw [hw] at hshift
    rw [hw, List.countP_cons, h0]
    simp only [Bool.false_eq_true, if_false, Nat.add_zero]
    exact hshift

/-! ## E. The table of a corpus is well-formed -/

theorem row_occ {N : Nat} {corpus : List (List Word)} {e : Gram × Nat} (he : e ∈ countFull N corpus) :
    ∃ s ∈ corpus, ∃ i, i + N ≤ (paddedN N s).length ∧
      e.1 = (((paddedN N s).drop i).take N).reverse :=
  occ_rep ((mem_countFull_keys N corpus e.1).mp (List.mem_map.mpr ⟨e, he, rfl⟩))

theorem countFull_nonempty {N : Nat} (hN : 1 ≤ N) {corpus : List (List Word)} (hne : corpus ≠ []) :
    countFull N corpus ≠ [] := by
  obtain ⟨s, hs⟩ : ∃ s, s ∈ corpus := by
    cases corpus with
    | nil => contradiction
    | cons a t => exact ⟨a, by simp⟩
  have hlen := paddedN_length N s
  have hocc : ∃ g, g ∈ occurrences N corpus := by
    cases hP : paddedN N s with
    | nil => rw [hP] at hlen; simp at hlen
    | cons b P' =>
      refine ⟨((b :: P').take N).reverse, ?_⟩
      unfold occurrences
      refine List.mem_flatMap.mpr ⟨s, hs, ?_⟩
      rw [hP, windows_cons, if_pos (by rw [← hP, hlen]; omega)]
      exact List.mem_cons_self ..
  obtain ⟨g, hg⟩ := hocc
  have := (mem_countFull_keys N corpus g).mpr hg
  intro h0
  rw [h0] at this
  cases this

/-- **The count table of a corpus is well-formed**: non-empty corpus, no special symbols in the
text (word ids ≥ 3), monotone thresholds. -/
theorem tableWF_countFull (cfg : Cfg) (corpus : List (List Word)) (h2 : 2 ≤ cfg.order)
    (hne : corpus ≠ []) (hw : ∀ s ∈ corpus, ∀ w ∈ s, 3 ≤ w)
    (hthr : ∀ i, i < cfg.order - 1 → cfg.thr i ≤ cfg.thr (i + 1)) :
    Spec.TableWF cfg (countFull cfg.order corpus) where
  order2 := h2
  nonempty := countFull_nonempty (by omega) hne
  len := by
    intro e he
    obtain ⟨s, _, i, hi, hg⟩ := row_occ he
    rw [hg]; exact win_len hi
  nodup := countFull_nodup _ _
  pos := countFull_pos _ _
  headOK := by
    intro e he
    obtain ⟨s, hs, i, hi, hg⟩ := row_occ he
    rw [hg]; exact win_head (hw s hs) hi (by omega)
  second := by
    intro e he
    obtain ⟨s, hs, i, hi, hg⟩ := row_occ he
    rw [hg]; exact win_second (hw s hs) hi h2
  topValid := by
    intro e he hg'
    obtain ⟨s, hs, i, hi, hg⟩ := row_occ he
    apply topValid_of_bosRun (by rw [hg]; exact win_len hi) h2 ?_ hg'
    rw [hg]; exact win_bosRun (hw s hs) hi
  tailDom := by
    intro e he n hn h1 hv hne'
    have hlen : e.1.length = cfg.order := by
      obtain ⟨s, _, i, hi, hg⟩ := row_occ he
      rw [hg]; exact win_len hi
    have hk : (e.1.take (n + 1)).length = n + 1 := by rw [List.length_take, hlen]; omega
    have hkt : (e.1.take (n + 1)).tail.length = n := by rw [List.length_tail, hk]; rfl
    have hval : bos ∉ (e.1.take (n + 1)).take n := by
      rw [List.take_take, show min n (n + 1) = n by omega]
      exact validAt_iff.mp hv
    rw [trueCount_countFull, trueCount_countFull, hk, hkt]
    unfold occurrences
    rw [List.countP_flatMap, List.countP_flatMap]
    apply sum_map_le_nat
    intro s _
    exact sentence_tailDom s h2 h1 hn _ hk hval hne'
  thrMono := hthr

/-- **Normalisation for every corpus** (order ≥ 2): no table-level assumption is left. -/
theorem normalised_corpus (cfg : Cfg) (pv : Bool) (fallback : Option Disc) (corpus : List (List Word))
    (m : Model) (hm : Spec.estimate cfg pv fallback corpus = .ok m) (h2 : 2 ≤ cfg.order)
    (hne : corpus ≠ []) (hw : ∀ s ∈ corpus, ∀ w ∈ s, 3 ≤ w)
    (hthr : ∀ i, i < cfg.order - 1 → cfg.thr i ≤ cfg.thr (i + 1)) (ctx : Gram) :
    ((Query.vocabNoBos m.orders).map (Query.score m.orders ctx)).sum = 1 := by
  unfold Spec.estimate at hm
  rw [if_neg (by omega)] at hm
  exact normalised_table cfg fallback _ m hm (tableWF_countFull cfg corpus h2 hne hw hthr) ctx

/-! ### Order 1 -/

theorem tableWF1_countFull (cfg : Cfg) (corpus : List (List Word)) (h1 : cfg.order = 1)
    (hne : corpus ≠ []) (hw : ∀ s ∈ corpus, ∀ w ∈ s, 3 ≤ w) :
    Spec.TableWF1 cfg (countFull 1 corpus) where
  order1 := h1
  nonempty := countFull_nonempty (Nat.le_refl 1) hne
  len := by
    intro e he
    obtain ⟨s, _, i, hi, hg⟩ := row_occ he
    rw [hg]; exact win_len hi
  nodup := countFull_nodup _ _
  pos := countFull_pos _ _
  headOK := by
    intro e he
    obtain ⟨s, hs, i, hi, hg⟩ := row_occ he
    have := win_head (hw s hs) hi (Nat.le_refl 1)
    rw [← hg] at this
    exact ⟨fun h => this.2 (by rw [h]; rfl), fun h => this.1 (by rw [h]; rfl)⟩

theorem normalised_corpus1 (cfg : Cfg) (pv : Bool) (fallback : Option Disc) (corpus : List (List Word))
    (m : Model) (hm : Spec.estimate cfg pv fallback corpus = .ok m) (h1 : cfg.order = 1)
    (hne : corpus ≠ []) (hw : ∀ s ∈ corpus, ∀ w ∈ s, 3 ≤ w) (ctx : Gram) :
    ((Query.vocabNoBos m.orders).map (Query.score m.orders ctx)).sum = 1 := by
  unfold Spec.estimate at hm
  rw [if_pos (by omega)] at hm
  exact normalised_table1 cfg fallback _ m hm (tableWF1_countFull cfg corpus h1 hne hw) ctx

/-! ### Non-vacuity -/

example : Spec.TableWF { order := 3, thr := fun i => if i = 0 then 0 else 1, excl := fun _ => false }
    (countFull 3 [[3, 4], [3], [4, 3, 5]]) :=
  tableWF_countFull _ _ (by decide) (by decide) (by decide) (by decide)

end KV.KN.Norm
