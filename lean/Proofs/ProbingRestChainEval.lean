import Proofs.ProbingRestChain
/-! Key-level evaluation of the `MaxRestBuild` update lists and the `MarkLower`/`activate` tail on chains. -/
namespace KV.ProbingBuild
open KV.Arpa KV.Table KV.Score KV.ProbingLM

theorem fill_otherT (want : Key → W) (p k : Key) : ∀ (c β : Nat) (prob : Rat) (want0 : Key → W),
    (∀ i, i < c → k ≠ (p.drop 1).take (β + i)) → (∀ i, i < c → k ≠ p.take (β + 1 + i)) →
    applyUpd want0 (fillUsT want p c β prob) k = want0 k := by
  intro c
  induction c with
  | zero => intro β prob want0 _ _; rfl
  | succ c ih =>
    intro β prob want0 h1 h2
    simp only [fillUsT, applyUpd]
    rw [ih (β + 1) _ _ (fun i hi => by have := h1 (i + 1) (by omega); rw [show β + 1 + i = β + (i + 1) by omega]; exact this)
      (fun i hi => by have := h2 (i + 1) (by omega); rw [show β + 1 + 1 + i = β + 1 + (i + 1) by omega]; exact this)]
    have e1 := h1 0 (by omega)
    have e2 := h2 0 (by omega)
    simp only [Nat.add_zero] at e1 e2
    simp only [updW, e1, e2, if_false]

theorem fill_ctxT (want : Key → W) (p k : Key) : ∀ (c β : Nat) (prob : Rat) (want0 : Key → W) (i : Nat),
    i < c → k = (p.drop 1).take (β + i) → β + c ≤ p.length →
    (∀ j, j < c → k ≠ p.take (β + 1 + j)) →
    applyUpd want0 (fillUsT want p c β prob) k = setExtension (want0 k) := by
  intro c
  induction c with
  | zero => intro β prob want0 i hi; omega
  | succ c ih =>
    intro β prob want0 i hi hk hlen hnb
    have hkl : k.length = β + i := by rw [hk, List.length_take, List.length_drop]; omega
    have e2 := hnb 0 (by omega)
    simp only [Nat.add_zero] at e2
    simp only [fillUsT, applyUpd]
    cases i with
    | zero =>
      simp only [Nat.add_zero] at hk
      rw [fill_otherT want p k c (β + 1) _ _
        (fun j hj he => by
          have := congrArg List.length he
          rw [hkl, List.length_take, List.length_drop] at this; omega)
        (fun j hj => by have := hnb (j + 1) (by omega); rw [show β + 1 + 1 + j = β + 1 + (j + 1) by omega]; exact this)]
      simp only [updW, e2, if_false, ← hk, if_true]
    | succ i =>
      have e1 : k ≠ (p.drop 1).take β := by
        intro he
        have := congrArg List.length he
        rw [hkl, List.length_take, List.length_drop] at this; omega
      rw [ih (β + 1) _ _ i (by omega) (by rw [hk]; congr 1; omega) (by omega)
        (fun j hj => by have := hnb (j + 1) (by omega); rw [show β + 1 + 1 + j = β + 1 + (j + 1) by omega]; exact this)]
      simp only [updW, e1, e2, if_false]

theorem fill_blankT (want : Key → W) (p k : Key) : ∀ (c β : Nat) (prob : Rat) (want0 : Key → W) (i : Nat),
    i < c → k = p.take (β + 1 + i) → β + c ≤ p.length →
    (∀ j, j < c → k ≠ (p.drop 1).take (β + j)) →
    applyUpd want0 (fillUsT want p c β prob) k = setRest true (setProb (want0 k) (vAt want p (i + 1) β prob)) := by
  intro c
  induction c with
  | zero => intro β prob want0 i hi; omega
  | succ c ih =>
    intro β prob want0 i hi hk hlen hnc
    have hkl : k.length = β + 1 + i := by rw [hk, List.length_take]; omega
    have e1 := hnc 0 (by omega)
    simp only [Nat.add_zero] at e1
    simp only [fillUsT, applyUpd]
    cases i with
    | zero =>
      simp only [Nat.add_zero] at hk
      rw [fill_otherT want p k c (β + 1) _ _
        (fun j hj => by have := hnc (j + 1) (by omega); rw [show β + 1 + j = β + (j + 1) by omega]; exact this)
        (fun j hj he => by
          have := congrArg List.length he
          rw [hkl, List.length_take] at this; omega)]
      simp only [updW, e1, if_false, ← hk, if_true, vAt]
    | succ i =>
      have e2 : k ≠ p.take (β + 1) := by
        intro he
        have := congrArg List.length he
        rw [hkl, List.length_take] at this; omega
      rw [ih (β + 1) _ _ i (by omega) (by rw [hk]; congr 1; omega) (by omega)
        (fun j hj => by have := hnc (j + 1) (by omega); rw [show β + 1 + j = β + (j + 1) by omega]; exact this)]
      simp only [updW, e1, e2, if_false, vAt]


theorem mark_otherT (want : Key → W) (k : Key) : ∀ (keys : List Key) (lr : Rat) (want0 : Key → W), k ∉ keys →
    applyUpd want0 (markUsT want keys lr) k = want0 k := by
  intro keys
  induction keys with
  | nil => intro lr want0 _; rfl
  | cons k0 ks ih =>
    intro lr want0 hk
    simp only [markUsT, applyUpd]
    rw [ih _ _ (fun h => hk (List.mem_cons_of_mem _ h))]
    have hne : k ≠ k0 := fun he => hk (he ▸ List.mem_cons_self)
    simp only [updW, hne, if_false]

/-- the `longerRest` handed down the chain after the keys `pre` -/
def lrAfter (want : Key → W) (pre : List Key) (lr : Rat) : Rat :=
  pre.foldl (fun m k' => (markExtends true (want k') m).1.rest) lr

theorem mark_atT (want : Key → W) (k : Key) : ∀ (pre post : List Key) (lr : Rat) (want0 : Key → W),
    k ∉ pre → k ∉ post →
    applyUpd want0 (markUsT want (pre ++ k :: post) lr) k = (markExtends true (want0 k) (lrAfter want pre lr)).1 := by
  intro pre
  induction pre with
  | nil =>
    intro post lr want0 _ hpost
    simp only [List.nil_append, markUsT, applyUpd, lrAfter, List.foldl_nil]
    rw [mark_otherT want k post _ _ hpost]
    simp [updW]
  | cons k0 ks ih =>
    intro post lr want0 hpre hpost
    have hne : k ≠ k0 := fun he => hpre (he ▸ List.mem_cons_self)
    simp only [List.cons_append, markUsT, applyUpd, lrAfter, List.foldl_cons]
    rw [ih post _ _ (fun h => hpre (List.mem_cons_of_mem _ h)) hpost]
    simp only [updW, hne, if_false, lrAfter]

theorem addLine_chainT_adjust2 (combine : Nat → Word → Nat) (a : Arpa) (u0 : List W) (N : Nat) (caps : Nat → Nat)
    (S : List Key) (s : St) (want0 : Key → W) (h : StP combine N caps u0.length s (keysOf S) want0) (si : SInv a S)
    (p : Key) (e : Entry) (lc : LC combine a u0 N caps S p e) (b L : Nat) (hb : 1 ≤ b) (hL : 1 ≤ L) (hpl : p.length = b + L + 1)
    (hbasis : b = 1 ∨ p.take b ∈ S) (hmiss : ∀ j, b < j → j ≤ b + L → p.take j ∉ S)
    (hcapn : (keysOf S (b + L + 1)).length + 1 < caps (b + L + 1))
    (hcapj : ∀ j, b < j → j ≤ b + L → (keysOf S j).length + 1 < caps j) :
    ∃ s1 s2 refs s3 Ks' want1,
      insPhase combine N s p e = .ok s1 ∧ findLower combine p (b + L - 1) s1 [] = .ok (s2, refs) ∧
      adjustLower combine true (lineW e).rest p (b + L + 1) refs s2 = .ok s3 ∧
      Den N u0.length Ks' (refs.getLastD (.uni 0)) (p.take b) ∧ refs.length = L + 1 ∧
      (∀ m, Ks' m = if b < m ∧ m ≤ b + L then keysOf (S ++ [p]) m ++ [p.take m] else keysOf (S ++ [p]) m) ∧
      (∀ k, want1 k = if b < k.length ∧ k.length ≤ b + L ∧ k = p.take k.length then blankW else updW want0 p (lineW e) k) ∧
      StP combine N caps u0.length s3 Ks'
        (applyUpd (applyUpd want1 (fillUsT want1 p L b (-(want1 (p.take b)).mag)))
          (markUsT (applyUpd want1 (fillUsT want1 p L b (-(want1 (p.take b)).mag))) (chainKeys p b L) (lineW e).rest)) := by
  have hnN : b + L + 1 ≤ N := by rw [← hpl]; exact lc.nN
  have hfreshp := lc.fresh p (Or.inr rfl)
  have hpS : p ∉ S := fun hp => hfreshp p ((mem_keysOf S _ p).mpr ⟨hp, rfl⟩) rfl
  obtain ⟨s1, hins, h1a⟩ := stP_insert h p e lc.n2 lc.nN (fun hm => hpS (keysOf_mem S _ p hm)) hfreshp (by rw [hpl]; exact hcapn)
  have h1 : StP combine N caps u0.length s1 (keysOf (S ++ [p])) (updW want0 p (lineW e)) := by
    refine stP_congr h1a (fun m => ?_) (fun _ => rfl)
    by_cases hm : m = p.length
    · rw [if_pos hm, hm, keysOf_append_same S p _ rfl]
    · rw [if_neg hm, keysOf_append_other S p m (fun he => hm he.symm)]
  have hK0 : ∀ j, j ≤ b + L → keysOf (S ++ [p]) j = keysOf S j := fun j hj => keysOf_append_other S p j (by omega)
  have hx : p.headD 0 < u0.length := by
    cases p with
    | nil => simp at hpl
    | cons x xs => exact lc.words x (by simp)
  obtain ⟨s2, refs, Ks1, want1, hfl, h2, hKs1, hw1, hrl, hden⟩ := findLower_chain combine N caps u0.length p b hb (b + L - 1) s1 _ _ [] h1
    (by omega) (by omega) (by omega)
    (by rcases hbasis with hb1 | hb1
        · exact Or.inl hb1
        · right
          have hbl : b ≤ p.length := by omega
          rw [hK0 b (by omega)]; exact (mem_keysOf S b _).mpr ⟨hb1, by simp [hbl]⟩)
    hx
    (by intro j hj1 hj2
        have hjl : (p.take j).length = j := by simp; omega
        rw [hK0 j (by omega)]
        refine ⟨fun hm => hmiss j hj1 (by omega) (keysOf_mem S j _ hm), ?_, hcapj j hj1 (by omega)⟩
        have := lc.fresh (p.take j) (Or.inl (mem_missing_of_not_mem si p (p.length - 1) (by omega) j (by omega) (by omega)
          (hmiss j hj1 (by omega))))
        rw [hjl] at this; exact this)
  have hf1 : b + L - 1 + 1 = b + L := by omega
  simp only [hf1] at hKs1 hw1
  have hc1 : p.drop 1 ∈ S := lc.ctx (by omega)
  have hctxS : ∀ j, 2 ≤ j → j ≤ b + L → (p.drop 1).take j ∈ S := fun j hj2 hjl =>
    si.take_mem _ hc1 (b + L - j) j (by rw [List.length_drop]; omega) hj2
  obtain ⟨s3, hadj, h3⟩ := adjustLower_chainT combine N caps u0.length p Ks1 b L hb hL hnN (by omega) s2 want1 h2 refs (by omega)
    (by intro i hi
        have := hden i hi
        rw [show b + L - 1 + 1 - i = b + L - i by omega] at this; exact this)
    (by intro j hj2 hbj hjl
        rw [hKs1 j]
        apply mem_ite_append
        rw [hK0 j (by omega)]
        exact (mem_keysOf S j _).mpr ⟨hctxS j hj2 (by omega), by rw [List.length_take, List.length_drop]; omega⟩)
    (by intro hb1
        match p, hpl, lc.words with
        | x :: y :: rest, _, hw => exact ⟨by simp, hw y (by simp)⟩
        | [_], hpl, _ => simp at hpl; omega
        | [], hpl, _ => simp at hpl)
    (by intro j j' hbj hjl hbj' hjl' he
        have hl := congrArg List.length he
        rw [List.length_take, List.length_take, List.length_drop] at hl
        have hjj : j = j' := by omega
        subst hjj
        exact hmiss j hbj' hjl' (he ▸ hctxS j (by omega) (by omega)))
    (lineW e).rest
  have hlast : refs.getLastD (.uni 0) = refs[L]'(by omega) := by
    rw [getLastD_eq refs _ (by omega)]; simp [show refs.length = L + 1 by omega]
  refine ⟨s1, s2, refs, s3, Ks1, want1, hins, by simpa using hfl, hadj, ?_, by omega, hKs1, hw1, h3⟩
  rw [hlast]
  have := hden L (by omega)
  rw [show b + L - 1 + 1 - L = b by omega] at this
  exact this

section
variable {combine : Nat → Word → Nat} {a : Arpa} {nWords : Nat} {um : Rat} {caps : Nat → Nat} {S : List Key}
  {p : Key} {e : Entry} {b L : Nat}

/-- the payloads after insertion and `FindLower` in the `MaxRestBuild` run -/
def want1T (a : Arpa) (u0 : List W) (S : List Key) (p : Key) (e : Entry) (b L : Nat) : Key → W := fun k =>
  if b < k.length ∧ k.length ≤ b + L ∧ k = p.take k.length then blankW else updW (wantT a u0 S) p (lineW e) k

/-- … after `AdjustLower` -/
def w3T (a : Arpa) (u0 : List W) (S : List Key) (p : Key) (e : Entry) (b L : Nat) : Key → W :=
  applyUpd (applyUpd (want1T a u0 S p e b L) (fillUsT (want1T a u0 S p e b L) p L b (-(want1T a u0 S p e b L (p.take b)).mag)))
    (markUsT (applyUpd (want1T a u0 S p e b L) (fillUsT (want1T a u0 S p e b L) p L b (-(want1T a u0 S p e b L (p.take b)).mag)))
      (chainKeys p b L) (lineW e).rest)

/-- … after `MarkLower` -/
def w4T (a : Arpa) (u0 : List W) (S : List Key) (p : Key) (e : Entry) (b L : Nat) : Key → W := fun k =>
  if 1 ≤ k.length ∧ k.length ≤ b - 1 ∧ k = p.take k.length then
    (markExtends true (w3T a u0 S p e b L k) (w3T a u0 S p e b L (p.take b)).rest).1
  else w3T a u0 S p e b L k

/-- … after `activate`: the final payloads of the line -/
def w5T (a : Arpa) (u0 : List W) (S : List Key) (p : Key) (e : Entry) (b L : Nat) : Key → W :=
  updW (w4T a u0 S p e b L) (p.drop 1) (setExtension (w4T a u0 S p e b L (p.drop 1)))

theorem CH.pre_mem (ch : CH combine a nWords um caps S p e b L) (j : Nat) (h2 : 2 ≤ j) (hj : j ≤ b) : p.take j ∈ S := by
  have hb := ch.hb
  rcases ch.hbasis with h1 | h1
  · omega
  · have := ch.si.take_mem _ h1 (b - j) j (by rw [ch.take_len b (by omega)]; omega) h2
    rw [List.take_take, Nat.min_eq_left hj] at this
    exact this

/-- below the basis nothing has been touched by `AdjustLower` -/
theorem CH.w3_low (ch : CH combine a nWords um caps S p e b L) (j : Nat) (h1 : 1 ≤ j) (hj : j < b) :
    w3T a (initUni a nWords) S p e b L (p.take j) = wantT a (initUni a nWords) S (p.take j) := by
  have hl := ch.take_len j (by omega)
  unfold w3T
  rw [mark_otherT _ _ _ _ _ (by
    rw [mem_chainKeys]
    rintro ⟨i, hi1, hi2, he⟩
    have := congrArg List.length he
    rw [hl, ch.take_len i (by omega)] at this; omega)]
  rw [fill_otherT _ p _ L b _ _
    (fun i hi he => by have := congrArg List.length he; rw [hl, ch.ctx_len _ (by omega)] at this; omega)
    (fun i hi he => by have := congrArg List.length he; rw [hl, ch.take_len _ (by omega)] at this; omega)]
  unfold want1T
  rw [if_neg (by rw [hl]; omega)]
  have hne : p.take j ≠ p := by
    intro he; have := congrArg List.length he; rw [hl, ch.hpl] at this; omega
  simp only [updW, hne, if_false]

/-- **a line with a blank chain under `MaxRestBuild`: the complete operational statement** -/
theorem addLine_chainT (ch : CH combine a nWords um caps S p e b L) (s : St) (h : InvT combine a nWords caps S s) :
    ∃ s5 Ks', addLine combine true a.order s p e = .ok s5 ∧
      (∀ m, Ks' m = if b < m ∧ m ≤ b + L then keysOf (S ++ [p]) m ++ [p.take m] else keysOf (S ++ [p]) m) ∧
      StP combine a.order caps (initUni a nWords).length s5 Ks' (w5T a (initUni a nWords) S p e b L) := by
  have hb := ch.hb
  have hL := ch.hL
  have hpl := ch.hpl
  have hN : b + L + 1 ≤ a.order := by rw [← hpl]; exact ch.lc.nN
  have hcapn : (keysOf S (b + L + 1)).length + 1 < caps (b + L + 1) := by
    have := ch.lc.cap (b + L + 1)
    rw [ch.keys_eq, if_neg (by omega), keysOf_append_same S p _ ch.hpl] at this
    simpa using this
  have hcapj : ∀ j, b < j → j ≤ b + L → (keysOf S j).length + 1 < caps j := by
    intro j h1 h2
    have := ch.lc.cap j
    rw [ch.keys_eq, if_pos ⟨h1, h2⟩, keysOf_append_other S p _ (by rw [ch.hpl]; omega)] at this
    simpa using this
  obtain ⟨s1, s2, refs, s3, Ks1, want1, hins, hfl, hadj, hdl, hrl, hKs1, hw1, h3⟩ :=
    addLine_chainT_adjust2 combine a (initUni a nWords) a.order caps S s _ h ch.si p e ch.lc b L hb hL hpl ch.hbasis ch.hmiss hcapn hcapj
  have hwf : want1 = want1T a (initUni a nWords) S p e b L := funext fun k => by rw [hw1 k]; rfl
  rw [hwf] at h3
  have h3' : StP combine a.order caps (initUni a nWords).length s3 Ks1 (w3T a (initUni a nWords) S p e b L) := h3
  have hK0 : ∀ j, j ≤ b + L → Ks1 j = (if b < j ∧ j ≤ b + L then keysOf S j ++ [p.take j] else keysOf S j) := by
    intro j hj; rw [hKs1 j, keysOf_append_other S p j (by omega)]
  have hx : p.headD 0 < (initUni a nWords).length := by
    cases p with
    | nil => simp at hpl
    | cons x xs => exact ch.lc.words x (by simp)
  have hlr := stP_get h3' _ _ hdl
  -- MarkLower
  obtain ⟨s4, hml, h4⟩ := markLower_chain combine a.order caps (initUni a nWords).length p Ks1
    (w3T a (initUni a nWords) S p e b L (p.take b)).rest (b - 1) s3 _ h3' (by omega) (by omega)
    (fun j h2 hj => by
      rw [hK0 j (by omega), if_neg (by omega)]
      exact (mem_keysOf S j _).mpr ⟨ch.pre_mem j h2 (by omega), ch.take_len j (by omega)⟩)
    (fun _ => hx)
    (fun j h1 hj => by
      rw [ch.w3_low (j + 1) (by omega) (by omega), ch.w3_low j h1 (by omega)]
      simp only [wantT]
      have := restOf_mono a S (p.take (j + 1)) j (Or.inl (ch.pre_mem (j + 1) (by omega) (by omega)))
      rw [List.take_take, Nat.min_eq_left (by omega)] at this
      exact this)
    (fun j h1 hj => by
      rw [ch.w3_low j h1 (by omega)]
      simp only [wantT]
      apply wantAll_neg_false
      rw [endsInK_true_iff]
      refine ⟨p.take (j + 1), ch.pre_mem (j + 1) (by omega) (by omega), by rw [ch.take_len _ (by omega), ch.take_len _ (by omega)], ?_⟩
      rw [ch.take_len _ (by omega), List.take_take, Nat.min_eq_left (by omega)])
  have h4' : StP combine a.order caps (initUni a nWords).length s4 Ks1 (w4T a (initUni a nWords) S p e b L) := h4
  -- Activate
  obtain ⟨ic, hdc, _, hfind⟩ := stP_lookup h4' (b + L) (by omega) (by omega) (p.drop 1)
    (by rw [hK0 _ (Nat.le_refl _)]
        apply mem_ite_append
        exact (mem_keysOf S _ _).mpr ⟨ch.drop_mem, by rw [List.length_drop]; omega⟩) blankW
  have h5 := stP_modify h4' _ _ hdc setExtension
  refine ⟨_, Ks1, ?_, hKs1, h5⟩
  rw [addLine_phasesT, hins, hpl]
  have he2 : b + L + 1 - 2 = b + L - 1 := by omega
  have he3 : b + L + 1 - 3 = b + L - 2 := by omega
  have hJ : b + L + 1 - refs.length - 1 = b - 1 := by omega
  have hn2 : (b + L + 1 == 2) = false := by simp; omega
  simp only [bind, Except.bind, he2, hfl, hadj, hJ, hlr, hml, activate, hn2, Bool.false_eq_true, if_false, he3, hfind]

end

end KV.ProbingBuild
