import Proofs.ProbingBuildBigram
/-! Semantic invariants of the probing builder on models without blanks: what each order's table and the unigram
array contain after a prefix `proc` of the file's n-gram lines. -/
namespace KV.ProbingBuild
open KV.Arpa KV.Table KV.Score KV.ProbingLM

abbrev Line := List Word × Entry

def linesOf (proc : List Line) (m : Nat) : List Line := proc.filter (fun p => p.1.length == m)

/-- some processed line has `g` as its immediate suffix (reversed: prefix) / as its context -/
def endsIn (proc : List Line) (g : List Word) : Bool := proc.any fun p => p.1.length == g.length + 1 && p.1.take g.length == g
def startsWith (proc : List Line) (g : List Word) : Bool := proc.any fun p => p.1.length == g.length + 1 && p.1.drop 1 == g

/-- the payload of the entry `g` after the lines `proc`: sign bit cleared iff a processed line ends in it, extension
bit set iff its back-off is non-zero or a processed line has it as context -/
def expW (proc : List Line) (g : List Word) (w0 : W) : W :=
  { w0 with neg := w0.neg && !endsIn proc g, xr := w0.xr || startsWith proc g }

theorem linesOf_append_same (proc : List Line) (g : List Word) (e : Entry) (m : Nat) (h : g.length = m) :
    linesOf (proc ++ [(g, e)]) m = linesOf proc m ++ [(g, e)] := by
  simp [linesOf, List.filter_append, h]

theorem linesOf_append_other (proc : List Line) (g : List Word) (e : Entry) (m : Nat) (h : g.length ≠ m) :
    linesOf (proc ++ [(g, e)]) m = linesOf proc m := by
  simp [linesOf, List.filter_append, h]

theorem linesOf_len (proc : List Line) (m : Nat) (p : Line) (hp : p ∈ linesOf proc m) : p.1.length = m := by
  simp [linesOf] at hp; exact hp.2

theorem endsIn_append (proc : List Line) (g : List Word) (e : Entry) (h : List Word) :
    endsIn (proc ++ [(g, e)]) h = (endsIn proc h || (g.length == h.length + 1 && g.take h.length == h)) := by
  simp [endsIn, List.any_append]

theorem startsWith_append (proc : List Line) (g : List Word) (e : Entry) (h : List Word) :
    startsWith (proc ++ [(g, e)]) h = (startsWith proc h || (g.length == h.length + 1 && g.drop 1 == h)) := by
  simp [startsWith, List.any_append]

theorem expW_append_other (proc : List Line) (g : List Word) (e : Entry) (h : List Word) (w0 : W)
    (hl : g.length ≠ h.length + 1) : expW (proc ++ [(g, e)]) h w0 = expW proc h w0 := by
  have : (g.length == h.length + 1) = false := by simpa using hl
  simp [expW, endsIn_append, startsWith_append, this]

theorem endsIn_false (proc : List Line) (g : List Word) (h : ∀ p ∈ proc, p.1.length ≤ g.length) : endsIn proc g = false := by
  unfold endsIn
  rw [List.any_eq_false]
  intro p hp
  have := h p hp
  have hne : (p.1.length == g.length + 1) = false := by simp; omega
  simp [hne]

theorem startsWith_false (proc : List Line) (g : List Word) (h : ∀ p ∈ proc, p.1.length ≤ g.length) : startsWith proc g = false := by
  unfold startsWith
  rw [List.any_eq_false]
  intro p hp
  have := h p hp
  have hne : (p.1.length == g.length + 1) = false := by simp; omega
  simp [hne]

/-- one order's table after the lines `proc` -/
structure OrdSem (combine : Nat → Word → Nat) (proc : List Line) (m cap : Nat) (o : Ord) (M : Nat → Option Nat) : Prop where
  inv : OrdInv o M
  ent : o.t.entries = (linesOf proc m).length
  cap : o.t.N = cap
  plen : o.pay.length = (linesOf proc m).length
  key : ∀ j (hj : j < (linesOf proc m).length), M (hashOf combine (linesOf proc m)[j].1) = some j
  pay : ∀ j (hj : j < (linesOf proc m).length),
    o.pay.getD j default = expW proc (linesOf proc m)[j].1 (lineW (linesOf proc m)[j].2)
  only : ∀ k i, M k = some i → ∃ (hj : i < (linesOf proc m).length), k = hashOf combine (linesOf proc m)[i].1

theorem ordSem_empty (combine : Nat → Word → Nat) (m cap : Nat) (hc : 0 < cap) :
    OrdSem combine [] m cap (emptyOrd cap) (fun _ => none) :=
  ⟨emptyOrd_inv cap hc, rfl, rfl, rfl, fun j hj => by simp [linesOf] at hj, fun j hj => by simp [linesOf] at hj,
   fun _ _ h => by cases h⟩

theorem OrdSem.idx_unique {combine : Nat → Word → Nat} {proc : List Line} {m cap : Nat} {o : Ord} {M : Nat → Option Nat}
    (h : OrdSem combine proc m cap o M) (j j' : Nat) (hj : j < (linesOf proc m).length) (hj' : j' < (linesOf proc m).length)
    (he : (linesOf proc m)[j].1 = (linesOf proc m)[j'].1) : j = j' := by
  have h1 := h.key j hj
  have h2 := h.key j' hj'
  rw [he, h2] at h1
  injection h1 with h1
  exact h1.symm

/-- the line's own insertion -/
theorem ordSem_insert {combine : Nat → Word → Nat} {proc : List Line} {m cap : Nat} {o : Ord} {M : Nat → Option Nat}
    (h : OrdSem combine proc m cap o M) (g : List Word) (e : Entry) (hg : g.length = m)
    (hfresh : ∀ p ∈ linesOf proc m, hashOf combine p.1 ≠ hashOf combine g)
    (hcap : (linesOf proc m).length + 1 < cap) (hle : ∀ p ∈ proc, p.1.length ≤ m) :
    ∃ o', o.insert (hashOf combine g) (lineW e) = .ok o' ∧
      OrdSem combine (proc ++ [(g, e)]) m cap o' (KV.Probing.upd M (hashOf combine g) o.pay.length) := by
  have hMk : M (hashOf combine g) = none := by
    cases hm : M (hashOf combine g) with
    | none => rfl
    | some i =>
      obtain ⟨hj, hk⟩ := h.only _ i hm
      exact absurd hk.symm (hfresh _ (List.getElem_mem hj))
  obtain ⟨o', hins, oi', hpay', hN', hent'⟩ := ord_insert h.inv (hashOf combine g) (lineW e) hMk
    (by rw [h.ent, h.cap]; exact hcap)
  refine ⟨o', hins, ?_⟩
  have hL := linesOf_append_same proc g e m hg
  have hle' : ∀ p ∈ proc ++ [(g, e)], p.1.length ≤ g.length := by
    intro p hp
    rcases List.mem_append.mp hp with hp | hp
    · rw [hg]; exact hle p hp
    · simp at hp; subst hp; exact Nat.le_refl _
  refine ⟨oi', by rw [hent', h.ent, hL]; simp, by rw [hN', h.cap], by rw [hpay', hL]; simp [h.plen], ?_, ?_, ?_⟩
  · intro j hj
    simp only [hL] at hj ⊢
    simp only [List.length_append, List.length_cons, List.length_nil] at hj
    by_cases hjl : j < (linesOf proc m).length
    · rw [List.getElem_append_left hjl]
      unfold KV.Probing.upd
      have hne : hashOf combine (linesOf proc m)[j].1 ≠ hashOf combine g := hfresh _ (List.getElem_mem hjl)
      simp [hne, h.key j hjl]
    · have hje : j = (linesOf proc m).length := by omega
      subst hje
      simp [KV.Probing.upd, h.plen]
  · intro j hj
    simp only [hL] at hj ⊢
    simp only [List.length_append, List.length_cons, List.length_nil] at hj
    rw [hpay']
    by_cases hjl : j < (linesOf proc m).length
    · rw [List.getElem_append_left hjl]
      rw [List.getD_eq_getElem?_getD, List.getElem?_append_left (by rw [h.plen]; exact hjl), ← List.getD_eq_getElem?_getD]
      rw [h.pay j hjl]
      have hlen := linesOf_len proc m _ (List.getElem_mem hjl)
      exact (expW_append_other proc g e _ _ (by rw [hlen, hg]; omega)).symm
    · have hje : j = (linesOf proc m).length := by omega
      subst hje
      rw [List.getD_eq_getElem?_getD, List.getElem?_append_right (by rw [h.plen]; exact Nat.le_refl _)]
      simp only [h.plen, Nat.sub_self, List.getElem?_cons_zero, Option.getD_some, List.getElem_append_right (Nat.le_refl _),
        List.getElem_cons_zero]
      simp [expW, endsIn_false _ g hle', startsWith_false _ g hle']
  · intro k i hk
    unfold KV.Probing.upd at hk
    split at hk
    · cases hk
      rename_i hkk
      refine ⟨by rw [hL]; simp [h.plen], ?_⟩
      simp [hL, h.plen, hkk]
    · obtain ⟨hj, hkk⟩ := h.only k i hk
      refine ⟨by rw [hL]; simp; omega, ?_⟩
      simp only [hL]
      rw [List.getElem_append_left hj]; exact hkk

/-- a line of another order (neither this order nor the next) changes nothing here -/
theorem ordSem_frame {combine : Nat → Word → Nat} {proc : List Line} {m cap : Nat} {o : Ord} {M : Nat → Option Nat}
    (h : OrdSem combine proc m cap o M) (g : List Word) (e : Entry) (h1 : g.length ≠ m) (h2 : g.length ≠ m + 1) :
    OrdSem combine (proc ++ [(g, e)]) m cap o M := by
  have hL := linesOf_append_other proc g e m h1
  refine ⟨h.inv, by rw [hL]; exact h.ent, h.cap, by rw [hL]; exact h.plen, ?_, ?_, ?_⟩
  · intro j hj; simp only [hL] at hj ⊢; exact h.key j hj
  · intro j hj
    simp only [hL] at hj ⊢
    rw [h.pay j hj]
    have hlen := linesOf_len proc m _ (List.getElem_mem hj)
    exact (expW_append_other proc g e _ _ (by rw [hlen]; exact h2)).symm
  · intro k i hk
    obtain ⟨hj, hkk⟩ := h.only k i hk
    exact ⟨by rw [hL]; exact hj, by simp only [hL]; exact hkk⟩

end KV.ProbingBuild

namespace KV.ProbingBuild
open KV.Arpa KV.Table KV.Score KV.ProbingLM

def clr (w : W) : W := { w with neg := false }

theorem setExtension_expW (proc : List Line) (h : List Word) (e : Entry) (b : Bool) :
    setExtension { (expW proc h (lineW e)) with neg := b } =
      { (expW proc h (lineW e)) with neg := b, xr := true } ∨ (lineW e).xr = true ∧
    setExtension { (expW proc h (lineW e)) with neg := b } = { (expW proc h (lineW e)) with neg := b } := by
  by_cases hb : e.backoff = 0
  · left; simp [setExtension, expW, lineW, hb]
  · right; simp [setExtension, expW, lineW, hb]

/-- a line of the next order marks its suffix ("extends left": sign bit cleared) and its context (extension bit) -/
theorem ordSem_mark {combine : Nat → Word → Nat} {proc : List Line} {m cap : Nat} {o : Ord} {M : Nat → Option Nat}
    (h : OrdSem combine proc m cap o M) (g : List Word) (e : Entry) (hg : g.length = m + 1)
    (js : Nat) (hjs : js < (linesOf proc m).length) (hsuf : (linesOf proc m)[js].1 = g.take m)
    (ic : Nat) (hic : ic < (linesOf proc m).length) (hctx : (linesOf proc m)[ic].1 = g.drop 1) :
    OrdSem combine (proc ++ [(g, e)]) m cap
      { o with pay := (o.pay.set js (clr (o.pay.getD js default))).set ic
                        (setExtension ((o.pay.set js (clr (o.pay.getD js default))).getD ic default)) } M := by
  have hL := linesOf_append_other proc g e m (by omega)
  refine ⟨ordInv_setPay (ordInv_setPay h.inv _ _) _ _, by rw [hL]; exact h.ent, h.cap,
    by rw [hL]; simp [h.plen], ?_, ?_, ?_⟩
  · intro j hj; simp only [hL] at hj ⊢; exact h.key j hj
  · intro j hj
    simp only [hL] at hj ⊢
    have hjs' : js < o.pay.length := by rw [h.plen]; exact hjs
    have hic' : ic < o.pay.length := by rw [h.plen]; exact hic
    have hlen := linesOf_len proc m _ (List.getElem_mem hj)
    have hA := h.pay j hj
    -- the two Boolean tests of the new line against this entry
    have ht : (g.take (linesOf proc m)[j].1.length == (linesOf proc m)[j].1) = decide (j = js) := by
      rw [hlen]
      by_cases hjj : j = js
      · subst hjj; simp [hsuf]
      · have : ¬ (g.take m = (linesOf proc m)[j].1) := fun hc => hjj (h.idx_unique j js hj hjs (by rw [← hc, hsuf]))
        simp [hjj, this]
    have hd : (g.drop 1 == (linesOf proc m)[j].1) = decide (j = ic) := by
      by_cases hjj : j = ic
      · subst hjj; simp [hctx]
      · have : ¬ (g.drop 1 = (linesOf proc m)[j].1) := fun hc => hjj (h.idx_unique j ic hj hic (by rw [← hc, hctx]))
        simp only [hjj, decide_false, beq_eq_false_iff_ne, ne_eq]; exact this
    have hgl : (g.length == (linesOf proc m)[j].1.length + 1) = true := by simp [hlen, hg]
    have hexp : expW (proc ++ [(g, e)]) (linesOf proc m)[j].1 (lineW (linesOf proc m)[j].2) =
        { (expW proc (linesOf proc m)[j].1 (lineW (linesOf proc m)[j].2)) with
          neg := (expW proc (linesOf proc m)[j].1 (lineW (linesOf proc m)[j].2)).neg && !decide (j = js),
          xr := (expW proc (linesOf proc m)[j].1 (lineW (linesOf proc m)[j].2)).xr || decide (j = ic) } := by
      simp only [expW, endsIn_append, startsWith_append, hgl, ht, hd, Bool.true_and]
      cases (lineW (linesOf proc m)[j].2).neg <;> cases endsIn proc (linesOf proc m)[j].1 <;> cases decide (j = js) <;>
        cases (lineW (linesOf proc m)[j].2).xr <;> cases startsWith proc (linesOf proc m)[j].1 <;> cases decide (j = ic) <;> rfl
    rw [hexp]
    simp only [getD_set, List.length_set]
    generalize hE : expW proc (linesOf proc m)[j].1 (lineW (linesOf proc m)[j].2) = E at hA
    by_cases hjj : j = js
    · subst hjj
      by_cases hji : j = ic
      · subst hji
        simp only [hjs', and_self, if_true, hA, clr, decide_true, Bool.not_true, Bool.and_false, Bool.or_true]
        rcases setExtension_expW proc (linesOf proc m)[j].1 (linesOf proc m)[j].2 false with hse | ⟨_, hse⟩
        · rw [hE] at hse; rw [hse]
        · rename_i hx
          rw [hE] at hse; rw [hse]
          have : E.xr = true := by rw [← hE]; simp [expW, hx]
          cases E; simp_all
      · simp only [hji, false_and, if_false, hjs', and_self, if_true, hA, clr, decide_true, Bool.not_true, Bool.and_false,
          decide_false, Bool.or_false]
    · by_cases hji : j = ic
      · subst hji
        simp only [hic', and_self, if_true, hjj, false_and, if_false, hA, decide_false, Bool.not_false, Bool.and_true,
          decide_true, Bool.or_true]
        rcases setExtension_expW proc (linesOf proc m)[j].1 (linesOf proc m)[j].2 E.neg with hse | ⟨hx, hse⟩
        · rw [hE] at hse
          have : ({ E with neg := E.neg } : W) = E := by cases E; rfl
          rw [this] at hse; rw [hse]
        · rw [hE] at hse
          have : ({ E with neg := E.neg } : W) = E := by cases E; rfl
          rw [this] at hse; rw [hse]
          have hxr : E.xr = true := by rw [← hE]; simp [expW, hx]
          cases E; simp_all
      · simp only [hji, hjj, false_and, if_false, hA, decide_false, Bool.not_false, Bool.and_true, Bool.or_false]
  · intro k i hk
    obtain ⟨hj, hkk⟩ := h.only k i hk
    exact ⟨by rw [hL]; exact hj, by simp only [hL]; exact hkk⟩

end KV.ProbingBuild

namespace KV.ProbingBuild
open KV.Arpa KV.Table KV.Score KV.ProbingLM

/-- the unigram array after the lines `proc` -/
structure UniSem (u0 : List W) (proc : List Line) (uni : List W) : Prop where
  len : uni.length = u0.length
  val : ∀ w, uni.getD w default = expW proc [w] (u0.getD w default)

theorem uniSem_frame {u0 : List W} {proc : List Line} {uni : List W} (h : UniSem u0 proc uni) (g : List Word) (e : Entry)
    (hg : g.length ≠ 2) : UniSem u0 (proc ++ [(g, e)]) uni :=
  ⟨h.len, fun w => by rw [h.val w]; exact (expW_append_other proc g e [w] _ (by simpa using hg)).symm⟩

theorem uniSem_mark {u0 : List W} (hu : UniOK u0) {proc : List Line} {uni : List W} (h : UniSem u0 proc uni)
    (x y : Word) (e : Entry) (hx : x < u0.length) (hy : y < u0.length) :
    UniSem u0 (proc ++ [([x, y], e)])
      ((uni.set x (clr (uni.getD x default))).set y (setExtension ((uni.set x (clr (uni.getD x default))).getD y default))) := by
  refine ⟨by simp [h.len], ?_⟩
  intro w
  have hxl : x < uni.length := by rw [h.len]; exact hx
  have hyl : y < uni.length := by rw [h.len]; exact hy
  have hexp : expW (proc ++ [([x, y], e)]) [w] (u0.getD w default) =
      { (expW proc [w] (u0.getD w default)) with
        neg := (expW proc [w] (u0.getD w default)).neg && !decide (w = x),
        xr := (expW proc [w] (u0.getD w default)).xr || decide (w = y) } := by
    have h1 : (([x, y] : List Word).take ([w] : List Word).length == [w]) = decide (w = x) := by
      by_cases hw : w = x
      · subst hw; simp
      · have : ¬ x = w := fun hc => hw hc.symm
        simp [hw, this]
    have h2 : (([x, y] : List Word).drop 1 == [w]) = decide (w = y) := by
      by_cases hw : w = y
      · subst hw; simp
      · have : ¬ y = w := fun hc => hw hc.symm
        simp [hw, this]
    simp only [expW, endsIn_append, startsWith_append, h1, h2]
    simp only [List.length_cons, List.length_nil, beq_self_eq_true, Bool.true_and]
    cases (u0.getD w default).neg <;> cases endsIn proc [w] <;> cases decide (w = x) <;>
      cases (u0.getD w default).xr <;> cases startsWith proc [w] <;> cases decide (w = y) <;> rfl
  rw [hexp]
  simp only [getD_set, List.length_set]
  have hA := h.val w
  generalize hE : expW proc [w] (u0.getD w default) = E at hA
  have hbo : E.backoff = (u0.getD w default).backoff := by rw [← hE]; rfl
  have hxr : (u0.getD w default).backoff ≠ 0 → E.xr = true := by
    intro hb; rw [← hE]; have := hu w hb; simp only [expW, this, Bool.true_or]
  have hset : ∀ b : Bool, setExtension { E with neg := b } = { E with neg := b, xr := true } := by
    intro b
    by_cases hb : E.backoff = 0
    · simp [setExtension, hb]
    · have := hxr (by rw [← hbo]; exact hb)
      simp only [setExtension, hb, if_false]
      cases E; simp_all
  by_cases hwx : w = x
  · subst hwx
    by_cases hwy : w = y
    · subst hwy
      simp only [hxl, and_self, if_true, hA, clr, decide_true, Bool.not_true, Bool.and_false, Bool.or_true]
      exact hset false
    · simp only [hwy, false_and, if_false, hxl, and_self, if_true, hA, clr, decide_true, Bool.not_true, Bool.and_false,
        decide_false, Bool.or_false]
  · by_cases hwy : w = y
    · subst hwy
      simp only [hyl, and_self, if_true, hwx, false_and, if_false, hA, decide_false, Bool.not_false, Bool.and_true,
        decide_true, Bool.or_true]
      have := hset E.neg
      have he : ({ E with neg := E.neg } : W) = E := by cases E; rfl
      rw [he] at this
      rw [this]
    · simp only [hwy, hwx, false_and, if_false, hA, decide_false, Bool.not_false, Bool.and_true, Bool.or_false]

end KV.ProbingBuild
