import Model.TrieBuild
import Proofs.TrieMem
/-! Proofs about the trie builder model (`Model/TrieBuild.lean`): the key order, and the invariant of `BlankManager::Visit`
(`been_` is the previous key; `basis_[i]` is the probability of the real n-gram on the current path at order `i+1`, and
`kBadProb` exactly where that prefix is a blank) from which: every blank is a non-real proper prefix, it is based on the
*longest* real proper prefix (all lower blank orders are invalidated), and a missing unigram is reported exactly when the
first word has no unigram. -/
set_option maxRecDepth 2000
namespace KV.TrieBuild
open KV.Arpa KV.TrieLM

theorem keyLt_irrefl : ∀ a : List Nat, keyLt a a = false
  | [] => rfl
  | x :: xs => by simp [keyLt, keyLt_irrefl xs]

theorem keyLt_asymm : ∀ a b : List Nat, keyLt a b = true → keyLt b a = false
  | [], [], h => by simp [keyLt] at h
  | [], _ :: _, _ => rfl
  | _ :: _, [], h => by simp [keyLt] at h
  | x :: xs, y :: ys, h => by
    unfold keyLt at h ⊢
    by_cases h1 : x < y
    · have h2 : ¬ y < x := by omega
      simp [h1, h2]
    · by_cases h2 : y < x
      · simp [h1, h2] at h
      · simp only [h1, h2, if_false] at h ⊢
        exact keyLt_asymm xs ys h

theorem keyLt_trans : ∀ a b c : List Nat, keyLt a b = true → keyLt b c = true → keyLt a c = true
  | [], _, [], _, h2 => by cases ‹List Nat› <;> simp [keyLt] at h2
  | [], _, _ :: _, _, _ => rfl
  | _ :: _, [], _, h1, _ => by simp [keyLt] at h1
  | _ :: _, _ :: _, [], _, h2 => by simp [keyLt] at h2
  | x :: xs, y :: ys, z :: zs, h1, h2 => by
    unfold keyLt at h1 h2 ⊢
    by_cases a1 : x < y
    · by_cases b1 : y < z
      · have : x < z := by omega
        simp [this]
      · by_cases b2 : z < y
        · simp [b1, b2] at h2
        · have : x < z := by omega
          simp [this]
    · by_cases a2 : y < x
      · simp [a1, a2] at h1
      · simp only [a1, a2, if_false] at h1
        by_cases b1 : y < z
        · have : x < z := by omega
          simp [this]
        · by_cases b2 : z < y
          · simp [b1, b2] at h2
          · simp only [b1, b2, if_false] at h2
            have e1 : ¬ x < z := by omega
            have e2 : ¬ z < x := by omega
            simp only [e1, e2, if_false]
            exact keyLt_trans xs ys zs h1 h2

/-- a proper prefix comes first -/
theorem keyLt_take : ∀ (a : List Nat) (n : Nat), n < a.length → keyLt (a.take n) a = true
  | [], n, h => by simp at h
  | x :: xs, 0, _ => rfl
  | x :: xs, n+1, h => by
    simp only [List.take_succ_cons, keyLt, Nat.lt_irrefl, if_false]
    exact keyLt_take xs n (by simpa using h)

theorem commonPrefix_take : ∀ (p g : List Nat) (m : Nat), commonPrefix p (g.take m) = min (commonPrefix p g) m
  | [], g, m => by cases g <;> simp [commonPrefix]
  | _ :: _, [], m => by simp [commonPrefix]
  | _ :: _, _ :: _, 0 => by simp [commonPrefix]
  | a :: as, x :: xs, m+1 => by
    simp only [List.take_succ_cons, commonPrefix]
    by_cases h : a = x
    · simp only [h, if_true, commonPrefix_take as xs m]; omega
    · simp [h]

theorem take_commonPrefix : ∀ (p g : List Nat), p.take (commonPrefix p g) = g.take (commonPrefix p g)
  | [], g => by cases g <;> simp [commonPrefix]
  | _ :: _, [] => by simp [commonPrefix]
  | a :: as, x :: xs => by
    simp only [commonPrefix]
    by_cases h : a = x
    · simp [h, take_commonPrefix as xs]
    · simp [h]

theorem commonPrefix_le : ∀ (p g : List Nat), commonPrefix p g ≤ p.length ∧ commonPrefix p g ≤ g.length
  | [], g => by cases g <;> simp [commonPrefix]
  | _ :: _, [] => by simp [commonPrefix]
  | a :: as, x :: xs => by
    simp only [commonPrefix]
    by_cases h : a = x
    · have := commonPrefix_le as xs; simp [h]; omega
    · simp [h]

/-- a key that precedes `g` and shares at most `c < b` leading words with it precedes every prefix of `g` of length `b` -/
theorem lt_take_of_common : ∀ (p g : List Nat) (b : Nat), keyLt p g = true → commonPrefix p g < b → b ≤ g.length →
    keyLt p (g.take b) = true
  | [], [], _, h, _, _ => by simp [keyLt] at h
  | [], x :: xs, b, _, hc, _ => by
    cases b with
    | zero => simp at hc
    | succ b => rfl
  | _ :: _, [], _, h, _, _ => by simp [keyLt] at h
  | a :: as, x :: xs, b, h, hc, hb => by
    cases b with
    | zero => simp at hc
    | succ b =>
      unfold keyLt at h
      simp only [List.take_succ_cons]
      unfold keyLt
      by_cases h1 : a < x
      · simp [h1]
      · by_cases h2 : x < a
        · simp [h1, h2] at h
        · simp only [h1, h2, if_false] at h ⊢
          have e : a = x := by omega
          subst e
          simp only [commonPrefix, if_true] at hc
          exact lt_take_of_common as xs b h (by omega) (by simpa using hb)


/-! ## helpers on the state -/

theorem getD_setAt_same {α} (l : List α) (i : Nat) (v d d' : α) : (setAt l i v d).getD i d' = v := by
  unfold setAt
  by_cases h : i < l.length
  · simp [h, List.getD_eq_getElem?_getD]
  · simp only [h, if_false, List.getD_eq_getElem?_getD]
    have hl : (l ++ List.replicate (i - l.length) d).length = i := by simp; omega
    rw [List.getElem?_append_right (by omega), hl]
    simp

theorem getD_setAt_other {α} (l : List (Option α)) (i j : Nat) (v : Option α) (h : j ≠ i) :
    (setAt l i v none).getD j none = l.getD j none := by
  unfold setAt
  by_cases hi : i < l.length
  · simp [hi, List.getD_eq_getElem?_getD, Ne.symm h]
  · simp only [hi, if_false, List.getD_eq_getElem?_getD]
    have hl : (l ++ List.replicate (i - l.length) (none : Option α)).length = i := by simp; omega
    by_cases hj : j < l.length
    · rw [List.append_assoc, List.getElem?_append_left hj]
    · have h1 : l[j]? = none := List.getElem?_eq_none (by omega)
      rw [h1]
      by_cases hj2 : j < i
      · rw [List.getElem?_append_left (by rw [hl]; omega), List.getElem?_append_right (by omega), List.getElem?_replicate]
        have : j - l.length < i - l.length := by omega
        simp [this]
      · rw [List.getElem?_append_right (by omega), hl]
        have : j - i ≠ 0 := by omega
        cases hx : j - i with
        | zero => omega
        | succ n => simp

theorem getD_clear (orders : List Nat) : ∀ (basis : List (Option Nat)) (j : Nat),
    (orders.foldl (fun bs b => setAt bs (b - 1) none none) basis).getD j none =
      if (orders.any fun b => b - 1 == j) then none else basis.getD j none := by
  induction orders with
  | nil => intro basis j; simp
  | cons b bs ih =>
    intro basis j
    rw [List.foldl_cons, ih, List.any_cons]
    by_cases hb : b - 1 = j
    · have e : (b - 1 == j) = true := by simpa using hb
      rw [e, Bool.true_or, if_pos rfl]
      by_cases h2 : (bs.any fun b' => b' - 1 == j) = true
      · rw [if_pos h2]
      · rw [if_neg h2, ← hb, getD_setAt_same]
    · have e : (b - 1 == j) = false := by simpa using hb
      rw [e, Bool.false_or, getD_setAt_other _ _ _ _ (Ne.symm hb)]

theorem lowerBasis_some (basis : List (Option Nat)) : ∀ i idx p, lowerBasis basis i = some (idx, p) →
    idx ≤ i ∧ basis.getD idx none = some p ∧ ∀ j, idx < j → j ≤ i → basis.getD j none = none := by
  intro i
  induction i with
  | zero =>
    intro idx p h
    unfold lowerBasis at h
    split at h
    · rename_i q hq
      simp only [Option.some.injEq, Prod.mk.injEq] at h
      obtain ⟨h1, h2⟩ := h
      subst h1; subst h2
      exact ⟨Nat.le_refl _, hq, fun j h1 h2 => by omega⟩
    · cases h
  | succ i ih =>
    intro idx p h
    unfold lowerBasis at h
    split at h
    · rename_i q hq
      simp only [Option.some.injEq, Prod.mk.injEq] at h
      obtain ⟨h1, h2⟩ := h
      subst h1; subst h2
      exact ⟨Nat.le_refl _, hq, fun j h1 h2 => by omega⟩
    · rename_i hq
      obtain ⟨a, b, c⟩ := ih idx p h
      refine ⟨by omega, b, ?_⟩
      intro j h1 h2
      by_cases hj : j = i + 1
      · rw [hj]; exact hq
      · exact c j h1 (by omega)

theorem lowerBasis_none (basis : List (Option Nat)) : ∀ i, lowerBasis basis i = none → ∀ j, j ≤ i → basis.getD j none = none := by
  intro i
  induction i with
  | zero =>
    intro h j hj
    unfold lowerBasis at h
    have : j = 0 := by omega
    subst this
    split at h
    · cases h
    · rename_i hq; exact hq
  | succ i ih =>
    intro h j hj
    unfold lowerBasis at h
    split at h
    · cases h
    · rename_i hq
      by_cases hj2 : j = i + 1
      · rw [hj2]; exact hq
      · exact ih h j (by omega)


/-- strictly increasing keys: the visit order of a duplicate-free input -/
def KeysLt (L : List Gram) : Prop := L.Pairwise (fun a b => keyLt a.key b.key = true)

theorem realOf_mem (L : List Gram) (k : List Nat) (r : Gram) (h : realOf L k = some r) : r ∈ L ∧ r.key = k := by
  unfold realOf at h
  exact ⟨List.mem_of_find?_eq_some h, by have := List.find?_some h; simpa using this⟩

theorem keysLt_mem {L : List Gram} (h : KeysLt L) : ∀ a ∈ L, ∀ b ∈ L, a = b ∨ keyLt a.key b.key = true ∨ keyLt b.key a.key = true := by
  have h' : L.Pairwise (fun a b => keyLt a.key b.key = true ∨ keyLt b.key a.key = true) := h.imp (fun h => Or.inl h)
  exact pairwise_mem (fun a b h => Or.symm h) h'

theorem realOf_of_mem {L : List Gram} (h : KeysLt L) (r : Gram) (hr : r ∈ L) : realOf L r.key = some r := by
  cases hf : realOf L r.key with
  | none =>
    unfold realOf at hf
    have := List.find?_eq_none.mp hf r hr
    simp at this
  | some r' =>
    obtain ⟨hm, hk⟩ := realOf_mem L _ _ hf
    rcases keysLt_mem h r' hm r hr with e | e | e
    · rw [e]
    · rw [hk, keyLt_irrefl] at e; cases e
    · rw [hk, keyLt_irrefl] at e; cases e

/-- the order argument: between the previous key and `g` no proper prefix of `g` longer than their common prefix is real -/
theorem not_real_between (pre post : List Gram) (g : Gram) (hk : KeysLt (pre ++ g :: post)) (j : Nat)
    (hc : commonPrefix ((pre.getLast?.map (·.key)).getD []) g.key < j) (hj : j < g.key.length) :
    realOf (pre ++ g :: post) (g.key.take j) = none := by
  cases hf : realOf (pre ++ g :: post) (g.key.take j) with
  | none => rfl
  | some r =>
    exfalso
    obtain ⟨hm, hkey⟩ := realOf_mem _ _ _ hf
    have hlt : keyLt r.key g.key = true := by rw [hkey]; exact keyLt_take _ _ hj
    have hp := List.pairwise_append.mp hk
    have hp2 := List.pairwise_cons.mp hp.2.1
    rcases List.mem_append.mp hm with h1 | h1
    · -- r among the earlier keys: the last earlier key already precedes every such prefix
      have hne : pre ≠ [] := by intro e; rw [e] at h1; simp at h1
      have hlast : pre.getLast? = some (pre.getLast hne) := List.getLast?_eq_some_getLast hne
      rw [hlast] at hc
      simp only [Option.map_some, Option.getD_some] at hc
      have hpg : keyLt (pre.getLast hne).key g.key = true := hp.2.2 _ (List.getLast_mem hne) g (by simp)
      have hpr : keyLt (pre.getLast hne).key r.key = true := by
        rw [hkey]; exact lt_take_of_common _ _ j hpg hc (by omega)
      have hsplit : pre = pre.dropLast ++ [pre.getLast hne] := (List.dropLast_concat_getLast hne).symm
      rw [hsplit] at h1
      rcases List.mem_append.mp h1 with h2 | h2
      · have hpp : (pre.dropLast ++ [pre.getLast hne]).Pairwise (fun a b => keyLt a.key b.key = true) := by
          rw [← hsplit]; exact hp.1
        have := (List.pairwise_append.mp hpp).2.2 r h2 (pre.getLast hne) (by simp)
        rw [keyLt_asymm _ _ this] at hpr; cases hpr
      · simp at h2; rw [h2, keyLt_irrefl] at hpr; cases hpr
    · rcases List.mem_cons.mp h1 with h2 | h2
      · rw [h2] at hkey
        have := congrArg List.length hkey
        simp at this; omega
      · have := hp2.1 r h2
        rw [keyLt_asymm _ _ this] at hlt; cases hlt


/-- invariant of `BlankManager` after visiting the key `prev` -/
structure Inv (L : List Gram) (st : VisitState) (prev : List Nat) : Prop where
  been : st.been = prev
  basis : ∀ i, i < prev.length → st.basis.getD i none = (realOf L (prev.take (i + 1))).map (·.prob)

/-- what is true of every blank `Visit` creates while visiting `g` -/
structure BlankOK (L : List Gram) (g : Gram) (b : Blank) : Prop where
  isPrefix : ∃ n, 2 ≤ n ∧ n < g.key.length ∧ b.key = g.key.take n
  notReal : realOf L b.key = none
  based : 1 ≤ b.basedOn ∧ b.basedOn < b.key.length
  basis : ∃ r, realOf L (g.key.take b.basedOn) = some r ∧ r.prob = b.basis
  longest : ∀ j, b.basedOn < j → j < g.key.length → realOf L (g.key.take j) = none

theorem mem_range'_iff (s n x : Nat) : x ∈ List.range' s n ↔ s ≤ x ∧ x < s + n := by
  simp [List.mem_range'_1]

theorem visit_step (pre post : List Gram) (g : Gram) (st : VisitState)
    (hk : KeysLt (pre ++ g :: post)) (hlen : 1 ≤ g.key.length)
    (hinv : Inv (pre ++ g :: post) st ((pre.getLast?.map (·.key)).getD [])) :
    match visit st g with
    | .ok st' => Inv (pre ++ g :: post) st' g.key ∧
        ∃ nb, st'.blanks = st.blanks ++ nb ∧ ∀ b ∈ nb, BlankOK (pre ++ g :: post) g b
    | .error e => e = .missingUnigram ∧ 2 ≤ g.key.length ∧ realOf (pre ++ g :: post) (g.key.take 1) = none := by
  generalize hL : pre ++ g :: post = L at hk hinv ⊢
  generalize hprev : (pre.getLast?.map (·.key)).getD [] = prev at hinv
  have hcpj : ∀ j, commonPrefix prev g.key < j → j < g.key.length → realOf L (g.key.take j) = none := by
    intro j h1 h2; rw [← hL, ← hprev] at *; exact not_real_between pre post g hk j h1 h2
  have hgreal : realOf L g.key = some g := realOf_of_mem hk g (by rw [← hL]; simp)
  -- names
  obtain ⟨len, hlendef⟩ : ∃ l, l = g.key.length := ⟨_, rfl⟩
  obtain ⟨basis0, hb0def⟩ : ∃ b, b = setAt st.basis (len - 1) (some g.prob) none := ⟨_, rfl⟩
  obtain ⟨cur, hcurdef⟩ : ∃ c, c = commonPrefix st.been (g.key.take (len - 1)) := ⟨_, rfl⟩
  have hcur : cur = min (commonPrefix prev g.key) (len - 1) := by
    rw [hcurdef, hinv.been, commonPrefix_take]
  have hcur_le : cur ≤ len - 1 := by rw [hcur]; exact Nat.min_le_right _ _
  have hcur_prev : cur ≤ prev.length := by
    rw [hcur]; exact Nat.le_trans (Nat.min_le_left _ _) (commonPrefix_le prev g.key).1
  have htake : prev.take cur = g.key.take cur := by
    have := take_commonPrefix st.been (g.key.take (len - 1))
    rw [← hcurdef] at this
    rw [← hinv.been]
    have e : (g.key.take (len - 1)).take cur = g.key.take cur := by
      rw [List.take_take]; congr 1; exact Nat.min_eq_left hcur_le
    rw [← e]; exact this
  have F3 : ∀ i, i < cur → basis0.getD i none = (realOf L (g.key.take (i + 1))).map (·.prob) := by
    intro i hi
    rw [hb0def, getD_setAt_other _ _ _ _ (by omega), hinv.basis i (by omega)]
    have e : prev.take (i + 1) = g.key.take (i + 1) := by
      have h1 : (prev.take cur).take (i + 1) = prev.take (i + 1) := by
        rw [List.take_take]; congr 1; omega
      have h2 : (g.key.take cur).take (i + 1) = g.key.take (i + 1) := by
        rw [List.take_take]; congr 1; omega
      rw [← h1, ← h2, htake]
    rw [e]
  have F5 : ∀ j, cur < j → j < len → realOf L (g.key.take j) = none := by
    intro j h1 h2
    apply hcpj j _ (by omega)
    rw [hcur] at h1
    have : j ≤ len - 1 := by omega
    omega
  have hsame : basis0.getD (len - 1) none = some g.prob := by rw [hb0def]; exact getD_setAt_same _ _ _ _ _
  unfold visit
  dsimp only
  rw [← hlendef, ← hb0def, ← hcurdef]
  by_cases hc : cur = len - 1
  · rw [if_pos hc]
    refine ⟨⟨rfl, ?_⟩, [], by simp, by simp⟩
    intro i hi
    show basis0.getD i none = _
    by_cases hil : i = len - 1
    · rw [hil, hsame]
      have : g.key.take (len - 1 + 1) = g.key := by
        have : len - 1 + 1 = g.key.length := by omega
        rw [this, List.take_length]
      rw [this, hgreal]; rfl
    · exact F3 i (by rw [hc]; omega)
  · rw [if_neg hc]
    have hclt : cur < len - 1 := by omega
    by_cases h1 : cur + 1 = 1
    · rw [if_pos h1]
      exact ⟨rfl, by omega, F5 1 (by omega) (by omega)⟩
    · rw [if_neg h1]
      have hcpos : 0 < cur := by omega
      cases hlb : lowerBasis basis0 (cur + 1 - 2) with
      | none =>
        have h0 := lowerBasis_none basis0 _ hlb 0 (by omega)
        rw [F3 0 hcpos] at h0
        refine ⟨rfl, by omega, ?_⟩
        cases hr : realOf L (g.key.take (0 + 1)) with
        | none => rfl
        | some r => rw [hr] at h0; cases h0
      | some ip =>
        obtain ⟨idx, p⟩ := ip
        obtain ⟨hidx, hval, hmax⟩ := lowerBasis_some basis0 _ idx p hlb
        dsimp only
        have hmemo : ∀ b, b ∈ List.range' (cur + 1) (len - (cur + 1)) ↔ cur + 1 ≤ b ∧ b < len := by
          intro b; rw [mem_range'_iff]; omega
        refine ⟨⟨rfl, ?_⟩, _, rfl, ?_⟩
        · intro i hi
          show (List.foldl (fun bs b => setAt bs (b - 1) none none) basis0 (List.range' (cur + 1) (len - (cur + 1)))).getD i none = _
          rw [getD_clear]
          by_cases hin : cur ≤ i ∧ i < len - 1
          · have : (List.range' (cur + 1) (len - (cur + 1))).any (fun b => b - 1 == i) = true := by
              rw [List.any_eq_true]
              exact ⟨i + 1, (hmemo _).mpr (by omega), by simp⟩
            rw [if_pos this, F5 (i + 1) (by omega) (by omega)]; rfl
          · have : ¬ (List.range' (cur + 1) (len - (cur + 1))).any (fun b => b - 1 == i) = true := by
              rw [List.any_eq_true]
              rintro ⟨b, hb, hbi⟩
              have := (hmemo b).mp hb
              simp at hbi
              omega
            rw [if_neg this]
            by_cases hil : i = len - 1
            · rw [hil, hsame]
              have e : g.key.take (len - 1 + 1) = g.key := by
                have : len - 1 + 1 = g.key.length := by omega
                rw [this, List.take_length]
              rw [e, hgreal]; rfl
            · exact F3 i (by omega)
        · intro b' hb'
          rw [List.mem_map] at hb'
          obtain ⟨b, hb, hb'e⟩ := hb'
          have hbr := (hmemo b).mp hb
          subst hb'e
          have hklen : (g.key.take b).length = b := by simp; omega
          have hb2 : 2 ≤ b := by omega
          have hidxb : idx + 1 < b := by omega
          refine { isPrefix := ⟨b, hb2, by omega, rfl⟩, notReal := F5 b (by omega) hbr.2, based := ?_, basis := ?_, longest := ?_ }
          · show 1 ≤ idx + 1 ∧ idx + 1 < (g.key.take b).length
            rw [hklen]; exact ⟨by omega, hidxb⟩
          · show ∃ r, realOf L (g.key.take (idx + 1)) = some r ∧ r.prob = p
            have := F3 idx (by omega)
            rw [hval] at this
            cases hr : realOf L (g.key.take (idx + 1)) with
            | none => rw [hr] at this; cases this
            | some r => rw [hr] at this; exact ⟨r, rfl, by simpa using this.symm⟩
          · intro j hj1 hj2
            have hj1' : idx + 1 < j := hj1
            by_cases hjc : j ≤ cur
            · have hn := hmax (j - 1) (by omega) (by omega)
              rw [F3 (j - 1) (by omega)] at hn
              have e : j - 1 + 1 = j := by omega
              rw [e] at hn
              cases hr : realOf L (g.key.take j) with
              | none => rfl
              | some r => rw [hr] at hn; cases hn
            · exact F5 j (by omega) (by omega)


/-- outcome of the whole visiting pass, as a property of its result -/
def RunOK (L : List Gram) (r : Except BuildErr VisitState) : Prop :=
  match r with
  | .ok st => ∀ b ∈ st.blanks, ∃ g ∈ L, BlankOK L g b
  | .error e => e = .missingUnigram ∧ ∃ g ∈ L, 2 ≤ g.key.length ∧ realOf L (g.key.take 1) = none

theorem run_spec : ∀ (post pre : List Gram) (st : VisitState), KeysLt (pre ++ post) →
    (∀ g ∈ pre ++ post, 1 ≤ g.key.length) →
    Inv (pre ++ post) st ((pre.getLast?.map (·.key)).getD []) →
    (∀ b ∈ st.blanks, ∃ g ∈ pre ++ post, BlankOK (pre ++ post) g b) →
    RunOK (pre ++ post) (post.foldlM visit st) := by
  intro post
  induction post with
  | nil =>
    intro pre st _ _ _ hb
    show RunOK (pre ++ []) (Except.ok st)
    simpa [RunOK] using hb
  | cons g rest ih =>
    intro pre st hk hne hinv hb
    have hstep := visit_step pre rest g st hk (hne g (by simp)) hinv
    rw [List.foldlM_cons]
    cases hv : visit st g with
    | error e =>
      rw [hv] at hstep
      obtain ⟨h1, h2, h3⟩ := hstep
      exact ⟨h1, g, by simp, h2, h3⟩
    | ok st' =>
      rw [hv] at hstep
      obtain ⟨hinv', nb, hnb, hok⟩ := hstep
      have e : pre ++ g :: rest = (pre ++ [g]) ++ rest := by simp
      have := ih (pre ++ [g]) st' (by rw [← e]; exact hk) (by rw [← e]; exact hne)
        (by rw [← e]; simpa using hinv')
        (by
          rw [← e]
          intro b hbm
          rw [hnb] at hbm
          rcases List.mem_append.mp hbm with h | h
          · exact hb b h
          · exact ⟨g, by simp, hok b h⟩)
      rw [← e] at this
      exact this

/-- **visit_spec**: on a strictly increasing (= duplicate-free, sorted) visit order with non-empty keys, `BlankManager`
either reports a missing unigram — and then some n-gram's newest word really has no unigram — or produces blanks each of
which is a non-real proper prefix (length ≥ 2) of a visited key, based on the *longest* real proper prefix of that key below
it, with that n-gram's probability as basis. -/
theorem visit_spec (L : List Gram) (hk : KeysLt L) (hne : ∀ g ∈ L, 1 ≤ g.key.length) : RunOK L (visitAll L) := by
  have := run_spec L [] {} (by simpa using hk) (by simpa using hne)
    ⟨rfl, fun i hi => by simp at hi⟩ (by simp)
  simpa [visitAll] using this


/-- trichotomy: different keys are ordered one way or the other -/
theorem keyLt_total : ∀ a b : List Nat, a ≠ b → keyLt a b = true ∨ keyLt b a = true
  | [], [], h => absurd rfl h
  | [], _ :: _, _ => Or.inl rfl
  | _ :: _, [], _ => Or.inr rfl
  | x :: xs, y :: ys, h => by
    unfold keyLt
    by_cases h1 : x < y
    · left; simp [h1]
    · by_cases h2 : y < x
      · right; simp [h2]
      · have e : x = y := by omega
        subst e
        have hne : xs ≠ ys := fun e => h (by rw [e])
        simp only [Nat.lt_irrefl, if_false]
        exact keyLt_total xs ys hne

def LeKey (a b : Gram) : Prop := keyLt b.key a.key = false

theorem mem_insertGram (g x : Gram) (l : List Gram) : x ∈ insertGram g l ↔ x = g ∨ x ∈ l := by
  induction l with
  | nil => simp [insertGram]
  | cons h t ih =>
    unfold insertGram
    split
    · simp
    · simp only [List.mem_cons, ih]
      constructor
      · rintro (h1 | h1 | h1) <;> simp [h1]
      · rintro (h1 | h1 | h1) <;> simp [h1]

theorem sorted_insertGram (g : Gram) (l : List Gram) (hs : l.Pairwise LeKey) : (insertGram g l).Pairwise LeKey := by
  induction l with
  | nil => simp [insertGram]
  | cons h t ih =>
    have hp := List.pairwise_cons.mp hs
    unfold insertGram
    by_cases hlt : keyLt g.key h.key = true
    · rw [if_pos hlt]
      refine List.pairwise_cons.mpr ⟨?_, hs⟩
      intro x hx
      rcases List.mem_cons.mp hx with e | e
      · rw [e]; exact keyLt_asymm _ _ hlt
      · -- x ≥ h > g
        show keyLt x.key g.key = false
        cases hc : keyLt x.key g.key with
        | false => rfl
        | true =>
          have := keyLt_trans _ _ _ hc hlt
          have h2 : keyLt x.key h.key = false := hp.1 x e
          rw [h2] at this; cases this
    · rw [if_neg hlt]
      refine List.pairwise_cons.mpr ⟨?_, ih hp.2⟩
      intro x hx
      rcases (mem_insertGram g x t).mp hx with e | e
      · rw [e]; show keyLt g.key h.key = false; simpa using hlt
      · exact hp.1 x e

theorem visitOrder_sorted (gs : List Gram) : (visitOrder gs).Pairwise LeKey := by
  induction gs with
  | nil => simp [visitOrder]
  | cons g gs ih => exact sorted_insertGram g _ ih

theorem mem_visitOrder (gs : List Gram) (x : Gram) : x ∈ visitOrder gs ↔ x ∈ gs := by
  induction gs with
  | nil => simp [visitOrder]
  | cons g gs ih =>
    show x ∈ insertGram g (visitOrder gs) ↔ _
    rw [mem_insertGram, ih]; simp

/-- **G1**: a sorted list without adjacent equal keys is strictly increasing -/
theorem keysLt_of_sorted : ∀ (l : List Gram), l.Pairwise LeKey → hasDuplicate l = false → KeysLt l
  | [], _, _ => List.Pairwise.nil
  | [_], _, _ => by simp [KeysLt]
  | a :: b :: t, hs, hd => by
    have hp := List.pairwise_cons.mp hs
    simp only [hasDuplicate, Bool.or_eq_false_iff, beq_eq_false_iff_ne, ne_eq] at hd
    have ih := keysLt_of_sorted (b :: t) hp.2 hd.2
    have hab : keyLt a.key b.key = true := by
      rcases keyLt_total a.key b.key hd.1 with h | h
      · exact h
      · have : keyLt b.key a.key = false := hp.1 b (by simp)
        rw [this] at h; cases h
    refine List.pairwise_cons.mpr ⟨?_, ih⟩
    intro x hx
    rcases List.mem_cons.mp hx with e | e
    · rw [e]; exact hab
    · have hbx : keyLt b.key x.key = true := (List.pairwise_cons.mp ih).1 x e
      exact keyLt_trans _ _ _ hab hbx

theorem visitOrder_keysLt (gs : List Gram) (hd : hasDuplicate (visitOrder gs) = false) : KeysLt (visitOrder gs) :=
  keysLt_of_sorted _ (visitOrder_sorted gs) hd


end KV.TrieBuild
