import Proofs.KNCorpus2
/-!
The specification in textbook form, on the corpus (property C05), and what is written:

* `trueCount_padded1` — the true count of an n-gram is its number of occurrences in the
  sentences delimited by one `<s>` and one `</s>`;
* `leftExts_textbook` / `leftExts_corpus` — `N₁₊(•g)` is the number of distinct (n+1)-grams that
  extend `g` on the left; `adjCount_textbook` combines the two;
* `written_set` / `written_set_corpus` — an n-gram is written iff it is a record and not pruned;
* `header_counts_corpus` — the header counts are the numbers of written entries.
-/
namespace KV.KN.Norm

open KV.KN KV.KN.Spec

/-! ## 1. True counts -/

theorem windows_eq_range {n : Nat} (hn : 1 ≤ n) (l : List Word) :
    windows n l = (List.range (l.length + 1 - n)).map fun i => ((l.drop i).take n).reverse := by
  induction l with
  | nil =>
    have : ([] : List Word).length + 1 - n = 0 := by simp; omega
    rw [this]; simp [windows]
  | cons a t ih =>
    rw [windows_cons]
    split
    · rename_i h
      have : (a :: t).length + 1 - n = (t.length + 1 - n) + 1 := by
        simp only [List.length_cons] at *; omega
      rw [this, List.range_succ_eq_map, List.map_cons, List.map_map, ih]
      rfl
    · rename_i h
      have : (a :: t).length + 1 - n = 0 := by simp only [List.length_cons] at *; omega
      rw [this]; rfl

/-- the length-`n` suffixes of the `N`-windows of `l` are the `n`-windows of `l` without its
first `N - n` words -/
theorem map_take_windows {N n : Nat} (h1 : 1 ≤ n) (hn : n ≤ N) (l : List Word) :
    (windows N l).map (·.take n) = windows n (l.drop (N - n)) := by
  rw [windows_eq_range (by omega), windows_eq_range h1, List.map_map]
  have hr : (l.drop (N - n)).length + 1 - n = l.length + 1 - N := by
    rw [List.length_drop]; omega
  rw [hr]
  apply List.map_congr_left
  intro i hi
  have hi' : i + N ≤ l.length := by have := List.mem_range.mp hi; omega
  simp only [Function.comp]
  rw [win_take hi' hn, List.drop_drop]
  congr 3
  omega

theorem first_window_ne {n : Nat} (h2 : 2 ≤ n) {g : Gram} (hv : bos ∉ g.take (n - 1))
    (L : List Word) (hlen : n ≤ (bos :: bos :: L).length) :
    ((bos :: bos :: L).take n).reverse ≠ g := by
  intro h
  apply hv
  apply List.mem_of_getElem? (i := n - 2)
  have hl : ((bos :: bos :: L).take n).length = n := by
    rw [List.length_take]; omega
  rw [← h, List.getElem?_take, if_pos (by omega), List.getElem?_reverse (by omega), hl,
    List.getElem?_take, if_pos (by omega), show n - 1 - (n - 2) = 1 by omega]
  rfl

theorem count_windows_bos {n : Nat} (h2 : 2 ≤ n) {g : Gram} (hv : bos ∉ g.take (n - 1))
    (L : List Word) (hL : L.head? = some bos) :
    (windows n (bos :: L)).count g = (windows n L).count g := by
  cases L with
  | nil => simp at hL
  | cons b L' =>
    have hb : b = bos := by simpa using hL
    subst hb
    rw [windows_cons n bos (bos :: L')]
    split
    · rename_i hlen
      rw [List.count_cons]
      have : ((((bos :: bos :: L').take n).reverse) == g) = false := by
        have := first_window_ne h2 hv L' hlen
        simpa using this
      rw [this]; simp
    · rename_i hlen
      rw [windows_cons, if_neg (by simp only [List.length_cons] at *; omega)]

theorem count_windows_rep {n : Nat} (h2 : 2 ≤ n) {g : Gram} (hv : bos ∉ g.take (n - 1))
    (s : List Word) (k : Nat) :
    (windows n (List.replicate k bos ++ padded1 s)).count g = (windows n (padded1 s)).count g := by
  induction k with
  | zero => simp
  | succ k ih =>
    rw [List.replicate_succ, List.cons_append, count_windows_bos h2 hv _ ?_, ih]
    cases k with
    | zero => simp [padded1]
    | succ k => simp [List.replicate_succ]

/-- per sentence: the `N`-padded windows with suffix `g` are as many as the occurrences of `g`
in the sentence delimited by one `<s>` and one `</s>` -/
theorem sentence_count {N n : Nat} (h2 : 2 ≤ N) (h1 : 1 ≤ n) (hn : n ≤ N) (s : List Word) {g : Gram}
    (hv : bos ∉ g.take (n - 1)) (hb : g ≠ [bos]) :
    (windows N (paddedN N s)).countP (fun r => r.take n == g) = (windows n (padded1 s)).count g := by
  have h0 : (windows N (paddedN N s)).countP (fun r => r.take n == g) =
      (windows n ((paddedN N s).drop (N - n))).count g := by
    rw [← map_take_windows h1 hn, List.count_eq_countP, List.countP_map]
    rfl
  rw [h0]
  by_cases hn1 : n = 1
  · subst hn1
    have : (paddedN N s).drop (N - 1) = (padded1 s).drop 1 := by
      have := drop_paddedN N h2 s 1
      rwa [show N - 2 + 1 = N - 1 by omega] at this
    rw [this]
    have hq : padded1 s = bos :: (s ++ [eos]) := rfl
    rw [hq, List.drop_succ_cons, List.drop_zero, windows_cons, if_pos (by simp), List.count_cons]
    have : ((((bos :: (s ++ [eos])).take 1).reverse) == g) = false := by
      have : ((bos :: (s ++ [eos])).take 1).reverse = [bos] := by simp
      rw [this]
      simpa using fun h => hb h.symm
    rw [this]; simp
  · have : (paddedN N s).drop (N - n) = List.replicate (n - 2) bos ++ padded1 s := by
      rw [paddedN_eq N h2, List.drop_append_of_le_length (by simp; omega), List.drop_replicate]
      congr 2
      omega
    rw [this]
    exact count_windows_rep (by omega) hv s _

theorem sum_map_eq_nat {α : Type} (l : List α) (f g : α → Nat) (h : ∀ x ∈ l, f x = g x) :
    (l.map f).sum = (l.map g).sum := by
  rw [List.map_congr_left h]

/-- **True counts on the corpus**: the true count of an n-gram `g` (`1 ≤ n ≤ N`, no `<s>` except
possibly as its oldest word, not the bare `<s>`) is the number of its occurrences in the
sentences delimited by one `<s>` and one `</s>`. -/
theorem trueCount_padded1 (N : Nat) (corpus : List (List Word)) (h2 : 2 ≤ N) (g : Gram)
    (h1 : 1 ≤ g.length) (hn : g.length ≤ N) (hv : validAt g.length g = true) (hb : g ≠ [bos]) :
    Spec.trueCount (countFull N corpus) g =
      (corpus.flatMap fun s => windows g.length (padded1 s)).count g := by
  rw [trueCount_countFull, List.count_flatMap]
  unfold occurrences
  rw [List.countP_flatMap]
  apply sum_map_eq_nat
  intro s _
  exact sentence_count h2 h1 hn s (validAt_iff.mp hv) hb

/-! ## 2. Left extensions, adjusted counts -/

theorem length_eq_of_nodup_mem {α : Type} {l₁ l₂ : List α} (h1 : l₁.Nodup) (h2 : l₂.Nodup)
    (h : ∀ a, a ∈ l₁ ↔ a ∈ l₂) : l₁.length = l₂.length :=
  ((List.perm_ext_iff_of_nodup h1 h2).mpr h).length_eq

/-- **`N₁₊(•g)`**: for an n-gram without `<s>`, the number of distinct left extensions is the number
of (n+1)-grams of the model that extend `g` on the left (no assumption on the table) -/
theorem leftExts_textbook (full : Table) (g : Gram) (hg : bos ∉ g) :
    Spec.leftExts full g =
      ((Spec.keys (g.length + 1) full).filter fun h => h.take g.length == g).length := by
  unfold Spec.leftExts
  have hk : ((Spec.keys (g.length + 1) full).filter fun h => h.take g.length == g).Nodup :=
    (show (Spec.keys (g.length + 1) full).Nodup from nodup_dedup _).filter _
  apply length_eq_of_nodup_mem (nodup_dedup _) hk
  intro h
  rw [mem_dedup, List.mem_map, List.mem_filter, mem_keys]
  constructor
  · rintro ⟨e, he, rfl⟩
    obtain ⟨he1, he2⟩ := mem_rowsOf.mp he
    have ht : (e.1.take (g.length + 1)).take g.length = g := by
      rw [List.take_take, show min g.length (g.length + 1) = g.length by omega]; exact he2
    refine ⟨⟨e, he1, ?_, rfl⟩, by simp [ht]⟩
    rw [validAt_iff, Nat.add_sub_cancel, he2]; exact hg
  · rintro ⟨⟨e, he, _, rfl⟩, ht⟩
    have ht' : (e.1.take (g.length + 1)).take g.length = g := by simpa using ht
    rw [List.take_take, show min g.length (g.length + 1) = g.length by omega] at ht'
    exact ⟨e, mem_rowsOf.mpr ⟨he, ht'⟩, rfl⟩

theorem bos_not_mem_of_valid {g : Gram} (hv : validAt g.length g = true)
    (hl : g.getLast? ≠ some bos) : bos ∉ g := by
  intro hmem
  obtain ⟨i, hi⟩ := List.mem_iff_getElem?.mp hmem
  have hlt : i < g.length := by
    by_contra h
    rw [List.getElem?_eq_none (by omega)] at hi; cases hi
  by_cases h1 : i < g.length - 1
  · apply validAt_iff.mp hv
    apply List.mem_of_getElem? (i := i)
    rw [List.getElem?_take, if_pos h1]; exact hi
  · apply hl
    rw [List.getLast?_eq_getElem?, show g.length - 1 = i by omega]; exact hi

/-- the same with the (n+1)-grams read off the corpus: the distinct windows of length `n+1` of the
`<s>`/`</s>`-delimited sentences that extend `g` on the left -/
theorem leftExts_corpus (N : Nat) (corpus : List (List Word)) (h2 : 2 ≤ N)
    (hw : ∀ s ∈ corpus, ∀ w ∈ s, 3 ≤ w) (g : Gram) (hg : bos ∉ g) (h1 : 1 ≤ g.length)
    (hn : g.length < N) :
    Spec.leftExts (countFull N corpus) g =
      (((corpus.flatMap fun s => windows (g.length + 1) (padded1 s)).eraseDups).filter
        fun h => h.take g.length == g).length := by
  rw [leftExts_textbook _ g hg]
  have hk : ((Spec.keys (g.length + 1) (countFull N corpus)).filter
      fun h => h.take g.length == g).Nodup :=
    (show (Spec.keys (g.length + 1) (countFull N corpus)).Nodup from nodup_dedup _).filter _
  apply length_eq_of_nodup_mem hk ((nodup_dedup _).filter _)
  intro h
  rw [List.mem_filter, List.mem_filter, mem_dedup, List.mem_flatMap,
    ngram_set N corpus h2 hw (g.length + 1) (by omega) (by omega) h]
  constructor
  · rintro ⟨⟨hs, _⟩, ht⟩; exact ⟨hs, ht⟩
  · rintro ⟨hs, ht⟩
    refine ⟨⟨hs, ?_⟩, ht⟩
    intro hb
    have : (h.take g.length) = g := by simpa using ht
    rw [hb] at this
    have hl := congrArg List.length this
    simp at hl
    have : g = [bos] := by
      rw [← this]; cases hgl : g.length with
      | zero => omega
      | succ k => simp
    exact hg (by rw [this]; simp)

/-- **Adjusted counts in textbook form**: the true count (occurrences in the `<s>`/`</s>`-delimited
sentences) at the highest order and for n-grams that start with `<s>`; otherwise the number of
distinct left extensions in the corpus. -/
theorem adjCount_textbook (N : Nat) (corpus : List (List Word)) (h2 : 2 ≤ N)
    (hw : ∀ s ∈ corpus, ∀ w ∈ s, 3 ≤ w) (g : Gram) (h1 : 1 ≤ g.length) (hn : g.length ≤ N)
    (hv : validAt g.length g = true) (hb : g ≠ [bos]) :
    Spec.adjCount N (countFull N corpus) g =
      if g.length = N ∨ g.getLast? = some bos then
        (corpus.flatMap fun s => windows g.length (padded1 s)).count g
      else
        (((corpus.flatMap fun s => windows (g.length + 1) (padded1 s)).eraseDups).filter
          fun h => h.take g.length == g).length := by
  unfold Spec.adjCount
  split
  · exact trueCount_padded1 N corpus h2 g h1 hn hv hb
  · rename_i hc
    simp only [not_or] at hc
    exact leftExts_corpus N corpus h2 hw g (bos_not_mem_of_valid hv hc.2) h1 (by omega)

/-! ## 3. What is written -/

theorem special_iff (g : Gram) :
    (g.length == 1 && g.all isSpecial) = (g == [unk] || g == [bos] || g == [eos]) := by
  cases g with
  | nil => rfl
  | cons w t =>
    cases t with
    | nil =>
      simp only [List.length_singleton, beq_self_eq_true, Bool.true_and, List.all_cons, List.all_nil,
        Bool.and_true, isSpecial, List.cons_beq_cons]
    | cons b t' =>
      have h1 := not_special_of_len (k := w :: b :: t') (by simp) unk
      have h2 := not_special_of_len (k := w :: b :: t') (by simp) bos
      have h3 := not_special_of_len (k := w :: b :: t') (by simp) eos
      rw [h1, h2, h3]; simp

theorem pruned_special {cfg : Cfg} {full : Table} {g : Gram}
    (h : (g == [unk] || g == [bos] || g == [eos]) = true) : pruned cfg full g = false := by
  unfold pruned; rw [if_pos h]

theorem pruned_false_of_kept {cfg : Cfg} {full : Table} {g : Gram}
    (h : keptBy (recOf cfg full g) = true) : pruned cfg full g = false := by
  by_cases hsp : (g == [unk] || g == [bos] || g == [eos]) = true
  · exact pruned_special hsp
  · have hsp' : (g == [unk] || g == [bos] || g == [eos]) = false := by simpa using hsp
    have h12 : (g == [unk] || g == [bos]) = false := by
      cases h1 : (g == [unk]) <;> cases h2 : (g == [bos]) <;> simp_all
    unfold recOf at h
    rw [h12] at h
    simp only [Bool.false_eq_true, if_false] at h
    unfold keptBy at h
    simp only [special_iff, hsp', Bool.false_or, decide_eq_true_eq, Emit.cutoff] at h
    cases hp : pruned cfg full g with
    | false => rfl
    | true => rw [hp] at h; simp at h

section
variable {cfg : Cfg} {full : Table} (hw : TableWF cfg full)
include hw

/-- a record n-gram is `<unk>`, `<s>`, or the suffix of a row -/
theorem key_row {n : Nat} (h1 : 1 ≤ n) (hn : n ≤ cfg.order) {g : Gram} (hg : g ∈ ksOf cfg full n) :
    g = [unk] ∨ g = [bos] ∨ ∃ e ∈ full, e.1.take g.length = g := by
  by_cases hn1 : n = 1
  · subst hn1
    rcases ksOf_one hg with h | h | ⟨e, he, rfl⟩
    · exact Or.inl h
    · exact Or.inr (Or.inl h)
    · refine Or.inr (Or.inr ⟨e, he, ?_⟩)
      rw [take_len_row hw he (by omega)]
  · obtain ⟨m, rfl⟩ : ∃ m, n = m + 1 := ⟨n - 1, by omega⟩
    obtain ⟨e, he, _, rfl⟩ := hi_key hw (by omega : 1 ≤ m) hn hg
    refine Or.inr (Or.inr ⟨e, he, ?_⟩)
    rw [take_len_row hw he hn]

/-- **What is written** (table level): an n-gram has an entry iff it is a record of its order and
is not pruned. -/
theorem written_iff (discs : List (Disc × Bool)) (g : Gram) :
    (Query.lookup (ordersOf (specCtx cfg full discs)) g).isSome = true ↔
      1 ≤ g.length ∧ g.length ≤ cfg.order ∧ g ∈ (Spec.ents cfg full g.length).map (·.gram) ∧
        Spec.pruned cfg full g = false := by
  by_cases hne : g = []
  · subst hne; simp [Query.lookup]
  have hl1 : 1 ≤ g.length := length_pos_of_ne_nil hne
  rw [lookup_eq _ g hne]
  have : (if keptIn (specCtx cfg full discs) g = true then
      some (⟨g, (specCtx cfg full discs).prob g, (specCtx cfg full discs).backoff g⟩ : Entry)
      else none).isSome = true ↔ keptIn (specCtx cfg full discs) g = true := by
    by_cases hk : keptIn (specCtx cfg full discs) g = true <;> simp [hk]
  rw [this, keptIn_iff]
  constructor
  · rintro ⟨e, he, hke, heg⟩
    by_cases hlen : g.length ≤ cfg.order
    · rw [esAt_mid hw.order2 full discs hl1 hlen] at he
      obtain ⟨k, _, hk⟩ := mem_ents.mp he
      have hkg : k = g := by rw [← recOf_gram cfg full k, hk, heg]
      subst hkg
      refine ⟨hl1, hlen, List.mem_map.mpr ⟨e, he, heg⟩, ?_⟩
      rw [← hk] at hke
      exact pruned_false_of_kept hke
    · rw [esAt_hi hw.order2 full discs (by omega)] at he; cases he
  · rintro ⟨_, hlen, hmem, hp⟩
    rw [ents_grams] at hmem
    refine ⟨recOf cfg full g, ?_, ?_, recOf_gram ..⟩
    · rw [esAt_mid hw.order2 full discs hl1 hlen]
      exact mem_ents.mpr ⟨g, hmem, rfl⟩
    · apply kept_rec
      rcases key_row hw hl1 hlen hmem with h | h | ⟨e, he, hk⟩
      · exact Or.inr (Or.inl h)
      · exact Or.inl h
      · exact Or.inr (Or.inr ⟨hp, adj_pos he hk (hw.pos e he)⟩)

/-- without pruning every record is written -/
theorem written_iff_nopruning (hthr0 : ∀ i, cfg.thr i = 0) (hex : ∀ w, cfg.excl w = false)
    (discs : List (Disc × Bool)) (g : Gram) :
    (Query.lookup (ordersOf (specCtx cfg full discs)) g).isSome = true ↔
      1 ≤ g.length ∧ g.length ≤ cfg.order ∧ g ∈ (Spec.ents cfg full g.length).map (·.gram) := by
  rw [written_iff hw discs g]
  constructor
  · rintro ⟨h1, h2, h3, _⟩; exact ⟨h1, h2, h3⟩
  · rintro ⟨h1, h2, h3⟩
    refine ⟨h1, h2, h3, ?_⟩
    have h3' := h3
    rw [ents_grams] at h3'
    rcases key_row hw h1 h2 h3' with h | h | ⟨e, he, hk⟩
    · subst h; rfl
    · subst h; rfl
    · unfold pruned
      split
      · rfl
      · have := trueCount_pos he hk (hw.pos e he)
        have hany : g.any cfg.excl = false := by
          cases h : g.any cfg.excl with
          | false => rfl
          | true =>
            obtain ⟨w, _, hx⟩ := List.any_eq_true.mp h
            rw [hex w] at hx; cases hx
        rw [hthr0, hany]
        simp; omega

end

theorem pruned_eq_false_iff (cfg : Cfg) (full : Table) (g : Gram) :
    Spec.pruned cfg full g = false ↔
      (g = [unk] ∨ g = [bos] ∨ g = [eos]) ∨
      (cfg.thr (g.length - 1) < Spec.trueCount full g ∧ ∀ w ∈ g, cfg.excl w = false) := by
  unfold pruned
  by_cases hsp : (g == [unk] || g == [bos] || g == [eos]) = true
  · rw [if_pos hsp]
    simp only [Bool.or_eq_true, beq_iff_eq] at hsp
    simp only [true_iff]
    rcases hsp with (h | h) | h
    · exact Or.inl (Or.inl h)
    · exact Or.inl (Or.inr (Or.inl h))
    · exact Or.inl (Or.inr (Or.inr h))
  · rw [if_neg hsp]
    simp only [Bool.or_eq_true, beq_iff_eq, not_or] at hsp
    simp only [Bool.or_eq_false_iff, decide_eq_false_iff_not, Nat.not_le, List.any_eq_false]
    constructor
    · rintro ⟨h1, h2⟩
      exact Or.inr ⟨h1, fun w hw' => by simpa using h2 w hw'⟩
    · rintro (h | ⟨h1, h2⟩)
      · rcases h with h | h | h
        · exact absurd h hsp.1.1
        · exact absurd h hsp.1.2
        · exact absurd h hsp.2
      · exact ⟨h1, fun w hw' => by simp [h2 w hw']⟩

/-- **What is written, on the corpus** (last clause of C05): an n-gram has an entry in the
estimated model iff it is `<unk>`, `<s>` or an n-gram of the `<s>`/`</s>`-delimited sentences
(other than the bare `<s>`), of order at most `N`, and is not pruned — where pruned means: not a
special unigram, and true count at or below the threshold of its order or an excluded word
(`pruned_eq_false_iff`; the true count is `trueCount_padded1`). -/
theorem written_set_corpus (cfg : Cfg) (pv : Bool) (fallback : Option Disc)
    (corpus : List (List Word)) (m : Model) (hm : Spec.estimate cfg pv fallback corpus = .ok m)
    (h2 : 2 ≤ cfg.order) (hne : corpus ≠ []) (hw : ∀ s ∈ corpus, ∀ w ∈ s, 3 ≤ w)
    (hthr : ∀ i, i < cfg.order - 1 → cfg.thr i ≤ cfg.thr (i + 1)) (g : Gram) :
    (Query.lookup m.orders g).isSome = true ↔
      1 ≤ g.length ∧ g.length ≤ cfg.order ∧
      ((g.length = 1 ∧ (g = [unk] ∨ g = [bos])) ∨
        ((∃ s ∈ corpus, g ∈ windows g.length (padded1 s)) ∧ g ≠ [bos])) ∧
      Spec.pruned cfg (countFull cfg.order corpus) g = false := by
  unfold Spec.estimate at hm
  rw [if_neg (by omega)] at hm
  obtain ⟨discs, _, ho⟩ := estimateFrom_orders cfg fallback _ m hm
  rw [ho, written_iff (tableWF_countFull cfg corpus h2 hne hw hthr) discs g]
  constructor
  · rintro ⟨h1, hn, hmem, hp⟩
    exact ⟨h1, hn, (ngram_set_ents cfg corpus h2 hw g.length h1 hn g).mp hmem, hp⟩
  · rintro ⟨h1, hn, hmem, hp⟩
    exact ⟨h1, hn, (ngram_set_ents cfg corpus h2 hw g.length h1 hn g).mpr hmem, hp⟩

/-- without pruning, the written n-grams are exactly `<unk>`, `<s>` and the n-grams (`n ≤ N`) of
the `<s>`/`</s>`-delimited sentences -/
theorem written_set_corpus_nopruning (cfg : Cfg) (pv : Bool) (fallback : Option Disc)
    (corpus : List (List Word)) (m : Model) (hm : Spec.estimate cfg pv fallback corpus = .ok m)
    (h2 : 2 ≤ cfg.order) (hne : corpus ≠ []) (hw : ∀ s ∈ corpus, ∀ w ∈ s, 3 ≤ w)
    (hthr0 : ∀ i, cfg.thr i = 0) (hex : ∀ w, cfg.excl w = false) (g : Gram) :
    (Query.lookup m.orders g).isSome = true ↔
      1 ≤ g.length ∧ g.length ≤ cfg.order ∧
      ((g.length = 1 ∧ (g = [unk] ∨ g = [bos])) ∨
        ((∃ s ∈ corpus, g ∈ windows g.length (padded1 s)) ∧ g ≠ [bos])) := by
  unfold Spec.estimate at hm
  rw [if_neg (by omega)] at hm
  obtain ⟨discs, _, ho⟩ := estimateFrom_orders cfg fallback _ m hm
  have hthr : ∀ i, i < cfg.order - 1 → cfg.thr i ≤ cfg.thr (i + 1) := by
    intro i _; rw [hthr0, hthr0]
  rw [ho, written_iff_nopruning (tableWF_countFull cfg corpus h2 hne hw hthr) hthr0 hex discs g]
  constructor
  · rintro ⟨h1, hn, hmem⟩
    exact ⟨h1, hn, (ngram_set_ents cfg corpus h2 hw g.length h1 hn g).mp hmem⟩
  · rintro ⟨h1, hn, hmem⟩
    exact ⟨h1, hn, (ngram_set_ents cfg corpus h2 hw g.length h1 hn g).mpr hmem⟩

/-! ## 4. Header counts -/

theorem estimateFrom_header (cfg : Cfg) (fallback : Option Disc) (full : Spec.Table) (m : Model)
    (hm : Spec.estimateFrom cfg fallback full = .ok m) :
    m.header = ((specRecords cfg full).map Spec.stats).map (·.countPruned) := by
  unfold Spec.estimateFrom at hm
  simp only [bind, Except.bind] at hm
  split at hm
  · cases hm
  · simp only [pure, Except.pure, Except.ok.injEq] at hm
    rw [← hm]
    rfl

/-- in the records of a well-formed table, written = unmarked -/
theorem kept_eq_unmarked {cfg : Cfg} {full : Table} (hw : TableWF cfg full) (discs : List (Disc × Bool))
    (n : Nat) (hn : 1 ≤ n) (e : Emit) (he : e ∈ (specCtx cfg full discs).esAt n) :
    keptBy e = !e.marked := by
  by_cases hn1 : n = 1
  · subst hn1
    have hl := tableOK_len1 hw discs e he
    have hs := tableOK_specialsUnmarked hw discs e he
    have hc := tableOK_count1 hw discs e he
    simp only [keptBy, hl, beq_self_eq_true, Bool.true_and]
    cases hsp : e.gram.all isSpecial with
    | true => simp [hs hsp]
    | false =>
      cases hm : e.marked with
      | true => simp [Emit.cutoff, hm]
      | false =>
        have := hc hm hsp
        simp [Emit.cutoff, hm]; omega
  · obtain ⟨k, rfl⟩ : ∃ k, n = k + 1 := ⟨n - 1, by omega⟩
    have hl := spec_len hw discs (k + 1) hn e he
    have hc := tableOK_countPos hw discs k (by omega) e he
    rw [keptBy_hi (by omega : 1 ≤ k) hl]
    cases hm : e.marked with
    | true => simp [Emit.cutoff, hm]
    | false => simp [Emit.cutoff, hm]; omega

theorem esAt_of_mem (c : Spec.Ctx) {l : List Emit} (hl : l ∈ c.es) : ∃ n, 1 ≤ n ∧ c.esAt n = l := by
  obtain ⟨i, hi⟩ := List.mem_iff_getElem?.mp hl
  refine ⟨i + 1, by omega, ?_⟩
  unfold Spec.Ctx.esAt
  rw [List.getD_eq_getElem?_getD, Nat.add_sub_cancel, hi]; rfl

/-- **Header counts** (table level): the per-order counts in the header (`counts_pruned`) are the
numbers of entries written. -/
theorem header_counts_table (cfg : Cfg) (fallback : Option Disc) (full : Spec.Table) (m : Model)
    (hm : Spec.estimateFrom cfg fallback full = .ok m) (hw : TableWF cfg full) :
    m.header = m.orders.map List.length := by
  obtain ⟨discs, _, ho⟩ := estimateFrom_orders cfg fallback full m hm
  rw [estimateFrom_header cfg fallback full m hm, ho]
  unfold ordersOf
  have hes : (specCtx cfg full discs).es = specRecords cfg full := rfl
  rw [hes, List.map_map, List.map_map]
  apply List.map_congr_left
  intro l hl
  obtain ⟨n, hn, hln⟩ := esAt_of_mem (specCtx cfg full discs) (hes ▸ hl)
  simp only [Function.comp, List.length_mergeSort, List.length_map, Spec.stats]
  rw [List.countP_eq_length_filter]
  congr 1
  apply List.filter_congr
  intro e he
  rw [kept_eq_unmarked hw discs n hn e (hln ▸ he)]

theorem header_counts_corpus (cfg : Cfg) (pv : Bool) (fallback : Option Disc)
    (corpus : List (List Word)) (m : Model) (hm : Spec.estimate cfg pv fallback corpus = .ok m)
    (h2 : 2 ≤ cfg.order) (hne : corpus ≠ []) (hw : ∀ s ∈ corpus, ∀ w ∈ s, 3 ≤ w)
    (hthr : ∀ i, i < cfg.order - 1 → cfg.thr i ≤ cfg.thr (i + 1)) :
    m.header = m.orders.map List.length := by
  unfold Spec.estimate at hm
  rw [if_neg (by omega)] at hm
  exact header_counts_table cfg fallback _ m hm (tableWF_countFull cfg corpus h2 hne hw hthr)

/-- the `n`-th header count is the length of the `n`-th order -/
theorem header_counts_corpus_get (cfg : Cfg) (pv : Bool) (fallback : Option Disc)
    (corpus : List (List Word)) (m : Model) (hm : Spec.estimate cfg pv fallback corpus = .ok m)
    (h2 : 2 ≤ cfg.order) (hne : corpus ≠ []) (hw : ∀ s ∈ corpus, ∀ w ∈ s, 3 ≤ w)
    (hthr : ∀ i, i < cfg.order - 1 → cfg.thr i ≤ cfg.thr (i + 1)) (i : Nat) :
    m.header[i]? = (m.orders[i]?).map List.length := by
  rw [header_counts_corpus cfg pv fallback corpus m hm h2 hne hw hthr, List.getElem?_map]

/-! ## 5. Non-vacuity -/

example : Spec.trueCount (countFull 3 [[3, 4], [3], [4, 3, 5]]) [3, 1] = 2 := by
  rw [trueCount_padded1 3 _ (by decide) [3, 1] (by decide) (by decide) (by decide) (by decide)]
  decide

end KV.KN.Norm
