import Proofs.ProbingRun
/-!
The headline corollary in the words of the property: after inserting any sequence of distinct
keys that keeps the table below capacity, every inserted key is found with its value and every
other key is reported absent.
-/
namespace KV.Probing

def insertsOf (kvs : List (Nat × Nat)) : List Op := kvs.map fun e => Op.insert e.1 e.2

theorem runSpec_inserts : ∀ (kvs : List (Nat × Nat)) (σ : Spec),
    (∀ e, e ∈ kvs → σ.M e.1 = none) → kvs.Pairwise (fun a b => a.1 ≠ b.1) →
    σ.count + kvs.length < σ.N →
    ∃ σ', runSpec σ (insertsOf kvs) = some (kvs.map (fun _ => Out.done), σ') ∧
      (∀ k v, σ'.M k = some v ↔ σ.M k = some v ∨ (k, v) ∈ kvs) ∧ σ'.N = σ.N ∧
      σ'.count = σ.count + kvs.length := by
  intro kvs
  induction kvs with
  | nil =>
    intro σ _ _ _
    exact ⟨σ, rfl, by intro k v; simp, rfl, rfl⟩
  | cons e rest ih =>
    intro σ hfresh hpw hc
    obtain ⟨k, v⟩ := e
    rw [List.pairwise_cons] at hpw
    obtain ⟨hk, hpw'⟩ := hpw
    simp only [List.length_cons] at hc
    have hMk : σ.M k = none := hfresh (k, v) (List.mem_cons_self ..)
    have hnf : ¬ (σ.count + 1 ≥ σ.N) := by omega
    have hstep : stepSpec σ (Op.insert k v) =
        some (Out.done, { σ with M := upd σ.M k v, count := σ.count + 1 }) := by
      simp [stepSpec, hMk, hnf]
    have hfresh' : ∀ e, e ∈ rest → (upd σ.M k v) e.1 = none := by
      intro e he
      have hne : e.1 ≠ k := fun h => hk e he h.symm
      simp [upd, hne]
      exact hfresh e (List.mem_cons_of_mem _ he)
    obtain ⟨σ', hrun, hM, hN, hcnt⟩ :=
      ih { σ with M := upd σ.M k v, count := σ.count + 1 } hfresh' hpw' (by show σ.count + 1 + rest.length < σ.N; omega)
    refine ⟨σ', ?_, ?_, hN, ?_⟩
    · show runSpec σ (Op.insert k v :: insertsOf rest) = _
      simp only [runSpec, hstep]
      rw [show insertsOf rest = List.map (fun e => Op.insert e.1 e.2) rest from rfl] at hrun
      simp only [insertsOf, hrun, List.map_cons]
    · intro k' v'
      rw [hM k' v', List.mem_cons]
      show upd σ.M k v k' = some v' ∨ _ ↔ _
      unfold upd
      by_cases hkk : k' = k
      · subst hkk
        simp [hMk]
        constructor
        · rintro (h | h)
          · left; exact h.symm
          · right; exact h
        · rintro (h | h)
          · left; exact h.symm
          · right; exact h
      · simp [hkk]
    · show σ'.count = σ.count + (rest.length + 1)
      rw [hcnt]; show σ.count + 1 + rest.length = _; omega

/-- **every inserted key is found with its value, every other key is absent** -/
theorem inserted_found (h : Nat → Nat) (N : Nat) (kvs : List (Nat × Nat))
    (hd : kvs.Pairwise (fun a b => a.1 ≠ b.1)) (hc : kvs.length < N) :
    ∃ t, runT h (emptyTable N) (insertsOf kvs) = some (kvs.map (fun _ => Out.done), t) ∧
      (∀ k v, (k, v) ∈ kvs → find h t k = some (some v)) ∧
      (∀ k, (∀ v, (k, v) ∉ kvs) → find h t k = some none) := by
  obtain ⟨σ', hrun, hM, _, _⟩ := runSpec_inserts kvs { M := fun _ => none, count := 0, N := N }
    (fun _ _ => rfl) hd (by show 0 + kvs.length < N; omega)
  obtain ⟨t, ht, ref⟩ := run_refines h (insertsOf kvs) (emptyTable N) _ _ σ'
    ⟨Inv_empty h N (by omega), Abs_empty N, rfl, rfl⟩ hrun
  refine ⟨t, ht, ?_, ?_⟩
  · intro k v hkv
    rw [find_correct' h t σ'.M ref.inv ref.abs k]
    have := (hM k v).2 (Or.inr hkv)
    rw [this]
  · intro k hk
    rw [find_correct' h t σ'.M ref.inv ref.abs k]
    cases hMk : σ'.M k with
    | none => rfl
    | some v =>
      rcases (hM k v).1 hMk with h1 | h1
      · cases h1
      · exact absurd h1 (hk v)

end KV.Probing
