import Model.Bits
/-! Helper lemmas for the bit-packing model: everything is reduced to `Nat.testBit`. -/
namespace KV.Bits

theorem off_split (off : Nat) : 8 * (off / 8) + off % 8 = off := by omega

theorem testBit_readOff (m off j : Nat) :
    (readOff m off).testBit j = (decide (j < 64) && m.testBit (8 * (off / 8) + j)) := by
  unfold readOff
  rw [Nat.testBit_mod_two_pow, Nat.testBit_shiftRight]

theorem testBit_readInt57 (m off len j : Nat) :
    (readInt57 m off len).testBit j =
      (decide (j < len) && (decide (off % 8 + j < 64) && m.testBit (off + j))) := by
  simp only [readInt57, Nat.testBit_mod_two_pow, Nat.testBit_shiftRight, testBit_readOff]
  have : 8 * (off / 8) + (off % 8 + j) = off + j := by omega
  rw [this]

theorem testBit_writeInt57 (m off len v j : Nat) :
    (writeInt57 m off len v).testBit j =
      (m.testBit j || (decide (8 * (off / 8) ≤ j) && (decide (j - 8 * (off / 8) < 64) &&
        (decide (off % 8 ≤ j - 8 * (off / 8)) && v.testBit (j - 8 * (off / 8) - off % 8))))) := by
  unfold writeInt57
  rw [Nat.testBit_or, Nat.testBit_shiftLeft, Nat.testBit_mod_two_pow, Nat.testBit_shiftLeft]

theorem testBit_lt_of_lt_two_pow {v len j : Nat} (hv : v < 2^len) (hj : len ≤ j) : v.testBit j = false := by
  apply Nat.testBit_lt_two_pow
  exact Nat.lt_of_lt_of_le hv (Nat.pow_le_pow_right (by omega) hj)

end KV.Bits

namespace KV.Bits

theorem testBit_readOff32 (m off j : Nat) :
    (readOff32 m off).testBit j = (decide (j < 32) && m.testBit (8 * (off / 8) + j)) := by
  unfold readOff32
  rw [Nat.testBit_mod_two_pow, Nat.testBit_shiftRight]

theorem testBit_readInt25 (m off len j : Nat) :
    (readInt25 m off len).testBit j =
      (decide (j < len) && (decide (off % 8 + j < 32) && m.testBit (off + j))) := by
  simp only [readInt25, Nat.testBit_mod_two_pow, Nat.testBit_shiftRight, testBit_readOff32]
  have : 8 * (off / 8) + (off % 8 + j) = off + j := by omega
  rw [this]

theorem testBit_writeInt25 (m off len v j : Nat) :
    (writeInt25 m off len v).testBit j =
      (m.testBit j || (decide (8 * (off / 8) ≤ j) && (decide (j - 8 * (off / 8) < 32) &&
        (decide (off % 8 ≤ j - 8 * (off / 8)) && v.testBit (j - 8 * (off / 8) - off % 8))))) := by
  unfold writeInt25
  rw [Nat.testBit_or, Nat.testBit_shiftLeft, Nat.testBit_mod_two_pow, Nat.testBit_shiftLeft]

theorem testBit_readFloat32 (m off j : Nat) :
    (readFloat32 m off).testBit j = (decide (j < 32) && m.testBit (off + j)) := by
  have h := testBit_readInt57 m off 32 j
  unfold readInt57 at h
  unfold readFloat32
  rw [h]
  by_cases hj : j < 32
  · have : off % 8 + j < 64 := by omega
    simp [hj, this]
  · simp [hj]

end KV.Bits

namespace KV.Bits

theorem requiredBitsLoop_spec : ∀ fuel mx ret, 0 < mx → mx < 2^fuel →
    ret ≤ requiredBitsLoop fuel mx ret ∧
    2^(requiredBitsLoop fuel mx ret - ret) ≤ mx ∧ mx < 2^(requiredBitsLoop fuel mx ret - ret + 1) := by
  intro fuel
  induction fuel with
  | zero => intro mx ret h0 h1; simp at h1; omega
  | succ n ih =>
    intro mx ret h0 h1
    unfold requiredBitsLoop
    by_cases hz : mx / 2 = 0
    · have : mx = 1 := by omega
      subst this
      simp
    · simp only [hz, ↓reduceIte]
      have h2 : 0 < mx / 2 := by omega
      have h3 : mx / 2 < 2^n := by
        rw [Nat.pow_succ] at h1; omega
      obtain ⟨a, b, c⟩ := ih (mx / 2) (ret + 1) h2 h3
      generalize requiredBitsLoop n (mx / 2) (ret + 1) = r at a b c
      have e1 : r - ret = (r - (ret + 1)) + 1 := by omega
      refine ⟨by omega, ?_, ?_⟩
      · rw [e1, Nat.pow_succ]; omega
      · rw [e1, Nat.pow_succ]; rw [Nat.pow_succ] at c ⊢; omega

end KV.Bits
