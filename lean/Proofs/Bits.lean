import Model.Bits
/-! Helper lemmas for the bit-packing model: everything is reduced to `Nat.testBit`. -/
namespace KV.Bits

theorem off_split (off : Nat) : 8 * (off / 8) + off % 8 = off := by omega

theorem testBit_readOff (m off j : Nat) :
    (readOff m off).testBit j = (decide (j < 64) && m.testBit (8 * (off / 8) + j)) := by
  unfold readOff
  rw [Nat.testBit_mod_two_pow, Nat.testBit_shiftRight]

theorem testBit_readInt57 (m off len j : Nat) :
    (readInt57 m off len).testBit j =
      (decide (j < len) && (decide (off % 8 + j < 64) && m.testBit (off + j))) := by
  simp only [readInt57, Nat.testBit_mod_two_pow, Nat.testBit_shiftRight, testBit_readOff]
  have : 8 * (off / 8) + (off % 8 + j) = off + j := by omega
  rw [this]

theorem testBit_writeInt57 (m off len v j : Nat) :
    (writeInt57 m off len v).testBit j =
      (m.testBit j || (decide (8 * (off / 8) ≤ j) && (decide (j - 8 * (off / 8) < 64) &&
        (decide (off % 8 ≤ j - 8 * (off / 8)) && v.testBit (j - 8 * (off / 8) - off % 8))))) := by
  unfold writeInt57
  rw [Nat.testBit_or, Nat.testBit_shiftLeft, Nat.testBit_mod_two_pow, Nat.testBit_shiftLeft]

theorem testBit_lt_of_lt_two_pow {v len j : Nat} (hv : v < 2^len) (hj : len ≤ j) : v.testBit j = false := by
  apply Nat.testBit_lt_two_pow
  exact Nat.lt_of_lt_of_le hv (Nat.pow_le_pow_right (by omega) hj)

end KV.Bits
