import Proofs.ProbingBuildOps
import Proofs.ProbingRefines
import Proofs.TableBuild
/-! The probing builder on bigram models (order 2: no middle tables, no blanks): the fold over the file's lines
establishes `Represents` — base case of `probing_build_represents`. -/
namespace KV.ProbingBuild
open KV.Arpa KV.Table KV.Score KV.ProbingLM

theorem getD_set {α} (l : List α) (x w : Nat) (v d : α) :
    (l.set x v).getD w d = if w = x ∧ x < l.length then v else l.getD w d := by
  simp only [List.getD_eq_getElem?_getD, List.getElem?_set]
  by_cases h : x = w
  · subst h
    by_cases hl : x < l.length
    · simp [hl]
    · simp [hl]
  · have : ¬ w = x := fun e => h e.symm
    simp [h, this]

/-- one bigram line in closed form -/
theorem addLine_bigram (combine : Nat → Word → Nat) (s : St) (x y : Word) (e : Entry) :
    addLine combine false 2 s [x, y] e =
      (s.longest.insert (hashOf combine [x, y]) (lineW e)).map
        (fun o => (({ s with longest := o } : St).modify (.uni x) (fun w => { w with neg := false })).modify (.uni y) setExtension) := by
  unfold addLine
  cases h : s.longest.insert (hashOf combine [x, y]) (lineW e) with
  | error err => simp [h, bind, Except.bind, Except.map]
  | ok o =>
    simp [h, bind, Except.bind, Except.map, findLower, adjustLower, markExtends, activate, pure, Except.pure]

/-- the unigram array after the bigram lines `proc`: sign cleared for words that end a bigram, extension set for
words that are the context of a bigram -/
def uniAfter (u0 : List W) (proc : List (List Word × Entry)) (w : Word) : W :=
  let u := u0.getD w default
  { u with neg := u.neg && !(proc.any fun p => p.1.headD 0 == w),
           xr := u.xr || (proc.any fun p => p.1.getD 1 0 == w) }

/-- invariant of the fold over bigram lines -/
structure Inv2 (combine : Nat → Word → Nat) (u0 : List W) (N : Nat) (proc : List (List Word × Entry)) (s : St) : Prop where
  mid : s.mid = []
  ulen : s.uni.length = u0.length
  uni : ∀ w, s.uni.getD w default = uniAfter u0 proc w
  tab : ∃ M, OrdInv s.longest M ∧ s.longest.t.entries = proc.length ∧ s.longest.t.N = N ∧
    s.longest.pay.length = proc.length ∧
    (∀ j (hj : j < proc.length), M (hashOf combine proc[j].1) = some j) ∧
    (∀ j (hj : j < proc.length), (s.longest.pay.getD j default).mag = proc[j].2.prob.abs) ∧
    (∀ k i, M k = some i → ∃ (hj : i < proc.length), k = hashOf combine proc[i].1)

/-- init-consistency of the unigram array: a non-zero back-off already has its extension bit -/
def UniOK (u0 : List W) : Prop := ∀ w, (u0.getD w default).backoff ≠ 0 → (u0.getD w default).xr = true

theorem inv2_step (combine : Nat → Word → Nat) (u0 : List W) (hu : UniOK u0) (N : Nat) (proc : List (List Word × Entry)) (s : St)
    (inv : Inv2 combine u0 N proc s) (x y : Word) (e : Entry) (hx : x < u0.length) (hy : y < u0.length)
    (hfresh : ∀ p ∈ proc, hashOf combine p.1 ≠ hashOf combine [x, y]) (hcap : proc.length + 1 < N) :
    ∃ s', addLine combine false 2 s [x, y] e = .ok s' ∧ Inv2 combine u0 N (proc ++ [([x, y], e)]) s' := by
  obtain ⟨M, oi, hent, hN, hpl, hM, hmag, honly⟩ := inv.tab
  have hMk : M (hashOf combine [x, y]) = none := by
    cases hm : M (hashOf combine [x, y]) with
    | none => rfl
    | some i =>
      obtain ⟨hj, hk⟩ := honly _ i hm
      exact absurd hk.symm (hfresh _ (List.getElem_mem hj))
  obtain ⟨o', hins, oi', hpay', hN', hent'⟩ := ord_insert oi (hashOf combine [x, y]) (lineW e) hMk
    (by rw [hent, hN]; exact hcap)
  rw [addLine_bigram, hins]
  refine ⟨_, rfl, ?_⟩
  have hxl : x < s.uni.length := by rw [inv.ulen]; exact hx
  have hyl : y < s.uni.length := by rw [inv.ulen]; exact hy
  refine ⟨by simp [St.modify, inv.mid], by simp [St.modify, inv.ulen], ?_, ?_⟩
  · intro w
    simp only [St.modify, St.get]
    rw [getD_set, List.length_set]
    simp only [getD_set]
    have hux := inv.uni x
    have huy := inv.uni y
    have huw := inv.uni w
    by_cases hwy : w = y
    · subst hwy
      simp only [hyl, and_self, if_true]
      by_cases hwx : w = x
      · subst hwx
        simp only [hxl, and_self, if_true]
        rw [hux]
        unfold uniAfter setExtension
        have hb := hu w
        by_cases hbo : (u0.getD w default).backoff = 0
        · simp [hbo, List.any_append]
          try (intro h; exact Or.inl (hb h))
        · have := hb hbo
          simp [hbo, this, List.any_append]
          try (intro h; exact Or.inl (hb h))
      · simp only [hwx, false_and, if_false]
        rw [huw]
        unfold uniAfter setExtension
        have hb := hu w
        have hne : (x == w) = false := by simpa using fun h => hwx h.symm
        by_cases hbo : (u0.getD w default).backoff = 0
        · simp [hbo, List.any_append, hne]
          try (intro h; exact Or.inl (hb h))
        · have := hb hbo
          simp [hbo, this, List.any_append, hne]
          try (intro h; exact Or.inl (hb h))
    · simp only [hwy, false_and, if_false]
      have hney : (y == w) = false := by simpa using fun h => hwy h.symm
      by_cases hwx : w = x
      · subst hwx
        simp only [hxl, and_self, if_true]
        rw [hux]
        unfold uniAfter
        simp [List.any_append, hney]
      · simp only [hwx, false_and, if_false]
        rw [huw]
        unfold uniAfter
        have hne : (x == w) = false := by simpa using fun h => hwx h.symm
        simp [List.any_append, hne, hney]
  · refine ⟨KV.Probing.upd M (hashOf combine [x, y]) s.longest.pay.length, ?_, ?_, ?_, ?_, ?_, ?_, ?_⟩
    · simpa [St.modify] using oi'
    · simp [St.modify, hent', hent]
    · simp [St.modify, hN', hN]
    · simp [St.modify, hpay', hpl]
    · intro j hj
      simp only [List.length_append, List.length_cons, List.length_nil] at hj
      by_cases hjl : j < proc.length
      · rw [List.getElem_append_left hjl]
        unfold KV.Probing.upd
        have := hM j hjl
        have hne : hashOf combine proc[j].1 ≠ hashOf combine [x, y] := hfresh _ (List.getElem_mem hjl)
        simp [hne, this]
      · have hje : j = proc.length := by omega
        subst hje
        simp [KV.Probing.upd, hpl]
    · intro j hj
      simp only [List.length_append, List.length_cons, List.length_nil] at hj
      simp only [St.modify, hpay']
      by_cases hjl : j < proc.length
      · rw [List.getElem_append_left hjl]
        have := hmag j hjl
        rw [List.getD_eq_getElem?_getD, List.getElem?_append_left (by rw [hpl]; exact hjl), ← List.getD_eq_getElem?_getD]
        exact this
      · have hje : j = proc.length := by omega
        subst hje
        rw [List.getD_eq_getElem?_getD, List.getElem?_append_right (by rw [hpl]; exact Nat.le_refl _)]
        simp [hpl, lineW]
    · intro k i hk
      unfold KV.Probing.upd at hk
      split at hk
      · cases hk
        rename_i hkk
        refine ⟨by simp [hpl], ?_⟩
        simp [hpl, hkk]
      · obtain ⟨hj, hkk⟩ := honly k i hk
        refine ⟨by simp; omega, ?_⟩
        rw [List.getElem_append_left hj]; exact hkk

end KV.ProbingBuild

namespace KV.ProbingBuild
open KV.Arpa KV.Table KV.Score KV.ProbingLM

theorem inv2_fold (combine : Nat → Word → Nat) (u0 : List W) (hu : UniOK u0) (N : Nat) :
    ∀ (rest proc : List (List Word × Entry)) (s : St), Inv2 combine u0 N proc s →
      (∀ p ∈ rest, ∃ x y, p.1 = [x, y] ∧ x < u0.length ∧ y < u0.length) →
      ((proc ++ rest).map (fun p => hashOf combine p.1)).Nodup → (proc ++ rest).length < N →
      ∃ s', rest.foldlM (fun s p => addLine combine false 2 s p.1 p.2) s = .ok s' ∧ Inv2 combine u0 N (proc ++ rest) s' := by
  intro rest
  induction rest with
  | nil => intro proc s inv _ _ _; exact ⟨s, rfl, by simpa using inv⟩
  | cons p rest ih =>
    intro proc s inv hw hnd hcap
    obtain ⟨x, y, hp, hx, hy⟩ := hw p List.mem_cons_self
    have hfresh : ∀ q ∈ proc, hashOf combine q.1 ≠ hashOf combine [x, y] := by
      intro q hq heq
      rw [List.map_append, List.nodup_append] at hnd
      have := hnd.2.2 _ (List.mem_map_of_mem hq) _ (List.mem_map_of_mem (List.mem_cons_self (a := p) (l := rest)))
      rw [hp] at this
      exact this heq
    obtain ⟨s1, h1, inv1⟩ := inv2_step combine u0 hu N proc s inv x y p.2 hx hy hfresh
      (by simp at hcap; omega)
    have hpe : (p.1, p.2) = p := rfl
    rw [← hp, hpe] at inv1
    obtain ⟨s', h2, inv'⟩ := ih (proc ++ [p]) s1 inv1 (fun q hq => hw q (List.mem_cons_of_mem _ hq))
      (by simpa using hnd) (by simpa using hcap)
    refine ⟨s', ?_, by simpa using inv'⟩
    rw [List.foldlM_cons, hp, h1]
    exact h2

/-- **Bigram models: the builder succeeds and its result is characterised** (base case of `probing_build_represents`):
for an order-2 model whose bigram lines have pairwise distinct chained hashes, whose words are vocabulary ids and
whose bigram count is below the bucket count, the fold over the lines in file order returns `.ok`; the longest
table maps exactly the hashes of the bigrams to payload entries carrying their probabilities (C20 invariant
included), and the unigram array carries the sign bit / extension bit of exactly the words that end / start a bigram. -/
theorem build_bigram_ok (combine : Nat → Word → Nat) (a : Arpa) (nWords : Nat) (buckets : List Nat) (unkMissing : Rat)
    (horder : a.order = 2)
    (hlines : ∀ p ∈ a.entries.filter (fun p => p.1.length ≥ 2), ∃ x y, p.1 = [x, y] ∧ x < nWords ∧ y < nWords)
    (hnd : ((a.entries.filter (fun p => p.1.length ≥ 2)).map (fun p => hashOf combine p.1)).Nodup)
    (hcap : (a.entries.filter (fun p => p.1.length ≥ 2)).length < buckets.getD 0 1)
    (hu : UniOK (initUni a nWords)) :
    ∃ s, build combine false a nWords buckets unkMissing = .ok (fixUnk a unkMissing s) ∧
      Inv2 combine (initUni a nWords) (buckets.getD 0 1) (a.entries.filter (fun p => p.1.length ≥ 2)) s := by
  have hN : 0 < buckets.getD 0 1 := by omega
  have inv0 : Inv2 combine (initUni a nWords) (buckets.getD 0 1) []
      { uni := initUni a nWords, mid := [], longest := emptyOrd (buckets.getD 0 1) } :=
    ⟨rfl, rfl, fun w => by simp [uniAfter],
     ⟨fun _ => none, emptyOrd_inv _ hN, rfl, rfl, rfl, fun j hj => by simp at hj, fun j hj => by simp at hj,
      fun _ _ h => by cases h⟩⟩
  have hlen : (initUni a nWords).length = nWords := by simp [initUni]
  obtain ⟨s, hf, inv⟩ := inv2_fold combine (initUni a nWords) hu (buckets.getD 0 1)
    (a.entries.filter (fun p => p.1.length ≥ 2)) [] _ inv0
    (fun p hp => by obtain ⟨x, y, h1, h2, h3⟩ := hlines p hp; exact ⟨x, y, h1, by rw [hlen]; exact h2, by rw [hlen]; exact h3⟩)
    (by simpa using hnd) (by simpa using hcap)
  refine ⟨s, ?_, by simpa using inv⟩
  unfold build
  simp only [horder, Nat.sub_self, List.range_zero, List.map_nil]
  simp only [bind, Except.bind]
  have : (List.foldlM (fun s p => addLine combine false 2 s p.1 p.2)
      { uni := initUni a nWords, mid := [], longest := emptyOrd (buckets.getD 0 1) }
      (a.entries.filter (fun p => p.1.length ≥ 2))) = .ok s := hf
  rw [this]

/-- **capacity ⇒ ProbingSizeException** at the line that fills the table: if the invariant holds after `proc` lines and
the table is at capacity, the next bigram line raises `probingSize`. -/
theorem bigram_line_full (combine : Nat → Word → Nat) (u0 : List W) (N : Nat) (proc : List (List Word × Entry)) (s : St)
    (inv : Inv2 combine u0 N proc s) (x y : Word) (e : Entry) (hcap : proc.length + 1 ≥ N) :
    addLine combine false 2 s [x, y] e = .error .probingSize := by
  obtain ⟨M, oi, hent, hN, _⟩ := inv.tab
  rw [addLine_bigram, ord_insert_full oi _ _ (by rw [hent, hN]; exact hcap)]
  rfl

end KV.ProbingBuild
