import Proofs.Sort
/-! C16: the k-way priority-queue merge and the combiner fold. -/
namespace KV.Sort
open List

variable {α : Type}

/-- `le` as a proposition -/
abbrev LE (lt : α → α → Bool) (a b : α) : Prop := lt b a = false

theorem LE.trans {lt : α → α → Bool} (h : StrictWeak lt) {a b c : α} (h1 : LE lt a b) (h2 : LE lt b c) : LE lt a c := by
  have := h.le_trans a b c (by simp [le, h1]) (by simp [le, h2])
  simpa [le] using this

theorem LE.refl {lt : α → α → Bool} (h : StrictWeak lt) (a : α) : LE lt a a := h.irrefl a

/-- `a < b ≤ c → a < c` -/
theorem lt_of_lt_of_LE {lt : α → α → Bool} (h : StrictWeak lt) {a b c : α} (h1 : lt a b = true) (h2 : LE lt b c) :
    lt a c = true := by
  cases hac : lt a c with
  | true => rfl
  | false =>
    -- c ≤ a, b ≤ c ⇒ b ≤ a, i.e. ¬ a < b
    have : LE lt b a := LE.trans h h2 hac
    rw [LE, h1] at this; cases this

/-! ### the queue -/

theorem qflat_cons (e : QEntry α) (q) : qflat (e :: q) = e.1 :: e.2 ++ qflat q := by simp [qflat]

theorem qsize_eq_length (q : List (QEntry α)) : qsize q = (qflat q).length := by
  induction q with
  | nil => rfl
  | cons e q ih => simp [qsize, qflat] at ih ⊢; omega

theorem qflat_perm {q q' : List (QEntry α)} (h : q ~ q') : qflat q ~ qflat q' := by
  unfold qflat
  exact Perm.flatMap_right _ h

theorem qflat_requeue (m : QEntry α) (rest) : qflat (m :: rest) = m.1 :: qflat (requeue m rest) := by
  obtain ⟨x, tl⟩ := m
  cases tl <;> simp [requeue, qflat]

theorem mem_qflat {q : List (QEntry α)} {z : α} : z ∈ qflat q ↔ ∃ f ∈ q, z = f.1 ∨ z ∈ f.2 := by
  simp [qflat]

/-- heads minimal -/
def MinHead (lt : α → α → Bool) (m : QEntry α) (q : List (QEntry α)) : Prop := ∀ f ∈ q, LE lt m.1 f.1

theorem popMin_spec {lt : α → α → Bool} (h : StrictWeak lt) : ∀ (e : QEntry α) (q : List (QEntry α)),
    ((popMin lt e q).1 :: (popMin lt e q).2) ~ (e :: q) ∧ MinHead lt (popMin lt e q).1 (e :: q)
  | e, [] => by
    simp [popMin, MinHead, LE, h.irrefl]
  | e, f :: fs => by
    have ih := popMin_spec h f fs
    unfold popMin
    by_cases hlt : lt (popMin lt f fs).1.1 e.1 = true
    · simp only [hlt, ↓reduceIte]
      refine ⟨?_, ?_⟩
      · exact (Perm.swap _ _ _).trans (Perm.cons _ ih.1)
      · intro g hg
        simp only [mem_cons] at hg
        rcases hg with rfl | hg
        · exact h.asymm _ _ hlt
        · exact ih.2 g (by simpa using hg)
    · simp only [hlt]
      refine ⟨Perm.refl _, ?_⟩
      intro g hg
      simp only [mem_cons] at hg
      rcases hg with rfl | hg
      · exact h.irrefl _
      · have h1 : LE lt e.1 (popMin lt f fs).1.1 := by simpa using hlt
        exact LE.trans h h1 (ih.2 g (by simpa using hg))

theorem popAt_perm : ∀ (q : List (QEntry α)) (i : Nat) (r), popAt q i = some r → (r.1 :: r.2) ~ q
  | [], _, r, h => by simp [popAt] at h
  | e :: q, 0, r, h => by
    simp only [popAt, Option.some.injEq] at h; subst h; exact Perm.refl _
  | e :: q, i + 1, r, h => by
    simp only [popAt, Option.map_eq_some_iff] at h
    obtain ⟨r', hr', rfl⟩ := h
    exact (Perm.swap _ _ _).trans (Perm.cons _ (popAt_perm q i r' hr'))

theorem pop_spec {lt : α → α → Bool} (h : StrictWeak lt) (pick) (e : QEntry α) (q : List (QEntry α)) :
    ((pop lt pick e q).1 :: (pop lt pick e q).2) ~ (e :: q) ∧ MinHead lt (pop lt pick e q).1 (e :: q) := by
  unfold pop
  cases hp : popAt (e :: q) (pick (e :: q)) with
  | none => exact popMin_spec h e q
  | some r =>
    simp only
    by_cases hall : (e :: q).all (fun f => !lt f.1 r.1.1) = true
    · rw [if_pos hall]
      refine ⟨popAt_perm _ _ _ hp, ?_⟩
      intro f hf
      have := List.all_eq_true.mp hall f hf
      simpa using this
    · rw [if_neg hall]
      exact popMin_spec h e q

/-- Every run in the queue is sorted. -/
def QSorted (lt : α → α → Bool) (q : List (QEntry α)) : Prop := ∀ e ∈ q, Pairwise (LE lt) (e.1 :: e.2)

theorem QSorted.perm {lt : α → α → Bool} {q q' : List (QEntry α)} (hq : QSorted lt q) (h : q' ~ q) : QSorted lt q' :=
  fun e he => hq e (h.subset he)

theorem QSorted.requeue {lt : α → α → Bool} {m : QEntry α} {rest} (hq : QSorted lt (m :: rest)) :
    QSorted lt (requeue m rest) := by
  obtain ⟨x, tl⟩ := m
  cases tl with
  | nil => exact fun e he => hq e (by simp [KV.Sort.requeue] at he; simp [he])
  | cons y ys =>
    intro e he
    simp only [KV.Sort.requeue, mem_cons] at he
    rcases he with rfl | he
    · exact (pairwise_cons.mp (hq (x, y :: ys) (by simp))).2
    · exact hq e (by simp [he])

/-- the head of a minimal entry is below every record in a sorted queue -/
theorem minHead_le_all {lt : α → α → Bool} (h : StrictWeak lt) {m : QEntry α} {q : List (QEntry α)}
    (hm : MinHead lt m q) (hq : QSorted lt q) : ∀ z ∈ qflat q, LE lt m.1 z := by
  intro z hz
  obtain ⟨f, hf, hz⟩ := mem_qflat.mp hz
  rcases hz with rfl | hz
  · exact hm f hf
  · exact LE.trans h (hm f hf) ((pairwise_cons.mp (hq f hf)).1 z hz)

theorem kmergeAux_perm {lt : α → α → Bool} (h : StrictWeak lt) (pick) :
    ∀ (n : Nat) (q : List (QEntry α)), qsize q ≤ n → kmergeAux lt pick n q ~ qflat q := by
  intro n
  induction n with
  | zero =>
    intro q hq
    cases q with
    | nil => simp [kmergeAux, qflat]
    | cons e q => simp [qsize] at hq
  | succ n ih =>
    intro q hq
    cases q with
    | nil => simp [kmergeAux, qflat]
    | cons e q =>
      have hs := (pop_spec h (pick n) e q).1
      have hfl := qflat_perm hs
      rw [qflat_requeue] at hfl
      have hlen : qsize (requeue (pop lt (pick n) e q).1 (pop lt (pick n) e q).2) ≤ n := by
        rw [qsize_eq_length] at hq ⊢
        have := hfl.length_eq
        simp only [length_cons] at this
        omega
      simp only [kmergeAux]
      exact (Perm.cons _ (ih _ hlen)).trans hfl

theorem kmergeAux_sorted {lt : α → α → Bool} (h : StrictWeak lt) (pick) :
    ∀ (n : Nat) (q : List (QEntry α)), qsize q ≤ n → QSorted lt q → Pairwise (LE lt) (kmergeAux lt pick n q) := by
  intro n
  induction n with
  | zero =>
    intro q _ _
    cases q <;> simp [kmergeAux]
  | succ n ih =>
    intro q hq hs
    cases q with
    | nil => simp [kmergeAux]
    | cons e q =>
      obtain ⟨hp, hm⟩ := pop_spec h (pick n) e q
      have hfl := qflat_perm hp
      rw [qflat_requeue] at hfl
      have hlen : qsize (requeue (pop lt (pick n) e q).1 (pop lt (pick n) e q).2) ≤ n := by
        rw [qsize_eq_length] at hq ⊢
        have := hfl.length_eq
        simp only [length_cons] at this
        omega
      have hs' : QSorted lt ((pop lt (pick n) e q).1 :: (pop lt (pick n) e q).2) := hs.perm hp
      simp only [kmergeAux]
      refine pairwise_cons.mpr ⟨?_, ih _ hlen hs'.requeue⟩
      intro z hz
      have hz1 : z ∈ qflat (requeue (pop lt (pick n) e q).1 (pop lt (pick n) e q).2) :=
        (kmergeAux_perm h pick n _ hlen).subset hz
      have hz2 : z ∈ qflat (e :: q) := hfl.subset (mem_cons_of_mem _ hz1)
      exact minHead_le_all h hm hs z hz2

theorem qflat_toQueue : ∀ (runs : List (List α)), qflat (toQueue runs) = runs.flatten
  | [] => rfl
  | r :: rs => by
    have ih := qflat_toQueue rs
    cases r with
    | nil => simpa [toQueue] using ih
    | cons x xs =>
      simp only [toQueue, filterMap_cons, flatten_cons] at ih ⊢
      rw [qflat_cons, ih]

theorem QSorted_toQueue {lt : α → α → Bool} : ∀ (runs : List (List α)),
    (∀ r ∈ runs, Pairwise (LE lt) r) → QSorted lt (toQueue runs)
  | [], _ => by simp [toQueue, QSorted]
  | r :: rs, hr => by
    have ih := QSorted_toQueue rs (fun r' hr' => hr r' (by simp [hr']))
    cases r with
    | nil => simpa [toQueue] using ih
    | cons x xs =>
      intro e he
      simp only [toQueue, filterMap_cons, mem_cons] at he
      rcases he with rfl | he
      · exact hr _ (by simp)
      · exact ih e he

/-- **merge of sorted lists is a permutation of their concatenation** (any tie-break) -/
theorem kmerge_perm {lt : α → α → Bool} (h : StrictWeak lt) (pick) (runs : List (List α)) :
    kmerge lt pick (toQueue runs) ~ runs.flatten := by
  rw [← qflat_toQueue]
  exact kmergeAux_perm h (pick _) _ _ (Nat.le_refl _)

/-- **merge of sorted lists is sorted** (any tie-break) -/
theorem kmerge_sorted {lt : α → α → Bool} (h : StrictWeak lt) (pick) (runs : List (List α))
    (hr : ∀ r ∈ runs, Pairwise (LE lt) r) : Pairwise (LE lt) (kmerge lt pick (toQueue runs)) :=
  kmergeAux_sorted h (pick _) _ _ (Nat.le_refl _) (QSorted_toQueue runs hr)

/-! ### the combiner fold -/

/-- what a combiner must respect for the output to stay sorted: the combined record compares
equal to the record it replaces (`CombineCounts` keeps the words) -/
def CombKeeps (lt : α → α → Bool) (comb : α → α → Option α) : Prop :=
  ∀ a b c, comb a b = some c → lt a c = false ∧ lt c a = false

/-- the combiner merges *every* pair of records the comparison cannot tell apart -/
def CombComplete (lt : α → α → Bool) (comb : α → α → Option α) : Prop :=
  ∀ a b, lt a b = false → lt b a = false → (comb a b).isSome = true

theorem combineAdj_never : ∀ (l : List α), combineAdj neverCombine l = l := by
  intro l
  cases l with
  | nil => rfl
  | cons x xs =>
    simp only [combineAdj]
    induction xs generalizing x with
    | nil => rfl
    | cons y ys ih => simp [combineGo, neverCombine, ih]

/-- every output record of the fold compares equal to some input record -/
theorem combineGo_mem {lt : α → α → Bool} (h : StrictWeak lt) {comb} (hc : CombKeeps lt comb) :
    ∀ (ys : List α) (cur : α) (z : α), z ∈ combineGo comb cur ys → ∃ x ∈ cur :: ys, LE lt x z ∧ LE lt z x := by
  intro ys
  induction ys with
  | nil =>
    intro cur z hz
    simp only [combineGo, mem_singleton] at hz
    subst hz
    exact ⟨z, by simp, LE.refl h z, LE.refl h z⟩
  | cons y ys ih =>
    intro cur z hz
    simp only [combineGo] at hz
    cases hcy : comb cur y with
    | some c =>
      rw [hcy] at hz
      obtain ⟨x, hx, h1, h2⟩ := ih c z hz
      simp only [mem_cons] at hx
      rcases hx with rfl | hx
      · have := hc cur y x hcy
        exact ⟨cur, by simp, LE.trans h (this.2 : LE lt cur x) h1, LE.trans h h2 (this.1 : LE lt x cur)⟩
      · exact ⟨x, by simp [hx], h1, h2⟩
    | none =>
      rw [hcy] at hz
      simp only [mem_cons] at hz
      rcases hz with rfl | hz
      · exact ⟨z, by simp, LE.refl h z, LE.refl h z⟩
      · obtain ⟨x, hx, h1, h2⟩ := ih y z hz
        exact ⟨x, mem_cons_of_mem _ hx, h1, h2⟩

theorem combineGo_sorted {lt : α → α → Bool} (h : StrictWeak lt) {comb} (hc : CombKeeps lt comb) :
    ∀ (ys : List α) (cur : α), Pairwise (LE lt) (cur :: ys) → Pairwise (LE lt) (combineGo comb cur ys) := by
  intro ys
  induction ys with
  | nil => intro cur _; simp [combineGo]
  | cons y ys ih =>
    intro cur hs
    obtain ⟨hcur, hys⟩ := pairwise_cons.mp hs
    simp only [combineGo]
    cases hcy : comb cur y with
    | some c =>
      simp only
      apply ih c
      refine pairwise_cons.mpr ⟨?_, (pairwise_cons.mp hys).2⟩
      intro z hz
      exact LE.trans h ((hc cur y c hcy).1 : LE lt c cur) (hcur z (mem_cons_of_mem _ hz))
    | none =>
      simp only
      refine pairwise_cons.mpr ⟨?_, ih y hys⟩
      intro z hz
      obtain ⟨x, hx, h1, _⟩ := combineGo_mem h hc ys y z hz
      exact LE.trans h (hcur x hx) h1

theorem combineAdj_sorted {lt : α → α → Bool} (h : StrictWeak lt) {comb} (hc : CombKeeps lt comb) (l : List α)
    (hs : Pairwise (LE lt) l) : Pairwise (LE lt) (combineAdj comb l) := by
  cases l with
  | nil => simp [combineAdj]
  | cons x xs => exact combineGo_sorted h hc xs x hs

/-- with a complete combiner the output is *strictly* increasing -/
theorem combineGo_strict {lt : α → α → Bool} (h : StrictWeak lt) {comb} (hc : CombKeeps lt comb)
    (hk : CombComplete lt comb) :
    ∀ (ys : List α) (cur : α), Pairwise (LE lt) (cur :: ys) →
      Pairwise (fun a b => lt a b = true) (combineGo comb cur ys) := by
  intro ys
  induction ys with
  | nil => intro cur _; simp [combineGo]
  | cons y ys ih =>
    intro cur hs
    obtain ⟨hcur, hys⟩ := pairwise_cons.mp hs
    simp only [combineGo]
    cases hcy : comb cur y with
    | some c =>
      simp only
      apply ih c
      refine pairwise_cons.mpr ⟨?_, (pairwise_cons.mp hys).2⟩
      intro z hz
      exact LE.trans h ((hc cur y c hcy).1 : LE lt c cur) (hcur z (mem_cons_of_mem _ hz))
    | none =>
      simp only
      refine pairwise_cons.mpr ⟨?_, ih y hys⟩
      intro z hz
      obtain ⟨x, hx, h1, _⟩ := combineGo_mem h hc ys y z hz
      have hcy' : lt cur y = true := by
        cases hlt : lt cur y with
        | true => rfl
        | false =>
          have := hk cur y hlt (hcur y (by simp))
          rw [hcy] at this; cases this
      have hyx : LE lt y x := by
        simp only [mem_cons] at hx
        rcases hx with rfl | hx
        · exact LE.refl h _
        · exact (pairwise_cons.mp hys).1 x hx
      exact lt_of_lt_of_LE h (lt_of_lt_of_LE h hcy' hyx) h1

theorem combineAdj_strict {lt : α → α → Bool} (h : StrictWeak lt) {comb} (hc : CombKeeps lt comb)
    (hk : CombComplete lt comb) (l : List α) (hs : Pairwise (LE lt) l) :
    Pairwise (fun a b => lt a b = true) (combineAdj comb l) := by
  cases l with
  | nil => simp [combineAdj]
  | cons x xs => exact combineGo_strict h hc hk xs x hs

/-- any quantity that the combiner adds up is preserved by the fold -/
theorem combineGo_sum {comb : α → α → Option α} (w : α → Nat)
    (hw : ∀ a b c, comb a b = some c → w c = w a + w b) :
    ∀ (ys : List α) (cur : α), ((combineGo comb cur ys).map w).sum = w cur + (ys.map w).sum := by
  intro ys
  induction ys with
  | nil => intro cur; simp [combineGo]
  | cons y ys ih =>
    intro cur
    simp only [combineGo]
    cases hcy : comb cur y with
    | some c => simp only [ih c, hw cur y c hcy, map_cons, sum_cons]; omega
    | none => simp only [map_cons, sum_cons, ih y]

theorem combineAdj_sum {comb : α → α → Option α} (w : α → Nat)
    (hw : ∀ a b c, comb a b = some c → w c = w a + w b) (l : List α) :
    ((combineAdj comb l).map w).sum = (l.map w).sum := by
  cases l with
  | nil => rfl
  | cons x xs => simpa [combineAdj] using combineGo_sum w hw xs x

end KV.Sort

namespace KV.Sort
open List
variable {α : Type}

/-- the `written` counter equals the number of records produced -/
theorem combineWritten_eq (comb : α → α → Option α) : ∀ (ys : List α) (cur : α),
    combineWritten comb cur ys = (combineGo comb cur ys).length := by
  intro ys
  induction ys with
  | nil => intro cur; rfl
  | cons y ys ih =>
    intro cur
    simp only [combineWritten, combineGo]
    cases comb cur y with
    | some c => exact ih c
    | none => simp only [length_cons, ih y]; omega

theorem mergeWritten_eq (lt : α → α → Bool) (comb) (pick) (runs : List (List α)) :
    mergeWritten lt comb pick runs = (mergeGroup lt comb pick runs).length := by
  unfold mergeWritten mergeGroup
  cases kmerge lt pick (toQueue runs) with
  | nil => rfl
  | cons x xs => exact combineWritten_eq comb xs x

/-- what is logged for the groups of a pass is the true length of the merged runs -/
theorem storeRunsLogged_merge (lt : α → α → Bool) (comb) (pick) (gs : List (List (List α))) :
    storeRunsLogged (gs.map (mergeWritten lt comb pick)) (gs.map (mergeGroup lt comb pick)) =
      storeRuns (gs.map (mergeGroup lt comb pick)) := by
  unfold storeRuns
  congr 1
  rw [List.map_map]
  exact List.map_congr_left (fun g _ => mergeWritten_eq lt comb pick g)

/-- a freshly pushed entry (`Entry(base, fd, offset, amount, buf_size)`) views the whole run -/
theorem bufEntry_read {cap : Nat} (hcap : 0 < cap) (run : List α) :
    match BufEntry.read cap run with
    | none => run = []
    | some e => e.buf ≠ [] ∧ e.view = run := by
  cases run with
  | nil => simp [BufEntry.read]
  | cons x xs =>
    obtain ⟨c, rfl⟩ : ∃ c, cap = c + 1 := ⟨cap - 1, by omega⟩
    simp [BufEntry.read, BufEntry.view]

/-- **buffered entries refine `(current, rest)`**: one `Increment` (with refill from the file when
the buffer is exhausted) moves the view from `x :: rest` to `rest`, reports exhaustion exactly
when `rest = []`, and never leaves an empty buffer behind. -/
theorem bufEntry_step {cap : Nat} (hcap : 0 < cap) (e : BufEntry α) (x : α) (rest : List α)
    (hne : e.buf ≠ []) (hv : e.view = x :: rest) :
    match e.increment cap with
    | none => rest = []
    | some e' => e'.buf ≠ [] ∧ e'.view = rest := by
  obtain ⟨buf, file⟩ := e
  cases buf with
  | nil => exact absurd rfl hne
  | cons b bs =>
    simp only [BufEntry.view, cons_append, cons.injEq] at hv
    cases bs with
    | nil =>
      simp only [BufEntry.increment, drop_succ_cons, drop_zero]
      simp only [nil_append] at hv
      have := bufEntry_read hcap file
      rw [hv.2] at this ⊢
      exact this
    | cons b2 bs2 =>
      simp only [BufEntry.increment, drop_succ_cons, drop_zero]
      exact ⟨by simp, by simpa [BufEntry.view] using hv.2⟩

end KV.Sort

namespace KV.Sort
open List
variable {α : Type}

theorem readAt_length {data : List α} {o r : Nat} (h : o + r ≤ data.length) : (readAt data (o, r)).length = r := by
  simp only [readAt, length_take, length_drop]; omega

/-- `Entry::Read` at file level is `BufEntry.read` on the slice of the file the entry owns -/
theorem fileEntry_read (data : List α) (cap o r : Nat) (h : o + r ≤ data.length) :
    (FileEntry.read data cap o r).map (FileEntry.abs data) = BufEntry.read cap (readAt data (o, r)) := by
  unfold FileEntry.read BufEntry.read
  by_cases hr : r = 0
  · subst hr
    simp [readAt]
  · have hlen := readAt_length h
    rw [if_neg hr]
    cases hp : readAt data (o, r) with
    | nil => rw [hp] at hlen; simp at hlen; omega
    | cons x xs =>
      simp only [Option.map_some, FileEntry.abs, Option.some.injEq]
      rw [← hp]
      by_cases hc : cap < r
      · rw [if_pos hc]
        have h1 : readAt data (o, cap) = take cap (readAt data (o, r)) := by
          simp only [readAt, take_take]; rw [Nat.min_eq_left (by omega)]
        have h2 : readAt data (o + cap, r - cap) = drop cap (readAt data (o, r)) := by
          simp only [readAt, drop_take, drop_drop]
        rw [h1, h2]
      · rw [if_neg hc]
        have h1 : readAt data (o, r) = take cap (readAt data (o, r)) := by
          rw [take_of_length_le (by omega)]
        have h2 : readAt data (o + r, r - r) = drop cap (readAt data (o, r)) := by
          rw [drop_of_length_le (by omega)]; simp [readAt]
        rw [← h1, ← h2]

theorem fileEntry_read_inv (data : List α) (cap o r : Nat) (e : FileEntry α)
    (he : FileEntry.read data cap o r = some e) : e.offset + e.remaining = o + r := by
  unfold FileEntry.read at he
  split at he
  · cases he
  · simp only [Option.some.injEq] at he
    subst he
    simp only
    split <;> omega

/-- **file-level entries refine buffered entries**: `Increment` commutes with the abstraction
"what is still on disk is `data[offset_, offset_ + remaining_)`", and the entry keeps owning the
same end of slice. -/
theorem fileEntry_increment (data : List α) (cap : Nat) (e : FileEntry α)
    (h : e.offset + e.remaining ≤ data.length) :
    (e.increment data cap).map (FileEntry.abs data) = (FileEntry.abs data e).increment cap ∧
    ∀ e', e.increment data cap = some e' → e'.offset + e'.remaining = e.offset + e.remaining := by
  unfold FileEntry.increment BufEntry.increment
  simp only [FileEntry.abs]
  cases hd : e.buf.drop 1 with
  | nil =>
    simp only
    exact ⟨fileEntry_read data cap e.offset e.remaining h, fun e' he' => fileEntry_read_inv data cap _ _ e' he'⟩
  | cons b bs =>
    simp only [Option.map_some, FileEntry.abs, Option.some.injEq]
    exact ⟨trivial, fun e' he' => by cases he'; rfl⟩

end KV.Sort
