import Model.Tokenize
/-! `TokenIter<BoolCharacter, SkipEmpty>` enumerates exactly the delimiter-free pieces. -/
namespace KV.Tokenize

theorem splitAll_ne_nil (d : Byte → Bool) (a : List Byte) : splitAll d a ≠ [] := by
  induction a with
  | nil => simp [splitAll]
  | cons b bs ih =>
    simp only [splitAll]
    split
    · simp
    · split <;> simp

theorem splitAll_findSplit (d : Byte → Bool) (a : List Byte) :
    splitAll d a = (findSplit d a).1 ::
      (match (findSplit d a).2 with | none => [] | some r => splitAll d r) := by
  induction a with
  | nil => simp [splitAll, findSplit]
  | cons b bs ih =>
    by_cases hb : d b
    · simp [splitAll, findSplit, hb]
    · simp only [splitAll, findSplit, hb, Bool.false_eq_true, ↓reduceIte]
      rw [ih]

theorem splitAll_length_le (d : Byte → Bool) (a : List Byte) : (splitAll d a).length ≤ a.length + 1 := by
  induction a with
  | nil => simp [splitAll]
  | cons b bs ih =>
    simp only [splitAll]
    split
    · simp; omega
    · split
      · simp
      · rename_i h; rw [h] at ih; simp at ih ⊢; omega

/-- the pieces not yet handed out -/
def pending (d : Byte → Bool) (it : Iter) : List (List Byte) :=
  match it.after with | none => [] | some a => splitAll d a

def dropEmpty (skip : Bool) (l : List (List Byte)) : List (List Byte) :=
  if skip then l.dropWhile (·.isEmpty) else l

def keep (skip : Bool) (l : List (List Byte)) : List (List Byte) :=
  if skip then l.filter (fun t => !t.isEmpty) else l

theorem pending_nil {d : Byte → Bool} {it : Iter} (h : pending d it = []) : it.after = none := by
  unfold pending at h
  cases ha : it.after with
  | none => rfl
  | some a => rw [ha] at h; exact absurd h (splitAll_ne_nil d a)

theorem next_spec (d : Byte → Bool) (skip : Bool) : ∀ (f : Nat) (it : Iter), (pending d it).length ≤ f →
    match dropEmpty skip (pending d it) with
    | [] => (next d skip f it).current = none ∧ pending d (next d skip f it) = []
    | t :: ts => (next d skip f it).current = some t ∧ pending d (next d skip f it) = ts := by
  intro f
  induction f with
  | zero =>
    intro it h
    have hp : pending d it = [] := List.length_eq_zero_iff.mp (by omega)
    have ha := pending_nil hp
    rw [hp]
    simp [dropEmpty, next, advance, ha, pending]
  | succ f ih =>
    intro it h
    simp only [next]
    cases ha : it.after with
    | none =>
      have hp : pending d it = [] := by simp [pending, ha]
      rw [hp]
      simp [dropEmpty, advance, ha, pending]
    | some a =>
      have hp : pending d it = (findSplit d a).1 ::
          pending d { current := some (findSplit d a).1, after := (findSplit d a).2 } := by
        simp only [pending, ha]
        exact splitAll_findSplit d a
      have hadv : advance d it = { current := some (findSplit d a).1, after := (findSplit d a).2 } := by
        simp [advance, ha]
      rw [hadv, hp]
      generalize (findSplit d a).1 = t at *
      generalize hit1 : ({ current := some t, after := (findSplit d a).2 } : Iter) = it1 at *
      have hcur : it1.current = some t := by rw [← hit1]
      rw [hcur]
      rw [hp] at h
      by_cases hc : skip = true ∧ t = []
      · obtain ⟨hs, ht⟩ := hc
        subst ht
        have := ih it1 (by simp at h; omega)
        simp only [hs, dropEmpty, ↓reduceIte, List.dropWhile, List.isEmpty_nil] at this ⊢
        simpa using this
      · have hcond : (skip && (some t == some ([] : List Byte))) = false := by
          cases skip with
          | false => rfl
          | true =>
            have : t ≠ [] := fun h' => hc ⟨rfl, h'⟩
            simp [this]
        rw [hcond]
        have hde : dropEmpty skip (t :: pending d it1) = t :: pending d it1 := by
          cases skip with
          | false => rfl
          | true =>
            have : t ≠ [] := fun h' => hc ⟨rfl, h'⟩
            have : t.isEmpty = false := by cases t <;> simp_all
            simp [dropEmpty, List.dropWhile, this]
        rw [hde]
        simp [hcur]

theorem keep_of_dropEmpty_nil {skip : Bool} {l : List (List Byte)} (h : dropEmpty skip l = []) : keep skip l = [] := by
  cases skip with
  | false => simpa [dropEmpty, keep] using h
  | true =>
    simp only [dropEmpty, keep, ↓reduceIte] at h ⊢
    induction l with
    | nil => rfl
    | cons a l ih =>
      by_cases ha : a.isEmpty
      · simp [List.dropWhile, ha] at h; simp [List.filter, ha, ih h]
      · simp [List.dropWhile, ha] at h

theorem keep_of_dropEmpty_cons {skip : Bool} {l : List (List Byte)} {t : List Byte} {ts : List (List Byte)}
    (h : dropEmpty skip l = t :: ts) : keep skip l = t :: keep skip ts := by
  cases skip with
  | false => simpa [dropEmpty, keep] using h
  | true =>
    simp only [dropEmpty, keep, ↓reduceIte] at h ⊢
    induction l with
    | nil => simp at h
    | cons a l ih =>
      by_cases ha : a.isEmpty
      · simp [List.dropWhile, ha] at h; simp [List.filter, ha, ih h]
      · simp [List.dropWhile, ha] at h
        obtain ⟨rfl, rfl⟩ := h
        simp [List.filter, ha]

theorem pending_length_le (d : Byte → Bool) (it : Iter) : (pending d it).length ≤ afterLen it + 1 := by
  unfold pending afterLen
  cases it.after with
  | none => simp
  | some a => have := splitAll_length_le d a; simp only; omega

theorem dropEmpty_length_le (skip : Bool) (l : List (List Byte)) : (dropEmpty skip l).length ≤ l.length := by
  unfold dropEmpty
  split
  · induction l with
    | nil => simp
    | cons a l ih => simp only [List.dropWhile]; split <;> simp <;> omega
  · exact Nat.le_refl _

theorem drain_spec (d : Byte → Bool) (skip : Bool) : ∀ (f : Nat) (it : Iter), (pending d it).length < f →
    drain d skip f it = match it.current with
      | none => []
      | some t => t :: keep skip (pending d it) := by
  intro f
  induction f with
  | zero => intro it h; omega
  | succ f ih =>
    intro it h
    simp only [drain]
    cases hc : it.current with
    | none => rfl
    | some t =>
      dsimp only
      have hn := next_spec d skip (afterLen it + 1) it (pending_length_le d it)
      have hl := dropEmpty_length_le skip (pending d it)
      cases hde : dropEmpty skip (pending d it) with
      | nil =>
        rw [hde] at hn
        dsimp only at hn
        rw [keep_of_dropEmpty_nil hde]
        congr 1
        cases f with
        | zero => rfl
        | succ f => simp [drain, hn.1]
      | cons t' ts =>
        rw [hde] at hn hl
        dsimp only at hn
        rw [keep_of_dropEmpty_cons hde]
        congr 1
        rw [ih _ (by rw [hn.2]; simp at hl; omega), hn.1, hn.2]

/-- **TokenIter enumerates exactly the spec's pieces.** -/
theorem tokens_eq_splitSpec (d : Byte → Bool) (skip : Bool) (s : List Byte) :
    tokens d skip s = splitSpec d skip s := by
  unfold tokens start
  have hp : pending d { current := none, after := some s } = splitAll d s := rfl
  have hn := next_spec d skip (s.length + 2) { current := none, after := some s }
    (by rw [hp]; have := splitAll_length_le d s; omega)
  have hl := dropEmpty_length_le skip (splitAll d s)
  have hsl := splitAll_length_le d s
  rw [hp] at hn
  have hspec : splitSpec d skip s = keep skip (splitAll d s) := by
    unfold splitSpec keep; rfl
  rw [hspec]
  cases hde : dropEmpty skip (splitAll d s) with
  | nil =>
    rw [hde] at hn
    dsimp only at hn
    rw [keep_of_dropEmpty_nil hde]
    simp [drain, hn.1]
  | cons t ts =>
    rw [hde] at hn hl
    dsimp only at hn
    rw [keep_of_dropEmpty_cons hde]
    rw [drain_spec d skip _ _ (by rw [hn.2]; simp at hl; omega), hn.1, hn.2]

end KV.Tokenize
