import Proofs.TableBuild
/-! A decidable check for `WellFormed` (used for the non-vacuity examples; the driver reports the same
flags for every generated model). -/
namespace KV.Score
open KV.Arpa KV.Table KV.State

def wfB (a : Arpa) : Bool :=
  decide (2 ≤ a.order) &&
  a.entries.all (fun p => !p.1.isEmpty && decide (p.1.length ≤ a.order) &&
                          (decide (p.1.length ≠ a.order) || p.2.backoff == 0)) &&
  a.contextsPresent

theorem wfB_sound (a : Arpa) (h : wfB a = true) : WellFormed a := by
  unfold wfB at h
  simp only [Bool.and_eq_true, decide_eq_true_eq, List.all_eq_true, Bool.or_eq_true, Bool.not_eq_true',
    beq_iff_eq] at h
  obtain ⟨⟨h1, h2⟩, h3⟩ := h
  have mem : ∀ g e, a.gram g = some e → (g, e) ∈ a.entries := fun g e hg => lookup_some_mem _ _ _ hg
  refine ⟨h1, ?_, ?_, ?_, ?_⟩
  · intro g hg hnil
    obtain ⟨e, he⟩ := Option.ne_none_iff_exists'.mp hg
    have := (h2 _ (mem g e he)).1.1
    subst hnil; simp at this
  · intro g hg
    obtain ⟨e, he⟩ := Option.ne_none_iff_exists'.mp hg
    exact (h2 _ (mem g e he)).1.2
  · intro x g hne hg
    obtain ⟨e, he⟩ := Option.ne_none_iff_exists'.mp hg
    unfold Arpa.contextsPresent at h3
    simp only [List.all_eq_true, Bool.or_eq_true, decide_eq_true_eq] at h3
    rcases h3 _ (mem _ e he) with hl | hr
    · have hl' : g.length + 1 ≤ 1 := by simpa using hl
      exact absurd (List.eq_nil_of_length_eq_zero (by omega)) hne
    · simpa [Arpa.isReal, Option.isSome_iff_ne_none] using hr
  · intro g e hg hlen
    rcases (h2 _ (mem g e hg)).2 with hl | hr
    · exact absurd hlen hl
    · exact hr

end KV.Score
