import Proofs.VocabGrowable
/-!
From hashes to words: if the hash is injective on the words that occur, the ids `GrowableVocab`
assigns are the positions of first occurrence of the *words*.
-/
namespace KV.Vocab

section Words
variable {W : Type}

/-- the hash does not confuse any two of the listed words -/
def InjOn (f : W → Nat) (S : List W) : Prop := ∀ a, a ∈ S → ∀ b, b ∈ S → f a = f b → a = b

theorem InjOn_mono (f : W → Nat) (S T : List W) (h : ∀ a, a ∈ S → a ∈ T) (hi : InjOn f T) : InjOn f S :=
  fun a ha b hb e => hi a (h a ha) b (h b hb) e

variable [DecidableEq W]

theorem idxOf_map_inj (f : W → Nat) : ∀ (seen : List W) (k : W), InjOn f (k :: seen) →
    (seen.map f).idxOf (f k) = seen.idxOf k ∧ (f k ∈ seen.map f ↔ k ∈ seen) := by
  intro seen
  induction seen with
  | nil => intro k _; simp
  | cons x xs ih =>
    intro k hinj
    have hsub : InjOn f (k :: xs) := InjOn_mono f _ _ (by
      intro a ha; simp at ha ⊢; rcases ha with h | h
      · left; exact h
      · right; right; exact h) hinj
    obtain ⟨ih1, ih2⟩ := ih k hsub
    have hxk : f x = f k ↔ x = k := by
      constructor
      · intro e; exact hinj x (by simp) k (by simp) e
      · intro e; rw [e]
    constructor
    · simp only [List.map_cons, List.idxOf_cons]
      by_cases e : x = k
      · subst e; simp
      · have e' : ¬ f x = f k := fun h => e (hxk.1 h)
        have b1 : (f x == f k) = false := by simp [e']
        have b2 : (x == k) = false := by simp [e]
        simp [b1, b2, ih1]
    · simp only [List.map_cons, List.mem_cons]
      constructor
      · rintro (h | h)
        · left; exact (hxk.1 h.symm).symm
        · right; exact ih2.1 h
      · rintro (h | h)
        · left; rw [h]
        · right; exact ih2.2 h

theorem specStep_map (f : W → Nat) (seen : List W) (k : W) (hinj : InjOn f (k :: seen)) :
    specStep (seen.map f) (f k) = ((specStep seen k).1, (specStep seen k).2.map f) := by
  obtain ⟨h1, h2⟩ := idxOf_map_inj f seen k hinj
  unfold specStep
  rw [h1]
  by_cases hm : k ∈ seen
  · simp [hm, h2.2 hm]
  · have : ¬ f k ∈ seen.map f := fun h => hm (h2.1 h)
    simp [hm, this]

theorem specStep_subset (seen : List W) (k : W) : ∀ a, a ∈ (specStep seen k).2 → a ∈ k :: seen := by
  intro a ha
  unfold specStep at ha
  split at ha
  · simp; right; exact ha
  · simp at ha ⊢; rcases ha with h | h
    · right; exact h
    · left; exact h

theorem specLine_map (f : W → Nat) : ∀ (l : List W) (seen : List W), InjOn f (seen ++ l) →
    specLine (seen.map f) (l.map f) = ((specLine seen l).1, (specLine seen l).2.map f) := by
  intro l
  induction l with
  | nil => intro seen _; rfl
  | cons k ks ih =>
    intro seen hinj
    have h1 : InjOn f (k :: seen) := InjOn_mono f _ _ (by intro a ha; simp at ha ⊢; rcases ha with h | h <;> simp [h]) hinj
    have h2 : InjOn f ((specStep seen k).2 ++ ks) := InjOn_mono f _ _ (by
      intro a ha
      simp only [List.mem_append] at ha ⊢
      rcases ha with h | h
      · have := specStep_subset seen k a h
        simp at this
        rcases this with e | e
        · right; simp [e]
        · left; exact e
      · right; simp [h]) hinj
    have e := specStep_map f seen k h1
    have e2 := ih (specStep seen k).2 h2
    simp only [List.map_cons, specLine, e, e2]

theorem specLine_subset : ∀ (l : List W) (seen : List W), ∀ a, a ∈ (specLine seen l).2 → a ∈ seen ++ l := by
  intro l
  induction l with
  | nil => intro seen a ha; simpa [specLine] using ha
  | cons k ks ih =>
    intro seen a ha
    have := ih (specStep seen k).2 a (by simpa [specLine] using ha)
    simp only [List.mem_append] at this ⊢
    rcases this with h | h
    · have := specStep_subset seen k a h
      simp at this
      rcases this with e | e
      · right; simp [e]
      · left; exact e
    · right; simp [h]

theorem specLines_map (f : W → Nat) : ∀ (ls : List (List W)) (seen : List W), InjOn f (seen ++ ls.flatten) →
    specLines (seen.map f) (ls.map (·.map f)) = ((specLines seen ls).1, (specLines seen ls).2.map f) := by
  intro ls
  induction ls with
  | nil => intro seen _; rfl
  | cons l ls ih =>
    intro seen hinj
    have h1 : InjOn f (seen ++ l) := InjOn_mono f _ _ (by
      intro a ha; simp only [List.mem_append, List.flatten_cons] at ha ⊢
      rcases ha with h | h
      · left; exact h
      · right; left; exact h) hinj
    have h2 : InjOn f ((specLine seen l).2 ++ ls.flatten) := InjOn_mono f _ _ (by
      intro a ha
      simp only [List.mem_append, List.flatten_cons] at ha ⊢
      rcases ha with h | h
      · have := specLine_subset l seen a h
        simp only [List.mem_append] at this
        rcases this with e | e
        · left; exact e
        · right; left; exact e
      · right; right; exact h) hinj
    have e := specLine_map f l seen h1
    have e2 := ih (specLine seen l).2 h2
    simp only [List.map_cons, specLines, e, e2]

theorem specEncode_map (f : W → Nat) (unk bos eos : W) (text : List (List W))
    (hinj : InjOn f ([unk, bos, eos] ++ text.flatten)) :
    specEncode (f unk) (f bos) (f eos) (text.map (·.map f)) = specEncode unk bos eos text := by
  have := specLines_map f text [unk, bos, eos] hinj
  simp only [List.map_cons, List.map_nil] at this
  simp only [specEncode, this, List.length_map]

/-- **`vocab_ids_indep`, word level**: for every admissible initial size `x` of the `AutoProbing` table
(hence every doubling history) the id sequences `CorpusCount` produces are those of the order of first
occurrence of the words, and the final vocabulary size is the number of distinct words -/
theorem growable_ids_first_occurrence (hash : W → Nat) (unk bos eos : W) (unkCapHash : Nat) (text : List (List W))
    (hsp : unk ≠ bos ∧ unk ≠ eos ∧ bos ≠ eos)
    (hinj : InjOn hash ([unk, bos, eos] ++ text.flatten))
    (_hnz : ∀ w, w ∈ [unk, bos, eos] ++ text.flatten → hash w ≠ 0)
    (hmax : (specEncode unk bos eos text).2 < kWordIndexMax)
    (x : Nat) (h1 : 1 ≤ x) (h2 : x ≤ 2^63) :
    growableEncode ⟨hash unk, unkCapHash, hash bos, hash eos⟩ x (text.map (·.map hash)) =
      .ok (specEncode unk bos eos text) := by
  have hd : hash unk ≠ hash bos ∧ hash unk ≠ hash eos ∧ hash bos ≠ hash eos :=
    ⟨fun e => hsp.1 (hinj unk (by simp) bos (by simp) e),
     fun e => hsp.2.1 (hinj unk (by simp) eos (by simp) e),
     fun e => hsp.2.2 (hinj bos (by simp) eos (by simp) e)⟩
  have e := specEncode_map hash unk bos eos text hinj
  have := growableEncode_spec ⟨hash unk, unkCapHash, hash bos, hash eos⟩ x h1 h2 hd (text.map (·.map hash))
    (by show (specEncode (hash unk) (hash bos) (hash eos) _).2 < _; rw [e]; exact hmax)
  rw [this]
  show Except.ok (specEncode (hash unk) (hash bos) (hash eos) _) = _
  rw [e]

end Words
end KV.Vocab
