import Proofs.ProbingBuildChainSem
import Proofs.WellFormed
/-! A decidable check for `ArpaOK'` (to instantiate the builder theorems on concrete models) and a provably injective
word-hash combiner. -/
namespace KV.ProbingBuild
open KV.Arpa KV.Table KV.Score KV.ProbingLM

/-- every non-empty prefix of every n-gram (reversed) — a superset of the keys of `Table.build a` -/
def allPrefixes (a : Arpa) : List Key := a.entries.flatMap fun q => (List.range (q.1.length + 1)).map fun j => q.1.take j

theorem isKey_mem_prefixes (a : Arpa) (k : Key) (h : IsKey a k) : k ∈ allPrefixes a := by
  unfold allPrefixes
  rw [List.mem_flatMap]
  rcases h.2 with hg | he
  · obtain ⟨e, he⟩ := Option.ne_none_iff_exists'.mp hg
    refine ⟨(k, e), lookup_some_mem _ _ _ he, ?_⟩
    rw [List.mem_map]
    exact ⟨k.length, by simp, by simp⟩
  · obtain ⟨g, hg, hl, hp⟩ := (extendsLeft_iff a k).mp he
    obtain ⟨e, he⟩ := Option.ne_none_iff_exists'.mp hg
    refine ⟨(g, e), lookup_some_mem _ _ _ he, ?_⟩
    rw [List.mem_map]
    exact ⟨k.length, by simp; omega, (List.prefix_iff_eq_take.mp hp).symm⟩

def arpaOKB (a : Arpa) (nWords : Nat) (um : Rat) : Bool :=
  wfB a &&
  a.entries.all (fun q => decide (q.2.prob ≤ 0)) &&
  (List.range nWords).all (fun w => (a.gram [w]).isSome) &&
  a.entries.all (fun q => q.1.length != 1 || decide (q.1.headD 0 < nWords)) &&
  (!a.unkHallucinated || (match a.gram [0] with | some e => e.prob == um && e.backoff == 0 | none => false)) &&
  decide (um ≤ 0) &&
  a.entries.all (fun q => q.1.all fun x => (a.gram [x]).isSome) &&
  (allPrefixes a).all (fun k => k == [] || (a.gram k).isSome || decide (score a k.tail (k.headD 0) ≤ 0)) &&
  (!a.unkHallucinated || (allPrefixes a).all (fun k => k == [] || (a.gram k).isSome || k.headD 0 != 0))

theorem arpaOK'_of_check (a : Arpa) (nWords : Nat) (um : Rat) (h : arpaOKB a nWords um = true) : ArpaOK' a nWords um := by
  unfold arpaOKB at h
  simp only [Bool.and_eq_true] at h
  obtain ⟨⟨⟨⟨⟨⟨⟨⟨h1, h2⟩, h3⟩, h4⟩, h5⟩, h6⟩, h7⟩, h8⟩, h9⟩ := h
  rw [List.all_eq_true] at h2 h3 h4 h7 h8
  refine ⟨wfB_sound a h1, ?_, ?_, ?_, by simpa using h6, ?_, ?_, ?_⟩
  · intro g e hg
    have := h2 (g, e) (lookup_some_mem _ _ _ hg)
    simpa using this
  · intro w
    constructor
    · intro hw
      have := h3 w (by simp; exact hw)
      intro hn; rw [hn] at this; simp at this
    · intro hg
      obtain ⟨e, he⟩ := Option.ne_none_iff_exists'.mp hg
      have := h4 ([w], e) (lookup_some_mem _ _ _ he)
      simpa using this
  · intro hu
    rw [hu] at h5
    simp only [Bool.not_true, Bool.false_or] at h5
    cases hg : a.gram [0] with
    | none => rw [hg] at h5; simp at h5
    | some e0 =>
      rw [hg] at h5
      simp only [Bool.and_eq_true, beq_iff_eq] at h5
      exact ⟨e0, rfl, h5.1, h5.2⟩
  · intro p hp x hx
    obtain ⟨e, he⟩ := Option.ne_none_iff_exists'.mp hp
    have := h7 (p, e) (lookup_some_mem _ _ _ he)
    rw [List.all_eq_true] at this
    have := this x hx
    intro hn; rw [hn] at this; simp at this
  · intro k hk hg
    have := h8 k (isKey_mem_prefixes a k hk)
    simp only [Bool.or_eq_true, beq_iff_eq, decide_eq_true_eq] at this
    rcases this with (h | h) | h
    · exact absurd h hk.1
    · rw [hg] at h; simp at h
    · exact h
  · intro hu k hk hg
    rw [hu] at h9
    simp only [Bool.not_true, Bool.false_or, List.all_eq_true] at h9
    have := h9 k (isKey_mem_prefixes a k hk)
    simp only [Bool.or_eq_true, beq_iff_eq, bne_iff_ne] at this
    rcases this with (h | h) | h
    · exact absurd h hk.1
    · rw [hg] at h; simp at h
    · exact h

/-- an injective pairing as word-hash combiner (stands for the 64-bit mixing function on inputs without collisions) -/
def sqc (c : Nat) (w : Word) : Nat := (c + w) * (c + w) + w

theorem sqc_inj (c w c' w' : Nat) (h : sqc c w = sqc c' w') : c = c' ∧ w = w' := by
  unfold sqc at h
  have key : ∀ s s' x x' : Nat, x ≤ s → x' ≤ s' → s * s + x = s' * s' + x' → ¬ s < s' := by
    intro s s' x x' hx hx' he hlt
    have h1 : (s + 1) * (s + 1) ≤ s' * s' := Nat.mul_le_mul hlt hlt
    have h2 : (s + 1) * (s + 1) = s * s + 2 * s + 1 := by
      rw [Nat.add_mul, Nat.mul_add, Nat.mul_add]; omega
    omega
  have hs : c + w = c' + w' := by
    have a1 := key (c + w) (c' + w') w w' (by omega) (by omega) h
    have a2 := key (c' + w') (c + w) w' w (by omega) (by omega) h.symm
    omega
  rw [hs] at h
  omega

theorem foldl_sqc_inj : ∀ (rest rest' : List Word) (w w' : Nat), rest.length = rest'.length →
    rest.foldl sqc w = rest'.foldl sqc w' → w = w' ∧ rest = rest' := by
  intro rest
  induction rest with
  | nil =>
    intro rest' w w' hl h
    cases rest' with
    | nil => exact ⟨h, rfl⟩
    | cons _ _ => simp at hl
  | cons x xs ih =>
    intro rest' w w' hl h
    cases rest' with
    | nil => simp at hl
    | cons x' xs' =>
      simp only [List.foldl_cons] at h
      obtain ⟨h1, h2⟩ := ih xs' _ _ (by simpa using hl) h
      obtain ⟨h3, h4⟩ := sqc_inj _ _ _ _ h1
      exact ⟨h3, by rw [h4, h2]⟩

theorem hashOf_sqc_inj (g g' : List Word) (hl : g.length = g'.length) (h : hashOf sqc g = hashOf sqc g') : g = g' := by
  cases g with
  | nil =>
    cases g' with
    | nil => rfl
    | cons _ _ => simp at hl
  | cons w rest =>
    cases g' with
    | nil => simp at hl
    | cons w' rest' =>
      simp only [hashOf] at h
      obtain ⟨h1, h2⟩ := foldl_sqc_inj rest rest' w w' (by simpa using hl) h
      rw [h1, h2]

end KV.ProbingBuild
