import Model.Search
/-! Soundness, completeness, termination and in-range probing of the interpolation search. -/
namespace KV.Search

/-- A pivot is acceptable when, for an offset not beyond the value range, it returns an
offset inside the open interval's width.  This is all the search needs from it. -/
def PivotOK (pivot : Nat → Nat → Nat → Nat) : Prop :=
  ∀ off range width, 0 < width → off ≤ range → pivot off range width < width

theorem pivot32_ok : PivotOK pivot32 := by
  intro off range width hw hor
  unfold pivot32
  rw [Nat.div_lt_iff_lt_mul (by omega)]
  have h1 : (off * width) % 2^64 ≤ off * width := Nat.mod_le _ _
  have h2 : off * width < width * (range + 1) := by
    rw [Nat.mul_comm width]
    exact Nat.mul_lt_mul_of_lt_of_le (by omega) (Nat.le_refl _) hw
  omega

/-- `Pivot64` is acceptable whatever the floating-point unit computes (even for NaN/inf casts):
the final cap alone guarantees it. -/
theorem pivot64_ok (f : Nat → Nat → Nat → Nat) : PivotOK (pivot64 f) := by
  intro off range width hw _
  unfold pivot64
  split <;> omega

/-- positions probed by `bfind`, in order -/
def probes (a : Nat → Nat) (pivot : Nat → Nat → Nat → Nat) (key : Nat) :
    (fuel : Nat) → (lo : Nat) → (loV : Nat) → (hi : Nat) → (hiV : Nat) → List Nat
  | 0, _, _, _, _ => []
  | fuel+1, lo, loV, hi, hiV =>
    if hi - lo > 1 then
      let p := lo + (1 + pivot (key - loV) (hiV - loV) (hi - lo - 1))
      let mid := a p
      if mid < key then p :: probes a pivot key fuel p mid hi hiV
      else if mid > key then p :: probes a pivot key fuel lo loV p mid
      else [p]
    else []

theorem probes_in_range (a pivot key) (hp : PivotOK pivot) : ∀ fuel lo loV hi hiV,
    loV ≤ key → key ≤ hiV → ∀ p ∈ probes a pivot key fuel lo loV hi hiV, lo < p ∧ p < hi := by
  intro fuel
  induction fuel with
  | zero => intro lo loV hi hiV _ _ p h; simp [probes] at h
  | succ n ih =>
    intro lo loV hi hiV h1 h2 p h
    unfold probes at h
    split at h
    · rename_i hgap
      have hw : 0 < hi - lo - 1 := by omega
      have hlt := hp (key - loV) (hiV - loV) (hi - lo - 1) hw (by omega)
      simp only at h
      split at h
      · rename_i hm
        rcases List.mem_cons.mp h with h | h
        · subst h; omega
        · have := ih _ _ _ _ (Nat.le_of_lt hm) h2 p h; omega
      · split at h
        · rename_i _ hm
          rcases List.mem_cons.mp h with h | h
          · subst h; omega
          · have := ih _ _ _ _ h1 (Nat.le_of_lt hm) p h; omega
        · simp at h; subst h; omega
    · simp at h

theorem bfind_sound (a pivot key) (hp : PivotOK pivot) : ∀ fuel lo loV hi hiV p,
    loV ≤ key → key ≤ hiV →
    bfind a pivot key fuel lo loV hi hiV = some p → a p = key ∧ lo < p ∧ p < hi := by
  intro fuel
  induction fuel with
  | zero => intro lo loV hi hiV p _ _ h; simp [bfind] at h
  | succ n ih =>
    intro lo loV hi hiV p h1 h2 h
    unfold bfind at h
    split at h
    · rename_i hgap
      have hw : 0 < hi - lo - 1 := by omega
      have hlt := hp (key - loV) (hiV - loV) (hi - lo - 1) hw (by omega)
      simp only at h
      split at h
      · rename_i hm
        have := ih _ _ _ _ _ (Nat.le_of_lt hm) h2 h; omega
      · split at h
        · rename_i _ hm
          have := ih _ _ _ _ _ h1 (Nat.le_of_lt hm) h; omega
        · injection h with h; subst h
          refine ⟨by omega, by omega, by omega⟩
    · simp at h

/-- sorted strictly inside the open interval `(lo, hi)` -/
def SortedIn (a : Nat → Nat) (lo hi : Nat) : Prop := ∀ i j, lo < i → i ≤ j → j < hi → a i ≤ a j

/-- completeness, with `hi - lo - 1` iterations at most: a key occurring strictly between
the bounds of a sorted range is found. -/
theorem bfind_complete (a pivot key) (hp : PivotOK pivot) : ∀ fuel lo loV hi hiV,
    SortedIn a lo hi → loV ≤ key → key ≤ hiV →
    hi - lo ≤ fuel + 1 → (∃ q, lo < q ∧ q < hi ∧ a q = key) →
    ∃ p, bfind a pivot key fuel lo loV hi hiV = some p := by
  intro fuel
  induction fuel with
  | zero =>
    intro lo loV hi hiV _ _ _ hf ⟨q, h1, h2, _⟩; omega
  | succ n ih =>
    intro lo loV hi hiV mono hl hh hf ⟨q, h1, h2, h3⟩
    unfold bfind
    have hgap : hi - lo > 1 := by omega
    have hw : 0 < hi - lo - 1 := by omega
    have hlt := hp (key - loV) (hiV - loV) (hi - lo - 1) hw (by omega)
    simp only [hgap, ↓reduceIte]
    split
    · rename_i hm
      apply ih
      · intro i j hi1 hij hj; exact mono i j (by omega) hij hj
      · exact Nat.le_of_lt hm
      · exact hh
      · omega
      · refine ⟨q, ?_, h2, h3⟩
        rcases Nat.lt_or_ge (lo + (1 + pivot (key - loV) (hiV - loV) (hi - lo - 1))) q with h | h
        · exact h
        · have := mono q _ h1 h (by omega); omega
    · split
      · rename_i hm1 hm
        apply ih
        · intro i j hi1 hij hj; exact mono i j hi1 hij (by omega)
        · exact hl
        · exact Nat.le_of_lt hm
        · omega
        · refine ⟨q, h1, ?_, h3⟩
          rcases Nat.lt_or_ge q (lo + (1 + pivot (key - loV) (hiV - loV) (hi - lo - 1))) with h | h
          · exact h
          · have := mono _ q (by omega) h h2; omega
      · exact ⟨_, rfl⟩

/-- termination: once `fuel + 1 ≥ hi - lo`, more fuel changes nothing -/
theorem bfind_fuel (a pivot key) (hp : PivotOK pivot) : ∀ f1 f2 lo loV hi hiV,
    loV ≤ key → key ≤ hiV → hi - lo ≤ f1 + 1 → hi - lo ≤ f2 + 1 →
    bfind a pivot key f1 lo loV hi hiV = bfind a pivot key f2 lo loV hi hiV := by
  intro f1
  induction f1 with
  | zero =>
    intro f2 lo loV hi hiV _ _ h1 _
    cases f2 with
    | zero => rfl
    | succ m =>
      have : ¬ hi - lo > 1 := by omega
      simp [bfind, this]
  | succ n ih =>
    intro f2 lo loV hi hiV hl hh h1 h2
    cases f2 with
    | zero =>
      have : ¬ hi - lo > 1 := by omega
      simp [bfind, this]
    | succ m =>
      unfold bfind
      split
      · rename_i hgap
        have hw : 0 < hi - lo - 1 := by omega
        have hlt := hp (key - loV) (hiV - loV) (hi - lo - 1) hw (by omega)
        simp only
        split
        · rename_i hm
          exact ih m _ _ _ _ (Nat.le_of_lt hm) hh (by omega) (by omega)
        · split
          · rename_i _ hm
            exact ih m _ _ _ _ hl (Nat.le_of_lt hm) (by omega) (by omega)
          · rfl
      · rfl

/-! ### BinaryFind -/

theorem binaryFind_sound (a key) : ∀ fuel b e p,
    binaryFind a key fuel b e = some p → a p = key ∧ b ≤ p ∧ p < e := by
  intro fuel
  induction fuel with
  | zero => intro b e p h; simp [binaryFind] at h
  | succ n ih =>
    intro b e p h
    unfold binaryFind at h
    split at h
    · simp only at h
      split at h
      · have := ih _ _ _ h; omega
      · split at h
        · have := ih _ _ _ h; omega
        · injection h with h; subst h; refine ⟨by omega, by omega, by omega⟩
    · simp at h

theorem binaryFind_complete (a key) : ∀ fuel b e,
    (∀ i j, b ≤ i → i ≤ j → j < e → a i ≤ a j) → e - b ≤ fuel →
    (∃ q, b ≤ q ∧ q < e ∧ a q = key) → ∃ p, binaryFind a key fuel b e = some p := by
  intro fuel
  induction fuel with
  | zero => intro b e _ hf ⟨q, h1, h2, _⟩; omega
  | succ n ih =>
    intro b e mono hf ⟨q, h1, h2, h3⟩
    unfold binaryFind
    have hgt : e > b := by omega
    simp only [hgt, ↓reduceIte]
    split
    · rename_i hm
      apply ih
      · intro i j hi hij hj; exact mono i j (by omega) hij hj
      · omega
      · refine ⟨q, ?_, h2, h3⟩
        rcases Nat.lt_or_ge (b + (e - b) / 2) q with h | h
        · omega
        · have := mono q _ h1 h (by omega); omega
    · split
      · rename_i _ hm
        apply ih
        · intro i j hi hij hj; exact mono i j hi hij (by omega)
        · omega
        · refine ⟨q, h1, ?_, h3⟩
          rcases Nat.lt_or_ge q (b + (e - b) / 2) with h | h
          · exact h
          · have := mono _ q (by omega) h h2; omega
      · exact ⟨_, rfl⟩

end KV.Search
