import Model.KNSpec
import Model.KNQuery
import Mathlib.Tactic.Ring
import Mathlib.Tactic.FieldSimp
import Mathlib.Tactic.Linarith
import Mathlib.Algebra.Field.Rat
import Mathlib.Algebra.Order.Field.Rat
import Mathlib.Algebra.BigOperators.Group.List.Basic
import Mathlib.Data.List.Nodup
/-!
Normalisation of the estimated Kneser-Ney model (property C06), exact `Rat`, unbounded.

* `normalised_abstract` — an abstract "KN system" (vocabulary, kept extensions per context,
  `u`, `γ`, interpolated `p`, back-off `bo`) whose ARPA back-off query sums to one over the
  vocabulary for **every** context (induction on the context length).
* `ctx_mass_identity` — the per-context identity `Σ_{kept} u + γ = 1` for the concrete
  definitions `Spec.uProb` / `Spec.gamma` (the pruned mass is inside `γ`).
* `normalised` — the instance for `Spec.Ctx` (the model `Spec.estimateFrom` writes, `ordersOf`) and
  the query `Query.score`, under the explicit record hypotheses `TableOK`; for **every** context
  (any length, any words).  `normalised_estimate` states it for the result of
  `Spec.estimateFrom`; `uniformOK_of` + `specCtx_uniform` discharge `TableOK.uniformOK` from the
  way `uniform` is computed.
* `exSys_ok`, `exCtx_ok` — non-vacuity of `System.OK` and `TableOK` on tiny concrete systems.

Nothing is assumed about probabilities: apart from `uniformOK` (discharged by `uniformOK_of`),
`TableOK` speaks about the records only (lengths, no duplicates, closure of the kept n-grams,
positive counts of order ≥ 2, specials).
-/
namespace KV.KN.Norm

open KV.KN

/-! ## 0. Sums over lists -/

theorem sum_map_add {α : Type} (l : List α) (f g : α → Rat) :
    (l.map fun x => f x + g x).sum = (l.map f).sum + (l.map g).sum := by
  induction l with
  | nil => simp
  | cons a t ih => simp only [List.map_cons, List.sum_cons, ih]; ring

theorem sum_map_mul_left {α : Type} (l : List α) (c : Rat) (f : α → Rat) :
    (l.map fun x => c * f x).sum = c * (l.map f).sum := by
  induction l with
  | nil => simp
  | cons a t ih => simp only [List.map_cons, List.sum_cons, ih]; ring

theorem sum_map_div {α : Type} (l : List α) (c : Rat) (f : α → Rat) :
    (l.map fun x => f x / c).sum = (l.map f).sum / c := by
  induction l with
  | nil => simp
  | cons a t ih => simp only [List.map_cons, List.sum_cons, ih]; ring

theorem sum_map_ite_filter {α : Type} (l : List α) (p : α → Bool) (f : α → Rat) :
    (l.map fun x => if p x then f x else 0).sum = ((l.filter p).map f).sum := by
  induction l with
  | nil => simp
  | cons a t ih =>
    by_cases h : p a <;> simp [h, ih]

theorem sum_map_congr {α : Type} (l : List α) (f g : α → Rat) (h : ∀ x ∈ l, f x = g x) :
    (l.map f).sum = (l.map g).sum := by
  rw [List.map_congr_left h]

theorem sum_map_const {α : Type} (l : List α) (c : Rat) :
    (l.map fun _ => c).sum = (l.length : Rat) * c := by
  induction l with
  | nil => simp
  | cons a t ih => simp only [List.map_cons, List.sum_cons, ih, List.length_cons]; push_cast; ring

theorem sum_map_zero {α : Type} (l : List α) : (l.map fun _ => (0 : Rat)).sum = 0 := by
  rw [sum_map_const]; ring

theorem cast_sum_map {α : Type} (l : List α) (f : α → Nat) :
    (((l.map f).sum : Nat) : Rat) = (l.map fun x => (f x : Rat)).sum := by
  induction l with
  | nil => simp
  | cons a t ih => simp only [List.map_cons, List.sum_cons, Nat.cast_add, ih]

/-! ## 1. The abstract normalisation theorem -/

/-- The data of an interpolated, pruned back-off model, context by context.  Contexts are
reversed word lists; `ctx.dropLast` is the back-off context. -/
structure System where
  /-- the vocabulary (the words a query position may hold) -/
  V : List Word
  /-- `inE ctx w`: the n-gram `w :: ctx` is in the model (a kept extension of `ctx`) -/
  inE : Gram → Word → Bool
  /-- uninterpolated (discounted) probability -/
  u : Gram → Word → Rat
  /-- interpolation weight of the context (contains the discounted *and* the pruned mass) -/
  γ : Gram → Rat
  /-- the stored, interpolated probability of `w :: ctx` -/
  p : Gram → Word → Rat
  /-- the back-off weight the query charges for leaving `ctx` (1 when `ctx` is not in the model) -/
  bo : Gram → Rat

/-- the ARPA back-off query of a system -/
def System.pBO (S : System) (ctx : Gram) (w : Word) : Rat :=
  if S.inE ctx w then S.p ctx w
  else if ctx = [] then 0
  else S.bo ctx * S.pBO ctx.dropLast w
termination_by ctx.length
decreasing_by
  cases ctx with
  | nil => contradiction
  | cons a t => simp [List.length_dropLast]

/-- exactly what the induction needs -/
structure System.OK (S : System) : Prop where
  /-- every vocabulary word is a unigram of the model -/
  uni_mem : ∀ w ∈ S.V, S.inE [] w = true
  /-- the unigram distribution is normalised (covers both `--interpolate_unigrams` settings) -/
  uni_sum : (S.V.map (S.p [])).sum = 1
  /-- per-context mass identity: kept discounted mass + interpolation weight = 1 -/
  mass : ∀ ctx, ctx ≠ [] → (∃ w ∈ S.V, S.inE ctx w = true) →
    ((S.V.filter (S.inE ctx)).map (S.u ctx)).sum + S.γ ctx = 1
  /-- interpolation with the next lower order -/
  interp : ∀ ctx w, ctx ≠ [] → w ∈ S.V → S.inE ctx w = true →
    S.p ctx w = S.u ctx w + S.γ ctx * S.p ctx.dropLast w
  /-- a kept n-gram's back-off n-gram is kept -/
  closure : ∀ ctx w, ctx ≠ [] → w ∈ S.V → S.inE ctx w = true → S.inE ctx.dropLast w = true
  /-- a context with kept extensions carries its interpolation weight as back-off -/
  bo_ctx : ∀ ctx, ctx ≠ [] → (∃ w ∈ S.V, S.inE ctx w = true) → S.bo ctx = S.γ ctx
  /-- a context without kept extensions backs off for free -/
  bo_one : ∀ ctx, ctx ≠ [] → (∀ w ∈ S.V, S.inE ctx w = false) → S.bo ctx = 1

theorem System.pBO_nil (S : System) (w : Word) (h : S.inE [] w = true) : S.pBO [] w = S.p [] w := by
  rw [System.pBO]; simp [h]

theorem System.pBO_in (S : System) (ctx : Gram) (w : Word) (h : S.inE ctx w = true) :
    S.pBO ctx w = S.p ctx w := by
  rw [System.pBO]; simp [h]

theorem System.pBO_out (S : System) (ctx : Gram) (w : Word) (hc : ctx ≠ []) (h : S.inE ctx w = false) :
    S.pBO ctx w = S.bo ctx * S.pBO ctx.dropLast w := by
  rw [System.pBO]; simp [h, hc]

theorem normalised_abstract_aux (S : System) (h : S.OK) :
    ∀ n ctx, ctx.length = n → (S.V.map (S.pBO ctx)).sum = 1 := by
  intro n
  induction n with
  | zero =>
    intro ctx hl
    have : ctx = [] := List.eq_nil_of_length_eq_zero hl
    subst this
    rw [sum_map_congr _ _ (S.p []) (fun w hw => S.pBO_nil w (h.uni_mem w hw))]
    exact h.uni_sum
  | succ n ih =>
    intro ctx hl
    have hc : ctx ≠ [] := by intro h0; subst h0; simp at hl
    have hl' : ctx.dropLast.length = n := by simp [List.length_dropLast, hl]
    have ih' := ih ctx.dropLast hl'
    by_cases hA : ∃ w ∈ S.V, S.inE ctx w = true
    · -- the context has kept extensions
      have hpt : ∀ w ∈ S.V, S.pBO ctx w =
          (if S.inE ctx w then S.u ctx w else 0) + S.γ ctx * S.pBO ctx.dropLast w := by
        intro w hw
        by_cases hin : S.inE ctx w = true
        · rw [S.pBO_in ctx w hin, S.pBO_in ctx.dropLast w (h.closure ctx w hc hw hin),
            h.interp ctx w hc hw hin]
          simp [hin]
        · have hin' : S.inE ctx w = false := by simpa using hin
          rw [S.pBO_out ctx w hc hin', h.bo_ctx ctx hc hA]
          simp [hin']
      rw [sum_map_congr _ _ _ hpt, sum_map_add, sum_map_mul_left, ih', sum_map_ite_filter]
      have := h.mass ctx hc hA
      linarith
    · -- no kept extension: the query backs off for free
      have hall : ∀ w ∈ S.V, S.inE ctx w = false := by
        intro w hw
        by_cases hin : S.inE ctx w = true
        · exact absurd ⟨w, hw, hin⟩ hA
        · simpa using hin
      have hpt : ∀ w ∈ S.V, S.pBO ctx w = S.pBO ctx.dropLast w := by
        intro w hw
        rw [S.pBO_out ctx w hc (hall w hw), h.bo_one ctx hc hall]; ring
      rw [sum_map_congr _ _ _ hpt]
      exact ih'

/-- **Normalisation, abstract form**: in a KN system the back-off query distributes mass one
over the vocabulary in every context (of any length, kept or not). -/
theorem normalised_abstract (S : System) (h : S.OK) (ctx : Gram) :
    (S.V.map (S.pBO ctx)).sum = 1 :=
  normalised_abstract_aux S h ctx.length ctx rfl

/-! ## 2. The per-context mass identity of the concrete specification -/

theorem mass_list (d : Disc) (G : List Emit) :
    ((G.filter fun e => !e.marked).map fun e => d.apply e.count).sum
      + (G.map fun e => if e.marked then (e.count : Rat) else d.get e.count).sum
      = (G.map fun e => (e.count : Rat)).sum := by
  induction G with
  | nil => simp
  | cons a t ih =>
    by_cases hm : a.marked = true
    · simp only [List.filter_cons, hm, Bool.not_true, Bool.false_eq_true, if_false, List.map_cons,
        List.sum_cons, if_true]
      linarith
    · have hm' : a.marked = false := by simpa using hm
      simp only [List.filter_cons, hm', Bool.not_false, if_true, List.map_cons, List.sum_cons,
        Bool.false_eq_true, if_false]
      have ha : d.apply a.count = (a.count : Rat) - d.get a.count := rfl
      linarith

theorem mem_group {es : List Emit} {ctx : Gram} {e : Emit} :
    e ∈ Spec.group es ctx ↔ e ∈ es ∧ e.gram.tail = ctx := by
  simp [Spec.group, List.mem_filter]

theorem den_cast (es : List Emit) (ctx : Gram) :
    (Spec.den es ctx : Rat) = ((Spec.group es ctx).map fun e => (e.count : Rat)).sum := by
  unfold Spec.den; rw [cast_sum_map]

/-- **Per-context mass identity**: for one order's records `es` and a context with a non-zero
denominator, the discounted probabilities of the unpruned extensions plus the interpolation
weight are one.  (No assumption on the counts; the pruned records' whole counts are in `γ`.) -/
theorem ctx_mass_identity (d : Disc) (es : List Emit) (ctx : Gram) (hden : Spec.den es ctx ≠ 0) :
    (((Spec.group es ctx).filter fun e => !e.marked).map (Spec.uProb d es)).sum
      + Spec.gamma d es ctx = 1 := by
  have hD : (Spec.den es ctx : Rat) ≠ 0 := by exact_mod_cast hden
  have h1 : (((Spec.group es ctx).filter fun e => !e.marked).map (Spec.uProb d es)).sum
      = (((Spec.group es ctx).filter fun e => !e.marked).map fun e => d.apply e.count).sum
          / (Spec.den es ctx : Rat) := by
    rw [← sum_map_div]
    apply sum_map_congr
    intro e he
    have : e.gram.tail = ctx := (mem_group.mp (List.mem_filter.mp he).1).2
    simp [Spec.uProb, this]
  rw [h1, Spec.gamma, ← add_div, mass_list, ← den_cast]
  exact div_self hD

/-! ## 3. The concrete instance: `Spec.Ctx` and `Query.score` -/

/-- the entry `Spec.estimateFrom` writes for a kept record -/
def mkEntry (c : Spec.Ctx) (e : Emit) : Entry := ⟨e.gram, c.prob e.gram, c.backoff e.gram⟩

/-- the per-order entry lists `Spec.estimateFrom` writes (`Model.orders`) -/
def ordersOf (c : Spec.Ctx) : List (List Entry) :=
  c.es.map fun l => ((l.filter keptBy).map (mkEntry c)).mergeSort Spec.specLe

/-- `g` is the n-gram of a kept record of its order -/
def keptIn (c : Spec.Ctx) (g : Gram) : Bool :=
  (c.esAt g.length).any fun e => keptBy e && e.gram == g

theorem keptIn_iff {c : Spec.Ctx} {g : Gram} :
    keptIn c g = true ↔ ∃ e ∈ c.esAt g.length, keptBy e = true ∧ e.gram = g := by
  simp [keptIn, List.any_eq_true]

theorem orders_getD (c : Spec.Ctx) (n : Nat) :
    (ordersOf c).getD (n - 1) [] =
      (((c.esAt n).filter keptBy).map (mkEntry c)).mergeSort Spec.specLe := by
  unfold ordersOf Spec.Ctx.esAt
  simp only [List.getD_eq_getElem?_getD, List.getElem?_map]
  cases c.es[n - 1]? <;> simp

theorem lookup_eq (c : Spec.Ctx) (g : Gram) (hg : g ≠ []) :
    Query.lookup (ordersOf c) g =
      if keptIn c g then some ⟨g, c.prob g, c.backoff g⟩ else none := by
  cases g with
  | nil => contradiction
  | cons a t =>
    simp only [Query.lookup]
    rw [orders_getD]
    by_cases hk : keptIn c (a :: t) = true
    · rw [if_pos hk]
      obtain ⟨e, he, hke, heg⟩ := keptIn_iff.mp hk
      cases hf : List.find? (fun x : Entry => x.gram == a :: t)
          ((((c.esAt (a :: t).length).filter keptBy).map (mkEntry c)).mergeSort Spec.specLe) with
      | none =>
        exfalso
        rw [List.find?_eq_none] at hf
        apply hf (mkEntry c e)
        · rw [List.mem_mergeSort]
          exact List.mem_map.mpr ⟨e, List.mem_filter.mpr ⟨he, hke⟩, rfl⟩
        · simp [mkEntry, heg]
      | some x =>
        have hx := List.mem_of_find?_eq_some hf
        have hxg := List.find?_some hf
        rw [List.mem_mergeSort] at hx
        obtain ⟨e', _, rfl⟩ := List.mem_map.mp hx
        have : e'.gram = a :: t := by simpa [mkEntry] using hxg
        simp [mkEntry, this]
    · rw [if_neg hk]
      rw [List.find?_eq_none]
      intro x hx hxg
      rw [List.mem_mergeSort] at hx
      obtain ⟨e', he', rfl⟩ := List.mem_map.mp hx
      apply hk
      rw [keptIn_iff]
      have hm := List.mem_filter.mp he'
      exact ⟨e', hm.1, hm.2, by simpa [mkEntry] using hxg⟩

/-- the system of a specification context -/
def sysOf (c : Spec.Ctx) : System where
  V := Query.vocabNoBos (ordersOf c)
  inE ctx w := keptIn c (w :: ctx)
  u ctx w := (c.uGamma (w :: ctx)).1
  γ ctx := Spec.gamma (c.dAt (ctx.length + 1)) (c.esAt (ctx.length + 1)) ctx
  p ctx w := c.prob (w :: ctx)
  bo ctx := Query.boOf (ordersOf c) ctx

theorem score_eq_aux (c : Spec.Ctx) (w : Word) :
    ∀ n ctx, ctx.length = n → Query.score (ordersOf c) ctx w = (sysOf c).pBO ctx w := by
  intro n
  induction n with
  | zero =>
    intro ctx hl
    have : ctx = [] := List.eq_nil_of_length_eq_zero hl
    subst this
    rw [Query.score, System.pBO, lookup_eq c _ (List.cons_ne_nil _ _)]
    by_cases hk : keptIn c [w] = true <;> simp [sysOf, hk]
  | succ n ih =>
    intro ctx hl
    have hc : ctx ≠ [] := by intro h0; subst h0; simp at hl
    have hl' : ctx.dropLast.length = n := by simp [List.length_dropLast, hl]
    rw [Query.score, System.pBO, lookup_eq c _ (List.cons_ne_nil _ _), ih _ hl']
    by_cases hk : keptIn c (w :: ctx) = true <;> simp [sysOf, hk, hc]

/-- the query over the written model is the back-off query of `sysOf` -/
theorem score_eq (c : Spec.Ctx) (ctx : Gram) (w : Word) :
    Query.score (ordersOf c) ctx w = (sysOf c).pBO ctx w :=
  score_eq_aux c w ctx.length ctx rfl

/-! ### Table hypotheses -/

/-- the kept order-1 records other than `<s>` (they carry the vocabulary of a query position) -/
def keptUni (c : Spec.Ctx) : List Emit :=
  (c.esAt 1).filter fun e => keptBy e && e.gram != [bos]

/-- What normalisation needs from the count table / the records per order (all of it is about
the *records*, none about probabilities).  The builder proves these from the corpus. -/
structure TableOK (c : Spec.Ctx) : Prop where
  /-- no records above the configured order -/
  esLen : c.es.length ≤ c.cfg.order
  /-- order-1 records are unigrams -/
  len1 : ∀ e ∈ c.esAt 1, e.gram.length = 1
  /-- one record per n-gram -/
  nodup : ∀ n, ((c.esAt n).map (·.gram)).Nodup
  /-- the corpus is not empty -/
  den1 : Spec.den (c.esAt 1) [] ≠ 0
  /-- `<unk>` has a record -/
  hasUnk : ∃ e ∈ c.esAt 1, e.gram = [unk]
  /-- `<unk>` and `<s>` have count 0 -/
  unkBosCount : ∀ e ∈ c.esAt 1, e.gram = [unk] ∨ e.gram = [bos] → e.count = 0
  /-- special unigrams are never marked -/
  specialsUnmarked : ∀ e ∈ c.esAt 1, e.gram.all isSpecial = true → e.marked = false
  /-- the uniform distribution is over the vocabulary without `<s>` (only used when unigrams are
  interpolated) -/
  uniformOK : c.cfg.interpUni = true → c.uniform * ((keptUni c).length : Rat) = 1
  /-- adjusted counts of order ≥ 2 are positive -/
  countPos : ∀ n, 1 ≤ n → ∀ e ∈ c.esAt (n + 1), 1 ≤ e.count
  /-- closure of the kept n-grams under "drop the oldest word" and "drop the newest word" -/
  closure : ∀ n, 1 ≤ n → ∀ e ∈ c.esAt (n + 1), keptBy e = true →
    (∃ e' ∈ c.esAt n, keptBy e' = true ∧ e'.gram = e.gram.dropLast) ∧
    (∃ e' ∈ c.esAt n, keptBy e' = true ∧ e'.gram = e.gram.tail)
  /-- a kept n-gram of order ≥ 2 does not predict `<s>`, and its context is neither `<unk>`- nor
  `</s>`-headed (no special symbols inside the corpus) -/
  headOK : ∀ n, 1 ≤ n → ∀ e ∈ c.esAt (n + 1), keptBy e = true →
    e.gram.head? ≠ some bos ∧ wantsBackoff e.gram.tail = true

/-! ### Generic list facts -/

theorem find_of_nodup (es : List Emit) (h : (es.map (·.gram)).Nodup) (e : Emit) (he : e ∈ es) :
    es.find? (fun x => x.gram == e.gram) = some e := by
  induction es with
  | nil => cases he
  | cons a t ih =>
    rw [List.map_cons, List.nodup_cons] at h
    by_cases hae : a.gram = e.gram
    · have : a = e := by
        rcases List.mem_cons.mp he with h1 | h1
        · exact h1.symm
        · exact absurd (hae ▸ List.mem_map.mpr ⟨e, h1, rfl⟩) h.1
      subst this; simp
    · have het : e ∈ t := by
        rcases List.mem_cons.mp he with h1 | h1
        · exact absurd (by rw [h1]) hae
        · exact h1
      rw [List.find?_cons_of_neg (by simpa using hae)]
      exact ih h.2 het

theorem sum_ite_key (es : List Emit) (h : (es.map (·.gram)).Nodup) (e₀ : Emit) (he : e₀ ∈ es)
    (x : Rat) : (es.map fun e => if e.gram = e₀.gram then x else 0).sum = x := by
  induction es with
  | nil => cases he
  | cons a t ih =>
    rw [List.map_cons, List.nodup_cons] at h
    rw [List.map_cons, List.sum_cons]
    by_cases hae : a.gram = e₀.gram
    · have hz : (t.map fun e => if e.gram = e₀.gram then x else 0).sum = 0 := by
        rw [sum_map_congr t _ (fun _ => (0 : Rat)), sum_map_zero]
        intro e het
        have : e.gram ≠ e₀.gram := by
          intro h2; exact h.1 (hae ▸ h2 ▸ List.mem_map.mpr ⟨e, het, rfl⟩)
        simp [this]
      rw [if_pos hae, hz]; ring
    · have het : e₀ ∈ t := by
        rcases List.mem_cons.mp he with h1 | h1
        · exact absurd (by rw [h1]) hae
        · exact h1
      rw [if_neg hae, ih h.2 het]; ring

theorem bne_singleton (w b : Nat) : ([w] != [b]) = (w != b) := by
  simp only [bne, List.cons_beq_cons]
  have : (([] : List Nat) == []) = true := rfl
  rw [this, Bool.and_true]

theorem mem_le_sum {α : Type} (l : List α) (f : α → Nat) (a : α) (h : a ∈ l) :
    f a ≤ (l.map f).sum := by
  induction l with
  | nil => cases h
  | cons b t ih =>
    rw [List.map_cons, List.sum_cons]
    rcases List.mem_cons.mp h with h1 | h1
    · subst h1; omega
    · have := ih h1; omega

theorem sum_map_perm {α : Type} {l₁ l₂ : List α} (h : l₁.Perm l₂) (f : α → Rat) :
    (l₁.map f).sum = (l₂.map f).sum := (h.map f).sum_eq

/-- a sum over the members of a duplicate-free list, selected from a duplicate-free universe -/
theorem sum_filter_mem {V W : List Word} (hV : V.Nodup) (hW : W.Nodup) (q : Word → Bool)
    (hmem : ∀ w, (w ∈ V ∧ q w = true) ↔ w ∈ W) (f : Word → Rat) :
    ((V.filter q).map f).sum = (W.map f).sum := by
  apply sum_map_perm
  rw [List.perm_ext_iff_of_nodup (hV.filter q) hW]
  intro w
  rw [List.mem_filter]
  exact hmem w

/-! ### The unigram level -/

/-- the predicted word of a record -/
def hd (e : Emit) : Word := e.gram.headD unk

theorem gram_uni {c : Spec.Ctx} (h : TableOK c) {e : Emit} (he : e ∈ c.esAt 1) : e.gram = [hd e] := by
  have := h.len1 e he
  unfold hd
  cases hg : e.gram with
  | nil => rw [hg] at this; simp at this
  | cons a t =>
    rw [hg] at this
    cases t with
    | nil => rfl
    | cons b t' => simp at this

theorem mem_keptUni {c : Spec.Ctx} {e : Emit} :
    e ∈ keptUni c ↔ e ∈ c.esAt 1 ∧ keptBy e = true ∧ e.gram ≠ [bos] := by
  simp [keptUni, List.mem_filter]

theorem V_perm {c : Spec.Ctx} (h : TableOK c) : (sysOf c).V.Perm ((keptUni c).map hd) := by
  have h0 : (ordersOf c).headD [] = (ordersOf c).getD (1 - 1) [] := by
    cases ordersOf c <;> rfl
  have h1 : (sysOf c).V = (((((c.esAt 1).filter keptBy).map (mkEntry c)).mergeSort Spec.specLe).map
      fun e => e.gram.headD unk).filter fun w => w != bos := by
    simp only [sysOf, Query.vocabNoBos, Query.vocabOf, h0, orders_getD]
  rw [h1]
  refine (((List.mergeSort_perm _ _).map _).filter _).trans ?_
  rw [List.map_map, List.filter_map, List.filter_filter]
  apply List.Perm.of_eq
  congr 1
  apply List.filter_congr
  intro e he
  obtain ⟨w, hw⟩ : ∃ w, e.gram = [w] := ⟨_, gram_uni h he⟩
  simp only [Function.comp, mkEntry, hw]
  simp [Bool.and_comm, bne_singleton]

theorem V_nodup {c : Spec.Ctx} (h : TableOK c) : (sysOf c).V.Nodup := by
  rw [(V_perm h).nodup_iff]
  have hes : (c.esAt 1).Nodup := List.Nodup.of_map _ (h.nodup 1)
  refine List.Nodup.map_on ?_ (hes.filter _)
  intro x hx y hy hxy
  have hx1 := (mem_keptUni.mp hx).1
  have hy1 := (mem_keptUni.mp hy).1
  apply List.inj_on_of_nodup_map (h.nodup 1) hx1 hy1
  show x.gram = y.gram
  rw [gram_uni h hx1, gram_uni h hy1, hxy]

theorem mem_V {c : Spec.Ctx} (h : TableOK c) {w : Word} :
    w ∈ (sysOf c).V ↔ w ≠ bos ∧ keptIn c [w] = true := by
  rw [(V_perm h).mem_iff, List.mem_map, keptIn_iff]
  constructor
  · rintro ⟨e, he, rfl⟩
    obtain ⟨h1, h2, h3⟩ := mem_keptUni.mp he
    have hg := gram_uni h h1
    refine ⟨?_, e, h1, h2, hg⟩
    intro hb; apply h3; rw [hg, hb]
  · rintro ⟨hb, e, h1, h2, h3⟩
    have h1' : e ∈ c.esAt 1 := h1
    have hg := gram_uni h h1'
    have hw : hd e = w := by rw [hg] at h3; simpa using h3
    refine ⟨e, mem_keptUni.mpr ⟨h1', h2, ?_⟩, hw⟩
    rw [h3]; intro h4; apply hb; simpa using h4

theorem prob_uni (c : Spec.Ctx) (w : Word) :
    c.prob [w] = (c.uGamma [w]).1 + (c.uGamma [w]).2 * c.uniform := by
  rw [Spec.Ctx.prob]
  simp only [List.dropLast_singleton]
  rw [Spec.Ctx.prob]

theorem uGamma_uni {c : Spec.Ctx} (h : TableOK c) {e : Emit} (he : e ∈ c.esAt 1) (w : Word)
    (hw : e.gram = [w]) :
    c.uGamma [w] =
      if w = bos then (1, 0)
      else if w = unk then
        (if c.cfg.interpUni then (0, Spec.gamma (c.dAt 1) (c.esAt 1) [])
         else (Spec.gamma (c.dAt 1) (c.esAt 1) [], 0))
      else ((c.dAt 1).apply e.count / (Spec.den (c.esAt 1) [] : Rat),
            if c.cfg.interpUni then Spec.gamma (c.dAt 1) (c.esAt 1) [] else 0) := by
  have hf := find_of_nodup _ (h.nodup 1) e he
  rw [hw] at hf
  unfold Spec.Ctx.uGamma
  simp only [List.length_singleton, hf, beq_self_eq_true, if_true, Option.map_some, Option.getD_some]
  by_cases h1 : w = bos
  · subst h1; simp
  · have h1' : ([w] == [bos]) = false := by simp [h1]
    rw [if_neg h1]
    simp only [h1', Bool.false_eq_true, if_false]
    by_cases h2 : w = unk
    · subst h2; simp
    · have h2' : ([w] == [unk]) = false := by simp [h2]
      rw [if_neg h2]
      simp only [h2', Bool.false_eq_true, if_false]

theorem group_nil_uni {c : Spec.Ctx} (h : TableOK c) : Spec.group (c.esAt 1) [] = c.esAt 1 := by
  unfold Spec.group
  rw [List.filter_eq_self]
  intro e he
  rw [gram_uni h he]; rfl

/-- the two ways the unigram level hands out its interpolation weight -/
def uniExtra (c : Spec.Ctx) (e : Emit) : Rat :=
  if c.cfg.interpUni then
    (if (keptBy e && e.gram != [bos]) = true then
      Spec.gamma (c.dAt 1) (c.esAt 1) [] * c.uniform else 0)
  else (if e.gram = [unk] then Spec.gamma (c.dAt 1) (c.esAt 1) [] else 0)

theorem uni_point {c : Spec.Ctx} (h : TableOK c) (e : Emit) (he : e ∈ c.esAt 1) :
    (if (keptBy e && e.gram != [bos]) = true then c.prob e.gram else 0) =
      (if (!e.marked) = true then Spec.uProb (c.dAt 1) (c.esAt 1) e else 0) + uniExtra c e := by
  obtain ⟨w, hw⟩ : ∃ w, e.gram = [w] := ⟨_, gram_uni h he⟩
  have hug := uGamma_uni h he w hw
  have hcnt0 := h.unkBosCount e he
  have hsp := h.specialsUnmarked e he
  obtain ⟨g, cnt, m⟩ := e
  simp only at hw hcnt0 hsp hug
  subst hw
  simp only [uniExtra, Spec.uProb, keptBy, Emit.cutoff, prob_uni, hug, List.tail_cons,
    List.length_singleton, beq_self_eq_true, Bool.true_and, List.all_cons, List.all_nil,
    Bool.and_true, bne_singleton]
  have hget0 : (c.dAt 1).apply 0 = 0 := by simp [Disc.apply, Disc.get]
  match w, hcnt0, hsp with
  | 0, hcnt0, hsp =>
    have hc : cnt = 0 := hcnt0 (Or.inl rfl)
    have hm : m = false := hsp (by decide)
    subst hc; subst hm
    cases hi : c.cfg.interpUni <;> simp [isSpecial, unk, bos, eos, hget0]
  | 1, hcnt0, hsp =>
    have hc : cnt = 0 := hcnt0 (Or.inr rfl)
    subst hc
    cases hi : c.cfg.interpUni <;> cases m <;> simp [isSpecial, unk, bos, eos, hget0]
  | 2, hcnt0, hsp =>
    have hm : m = false := hsp (by decide)
    subst hm
    cases hi : c.cfg.interpUni <;> simp [isSpecial, unk, bos, eos]
  | w + 3, hcnt0, hsp =>
    cases m with
    | true => cases hi : c.cfg.interpUni <;> simp [isSpecial, unk, bos, eos]
    | false =>
      cases cnt with
      | zero => cases hi : c.cfg.interpUni <;> simp [isSpecial, unk, bos, eos, hget0]
      | succ k => cases hi : c.cfg.interpUni <;> simp [isSpecial, unk, bos, eos]

theorem uni_sum {c : Spec.Ctx} (h : TableOK c) :
    ((sysOf c).V.map fun w => c.prob [w]).sum = 1 := by
  rw [sum_map_perm (V_perm h), List.map_map]
  have h1 : ((keptUni c).map ((fun w => c.prob [w]) ∘ hd)).sum
      = ((keptUni c).map fun e => c.prob e.gram).sum := by
    apply sum_map_congr
    intro e he
    have := gram_uni h (mem_keptUni.mp he).1
    simp only [Function.comp]; rw [← this]
  rw [h1, keptUni, ← sum_map_ite_filter, sum_map_congr _ _ _ (uni_point h), sum_map_add,
    sum_map_ite_filter]
  have hmass := ctx_mass_identity (c.dAt 1) (c.esAt 1) [] h.den1
  rw [group_nil_uni h] at hmass
  have hx : ((c.esAt 1).map (uniExtra c)).sum = Spec.gamma (c.dAt 1) (c.esAt 1) [] := by
    cases hi : c.cfg.interpUni with
    | true =>
      have hu := h.uniformOK hi
      have : uniExtra c = fun e => if (keptBy e && e.gram != [bos]) = true then
          Spec.gamma (c.dAt 1) (c.esAt 1) [] * c.uniform else 0 := by
        funext e; simp [uniExtra, hi]
      rw [this, sum_map_ite_filter, sum_map_const]
      have hk : (c.esAt 1).filter (fun e => keptBy e && e.gram != [bos]) = keptUni c := rfl
      rw [hk]
      calc ((keptUni c).length : Rat) * (Spec.gamma (c.dAt 1) (c.esAt 1) [] * c.uniform)
          = Spec.gamma (c.dAt 1) (c.esAt 1) [] * (c.uniform * ((keptUni c).length : Rat)) := by ring
        _ = _ := by rw [hu]; ring
    | false =>
      obtain ⟨e₀, he₀, hg₀⟩ := h.hasUnk
      have : uniExtra c = fun e => if e.gram = e₀.gram then
          Spec.gamma (c.dAt 1) (c.esAt 1) [] else 0 := by
        funext e; simp [uniExtra, hi, hg₀]
      rw [this, sum_ite_key _ (h.nodup 1) e₀ he₀]
  rw [hx]
  linarith

/-! ### Orders ≥ 2 -/

theorem gram_of_tail {e : Emit} {ctx : Gram} (hc : ctx ≠ []) (ht : e.gram.tail = ctx) :
    e.gram = hd e :: ctx := by
  unfold hd
  cases hg : e.gram with
  | nil => rw [hg] at ht; exact absurd ht.symm hc
  | cons a t => rw [hg] at ht; simp at ht; simp [ht]

theorem length_pos_of_ne_nil {ctx : Gram} (hc : ctx ≠ []) : 1 ≤ ctx.length := by
  cases ctx with
  | nil => contradiction
  | cons a t => simp

theorem keptIn_cons_iff {c : Spec.Ctx} {w : Word} {ctx : Gram} :
    keptIn c (w :: ctx) = true ↔
      ∃ e ∈ c.esAt (ctx.length + 1), keptBy e = true ∧ e.gram = w :: ctx := keptIn_iff

theorem keptIn_dropLast {c : Spec.Ctx} (h : TableOK c) (w : Word) (ctx : Gram) (hc : ctx ≠ [])
    (hk : keptIn c (w :: ctx) = true) : keptIn c (w :: ctx.dropLast) = true := by
  obtain ⟨e, he, hke, hg⟩ := keptIn_cons_iff.mp hk
  have hn := length_pos_of_ne_nil hc
  obtain ⟨e', he', hke', hg'⟩ := (h.closure ctx.length hn e he hke).1
  rw [hg, List.dropLast_cons_of_ne_nil hc] at hg'
  rw [keptIn_cons_iff]
  have : ctx.dropLast.length + 1 = ctx.length := by rw [List.length_dropLast]; omega
  rw [this]
  exact ⟨e', he', hke', hg'⟩

theorem keptIn_tail {c : Spec.Ctx} (h : TableOK c) (w : Word) (ctx : Gram) (hc : ctx ≠ [])
    (hk : keptIn c (w :: ctx) = true) : keptIn c ctx = true := by
  obtain ⟨e, he, hke, hg⟩ := keptIn_cons_iff.mp hk
  have hn := length_pos_of_ne_nil hc
  obtain ⟨e', he', hke', hg'⟩ := (h.closure ctx.length hn e he hke).2
  rw [hg, List.tail_cons] at hg'
  exact keptIn_iff.mpr ⟨e', he', hke', hg'⟩

theorem keptIn_uni_of {c : Spec.Ctx} (h : TableOK c) (w : Word) :
    ∀ n ctx, ctx.length = n → keptIn c (w :: ctx) = true → keptIn c [w] = true := by
  intro n
  induction n with
  | zero =>
    intro ctx hl hk
    have : ctx = [] := List.eq_nil_of_length_eq_zero hl
    subst this; exact hk
  | succ n ih =>
    intro ctx hl hk
    have hc : ctx ≠ [] := by intro h0; subst h0; simp at hl
    exact ih ctx.dropLast (by simp [List.length_dropLast, hl]) (keptIn_dropLast h w ctx hc hk)

theorem head_in_V {c : Spec.Ctx} (h : TableOK c) (w : Word) (ctx : Gram) (hc : ctx ≠ [])
    (hk : keptIn c (w :: ctx) = true) : w ∈ (sysOf c).V := by
  rw [mem_V h]
  refine ⟨?_, keptIn_uni_of h w ctx.length ctx rfl hk⟩
  obtain ⟨e, he, hke, hg⟩ := keptIn_cons_iff.mp hk
  have := (h.headOK ctx.length (length_pos_of_ne_nil hc) e he hke).1
  rw [hg] at this
  intro hb; apply this; simp [hb]

theorem uGamma_hi {c : Spec.Ctx} (h : TableOK c) {n : Nat} (hn : 1 ≤ n) {e : Emit}
    (he : e ∈ c.esAt (n + 1)) (hl : e.gram.length = n + 1) :
    c.uGamma e.gram = (Spec.uProb (c.dAt (n + 1)) (c.esAt (n + 1)) e,
      Spec.gamma (c.dAt (n + 1)) (c.esAt (n + 1)) e.gram.tail) := by
  have hf := find_of_nodup _ (h.nodup (n + 1)) e he
  have h1 : (n + 1 == 1) = false := by simp; omega
  unfold Spec.Ctx.uGamma
  simp only [hl, hf, h1, Bool.false_eq_true, if_false, Option.map_some, Option.getD_some,
    Spec.uProb]

theorem uGamma_snd (c : Spec.Ctx) (w : Word) (ctx : Gram) (hc : ctx ≠ []) :
    (c.uGamma (w :: ctx)).2 =
      Spec.gamma (c.dAt (ctx.length + 1)) (c.esAt (ctx.length + 1)) ctx := by
  have hn := length_pos_of_ne_nil hc
  have h1 : (ctx.length + 1 == 1) = false := by simp; omega
  unfold Spec.Ctx.uGamma
  simp only [List.length_cons, h1, Bool.false_eq_true, if_false, List.tail_cons]

theorem keptBy_hi {e : Emit} {n : Nat} (hn : 1 ≤ n) (hl : e.gram.length = n + 1) :
    keptBy e = decide (e.cutoff > 0) := by
  have h1 : (n + 1 == 1) = false := by simp; omega
  simp [keptBy, hl, h1]

theorem hi_interp (c : Spec.Ctx) (w : Word) (ctx : Gram) (hc : ctx ≠ []) :
    c.prob (w :: ctx) = (c.uGamma (w :: ctx)).1 +
      Spec.gamma (c.dAt (ctx.length + 1)) (c.esAt (ctx.length + 1)) ctx * c.prob (w :: ctx.dropLast) := by
  rw [Spec.Ctx.prob]
  simp only [List.dropLast_cons_of_ne_nil hc, uGamma_snd c w ctx hc]

theorem den_pos_of_mem {es : List Emit} {ctx : Gram} {e : Emit} (he : e ∈ Spec.group es ctx)
    (hc : 1 ≤ e.count) : Spec.den es ctx ≠ 0 := by
  have := mem_le_sum (Spec.group es ctx) (·.count) e he
  unfold Spec.den; omega

theorem hi_mass {c : Spec.Ctx} (h : TableOK c) (ctx : Gram) (hc : ctx ≠ [])
    (hA : ∃ w ∈ (sysOf c).V, keptIn c (w :: ctx) = true) :
    (((sysOf c).V.filter fun w => keptIn c (w :: ctx)).map fun w => (c.uGamma (w :: ctx)).1).sum
      + Spec.gamma (c.dAt (ctx.length + 1)) (c.esAt (ctx.length + 1)) ctx = 1 := by
  have hn := length_pos_of_ne_nil hc
  -- abbreviations
  generalize hes : c.esAt (ctx.length + 1) = es at *
  generalize hd' : c.dAt (ctx.length + 1) = d at *
  have hnd : (es.map (·.gram)).Nodup := hes ▸ h.nodup (ctx.length + 1)
  have hKmem : ∀ e, e ∈ (Spec.group es ctx).filter keptBy ↔
      e ∈ es ∧ e.gram = hd e :: ctx ∧ keptBy e = true := by
    intro e
    rw [List.mem_filter, mem_group]
    constructor
    · rintro ⟨⟨h1, h2⟩, h3⟩; exact ⟨h1, gram_of_tail hc h2, h3⟩
    · rintro ⟨h1, h2, h3⟩; exact ⟨⟨h1, by rw [h2]; rfl⟩, h3⟩
  -- step 1: the kept extension words of `ctx` are the heads of the kept records of its group
  have hW : (((Spec.group es ctx).filter keptBy).map hd).Nodup := by
    have hes' : es.Nodup := List.Nodup.of_map _ hnd
    refine List.Nodup.map_on ?_ ((hes'.filter _).filter _)
    intro x hx y hy hxy
    obtain ⟨hx1, hx2, _⟩ := (hKmem x).mp hx
    obtain ⟨hy1, hy2, _⟩ := (hKmem y).mp hy
    apply List.inj_on_of_nodup_map hnd hx1 hy1
    show x.gram = y.gram
    rw [hx2, hy2, hxy]
  have hmem : ∀ w, (w ∈ (sysOf c).V ∧ keptIn c (w :: ctx) = true) ↔
      w ∈ ((Spec.group es ctx).filter keptBy).map hd := by
    intro w
    rw [List.mem_map]
    constructor
    · rintro ⟨_, hk⟩
      obtain ⟨e, he, hke, hg⟩ := keptIn_cons_iff.mp hk
      rw [hes] at he
      have hw : hd e = w := by simp [hd, hg]
      exact ⟨e, (hKmem e).mpr ⟨he, by rw [hw]; exact hg, hke⟩, hw⟩
    · rintro ⟨e, he, rfl⟩
      obtain ⟨h1, h2, h3⟩ := (hKmem e).mp he
      have hk : keptIn c (hd e :: ctx) = true :=
        keptIn_cons_iff.mpr ⟨e, hes ▸ h1, h3, h2⟩
      exact ⟨head_in_V h _ ctx hc hk, hk⟩
  rw [sum_filter_mem (V_nodup h) hW _ hmem, List.map_map]
  -- step 2: `u` is `uProb` of the record
  have h2 : (((Spec.group es ctx).filter keptBy).map ((fun w => (c.uGamma (w :: ctx)).1) ∘ hd)).sum
      = (((Spec.group es ctx).filter keptBy).map (Spec.uProb d es)).sum := by
    apply sum_map_congr
    intro e he
    obtain ⟨h1, h2, _⟩ := (hKmem e).mp he
    have hl : e.gram.length = ctx.length + 1 := by rw [h2]; simp
    have := uGamma_hi h hn (hes ▸ h1) hl
    rw [hes, hd'] at this
    simp only [Function.comp]
    rw [← h2, this]
  -- step 3: unmarked records that are not kept have count 0 and contribute nothing
  have h3 : (((Spec.group es ctx).filter keptBy).map (Spec.uProb d es)).sum
      = (((Spec.group es ctx).filter fun e => !e.marked).map (Spec.uProb d es)).sum := by
    rw [← sum_map_ite_filter, ← sum_map_ite_filter]
    apply sum_map_congr
    intro e he
    have hl : e.gram.length = ctx.length + 1 := by
      rw [gram_of_tail hc (mem_group.mp he).2]; simp
    rw [keptBy_hi hn hl]
    obtain ⟨g, cnt, m⟩ := e
    cases m with
    | true => simp [Emit.cutoff]
    | false =>
      cases cnt with
      | zero => simp [Emit.cutoff, Spec.uProb, Disc.apply, Disc.get]
      | succ k => simp [Emit.cutoff]
  rw [h2, h3]
  -- step 4
  apply ctx_mass_identity
  obtain ⟨w, _, hk⟩ := hA
  obtain ⟨e, he, hke, hg⟩ := keptIn_cons_iff.mp hk
  have hl : e.gram.length = ctx.length + 1 := by rw [hg]; simp
  rw [hes] at he
  have heG : e ∈ Spec.group es ctx := mem_group.mpr ⟨he, by rw [hg]; rfl⟩
  apply den_pos_of_mem heG
  rw [keptBy_hi hn hl] at hke
  have : e.cutoff > 0 := by simpa using hke
  unfold Emit.cutoff at this
  split at this <;> omega

theorem lt_order_of_mem {c : Spec.Ctx} (h : TableOK c) {n : Nat} {e : Emit}
    (he : e ∈ c.esAt (n + 1)) : n < c.cfg.order := by
  have : n < c.es.length := by
    by_contra hlt
    have hge : c.es.length ≤ n := by omega
    unfold Spec.Ctx.esAt at he
    simp only [Nat.add_sub_cancel, List.getD_eq_getElem?_getD, List.getElem?_eq_none hge,
      Option.getD_none] at he
    cases he
  have := h.esLen
  omega

theorem hi_bo_ctx {c : Spec.Ctx} (h : TableOK c) (ctx : Gram) (hc : ctx ≠ [])
    (hA : ∃ w ∈ (sysOf c).V, keptIn c (w :: ctx) = true) :
    Query.boOf (ordersOf c) ctx =
      Spec.gamma (c.dAt (ctx.length + 1)) (c.esAt (ctx.length + 1)) ctx := by
  obtain ⟨w, _, hk⟩ := hA
  obtain ⟨e, he, hke, hg⟩ := keptIn_cons_iff.mp hk
  have hn := length_pos_of_ne_nil hc
  have hlt := lt_order_of_mem h he
  have hwb : wantsBackoff ctx = true := by
    have := (h.headOK ctx.length hn e he hke).2
    rwa [hg] at this
  have hne : (Spec.group (c.esAt (ctx.length + 1)) ctx).isEmpty = false := by
    have : e ∈ Spec.group (c.esAt (ctx.length + 1)) ctx := mem_group.mpr ⟨he, by rw [hg]; rfl⟩
    cases hG : Spec.group (c.esAt (ctx.length + 1)) ctx with
    | nil => rw [hG] at this; cases this
    | cons a t => rfl
  unfold Query.boOf
  rw [lookup_eq c ctx hc, if_pos (keptIn_tail h w ctx hc hk)]
  simp only [Spec.Ctx.backoff, hlt, hwb, hne, decide_true, Bool.not_false, Bool.and_self, if_true]

theorem hi_bo_one {c : Spec.Ctx} (h : TableOK c) (ctx : Gram) (hc : ctx ≠ [])
    (hall : ∀ w ∈ (sysOf c).V, keptIn c (w :: ctx) = false) :
    Query.boOf (ordersOf c) ctx = 1 := by
  have hn := length_pos_of_ne_nil hc
  unfold Query.boOf
  rw [lookup_eq c ctx hc]
  by_cases hk : keptIn c ctx = true
  · rw [if_pos hk]
    simp only [Spec.Ctx.backoff]
    split
    · rename_i hcond
      simp only [Bool.and_eq_true, Bool.not_eq_true', decide_eq_true_eq] at hcond
      obtain ⟨⟨_, _⟩, hne⟩ := hcond
      generalize hes : c.esAt (ctx.length + 1) = es at *
      generalize c.dAt (ctx.length + 1) = d
      -- every record of the group is marked with a positive count
      have hrec : ∀ e ∈ Spec.group es ctx, e.marked = true ∧ 1 ≤ e.count := by
        intro e he
        obtain ⟨he1, he2⟩ := mem_group.mp he
        have hg := gram_of_tail hc he2
        have hl : e.gram.length = ctx.length + 1 := by rw [hg]; simp
        have hcnt := h.countPos ctx.length hn e (hes ▸ he1)
        refine ⟨?_, hcnt⟩
        by_contra hm
        have hke : keptBy e = true := by
          rw [keptBy_hi hn hl]
          have : e.marked = false := by simpa using hm
          simp only [Emit.cutoff, this, Bool.false_eq_true, if_false, decide_eq_true_eq]
          omega
        have hkin : keptIn c (hd e :: ctx) = true :=
          keptIn_cons_iff.mpr ⟨e, hes ▸ he1, hke, hg⟩
        have := hall _ (head_in_V h _ ctx hc hkin)
        rw [hkin] at this; cases this
      obtain ⟨e₀, he₀⟩ : ∃ e₀, e₀ ∈ Spec.group es ctx := by
        cases hG : Spec.group es ctx with
        | nil => rw [hG] at hne; simp at hne
        | cons a t => exact ⟨a, by simp⟩
      have hden : (Spec.den es ctx : Rat) ≠ 0 := by
        exact_mod_cast den_pos_of_mem he₀ (hrec e₀ he₀).2
      unfold Spec.gamma
      rw [sum_map_congr (Spec.group es ctx) _ (fun e => (e.count : Rat))
        (fun e he => by simp [(hrec e he).1]), ← den_cast]
      exact div_self hden
    · rfl
  · rw [if_neg hk]

/-- the specification context is a KN system -/
theorem sysOf_OK {c : Spec.Ctx} (h : TableOK c) : (sysOf c).OK where
  uni_mem _ hw := ((mem_V h).mp hw).2
  uni_sum := uni_sum h
  mass ctx hc hA := hi_mass h ctx hc hA
  interp ctx w hc _ _ := hi_interp c w ctx hc
  closure ctx w hc _ hk := keptIn_dropLast h w ctx hc hk
  bo_ctx ctx hc hA := hi_bo_ctx h ctx hc hA
  bo_one ctx hc hall := hi_bo_one h ctx hc hall

/-- **Normalisation** of the estimated model: over the model `Spec.estimateFrom` writes for a
table satisfying `TableOK`, the ARPA back-off query distributes mass one over the vocabulary
without `<s>` — for every context (any length, any words, kept or not). -/
theorem normalised {c : Spec.Ctx} (h : TableOK c) (ctx : Gram) :
    ((Query.vocabNoBos (ordersOf c)).map (Query.score (ordersOf c) ctx)).sum = 1 := by
  have := normalised_abstract (sysOf c) (sysOf_OK h) ctx
  rw [← this]
  apply sum_map_congr
  intro w _
  exact score_eq c ctx w

theorem normalised_mass {c : Spec.Ctx} (h : TableOK c) (ctx : Gram) :
    Query.mass (ordersOf c) ctx = 1 := normalised h ctx

/-! ### The tie to `Spec.estimateFrom` -/

/-- the records per order that `Spec.estimateFrom` builds from the count table -/
def specRecords (cfg : Cfg) (full : Spec.Table) : List (List Emit) :=
  if cfg.order ≤ 1 then [Spec.ents1 cfg full]
  else (List.range cfg.order).map fun i => Spec.ents cfg full (i + 1)

/-- the context `Spec.estimateFrom` builds, given the discounts it computed -/
def specCtx (cfg : Cfg) (full : Spec.Table) (discs : List (Disc × Bool)) : Spec.Ctx :=
  { cfg := cfg, es := specRecords cfg full, ds := discs.map (·.1),
    uniform := 1 / (((((specRecords cfg full).map Spec.stats).map (·.countPruned)).headD 0 - 1 : Nat) : Rat) }

theorem estimateFrom_orders (cfg : Cfg) (fallback : Option Disc) (full : Spec.Table) (m : Model)
    (hm : Spec.estimateFrom cfg fallback full = .ok m) :
    ∃ discs, discounts fallback ((specRecords cfg full).map Spec.stats) = .ok discs ∧
      m.orders = ordersOf (specCtx cfg full discs) := by
  unfold Spec.estimateFrom at hm
  simp only [bind, Except.bind] at hm
  split at hm
  · cases hm
  · rename_i discs hd
    refine ⟨discs, hd, ?_⟩
    simp only [pure, Except.pure, Except.ok.injEq] at hm
    rw [← hm]
    rfl

/-- **Normalisation of the model `Spec.estimateFrom` returns** (under the table hypotheses). -/
theorem normalised_estimate (cfg : Cfg) (fallback : Option Disc) (full : Spec.Table) (m : Model)
    (hm : Spec.estimateFrom cfg fallback full = .ok m)
    (hT : ∀ discs, discounts fallback ((specRecords cfg full).map Spec.stats) = .ok discs →
      TableOK (specCtx cfg full discs))
    (ctx : Gram) :
    ((Query.vocabNoBos m.orders).map (Query.score m.orders ctx)).sum = 1 := by
  obtain ⟨discs, hd, ho⟩ := estimateFrom_orders cfg fallback full m hm
  rw [ho]
  exact normalised (hT discs hd) ctx

/-! ### `uniformOK` from the definition of `uniform` -/

theorem countP_split {α : Type} (l : List α) (p q : α → Bool) :
    l.countP p = l.countP (fun a => p a && q a) + l.countP (fun a => p a && !q a) := by
  induction l with
  | nil => simp
  | cons a t ih =>
    simp only [List.countP_cons, ih]
    cases p a <;> cases q a <;> simp <;> omega

theorem countP_key (es : List Emit) (h : (es.map (·.gram)).Nodup) (e₀ : Emit) (he : e₀ ∈ es) :
    es.countP (fun e => e.gram == e₀.gram) = 1 := by
  induction es with
  | nil => cases he
  | cons a t ih =>
    rw [List.map_cons, List.nodup_cons] at h
    rw [List.countP_cons]
    by_cases hae : a.gram = e₀.gram
    · have hz : t.countP (fun e => e.gram == e₀.gram) = 0 := by
        rw [List.countP_eq_zero]
        intro e het h2
        have h2' : e.gram = e₀.gram := by simpa using h2
        exact h.1 (hae ▸ h2' ▸ List.mem_map.mpr ⟨e, het, rfl⟩)
      simp [hae, hz]
    · have het : e₀ ∈ t := by
        rcases List.mem_cons.mp he with h1 | h1
        · exact absurd (by rw [h1]) hae
        · exact h1
      simp [hae, ih h.2 het]

/-- `TableOK.uniformOK` from the way `Spec.estimateFrom` sets `uniform`
(`1 / (number of unmarked order-1 records − 1)`) and structural facts of the order-1 records. -/
theorem uniformOK_of (c : Spec.Ctx)
    (len1 : ∀ e ∈ c.esAt 1, e.gram.length = 1)
    (nodup1 : ((c.esAt 1).map (·.gram)).Nodup)
    (hasUnk : ∃ e ∈ c.esAt 1, e.gram = [unk])
    (hasBos : ∃ e ∈ c.esAt 1, e.gram = [bos])
    (specialsUnmarked : ∀ e ∈ c.esAt 1, e.gram.all isSpecial = true → e.marked = false)
    (count1 : ∀ e ∈ c.esAt 1, e.marked = false → e.gram.all isSpecial = false → 1 ≤ e.count)
    (hu : c.uniform = 1 / ((((c.esAt 1).countP fun e => !e.marked) - 1 : Nat) : Rat)) :
    c.uniform * ((keptUni c).length : Rat) = 1 := by
  -- kept = unmarked on the order-1 records
  have hkept : ∀ e ∈ c.esAt 1, keptBy e = !e.marked := by
    intro e he
    have hl := len1 e he
    have hs := specialsUnmarked e he
    have hc := count1 e he
    simp only [keptBy, hl, beq_self_eq_true, Bool.true_and]
    cases hsp : e.gram.all isSpecial with
    | true => simp [hs hsp]
    | false =>
      cases hm : e.marked with
      | true => simp [Emit.cutoff, hm]
      | false =>
        have := hc hm hsp
        simp [Emit.cutoff, hm]; omega
  have h1 : (keptUni c).length = (c.esAt 1).countP (fun e => !e.marked && e.gram != [bos]) := by
    rw [keptUni, ← List.countP_eq_length_filter]
    apply List.countP_congr
    intro e he
    rw [hkept e he]
  obtain ⟨eb, heb, hgb⟩ := hasBos
  have h2 : (c.esAt 1).countP (fun e => !e.marked && !(e.gram != [bos])) = 1 := by
    refine Eq.trans ?_ (countP_key _ nodup1 eb heb)
    apply List.countP_congr
    intro e he
    rw [hgb]
    by_cases hg : e.gram = [bos]
    · have := specialsUnmarked e he (by rw [hg]; decide)
      simp [hg, this]
    · simp [hg]
  have h3 := countP_split (c.esAt 1) (fun e => !e.marked) (fun e => e.gram != [bos])
  obtain ⟨eu, heu, hgu⟩ := hasUnk
  have h4 : 1 ≤ (keptUni c).length := by
    apply List.length_pos_of_mem (a := eu)
    rw [mem_keptUni]
    refine ⟨heu, ?_, by rw [hgu]; decide⟩
    rw [hkept eu heu, specialsUnmarked eu heu (by rw [hgu]; decide)]; rfl
  have h5 : ((c.esAt 1).countP fun e => !e.marked) - 1 = (keptUni c).length := by
    rw [h3, h2, ← h1]; omega
  rw [hu, h5]
  have : ((keptUni c).length : Rat) ≠ 0 := by
    have : (keptUni c).length ≠ 0 := by omega
    exact_mod_cast this
  field_simp

theorem specCtx_uniform (cfg : Cfg) (full : Spec.Table) (discs : List (Disc × Bool)) :
    (specCtx cfg full discs).uniform =
      1 / (((((specCtx cfg full discs).esAt 1).countP fun e => !e.marked) - 1 : Nat) : Rat) := by
  unfold specCtx Spec.Ctx.esAt
  cases specRecords cfg full <;> simp [Spec.stats]

/-! ## 4. Non-vacuity: the hypotheses hold on tiny concrete systems -/

/-- vocabulary `<unk> </s> a`, one bigram context `a` with the single kept extension `a </s>` -/
def exSys : System where
  V := [0, 2, 3]
  inE ctx w := ctx == [] || (ctx == [3] && w == 2)
  u _ _ := 1/2
  γ _ := 1/2
  p ctx w := if ctx == [] then (if w == 0 then 1/6 else if w == 2 then 1/2 else 1/3) else 3/4
  bo ctx := if ctx == [3] then 1/2 else 1

theorem exSys_ctx {ctx : Gram} (hc : ctx ≠ []) (hA : ∃ w ∈ exSys.V, exSys.inE ctx w = true) :
    ctx = [3] := by
  obtain ⟨w, _, hin⟩ := hA
  simp only [exSys, Bool.or_eq_true, Bool.and_eq_true, beq_iff_eq] at hin
  rcases hin with h | h
  · exact absurd h hc
  · exact h.1

theorem exSys_ok : exSys.OK where
  uni_mem := by decide
  uni_sum := by simp [exSys]; norm_num
  mass ctx hc hA := by
    obtain rfl := exSys_ctx hc hA
    simp [exSys]; norm_num
  interp ctx w hc hw hin := by
    obtain rfl := exSys_ctx hc ⟨w, hw, hin⟩
    have : w = 2 := by simpa [exSys] using hin
    subst this
    simp [exSys]; norm_num
  closure ctx w hc hw hin := by
    obtain rfl := exSys_ctx hc ⟨w, hw, hin⟩
    simp [exSys]
  bo_ctx ctx hc hA := by
    obtain rfl := exSys_ctx hc hA
    simp [exSys]
  bo_one ctx hc hall := by
    have : ctx ≠ [3] := by
      intro h; subst h
      have := hall 2 (by decide)
      simp [exSys] at this
    simp [exSys, this]

example (ctx : Gram) : (exSys.V.map (exSys.pBO ctx)).sum = 1 := normalised_abstract exSys exSys_ok ctx

/-- corpus `a b` / `a`, order 2 (`a = 3`, `b = 4`), bigram `b </s>` and `a </s>` pruned -/
def exCtx : Spec.Ctx :=
  { cfg := { order := 2, thr := fun _ => 0, excl := fun _ => false },
    es := [[⟨[0], 0, false⟩, ⟨[1], 0, false⟩, ⟨[2], 2, false⟩, ⟨[3], 1, false⟩, ⟨[4], 1, false⟩],
           [⟨[3, 1], 2, false⟩, ⟨[4, 3], 1, false⟩, ⟨[2, 4], 1, true⟩, ⟨[2, 3], 1, true⟩]],
    ds := [⟨1/2, 1, 3/2⟩, ⟨1/2, 1, 3/2⟩],
    uniform := 1/4 }

theorem exCtx_esAt_hi (n : Nat) : exCtx.esAt (n + 3) = [] := rfl

theorem exCtx_ok : TableOK exCtx where
  esLen := by decide
  len1 := by decide
  nodup n := by
    match n with
    | 0 => decide
    | 1 => decide
    | 2 => decide
    | n + 3 => rw [exCtx_esAt_hi]; simp
  den1 := by decide
  hasUnk := by decide
  unkBosCount := by decide
  specialsUnmarked := by decide
  uniformOK := by
    intro _
    have h4 : (keptUni exCtx).length = 4 := by decide
    have hu : exCtx.uniform = 1 / 4 := rfl
    rw [h4, hu]; norm_num
  countPos n hn := by
    match n, hn with
    | 1, _ => decide
    | n + 2, _ => rw [exCtx_esAt_hi]; simp
  closure n hn := by
    match n, hn with
    | 1, _ => decide
    | n + 2, _ => rw [exCtx_esAt_hi]; simp
  headOK n hn := by
    match n, hn with
    | 1, _ => decide
    | n + 2, _ => rw [exCtx_esAt_hi]; simp

example : (sysOf exCtx).OK := sysOf_OK exCtx_ok
example : Query.mass (ordersOf exCtx) [3] = 1 := normalised_mass exCtx_ok [3]
example : Query.mass (ordersOf exCtx) [4, 3, 7] = 1 := normalised_mass exCtx_ok _

end KV.KN.Norm
