import Proofs.LeftDeriv
/-! The probing structures' unigram sign-bit quirk (`Table.withSignQuirk`, known finding of C01) only turns
"does not extend left" into "extends left" for some unigrams: the hypotheses of the chart theorems survive. -/
namespace KV.Left
open KV.Arpa KV.Table KV.State KV.Score

variable {a : Arpa} {T : Table}

theorem quirk_lookup (a : Arpa) (T : Table) (g : List Word) :
    (T.lookup g = none ∧ (withSignQuirk a T).lookup g = none) ∨
    ∃ t t', T.lookup g = some t ∧ (withSignQuirk a T).lookup g = some t' ∧ t'.prob = t.prob ∧ t'.backoff = t.backoff ∧
      t'.extendsRight = t.extendsRight ∧ (t'.extendsLeft = false → t.extendsLeft = false) := by
  obtain ⟨o, ho⟩ : ∃ o, T.lookup g = o := ⟨_, rfl⟩
  cases o with
  | none => left; exact ⟨ho, by simp [withSignQuirk, ho]⟩
  | some t =>
    right
    match g with
    | [] => exact ⟨t, t, ho, by simp [withSignQuirk, ho], rfl, rfl, rfl, id⟩
    | [w] =>
      by_cases hq : (a.gram [w]).any (·.plusZero) = true
      · exact ⟨t, { t with extendsLeft := true }, ho, by simp [withSignQuirk, ho, hq], rfl, rfl, rfl, fun h => by simp at h⟩
      · exact ⟨t, t, ho, by simp [withSignQuirk, ho, hq], rfl, rfl, rfl, id⟩
    | w :: x :: r => exact ⟨t, t, ho, by simp [withSignQuirk, ho], rfl, rfl, rfl, id⟩

theorem quirk_none_iff (a : Arpa) (T : Table) (g : List Word) : (withSignQuirk a T).lookup g = none ↔ T.lookup g = none := by
  rcases quirk_lookup a T g with ⟨h1, h2⟩ | ⟨t, t', h1, h2, _⟩
  · simp [h1, h2]
  · simp [h1, h2]

theorem hyp_quirk (H : Hyp a T) : Hyp a (withSignQuirk a T) := by
  have tf := H.tf
  refine ⟨H.wf, ⟨⟨tf.order_ge, ?_, ?_, ?_⟩, tf.order_eq, ?_, ?_, ?_, ?_⟩, ?_, H.premise⟩
  · intro g x hg h
    rw [Ne, quirk_none_iff] at h ⊢
    exact tf.prefix_closed g x hg h
  · intro g x t' ht' hxl
    rw [quirk_none_iff]
    rcases quirk_lookup a T g with ⟨_, h2⟩ | ⟨t, t'', h1, h2, _, _, _, h6⟩
    · rw [h2] at ht'; cases ht'
    · rw [h2] at ht'; cases ht'
      exact tf.xl_sound g x t h1 (h6 hxl)
  · intro g h
    rw [Ne, quirk_none_iff] at h
    exact tf.len_le g h
  · intro g e hg
    obtain ⟨t, ht, hp, hb⟩ := tf.real g e hg
    rcases quirk_lookup a T g with ⟨h1, _⟩ | ⟨t0, t', h1, h2, h3, h4, _, _⟩
    · rw [h1] at ht; cases ht
    · rw [h1] at ht; cases ht
      exact ⟨t', h2, by rw [h3, hp], by rw [h4, hb]⟩
  · intro w ctx t' ht' hg
    rcases quirk_lookup a T (w :: ctx) with ⟨_, h2⟩ | ⟨t, t'', h1, h2, h3, h4, _, _⟩
    · rw [h2] at ht'; cases ht'
    · rw [h2] at ht'; cases ht'
      have := tf.blank w ctx t h1 hg
      exact ⟨by rw [h3]; exact this.1, by rw [h4]; exact this.2⟩
  · intro g t' ht' hl
    rcases quirk_lookup a T g with ⟨_, h2⟩ | ⟨t, t'', h1, h2, _, _, h5, _⟩
    · rw [h2] at ht'; cases ht'
    · rw [h2] at ht'; cases ht'
      rw [h5]; exact tf.xr_live g t h1 hl
  · rw [quirk_none_iff]; exact tf.nil_none
  · intro g y hg h
    rw [Ne, quirk_none_iff] at h
    have := H.marks g y hg h
    unfold Table.xr at this ⊢
    rcases quirk_lookup a T g with ⟨h1, _⟩ | ⟨t, t', h1, h2, _, _, h5, _⟩
    · rw [h1] at this; cases this
    · rw [h1] at this; rw [h2]; simpa [h5] using this

end KV.Left
