import Proofs.PCQueueProgress
import Proofs.ChainRing
/-!
Liveness of the composed step-level system, transported from the atomic system: deadlock freedom and termination
(a strictly decreasing natural-number measure for every `cstep`; interrupts are stutters and are bounded by the
explicit fairness hypothesis).  Core Lean only.
-/
namespace KV.Sys
open KV.PCQueue
open KV.Chain (upd sumTo sumTo_upd)

variable {σ : Type}

/-- the predicate a thread waits for only holds in local states in which the awaited thread is not about to call
`Produce` / `Consume` (thread start and `join` wait for a thread that is stopped or is itself waiting) -/
def AwaitQuiet (P : Prog σ) : Prop :=
  ∀ t l p pred k lp, P.act t l = .await p pred k → pred lp = true →
    (∀ q v k', P.act p lp ≠ .produce q v k') ∧ (∀ q k', P.act p lp ≠ .consume q k')

/-- only client threads are ever inside an operation -/
def ModeLt (P : Prog σ) (c : CState σ) : Prop := ∀ t, P.nthreads ≤ t → c.mode t = .idle

theorem modeLt_step {P : Prog σ} {c c' : CState σ} {t : Nat} (h : ModeLt P c) (hs : cstep P c t = some c') :
    ModeLt P c' := by
  unfold cstep at hs
  by_cases ht : t < P.nthreads
  · rw [if_pos ht] at hs
    have key : ∀ (m' : Mode σ) (t' : Nat), P.nthreads ≤ t' → upd c.mode t m' t' = .idle := by
      intro m' t' ht'
      have : t' ≠ t := by omega
      simp [Chain.upd, this, h t' ht']
    intro t' ht'
    cases hm : c.mode t with
    | idle =>
      simp only [hm] at hs
      cases ha : P.act t (c.loc t) with
      | produce q v k => simp only [ha] at hs; cases hs; exact key _ t' ht'
      | consume q k => simp only [ha] at hs; cases hs; exact key _ t' ht'
      | tau k => simp only [ha] at hs; cases hs; exact h t' ht'
      | await p pred k =>
        simp only [ha] at hs
        cases hmp : c.mode p <;> simp only [hmp] at hs
        · by_cases hp : pred (c.loc p) = true
          · rw [if_pos hp] at hs; cases hs; exact h t' ht'
          · rw [if_neg hp] at hs; cases hs
        · cases hs
        · cases hs
      | stop => simp [ha] at hs
    | inP q v k =>
      simp only [hm] at hs
      by_cases hd : pcOf (c.qs q) t = .done
      · rw [if_pos hd] at hs; cases hs; exact key _ t' ht'
      · rw [if_neg hd] at hs
        cases hst : step (c.qs q) t <;> simp only [hst] at hs
        · cases hs
        · cases hs; exact h t' ht'
    | inC q k =>
      simp only [hm] at hs
      by_cases hd : pcOf (c.qs q) t = .done
      · rw [if_pos hd] at hs; cases hs; exact key _ t' ht'
      · rw [if_neg hd] at hs
        cases hst : step (c.qs q) t <;> simp only [hst] at hs
        · cases hs
        · cases hs; exact h t' ht'
  · rw [if_neg ht] at hs; cases hs

/-- a thread inside an operation that has passed its critical-section body can always go on -/
theorem cstep_after_body {P : Prog σ} {c : CState σ} (h : CInv P c) {t q : Nat} (ht : t < P.nthreads)
    (hq : (c.mode t).queue = some q) (hlin : linearized (c.qs q) t = true) : cstep P c t ≠ none := by
  obtain ⟨th, hth⟩ := entry_of_lt h ht q
  obtain ⟨dP, dC, hinv⟩ := h.qinv q
  rw [linearized_eq hth] at hlin
  have hpc : th.pc = .unlock ∨ th.pc = .post ∨ th.pc = .done := by
    cases hp : th.pc <;> simp [hp] at hlin ⊢
  unfold cstep
  rw [if_pos ht]
  have hstep : th.pc ≠ .done → step (c.qs q) t ≠ none := by
    intro hnd
    apply step_isSome_of hinv hth
    rcases hpc with e | e | e
    · exact Or.inr (Or.inr (Or.inr (Or.inr (Or.inr (Or.inl e)))))
    · exact Or.inr (Or.inr (Or.inr (Or.inr (Or.inr (Or.inr e)))))
    · exact absurd e hnd
  cases hm : c.mode t with
  | idle => rw [hm] at hq; cases hq
  | inP q' v k =>
    rw [hm] at hq
    have : q' = q := Option.some.inj hq
    subst this
    simp only
    by_cases hd : pcOf (c.qs q') t = .done
    · simp [hd]
    · rw [if_neg hd]
      have := hstep (by rw [← pcOf_eq hth]; exact hd)
      cases hst : step (c.qs q') t with
      | none => exact absurd hst this
      | some s' => simp
  | inC q' k =>
    rw [hm] at hq
    have : q' = q := Option.some.inj hq
    subst this
    simp only
    by_cases hd : pcOf (c.qs q') t = .done
    · simp [hd]
    · rw [if_neg hd]
      have := hstep (by rw [← pcOf_eq hth]; exact hd)
      cases hst : step (c.qs q') t with
      | none => exact absurd hst this
      | some s' => simp

theorem absLoc_pre {c : CState σ} {t q : Nat} (hq : (c.mode t).queue = some q)
    (hlin : linearized (c.qs q) t = false) : absLoc c t = c.loc t := by
  unfold absLoc
  cases hm : c.mode t with
  | idle => rfl
  | inP q' v k =>
    rw [hm] at hq; have : q' = q := Option.some.inj hq
    subst this; simp [hlin]
  | inC q' k =>
    rw [hm] at hq; have : q' = q := Option.some.inj hq
    subst this; simp [hlin]

/-- **deadlock freedom is transported**: whenever the atomic system can make a step from `abs c`, the composed
step-level system can make a step from `c` -/
theorem steplevel_no_deadlock {P : Prog σ} {c : CState σ} (h : CInv P c) (hml : ModeLt P c) (haq : AwaitQuiet P)
    (hen : ∃ t, astep P (abs c) t ≠ none) : ∃ t', cstep P c t' ≠ none := by
  obtain ⟨t, hten⟩ := hen
  have ht : t < P.nthreads := by
    apply Classical.byContradiction
    intro e; apply hten; unfold astep; rw [if_neg e]
  unfold astep at hten
  rw [if_pos ht] at hten
  cases hm : c.mode t with
  | idle =>
    have hl : (abs c).loc t = c.loc t := by show absLoc c t = c.loc t; simp [absLoc, hm]
    rw [hl] at hten
    cases ha : P.act t (c.loc t) with
    | produce q v k => exact ⟨t, by unfold cstep; rw [if_pos ht]; simp [hm, ha]⟩
    | consume q k => exact ⟨t, by unfold cstep; rw [if_pos ht]; simp [hm, ha]⟩
    | tau k => exact ⟨t, by unfold cstep; rw [if_pos ht]; simp [hm, ha]⟩
    | stop => simp [ha] at hten
    | await p pred k =>
      simp only [ha] at hten
      have hpred : pred ((abs c).loc p) = true := by
        by_cases e : pred ((abs c).loc p) = true
        · exact e
        · rw [if_neg e] at hten; exact absurd rfl hten
      cases hmp : c.mode p with
      | idle =>
        have : (abs c).loc p = c.loc p := by show absLoc c p = c.loc p; simp [absLoc, hmp]
        rw [this] at hpred
        exact ⟨t, by unfold cstep; rw [if_pos ht]; simp [hm, ha, hmp, hpred]⟩
      | inP q' v' k' =>
        have hp : p < P.nthreads := by
          apply Classical.byContradiction
          intro e; have := hml p (by omega); rw [hmp] at this; cases this
        have hqp : (c.mode p).queue = some q' := by rw [hmp]; rfl
        by_cases hlin : linearized (c.qs q') p = true
        · exact ⟨p, cstep_after_body h hp hqp hlin⟩
        · exfalso
          have hlin' : linearized (c.qs q') p = false := by simpa using hlin
          have hlp : (abs c).loc p = c.loc p := absLoc_pre hqp hlin'
          rw [hlp] at hpred
          obtain ⟨th, hth⟩ := entry_of_lt h hp q'
          have hmok := h.mok p q' th hqp hth
          rw [hmp] at hmok
          exact (haq t _ p pred k _ ha hpred).1 q' v' k' hmok.2.1
      | inC q' k' =>
        have hp : p < P.nthreads := by
          apply Classical.byContradiction
          intro e; have := hml p (by omega); rw [hmp] at this; cases this
        have hqp : (c.mode p).queue = some q' := by rw [hmp]; rfl
        by_cases hlin : linearized (c.qs q') p = true
        · exact ⟨p, cstep_after_body h hp hqp hlin⟩
        · exfalso
          have hlin' : linearized (c.qs q') p = false := by simpa using hlin
          have hlp : (abs c).loc p = c.loc p := absLoc_pre hqp hlin'
          rw [hlp] at hpred
          obtain ⟨th, hth⟩ := entry_of_lt h hp q'
          have hmok := h.mok p q' th hqp hth
          rw [hmp] at hmok
          exact (haq t _ p pred k _ ha hpred).2 q' k' hmok.2.1
  | inP q v k =>
    have hq : (c.mode t).queue = some q := by rw [hm]; rfl
    by_cases hlin : linearized (c.qs q) t = true
    · exact ⟨t, cstep_after_body h ht hq hlin⟩
    · have hlin' : linearized (c.qs q) t = false := by simpa using hlin
      have hl : (abs c).loc t = c.loc t := absLoc_pre hq hlin'
      obtain ⟨th, hth⟩ := entry_of_lt h ht q
      have hmok := h.mok t q th hq hth
      rw [hm] at hmok
      rw [hl, hmok.2.1] at hten
      simp only at hten
      have hroom : ((abs c).q q).length < P.cap q := by
        apply Classical.byContradiction
        intro e
        apply hten
        simp [Chain.fifoPush, e]
      refine steplevel_op_progress h ht hq hlin' ⟨fun v' k' e => hroom, fun k' e => ?_⟩
      rw [hm] at e; cases e
  | inC q k =>
    have hq : (c.mode t).queue = some q := by rw [hm]; rfl
    by_cases hlin : linearized (c.qs q) t = true
    · exact ⟨t, cstep_after_body h ht hq hlin⟩
    · have hlin' : linearized (c.qs q) t = false := by simpa using hlin
      have hl : (abs c).loc t = c.loc t := absLoc_pre hq hlin'
      obtain ⟨th, hth⟩ := entry_of_lt h ht q
      have hmok := h.mok t q th hq hth
      rw [hm] at hmok
      rw [hl, hmok.2.1] at hten
      simp only at hten
      have hne : (abs c).q q ≠ [] := by
        intro e
        apply hten
        simp [Chain.fifoPop, e]
      refine steplevel_op_progress h ht hq hlin' ⟨fun v' k' e => ?_, fun k' e => hne⟩
      rw [hm] at e; cases e

/-! ### termination -/

theorem sumTo_change (f f' : Nat → Nat) {t n : Nat} (ht : t < n) (hfr : ∀ t', t' ≠ t → f' t' = f t') :
    sumTo f' n + f t = sumTo f n + f' t := by
  have : f' = Chain.upd f t (f' t) := by
    funext j; by_cases e : j = t
    · subst e; simp [Chain.upd]
    · simp [Chain.upd, e, hfr j e]
  rw [this]
  have := sumTo_upd f (f' t) ht
  simpa [Chain.upd] using this

/-- the measure of the composed system: 8 × the abstract measure + the potentials of the threads -/
def cmeasure (P : Prog σ) (amu : AState σ → Nat) (c : CState σ) : Nat :=
  8 * amu (abs c) + sumTo (gOf c) P.nthreads

/-- **every step of the composed system strictly decreases `cmeasure`**, provided every step of the atomic system
strictly decreases its measure `amu` at `abs c` -/
theorem cmeasure_step {P : Prog σ} {amu : AState σ → Nat} {c c' : CState σ} {t : Nat} (h : CInv P c)
    (hdec : ∀ a', astep P (abs c) t = some a' → amu a' < amu (abs c))
    (hs : cstep P c t = some c') : cmeasure P amu c' < cmeasure P amu c := by
  have ht : t < P.nthreads := by
    apply Classical.byContradiction
    intro e; unfold cstep at hs; rw [if_neg e] at hs; cases hs
  obtain ⟨_, hrel, hfr⟩ := sim_step h hs
  have hsum := sumTo_change (gOf c) (gOf c') ht hfr
  unfold cmeasure
  rcases hrel with ⟨he, hg⟩ | ⟨ha, hg⟩
  · rw [he]; omega
  · have := hdec _ ha
    omega

/-- transitions of a run: a step of a thread, or an EINTR of a thread inside an operation -/
inductive Label
  | step (t : Nat)
  | intr (t : Nat)

def crun (P : Prog σ) : CState σ → List Label → Option (CState σ)
  | c, [] => some c
  | c, .step t :: ls => match cstep P c t with
    | some c' => crun P c' ls
    | none => none
  | c, .intr t :: ls => match cintr c t with
    | some c' => crun P c' ls
    | none => none

def countSteps : List Label → Nat
  | [] => 0
  | .step _ :: ls => countSteps ls + 1
  | .intr _ :: ls => countSteps ls

/-- the fairness assumption on signals, as a property of the run: no more than `E` consecutive interrupts
(finitely many EINTR per wait); `cur` = interrupts seen since the last step -/
def InterruptFair (E : Nat) : Nat → List Label → Prop
  | _, [] => True
  | _, .step _ :: ls => InterruptFair E 0 ls
  | cur, .intr _ :: ls => cur < E ∧ InterruptFair E (cur + 1) ls

theorem fair_length (E : Nat) : ∀ (ls : List Label) (cur : Nat), cur ≤ E → InterruptFair E cur ls →
    ls.length + cur ≤ countSteps ls * (E + 1) + E := by
  intro ls
  induction ls with
  | nil => intro cur hc _; simp [countSteps]; exact hc
  | cons l ls ih =>
    intro cur hc hf
    cases l with
    | step t =>
      have := ih 0 (by omega) hf
      simp only [List.length_cons, countSteps, Nat.add_mul] at this ⊢
      omega
    | intr t =>
      obtain ⟨h1, h2⟩ := hf
      have := ih (cur + 1) (by omega) h2
      simp only [List.length_cons, countSteps] at this ⊢
      omega

/-- along a run from a state satisfying the invariants, with an abstract measure that decreases on every abstract
step from every abstract state met (`AOK`, an invariant of the atomic system), the number of steps is bounded by
`cmeasure`, and an interrupt-fair run has bounded length -/
theorem crun_bounded {P : Prog σ} {amu : AState σ → Nat} (AOK : AState σ → Prop)
    (hpres : ∀ a a' t, AOK a → astep P a t = some a' → AOK a')
    (hdec : ∀ a a' t, AOK a → astep P a t = some a' → amu a' < amu a) :
    ∀ (ls : List Label) (c c' : CState σ), CInv P c → AOK (abs c) → crun P c ls = some c' →
      CInv P c' ∧ AOK (abs c') ∧ countSteps ls + cmeasure P amu c' ≤ cmeasure P amu c := by
  intro ls
  induction ls with
  | nil => intro c c' h ha hr; simp [crun] at hr; subst hr; exact ⟨h, ha, by simp [countSteps]⟩
  | cons l ls ih =>
    intro c c' h ha hr
    cases l with
    | step t =>
      simp only [crun] at hr
      cases hs : cstep P c t with
      | none => simp [hs] at hr
      | some c1 =>
        simp only [hs] at hr
        obtain ⟨h1, hrel, _⟩ := sim_step h hs
        have ha1 : AOK (abs c1) := by
          rcases hrel with ⟨he, _⟩ | ⟨hast, _⟩
          · rw [he]; exact ha
          · exact hpres _ _ _ ha hast
        have hlt := cmeasure_step (amu := amu) h (fun a' e => hdec _ _ _ ha e) hs
        obtain ⟨h2, ha2, hle⟩ := ih c1 c' h1 ha1 hr
        refine ⟨h2, ha2, ?_⟩
        simp only [countSteps]; omega
    | intr t =>
      simp only [crun] at hr
      cases hs : cintr c t with
      | none => simp [hs] at hr
      | some c1 =>
        simp only [hs] at hr
        rw [sim_intr hs] at hr
        obtain ⟨h2, ha2, hle⟩ := ih c c' h ha hr
        exact ⟨h2, ha2, by simp only [countSteps]; exact hle⟩

end KV.Sys
