import Model.Interp
/-!
`BoundedSequenceEncoding`: `Decode (Encode v) = v` for every bound vector and every value vector
within the field widths, any number of entries (any number of 64-bit words).  Core-only proofs,
everything is reduced to `Nat.testBit`.
-/
namespace KV.Interp.BSE

/-- the entries produced by the constructor form a chain: a field either continues the current
word at the running shift, or starts a new word at shift 0; it never crosses bit 64. -/
inductive Chain : Nat → List Ent → Prop
  | nil (s : Nat) : Chain s []
  | cont (s : Nat) (e : Ent) (es : List Ent) : e.next = false → e.shift = s → s + e.len ≤ 64 →
      Chain (s + e.len) es → Chain s (e :: es)
  | next (s : Nat) (e : Ent) (es : List Ent) : e.next = true → e.shift = 0 → e.len ≤ 64 →
      Chain e.len es → Chain s (e :: es)

theorem bitLen_le (b : Nat) (hb : b < 256) : bitLen b ≤ 8 := by
  unfold bitLen
  split
  · omega
  · have : Nat.log2 b < 8 := (Nat.log2_lt (by omega)).2 (by omega)
    omega

theorem chain_build : ∀ (bounds : List Nat) (s : Nat), (∀ b ∈ bounds, b < 256) →
    Chain s (build bounds s).1
  | [], s, _ => Chain.nil s
  | b :: bs, s, h => by
    have hb := bitLen_le b (h b List.mem_cons_self)
    have hbs : ∀ x ∈ bs, x < 256 := fun x hx => h x (List.mem_cons_of_mem _ hx)
    unfold build
    split
    · exact Chain.next s _ _ rfl rfl (by simp; omega) (chain_build bs _ hbs)
    · exact Chain.cont s _ _ rfl rfl (by simp; omega) (chain_build bs _ hbs)

/-- value `v` fits the field of entry `e` -/
def Fits : List Ent → List Nat → Prop
  | [], [] => True
  | e :: es, v :: vs => v < 2^e.len ∧ Fits es vs
  | _, _ => False

theorem testBit_lt_pow {v n j : Nat} (hv : v < 2^n) (hj : n ≤ j) : v.testBit j = false :=
  Nat.testBit_lt_two_pow (Nat.lt_of_lt_of_le hv (Nat.pow_le_pow_right (by omega) hj))

/-- bits of the laid-out words -/
theorem testBit_wordsToNat_cons (w : Nat) (ws : List Nat) (i : Nat) :
    (wordsToNat (w :: ws)).testBit i =
      if i < 64 then w.testBit i else (wordsToNat ws).testBit (i - 64) := by
  have hw : wordsToNat (w :: ws) = (w % 2^64) ||| (wordsToNat ws <<< 64) := rfl
  rw [hw]
  rw [Nat.testBit_or, Nat.testBit_mod_two_pow, Nat.testBit_shiftLeft]
  by_cases h : i < 64
  · have h' : ¬ 64 ≤ i := by omega
    simp [h, h']
  · have h' : 64 ≤ i := by omega
    simp [h, h']

/-- main invariant: decoding the words produced from state `cur` (whose bits below `s` are already
fixed) returns the values, and the first word keeps the bits of `cur` below `s`. -/
theorem decM_encWords : ∀ (es : List Ent) (s : Nat) (vs : List Nat) (cur : Nat),
    Chain s es → s ≤ 64 → cur < 2^s → Fits es vs →
    decM es (wordsToNat (encWords es vs cur)) = vs ∧
      ∀ i, i < s → (wordsToNat (encWords es vs cur)).testBit i = cur.testBit i
  | [], s, vs, cur, _, hs, hcur, hf => by
    cases vs with
    | nil =>
      refine ⟨rfl, fun i hi => ?_⟩
      rw [encWords, testBit_wordsToNat_cons]
      simp [show i < 64 by omega]
    | cons v vs => exact absurd hf (by simp [Fits])
  | e :: es, s, [], cur, _, _, _, hf => absurd hf (by simp [Fits])
  | e :: es, s, v :: vs, cur, hc, hs, hcur, hf => by
    obtain ⟨hv, hf'⟩ := hf
    cases hc with
    | cont _ _ _ hn hsh hle hc' =>
      have hcur' : (cur ||| (v <<< e.shift)) % 2^64 < 2^(s + e.len) := by
        apply Nat.lt_of_le_of_lt (Nat.mod_le _ _)
        apply Nat.or_lt_two_pow
        · exact Nat.lt_of_lt_of_le hcur (Nat.pow_le_pow_right (by omega) (by omega))
        · rw [hsh, Nat.shiftLeft_eq, Nat.pow_add, Nat.mul_comm]
          exact Nat.mul_lt_mul_of_pos_left hv (Nat.two_pow_pos s)
      obtain ⟨ih1, ih2⟩ := decM_encWords es (s + e.len) vs _ hc' hle hcur' hf'
      have henc : encWords (e :: es) (v :: vs) cur =
          encWords es vs ((cur ||| (v <<< e.shift)) % 2^64) := by
        rw [encWords, if_neg (by simp [hn])]
      rw [henc]
      refine ⟨?_, fun i hi => ?_⟩
      · rw [decM]
        simp only [hn, Bool.false_eq_true, if_false]
        rw [ih1]
        congr 1
        -- the field
        apply Nat.eq_of_testBit_eq
        intro j
        rw [Nat.testBit_mod_two_pow, Nat.testBit_shiftRight, Nat.testBit_mod_two_pow]
        by_cases hj : j < e.len
        · have h1 : e.shift + j < 64 := by omega
          have h2 : e.shift + j < s + e.len := by omega
          rw [ih2 _ h2, Nat.testBit_mod_two_pow, Nat.testBit_or, Nat.testBit_shiftLeft]
          have hcz : cur.testBit (e.shift + j) = false := testBit_lt_pow hcur (by omega)
          simp [hj, h1, hcz]
        · simp only [hj, decide_false, Bool.false_and]
          exact (testBit_lt_pow hv (by omega)).symm
      · rw [ih2 i (by omega), Nat.testBit_mod_two_pow, Nat.testBit_or, Nat.testBit_shiftLeft]
        have : ¬ e.shift ≤ i := by omega
        simp [show i < 64 by omega, this]
    | next _ _ _ hn hsh hle hc' =>
      have hz : (v <<< e.shift) % 2^64 = v := by
        rw [hsh, Nat.shiftLeft_zero]
        exact Nat.mod_eq_of_lt (Nat.lt_of_lt_of_le hv (Nat.pow_le_pow_right (by omega) hle))
      obtain ⟨ih1, ih2⟩ := decM_encWords es e.len vs v hc' hle hv hf'
      have henc : encWords (e :: es) (v :: vs) cur = cur :: encWords es vs v := by
        rw [encWords, if_pos hn, hz]
      rw [henc]
      have hshift : wordsToNat (cur :: encWords es vs v) >>> 64 = wordsToNat (encWords es vs v) := by
        apply Nat.eq_of_testBit_eq
        intro j
        rw [Nat.testBit_shiftRight, testBit_wordsToNat_cons, if_neg (by omega)]
        congr 1
        omega
      refine ⟨?_, fun i hi => ?_⟩
      · rw [decM]
        simp only [hn, if_true]
        rw [hshift, ih1]
        congr 1
        apply Nat.eq_of_testBit_eq
        intro j
        rw [Nat.testBit_mod_two_pow, Nat.testBit_shiftRight, Nat.testBit_mod_two_pow, hsh, Nat.zero_add]
        by_cases hj : j < e.len
        · rw [ih2 j hj]
          simp [hj, show j < 64 by omega]
        · simp only [hj, decide_false, Bool.false_and]
          exact (testBit_lt_pow hv (by omega)).symm
      · rw [testBit_wordsToNat_cons]
        simp [show i < 64 by omega]

/-- number of bits of memory used, counted from the start of the current word -/
def bitsUsed : Nat → List Ent → Nat
  | s, [] => s
  | s, e :: es => if e.next then 64 + bitsUsed e.len es else bitsUsed (s + e.len) es

theorem build_bits : ∀ (bounds : List Nat) (s : Nat),
    64 * (build bounds s).2.2 + (build bounds s).2.1 = bitsUsed s (build bounds s).1
  | [], s => by simp [build, bitsUsed]
  | b :: bs, s => by
    unfold build
    split
    · have := build_bits bs (bitLen b)
      simp only [bitsUsed, if_true]
      omega
    · have := build_bits bs (s + bitLen b)
      simp only [bitsUsed, Bool.false_eq_true, if_false]
      omega

/-- nothing is written above the bits accounted for by `byte_length_` -/
theorem testBit_enc_high : ∀ (es : List Ent) (s : Nat) (vs : List Nat) (cur : Nat),
    Chain s es → s ≤ 64 → cur < 2^s → Fits es vs →
    ∀ i, bitsUsed s es ≤ i → (wordsToNat (encWords es vs cur)).testBit i = false
  | [], s, vs, cur, _, hs, hcur, _ => by
    intro i hi
    have henc : encWords [] vs cur = [cur] := by cases vs <;> rfl
    rw [henc, testBit_wordsToNat_cons]
    simp only [bitsUsed] at hi
    by_cases h : i < 64
    · simp only [h, if_true]; exact testBit_lt_pow hcur hi
    · simp [h, wordsToNat]
  | e :: es, s, [], cur, _, _, _, hf => absurd hf (by simp [Fits])
  | e :: es, s, v :: vs, cur, hc, hs, hcur, hf => by
    obtain ⟨hv, hf'⟩ := hf
    intro i hi
    cases hc with
    | cont _ _ _ hn hsh hle hc' =>
      have hcur' : (cur ||| (v <<< e.shift)) % 2^64 < 2^(s + e.len) := by
        apply Nat.lt_of_le_of_lt (Nat.mod_le _ _)
        apply Nat.or_lt_two_pow
        · exact Nat.lt_of_lt_of_le hcur (Nat.pow_le_pow_right (by omega) (by omega))
        · rw [hsh, Nat.shiftLeft_eq, Nat.pow_add, Nat.mul_comm]
          exact Nat.mul_lt_mul_of_pos_left hv (Nat.two_pow_pos s)
      rw [encWords, if_neg (by simp [hn])]
      simp only [bitsUsed, hn, Bool.false_eq_true, if_false] at hi
      exact testBit_enc_high es (s + e.len) vs _ hc' hle hcur' hf' i hi
    | next _ _ _ hn hsh hle hc' =>
      have hz : (v <<< e.shift) % 2^64 = v := by
        rw [hsh, Nat.shiftLeft_zero]
        exact Nat.mod_eq_of_lt (Nat.lt_of_lt_of_le hv (Nat.pow_le_pow_right (by omega) hle))
      rw [encWords, if_pos hn, hz, testBit_wordsToNat_cons]
      simp only [bitsUsed, hn, if_true] at hi
      rw [if_neg (by omega)]
      exact testBit_enc_high es e.len vs v hc' hle hv hf' (i - 64) (by omega)

/-- **round trip**: `Decode(Encode(v)) = v` for every vector of bounds (`unsigned char`) and every
value vector that fits the field widths — any length, any number of 64-bit words. -/
theorem decode_encode (bounds vs : List Nat) (hb : ∀ b ∈ bounds, b < 256)
    (hf : Fits (entries bounds) vs) : decode bounds (encode bounds vs) = vs := by
  have hc := chain_build bounds 0 hb
  have hlt : wordsToNat (encWords (entries bounds) vs 0) < 2^(8 * byteLength bounds) := by
    apply Nat.lt_pow_two_of_testBit
    intro i hi
    apply testBit_enc_high (entries bounds) 0 vs 0 hc (by omega) (by simp) hf
    have hbits := build_bits bounds 0
    unfold byteLength at hi
    unfold entries
    simp only at hi
    omega
  unfold decode encode
  rw [Nat.mod_eq_of_lt hlt, Nat.mod_eq_of_lt hlt]
  exact (decM_encWords (entries bounds) 0 vs 0 hc (by omega) (by simp) hf).1

theorem lt_two_pow_bitLen {v b : Nat} (h : v < b) : v < 2^bitLen b := by
  unfold bitLen
  split
  · omega
  · exact Nat.lt_trans h Nat.lt_log2_self

/-- the contract of the class as used by `merge_probabilities.cc`: every `from` is strictly below
its bound `min(order, orderᵢ)` -/
def Below : List Nat → List Nat → Prop
  | [], [] => True
  | b :: bs, v :: vs => v < b ∧ Below bs vs
  | _, _ => False

instance decBelow : ∀ (bs vs : List Nat), Decidable (Below bs vs)
  | [], [] => isTrue trivial
  | [], _ :: _ => isFalse (by simp [Below])
  | _ :: _, [] => isFalse (by simp [Below])
  | b :: bs, v :: vs =>
    match Nat.decLt v b, decBelow bs vs with
    | isTrue h1, isTrue h2 => isTrue ⟨h1, h2⟩
    | isFalse h1, _ => isFalse (fun h => h1 h.1)
    | _, isFalse h2 => isFalse (fun h => h2 h.2)

theorem fits_of_below : ∀ (bounds vs : List Nat) (s : Nat), Below bounds vs →
    Fits (build bounds s).1 vs
  | [], [], _, _ => by simp [build, Fits]
  | [], _ :: _, _, h => absurd h (by simp [Below])
  | _ :: _, [], _, h => absurd h (by simp [Below])
  | b :: bs, v :: vs, s, h => by
    obtain ⟨hv, hrest⟩ := h
    unfold build
    split
    · exact ⟨lt_two_pow_bitLen hv, fits_of_below bs vs _ hrest⟩
    · exact ⟨lt_two_pow_bitLen hv, fits_of_below bs vs _ hrest⟩

theorem bitLen_pos {b : Nat} (h : 2 ≤ b) : 0 < bitLen b := by
  unfold bitLen
  rw [if_neg (by omega)]
  omega

/-- with all bounds ≥ 2 (every component of order ≥ 2, n-gram order ≥ 2) every field has positive
width, so every shift is below 64 -/
theorem all_shift_lt : ∀ (bounds : List Nat) (s : Nat), (∀ b ∈ bounds, 2 ≤ b ∧ b < 256) →
    ∀ e ∈ (build bounds s).1, e.shift < 64
  | [], _, _ => by simp [build]
  | b :: bs, s, h => by
    have hb := h b List.mem_cons_self
    have hpos := bitLen_pos hb.1
    have hbs : ∀ x ∈ bs, 2 ≤ x ∧ x < 256 := fun x hx => h x (List.mem_cons_of_mem _ hx)
    unfold build
    split
    · intro e he
      rcases List.mem_cons.1 he with rfl | he
      · simp
      · exact all_shift_lt bs _ hbs e he
    · intro e he
      rcases List.mem_cons.1 he with rfl | he
      · simp only; omega
      · exact all_shift_lt bs _ hbs e he

theorem ubFree_of_two_le (bounds : List Nat) (h : ∀ b ∈ bounds, 2 ≤ b ∧ b < 256) :
    ubFree bounds = true := by
  unfold ubFree entries
  rw [List.all_eq_true]
  intro e he
  simpa using all_shift_lt bounds 0 h e he

/-- unigram records: all bounds are 1, all fields have width 0 at shift 0 -/
theorem ubFree_replicate_one (n : Nat) : ubFree (List.replicate n 1) = true := by
  have hb : ∀ (n s : Nat), s < 64 → ∀ e ∈ (build (List.replicate n 1) s).1, e.shift < 64 := by
    intro n
    induction n with
    | zero => intro s _; simp [build]
    | succ k ih =>
      intro s hs e he
      rw [List.replicate_succ] at he
      unfold build at he
      have hl : bitLen 1 = 0 := by simp [bitLen]
      rw [hl] at he
      rw [if_neg (by omega)] at he
      rcases List.mem_cons.1 he with rfl | he
      · exact hs
      · exact ih s hs e (by simpa using he)
  unfold ubFree entries
  rw [List.all_eq_true]
  intro e he
  simpa using hb n 0 (by omega) e he

end KV.Interp.BSE
