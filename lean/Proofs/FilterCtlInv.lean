import Proofs.FilterBuf
import Proofs.FilterLists
/-!
The inductive invariant of the threaded filter (fixed code) and its preservation by every
step of every thread: `Inv`.  Consequence: `ctl_output`.
-/
namespace KV.FilterCtl
open KV.Filter (Verdict)
variable {α : Type}

/-- the batches that are on their way (sent, not yet written) -/
def inflight (s : State α) : List (Batch α) :=
  somes s.filterQ ++ held s.workers ++ somes s.doneQ ++ somes s.ordering

def evs (f : α → Verdict) (xs : List α) : List (OutEv α) := xs.flatMap (itemEvents f)

@[simp] theorem evs_nil (f : α → Verdict) : evs f [] = [] := rfl
theorem evs_append (f : α → Verdict) (a b : List α) : evs f (a ++ b) = evs f a ++ evs f b := by
  simp [evs]
@[simp] theorem evs_single (f : α → Verdict) (x : α) : evs f [x] = itemEvents f x := by
  simp [evs]

/-- the lines in `input_` -/
def curInput (s : State α) : List α :=
  match s.rpc, s.localRead with
  | .run, top :: _ => top.input
  | _, _ => []

theorem wf_of_true {d : Bool} {p : List (ROp α)} (h : wf true p = true) : wf d p = true := by
  cases d with
  | true => exact h
  | false =>
    cases p with
    | nil => simp [wf] at h
    | cons o r => cases o <;> simp_all [wf]

/-- what the rest of the reader program must look like, by reader state -/
def WfClause (q : Nat) (rpc : RPc) (lr : List (Batch α)) (cur : List α) (prog : List (ROp α)) : Prop :=
  match rpc with
  | .run => wf (!(decide (lr.length = q) && cur.isEmpty)) prog = true
  | .waitOne => wf true prog = true ∧ lr = []
  | .waitAll => wf false prog = true
  | _ => prog = [] ∧ lr.length = q

structure Inv (cfg : Cfg α) (prog₀ : List (ROp α)) (chunks : List (List α)) (s : State α) : Prop where
  hseq : chunks.length = s.seqNo
  hbase : s.baseSeq ≤ s.seqNo
  hcnt : ∀ k, cntL k (inflight s) = if s.baseSeq ≤ k ∧ k < s.seqNo then 1 else 0
  hchunk : ∀ b ∈ inflight s, chunks[b.seq]? = some b.input
  hhome : ∀ b ∈ s.localRead ++ s.toRead, b.out = {}
  hunf : ∀ b ∈ somes s.filterQ ++ held s.workers, b.out = {}
  hfil : ∀ b ∈ somes s.doneQ ++ somes s.ordering, b.out.events = evs cfg.f b.input
  hord : ∀ (i : Nat) (b : Batch α), s.ordering[i]? = some (some b) → b.seq = s.baseSeq + i
  htotal : s.localRead.length + s.toRead.length + (inflight s).length = cfg.queue
  hlog : s.out ++ (chunks.drop s.baseSeq).flatMap (evs cfg.f) ++ evs cfg.f (curInput s) ++ seqLog cfg.f s.prog
          = seqLog cfg.f prog₀
  hub : s.ub = false
  hrun : s.rpc = .run → ∃ top lr, s.localRead = top :: lr ∧ top.seq = s.seqNo
  hwf : WfClause cfg.queue s.rpc s.localRead (curInput s) s.prog

/-- everything is home ⇒ nothing is pending -/
theorem Inv.home {cfg : Cfg α} {p : List (ROp α)} {c : List (List α)} {s : State α} (h : Inv cfg p c s)
    (hl : s.localRead.length = cfg.queue) : inflight s = [] ∧ c.drop s.baseSeq = [] ∧ s.baseSeq = s.seqNo := by
  have ht := h.htotal
  have hi : inflight s = [] := List.eq_nil_of_length_eq_zero (by omega)
  have hc := h.hcnt s.baseSeq
  rw [hi] at hc
  have hb := h.hbase
  have : s.baseSeq = s.seqNo := by
    by_cases hlt : s.baseSeq < s.seqNo
    · simp [hlt] at hc
    · omega
  refine ⟨hi, ?_, this⟩
  apply List.drop_eq_nil_of_le
  rw [h.hseq]; omega

theorem getElem?_append_some {β : Type} {l : List β} {i : Nat} {v : β} (m : List β) (h : l[i]? = some v) :
    (l ++ m)[i]? = some v := by
  have : i < l.length := by
    rcases Nat.lt_or_ge i l.length with hlt | hge
    · exact hlt
    · rw [List.getElem?_eq_none hge] at h; cases h
  rw [List.getElem?_append_left this]; exact h

/-! ### sending the current batch (the common part of `add` with a full batch and `flush`) -/

/-- the state after `filter_.Produce(top); ++sequence_; pop` satisfies every clause that does
not mention `rpc`/`prog`; stated for an arbitrary continuation of those two fields. -/
theorem inv_send {cfg : Cfg α} {p : List (ROp α)} {c : List (List α)}
    {s : State α} (h : Inv cfg p c s) {top : Batch α} {lr : List (Batch α)} (hlr : s.localRead = top :: lr)
    (htop : top.seq = s.seqNo) (top' : Batch α) (hs : top'.seq = top.seq) (ho : top'.out = top.out)
    (prog' : List (ROp α)) (rpc' : RPc) (lr' : List (Batch α)) (hlr' : ∀ b ∈ lr', b.out = {})
    (hlen : lr'.length = lr.length)
    (s' : State α)
    (hs' : s' = { s with prog := prog', rpc := rpc', filterQ := s.filterQ ++ [some top'], localRead := lr',
                         seqNo := s.seqNo + 1 })
    (hlog' : s.out ++ (c.drop s.baseSeq).flatMap (evs cfg.f) ++ evs cfg.f top'.input ++ evs cfg.f (curInput s') ++ seqLog cfg.f prog'
              = seqLog cfg.f p)
    (hrun' : rpc' = .run → ∃ t l, lr' = t :: l ∧ t.seq = s.seqNo + 1)
    (hwf' : WfClause cfg.queue rpc' lr' (curInput s') prog') :
    Inv cfg p (c ++ [top'.input]) s' := by
  subst hs'
  have hinf : inflight ({ s with prog := prog', rpc := rpc', filterQ := s.filterQ ++ [some top'], localRead := lr', seqNo := s.seqNo + 1 } : State α) = somes s.filterQ ++ [top'] ++ held s.workers ++ somes s.doneQ ++ somes s.ordering := by
    simp [inflight]
  have hmem : ∀ b, b ∈ somes s.filterQ ++ [top'] ++ held s.workers ++ somes s.doneQ ++ somes s.ordering ↔
      b = top' ∨ b ∈ inflight s := by
    intro b; simp only [inflight, List.mem_append, List.mem_singleton]
    constructor
    · rintro ((((h | h) | h) | h) | h) <;> simp [h]
    · rintro (h | (((h | h) | h) | h)) <;> simp [h]
  have htopout : top.out = {} := h.hhome top (by rw [hlr]; simp)
  refine { hseq := by simp [h.hseq], hbase := by have := h.hbase; simp; omega, hcnt := ?_, hchunk := ?_, hhome := ?_,
           hunf := ?_, hfil := h.hfil, hord := h.hord, htotal := ?_, hlog := ?_, hub := h.hub, hrun := hrun', hwf := hwf' }
  · intro k
    rw [hinf]
    have := h.hcnt k
    have hb := h.hbase
    simp only [inflight, cntL_append, cntL_cons, cntL_nil] at this ⊢
    rw [hs, htop]
    split at this <;> split <;> split <;> omega
  · intro b hb
    rw [hinf] at hb
    rcases (hmem b).mp hb with rfl | hb
    · rw [hs, htop, ← h.hseq]; simp
    · exact getElem?_append_some _ (h.hchunk b hb)
  · intro b hb
    simp only [List.mem_append] at hb
    rcases hb with hb | hb
    · exact hlr' b hb
    · exact h.hhome b (by simp [hb])
  · intro b hb
    simp only [somes_append, somes_cons_some, somes_nil, List.mem_append, List.mem_cons, List.not_mem_nil, or_false] at hb
    rcases hb with (hb | rfl) | hb
    · exact h.hunf b (by simp [hb])
    · rw [ho]; exact htopout
    · exact h.hunf b (by simp [hb])
  · have := h.htotal
    rw [hinf]
    simp only [inflight, hlr, List.length_append, List.length_cons, List.length_nil] at this ⊢
    omega
  · have hb := h.hbase
    have : List.drop s.baseSeq (c ++ [top'.input]) = List.drop s.baseSeq c ++ [top'.input] := by
      apply List.drop_append_of_le_length; rw [h.hseq]; exact hb
    simp only [this, List.flatMap_append, List.flatMap_cons, List.flatMap_nil, List.append_nil]
    simpa [List.append_assoc] using hlog'

theorem curInput_run {s : State α} {top : Batch α} {lr : List (Batch α)} (h1 : s.rpc = .run)
    (h2 : s.localRead = top :: lr) : curInput s = top.input := by
  simp [curInput, h1, h2]

theorem curInput_not_run {s : State α} (h1 : s.rpc ≠ .run) : curInput s = [] := by
  unfold curInput
  split
  · rename_i h _; exact absurd h h1
  · rfl

/-! ### the reader -/

theorem inv_reader {cfg : Cfg α} (hv : cfg.variant = Variant.fixed) (hq : 1 ≤ cfg.queue) {p : List (ROp α)}
    {c : List (List α)} {s s' : State α} (h : Inv cfg p c s) (hst : readerStep cfg s = some s') :
    ∃ c', Inv cfg p c' s' := by
  have hbs : cfg.variant.burnSeq = false := by rw [hv]; rfl
  unfold readerStep at hst
  split at hst
  · -- run
    rename_i hrpc
    obtain ⟨top, lr, hlr, htop⟩ := h.hrun hrpc
    have hcur : curInput s = top.input := curInput_run hrpc hlr
    have hwf := h.hwf
    rw [hrpc, hcur] at hwf
    simp only [WfClause] at hwf
    split at hst
    · -- end of program: start the destructors
      rename_i hprog
      simp only [Option.some.injEq] at hst
      subst hst
      rw [hprog] at hwf
      simp only [wf, Bool.not_not, Bool.and_eq_true, decide_eq_true_eq, List.isEmpty_iff] at hwf
      refine ⟨c, { h with hlog := ?_, hrun := (by intro hh; cases hh), hwf := ?_ }⟩
      · have := h.hlog
        rw [hcur, hwf.2] at this
        simpa [curInput] using this
      · simp only [WfClause]; exact ⟨hprog, hwf.1⟩
    · -- emit
      rename_i m rest hprog
      simp only [Option.some.injEq] at hst
      subst hst
      rw [hprog] at hwf
      simp only [wf, Bool.not_not, Bool.and_eq_true, decide_eq_true_eq, List.isEmpty_iff] at hwf
      obtain ⟨⟨hlen, hemp⟩, hrest⟩ := hwf
      obtain ⟨_, hdrop, _⟩ := h.home hlen
      have hcur' : curInput ({ s with prog := rest, out := s.out ++ [OutEv.mark m] } : State α) = top.input :=
        curInput_run hrpc hlr
      refine ⟨c, { h with hlog := ?_, hwf := ?_ }⟩
      · have := h.hlog
        rw [hcur, hemp, hdrop, hprog] at this
        rw [hcur', hemp, hdrop]
        simpa [seqLog] using this
      · show WfClause cfg.queue s.rpc s.localRead _ rest
        rw [hcur', hrpc, hemp]
        simp only [WfClause, hlen, decide_true, List.isEmpty_nil, Bool.and_self, Bool.not_true]
        exact hrest
    · -- add
      rename_i x rest hprog
      split at hst
      · simp at hst
      rename_i top2 lr2 hlr2
      have e := hlr.symm.trans hlr2
      injection e with e1 e2; subst e1; subst e2
      simp only at hst
      rw [hprog] at hwf
      simp only [wf] at hwf
      have hlogx : s.out ++ (c.drop s.baseSeq).flatMap (evs cfg.f) ++ evs cfg.f (top.input ++ [x]) ++ seqLog cfg.f rest
          = seqLog cfg.f p := by
        have := h.hlog
        rw [hcur, hprog] at this
        rw [evs_append, evs_single]
        simpa [seqLog, List.append_assoc] using this
      split at hst
      · -- the batch is full
        split at hst
        · split at hst
          · -- no batch left: wait for one
            rename_i hfull hroom hemp
            simp only [Option.some.injEq] at hst
            have hlr0 : lr = [] := by simpa using hemp
            subst hlr0
            refine ⟨c ++ [top.input ++ [x]], inv_send h hlr htop { top with input := top.input ++ [x] } rfl rfl rest .waitOne []
              (by simp) rfl s' ?_ ?_ (by intro hh; cases hh) ?_⟩
            · rw [← hst]; simp [send, hbs]
            · rw [curInput_not_run (by rw [← hst]; simp [send])]
              simpa using hlogx
            · simp only [WfClause]; exact ⟨hwf, trivial⟩
          · -- NewInput on the next batch of the stack
            rename_i hfull hroom hemp
            simp only [Option.some.injEq] at hst
            cases lr with
            | nil => simp at hemp
            | cons t2 lr2 =>
              have hs' : s' = { s with prog := rest, rpc := .run, filterQ := s.filterQ ++ [some { top with input := top.input ++ [x] }],
                                       localRead := fill t2 (s.seqNo + 1) :: lr2, seqNo := s.seqNo + 1 } := by
                rw [← hst]; simp [send, newInput, hbs, hrpc]
              have hcur2 : curInput s' = [] := by rw [hs']; simp [curInput, fill]
              refine ⟨c ++ [top.input ++ [x]], inv_send h hlr htop { top with input := top.input ++ [x] } rfl rfl rest .run
                (fill t2 (s.seqNo + 1) :: lr2) ?_ (by simp) s' hs' ?_ ?_ ?_⟩
              · intro b hb
                rcases List.mem_cons.mp hb with rfl | hb
                · exact h.hhome t2 (by rw [hlr]; simp)
                · exact h.hhome b (by rw [hlr]; simp [hb])
              · rw [hcur2]; simpa using hlogx
              · intro _; exact ⟨_, _, rfl, rfl⟩
              · rw [hcur2]
                have ht := h.htotal
                rw [hlr] at ht
                have : ¬ (lr2.length + 1 = cfg.queue) := by simp only [List.length_cons] at ht; omega
                simp only [WfClause, List.length_cons, this, decide_false, Bool.false_and, Bool.not_false]
                exact hwf
        · simp at hst
      · -- the batch is not full
        rename_i hnf
        simp only [Option.some.injEq] at hst
        subst hst
        have hcur' : curInput ({ s with prog := rest, localRead := { top with input := top.input ++ [x] } :: lr } : State α)
            = top.input ++ [x] := by simp [curInput, hrpc]
        refine ⟨c, { h with hhome := ?_, htotal := ?_, hlog := ?_, hrun := ?_, hwf := ?_ }⟩
        · intro b hb
          simp only [List.cons_append, List.mem_cons] at hb
          rcases hb with rfl | hb
          · exact h.hhome top (by rw [hlr]; simp)
          · exact h.hhome b (by rw [hlr]; simp only [List.cons_append, List.mem_cons]; exact Or.inr hb)
        · have := h.htotal; rw [hlr] at this; simpa [inflight] using this
        · rw [hcur']; exact hlogx
        · intro _; exact ⟨_, _, rfl, htop⟩
        · show WfClause cfg.queue s.rpc _ _ rest
          rw [hcur', hrpc]
          have e : (top.input ++ [x]).isEmpty = false := by simp
          simp only [WfClause, e, Bool.and_false, Bool.not_false]
          exact hwf
    · -- flush
      rename_i rest hprog
      split at hst
      · simp at hst
      rename_i top2 lr2 hlr2
      have e := hlr.symm.trans hlr2
      injection e with e1 e2; subst e1; subst e2
      simp only at hst
      rw [hprog] at hwf
      simp only [wf] at hwf
      split at hst
      · -- nothing to send
        rename_i hemp
        simp only [Option.some.injEq] at hst
        subst hst
        have hemp' : top.input = [] := by simpa using hemp
        refine ⟨c, { h with hlog := ?_, hrun := (by intro hh; cases hh), hwf := ?_ }⟩
        · have := h.hlog
          rw [hcur, hemp', hprog] at this
          simpa [curInput, seqLog] using this
        · simp only [WfClause]; exact hwf
      · split at hst
        · rename_i hne hroom
          simp only [Option.some.injEq] at hst
          have hs' : s' = { s with prog := rest, rpc := .waitAll, filterQ := s.filterQ ++ [some top], localRead := lr,
                                   seqNo := s.seqNo + 1 } := by
            rw [← hst]; simp [send, hbs]
          refine ⟨c ++ [top.input], inv_send h hlr htop top rfl rfl rest .waitAll lr ?_ rfl s' hs' ?_ (by intro hh; cases hh) ?_⟩
          · intro b hb; exact h.hhome b (by rw [hlr]; simp [hb])
          · rw [curInput_not_run (by rw [hs']; simp)]
            have := h.hlog
            rw [hcur, hprog] at this
            simpa [seqLog, List.append_assoc] using this
          · simp only [WfClause]; exact hwf
        · simp at hst
  · -- waitOne
    rename_i hrpc
    have hwf := h.hwf
    rw [hrpc] at hwf
    simp only [WfClause] at hwf
    split at hst
    · simp at hst
    · rename_i b tr htr
      simp only [Option.some.injEq] at hst
      have hs' : s' = { s with toRead := tr, localRead := [fill b s.seqNo], rpc := .run } := by
        rw [← hst]; simp [newInput, hbs, hwf.2]
      subst hs'
      have hcur' : curInput ({ s with toRead := tr, localRead := [fill b s.seqNo], rpc := .run } : State α) = [] := by
        simp [curInput, fill]
      refine ⟨c, { h with hhome := ?_, htotal := ?_, hlog := ?_, hrun := ?_, hwf := ?_ }⟩
      · intro b' hb'
        simp only [List.cons_append, List.nil_append, List.mem_cons] at hb'
        rcases hb' with rfl | hb'
        · exact h.hhome b (by rw [htr]; simp)
        · exact h.hhome b' (by rw [htr]; simp [hb'])
      · have := h.htotal; rw [htr, hwf.2] at this; simp only [List.length_cons, List.length_nil] at this ⊢
        simp only [inflight] at this ⊢; omega
      · rw [hcur']
        have := h.hlog
        rw [curInput_not_run (by rw [hrpc]; simp)] at this
        exact this
      · intro _; exact ⟨_, _, rfl, rfl⟩
      · show WfClause cfg.queue .run _ _ s.prog
        rw [hcur']; simp only [WfClause]; exact wf_of_true hwf.1
  · -- waitAll
    rename_i hrpc
    have hwf := h.hwf
    rw [hrpc] at hwf
    simp only [WfClause] at hwf
    split at hst
    · split at hst
      · simp at hst
      · rename_i hlt b tr htr
        simp only [Option.some.injEq] at hst
        subst hst
        refine ⟨c, { h with hhome := ?_, htotal := ?_, hlog := ?_, hrun := ?_, hwf := ?_ }⟩
        · intro b' hb'
          simp only [List.cons_append, List.mem_cons] at hb'
          rcases hb' with rfl | hb'
          · exact h.hhome b' (by rw [htr]; simp)
          · rcases List.mem_append.mp hb' with hb' | hb'
            · exact h.hhome b' (by simp [hb'])
            · exact h.hhome b' (by rw [htr]; simp [hb'])
        · have := h.htotal; rw [htr] at this; simp only [List.length_cons] at this ⊢
          simp only [inflight] at this ⊢; omega
        · have := h.hlog
          rw [curInput_not_run (by rw [hrpc]; simp)] at this
          rw [curInput_not_run (by simp [hrpc])]
          exact this
        · intro hh; simp [hrpc] at hh
        · show WfClause cfg.queue s.rpc _ _ s.prog
          rw [hrpc]; simp only [WfClause]; exact hwf
    · rename_i hge
      simp only [Option.some.injEq] at hst
      have ht := h.htotal
      have hlen : s.localRead.length = cfg.queue := by omega
      cases hlr : s.localRead with
      | nil => rw [hlr] at hlen; simp at hlen; omega
      | cons top lr =>
        have hs' : s' = { s with localRead := fill top s.seqNo :: lr, rpc := .run } := by
          rw [← hst]; simp [newInput, hbs, hlr]
        subst hs'
        have hcur' : curInput ({ s with localRead := fill top s.seqNo :: lr, rpc := .run } : State α) = [] := by
          simp [curInput, fill]
        refine ⟨c, { h with hhome := ?_, htotal := ?_, hlog := ?_, hrun := ?_, hwf := ?_ }⟩
        · intro b' hb'
          simp only [List.cons_append, List.mem_cons] at hb'
          rcases hb' with rfl | hb'
          · exact h.hhome top (by rw [hlr]; simp)
          · exact h.hhome b' (by rw [hlr]; simp only [List.cons_append, List.mem_cons]; exact Or.inr hb')
        · rw [hlr] at ht; simpa [inflight] using ht
        · rw [hcur']
          have := h.hlog
          rw [curInput_not_run (by rw [hrpc]; simp)] at this
          exact this
        · intro _; exact ⟨_, _, rfl, rfl⟩
        · show WfClause cfg.queue .run _ _ s.prog
          rw [hcur']
          rw [hlr] at hlen
          have e : (fill top s.seqNo :: lr).length = cfg.queue := by simpa using hlen
          simpa [WfClause, e] using hwf
  all_goals
    -- the destructors: only poisons and the reader's own state change
    first
    | cases hst
    | skip
  all_goals
    rename_i hrpc
    have hwf := h.hwf
    rw [hrpc] at hwf
    simp only [WfClause] at hwf
    split at hst
    · simp only [Option.some.injEq] at hst
      subst hst
      refine ⟨c, { h with hcnt := ?_, hchunk := ?_, hunf := ?_, hfil := ?_, htotal := ?_, hlog := ?_, hrun := ?_, hwf := ?_ }⟩
      · simpa [inflight] using h.hcnt
      · simpa [inflight] using h.hchunk
      · simpa using h.hunf
      · simpa using h.hfil
      · simpa [inflight] using h.htotal
      · have := h.hlog
        rw [curInput_not_run (by rw [hrpc]; simp)] at this
        rw [curInput_not_run (by simp)]
        exact this
      · intro hh; simp at hh
      · simp only [WfClause]; exact hwf
    · simp at hst

/-! ### a filter worker -/

theorem inv_worker {cfg : Cfg α} {p : List (ROp α)} {c : List (List α)} {s s' : State α} (i : Nat)
    (h : Inv cfg p c s) (hst : workerStep cfg s i = some s') : Inv cfg p c s' := by
  unfold workerStep at hst
  split at hst
  · -- idle: Consume
    rename_i hw
    split at hst
    · simp at hst
    · -- a batch
      rename_i b q hq
      simp only [Option.some.injEq] at hst
      subst hst
      obtain ⟨h1, h2, h3, _⟩ := held_set_take b hw
      refine { h with hcnt := ?_, hchunk := ?_, hunf := ?_, htotal := ?_, hlog := ?_ }
      · intro k
        have := h.hcnt k
        simp only [inflight, hq, somes_cons_some, cntL_append, cntL_cons] at this ⊢
        rw [h1 k]; omega
      · intro b' hb'
        apply h.hchunk
        simp only [inflight, hq, somes_cons_some, List.mem_append, List.mem_cons, h3] at hb' ⊢
        rcases hb' with ((hb' | hb' | hb') | hb') | hb' <;> simp [hb']
      · intro b' hb'
        apply h.hunf
        simp only [hq, somes_cons_some, List.mem_append, List.mem_cons, h3] at hb' ⊢
        rcases hb' with hb' | hb' | hb' <;> simp [hb']
      · have := h.htotal
        simp only [inflight, hq, somes_cons_some, List.length_append, List.length_cons] at this ⊢
        rw [h2]; omega
      · exact h.hlog
    · -- poison: exit
      rename_i q hq
      simp only [Option.some.injEq] at hst
      subst hst
      obtain ⟨h1, _⟩ := held_set_exit hw
      refine { h with hcnt := ?_, hchunk := ?_, hunf := ?_, htotal := ?_, hlog := ?_ }
      · intro k
        have := h.hcnt k
        simp only [inflight, hq, somes_cons_none] at this ⊢
        rw [h1]; exact this
      · intro b' hb'
        apply h.hchunk
        simp only [inflight, hq, somes_cons_none] at hb' ⊢
        rw [h1] at hb'; exact hb'
      · intro b' hb'
        apply h.hunf
        simp only [hq, somes_cons_none] at hb' ⊢
        rw [h1] at hb'; exact hb'
      · have := h.htotal
        simp only [inflight, hq, somes_cons_none] at this ⊢
        rw [h1]; exact this
      · exact h.hlog
  · -- holding: CallFilter and Produce
    rename_i b hw
    split at hst
    · simp only [Option.some.injEq] at hst
      subst hst
      obtain ⟨h1, h2, h3, h4, _⟩ := held_set_put hw
      have hclean : b.out = {} := h.hunf b (by simp [h4])
      obtain ⟨g1, g2, g3, g4, _⟩ := callFilter_clean cfg b hclean
      refine { h with hcnt := ?_, hchunk := ?_, hunf := ?_, hfil := ?_, htotal := ?_, hlog := ?_, hub := ?_ }
      · intro k
        have := h.hcnt k
        simp only [inflight, somes_append, somes_cons_some, somes_nil, cntL_append, cntL_cons, cntL_nil] at this ⊢
        rw [h1 k] at this
        rw [g3]; omega
      · intro b' hb'
        simp only [inflight, somes_append, somes_cons_some, somes_nil, List.mem_append, List.mem_cons, List.not_mem_nil, or_false] at hb'
        have hbc : c[b.seq]? = some b.input := h.hchunk b (by simp [inflight, h4])
        rcases hb' with ((hb' | hb') | (hb' | hb')) | hb'
        · exact h.hchunk b' (by simp [inflight, hb'])
        · exact h.hchunk b' (by simp [inflight, h3 b' hb'])
        · exact h.hchunk b' (by simp [inflight, hb'])
        · rw [hb', g3, g4]; exact hbc
        · exact h.hchunk b' (by simp [inflight, hb'])
      · intro b' hb'
        apply h.hunf
        simp only [List.mem_append] at hb' ⊢
        rcases hb' with hb' | hb'
        · exact Or.inl hb'
        · exact Or.inr (h3 b' hb')
      · intro b' hb'
        simp only [somes_append, somes_cons_some, somes_nil, List.mem_append, List.mem_cons, List.not_mem_nil, or_false] at hb'
        rcases hb' with (hb' | hb') | hb'
        · exact h.hfil b' (by simp [hb'])
        · rw [hb', g2, g4]; rfl
        · exact h.hfil b' (by simp [hb'])
      · have := h.htotal
        simp only [inflight, somes_append, somes_cons_some, somes_nil, List.length_append, List.length_cons, List.length_nil] at this ⊢
        omega
      · exact h.hlog
      · simp [h.hub, g1]
    · simp at hst
  · simp at hst

/-! ### the output worker -/

theorem inv_out {cfg : Cfg α} (hv : cfg.variant = Variant.fixed) {p : List (ROp α)} {c : List (List α)}
    {s s' : State α} (h : Inv cfg p c s) (hst : outStep cfg s = some s') : Inv cfg p c s' := by
  unfold outStep at hst
  split at hst
  · simp at hst
  split at hst
  · -- the front of `ordering_` is ready: Flush it and recycle the batch
    rename_i b rest hord
    split at hst
    · simp only [Option.some.injEq] at hst
      subst hst
      have hbseq : b.seq = s.baseSeq := by
        have := h.hord 0 b (by rw [hord]; rfl)
        simpa using this
      have hbin : b ∈ inflight s := by simp [inflight, hord]
      have hlt : s.baseSeq < s.seqNo := by
        have h1 := h.hcnt s.baseSeq
        have h2 := cntL_mem_pos hbin hbseq
        by_cases hh : s.baseSeq < s.seqNo
        · exact hh
        · simp [hh] at h1; omega
      refine { h with hbase := ?_, hcnt := ?_, hchunk := ?_, hhome := ?_, hfil := ?_, hord := ?_, htotal := ?_, hlog := ?_ }
      · exact hlt
      · intro k
        have := h.hcnt k
        simp only [inflight, hord, somes_cons_some, cntL_append, cntL_cons] at this ⊢
        rw [hbseq] at this
        split at this <;> split <;> split at this <;> omega
      · intro b' hb'
        apply h.hchunk
        simp only [inflight, hord, somes_cons_some, List.mem_append, List.mem_cons] at hb' ⊢
        rcases hb' with hb' | hb'
        · exact Or.inl hb'
        · exact Or.inr (Or.inr hb')
      · intro b' hb'
        simp only [List.mem_append, List.mem_cons, List.not_mem_nil, or_false] at hb'
        rcases hb' with hb' | hb' | hb'
        · exact h.hhome b' (by simp [hb'])
        · exact h.hhome b' (by simp [hb'])
        · rw [hb']; exact flushed_fixed _ hv _
      · intro b' hb'
        apply h.hfil
        simp only [hord, somes_cons_some, List.mem_append, List.mem_cons] at hb' ⊢
        rcases hb' with hb' | hb'
        · exact Or.inl hb'
        · exact Or.inr (Or.inr hb')
      · intro i b' hb'
        have := h.hord (i+1) b' (by rw [hord]; simpa using hb')
        simp only at this ⊢; omega
      · have := h.htotal
        simp only [inflight, hord, somes_cons_some, List.length_append, List.length_cons, List.length_nil] at this ⊢
        omega
      · have hl := h.hlog
        have hc : c[s.baseSeq]? = some b.input := by rw [← hbseq]; exact h.hchunk b hbin
        have hlen : s.baseSeq < c.length := by rw [h.hseq]; exact hlt
        have hd : c.drop s.baseSeq = b.input :: c.drop (s.baseSeq + 1) := by
          rw [List.drop_eq_getElem_cons hlen]
          rw [List.getElem?_eq_getElem hlen] at hc
          injection hc with hc; rw [hc]
        have he : b.out.events = evs cfg.f b.input := h.hfil b (by simp [hord])
        rw [hd] at hl
        have hcur : curInput ({ s with out := s.out ++ b.out.events, toRead := s.toRead ++ [{ b with out := b.out.flushed cfg.variant }], ordering := rest, baseSeq := s.baseSeq + 1 } : State α) = curInput s := rfl
        rw [hcur, he]
        simpa [List.flatMap_cons, List.append_assoc] using hl
    · simp at hst
  · -- Consume the next request
    rename_i hfront
    split at hst
    · simp at hst
    · -- poison
      rename_i q hq
      simp only [Option.some.injEq] at hst
      subst hst
      refine { h with hcnt := ?_, hchunk := ?_, hfil := ?_, htotal := ?_, hlog := ?_ }
      · simpa [inflight, hq] using h.hcnt
      · simpa [inflight, hq] using h.hchunk
      · simpa [hq] using h.hfil
      · simpa [inflight, hq] using h.htotal
      · exact h.hlog
    · -- a batch: file it at position seq - base
      rename_i b q hq
      simp only [Option.some.injEq] at hst
      subst hst
      have hbin : b ∈ inflight s := by simp [inflight, hq]
      have hrange : s.baseSeq ≤ b.seq ∧ b.seq < s.seqNo := by
        have h1 := h.hcnt b.seq
        have h2 := cntL_mem_pos hbin rfl
        by_cases hh : s.baseSeq ≤ b.seq ∧ b.seq < s.seqNo
        · exact hh
        · simp [hh] at h1; omega
      -- the slot is free
      have hslot : (s.ordering ++ List.replicate (b.seq - s.baseSeq + 1 - s.ordering.length) none)[b.seq - s.baseSeq]? = some none := by
        by_cases hpos : b.seq - s.baseSeq < s.ordering.length
        · rw [List.getElem?_append_left hpos]
          rw [List.getElem?_eq_getElem hpos]
          cases hx : s.ordering[b.seq - s.baseSeq] with
          | none => rfl
          | some d =>
            exfalso
            have hd : s.ordering[b.seq - s.baseSeq]? = some (some d) := by
              rw [List.getElem?_eq_getElem hpos, hx]
            have hdseq := h.hord _ d hd
            have hdmem : d ∈ somes s.ordering := by
              simp only [somes, List.mem_filterMap, id]
              exact ⟨some d, List.mem_of_getElem? hd, rfl⟩
            have h1 := h.hcnt b.seq
            have hc1 : 0 < cntL b.seq (somes s.ordering) := cntL_mem_pos hdmem (by omega)
            simp only [inflight, hq, somes_cons_some, cntL_append, cntL_cons, if_true] at h1
            split at h1 <;> omega
        · rw [List.getElem?_append_right (by omega)]
          rw [List.getElem?_replicate]
          have : b.seq - s.baseSeq - s.ordering.length < b.seq - s.baseSeq + 1 - s.ordering.length := by omega
          simp [this]
      obtain ⟨l1, l2, hl1, hl2⟩ := somes_set_none b hslot
      simp only [somes_append, somes_replicate_none, List.append_nil] at hl1
      refine { h with hcnt := ?_, hchunk := ?_, hfil := ?_, hord := ?_, htotal := ?_, hlog := ?_ }
      · intro k
        have := h.hcnt k
        simp only [inflight, hq, somes_cons_some, cntL_append, cntL_cons] at this ⊢
        rw [hl2]; rw [hl1] at this
        simp only [cntL_append, cntL_cons] at this ⊢
        omega
      · intro b' hb'
        apply h.hchunk
        simp only [inflight, hq, somes_cons_some, List.mem_append, List.mem_cons] at hb' ⊢
        rw [hl2] at hb'; rw [hl1]
        simp only [List.mem_append, List.mem_cons] at hb' ⊢
        rcases hb' with ((hb' | hb') | hb') | (hb' | hb' | hb') <;> simp [hb']
      · intro b' hb'
        apply h.hfil
        simp only [hq, somes_cons_some, List.mem_append, List.mem_cons] at hb' ⊢
        rw [hl2] at hb'; rw [hl1]
        simp only [List.mem_append, List.mem_cons] at hb' ⊢
        rcases hb' with hb' | (hb' | hb' | hb') <;> simp [hb']
      · intro i b' hb'
        simp only at hb'
        rw [List.getElem?_set] at hb'
        split at hb'
        · rename_i hi
          split at hb'
          · injection hb' with hb'; injection hb' with hb'
            subst hb'; subst hi; simp only; omega
          · cases hb'
        · rename_i hi
          by_cases hil : i < s.ordering.length
          · rw [List.getElem?_append_left hil] at hb'
            exact h.hord i b' hb'
          · rw [List.getElem?_append_right (by omega), List.getElem?_replicate] at hb'
            split at hb' <;> cases hb'
      · have := h.htotal
        simp only [inflight, hq, somes_cons_some, List.length_append, List.length_cons] at this ⊢
        rw [hl2]; rw [hl1] at this
        simp only [List.length_append, List.length_cons] at this ⊢
        omega
      · exact h.hlog

/-! ### every step, the initial state, and the safety theorem -/

theorem inv_step {cfg : Cfg α} (hv : cfg.variant = Variant.fixed) (hq : 1 ≤ cfg.queue) {p : List (ROp α)}
    {c : List (List α)} {s s' : State α} (t : Tid) (h : Inv cfg p c s) (hst : step cfg s t = some s') :
    ∃ c', Inv cfg p c' s' := by
  cases t with
  | reader => exact inv_reader hv hq h hst
  | outw => exact ⟨c, inv_out hv h hst⟩
  | worker i => exact ⟨c, inv_worker i h hst⟩

theorem inv_init {cfg : Cfg α} (hv : cfg.variant = Variant.fixed) (hq : 1 ≤ cfg.queue) (p : List (ROp α))
    (hp : wf false p = true) : Inv cfg p [] (init cfg p) := by
  have hbs : cfg.variant.burnSeq = false := by rw [hv]; rfl
  obtain ⟨n, hn⟩ : ∃ n, cfg.queue = n + 1 := ⟨cfg.queue - 1, by omega⟩
  have hrange : (List.range cfg.queue).reverse = n :: (List.range n).reverse := by
    rw [hn, List.range_succ]; simp
  have hinit : init cfg p =
      { prog := p, rpc := .run,
        localRead := fill { id := n, seq := 0, input := [] } 0 :: (List.range n).reverse.map fun i => { id := i, seq := 0, input := [] },
        seqNo := 0, toRead := [], filterQ := [], workers := List.replicate cfg.workers .idle,
        doneQ := [], ordering := [], baseSeq := 0, oExited := false, out := [], ub := false } := by
    simp [init, newInput, hrange, hbs]
  rw [hinit]
  refine { hseq := rfl, hbase := Nat.le_refl _, hcnt := ?_, hchunk := ?_, hhome := ?_, hunf := ?_, hfil := ?_,
           hord := ?_, htotal := ?_, hlog := ?_, hub := rfl, hrun := ?_, hwf := ?_ }
  · intro k; simp [inflight]
  · intro b hb; simp [inflight] at hb
  · intro b hb
    simp only [List.append_nil, List.mem_cons, List.mem_map] at hb
    rcases hb with rfl | ⟨i, _, rfl⟩ <;> rfl
  · intro b hb; simp at hb
  · intro b hb; simp at hb
  · intro i b hb; simp at hb
  · simp [inflight, hn]
  · simp [curInput, fill]
  · intro _; exact ⟨_, _, rfl, rfl⟩
  · simp only [WfClause, curInput, fill, List.length_cons, List.length_map, List.length_reverse, List.length_range, hn,
      decide_true, List.isEmpty_nil, Bool.and_self, Bool.not_true]
    exact hp

theorem reach_inv {cfg : Cfg α} (hv : cfg.variant = Variant.fixed) (hq : 1 ≤ cfg.queue) {p : List (ROp α)}
    (hp : wf false p = true) {s : State α} (hr : Reach cfg p s) : ∃ c, Inv cfg p c s := by
  induction hr with
  | init => exact ⟨[], inv_init hv hq p hp⟩
  | step t _ hst ih =>
    obtain ⟨c, hc⟩ := ih
    exact inv_step hv hq t hc hst

/-- the calls made on the output when the run has finished -/
theorem inv_terminal {cfg : Cfg α} {p : List (ROp α)} {c : List (List α)} {s : State α} (h : Inv cfg p c s)
    (hd : s.rpc = .done) : s.out = seqLog cfg.f p ∧ s.ub = false := by
  have hwf := h.hwf
  rw [hd] at hwf
  simp only [WfClause] at hwf
  obtain ⟨_, hdrop, _⟩ := h.home hwf.2
  have hl := h.hlog
  rw [hdrop, hwf.1, curInput_not_run (by rw [hd]; simp)] at hl
  exact ⟨by simpa [seqLog] using hl, h.hub⟩

end KV.FilterCtl
