import Proofs.ProbingBuildRep
/-! Semantic invariants of the probing builder in general (blanks included): each order's table holds the stored keys
of that order (real lines and hallucinated blanks, in insertion order) with the payload `wantW` determined by the
model and the set `S` of all stored keys. -/
namespace KV.ProbingBuild
open KV.Arpa KV.Table KV.Score KV.ProbingLM

abbrev Key := List Word

def keysOf (S : List Key) (m : Nat) : List Key := S.filter (fun k => k.length == m)

def endsInK (S : List Key) (h : Key) : Bool := S.any fun k => k.length == h.length + 1 && k.take h.length == h
def startsWithK (S : List Key) (h : Key) : Bool := S.any fun k => k.length == h.length + 1 && k.drop 1 == h

/-- the payload before any mark: a real line's weights, or a blank carrying the backed-off score -/
def baseW (a : Arpa) (k : Key) : W :=
  match a.gram k with
  | some e => lineW e
  | none => { mag := (score a k.tail (k.headD 0)).abs, neg := true, backoff := 0, xr := false, rest := 0 }

def wantW (a : Arpa) (S : List Key) (k : Key) : W :=
  { (baseW a k) with neg := (baseW a k).neg && !endsInK S k, xr := (baseW a k).xr || startsWithK S k }

theorem baseW_neg (a : Arpa) (k : Key) : (baseW a k).neg = true := by
  unfold baseW; cases a.gram k <;> rfl

theorem baseW_xr (a : Arpa) (k : Key) (h : (baseW a k).backoff ≠ 0) : (baseW a k).xr = true := by
  unfold baseW at h ⊢
  cases hg : a.gram k with
  | none => simp [hg] at h
  | some e => simp only [hg, lineW] at h ⊢; simpa using h

theorem keysOf_append_same (S : List Key) (g : Key) (m : Nat) (h : g.length = m) : keysOf (S ++ [g]) m = keysOf S m ++ [g] := by
  simp [keysOf, List.filter_append, h]
theorem keysOf_append_other (S : List Key) (g : Key) (m : Nat) (h : g.length ≠ m) : keysOf (S ++ [g]) m = keysOf S m := by
  simp [keysOf, List.filter_append, h]
theorem keysOf_len (S : List Key) (m : Nat) (k : Key) (hk : k ∈ keysOf S m) : k.length = m := by
  simp [keysOf] at hk; exact hk.2
theorem keysOf_mem (S : List Key) (m : Nat) (k : Key) (hk : k ∈ keysOf S m) : k ∈ S := by
  simp [keysOf] at hk; exact hk.1

theorem endsInK_append (S : List Key) (g h : Key) :
    endsInK (S ++ [g]) h = (endsInK S h || (g.length == h.length + 1 && g.take h.length == h)) := by
  simp [endsInK, List.any_append]
theorem startsWithK_append (S : List Key) (g h : Key) :
    startsWithK (S ++ [g]) h = (startsWithK S h || (g.length == h.length + 1 && g.drop 1 == h)) := by
  simp [startsWithK, List.any_append]

theorem wantW_append_other (a : Arpa) (S : List Key) (g h : Key) (hl : g.length ≠ h.length + 1) :
    wantW a (S ++ [g]) h = wantW a S h := by
  have : (g.length == h.length + 1) = false := by simpa using hl
  simp [wantW, endsInK_append, startsWithK_append, this]

structure OrdG (combine : Nat → Word → Nat) (a : Arpa) (S : List Key) (m cap : Nat) (o : Ord) (M : Nat → Option Nat) : Prop where
  inv : OrdInv o M
  ent : o.t.entries = (keysOf S m).length
  cap : o.t.N = cap
  plen : o.pay.length = (keysOf S m).length
  key : ∀ j (hj : j < (keysOf S m).length), M (hashOf combine (keysOf S m)[j]) = some j
  pay : ∀ j (hj : j < (keysOf S m).length), o.pay.getD j default = wantW a S (keysOf S m)[j]
  only : ∀ k i, M k = some i → ∃ (hj : i < (keysOf S m).length), k = hashOf combine (keysOf S m)[i]

theorem ordG_empty (combine : Nat → Word → Nat) (a : Arpa) (m cap : Nat) (hc : 0 < cap) :
    OrdG combine a [] m cap (emptyOrd cap) (fun _ => none) :=
  ⟨emptyOrd_inv cap hc, rfl, rfl, rfl, fun j hj => by simp [keysOf] at hj, fun j hj => by simp [keysOf] at hj,
   fun _ _ h => by cases h⟩

theorem OrdG.idx_unique {combine : Nat → Word → Nat} {a : Arpa} {S : List Key} {m cap : Nat} {o : Ord} {M : Nat → Option Nat}
    (h : OrdG combine a S m cap o M) (j j' : Nat) (hj : j < (keysOf S m).length) (hj' : j' < (keysOf S m).length)
    (he : (keysOf S m)[j] = (keysOf S m)[j']) : j = j' := by
  have h1 := h.key j hj
  have h2 := h.key j' hj'
  rw [he, h2] at h1
  injection h1 with h1
  exact h1.symm

/-- a key that is in `S` is found at its index -/
theorem OrdG.find_mem {combine : Nat → Word → Nat} {a : Arpa} {S : List Key} {m cap : Nat} {o : Ord} {M : Nat → Option Nat}
    (h : OrdG combine a S m cap o M) (k : Key) (hk : k ∈ S) (hl : k.length = m) :
    ∃ j, ∃ (hj : j < (keysOf S m).length), (keysOf S m)[j] = k ∧ M (hashOf combine k) = some j := by
  have : k ∈ keysOf S m := by simp [keysOf, hk, hl]
  obtain ⟨j, hj, he⟩ := List.mem_iff_getElem.mp this
  exact ⟨j, hj, he, by rw [← he]; exact h.key j hj⟩

/-- a key whose hash is not among the stored hashes is absent -/
theorem OrdG.find_fresh {combine : Nat → Word → Nat} {a : Arpa} {S : List Key} {m cap : Nat} {o : Ord} {M : Nat → Option Nat}
    (h : OrdG combine a S m cap o M) (g : Key) (hfresh : ∀ k ∈ keysOf S m, hashOf combine k ≠ hashOf combine g) :
    M (hashOf combine g) = none := by
  cases hm : M (hashOf combine g) with
  | none => rfl
  | some i =>
    obtain ⟨hj, hk⟩ := h.only _ i hm
    exact absurd hk.symm (hfresh _ (List.getElem_mem hj))

/-- appending a new key of this order (state-based: the table already contains it with its final payload) -/
theorem ordG_append {combine : Nat → Word → Nat} {a : Arpa} {S : List Key} {m cap : Nat} {o : Ord} {M : Nat → Option Nat}
    (h : OrdG combine a S m cap o M) (g : Key) (hg : g.length = m)
    (hfresh : ∀ k ∈ keysOf S m, hashOf combine k ≠ hashOf combine g)
    (o' : Ord) (oi' : OrdInv o' (KV.Probing.upd M (hashOf combine g) o.pay.length))
    (hpay' : o'.pay = o.pay ++ [wantW a (S ++ [g]) g]) (hN' : o'.t.N = o.t.N) (hent' : o'.t.entries = o.t.entries + 1) :
    OrdG combine a (S ++ [g]) m cap o' (KV.Probing.upd M (hashOf combine g) o.pay.length) := by
  have hL := keysOf_append_same S g m hg
  refine ⟨oi', by rw [hent', h.ent, hL]; simp, by rw [hN', h.cap], by rw [hpay', hL]; simp [h.plen], ?_, ?_, ?_⟩
  · intro j hj
    simp only [hL] at hj ⊢
    simp only [List.length_append, List.length_cons, List.length_nil] at hj
    by_cases hjl : j < (keysOf S m).length
    · rw [List.getElem_append_left hjl]
      unfold KV.Probing.upd
      have hne : hashOf combine (keysOf S m)[j] ≠ hashOf combine g := hfresh _ (List.getElem_mem hjl)
      simp [hne, h.key j hjl]
    · have hje : j = (keysOf S m).length := by omega
      subst hje
      simp [KV.Probing.upd, h.plen]
  · intro j hj
    simp only [hL] at hj ⊢
    simp only [List.length_append, List.length_cons, List.length_nil] at hj
    rw [hpay']
    by_cases hjl : j < (keysOf S m).length
    · rw [List.getElem_append_left hjl]
      rw [List.getD_eq_getElem?_getD, List.getElem?_append_left (by rw [h.plen]; exact hjl), ← List.getD_eq_getElem?_getD]
      rw [h.pay j hjl]
      have hlen := keysOf_len S m _ (List.getElem_mem hjl)
      exact (wantW_append_other a S g _ (by rw [hlen, hg]; omega)).symm
    · have hje : j = (keysOf S m).length := by omega
      subst hje
      rw [List.getD_eq_getElem?_getD, List.getElem?_append_right (by rw [h.plen]; exact Nat.le_refl _)]
      simp [h.plen]
  · intro k i hk
    unfold KV.Probing.upd at hk
    split at hk
    · cases hk
      rename_i hkk
      refine ⟨by rw [hL]; simp [h.plen], ?_⟩
      simp [hL, h.plen, hkk]
    · obtain ⟨hj, hkk⟩ := h.only k i hk
      refine ⟨by rw [hL]; simp; omega, ?_⟩
      simp only [hL]
      rw [List.getElem_append_left hj]; exact hkk

theorem ordG_frame {combine : Nat → Word → Nat} {a : Arpa} {S : List Key} {m cap : Nat} {o : Ord} {M : Nat → Option Nat}
    (h : OrdG combine a S m cap o M) (g : Key) (h1 : g.length ≠ m) (h2 : g.length ≠ m + 1) :
    OrdG combine a (S ++ [g]) m cap o M := by
  have hL := keysOf_append_other S g m h1
  refine ⟨h.inv, by rw [hL]; exact h.ent, h.cap, by rw [hL]; exact h.plen, ?_, ?_, ?_⟩
  · intro j hj; simp only [hL] at hj ⊢; exact h.key j hj
  · intro j hj
    simp only [hL] at hj ⊢
    rw [h.pay j hj]
    have hlen := keysOf_len S m _ (List.getElem_mem hj)
    exact (wantW_append_other a S g _ (by rw [hlen]; exact h2)).symm
  · intro k i hk
    obtain ⟨hj, hkk⟩ := h.only k i hk
    exact ⟨by rw [hL]; exact hj, by simp only [hL]; exact hkk⟩

/-- the same table with a pointwise-equal payload list -/
theorem ordG_congr {combine : Nat → Word → Nat} {a : Arpa} {S : List Key} {m cap : Nat} {o : Ord} {M : Nat → Option Nat}
    (h : OrdG combine a S m cap o M) (p' : List W) (hl : p'.length = o.pay.length)
    (hp : ∀ j, p'.getD j default = o.pay.getD j default) : OrdG combine a S m cap (withPay o p') M :=
  ⟨⟨h.inv.inv, h.inv.abs, fun k i hk => by show i < p'.length; rw [hl]; exact h.inv.idx k i hk⟩, h.ent, h.cap,
   by show p'.length = _; rw [hl]; exact h.plen, h.key,
   fun j hj => by show p'.getD j default = _; rw [hp j]; exact h.pay j hj, h.only⟩

end KV.ProbingBuild

namespace KV.ProbingBuild
open KV.Arpa KV.Table KV.Score KV.ProbingLM

/-- a new key `g` of the next order marks its suffix (sign cleared) and its context (extension bit) in this table -/
theorem ordG_mark {combine : Nat → Word → Nat} {a : Arpa} {S : List Key} {m cap : Nat} {o : Ord} {M : Nat → Option Nat}
    (h : OrdG combine a S m cap o M) (g : Key) (hg : g.length = m + 1)
    (js : Nat) (hjs : js < (keysOf S m).length) (hsuf : (keysOf S m)[js] = g.take m)
    (ic : Nat) (hic : ic < (keysOf S m).length) (hctx : (keysOf S m)[ic] = g.drop 1) :
    OrdG combine a (S ++ [g]) m cap (withPay o (markPay o.pay js ic)) M := by
  have hL := keysOf_append_other S g m (by omega)
  refine ⟨ordInv_setPay (ordInv_setPay h.inv _ _) _ _, by rw [hL]; exact h.ent, h.cap,
    by rw [hL]; simp [withPay, markPay, h.plen], ?_, ?_, ?_⟩
  · intro j hj; simp only [hL] at hj ⊢; exact h.key j hj
  · intro j hj
    simp only [hL] at hj ⊢
    have hjs' : js < o.pay.length := by rw [h.plen]; exact hjs
    have hic' : ic < o.pay.length := by rw [h.plen]; exact hic
    have hlen := keysOf_len S m _ (List.getElem_mem hj)
    have hA := h.pay j hj
    have ht : (g.take (keysOf S m)[j].length == (keysOf S m)[j]) = decide (j = js) := by
      rw [hlen]
      by_cases hjj : j = js
      · subst hjj; simp [hsuf]
      · have : ¬ (g.take m = (keysOf S m)[j]) := fun hc => hjj (h.idx_unique j js hj hjs (by rw [← hc, hsuf]))
        simp [hjj, this]
    have hd : (g.drop 1 == (keysOf S m)[j]) = decide (j = ic) := by
      by_cases hjj : j = ic
      · subst hjj; simp [hctx]
      · have : ¬ (g.drop 1 = (keysOf S m)[j]) := fun hc => hjj (h.idx_unique j ic hj hic (by rw [← hc, hctx]))
        simp only [hjj, decide_false, beq_eq_false_iff_ne, ne_eq]; exact this
    have hgl : (g.length == (keysOf S m)[j].length + 1) = true := by simp [hlen, hg]
    have hexp : wantW a (S ++ [g]) (keysOf S m)[j] =
        { (wantW a S (keysOf S m)[j]) with
          neg := (wantW a S (keysOf S m)[j]).neg && !decide (j = js),
          xr := (wantW a S (keysOf S m)[j]).xr || decide (j = ic) } := by
      simp only [wantW, endsInK_append, startsWithK_append, hgl, ht, hd, Bool.true_and]
      cases (baseW a (keysOf S m)[j]).neg <;> cases endsInK S (keysOf S m)[j] <;> cases decide (j = js) <;>
        cases (baseW a (keysOf S m)[j]).xr <;> cases startsWithK S (keysOf S m)[j] <;> cases decide (j = ic) <;> rfl
    rw [hexp]
    show (markPay o.pay js ic).getD j default = _
    simp only [markPay, getD_set, List.length_set]
    generalize hE : wantW a S (keysOf S m)[j] = E at hA
    have hbo : E.backoff = (baseW a (keysOf S m)[j]).backoff := by rw [← hE]; rfl
    have hxr : E.backoff ≠ 0 → E.xr = true := by
      intro hb; rw [hbo] at hb; rw [← hE]
      have := baseW_xr a _ hb
      simp only [wantW, this, Bool.true_or]
    have hset : ∀ b : Bool, setExtension { E with neg := b } = { E with neg := b, xr := true } := by
      intro b
      by_cases hb : E.backoff = 0
      · simp [setExtension, hb]
      · have := hxr hb
        simp only [setExtension, hb, if_false]
        cases E; simp_all
    by_cases hjj : j = js
    · subst hjj
      by_cases hji : j = ic
      · subst hji
        simp only [hjs', and_self, if_true, hA, clr, decide_true, Bool.not_true, Bool.and_false, Bool.or_true]
        exact hset false
      · simp only [hji, false_and, if_false, hjs', and_self, if_true, hA, clr, decide_true, Bool.not_true, Bool.and_false,
          decide_false, Bool.or_false]
    · by_cases hji : j = ic
      · subst hji
        simp only [hic', and_self, if_true, hjj, false_and, if_false, hA, decide_false, Bool.not_false, Bool.and_true,
          decide_true, Bool.or_true]
        have := hset E.neg
        have he : ({ E with neg := E.neg } : W) = E := by cases E; rfl
        rw [he] at this
        rw [this]
      · simp only [hji, hjj, false_and, if_false, hA, decide_false, Bool.not_false, Bool.and_true, Bool.or_false]
  · intro k i hk
    obtain ⟨hj, hkk⟩ := h.only k i hk
    exact ⟨by rw [hL]; exact hj, by simp only [hL]; exact hkk⟩

/-- the unigram array given the stored keys -/
def expU (S : List Key) (w : Word) (u : W) : W := { u with neg := u.neg && !endsInK S [w], xr := u.xr || startsWithK S [w] }

structure UniG (u0 : List W) (S : List Key) (uni : List W) : Prop where
  len : uni.length = u0.length
  val : ∀ w, uni.getD w default = expU S w (u0.getD w default)

theorem uniG_frame {u0 : List W} {S : List Key} {uni : List W} (h : UniG u0 S uni) (g : Key) (hg : g.length ≠ 2) :
    UniG u0 (S ++ [g]) uni := by
  refine ⟨h.len, fun w => ?_⟩
  rw [h.val w]
  have : (g.length == 2) = false := by simpa using hg
  simp [expU, endsInK_append, startsWithK_append, this]

theorem uniG_mark {u0 : List W} (hu : UniOK u0) {S : List Key} {uni : List W} (h : UniG u0 S uni)
    (x y : Word) (hx : x < u0.length) (hy : y < u0.length) :
    UniG u0 (S ++ [[x, y]]) (markPay uni x y) := by
  refine ⟨by simp [markPay, h.len], ?_⟩
  intro w
  have hxl : x < uni.length := by rw [h.len]; exact hx
  have hyl : y < uni.length := by rw [h.len]; exact hy
  have hexp : expU (S ++ [[x, y]]) w (u0.getD w default) =
      { (expU S w (u0.getD w default)) with
        neg := (expU S w (u0.getD w default)).neg && !decide (w = x),
        xr := (expU S w (u0.getD w default)).xr || decide (w = y) } := by
    have h1 : (([x, y] : Key).take ([w] : Key).length == [w]) = decide (w = x) := by
      by_cases hw : w = x
      · subst hw; simp
      · have : ¬ x = w := fun hc => hw hc.symm
        simp [hw, this]
    have h2 : (([x, y] : Key).drop 1 == [w]) = decide (w = y) := by
      by_cases hw : w = y
      · subst hw; simp
      · have : ¬ y = w := fun hc => hw hc.symm
        simp [hw, this]
    simp only [expU, endsInK_append, startsWithK_append, h1, h2]
    simp only [List.length_cons, List.length_nil, beq_self_eq_true, Bool.true_and]
    cases (u0.getD w default).neg <;> cases endsInK S [w] <;> cases decide (w = x) <;>
      cases (u0.getD w default).xr <;> cases startsWithK S [w] <;> cases decide (w = y) <;> rfl
  rw [hexp]
  simp only [markPay, getD_set, List.length_set]
  have hA := h.val w
  generalize hE : expU S w (u0.getD w default) = E at hA
  have hbo : E.backoff = (u0.getD w default).backoff := by rw [← hE]; rfl
  have hxr : (u0.getD w default).backoff ≠ 0 → E.xr = true := by
    intro hb; rw [← hE]; have := hu w hb; simp only [expU, this, Bool.true_or]
  have hset : ∀ b : Bool, setExtension { E with neg := b } = { E with neg := b, xr := true } := by
    intro b
    by_cases hb : E.backoff = 0
    · simp [setExtension, hb]
    · have := hxr (by rw [← hbo]; exact hb)
      simp only [setExtension, hb, if_false]
      cases E; simp_all
  by_cases hwx : w = x
  · subst hwx
    by_cases hwy : w = y
    · subst hwy
      simp only [hxl, and_self, if_true, hA, clr, decide_true, Bool.not_true, Bool.and_false, Bool.or_true]
      exact hset false
    · simp only [hwy, false_and, if_false, hxl, and_self, if_true, hA, clr, decide_true, Bool.not_true, Bool.and_false,
        decide_false, Bool.or_false]
  · by_cases hwy : w = y
    · subst hwy
      simp only [hyl, and_self, if_true, hwx, false_and, if_false, hA, decide_false, Bool.not_false, Bool.and_true,
        decide_true, Bool.or_true]
      have := hset E.neg
      have he : ({ E with neg := E.neg } : W) = E := by cases E; rfl
      rw [he] at this
      rw [this]
    · simp only [hwy, hwx, false_and, if_false, hA, decide_false, Bool.not_false, Bool.and_true, Bool.or_false]

end KV.ProbingBuild
