import Model.TrieBuild
/-! Verdict-level facts about `KV.TrieBuild.buildTable` (builder `binary`'s model of lm/search_trie.cc), used by C10 to tie the
loader model's trie verdict to it.  Core only. -/
namespace KV.TrieBuild
open KV.Arpa

theorem insertGram_perm (g : Gram) : ∀ l : List Gram, (insertGram g l).Perm (g :: l)
  | [] => by simp [insertGram]
  | h :: t => by
    unfold insertGram
    split
    · exact List.Perm.refl _
    · exact ((insertGram_perm g t).cons h).trans (List.Perm.swap g h t)

theorem visitOrder_perm : ∀ gs : List Gram, (visitOrder gs).Perm gs
  | [] => by simp [visitOrder]
  | g :: gs => by
    have ih := visitOrder_perm gs
    unfold visitOrder at ih ⊢
    simp only [List.foldr_cons]
    exact (insertGram_perm g _).trans (ih.cons g)

theorem mem_visitOrder (gs : List Gram) (x : Gram) : x ∈ visitOrder gs ↔ x ∈ gs :=
  (visitOrder_perm gs).mem_iff

theorem realOf_isNone (l : List Gram) (k : List Word) : (realOf l k).isNone = true ↔ ∀ g ∈ l, g.key ≠ k := by
  unfold realOf
  rw [Option.isNone_iff_eq_none, List.find?_eq_none]
  simp

theorem hasDuplicate_not_nodup : ∀ l : List Gram, hasDuplicate l = true → ¬ (l.map (·.key)).Nodup
  | [], h => by simp [hasDuplicate] at h
  | [_], h => by simp [hasDuplicate] at h
  | a :: b :: t, h => by
    unfold hasDuplicate at h
    simp only [Bool.or_eq_true, beq_iff_eq] at h
    intro hn
    simp only [List.map_cons, List.nodup_cons] at hn
    rcases h with h | h
    · exact hn.1 (by rw [h]; exact List.mem_cons_self)
    · exact hasDuplicate_not_nodup (b :: t) h (by simpa using hn.2)

theorem visit_error (st : VisitState) (g : Gram) (e : BuildErr) (h : visit st g = .error e) : e = .missingUnigram := by
  unfold visit at h
  simp only at h
  split at h
  · simp at h
  · split at h
    · simp only [Except.error.injEq] at h; exact h.symm
    · split at h
      · simp only [Except.error.injEq] at h; exact h.symm
      · simp at h

theorem visitAll_error : ∀ (gs : List Gram) (st : VisitState) (e : BuildErr), gs.foldlM visit st = .error e → e = .missingUnigram
  | [], st, e, h => by simp [List.foldlM, pure, Except.pure] at h
  | g :: gs, st, e, h => by
    simp only [List.foldlM_cons, bind, Except.bind] at h
    split at h
    · rename_i e' he
      simp only [Except.error.injEq] at h
      subst h
      exact visit_error st g _ he
    · exact visitAll_error gs _ e h

/-- **`.error .missingContext` ⇒ condition**: some n-gram of order ≥ 2 has a context that is not an n-gram -/
theorem buildTable_missingContext (fadd : Nat → Nat → Nat) (order : Nat) (gs : List Gram)
    (h : buildTable fadd order gs = .error .missingContext) :
    ∃ g ∈ gs, 2 ≤ g.key.length ∧ ∀ g' ∈ gs, g'.key ≠ g.key.drop 1 := by
  unfold buildTable at h
  simp only at h
  split at h
  · simp at h
  · split at h
    · rename_i e he
      simp only [Except.error.injEq] at h
      subst h
      have := visitAll_error _ _ _ he
      simp at this
    · split at h
      · rename_i hany
        simp only [List.any_eq_true, Bool.and_eq_true, decide_eq_true_eq] at hany
        obtain ⟨g, hg, hl, hr⟩ := hany
        refine ⟨g, (mem_visitOrder gs g).mp hg, hl, ?_⟩
        intro g' hg'
        exact (realOf_isNone _ _).mp hr g' ((mem_visitOrder gs g').mpr hg')
      · simp at h

/-- **condition ⇒ not `.ok`**: a missing context makes `buildTable` fail (with `missingContext`, unless a duplicate or a
missing unigram is reported first) -/
theorem buildTable_not_ok_of_missing (fadd : Nat → Nat → Nat) (order : Nat) (gs : List Gram)
    (hm : ∃ g ∈ gs, 2 ≤ g.key.length ∧ ∀ g' ∈ gs, g'.key ≠ g.key.drop 1) (b : Built) :
    buildTable fadd order gs ≠ .ok b := by
  obtain ⟨g, hg, hl, hr⟩ := hm
  unfold buildTable
  simp only
  split
  · simp
  · split
    · simp
    · have hany : ((visitOrder gs).any fun g => decide (g.key.length ≥ 2) && (realOf (visitOrder gs) (g.key.drop 1)).isNone) = true := by
        simp only [List.any_eq_true, Bool.and_eq_true, decide_eq_true_eq]
        refine ⟨g, (mem_visitOrder gs g).mpr hg, hl, ?_⟩
        exact (realOf_isNone _ _).mpr fun g' hg' => hr g' ((mem_visitOrder gs g').mp hg')
      split
      · simp
      · rename_i hn
        exact absurd hany hn

/-- **`.error .duplicate` ⇒ condition**: two n-grams with the same key -/
theorem buildTable_duplicate (fadd : Nat → Nat → Nat) (order : Nat) (gs : List Gram)
    (h : buildTable fadd order gs = .error .duplicate) : ¬ (gs.map (·.key)).Nodup := by
  unfold buildTable at h
  simp only at h
  split at h
  · rename_i hd
    intro hn
    exact hasDuplicate_not_nodup _ hd (((visitOrder_perm gs).map _).nodup_iff.mpr hn)
  · split at h
    · rename_i e he
      simp only [Except.error.injEq] at h
      subst h
      have := visitAll_error _ _ _ he
      simp at this
    · split at h <;> simp at h

end KV.TrieBuild
