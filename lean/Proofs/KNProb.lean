import Proofs.KNCorpus
/-!
Every written value is a probability: under the record hypotheses `TableOK` and discounts within
their Chen–Goodman ranges (`DiscOK`: `0 ≤ D₁ ≤ 1`, `0 ≤ D₂ ≤ 2`, `0 ≤ D₃ ≤ 3`), every entry the
query can reach has `0 ≤ p ≤ 1` (so `log10 p ≤ 0`) and `0 ≤ bo`; and the query itself is in
`[0, 1]` for every context.  Route: `0 ≤ u`, `0 ≤ γ` ⇒ `0 ≤ score`; `score ≤ Σ score = 1`.
-/
namespace KV.KN.Norm

open KV.KN KV.KN.Spec

/-! ## 1. Abstract -/

structure System.NonNeg (S : System) : Prop where
  u_nn : ∀ ctx w, ctx ≠ [] → 0 ≤ S.u ctx w
  γ_nn : ∀ ctx, ctx ≠ [] → 0 ≤ S.γ ctx
  p_nn : ∀ w ∈ S.V, 0 ≤ S.p [] w

theorem pBO_nonneg_aux (S : System) (h : S.OK) (hn : S.NonNeg) :
    ∀ n ctx, ctx.length = n → ∀ w ∈ S.V, 0 ≤ S.pBO ctx w := by
  intro n
  induction n with
  | zero =>
    intro ctx hl w hw
    have : ctx = [] := List.eq_nil_of_length_eq_zero hl
    subst this
    rw [S.pBO_nil w (h.uni_mem w hw)]
    exact hn.p_nn w hw
  | succ n ih =>
    intro ctx hl w hw
    have hc : ctx ≠ [] := by intro h0; subst h0; simp at hl
    have hl' : ctx.dropLast.length = n := by simp [List.length_dropLast, hl]
    have ih' := ih ctx.dropLast hl' w hw
    by_cases hin : S.inE ctx w = true
    · rw [S.pBO_in ctx w hin, h.interp ctx w hc hw hin,
        ← S.pBO_in ctx.dropLast w (h.closure ctx w hc hw hin)]
      exact add_nonneg (hn.u_nn ctx w hc) (mul_nonneg (hn.γ_nn ctx hc) ih')
    · have hin' : S.inE ctx w = false := by simpa using hin
      rw [S.pBO_out ctx w hc hin']
      by_cases hA : ∃ w ∈ S.V, S.inE ctx w = true
      · rw [h.bo_ctx ctx hc hA]; exact mul_nonneg (hn.γ_nn ctx hc) ih'
      · have hall : ∀ w ∈ S.V, S.inE ctx w = false := by
          intro w' hw'
          by_cases h' : S.inE ctx w' = true
          · exact absurd ⟨w', hw', h'⟩ hA
          · simpa using h'
        rw [h.bo_one ctx hc hall]; simpa using ih'

theorem pBO_nonneg (S : System) (h : S.OK) (hn : S.NonNeg) (ctx : Gram) (w : Word) (hw : w ∈ S.V) :
    0 ≤ S.pBO ctx w := pBO_nonneg_aux S h hn ctx.length ctx rfl w hw

theorem sum_map_nonneg {α : Type} (l : List α) (f : α → Rat) (hf : ∀ x ∈ l, 0 ≤ f x) :
    0 ≤ (l.map f).sum := by
  induction l with
  | nil => simp
  | cons b t ih =>
    rw [List.map_cons, List.sum_cons]
    exact add_nonneg (hf b (List.mem_cons_self ..)) (ih (fun x hx => hf x (List.mem_cons_of_mem _ hx)))

theorem mem_le_sum_rat {α : Type} (l : List α) (f : α → Rat) (hf : ∀ x ∈ l, 0 ≤ f x) (a : α)
    (ha : a ∈ l) : f a ≤ (l.map f).sum := by
  induction l with
  | nil => cases ha
  | cons b t ih =>
    rw [List.map_cons, List.sum_cons]
    have hb := hf b (List.mem_cons_self ..)
    have ht : 0 ≤ (t.map f).sum :=
      sum_map_nonneg t f (fun x hx => hf x (List.mem_cons_of_mem _ hx))
    rcases List.mem_cons.mp ha with rfl | h1
    · linarith
    · have := ih (fun x hx => hf x (List.mem_cons_of_mem _ hx)) h1
      linarith

theorem pBO_le_one (S : System) (h : S.OK) (hn : S.NonNeg) (ctx : Gram) (w : Word) (hw : w ∈ S.V) :
    S.pBO ctx w ≤ 1 := by
  rw [← normalised_abstract S h ctx]
  exact mem_le_sum_rat S.V (S.pBO ctx) (fun x hx => pBO_nonneg S h hn ctx x hx) w hw

/-! ## 2. Concrete -/

/-- the discounts are within their ranges (what `chenGoodman` checks before returning them) -/
def DiscOK (d : Disc) : Prop :=
  0 ≤ d.d1 ∧ d.d1 ≤ 1 ∧ 0 ≤ d.d2 ∧ d.d2 ≤ 2 ∧ 0 ≤ d.d3 ∧ d.d3 ≤ 3

theorem get_nonneg {d : Disc} (hd : DiscOK d) (c : Nat) : 0 ≤ d.get c := by
  obtain ⟨h1, _, h2, _, h3, _⟩ := hd
  unfold Disc.get
  split <;> first | exact le_refl _ | assumption

theorem apply_nonneg {d : Disc} (hd : DiscOK d) (c : Nat) : 0 ≤ d.apply c := by
  obtain ⟨_, h1, _, h2, _, h3⟩ := hd
  unfold Disc.apply Disc.get
  match c with
  | 0 => simp
  | 1 => simp; linarith
  | 2 => simp; linarith
  | c + 3 =>
    simp only
    have : (3 : Rat) ≤ ((c + 3 : Nat) : Rat) := by exact_mod_cast (by omega : 3 ≤ c + 3)
    linarith

theorem gamma_nonneg {d : Disc} (hd : DiscOK d) (es : List Emit) (ctx : Gram) :
    0 ≤ Spec.gamma d es ctx := by
  unfold Spec.gamma
  apply div_nonneg _ (Nat.cast_nonneg _)
  apply sum_map_nonneg
  intro e _
  show 0 ≤ (if e.marked = true then (e.count : Rat) else d.get e.count)
  split
  · exact Nat.cast_nonneg _
  · exact get_nonneg hd _

theorem dAt_ok {c : Spec.Ctx} (hd : ∀ d ∈ c.ds, DiscOK d) (n : Nat) : DiscOK (c.dAt n) := by
  unfold Spec.Ctx.dAt
  rw [List.getD_eq_getElem?_getD]
  cases h : c.ds[n - 1]? with
  | none => simp [DiscOK]
  | some d => exact hd d (List.mem_of_getElem? h)

theorem uniform_nonneg {c : Spec.Ctx} (h : TableOK c) (hi : c.cfg.interpUni = true) : 0 ≤ c.uniform := by
  have hu := h.uniformOK hi
  by_contra hneg
  have hneg' : c.uniform < 0 := lt_of_not_ge hneg
  have hL : (0 : Rat) ≤ ((keptUni c).length : Rat) := Nat.cast_nonneg _
  have : c.uniform * ((keptUni c).length : Rat) ≤ 0 := mul_nonpos_of_nonpos_of_nonneg hneg'.le hL
  linarith

theorem prob_uni_nonneg {c : Spec.Ctx} (h : TableOK c) (hd : ∀ d ∈ c.ds, DiscOK d) {e : Emit}
    (he : e ∈ c.esAt 1) (w : Word) (hw : e.gram = [w]) : 0 ≤ c.prob [w] ∧ (w = bos → c.prob [w] = 1) := by
  have hd1 := dAt_ok hd 1
  have hg := gamma_nonneg hd1 (c.esAt 1) []
  have ha : 0 ≤ (c.dAt 1).apply e.count / (Spec.den (c.esAt 1) [] : Rat) :=
    div_nonneg (apply_nonneg hd1 _) (Nat.cast_nonneg _)
  rw [prob_uni, uGamma_uni h he w hw]
  by_cases h1 : w = bos
  · simp [h1]
  · refine ⟨?_, fun h' => absurd h' h1⟩
    rw [if_neg h1]
    cases hi : c.cfg.interpUni with
    | true =>
      have hu := uniform_nonneg h hi
      by_cases h2 : w = unk
      · simp only [h2, if_true]; exact add_nonneg (le_refl _) (mul_nonneg hg hu)
      · simp only [h2, if_false, if_true]; exact add_nonneg ha (mul_nonneg hg hu)
    | false =>
      by_cases h2 : w = unk
      · simp only [h2, if_true, Bool.false_eq_true, if_false]; linarith
      · simp only [h2, if_false, Bool.false_eq_true]; linarith

theorem sysOf_nonneg {c : Spec.Ctx} (h : TableOK c) (hd : ∀ d ∈ c.ds, DiscOK d) : (sysOf c).NonNeg where
  u_nn ctx w hc := by
    have hn := length_pos_of_ne_nil hc
    have h1 : (ctx.length + 1 == 1) = false := by simp; omega
    show 0 ≤ (c.uGamma (w :: ctx)).1
    unfold Spec.Ctx.uGamma
    simp only [List.length_cons, h1, Bool.false_eq_true, if_false]
    exact div_nonneg (apply_nonneg (dAt_ok hd _) _) (Nat.cast_nonneg _)
  γ_nn ctx _ := gamma_nonneg (dAt_ok hd _) _ _
  p_nn w hw := by
    obtain ⟨_, hk⟩ := (mem_V h).mp hw
    obtain ⟨e, he, _, hg⟩ := keptIn_iff.mp hk
    exact (prob_uni_nonneg h hd he w hg).1

/-- the query is a probability -/
theorem score_bounds {c : Spec.Ctx} (h : TableOK c) (hd : ∀ d ∈ c.ds, DiscOK d) (ctx : Gram) (w : Word)
    (hw : w ∈ Query.vocabNoBos (ordersOf c)) :
    0 ≤ Query.score (ordersOf c) ctx w ∧ Query.score (ordersOf c) ctx w ≤ 1 := by
  rw [score_eq]
  exact ⟨pBO_nonneg _ (sysOf_OK h) (sysOf_nonneg h hd) ctx w hw,
    pBO_le_one _ (sysOf_OK h) (sysOf_nonneg h hd) ctx w hw⟩

theorem backoff_nonneg {c : Spec.Ctx} (hd : ∀ d ∈ c.ds, DiscOK d) (g : Gram) : 0 ≤ c.backoff g := by
  unfold Spec.Ctx.backoff
  simp only
  split
  · exact gamma_nonneg (dAt_ok hd _) _ _
  · exact zero_le_one

/-- every entry the query can reach holds a probability and a non-negative back-off -/
theorem lookup_bounds {c : Spec.Ctx} (h : TableOK c) (hd : ∀ d ∈ c.ds, DiscOK d) (g : Gram) (e : Entry)
    (hl : Query.lookup (ordersOf c) g = some e) : 0 ≤ e.p ∧ e.p ≤ 1 ∧ 0 ≤ e.bo := by
  cases g with
  | nil => simp [Query.lookup] at hl
  | cons w ctx =>
    rw [lookup_eq c _ (List.cons_ne_nil _ _)] at hl
    by_cases hk : keptIn c (w :: ctx) = true
    · rw [if_pos hk] at hl
      have he : e = ⟨w :: ctx, c.prob (w :: ctx), c.backoff (w :: ctx)⟩ := by
        simpa using hl.symm
      subst he
      refine ⟨?_, ?_, backoff_nonneg hd _⟩ <;> show _ ≤ _
      all_goals
        by_cases hc : ctx = []
        · subst hc
          obtain ⟨r, hr, _, hg⟩ := keptIn_iff.mp hk
          have hp := prob_uni_nonneg h hd hr w hg
          by_cases hb : w = bos
          · first
            | exact hp.1
            | (rw [hp.2 hb])
          · have hw : w ∈ (sysOf c).V := (mem_V h).mpr ⟨hb, hk⟩
            have := score_bounds h hd [] w hw
            rw [score_eq, (sysOf c).pBO_nil w hk] at this
            first
              | exact this.1
              | exact this.2
        · have hw := head_in_V h w ctx hc hk
          have := score_bounds h hd ctx w hw
          rw [score_eq, (sysOf c).pBO_in ctx w hk] at this
          first
            | exact this.1
            | exact this.2
    · rw [if_neg hk] at hl; cases hl

/-- every written entry, when the records of order `n` are n-grams of length `n` -/
theorem entry_bounds {c : Spec.Ctx} (h : TableOK c) (hd : ∀ d ∈ c.ds, DiscOK d)
    (hlen : ∀ n, 1 ≤ n → ∀ r ∈ c.esAt n, r.gram.length = n) :
    ∀ l ∈ ordersOf c, ∀ e ∈ l, 0 ≤ e.p ∧ e.p ≤ 1 ∧ 0 ≤ e.bo := by
  intro l hl e he
  obtain ⟨i, hi⟩ := List.mem_iff_getElem?.mp hl
  have hget : (ordersOf c).getD (i + 1 - 1) [] = l := by
    rw [List.getD_eq_getElem?_getD, Nat.add_sub_cancel, hi]; rfl
  rw [orders_getD] at hget
  rw [← hget, List.mem_mergeSort] at he
  obtain ⟨r, hr, rfl⟩ := List.mem_map.mp he
  obtain ⟨hr1, hr2⟩ := List.mem_filter.mp hr
  have hrl := hlen (i + 1) (by omega) r hr1
  have hne : r.gram ≠ [] := by intro h0; rw [h0] at hrl; simp at hrl
  have hk : keptIn c r.gram = true := keptIn_iff.mpr ⟨r, by rw [hrl]; exact hr1, hr2, rfl⟩
  apply lookup_bounds h hd r.gram
  rw [lookup_eq c _ hne, if_pos hk]; rfl

/-! ## 3. The discounts `discounts` returns are in range -/

theorem chenGoodman_ok {s : OrderStat} {d : Disc} (h : chenGoodman s = some d) : DiscOK d := by
  unfold chenGoodman at h
  split at h
  · cases h
  · simp only at h
    split at h
    · cases h
    · rename_i hc
      simp only [Option.some.injEq] at h
      subst h
      simp only [not_or, not_lt] at hc
      exact ⟨hc.1, hc.2.1, hc.2.2.1, hc.2.2.2.1, hc.2.2.2.2.1, hc.2.2.2.2.2⟩

theorem discountOf_ok {fallback : Option Disc} {s : OrderStat} {d : Disc × Bool}
    (hfb : ∀ f, fallback = some f → DiscOK f) (h : discountOf fallback s = some d) : DiscOK d.1 := by
  unfold discountOf at h
  cases hcg : chenGoodman s with
  | some d' =>
    rw [hcg] at h
    simp only [Option.some.injEq] at h
    subst h; exact chenGoodman_ok hcg
  | none =>
    rw [hcg] at h
    cases hf : fallback with
    | some f =>
      rw [hf] at h
      simp only [Option.map_some, Option.some.injEq] at h
      subst h; exact hfb f hf
    | none => rw [hf] at h; simp at h

theorem discountsFrom_ok {fallback : Option Disc} (hfb : ∀ f, fallback = some f → DiscOK f)
    (stats : List OrderStat) : ∀ (i : Nat) (discs : List (Disc × Bool)),
    discountsFrom fallback i stats = .ok discs → ∀ d ∈ discs, DiscOK d.1 := by
  induction stats with
  | nil =>
    intro i discs h d hd
    simp only [discountsFrom, Except.ok.injEq] at h
    subst h; cases hd
  | cons s t ih =>
    intro i discs h d hd
    rw [discountsFrom] at h
    cases hdo : discountOf fallback s with
    | none => rw [hdo] at h; cases h
    | some d0 =>
      rw [hdo] at h
      simp only at h
      cases ht : discountsFrom fallback (i + 1) t with
      | error e => rw [ht] at h; cases h
      | ok ds =>
        rw [ht] at h
        simp only [Except.ok.injEq] at h
        subst h
        rcases List.mem_cons.mp hd with rfl | hd
        · exact discountOf_ok hfb hdo
        · exact ih (i + 1) ds ht d hd

theorem discounts_ok {fallback : Option Disc} {stats : List OrderStat} {discs : List (Disc × Bool)}
    (hfb : ∀ f, fallback = some f → DiscOK f) (h : discounts fallback stats = .ok discs) :
    ∀ d ∈ discs, DiscOK d.1 :=
  discountsFrom_ok hfb stats 0 discs h

/-! ## 4. Table and corpus level -/

theorem spec_len {cfg : Cfg} {full : Table} (hw : TableWF cfg full) (discs : List (Disc × Bool)) :
    ∀ n, 1 ≤ n → ∀ r ∈ (specCtx cfg full discs).esAt n, r.gram.length = n := by
  intro n hn r hr
  by_cases h1 : n = 1
  · subst h1; exact tableOK_len1 hw discs r hr
  · obtain ⟨m, rfl⟩ : ∃ m, n = m + 1 := ⟨n - 1, by omega⟩
    obtain ⟨_, row, _, _, hl, rfl⟩ := hi_rec hw discs (by omega : 1 ≤ m) hr
    exact hl

/-- **Every written value is a probability** (order ≥ 2): `0 ≤ p ≤ 1` and `0 ≤ bo` for every
entry of the model `Spec.estimateFrom` returns for a well-formed table, when the fallback
discounts (if any) are in range. -/
theorem prob_le_one_table (cfg : Cfg) (fallback : Option Disc) (full : Spec.Table) (m : Model)
    (hm : Spec.estimateFrom cfg fallback full = .ok m) (hw : TableWF cfg full)
    (hfb : ∀ f, fallback = some f → DiscOK f) :
    ∀ l ∈ m.orders, ∀ e ∈ l, 0 ≤ e.p ∧ e.p ≤ 1 ∧ 0 ≤ e.bo := by
  obtain ⟨discs, hd, ho⟩ := estimateFrom_orders cfg fallback full m hm
  rw [ho]
  apply entry_bounds (tableOK_of_wf hw discs) _ (spec_len hw discs)
  intro d hmem
  obtain ⟨d', hd', rfl⟩ := List.mem_map.mp (show d ∈ discs.map (·.1) from hmem)
  exact discounts_ok hfb hd d' hd'

theorem prob_le_one_corpus (cfg : Cfg) (pv : Bool) (fallback : Option Disc) (corpus : List (List Word))
    (m : Model) (hm : Spec.estimate cfg pv fallback corpus = .ok m) (h2 : 2 ≤ cfg.order)
    (hne : corpus ≠ []) (hw : ∀ s ∈ corpus, ∀ w ∈ s, 3 ≤ w)
    (hthr : ∀ i, i < cfg.order - 1 → cfg.thr i ≤ cfg.thr (i + 1))
    (hfb : ∀ f, fallback = some f → DiscOK f) :
    ∀ l ∈ m.orders, ∀ e ∈ l, 0 ≤ e.p ∧ e.p ≤ 1 ∧ 0 ≤ e.bo := by
  unfold Spec.estimate at hm
  rw [if_neg (by omega)] at hm
  exact prob_le_one_table cfg fallback _ m hm (tableWF_countFull cfg corpus h2 hne hw hthr) hfb

/-- the query of the estimated model is a probability, for every corpus -/
theorem score_bounds_corpus (cfg : Cfg) (pv : Bool) (fallback : Option Disc) (corpus : List (List Word))
    (m : Model) (hm : Spec.estimate cfg pv fallback corpus = .ok m) (h2 : 2 ≤ cfg.order)
    (hne : corpus ≠ []) (hw : ∀ s ∈ corpus, ∀ w ∈ s, 3 ≤ w)
    (hthr : ∀ i, i < cfg.order - 1 → cfg.thr i ≤ cfg.thr (i + 1))
    (hfb : ∀ f, fallback = some f → DiscOK f) (ctx : Gram) (w : Word)
    (hwv : w ∈ Query.vocabNoBos m.orders) :
    0 ≤ Query.score m.orders ctx w ∧ Query.score m.orders ctx w ≤ 1 := by
  unfold Spec.estimate at hm
  rw [if_neg (by omega)] at hm
  obtain ⟨discs, hd, ho⟩ := estimateFrom_orders cfg fallback _ m hm
  rw [ho] at hwv ⊢
  apply score_bounds (tableOK_of_wf (tableWF_countFull cfg corpus h2 hne hw hthr) discs) _ ctx w hwv
  intro d hmem
  obtain ⟨d', hd', rfl⟩ := List.mem_map.mp (show d ∈ discs.map (·.1) from hmem)
  exact discounts_ok hfb hd d' hd'

example : DiscOK ⟨1/2, 1, 3/2⟩ := by unfold DiscOK; norm_num

end KV.KN.Norm
