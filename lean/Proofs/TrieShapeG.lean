import Proofs.TrieOfTableG
import Proofs.Binary
/-! `ShapeG` from the C04 layout model: the shape `Binary.trieSetup quant array` gives to a bit table has the bit widths the
read-back lemmas use, no `uint8` wrap, offset tables of `ArrayCount` entries inside their blocks, float tables after the quant
header, and all regions follow one another in the file. -/
set_option maxRecDepth 4000
namespace KV.TrieLM
open KV.Bits KV.Binary

/-- sizes: vocabulary and level sizes below 2^57; quantiser code widths as `QOK` demands -/
structure SmallG (bt : BT) (bound order : Nat) (q : Option QSpec) : Prop where
  small : SmallOK bt bound order
  qbits : ∀ qs, q = some qs → qs.probBits ≤ 25 ∧ qs.backoffBits ≤ 25

def cfgq (q : Option QSpec) (bh : Nat) : Config := cfgG q bh

/-- size of middle block `j` and the starts of the unigram array / first middle block -/
def szG (bt : BT) (bound order : Nat) (q : Option QSpec) (array : Bool) (bh : Nat) (j : Nat) : Nat :=
  middleSize array (cfgG q bh) (middleBits q.isSome (cfgG q bh)) (cnt (countsOf bt bound order) (2 + j - 1))
    (cnt (countsOf bt bound order) 0) (cnt (countsOf bt bound order) (2 + j))

def s1G (order start : Nat) (q : Option QSpec) (bh : Nat) : Nat := start + quantSize q.isSome order (cfgG q bh)
def s2G (bt : BT) (bound order start : Nat) (q : Option QSpec) (bh : Nat) : Nat :=
  s1G order start q bh + trieUnigramSize (cnt (countsOf bt bound order) 0)

theorem setupG_closed (bt : BT) (bound order start : Nat) (q : Option QSpec) (array : Bool) (bh : Nat) :
    (setupG bt bound order start q array bh).middles =
      (List.range (order - 2)).map (fun t =>
        mkMiddle array (cfgG q bh) (middleBits q.isSome (cfgG q bh)) (cnt (countsOf bt bound order) (2 + t - 1))
          (cnt (countsOf bt bound order) 0) (cnt (countsOf bt bound order) (2 + t))
          (s2G bt bound order start q bh + psum (szG bt bound order q array bh) t)) ∧
    (setupG bt bound order start q array bh).longest.1 = s2G bt bound order start q bh + psum (szG bt bound order q array bh) (order - 2) ∧
    (setupG bt bound order start q array bh).unigram = s1G order start q bh ∧
    (setupG bt bound order start q array bh).quant = start := by
  unfold setupG trieSetup
  simp only [countsOf_length]
  rw [trieMiddleLoop_closed]
  exact ⟨rfl, rfl, rfl, trivial⟩

theorem midG_eq (bt : BT) (bound order start : Nat) (q : Option QSpec) (array : Bool) (bh : Nat) (ho : 2 ≤ order)
    (j : Nat) (hj : j + 2 < order) :
    midG bt bound order start q array bh j =
      mkMiddle array (cfgG q bh) (middleBits q.isSome (cfgG q bh)) (level bt bound (j + 2)).length bound (level bt bound (j + 3)).length
        (s2G bt bound order start q bh + psum (szG bt bound order q array bh) j) := by
  have c0 := cnt0 bt bound order (by omega)
  have c1 : cnt (countsOf bt bound order) (2 + j - 1) = (level bt bound (j + 2)).length := by
    rw [countsOf_cnt _ _ _ (2 + j - 1) (by omega)]; congr 2; omega
  have c2 : cnt (countsOf bt bound order) (2 + j) = (level bt bound (j + 3)).length := by
    rw [countsOf_cnt _ _ _ (2 + j) (by omega)]; congr 2; omega
  unfold midG
  rw [(setupG_closed bt bound order start q array bh).1]
  simp only [List.getD_eq_getElem?_getD, List.getElem?_map, List.getElem?_range (show j < order - 2 by omega), Option.map_some,
    Option.getD_some, c0, c1, c2]

theorem middleBits_G (q : Option QSpec) (bh : Nat) (hq : ∀ qs, q = some qs → qs.probBits ≤ 25 ∧ qs.backoffBits ≤ 25) :
    middleBits q.isSome (cfgG q bh) = QB q := by
  cases q with
  | none => rfl
  | some qs =>
    obtain ⟨h1, h2⟩ := hq qs rfl
    simp only [middleBits, cfgG, QB, Option.isSome_some, if_true]
    rw [Nat.mod_eq_of_lt (by omega)]; omega

theorem longestBits_G (q : Option QSpec) (bh : Nat) : longestBits q.isSome (cfgG q bh) = LB q := by
  cases q <;> rfl

theorem QB_le (q : Option QSpec) (hq : ∀ qs, q = some qs → qs.probBits ≤ 25 ∧ qs.backoffBits ≤ 25) : QB q ≤ 63 := by
  cases q with
  | none => simp [QB]
  | some qs => obtain ⟨h1, h2⟩ := hq qs rfl; simp only [QB]; omega

theorem LB_le (q : Option QSpec) (hq : ∀ qs, q = some qs → qs.probBits ≤ 25 ∧ qs.backoffBits ≤ 25) : LB q ≤ 31 := by
  cases q with
  | none => simp [LB]
  | some qs => obtain ⟨h1, _⟩ := hq qs rfl; simp only [LB]; omega

theorem inlineBits_le (array : Bool) (mo mn bh : Nat) : inlineBits array mo mn bh ≤ requiredBits mn := by
  unfold inlineBits; split <;> omega

theorem midG_fields (bt : BT) (bound order start : Nat) (q : Option QSpec) (array : Bool) (bh : Nat) (sm : SmallG bt bound order q)
    (j : Nat) (hj : j + 2 < order) :
    (midG bt bound order start q array bh j).wordBits = requiredBits bound ∧
    (midG bt bound order start q array bh j).quantBits = QB q ∧
    (midG bt bound order start q array bh j).totalBits = requiredBits bound + QB q + (midG bt bound order start q array bh j).inline ∧
    (midG bt bound order start q array bh j).inline ≤ 57 ∧
    (array = false → (level bt bound (j + 3)).length < 2^(midG bt bound order start q array bh j).inline) ∧
    (array = true → ((midG bt bound order start q array bh j).offEnd - (midG bt bound order start q array bh j).offBegin) / 8
      = ((level bt bound (j + 3)).length >>> (midG bt bound order start q array bh j).inline) + 1) := by
  have ho := sm.small.order2
  have hW : requiredBits bound ≤ 57 := requiredBits_le_of_lt _ 57 (by omega) sm.small.boundLt
  have hN57 := sm.small.levels (j + 3) (by omega)
  have hRN : requiredBits (level bt bound (j + 3)).length ≤ 57 := requiredBits_le_of_lt _ 57 (by omega) hN57
  have hqb := middleBits_G q bh sm.qbits
  have hqle := QB_le q sm.qbits
  rw [midG_eq bt bound order start q array bh ho j hj]
  have hI := inlineBits_le array ((level bt bound (j + 2)).length + 1) (level bt bound (j + 3)).length (cfgG q bh).bhikshaBits
  refine ⟨rfl, hqb, ?_, ?_, ?_, ?_⟩
  · simp only [mkMiddle, Binary.totalBits, hqb]
    rw [Nat.mod_eq_of_lt (by omega), Nat.mod_eq_of_lt (by omega)]; omega
  · simp only [mkMiddle]; omega
  · intro ha
    subst ha
    simp only [mkMiddle, inlineBits, Bool.false_eq_true, if_false]
    exact KV.C20.required_bits_fits _ _ (Nat.lt_trans hN57 (by decide)) (Nat.le_refl _)
  · intro ha
    subst ha
    simp only [mkMiddle, inlineBits, arrayCount, if_true, Gen.C04.sizeofUint64]
    rw [Nat.add_sub_cancel_left, Nat.mul_div_cancel_left _ (by decide)]

theorem longG_fields (bt : BT) (bound order start : Nat) (q : Option QSpec) (array : Bool) (bh : Nat) (sm : SmallG bt bound order q) :
    (setupG bt bound order start q array bh).longest.2.1 = requiredBits bound ∧
    (setupG bt bound order start q array bh).longest.2.2 = requiredBits bound + LB q := by
  have ho := sm.small.order2
  have hW : requiredBits bound ≤ 57 := requiredBits_le_of_lt _ 57 (by omega) sm.small.boundLt
  have c0 := cnt0 bt bound order (by omega)
  have hl := LB_le q sm.qbits
  unfold setupG trieSetup
  simp only [c0, Binary.totalBits, longestBits_G]
  exact ⟨trivial, Nat.mod_eq_of_lt (by omega)⟩

/-! ### regions in file order: general lemmas -/

def RegionSpec.endBit (R : RegionSpec) : Nat := R.base + R.nrec * R.stride

/-- the region lies inside the byte interval `[lo, hi)` -/
def Inside (R : RegionSpec) (lo hi : Nat) : Prop := 8 * lo ≤ R.base ∧ R.endBit ≤ 8 * hi

theorem pw_cut (L1 L2 : List RegionSpec) (X : Nat) (h1 : L1.Pairwise RegionSpec.Before) (h2 : L2.Pairwise RegionSpec.Before)
    (ha : ∀ a ∈ L1, a.endBit ≤ X) (hb : ∀ b ∈ L2, X ≤ b.base) : (L1 ++ L2).Pairwise RegionSpec.Before := by
  rw [List.pairwise_append]
  refine ⟨h1, h2, ?_⟩
  intro a haa b hbb
  have := ha a haa
  have := hb b hbb
  unfold RegionSpec.endBit at *
  show _ ≤ _
  omega

theorem pw_blocks (f : Nat → List RegionSpec) (lo hi : Nat → Nat) (n : Nat)
    (hf : ∀ j, j < n → (f j).Pairwise RegionSpec.Before ∧ ∀ R ∈ f j, Inside R (lo j) (hi j))
    (hord : ∀ j j', j < j' → j' < n → hi j ≤ lo j') :
    ((List.range n).flatMap f).Pairwise RegionSpec.Before := by
  rw [List.pairwise_flatMap]
  refine ⟨fun j hj => (hf j (List.mem_range.mp hj)).1, ?_⟩
  refine List.Pairwise.imp_of_mem ?_ (List.pairwise_lt_range (n := n))
  intro j j' hj hj' hlt R hR R' hR'
  have h1 := (hf j (List.mem_range.mp hj)).2 R hR
  have h2 := (hf j' (List.mem_range.mp hj')).2 R' hR'
  have := hord j j' hlt (List.mem_range.mp hj')
  unfold Inside RegionSpec.endBit at *
  show _ ≤ _
  omega

theorem inside_blocks (f : Nat → List RegionSpec) (lo hi : Nat → Nat) (n LO HI : Nat)
    (hf : ∀ j, j < n → ∀ R ∈ f j, Inside R (lo j) (hi j)) (hlo : ∀ j, j < n → LO ≤ lo j) (hhi : ∀ j, j < n → hi j ≤ HI) :
    ∀ R ∈ (List.range n).flatMap f, Inside R LO HI := by
  intro R hR
  simp only [List.mem_flatMap, List.mem_range] at hR
  obtain ⟨j, hj, hR⟩ := hR
  have := hf j hj R hR
  have := hlo j hj
  have := hhi j hj
  unfold Inside at *
  omega

/-! ### the float tables of `SeparatelyQuantize::SetupMemory` -/

def qA (cfg : Config) : Nat := 2^cfg.probBits * Gen.C04.sizeofFloat
def qM (cfg : Config) : Nat := qA cfg + 2^cfg.backoffBits * Gen.C04.sizeofFloat

theorem quantTableLoop_closed (cfg : Config) : ∀ n s acc,
    quantTableLoop cfg n s acc =
      (s + n * qM cfg, acc.reverse ++ (List.range n).flatMap (fun t => [s + t * qM cfg, s + t * qM cfg + qA cfg])) := by
  intro n
  induction n with
  | zero => intro s acc; simp [quantTableLoop]
  | succ n ih =>
    intro s acc
    simp only [quantTableLoop]
    rw [ih]
    have key : ∀ x, s + 2 ^ cfg.probBits * Gen.C04.sizeofFloat + 2 ^ cfg.backoffBits * Gen.C04.sizeofFloat + x = s + qM cfg + x := by
      intro x; simp only [qM, qA]; omega
    have hA : 2 ^ cfg.probBits * Gen.C04.sizeofFloat = qA cfg := rfl
    refine Prod.ext ?_ ?_
    · simp only [key]; rw [Nat.succ_mul]; omega
    · have hfun : (fun t => [s + qM cfg + t * qM cfg, s + qM cfg + t * qM cfg + qA cfg])
          = (fun t => [s + Nat.succ t * qM cfg, s + Nat.succ t * qM cfg + qA cfg]) := by
        funext t
        have : s + qM cfg + t * qM cfg = s + Nat.succ t * qM cfg := by rw [Nat.succ_mul]; omega
        rw [this]
      simp only [key]
      simp only [hA, hfun, List.reverse_cons, List.append_assoc, List.range_succ_eq_map, List.flatMap_cons, List.flatMap_map,
        List.cons_append, List.nil_append, Nat.zero_mul, Nat.add_zero, Function.comp]

theorem pairs_getD (a b : Nat → Nat) : ∀ n,
    ((List.range n).flatMap fun t => [a t, b t]).length = 2 * n ∧
    ∀ t, t < n → ((List.range n).flatMap fun t => [a t, b t])[2 * t]? = some (a t) ∧
      ((List.range n).flatMap fun t => [a t, b t])[2 * t + 1]? = some (b t) := by
  intro n
  induction n with
  | zero => simp
  | succ n ih =>
    obtain ⟨hl, hg⟩ := ih
    rw [List.range_succ, List.flatMap_append]
    simp only [List.flatMap_cons, List.flatMap_nil, List.append_nil]
    refine ⟨by simp [hl]; omega, ?_⟩
    intro t ht
    by_cases h : t < n
    · obtain ⟨g1, g2⟩ := hg t h
      rw [List.getElem?_append_left (by omega), List.getElem?_append_left (by omega)]
      exact ⟨g1, g2⟩
    · have : t = n := by omega
      subst this
      rw [List.getElem?_append_right (by omega), List.getElem?_append_right (by omega), hl]
      simp

theorem quantTables_getD (order : Nat) (cfg : Config) (start : Nat) :
    (∀ t, t + 2 < order → (quantTables true order cfg start).getD (2 * t) 0 = start + 8 + t * qM cfg ∧
      (quantTables true order cfg start).getD (2 * t + 1) 0 = start + 8 + t * qM cfg + qA cfg) ∧
    (quantTables true order cfg start).getD (2 * (order - 2)) 0 = start + 8 + (order - 2) * qM cfg := by
  simp only [quantTables, if_true, quantTableLoop_closed, List.reverse_nil, List.nil_append, Gen.C04.quantHeaderBytes]
  obtain ⟨hl, hg⟩ := pairs_getD (fun t => start + 8 + t * qM cfg) (fun t => start + 8 + t * qM cfg + qA cfg) (order - 2)
  refine ⟨?_, ?_⟩
  · intro t ht
    obtain ⟨g1, g2⟩ := hg t (by omega)
    rw [List.getD_eq_getElem?_getD, List.getD_eq_getElem?_getD, List.getElem?_append_left (by omega),
      List.getElem?_append_left (by omega), g1, g2]
    simp
  · rw [List.getD_eq_getElem?_getD, List.getElem?_append_right (by omega), hl]
    simp

/-! ### the blocks -/

def stG (bt : BT) (bound order start : Nat) (q : Option QSpec) (array : Bool) (bh : Nat) (j : Nat) : Nat :=
  s2G bt bound order start q bh + psum (szG bt bound order q array bh) j

theorem szG_eq (bt : BT) (bound order : Nat) (q : Option QSpec) (array : Bool) (bh : Nat) (ho : 2 ≤ order) (j : Nat) (hj : j + 2 < order) :
    szG bt bound order q array bh j =
      middleSize array (cfgG q bh) (middleBits q.isSome (cfgG q bh)) (level bt bound (j + 2)).length bound (level bt bound (j + 3)).length := by
  have c0 := cnt0 bt bound order (by omega)
  have c1 : cnt (countsOf bt bound order) (2 + j - 1) = (level bt bound (j + 2)).length := by
    rw [countsOf_cnt _ _ _ (2 + j - 1) (by omega)]; congr 2; omega
  have c2 : cnt (countsOf bt bound order) (2 + j) = (level bt bound (j + 3)).length := by
    rw [countsOf_cnt _ _ _ (2 + j) (by omega)]; congr 2; omega
  simp only [szG, c0, c1, c2]

/-- positions inside middle block `j` -/
theorem midG_pos (bt : BT) (bound order start : Nat) (q : Option QSpec) (array : Bool) (bh : Nat) (ho : 2 ≤ order)
    (j : Nat) (hj : j + 2 < order) :
    (midG bt bound order start q array bh j).start = stG bt bound order start q array bh j ∧
    stG bt bound order start q array bh j ≤ (midG bt bound order start q array bh j).packed ∧
    8 * (midG bt bound order start q array bh j).packed
        + ((level bt bound (j + 2)).length + 1) * (midG bt bound order start q array bh j).totalBits
      ≤ 8 * (stG bt bound order start q array bh j + szG bt bound order q array bh j) ∧
    (array = true →
      stG bt bound order start q array bh j + 8 ≤ (midG bt bound order start q array bh j).offBegin ∧
      (midG bt bound order start q array bh j).offEnd ≤ (midG bt bound order start q array bh j).packed ∧
      (midG bt bound order start q array bh j).offBegin ≤ (midG bt bound order start q array bh j).offEnd ∧
      ((midG bt bound order start q array bh j).offEnd - (midG bt bound order start q array bh j).offBegin) % 8 = 0) := by
  rw [midG_eq bt bound order start q array bh ho j hj, szG_eq bt bound order q array bh ho j hj]
  simp only [stG]
  generalize s2G bt bound order start q bh + psum (szG bt bound order q array bh) j = st
  refine ⟨rfl, ?_, ?_, ?_⟩
  · simp only [mkMiddle]; omega
  · simp only [mkMiddle, middleSize, baseSize, Gen.C04.bitPackedSlack]
    rw [Nat.add_comm 1 _]
    generalize ((level bt bound (j + 2)).length + 1) * _ = x
    omega
  · intro ha
    subst ha
    have := array_table_fits (cfgG q bh) (middleBits q.isSome (cfgG q bh)) (level bt bound (j + 2)).length bound
      (level bt bound (j + 3)).length st
    simp only [Gen.C04.sizeofUint64] at this
    obtain ⟨h1, _, h3, h4⟩ := this
    have hs : (mkMiddle true (cfgG q bh) (middleBits q.isSome (cfgG q bh)) (level bt bound (j + 2)).length bound
      (level bt bound (j + 3)).length st).start = st := rfl
    rw [hs] at h1
    refine ⟨h1, h3, by omega, by rw [h4]; omega⟩

theorem bhikTable_length (bt : BT) (bound order start : Nat) (q : Option QSpec) (bh : Nat) (sm : SmallG bt bound order q)
    (j : Nat) (hj : j + 2 < order) :
    (bhikTable (midG bt bound order start q true bh j).inline
      (((midG bt bound order start q true bh j).offEnd - (midG bt bound order start q true bh j).offBegin) / 8)
      (childStarts bt (level bt bound (j + 2)))).length
      = ((midG bt bound order start q true bh j).offEnd - (midG bt bound order start q true bh j).offBegin) / 8 := by
  obtain ⟨_, _, _, _, _, harr⟩ := midG_fields bt bound order start q true bh sm j hj
  have hN : (level bt bound (j + 3)).length = (nextLevel bt (level bt bound (j + 2))).length := by
    rw [level_succ bt bound (j + 2) (by omega)]
  have hcount : ((midG bt bound order start q true bh j).offEnd - (midG bt bound order start q true bh j).offBegin) / 8
      = ((childStarts bt (level bt bound (j + 2))).getLast (childStarts_ne bt _) >>> (midG bt bound order start q true bh j).inline) + 1 := by
    rw [harr rfl, childStarts_last, hN]
  rw [hcount]
  exact (bhikTable_spec _ _ (childStarts_ne bt _) (childStarts_mono bt _)).1

theorem middle_block (bt : BT) (bound order start : Nat) (q : Option QSpec) (array : Bool) (bh : Nat) (sm : SmallG bt bound order q)
    (j : Nat) (hj : j + 2 < order) :
    (middleRegionsG bt bound q array bh j (midG bt bound order start q array bh j)).Pairwise RegionSpec.Before ∧
    ∀ R ∈ middleRegionsG bt bound q array bh j (midG bt bound order start q array bh j),
      Inside R (stG bt bound order start q array bh j) (stG bt bound order start q array bh j + szG bt bound order q array bh j) := by
  have ho := sm.small.order2
  obtain ⟨hst, hpk, hend, harr⟩ := midG_pos bt bound order start q array bh ho j hj
  cases array with
  | false =>
    simp only [middleRegionsG, Bool.false_eq_true, if_false, List.nil_append, List.pairwise_cons, List.not_mem_nil,
      List.Pairwise.nil, List.mem_singleton]
    refine ⟨⟨fun _ h => absurd h (by simp), trivial⟩, ?_⟩
    intro R hR
    subst hR
    constructor
    · show 8 * _ ≤ 8 * (midG bt bound order start q false bh j).packed; omega
    · show 8 * (midG bt bound order start q false bh j).packed + ((level bt bound (j + 2)).length + 1) * _ ≤ _
      exact hend
  | true =>
    obtain ⟨h1, h2, h3, h4⟩ := harr rfl
    have hlen := bhikTable_length bt bound order start q bh sm j hj
    generalize hm : midG bt bound order start q true bh j = m at *
    have hoffend : (offRegion m.offBegin (bhikTable m.inline ((m.offEnd - m.offBegin) / 8) (childStarts bt (level bt bound (j + 2))))).endBit
        = 8 * m.offEnd := by
      show 8 * m.offBegin + (bhikTable m.inline ((m.offEnd - m.offBegin) / 8) (childStarts bt (level bt bound (j + 2)))).length * 64 = _
      rw [hlen]; omega
    simp only [middleRegionsG, if_true, List.cons_append, List.nil_append]
    refine ⟨?_, ?_⟩
    · simp only [List.pairwise_cons, List.mem_cons, List.not_mem_nil, or_false, List.Pairwise.nil, and_true]
      refine ⟨?_, ?_⟩
      · rintro R (rfl | rfl)
        · show 8 * m.start + 2 * 8 ≤ 8 * m.offBegin; omega
        · show 8 * m.start + 2 * 8 ≤ 8 * m.packed; omega
      · refine ⟨?_, fun _ h => absurd h id⟩
        rintro R rfl
        show RegionSpec.endBit _ ≤ 8 * m.packed
        rw [hoffend]; omega
    · intro R hR
      simp only [List.mem_cons, List.not_mem_nil, or_false] at hR
      rcases hR with rfl | rfl | rfl
      · constructor
        · show 8 * _ ≤ 8 * m.start; omega
        · show 8 * m.start + 2 * 8 ≤ _; omega
      · constructor
        · show 8 * _ ≤ 8 * m.offBegin; omega
        · rw [hoffend]; omega
      · constructor
        · show 8 * _ ≤ 8 * m.packed; omega
        · show 8 * m.packed + ((level bt bound (j + 2)).length + 1) * _ ≤ _
          exact hend

theorem zip_range_flatMap {α β} [Inhabited α] (l : List α) (g : α × Nat → List β) :
    (l.zip (List.range l.length)).flatMap g = (List.range l.length).flatMap (fun j => g (l.getD j default, j)) := by
  rw [List.flatMap_def, List.flatMap_def, zip_range_map l default g]

theorem tabRegion_inside (off : Nat) (tab : List Nat) (n : Nat) (h : tab.length = n) :
    Inside (tabRegion off tab) off (off + n * 4) := by
  constructor
  · show 8 * off ≤ 8 * off; omega
  · show 8 * off + tab.length * 32 ≤ _; rw [h]; omega

/-- the quantiser block: header bytes, then the float tables in file order, all before the unigram array -/
theorem quant_block (bt : BT) (bound order start : Nat) (qs : QSpec) (array : Bool) (bh : Nat) (ho : 2 ≤ order)
    (qk : QOK order qs) :
    (quantRegionsG order (setupG bt bound order start (some qs) array bh) (some qs)).Pairwise RegionSpec.Before ∧
    ∀ R ∈ quantRegionsG order (setupG bt bound order start (some qs) array bh) (some qs),
      Inside R start (s1G order start (some qs) bh) := by
  have hq : (setupG bt bound order start (some qs) array bh).quant = start := rfl
  have hqt : (setupG bt bound order start (some qs) array bh).quantTables = quantTables true order (cfgG (some qs) bh) start := by
    unfold setupG trieSetup; simp [countsOf_length]
  obtain ⟨hT, hTl⟩ := quantTables_getD order (cfgG (some qs) bh) start
  have hA : qA (cfgG (some qs) bh) = 2^qs.probBits * 4 := rfl
  have hM : qM (cfgG (some qs) bh) = 2^qs.probBits * 4 + 2^qs.backoffBits * 4 := rfl
  have hS1 : s1G order start (some qs) bh = start + 8 + (order - 2) * qM (cfgG (some qs) bh) + 2^qs.probBits * 4 := by
    show start + ((order - 2) * (2 ^ qs.backoffBits * 4 + 2 ^ qs.probBits * 4) + 2 ^ qs.probBits * 4 + 8) = _
    rw [hM, Nat.add_comm (2 ^ qs.backoffBits * 4) _]; omega
  generalize hMM : qM (cfgG (some qs) bh) = M at *
  simp only [quantRegionsG, hq, hqt]
  -- the pairs of tables
  have hpair : ∀ t, t < order - 2 →
      ([tabRegion ((quantTables true order (cfgG (some qs) bh) start).getD (2 * t) 0) (qs.ptab t),
        tabRegion ((quantTables true order (cfgG (some qs) bh) start).getD (2 * t + 1) 0) (qs.btab t)] : List RegionSpec).Pairwise RegionSpec.Before ∧
      ∀ R ∈ ([tabRegion ((quantTables true order (cfgG (some qs) bh) start).getD (2 * t) 0) (qs.ptab t),
        tabRegion ((quantTables true order (cfgG (some qs) bh) start).getD (2 * t + 1) 0) (qs.btab t)] : List RegionSpec),
        Inside R (start + 8 + t * M) (start + 8 + (t + 1) * M) := by
    intro t ht
    obtain ⟨g1, g2⟩ := hT t (by omega)
    rw [g1, g2, hA]
    have i1 := tabRegion_inside (start + 8 + t * M) (qs.ptab t) _ (qk.plen t)
    have i2 := tabRegion_inside (start + 8 + t * M + 2 ^ qs.probBits * 4) (qs.btab t) _ (qk.blen t)
    have e : (t + 1) * M = t * M + M := Nat.succ_mul t M
    refine ⟨?_, ?_⟩
    · simp only [List.pairwise_cons, List.mem_cons, List.not_mem_nil, or_false, List.Pairwise.nil, and_true]
      refine ⟨?_, fun _ h => absurd h id⟩
      rintro R rfl
      have := i1.2
      show RegionSpec.endBit _ ≤ 8 * _
      omega
    · intro R hR
      simp only [List.mem_cons, List.not_mem_nil, or_false] at hR
      unfold Inside at i1 i2 ⊢
      rcases hR with rfl | rfl
      · refine ⟨i1.1, ?_⟩; have := i1.2; omega
      · refine ⟨?_, ?_⟩
        · have := i2.1; omega
        · have := i2.2; omega
  have hF := pw_blocks (fun t => [tabRegion ((quantTables true order (cfgG (some qs) bh) start).getD (2 * t) 0) (qs.ptab t),
        tabRegion ((quantTables true order (cfgG (some qs) bh) start).getD (2 * t + 1) 0) (qs.btab t)])
      (fun t => start + 8 + t * M) (fun t => start + 8 + (t + 1) * M) (order - 2) hpair
      (by intro j j' hlt _
          have : (j + 1) * M ≤ j' * M := Nat.mul_le_mul_right _ hlt
          show start + 8 + (j + 1) * M ≤ start + 8 + j' * M
          omega)
  have hFin := inside_blocks (fun t => [tabRegion ((quantTables true order (cfgG (some qs) bh) start).getD (2 * t) 0) (qs.ptab t),
        tabRegion ((quantTables true order (cfgG (some qs) bh) start).getD (2 * t + 1) 0) (qs.btab t)])
      (fun t => start + 8 + t * M) (fun t => start + 8 + (t + 1) * M) (order - 2) (start + 8) (start + 8 + (order - 2) * M)
      (fun t ht => (hpair t ht).2) (fun t _ => by show start + 8 ≤ start + 8 + t * M; omega)
      (fun t ht => by
        have : (t + 1) * M ≤ (order - 2) * M := Nat.mul_le_mul_right _ ht
        show start + 8 + (t + 1) * M ≤ _
        omega)
  have hhdr : Inside (bytesRegion start [2, qs.probBits, qs.backoffBits]) start (start + 8) := by
    constructor
    · show 8 * start ≤ 8 * start; omega
    · show 8 * start + 3 * 8 ≤ _; omega
  have hl := tabRegion_inside (start + 8 + (order - 2) * M) (qs.ptab (order - 2)) _ (qk.plen _)
  rw [hTl]
  refine ⟨?_, ?_⟩
  · apply pw_cut _ _ (8 * (start + 8 + (order - 2) * M))
    · apply pw_cut _ _ (8 * (start + 8))
      · simp
      · exact hF
      · intro a ha; simp only [List.mem_singleton] at ha; subst ha; exact hhdr.2
      · intro b hb; exact (hFin b hb).1
    · simp
    · intro a ha
      simp only [List.mem_append, List.mem_singleton] at ha
      rcases ha with rfl | ha
      · have := hhdr.2; omega
      · exact (hFin a ha).2
    · intro b hb; simp only [List.mem_singleton] at hb; subst hb; exact hl.1
  · intro R hR
    simp only [List.mem_append, List.mem_singleton] at hR
    rw [hS1]
    unfold Inside at *
    rcases hR with (rfl | hR) | rfl
    · have := hhdr.1; have := hhdr.2; omega
    · have := (hFin R hR).1; have := (hFin R hR).2; omega
    · have := hl.1; have := hl.2; omega

/-- **shapeG_of_small** — the layout hypothesis of the read-back lemmas follows from the C04 layout model for every bit table with
vocabulary and level sizes below 2^57 and quantiser code widths ≤ 25, for all four trie classes and every `-a` setting -/
theorem shapeG_of_small (bt : BT) (bound order start : Nat) (q : Option QSpec) (array : Bool) (bh : Nat)
    (sm : SmallG bt bound order q) (qk : QOK' order q) : ShapeG bt bound order start q array bh := by
  have ho := sm.small.order2
  have hW : requiredBits bound ≤ 57 := requiredBits_le_of_lt _ 57 (by omega) sm.small.boundLt
  have c0 := cnt0 bt bound order (by omega)
  obtain ⟨hmidsC, hlongC, huniC, _⟩ := setupG_closed bt bound order start q array bh
  have hnmid : (setupG bt bound order start q array bh).middles.length = order - 2 := by rw [hmidsC]; simp
  refine ⟨hnmid, fun om2 h => midG_fields bt bound order start q array bh sm om2 h, longG_fields bt bound order start q array bh sm, ?_,
    hW, ⟨Nat.lt_trans sm.small.boundLt (by decide), fun k hk => Nat.lt_trans (sm.small.levels k hk) (by decide)⟩⟩
  -- the regions in file order
  have hmids : ((setupG bt bound order start q array bh).middles.zip (List.range (setupG bt bound order start q array bh).middles.length)).flatMap
        (fun mi => middleRegionsG bt bound q array bh mi.2 mi.1)
      = (List.range (order - 2)).flatMap (fun j => middleRegionsG bt bound q array bh j (midG bt bound order start q array bh j)) := by
    rw [zip_range_flatMap, hnmid]; rfl
  have hstep : ∀ j, stG bt bound order start q array bh j + szG bt bound order q array bh j = stG bt bound order start q array bh (j + 1) := by
    intro j; simp only [stG, psum]; omega
  have hmono : ∀ i j, i ≤ j → stG bt bound order start q array bh i ≤ stG bt bound order start q array bh j := by
    intro i j h
    have := psum_mono (szG bt bound order q array bh) h
    simp only [stG]; omega
  have hMF := pw_blocks (fun j => middleRegionsG bt bound q array bh j (midG bt bound order start q array bh j))
    (stG bt bound order start q array bh) (fun j => stG bt bound order start q array bh j + szG bt bound order q array bh j) (order - 2)
    (fun j hj => middle_block bt bound order start q array bh sm j (by omega))
    (by intro j j' hlt _; show stG bt bound order start q array bh j + _ ≤ _; rw [hstep]; exact hmono _ _ hlt)
  have hMFin := inside_blocks (fun j => middleRegionsG bt bound q array bh j (midG bt bound order start q array bh j))
    (stG bt bound order start q array bh) (fun j => stG bt bound order start q array bh j + szG bt bound order q array bh j) (order - 2)
    (s2G bt bound order start q bh) (stG bt bound order start q array bh (order - 2))
    (fun j hj => (middle_block bt bound order start q array bh sm j (by omega)).2)
    (fun j _ => by have := hmono 0 j (Nat.zero_le _); simpa [stG, psum] using this)
    (fun j hj => by show stG bt bound order start q array bh j + _ ≤ _; rw [hstep]; exact hmono _ _ hj)
  have hQ : (quantRegionsG order (setupG bt bound order start q array bh) q).Pairwise RegionSpec.Before ∧
      ∀ R ∈ quantRegionsG order (setupG bt bound order start q array bh) q, Inside R start (s1G order start q bh) := by
    cases q with
    | none => simp [quantRegionsG]
    | some qs => exact quant_block bt bound order start qs array bh ho (qk qs rfl)
  have hUni : Inside (uniRegion bt bound (setupG bt bound order start q array bh).unigram) (s1G order start q bh) (s2G bt bound order start q bh) := by
    rw [huniC]
    constructor
    · show 8 * _ ≤ 8 * s1G order start q bh; omega
    · show 8 * s1G order start q bh + (bound + 1) * (8 * Gen.C04.sizeofTrieUnigramValue) ≤ _
      simp only [s2G, trieUnigramSize, c0, Gen.C04.sizeofTrieUnigramValue]; omega
  have hLongBase : (longRegionG bt bound order (setupG bt bound order start q array bh).longest.1 (setupG bt bound order start q array bh).longest.2.1
      (setupG bt bound order start q array bh).longest.2.2 q).base = 8 * stG bt bound order start q array bh (order - 2) := by
    show 8 * (setupG bt bound order start q array bh).longest.1 = _
    rw [hlongC]; rfl
  show (quantRegionsG order (setupG bt bound order start q array bh) q
      ++ [uniRegion bt bound (setupG bt bound order start q array bh).unigram]
      ++ ((setupG bt bound order start q array bh).middles.zip (List.range (setupG bt bound order start q array bh).middles.length)).flatMap
          (fun mi => middleRegionsG bt bound q array bh mi.2 mi.1)
      ++ [longRegionG bt bound order (setupG bt bound order start q array bh).longest.1 (setupG bt bound order start q array bh).longest.2.1
          (setupG bt bound order start q array bh).longest.2.2 q]).Pairwise RegionSpec.Before
  rw [hmids]
  have hs12 : s1G order start q bh ≤ s2G bt bound order start q bh := by simp only [s2G]; omega
  apply pw_cut _ _ (8 * stG bt bound order start q array bh (order - 2))
  · apply pw_cut _ _ (8 * s2G bt bound order start q bh)
    · apply pw_cut _ _ (8 * s1G order start q bh)
      · exact hQ.1
      · simp
      · intro a ha; exact (hQ.2 a ha).2
      · intro b hb; simp only [List.mem_singleton] at hb; subst hb; exact hUni.1
    · exact hMF
    · intro a ha
      simp only [List.mem_append, List.mem_singleton] at ha
      rcases ha with ha | rfl
      · have := (hQ.2 a ha).2; omega
      · exact hUni.2
    · intro b hb; exact (hMFin b hb).1
  · simp
  · intro a ha
    have h2 := hmono 0 (order - 2) (Nat.zero_le _)
    have h20 : stG bt bound order start q array bh 0 = s2G bt bound order start q bh := by simp [stG, psum]
    simp only [List.mem_append, List.mem_singleton] at ha
    rcases ha with (ha | rfl) | ha
    · have := (hQ.2 a ha).2; omega
    · have := hUni.2; omega
    · exact (hMFin a ha).2
  · intro b hb; simp only [List.mem_singleton] at hb; subst hb; rw [hLongBase]; omega

end KV.TrieLM
