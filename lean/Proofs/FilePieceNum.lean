import Proofs.FilePieceOps
/-! The integer grammars (`strtol` / `strtoul` + kenlm's error test) satisfy `GrammarOK`. -/
namespace KV.FilePiece

theorem takeWhile_append_stop {p : Byte → Bool} (l : List Byte) {x : Byte} (m : List Byte) (hx : p x = false) :
    (l ++ x :: m).takeWhile p = l.takeWhile p := by
  induction l with
  | nil => simp [List.takeWhile, hx]
  | cons a l ih =>
    by_cases ha : p a
    · simp [List.takeWhile, ha, ih]
    · simp [List.takeWhile, ha]

theorem dropWhile_of_head {p : Byte → Bool} {a : Byte} {l : List Byte} (h : p a = false) :
    (a :: l).dropWhile p = a :: l := by simp [List.dropWhile, h]

theorem space_not_digit {b : Byte} (h : isSpace b = true) : isDigit b = false := by
  simp only [isSpace, Bool.or_eq_true, beq_iff_eq] at h
  simp only [isDigit]
  rcases h with ((((h | h) | h) | h) | h) | h <;> subst h <;> decide

theorem splitSign_length (s : List Byte) :
    (splitSign s).2.2.length + (if (splitSign s).1 then 1 else 0) = s.length := by
  unfold splitSign
  split <;> simp

/-- splitting the sign off `tok ++ sp :: junk` when `tok` starts with a non-space -/
theorem splitSign_append (a : Byte) (t : List Byte) (m : List Byte) :
    splitSign (a :: t ++ m) = ((splitSign (a :: t)).1, (splitSign (a :: t)).2.1, (splitSign (a :: t)).2.2 ++ m) := by
  unfold splitSign
  by_cases h1 : a = 43
  · subst h1; rfl
  · by_cases h2 : a = 45
    · subst h2; rfl
    · have e1 : ∀ (l : List Byte), (match (a :: l) with
          | 43 :: r => (true, false, r) | 45 :: r => (true, true, r) | _ => (false, false, a :: l)) = (false, false, a :: l) := by
        intro l
        split
        · rename_i heq; simp at heq; exact absurd heq.1 h1
        · rename_i heq; simp at heq; exact absurd heq.1 h2
        · rfl
      have := e1 (t ++ m)
      have := e1 t
      simp_all

theorem gInt_common_count (s : List Byte) :
    (s.length - (s.dropWhile isSpace).length) + (if (splitSign (s.dropWhile isSpace)).1 then 1 else 0) +
      ((splitSign (s.dropWhile isSpace)).2.2.takeWhile isDigit).length ≤ s.length := by
  have h1 := splitSign_length (s.dropWhile isSpace)
  have h2 : ((splitSign (s.dropWhile isSpace)).2.2.takeWhile isDigit).length ≤ (splitSign (s.dropWhile isSpace)).2.2.length :=
    (List.takeWhile_sublist _).length_le
  have h3 : (s.dropWhile isSpace).length ≤ s.length := (List.dropWhile_sublist _).length_le
  omega

theorem gLong_ok : GrammarOK gLong where
  count_le := by
    intro s v c h
    have hc := gInt_common_count s
    unfold gLong at h
    simp only at h
    split at h
    · simp at h
    · split at h
      · split at h
        · simp at h; omega
        · simp at h
      · split at h
        · simp at h; omega
        · simp at h
  prefix_det := by
    intro tok sp junk hne hns hs
    cases tok with
    | nil => exact absurd rfl hne
    | cons a t =>
      have ha : isSpace a = false := hns a (by simp)
      unfold gLong
      simp only
      rw [show (a :: t ++ sp :: junk) = a :: (t ++ sp :: junk) from rfl, dropWhile_of_head ha, dropWhile_of_head ha,
          ← List.cons_append, splitSign_append]
      simp only
      rw [takeWhile_append_stop _ _ (space_not_digit hs)]
      simp only [List.length_append, List.length_cons]
      have : a :: t ++ sp :: junk = a :: (t ++ sp :: junk) := rfl
      simp
  empty := by decide

theorem gULong_ok : GrammarOK gULong where
  count_le := by
    intro s v c h
    have hc := gInt_common_count s
    unfold gULong at h
    simp only at h
    split at h
    · simp at h
    · split at h
      · simp at h
      · simp at h; omega
  prefix_det := by
    intro tok sp junk hne hns hs
    cases tok with
    | nil => exact absurd rfl hne
    | cons a t =>
      have ha : isSpace a = false := hns a (by simp)
      unfold gULong
      simp only
      rw [show (a :: t ++ sp :: junk) = a :: (t ++ sp :: junk) from rfl, dropWhile_of_head ha, dropWhile_of_head ha,
          ← List.cons_append, splitSign_append]
      simp only
      rw [takeWhile_append_stop _ _ (space_not_digit hs)]
      simp
  empty := by decide

end KV.FilePiece
