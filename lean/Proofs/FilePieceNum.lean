import Proofs.FilePieceOps
/-! The integer grammars (`strtol` / `strtoul` + kenlm's error test) satisfy `GrammarOK`. -/
namespace KV.FilePiece

theorem takeWhile_append_stop {p : Byte → Bool} (l : List Byte) {x : Byte} (m : List Byte) (hx : p x = false) :
    (l ++ x :: m).takeWhile p = l.takeWhile p := by
  induction l with
  | nil => simp [List.takeWhile, hx]
  | cons a l ih =>
    by_cases ha : p a
    · simp [List.takeWhile, ha, ih]
    · simp [List.takeWhile, ha]

theorem dropWhile_of_head {p : Byte → Bool} {a : Byte} {l : List Byte} (h : p a = false) :
    (a :: l).dropWhile p = a :: l := by simp [List.dropWhile, h]

theorem space_not_digit {b : Byte} (h : isSpace b = true) : isDigit b = false := by
  simp only [isSpace, Bool.or_eq_true, beq_iff_eq] at h
  simp only [isDigit]
  rcases h with ((((h | h) | h) | h) | h) | h <;> subst h <;> decide

theorem splitSign_length (s : List Byte) :
    (splitSign s).2.2.length + (if (splitSign s).1 then 1 else 0) = s.length := by
  unfold splitSign
  split <;> simp

/-- splitting the sign off `tok ++ sp :: junk` when `tok` starts with a non-space -/
theorem splitSign_append (a : Byte) (t : List Byte) (m : List Byte) :
    splitSign (a :: t ++ m) = ((splitSign (a :: t)).1, (splitSign (a :: t)).2.1, (splitSign (a :: t)).2.2 ++ m) := by
  unfold splitSign
  by_cases h1 : a = 43
  · subst h1; rfl
  · by_cases h2 : a = 45
    · subst h2; rfl
    · have e1 : ∀ (l : List Byte), (match (a :: l) with
          | 43 :: r => (true, false, r) | 45 :: r => (true, true, r) | _ => (false, false, a :: l)) = (false, false, a :: l) := by
        intro l
        split
        · rename_i heq; simp at heq; exact absurd heq.1 h1
        · rename_i heq; simp at heq; exact absurd heq.1 h2
        · rfl
      have := e1 (t ++ m)
      have := e1 t
      simp_all

theorem gInt_common_count (s : List Byte) :
    (s.length - (s.dropWhile isSpace).length) + (if (splitSign (s.dropWhile isSpace)).1 then 1 else 0) +
      ((splitSign (s.dropWhile isSpace)).2.2.takeWhile isDigit).length ≤ s.length := by
  have h1 := splitSign_length (s.dropWhile isSpace)
  have h2 : ((splitSign (s.dropWhile isSpace)).2.2.takeWhile isDigit).length ≤ (splitSign (s.dropWhile isSpace)).2.2.length :=
    (List.takeWhile_sublist _).length_le
  have h3 : (s.dropWhile isSpace).length ≤ s.length := (List.dropWhile_sublist _).length_le
  omega

theorem gLong_ok : GrammarOK gLong where
  count_le := by
    intro s v c h
    have hc := gInt_common_count s
    unfold gLong at h
    simp only at h
    split at h
    · simp at h
    · split at h
      · split at h
        · simp at h; omega
        · simp at h
      · split at h
        · simp at h; omega
        · simp at h
  prefix_det := by
    intro tok sp junk hne hns hs
    cases tok with
    | nil => exact absurd rfl hne
    | cons a t =>
      have ha : isSpace a = false := hns a (by simp)
      unfold gLong
      simp only
      rw [show (a :: t ++ sp :: junk) = a :: (t ++ sp :: junk) from rfl, dropWhile_of_head ha, dropWhile_of_head ha,
          ← List.cons_append, splitSign_append]
      simp only
      rw [takeWhile_append_stop _ _ (space_not_digit hs)]
      simp only [List.length_append, List.length_cons]
      have : a :: t ++ sp :: junk = a :: (t ++ sp :: junk) := rfl
      simp
  empty := by decide

theorem gULong_ok : GrammarOK gULong where
  count_le := by
    intro s v c h
    have hc := gInt_common_count s
    unfold gULong at h
    simp only at h
    split at h
    · simp at h
    · split at h
      · simp at h
      · simp at h; omega
  prefix_det := by
    intro tok sp junk hne hns hs
    cases tok with
    | nil => exact absurd rfl hne
    | cons a t =>
      have ha : isSpace a = false := hns a (by simp)
      unfold gULong
      simp only
      rw [show (a :: t ++ sp :: junk) = a :: (t ++ sp :: junk) from rfl, dropWhile_of_head ha, dropWhile_of_head ha,
          ← List.cons_append, splitSign_append]
      simp only
      rw [takeWhile_append_stop _ _ (space_not_digit hs)]
      simp
  empty := by decide

end KV.FilePiece

/-! ### the floating-point grammar: a function of the token except on `NaN` / `nan` -/
namespace KV.FilePiece

theorem dropWhile_append_stop {p : Byte → Bool} (l : List Byte) {x : Byte} (m : List Byte) (hx : p x = false) :
    (l ++ x :: m).dropWhile p = l.dropWhile p ++ x :: m := by
  induction l with
  | nil => simp [List.dropWhile, hx]
  | cons a l ih =>
    by_cases ha : p a
    · simp [List.dropWhile, ha, ih]
    · simp [List.dropWhile, ha]

/-- what we need to know about a space byte -/
theorem space_facts {b : Byte} (h : isSpace b = true) :
    (b == 48) = false ∧ isDigit b = false ∧ b ≠ 46 ∧ (b == 101 || b == 69) = false ∧ b ≠ 43 ∧ b ≠ 45 ∧
    (b == 105) = false ∧ (b == 78) = false ∧ b ≠ 110 ∧ b ≠ 102 ∧ b ≠ 97 := by
  simp only [isSpace, Bool.or_eq_true, beq_iff_eq] at h
  rcases h with ((((h | h) | h) | h) | h) | h <;> subst h <;> decide

theorem splitSign_space {sp : Byte} (j : List Byte) (h : isSpace sp = true) :
    splitSign (sp :: j) = (false, false, sp :: j) := by
  obtain ⟨_, _, _, _, h43, h45, _⟩ := space_facts h
  unfold splitSign
  split
  · rename_i heq; simp at heq; exact absurd heq.1 h43
  · rename_i heq; simp at heq; exact absurd heq.1 h45
  · rfl

/-- `splitSign` of `x ++ sp :: j` for any `x` -/
theorem splitSign_append' (x : List Byte) {sp : Byte} (j : List Byte) (h : isSpace sp = true) :
    splitSign (x ++ sp :: j) = ((splitSign x).1, (splitSign x).2.1, (splitSign x).2.2 ++ sp :: j) := by
  cases x with
  | nil => rw [List.nil_append, splitSign_space j h]; rfl
  | cons a t => exact splitSign_append a t (sp :: j)

theorem convFrac_append (x : List Byte) {sp : Byte} (j : List Byte) (h : isSpace sp = true) :
    convFrac (x ++ sp :: j) = ((convFrac x).1, (convFrac x).2 ++ sp :: j) := by
  obtain ⟨_, hd, h46, _⟩ := space_facts h
  cases x with
  | nil =>
    simp only [List.nil_append, convFrac]
    split
    · rename_i heq; simp at heq; exact absurd heq.1 h46
    · rfl
  | cons a r =>
    by_cases ha : a = 46
    · subst ha
      simp only [List.cons_append, convFrac, takeWhile_append_stop r j hd, dropWhile_append_stop r j hd]
    · have e : ∀ l : List Byte, convFrac (a :: l) = ([], a :: l) := by
        intro l; unfold convFrac
        split
        · rename_i heq; simp at heq; exact absurd heq.1 ha
        · rfl
      rw [List.cons_append, e, e]; rfl

theorem convExp_append (x : List Byte) {sp : Byte} (j : List Byte) (h : isSpace sp = true) :
    convExp (x ++ sp :: j) = ((convExp x).1, (convExp x).2 ++ sp :: j) := by
  obtain ⟨_, hd, _, he, _⟩ := space_facts h
  cases x with
  | nil => simp [convExp, he]
  | cons e r =>
    simp only [List.cons_append, convExp]
    by_cases hee : (e == 101 || e == 69) = true
    · simp only [hee, ↓reduceIte, splitSign_append' r j h, takeWhile_append_stop _ j hd, dropWhile_append_stop _ j hd]
      split <;> rfl
    · simp only [hee, Bool.false_eq_true, ↓reduceIte]; rfl

theorem convNum_append (neg : Bool) (n : Nat) (x : List Byte) {sp : Byte} (j : List Byte) (h : isSpace sp = true) :
    convNum neg (n + (j.length + 1)) (x ++ sp :: j) = convNum neg n x := by
  obtain ⟨h48, hd, _⟩ := space_facts h
  have t1 : (x ++ sp :: j).takeWhile (· == 48) = x.takeWhile (· == 48) := takeWhile_append_stop x j h48
  have d1 : (x ++ sp :: j).dropWhile (· == 48) = x.dropWhile (· == 48) ++ sp :: j := dropWhile_append_stop x j h48
  unfold convNum
  simp only [t1, d1]
  rw [takeWhile_append_stop _ j hd, dropWhile_append_stop _ j hd, convFrac_append _ j h]
  simp only [convExp_append _ j h, List.length_append, List.length_cons]
  rw [Nat.add_sub_add_right]

theorem startsWith_inf_append (x : List Byte) {sp : Byte} (j : List Byte) (h : isSpace sp = true) :
    startsWith (x ++ sp :: j) [105, 110, 102] = startsWith x [105, 110, 102] := by
  obtain ⟨_, _, _, _, _, _, h105, _, h110, h102, _⟩ := space_facts h
  have h105' : sp ≠ 105 := by simpa using h105
  unfold startsWith
  match x with
  | [] => simp [h105']
  | [a] => simp [h110]
  | [a, b] => simp [h102]
  | a :: b :: c :: r => simp

theorem startsWith_nan_append (x : List Byte) {sp : Byte} (j : List Byte) (h : isSpace sp = true) :
    startsWith (x ++ sp :: j) [78, 97, 78] = startsWith x [78, 97, 78] := by
  obtain ⟨_, _, _, _, _, _, _, h78, _, _, h97⟩ := space_facts h
  have h78' : sp ≠ 78 := by simpa using h78
  unfold startsWith
  match x with
  | [] => simp [h78']
  | [a] => simp [h97]
  | [a, b] => simp [h78']
  | a :: b :: c :: r => simp

/-- the converter looks at the token only -/
theorem conv_append (a : Byte) (t : List Byte) {sp : Byte} (j : List Byte) (hns : ∀ b ∈ a :: t, isSpace b = false)
    (h : isSpace sp = true) :
    conv (a :: t ++ sp :: j) = conv (a :: t) := by
  have hlen : (a :: t ++ sp :: j).length = (a :: t).length + (j.length + 1) := by
    simp only [List.length_append, List.length_cons]
  have hsl := splitSign_length (a :: t)
  unfold conv
  rw [splitSign_append' (a :: t) j h]
  simp only [List.cons_append, List.isEmpty_cons, Bool.false_eq_true, ↓reduceIte]
  -- the part after the sign
  have hmem : ∀ b ∈ (splitSign (a :: t)).2.2, isSpace b = false := by
    intro b hb
    apply hns
    unfold splitSign at hb
    split at hb
    · rename_i heq; simp at heq; rw [heq.1, heq.2]; exact List.mem_cons_of_mem _ hb
    · rename_i heq; simp at heq; rw [heq.1, heq.2]; exact List.mem_cons_of_mem _ hb
    · exact hb
  generalize hc1 : (splitSign (a :: t)).2.2 = c1 at hmem hsl
  cases c1 with
  | nil =>
    -- the token is just a sign: junk; with the window behind it: a space after the sign, junk as well
    have hs : (splitSign (a :: t)).1 = true := by
      cases hh : (splitSign (a :: t)).1 with
      | true => rfl
      | false => rw [hh] at hsl; simp at hsl
    simp [hs, h]
  | cons c r =>
    have hc : isSpace c = false := hmem c (by simp)
    simp only [List.cons_append, hc, Bool.and_false, Bool.false_eq_true, ↓reduceIte]
    have e1 := startsWith_inf_append (c :: r) j h
    have e2 := startsWith_nan_append (c :: r) j h
    simp only [List.cons_append] at e1 e2
    rw [e1, e2]
    have hcnt : (a :: (t ++ sp :: j)).length - ((c :: (r ++ sp :: j)).length - 3) = (a :: t).length - ((c :: r).length - 3) ∨
        startsWith (c :: r) [105, 110, 102] = false ∧ startsWith (c :: r) [78, 97, 78] = false := by
      by_cases hl : 3 ≤ (c :: r).length
      · left; simp only [List.length_cons, List.length_append] at hl ⊢; omega
      · right
        simp only [List.length_cons] at hl
        have : r.length ≤ 1 := by omega
        match r, this with
        | [], _ => simp [startsWith]
        | [x], _ => simp [startsWith]
    have hnum := convNum_append (splitSign (a :: t)).2.1 (a :: t).length (c :: r) j h
    simp only [List.cons_append] at hnum
    have hlen' : (a :: (t ++ sp :: j)).length = (a :: t).length + (j.length + 1) := by simpa using hlen
    rw [hlen', hnum]
    rcases hcnt with hcnt | ⟨f1, f2⟩
    · rw [← hlen', hcnt]
    · simp [f1, f2]

def floatGood (tok : List Byte) : Prop := tok ≠ [78, 97, 78] ∧ tok ≠ [110, 97, 110]

theorem conv_count_le (s : List Byte) :
    (∀ c, conv s = .nan c → c ≤ s.length) ∧ (∀ ng c, conv s = .inf ng c → c ≤ s.length) ∧
    (∀ ng m e c, conv s = .val ng m e c → c ≤ s.length) := by
  unfold conv
  split
  · simp
  · split
    · simp
    · split
      · simp
      · split
        · split
          · refine ⟨by simp, ?_, by simp⟩
            intro ng c hc; simp only [Conv.inf.injEq] at hc; rw [← hc.2]; exact Nat.sub_le _ _
          · simp
        · split
          · split
            · refine ⟨?_, by simp, by simp⟩
              intro c hc; simp only [Conv.nan.injEq] at hc; rw [← hc]; exact Nat.sub_le _ _
            · simp
          · unfold convNum
            simp only
            split
            · simp
            · refine ⟨by simp, by simp, ?_⟩
              intro ng m e c hc; simp only [Conv.val.injEq] at hc; rw [← hc.2.2.2]; exact Nat.sub_le _ _

theorem gFloat_ok (dbl : Bool) : GrammarOK (gFloat dbl) where
  count_le := by
    intro s v c h
    obtain ⟨h1, h2, h3⟩ := conv_count_le s
    unfold gFloat at h
    cases hc : conv s with
    | junk => rw [hc] at h; cases h
    | nan cnt =>
      rw [hc] at h; simp only at h
      split at h
      · simp only [Option.some.injEq, Prod.mk.injEq] at h; have := h1 cnt hc; omega
      · cases h
    | inf ng cnt =>
      rw [hc] at h; simp only [Option.some.injEq, Prod.mk.injEq] at h; have := h2 ng cnt hc; omega
    | val ng m e cnt =>
      rw [hc] at h; simp only [Option.some.injEq, Prod.mk.injEq] at h; have := h3 ng m e cnt hc; omega
  prefix_det := by
    intro tok sp junk hne hns hs _
    cases tok with
    | nil => exact absurd rfl hne
    | cons a t =>
      have hconv := conv_append a t junk hns hs
      obtain ⟨h1, _, _⟩ := conv_count_le (a :: t)
      unfold gFloat
      rw [hconv]
      cases hc : conv (a :: t) with
      | nan cnt =>
        have := h1 cnt hc
        simp only
        rw [List.take_append_of_le_length this]
      | _ => rfl
  empty := by cases dbl <;> decide

/-- **the concrete grammars of the model satisfy the grammar hypotheses**: the integer ones on every token, the
floating-point ones too now that the NaN test looks at the consumed characters. -/
theorem grammar_ok : ∀ k, GrammarOK (grammar k) := by
  intro k
  cases k with
  | float => exact gFloat_ok false
  | double => exact gFloat_ok true
  | long => exact gLong_ok
  | ulong => exact gULong_ok

end KV.FilePiece
