import Model.Probing
/-!
Linear probing without modular arithmetic: cyclic paths as linear-arithmetic predicates, the
`UncheckedInsert` loop (`firstEmpty`) and the `Find` loop (`scan`).
-/
namespace KV.Probing

/-- the buckets visited when scanning from `a` and stopping at `p` (exclusive), cyclically in `[0, N)` -/
def onPath (N a p x : Nat) : Prop := (a ≤ p ∧ a ≤ x ∧ x < p) ∨ (p < a ∧ ((a ≤ x ∧ x < N) ∨ x < p))

/-- every bucket on the way from `a` to `p` is occupied -/
def PathOK (s : Slots) (N a p : Nat) : Prop := ∀ x, onPath N a p x → s x ≠ none

/-- cyclic distance from `a` to `b` -/
def dist (N a b : Nat) : Nat := if a ≤ b then b - a else b + N - a

theorem next_cases (N i : Nat) (hi : i < N) :
    (next N i = 0 ∧ i + 1 = N) ∨ (next N i = i + 1 ∧ i + 1 < N) := by
  unfold next; split <;> omega

theorem next_lt (N i : Nat) (hi : i < N) : next N i < N := by
  have := next_cases N i hi; omega

theorem onPath_step (N i q x : Nat) (hi : i < N) (hq : q < N) (hne : i ≠ q) :
    onPath N i q x ↔ x = i ∨ onPath N (next N i) q x := by
  have := next_cases N i hi
  unfold onPath
  omega

theorem onPath_self (N i x : Nat) : ¬ onPath N i i x := by
  unfold onPath; omega

theorem onPath_lt (N a p x : Nat) (ha : a < N) (hp : p < N) (h : onPath N a p x) : x < N := by
  unfold onPath at h; omega

theorem dist_next (N i e : Nat) (hi : i < N) (he : e < N) (hne : i ≠ e) :
    dist N (next N i) e + 1 = dist N i e := by
  have := next_cases N i hi
  unfold dist
  split <;> split <;> omega

theorem dist_lt (N a b : Nat) (ha : a < N) (hb : b < N) : dist N a b < N := by
  unfold dist; split <;> omega

theorem PathOK_mono (s s' : Slots) (N a p : Nat) (h : ∀ x, s x ≠ none → s' x ≠ none)
    (hp : PathOK s N a p) : PathOK s' N a p := fun x hx => h x (hp x hx)

/-! ### `UncheckedInsert` loop -/

/-- with a hole `e` within reach of the fuel, the loop stops at an empty bucket `q` and every
bucket from the start to `q` is occupied -/
theorem firstEmpty_spec (s : Slots) (N e : Nat) (he : e < N) (hes : s e = none) :
    ∀ fuel i, i < N → dist N i e < fuel →
      ∃ q, firstEmpty s N fuel i = some q ∧ q < N ∧ s q = none ∧ PathOK s N i q := by
  intro fuel
  induction fuel with
  | zero => intro i _ h; omega
  | succ f ih =>
    intro i hi hd
    cases hsi : s i with
    | none =>
      refine ⟨i, ?_, hi, hsi, ?_⟩
      · simp [firstEmptyWith, hsi]
      · intro x hx; exact absurd hx (onPath_self N i x)
    | some en =>
      have hie : i ≠ e := by intro h; subst h; rw [hes] at hsi; cases hsi
      have hd' : dist N (next N i) e < f := by
        have := dist_next N i e hi he hie; omega
      obtain ⟨q, hq, hqN, hqs, hp⟩ := ih (next N i) (next_lt N i hi) hd'
      refine ⟨q, ?_, hqN, hqs, ?_⟩
      · simp [firstEmptyWith, hsi]; exact hq
      · intro x hx
        have hiq : i ≠ q := by intro h; subst h; rw [hqs] at hsi; cases hsi
        rcases (onPath_step N i q x hi hqN hiq).1 hx with h | h
        · subst h; rw [hsi]; simp
        · exact hp x h

/-- fuel `N` always suffices when a hole exists -/
theorem firstEmpty_total (s : Slots) (N e i : Nat) (he : e < N) (hes : s e = none) (hi : i < N) :
    ∃ q, firstEmpty s N N i = some q ∧ q < N ∧ s q = none ∧ PathOK s N i q :=
  firstEmpty_spec s N e he hes N i hi (dist_lt N i e hi he)

/-- the stopping bucket is determined by "first empty bucket on the cyclic path" -/
theorem firstEmpty_unique (s : Slots) (N i q q' : Nat) (_hi : i < N) (hq : q < N) (hq' : q' < N)
    (hs : s q = none) (hs' : s q' = none) (hp : PathOK s N i q) (hp' : PathOK s N i q') : q = q' := by
  apply Classical.byContradiction
  intro hne
  have h1 : ¬ onPath N i q q' := fun h => hp q' h hs'
  have h2 : ¬ onPath N i q' q := fun h => hp' q h hs
  unfold onPath at h1 h2
  omega

/-! ### `Find` loop -/

/-- a stored key whose probe path is occupied and which is stored only once is found -/
theorem scan_found (s : Slots) (N k p v : Nat) (hp : p < N) (hs : s p = some (k, v))
    (hd : ∀ q w, q < N → s q = some (k, w) → q = p) :
    ∀ fuel i, i < N → dist N i p < fuel → PathOK s N i p →
      scan s N k fuel i = some (.found p v) := by
  intro fuel
  induction fuel with
  | zero => intro i _ h; omega
  | succ f ih =>
    intro i hi hdist hpath
    by_cases hip : i = p
    · subst hip
      simp [scanWith, hs]
    · have hon : onPath N i p i := by unfold onPath; omega
      have hne := hpath i hon
      cases hsi : s i with
      | none => exact absurd hsi hne
      | some en =>
        obtain ⟨k', v'⟩ := en
        have hk : k' ≠ k := by
          intro h; subst h
          exact hip (hd i v' hi hsi)
        have hd' : dist N (next N i) p < f := by
          have := dist_next N i p hi hp hip; omega
        have hpath' : PathOK s N (next N i) p := fun x hx =>
          hpath x ((onPath_step N i p x hi hp hip).2 (Or.inr hx))
        have := ih (next N i) (next_lt N i hi) hd' hpath'
        simp [scanWith, hsi, hk]; exact this

/-- for a key that is not stored, `Find`'s loop is `UncheckedInsert`'s loop -/
theorem scan_absent_eq (s : Slots) (N k : Nat) (hk : ∀ q w, q < N → s q ≠ some (k, w)) :
    ∀ fuel i, i < N → scan s N k fuel i = (firstEmpty s N fuel i).map Probe.absent := by
  intro fuel
  induction fuel with
  | zero => intro i _; rfl
  | succ f ih =>
    intro i hi
    cases hsi : s i with
    | none => simp [scanWith, firstEmptyWith, hsi]
    | some en =>
      obtain ⟨k', v'⟩ := en
      have hne : k' ≠ k := by
        intro h; subst h; exact hk i v' hi hsi
      have := ih (next N i) (next_lt N i hi)
      simp [scanWith, firstEmptyWith, hsi, hne]; exact this

/-- whatever the scan returns is a bucket of the table holding that key, resp. an empty bucket -/
theorem scan_sound (s : Slots) (N k : Nat) :
    ∀ fuel i r, i < N → scan s N k fuel i = some r →
      match r with
      | .found p v => p < N ∧ s p = some (k, v)
      | .absent p => p < N ∧ s p = none := by
  intro fuel
  induction fuel with
  | zero => intro i r _ h; simp [scanWith] at h
  | succ f ih =>
    intro i r hi h
    cases hsi : s i with
    | none =>
      simp [scanWith, hsi] at h; subst h; exact ⟨hi, hsi⟩
    | some en =>
      obtain ⟨k', v'⟩ := en
      by_cases hk : k' = k
      · subst hk
        simp [scanWith, hsi] at h; subst h; exact ⟨hi, hsi⟩
      · simp [scanWith, hsi, hk] at h
        exact ih (next N i) r (next_lt N i hi) h

/-! ### fuel: `none` really means "the C++ loop does not terminate" -/

/-- if `f` steps from `i` did not stop, the `f` buckets from `i` on all hold other keys -/
theorem scan_none_path (s : Slots) (N k : Nat) :
    ∀ fuel i, i < N → scan s N k fuel i = none →
      ∀ x, x < N → dist N i x < fuel → ∃ k' v', s x = some (k', v') ∧ k' ≠ k := by
  intro fuel
  induction fuel with
  | zero => intro i _ _ x _ h; omega
  | succ f ih =>
    intro i hi h x hx hdx
    cases hsi : s i with
    | none => simp [scanWith, hsi] at h
    | some en =>
      obtain ⟨k', v'⟩ := en
      by_cases hk : k' = k
      · subst hk; simp [scanWith, hsi] at h
      · simp [scanWith, hsi, hk] at h
        by_cases hix : i = x
        · subst hix; exact ⟨k', v', hsi, hk⟩
        · have := dist_next N i x hi hx hix
          exact ih (next N i) (next_lt N i hi) h x hx (by omega)

/-- `scan … = none` with fuel `N`: every bucket holds another key, so the real loop (which has
no bound) cycles forever; and no amount of fuel changes that -/
theorem scan_none_all_other (s : Slots) (N k i : Nat) (hi : i < N) (h : scan s N k N i = none) :
    ∀ x, x < N → ∃ k' v', s x = some (k', v') ∧ k' ≠ k :=
  fun x hx => scan_none_path s N k N i hi h x hx (dist_lt N i x hi hx)

theorem scan_all_other_none (s : Slots) (N k : Nat)
    (hall : ∀ x, x < N → ∃ k' v', s x = some (k', v') ∧ k' ≠ k) :
    ∀ fuel i, i < N → scan s N k fuel i = none := by
  intro fuel
  induction fuel with
  | zero => intro i _; rfl
  | succ f ih =>
    intro i hi
    obtain ⟨k', v', hs, hk⟩ := hall i hi
    simp [scanWith, hs, hk]
    exact ih (next N i) (next_lt N i hi)

/-- more fuel never changes an answer -/
theorem scan_fuel_mono (s : Slots) (N k : Nat) :
    ∀ fuel i r m, scan s N k fuel i = some r → scan s N k (fuel + m) i = some r := by
  intro fuel
  induction fuel with
  | zero => intro i r m h; simp [scanWith] at h
  | succ f ih =>
    intro i r m h
    have e : f + 1 + m = (f + m) + 1 := by omega
    rw [e]
    cases hsi : s i with
    | none => simp [scanWith, hsi] at h ⊢; exact h
    | some en =>
      obtain ⟨k', v'⟩ := en
      by_cases hk : k' = k
      · subst hk; simp [scanWith, hsi] at h ⊢; exact h
      · simp [scanWith, hsi, hk] at h ⊢
        exact ih (next N i) r m h

/-! ### counting occupied buckets -/

def occ (s : Slots) : Nat → Nat
  | 0 => 0
  | n+1 => occ s n + (if (s n).isSome then 1 else 0)

theorem occ_le (s : Slots) : ∀ n, occ s n ≤ n := by
  intro n; induction n with
  | zero => simp [occ]
  | succ n ih => simp only [occ]; split <;> omega

/-- pigeonhole: fewer occupied buckets than buckets → there is a hole -/
theorem exists_hole (s : Slots) : ∀ n, occ s n < n → ∃ e, e < n ∧ s e = none := by
  intro n; induction n with
  | zero => intro h; omega
  | succ n ih =>
    intro h
    simp only [occ] at h
    cases hs : s n with
    | none => exact ⟨n, by omega, hs⟩
    | some en =>
      simp [hs] at h
      obtain ⟨e, he, hes⟩ := ih (by omega)
      exact ⟨e, by omega, hes⟩

theorem occ_congr (s s' : Slots) : ∀ n, (∀ i, i < n → s i = s' i) → occ s n = occ s' n := by
  intro n; induction n with
  | zero => intro _; rfl
  | succ n ih =>
    intro h
    simp only [occ]
    rw [ih (fun i hi => h i (by omega)), h n (by omega)]

theorem occ_set_ge (s : Slots) (p : Nat) (x : Option Entry) (n : Nat) (h : n ≤ p) :
    occ (set s p x) n = occ s n :=
  occ_congr _ _ n (fun i hi => by simp [set]; intro h'; omega)

theorem occ_set_some (s : Slots) (p : Nat) (x : Entry) : ∀ n, p < n → s p = none →
    occ (set s p (some x)) n = occ s n + 1 := by
  intro n; induction n with
  | zero => intro h; omega
  | succ n ih =>
    intro hp hs
    simp only [occ]
    by_cases hpn : p = n
    · subst hpn
      rw [occ_set_ge s p _ p (Nat.le_refl _)]
      simp [set, hs]
    · rw [ih (by omega) hs]
      have : set s p (some x) n = s n := by simp [set]; intro h; omega
      rw [this]; omega

theorem occ_set_none (s : Slots) (p : Nat) (x : Entry) : ∀ n, p < n → s p = some x →
    occ (set s p none) n + 1 = occ s n := by
  intro n; induction n with
  | zero => intro h; omega
  | succ n ih =>
    intro hp hs
    simp only [occ]
    by_cases hpn : p = n
    · subst hpn
      rw [occ_set_ge s p _ p (Nat.le_refl _)]
      simp [set, hs]
    · have := ih (by omega) hs
      have e : set s p none n = s n := by simp [set]; intro h; omega
      rw [e]; omega

/-- empty buckets above `n` do not count -/
theorem occ_extend (s : Slots) (n : Nat) : ∀ m, n ≤ m → (∀ x, n ≤ x → x < m → s x = none) →
    occ s m = occ s n := by
  intro m; induction m with
  | zero => intro h _; have : n = 0 := by omega
            subst this; rfl
  | succ m ih =>
    intro h hall
    by_cases hnm : n = m + 1
    · subst hnm; rfl
    · simp only [occ]
      rw [ih (by omega) (fun x h1 h2 => hall x h1 (by omega)), hall m (by omega) (by omega)]
      simp

end KV.Probing
