import Proofs.PCQueueOrder
/-! `WaitSemaphore` is transparent to EINTR; interrupts are stutter steps of the PCQueue model. Core Lean only. -/
namespace KV.PCQueue

theorem waitSemaphore_eintr_prefix (k c : Nat) (os : List WaitOutcome) :
    waitSemaphore c (List.replicate k .eintr ++ os) = waitSemaphore c os := by
  induction k with
  | zero => rfl
  | succ k ih => rw [List.replicate_succ, List.cons_append]; simp only [waitSemaphore]; exact ih

/-- for every number of EINTR returns, the loop is left exactly by the `sem_wait` that took a token -/
theorem waitSemaphore_returns (k c : Nat) (hc : 0 < c) (os : List WaitOutcome) :
    waitSemaphore c (List.replicate k .eintr ++ .taken :: os) = some (c - 1, os) := by
  rw [waitSemaphore_eintr_prefix]
  have : c ≠ 0 := by omega
  simp [waitSemaphore, osWait, this]

/-- as long as only EINTR has been returned the loop has not been left -/
theorem waitSemaphore_waiting (k c : Nat) : waitSemaphore c (List.replicate k .eintr) = none := by
  have := waitSemaphore_eintr_prefix k c []
  rw [List.append_nil] at this
  rw [this]; rfl

/-- conversely, whenever the loop has been left, a token was available and exactly one was taken, by the last
`sem_wait`, all earlier ones having returned EINTR -/
theorem waitSemaphore_some {c c' : Nat} {l rest : List WaitOutcome} (h : waitSemaphore c l = some (c', rest)) :
    ∃ k, l = List.replicate k .eintr ++ .taken :: rest ∧ 0 < c ∧ c' = c - 1 := by
  induction l with
  | nil => simp [waitSemaphore] at h
  | cons o os ih =>
    cases o with
    | taken =>
      simp only [waitSemaphore, osWait] at h
      by_cases e : c = 0
      · simp [e] at h
      · simp [e] at h
        exact ⟨0, by simp [h.2], by omega, h.1.symm⟩
    | eintr =>
      simp only [waitSemaphore] at h
      obtain ⟨k, hk, h1, h2⟩ := ih h
      exact ⟨k + 1, by rw [List.replicate_succ, List.cons_append, hk], h1, h2⟩

theorem interrupt_eq {s s' : State} {t : Nat} (h : interrupt s t = some s') : s' = s := by
  unfold interrupt at h
  cases hth : s.threads[t]? with
  | none => simp [hth] at h
  | some th =>
    simp only [hth] at h
    by_cases e : th.pc = .wait
    · simp [e] at h; exact h.symm
    · simp [e] at h

/-- interrupts are stutter steps: the states reachable with signals are the states reachable without -/
theorem reachI_reach {s0 s : State} (h : ReachI s0 s) : Reach s0 s := by
  induction h with
  | init => exact .init
  | step _ hs ih => exact .step ih hs
  | intr _ hi ih => rw [interrupt_eq hi]; exact ih

end KV.PCQueue
