import Proofs.TrieOfTable
/-! Layout-independent half of `ofTable_represents`: whatever the record layout (plain, ArrayBhiksha offsets, quantised values),
if every record of the level arrays reads back as "word of the key, these two value bit patterns, the running child counts",
then the memory represents the table of those values.  The layouts (Proofs/TrieOfTableG.lean) only have to prove `Reads`. -/
set_option maxRecDepth 4000
namespace KV.TrieLM
open KV.Bits KV.Score KV.Search

/-- the table entry of key `g` when the pointers return the bits `pv g` / `bv g` -/
def entryV (fval : Nat → Rat) (bt : BT) (order : Nat) (pv bv : List Nat → Nat) (g : List Nat) : KV.Table.TEntry :=
  { prob := fval (pv g), backoff := if g.length = order then 0 else fval (bv g),
    extendsLeft := if g.length = order then false else !(childrenOf bt g).isEmpty,
    extendsRight := if g.length = order then false else bv g != noExtensionBits, blank := false }

def ftV (fval : Nat → Rat) (bt : BT) (order : Nat) (pv bv : List Nat → Nat) : FT :=
  bt.map fun p => (p.1, entryV fval bt order pv bv p.1)

theorem lookup_ftV (fval : Nat → Rat) (bt : BT) (order : Nat) (pv bv : List Nat → Nat) (g : List Nat) :
    (tableOf (ftV fval bt order pv bv) order).lookup g = (bt.lookup g).map (fun _ => entryV fval bt order pv bv g) := by
  show (ftV fval bt order pv bv).lookup g = _
  unfold ftV
  generalize entryV fval bt order pv bv = f
  induction bt with
  | nil => simp [List.lookup]
  | cons p ps ih =>
    obtain ⟨k, v⟩ := p
    by_cases hk : g = k
    · subst hk; simp [List.lookup]
    · have : (g == k) = false := by simpa using hk
      simp only [List.map_cons, List.lookup, this, ih]

theorem tableV_ne_none (fval : Nat → Rat) (bt : BT) (order : Nat) (pv bv : List Nat → Nat) (g : List Nat) :
    (tableOf (ftV fval bt order pv bv) order).lookup g ≠ none ↔ IsKey bt g := by
  rw [lookup_ftV, ← lookup_ne_none_iff]
  cases bt.lookup g <;> simp

theorem tableV_key (fval : Nat → Rat) (bt : BT) (order : Nat) (pv bv : List Nat → Nat) (g : List Nat) (h : IsKey bt g) :
    (tableOf (ftV fval bt order pv bv) order).lookup g = some (entryV fval bt order pv bv g) := by
  rw [lookup_ftV]
  have := (lookup_ne_none_iff bt g).mpr h
  cases hl : bt.lookup g with
  | none => exact absurd hl this
  | some v => simp

theorem toFound_entryV (fval : Nat → Rat) (bt : BT) (order : Nat) (pv bv : List Nat → Nat) (g : List Nat) (r : Rec) (s : Nat)
    (hlen : g.length ≠ order) (hp : r.probBits = pv g) (hb : r.backoffBits = bv g)
    (hr : r.range = (s, s + (childrenOf bt g).length)) :
    toFound fval r = Score.toFound (entryV fval bt order pv bv g) := by
  unfold toFound Score.toFound entryV
  simp only [hlen, if_false, hp, hb, hr]
  congr 1
  cases hc : childrenOf bt g with
  | nil => simp
  | cons x xs => simp

/-- what the records of a trie memory read back as, level by level -/
structure Reads (M : Trie) (bt : BT) (bound order : Nat) (pv bv : List Nat → Nat) : Prop where
  hord : M.order = order
  hbnd : M.bound = bound
  midVocab : ∀ om2, om2 + 2 < order → (M.middle om2).maxVocab = bound
  longVocab : M.longest.maxVocab = bound
  uni : ∀ w, w < bound → unigramRec M w =
    { probBits := pv [w], backoffBits := bv [w],
      range := (startOf bt (level bt bound 1) w, startOf bt (level bt bound 1) (w + 1)) }
  mid : ∀ om2 i, om2 + 2 < order → i < (level bt bound (om2 + 2)).length →
    midKey M om2 i = ((level bt bound (om2 + 2)).getD i []).getLast?.getD 0 ∧
    middleRec M om2 i =
      { probBits := pv ((level bt bound (om2 + 2)).getD i []), backoffBits := bv ((level bt bound (om2 + 2)).getD i []),
        range := (startOf bt (level bt bound (om2 + 2)) i, startOf bt (level bt bound (om2 + 2)) (i + 1)) }
  long : ∀ i, i < (level bt bound order).length →
    longKey M i = ((level bt bound order).getD i []).getLast?.getD 0 ∧
    longestProbBits M i = pv ((level bt bound order).getD i [])

/-- **reads_represents** — the layout-independent half -/
theorem reads_represents (fval : Nat → Rat) (M : Trie) (bt : BT) (bound order : Nat) (pv bv : List Nat → Nat)
    (ok : BTOK bt bound order) (rd : Reads M bt bound order pv bv) :
    Represents fval M (tableOf (ftV fval bt order pv bv) order) (rngOf bt bound) := by
  have ho := ok.order2
  have hbound := rd.hbnd
  have hTo : (tableOf (ftV fval bt order pv bv) order).order = order := rfl
  have midfacts : ∀ g om2, IsKey bt g → g.length = om2 + 1 → om2 + 2 < order →
      ∃ S, rngOf bt bound g = (S, S + (childrenOf bt g).length) ∧
        ∀ t (ht : t < (childrenOf bt g).length),
          midKey M om2 (S + t) = (childrenOf bt g)[t] ∧
          IsKey bt (g ++ [(childrenOf bt g)[t]]) ∧
          toFound fval (middleRec M om2 (S + t))
            = Score.toFound (entryV fval bt order pv bv (g ++ [(childrenOf bt g)[t]])) ∧
          (middleRec M om2 (S + t)).range = rngOf bt bound (g ++ [(childrenOf bt g)[t]]) := by
    intro g om2 hg hl hom
    obtain ⟨S, hr, hch⟩ := children_layout bt bound order ok g hg
    refine ⟨S, hr, ?_⟩
    intro t ht
    obtain ⟨hi, hget, hkey, hrng⟩ := hch t ht
    have e : g.length + 1 = om2 + 2 := by omega
    rw [e] at hi hget hrng
    obtain ⟨hw, hrec⟩ := rd.mid om2 (S + t) hom hi
    rw [hget] at hw hrec
    refine ⟨by rw [hw]; simp, hkey, ?_, by rw [hrec, hrng]⟩
    have hlen' : (g ++ [(childrenOf bt g)[t]]).length = om2 + 2 := by simp; omega
    apply toFound_entryV fval bt order pv bv _ _ (startOf bt (level bt bound (om2 + 2)) (S + t)) (by rw [hlen']; omega)
    · rw [hrec]
    · rw [hrec]
    · rw [hrec]
      have hs := startOf_succ bt (level bt bound (om2 + 2)) (S + t) hi
      have hg' : (level bt bound (om2 + 2))[S + t] = g ++ [(childrenOf bt g)[t]] := by
        rw [List.getD_eq_getElem?_getD, List.getElem?_eq_getElem hi, Option.getD_some] at hget; exact hget
      rw [hg'] at hs
      simp only [hs]
  have longfacts : ∀ g, IsKey bt g → g.length + 1 = order →
      ∃ S, rngOf bt bound g = (S, S + (childrenOf bt g).length) ∧
        ∀ t (ht : t < (childrenOf bt g).length),
          longKey M (S + t) = (childrenOf bt g)[t] ∧
          IsKey bt (g ++ [(childrenOf bt g)[t]]) ∧
          fval (longestProbBits M (S + t)) = (entryV fval bt order pv bv (g ++ [(childrenOf bt g)[t]])).prob := by
    intro g hg hl
    obtain ⟨S, hr, hch⟩ := children_layout bt bound order ok g hg
    refine ⟨S, hr, ?_⟩
    intro t ht
    obtain ⟨hi, hget, hkey, _⟩ := hch t ht
    rw [hl] at hi hget
    obtain ⟨hw, hp⟩ := rd.long (S + t) hi
    rw [hget] at hw hp
    refine ⟨by rw [hw]; simp, hkey, ?_⟩
    rw [hp]; rfl
  refine ⟨rd.hord, ?_, ?_, ?_, ?_, ?_, ?_, ?_, ?_, ?_⟩
  · -- uni
    intro w hw
    rw [hbound] at hw
    have hkey := ok.unigrams w hw
    refine ⟨_, tableV_key fval bt order pv bv [w] hkey, ?_, ?_⟩
    · rw [rd.uni w hw]
      apply toFound_entryV fval bt order pv bv [w] _ (startOf bt (level bt bound 1) w) (by simp; omega) rfl rfl
      have hwl : w < (level bt bound 1).length := by rw [level1_length]; exact hw
      have hs := startOf_succ bt (level bt bound 1) w hwl
      rw [level1_getElem] at hs
      simp only [hs]
    · rw [rd.uni w hw]
      obtain ⟨j, hj, hjg, _, hr⟩ := key_position' bt bound order ok [w] hkey 1 rfl
      rw [level1_getElem] at hjg
      have : j = w := by simpa using hjg
      subst this
      rw [hr, startOf_succ _ _ _ hj, level1_getElem]
  · intro om2 hom; rw [hTo] at hom; rw [hbound, rd.midVocab om2 hom]; omega
  · -- mid_sorted
    intro g om2 hg hl hom
    rw [hTo] at hom
    obtain ⟨S, hr, hch⟩ := midfacts g om2 ((tableV_ne_none fval bt order pv bv g).mp hg) hl hom
    rw [hr]
    exact sortedIn_of_children (midKey M om2) S _ (sorted_sortNat _) (fun t ht => (hch t ht).1)
  · -- mid_rec
    intro g om2 i hg hl hom h1 h2
    rw [hTo] at hom
    obtain ⟨S, hr, hch⟩ := midfacts g om2 ((tableV_ne_none fval bt order pv bv g).mp hg) hl hom
    rw [hr] at h1 h2
    simp only at h1 h2
    obtain ⟨hw, hkey, hf, hrange⟩ := hch (i - S) (by omega)
    have e : S + (i - S) = i := by omega
    rw [e] at hw hf hrange
    show ∃ t, (tableOf (ftV fval bt order pv bv) order).lookup (g ++ [midKey M om2 i]) = some t ∧
      toFound fval (middleRec M om2 i) = Score.toFound t ∧
      (middleRec M om2 i).range = rngOf bt bound (g ++ [midKey M om2 i])
    rw [hw]
    exact ⟨_, tableV_key fval bt order pv bv _ hkey, hf, hrange⟩
  · -- mid_all
    intro g om2 w hg hl hom hgw
    rw [hTo] at hom
    obtain ⟨S, hr, hch⟩ := midfacts g om2 ((tableV_ne_none fval bt order pv bv g).mp hg) hl hom
    have hmem : w ∈ childrenOf bt g := (mem_childrenOf bt g w).mpr ((tableV_ne_none fval bt order pv bv _).mp hgw)
    obtain ⟨t, ht, hte⟩ := List.getElem_of_mem hmem
    rw [hr]
    refine ⟨S + t, by simp, by simp; omega, ?_⟩
    show midKey M om2 (S + t) = w
    rw [(hch t ht).1, hte]
  · rw [hbound, rd.longVocab]; omega
  · -- long_sorted
    intro g hg _ hl
    rw [hTo] at hl
    obtain ⟨S, hr, hch⟩ := longfacts g ((tableV_ne_none fval bt order pv bv g).mp hg) hl
    rw [hr]
    exact sortedIn_of_children (longKey M) S _ (sorted_sortNat _) (fun t ht => (hch t ht).1)
  · -- long_rec
    intro g i hg _ hl h1 h2
    rw [hTo] at hl
    obtain ⟨S, hr, hch⟩ := longfacts g ((tableV_ne_none fval bt order pv bv g).mp hg) hl
    rw [hr] at h1 h2
    simp only at h1 h2
    obtain ⟨hw, hkey, hp⟩ := hch (i - S) (by omega)
    have e : S + (i - S) = i := by omega
    rw [e] at hw hp
    show ∃ t, (tableOf (ftV fval bt order pv bv) order).lookup (g ++ [longKey M i]) = some t ∧ _
    rw [hw]
    exact ⟨_, tableV_key fval bt order pv bv _ hkey, hp⟩
  · -- long_all
    intro g w hg _ hl hgw
    rw [hTo] at hl
    obtain ⟨S, hr, hch⟩ := longfacts g ((tableV_ne_none fval bt order pv bv g).mp hg) hl
    have hmem : w ∈ childrenOf bt g := (mem_childrenOf bt g w).mpr ((tableV_ne_none fval bt order pv bv _).mp hgw)
    obtain ⟨t, ht, hte⟩ := List.getElem_of_mem hmem
    rw [hr]
    refine ⟨S + t, by simp, by simp; omega, ?_⟩
    show longKey M (S + t) = w
    rw [(hch t ht).1, hte]

end KV.TrieLM
