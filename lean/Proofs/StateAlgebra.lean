import Model.State
/-! Order / equality / hash algebra of lm/state.hh. -/
namespace KV.State

theorem memcmp_range (a b : List Nat) : memcmp a b = -1 ∨ memcmp a b = 0 ∨ memcmp a b = 1 := by
  induction a generalizing b with
  | nil => cases b <;> simp [memcmp]
  | cons x xs ih =>
    cases b with
    | nil => simp [memcmp]
    | cons y ys =>
      simp only [memcmp]
      split
      · simp
      · split
        · simp
        · exact ih ys

theorem memcmp_antisymm (a b : List Nat) : memcmp b a = - memcmp a b := by
  induction a generalizing b with
  | nil => cases b <;> simp [memcmp]
  | cons x xs ih =>
    cases b with
    | nil => simp [memcmp]
    | cons y ys =>
      simp only [memcmp]
      by_cases h1 : x < y
      · have : ¬ y < x := by omega
        simp [h1, this]
      · by_cases h2 : y < x
        · simp [h1, h2]
        · simp [h1, h2, ih ys]

theorem memcmp_eq_zero (a b : List Nat) : memcmp a b = 0 ↔ a = b := by
  induction a generalizing b with
  | nil => cases b <;> simp [memcmp]
  | cons x xs ih =>
    cases b with
    | nil => simp [memcmp]
    | cons y ys =>
      simp only [memcmp]
      by_cases h1 : x < y
      · simp [h1]; omega
      · by_cases h2 : y < x
        · simp [h1, h2]; omega
        · have : x = y := by omega
          simp [h1, h2, ih ys, this]

theorem State.eq_iff (a b : State) : a.eq b = true ↔ a.length = b.length ∧ a.key = b.key := by
  simp [State.eq, memcmp_eq_zero]

/-- exactly one of `a < b`, `a == b`, `b < a` -/
theorem State.trichotomy (a b : State) :
    (a.lt b = true ∧ a.eq b = false ∧ b.lt a = false) ∨
    (a.lt b = false ∧ a.eq b = true ∧ b.lt a = false) ∨
    (a.lt b = false ∧ a.eq b = false ∧ b.lt a = true) := by
  have hr := memcmp_range a.key b.key
  have ha := memcmp_antisymm a.key b.key
  unfold State.lt State.eq
  by_cases hl : a.length = b.length
  · have hl' : b.length = a.length := hl.symm
    simp only [hl, bne_self_eq_false, Bool.false_eq_true, if_false, beq_self_eq_true, Bool.true_and, ha]
    rcases hr with h | h | h <;> simp [h]
  · have hl' : ¬ b.length = a.length := fun h => hl h.symm
    have h1 : (a.length != b.length) = true := by simpa using hl
    have h2 : (b.length != a.length) = true := by simpa using hl'
    have h3 : (a.length == b.length) = false := by simpa using hl
    simp only [h1, h2, h3, if_true, Bool.false_and]
    rcases Nat.lt_or_gt_of_ne hl with h | h
    · have : ¬ b.length < a.length := by omega
      simp [h, this]
    · have : ¬ a.length < b.length := by omega
      simp [h, this]

/-- `Compare` agrees in sign with `<` and `==` -/
theorem State.compare_sign (a b : State) :
    (a.compare b < 0 ↔ a.lt b = true) ∧ (a.compare b = 0 ↔ a.eq b = true) ∧ (a.compare b > 0 ↔ b.lt a = true) := by
  have hr := memcmp_range a.key b.key
  have ha := memcmp_antisymm a.key b.key
  unfold State.compare State.lt State.eq
  by_cases hl : a.length = b.length
  · simp only [hl, bne_self_eq_false, Bool.false_eq_true, if_false, beq_self_eq_true, Bool.true_and, ha]
    rcases hr with h | h | h <;> simp [h]
  · have hl' : ¬ b.length = a.length := fun h => hl h.symm
    have h1 : (a.length != b.length) = true := by simpa using hl
    have h2 : (b.length != a.length) = true := by simpa using hl'
    have h3 : (a.length == b.length) = false := by simpa using hl
    simp only [h1, h2, h3, if_true, Bool.false_and]
    rcases Nat.lt_or_gt_of_ne hl with h | h
    · have : ¬ b.length < a.length := by omega
      simp [h, this]
    · have : ¬ a.length < b.length := by omega
      simp [h, this]

theorem State.eq_hash (H : List Nat → Nat → Nat) (a b : State) (seed : Nat) (h : a.eq b = true) :
    a.hash H seed = b.hash H seed := by
  have := (State.eq_iff a b).mp h
  simp [State.hash, this.2]

/-- equal states are equal on everything `==` may depend on: `length` and `words[0..length)` -/
theorem State.eq_words (a b : State) (h : a.eq b = true) : a.length = b.length ∧ a.key = b.key :=
  (State.eq_iff a b).mp h

theorem Left.compare_range (a b : Left) : a.compare b = -1 ∨ a.compare b = 0 ∨ a.compare b = 1 := by
  unfold Left.compare
  repeat' split
  all_goals simp

theorem Left.compare_antisymm (a b : Left) : b.compare a = - a.compare b := by
  unfold Left.compare
  by_cases h1 : a.length < b.length
  · have : ¬ b.length < a.length := by omega
    have h' : b.length > a.length := h1
    simp [h1, this, h']
  · by_cases h2 : a.length > b.length
    · have h2' : b.length < a.length := h2
      simp [h1, h2, h2']
    · have he : a.length = b.length := by omega
      have h3 : ¬ b.length < a.length := by omega
      have h4 : ¬ b.length > a.length := by omega
      simp only [h1, h2, h3, h4, if_false, he]
      by_cases h0 : b.length = 0
      · simp [h0]
      · have : (b.length == 0) = false := by simpa using h0
        simp only [this, Bool.false_eq_true, if_false]
        by_cases h5 : a.last > b.last
        · have h5' : b.last < a.last := h5
          have : ¬ b.last > a.last := by omega
          have h6 : ¬ a.last < b.last := by omega
          simp [h5, h5', this, h6]
        · by_cases h6 : a.last < b.last
          · have h6' : b.last > a.last := h6
            have : ¬ b.last < a.last := by omega
            simp [h5, h6, h6', this]
          · have h7 : ¬ b.last > a.last := by omega
            have h8 : ¬ b.last < a.last := by omega
            simp only [h5, h6, h7, h8, if_false]
            cases a.full <;> cases b.full <;> simp

theorem Left.compare_eq_zero (a b : Left) : a.compare b = 0 ↔ a.eq b = true := by
  unfold Left.compare Left.eq
  by_cases h1 : a.length < b.length
  · have : ¬ a.length = b.length := by omega
    simp [h1, this]
  · by_cases h2 : a.length > b.length
    · have : ¬ a.length = b.length := by omega
      simp [h1, h2, this]
    · have he : a.length = b.length := by omega
      simp only [h1, h2, if_false, he]
      by_cases h0 : b.length = 0
      · simp [h0]
      · have : (b.length == 0) = false := by simpa using h0
        simp only [this, Bool.false_eq_true, if_false, beq_self_eq_true, Bool.true_and, Bool.false_or]
        by_cases h5 : a.last > b.last
        · have : ¬ a.last = b.last := by omega
          simp [h5, this]
        · by_cases h6 : a.last < b.last
          · have : ¬ a.last = b.last := by omega
            simp [h5, h6, this]
          · have : a.last = b.last := by omega
            simp only [h5, h6, if_false, this]
            cases a.full <;> cases b.full <;> simp

/-- exactly one of `a < b`, `a == b`, `b < a` for `Left` -/
theorem Left.trichotomy (a b : Left) :
    (a.lt b = true ∧ a.eq b = false ∧ b.lt a = false) ∨
    (a.lt b = false ∧ a.eq b = true ∧ b.lt a = false) ∨
    (a.lt b = false ∧ a.eq b = false ∧ b.lt a = true) := by
  have hr := Left.compare_range a b
  have ha := Left.compare_antisymm a b
  have hz := Left.compare_eq_zero a b
  unfold Left.lt
  rw [ha]
  rcases hr with h | h | h
  · have : a.eq b = false := by
      cases he : a.eq b with
      | false => rfl
      | true => have := hz.mpr he; omega
    simp [h, this]
  · have : a.eq b = true := hz.mp h
    simp [h, this]
  · have : a.eq b = false := by
      cases he : a.eq b with
      | false => rfl
      | true => have := hz.mpr he; omega
    simp [h, this]

/-- `hash_value(Left)` respects `==` (after repo patch 61: `full` is hashed only when `length != 0`) -/
theorem Left.eq_hash (H : List Nat → Nat → Nat) (a b : Left) (h : a.eq b = true) : a.hash H = b.hash H := by
  unfold Left.eq at h
  simp only [Bool.and_eq_true, beq_iff_eq, Bool.or_eq_true] at h
  obtain ⟨hl, hor⟩ := h
  unfold Left.hash
  by_cases h0 : a.length = 0
  · have hb0 : b.length = 0 := by omega
    simp [h0, hb0]
  · rcases hor with h1 | ⟨h1, h2⟩
    · exact absurd h1 h0
    · simp [hl, h1, h2]

end KV.State
