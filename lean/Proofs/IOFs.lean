import Model.IO
/-! Lemmas for C09: frames of the volatile image, the commit point, crash images. -/
namespace KV.IO.Fs

theorem firstIdx_spec (p : Nat → Bool) : ∀ n c, firstIdx p n = some c →
    c < n ∧ p c = true ∧ ∀ i, i < c → p i = false := by
  intro n
  induction n with
  | zero => intro c h; simp [firstIdx] at h
  | succ n ih =>
    intro c h
    simp only [firstIdx] at h
    cases hf : firstIdx p n with
    | some i =>
      rw [hf] at h
      simp only [Option.some.injEq] at h
      subst h
      have := ih i hf
      exact ⟨by omega, this.2.1, this.2.2⟩
    | none =>
      rw [hf] at h
      by_cases hp : p n = true
      · simp only [hp, if_true, Option.some.injEq] at h
        subst h
        refine ⟨by omega, hp, ?_⟩
        -- all smaller fail, else firstIdx p n would be some
        have none_spec : ∀ m, firstIdx p m = none → ∀ i, i < m → p i = false := by
          intro m
          induction m with
          | zero => intro _ i hi; omega
          | succ m ihm =>
            intro hm i hi
            simp only [firstIdx] at hm
            cases hfm : firstIdx p m with
            | some j => rw [hfm] at hm; simp at hm
            | none =>
              rw [hfm] at hm
              by_cases hpm : p m = true
              · simp [hpm] at hm
              · by_cases him : i = m
                · subst him; simpa using hpm
                · exact ihm hfm i (by omega)
        exact none_spec n hf
      · simp [hp] at h

theorem vol_zero (t : Trace) : vol t 0 = Img.empty := by simp [vol]

theorem vol_succ (t : Trace) (k : Nat) (e : Ev) (h : t[k]? = some e) :
    vol t (k + 1) = e.apply (vol t k) := by
  unfold vol
  rw [List.take_succ, h]
  simp [List.foldl_append]

theorem vol_beyond (t : Trace) (k : Nat) (h : t.length ≤ k) : vol t k = final t := by
  unfold final vol
  rw [List.take_of_length_le h, List.take_of_length_le (Nat.le_refl _)]

theorem apply_nonwrite (m : Img) (e : Ev) (h : e.isWrite = false) : e.apply m = m := by
  cases e <;> simp [Ev.isWrite] at h <;> rfl

/-- no write event with index in `[a, b)` ⇒ the image does not change -/
theorem vol_frame (t : Trace) (a : Nat) : ∀ b, a ≤ b → b ≤ t.length →
    (∀ j e, a ≤ j → j < b → t[j]? = some e → e.isWrite = false) → vol t b = vol t a := by
  intro b
  induction b with
  | zero => intro hab _ _; have : a = 0 := by omega
            subst this; rfl
  | succ b ih =>
    intro hab hb hw
    by_cases hEq : a = b + 1
    · subst hEq; rfl
    · have hlt : b < t.length := by omega
      have he : t[b]? = some t[b] := List.getElem?_eq_getElem hlt
      rw [vol_succ t b _ he, apply_nonwrite _ _ (hw b _ (by omega) (by omega) he)]
      exact ih (by omega) (by omega) (fun j e h1 h2 h3 => hw j e h1 (by omega) h3)

theorem get_write (m : Img) (off : Nat) (bs : Array Nat) (i : Nat) (h : off + bs.size ≤ i) :
    (m.write off bs).get i = m.get i := by
  unfold Img.write Img.get
  simp only
  have h1 : ¬ (off ≤ i ∧ i < off + bs.size) := by omega
  simp only [h1, if_false]
  by_cases hi : i < m.len
  · have : i < max m.len (off + bs.size) := by omega
    simp [hi, this, Img.get]
  · have : ¬ i < max m.len (off + bs.size) := by omega
    simp [hi, this]

theorem len_write_inside (m : Img) (off : Nat) (bs : Array Nat) (H : Nat) (h : off + bs.size ≤ H) (hl : H ≤ m.len) :
    (m.write off bs).len = m.len := by
  unfold Img.write; simp only; omega

theorem apply_inHeader (m : Img) (e : Ev) (H : Nat) (h : e.inHeader H = true) (hl : H ≤ m.len) :
    (e.apply m).len = m.len ∧ ∀ i, H ≤ i → (e.apply m).get i = m.get i := by
  cases e with
  | pwrite off bs =>
    simp only [Ev.inHeader, decide_eq_true_eq] at h
    exact ⟨len_write_inside m off bs H h hl, fun i hi => get_write m off bs i (by omega)⟩
  | store off bs =>
    simp only [Ev.inHeader, decide_eq_true_eq] at h
    exact ⟨len_write_inside m off bs H h hl, fun i hi => get_write m off bs i (by omega)⟩
  | create => simp [Ev.inHeader, Ev.isWrite] at h
  | truncate n => simp [Ev.inHeader, Ev.isWrite] at h
  | msync lo hi => exact ⟨rfl, fun _ _ => rfl⟩
  | fsync => exact ⟨rfl, fun _ _ => rfl⟩
  | munmap => exact ⟨rfl, fun _ _ => rfl⟩
  | close => exact ⟨rfl, fun _ _ => rfl⟩

/-- only header writes in `[a, b)` ⇒ length and all bytes from `H` on are unchanged -/
theorem vol_frame_header (t : Trace) (a H : Nat) (hl : H ≤ (vol t a).len) : ∀ b, a ≤ b → b ≤ t.length →
    (∀ j e, a ≤ j → j < b → t[j]? = some e → e.inHeader H = true) →
    (vol t b).len = (vol t a).len ∧ ∀ i, H ≤ i → (vol t b).get i = (vol t a).get i := by
  intro b
  induction b with
  | zero => intro hab _ _; have : a = 0 := by omega
            subst this; exact ⟨rfl, fun _ _ => rfl⟩
  | succ b ih =>
    intro hab hb hw
    by_cases hEq : a = b + 1
    · subst hEq; exact ⟨rfl, fun _ _ => rfl⟩
    · have hlt : b < t.length := by omega
      have he : t[b]? = some t[b] := List.getElem?_eq_getElem hlt
      have hprev := ih (by omega) (by omega) (fun j e h1 h2 h3 => hw j e h1 (by omega) h3)
      have hap := apply_inHeader (vol t b) t[b] H (hw b _ (by omega) (by omega) he) (by omega)
      rw [vol_succ t b _ he]
      exact ⟨by omega, fun i hi => by rw [hap.2 i hi, hprev.2 i hi]⟩

theorem fullSync_covers (e : Ev) (len s : Nat) (h : e.fullSync len = true) : e.covers len s = true := by
  cases e <;> simp [Ev.fullSync, Ev.covers] at h ⊢
  obtain ⟨h1, h2⟩ := h
  subst h1
  constructor
  · omega
  · omega

theorem fullSync_isSync (e : Ev) (len : Nat) (h : e.fullSync len = true) : e.isSync = true := by
  cases e <;> simp [Ev.fullSync, Ev.isSync] at h ⊢

theorem prefixIs_iff (m : Img) (a : Array Nat) : prefixIs m a = true ↔ ∀ i, i < a.size → m.get i = a.getD i 0 := by
  unfold prefixIs
  simp [List.all_eq_true]

theorem noWriteBetween_spec (t : Trace) (a b : Nat) (h : noWriteBetween t a b = true) :
    ∀ j e, a < j → j < b → t[j]? = some e → e.isWrite = false := by
  intro j e h1 h2 he
  unfold noWriteBetween at h
  rw [List.all_eq_true] at h
  have hj : j < t.length := by
    rcases Nat.lt_or_ge j t.length with hh | hh
    · exact hh
    · rw [List.getElem?_eq_none hh] at he; cases he
  have := h j (List.mem_range.mpr hj)
  have hg : t.getD j .close = e := by
    rw [List.getD_eq_getElem?_getD, he]; rfl
  simp only [h1, h2, decide_true, Bool.and_self, Bool.not_true, Bool.false_or, hg] at this
  simpa using this

theorem onlyHeaderBetween_spec (t : Trace) (a b H : Nat) (h : onlyHeaderBetween t a b H = true) :
    ∀ j e, a < j → j < b → t[j]? = some e → e.inHeader H = true := by
  intro j e h1 h2 he
  unfold onlyHeaderBetween at h
  rw [List.all_eq_true] at h
  have hj : j < t.length := by
    rcases Nat.lt_or_ge j t.length with hh | hh
    · exact hh
    · rw [List.getElem?_eq_none hh] at he; cases he
  have := h j (List.mem_range.mpr hj)
  have hg : t.getD j .close = e := by
    rw [List.getD_eq_getElem?_getD, he]; rfl
  simp only [h1, h2, decide_true, Bool.and_self, Bool.not_true, Bool.false_or, hg] at this
  exact this

theorem nonwrite_inHeader (e : Ev) (H : Nat) (h : e.isWrite = false) : e.inHeader H = true := by
  cases e <;> simp [Ev.isWrite] at h <;> simp [Ev.inHeader, Ev.isWrite]

end KV.IO.Fs

namespace KV.IO.Fs

theorem getD_of_getElem? (t : Trace) (j : Nat) (e : Ev) (h : t[j]? = some e) : t.getD j .close = e := by
  rw [List.getD_eq_getElem?_getD, h]; rfl

theorem getD_of_none (t : Trace) (j : Nat) (h : t[j]? = none) : t.getD j .close = .close := by
  rw [List.getD_eq_getElem?_getD, h]; rfl

theorem verOKB_iff (t : Trace) (k s j : Nat) : verOKB t k s j = true ↔ VerOK t k s j := by
  unfold verOKB VerOK
  simp only [Bool.and_eq_true, decide_eq_true_eq, List.all_eq_true, List.mem_range, Bool.or_eq_true,
    Bool.not_eq_true', Bool.and_eq_false_imp, decide_eq_false_iff_not]
  constructor
  · rintro ⟨hj, h⟩
    refine ⟨hj, fun y hjy hyk e he => ?_⟩
    rcases h y (by omega) with h1 | h1
    · exact absurd hyk (h1 hjy)
    · rw [getD_of_getElem? t _ e he] at h1; exact h1
  · rintro ⟨hj, h⟩
    refine ⟨hj, fun y _ => ?_⟩
    by_cases hc : j < y ∧ y ≤ k
    · right
      cases he : t[y - 1]? with
      | some e => rw [getD_of_getElem? t _ e he]; exact h y hc.1 hc.2 e he
      | none => rw [getD_of_none t _ he]; rfl
    · left; intro h1 h2; exact hc ⟨h1, h2⟩

theorem lenOKB_iff (t : Trace) (k jl : Nat) : lenOKB t k jl = true ↔ LenOK t k jl := by
  unfold lenOKB LenOK
  simp only [Bool.and_eq_true, decide_eq_true_eq, List.all_eq_true, List.mem_range, Bool.or_eq_true,
    Bool.not_eq_true', Bool.and_eq_false_imp, decide_eq_false_iff_not]
  constructor
  · rintro ⟨hj, h⟩
    refine ⟨hj, fun y hjy hyk e he => ?_⟩
    rcases h y (by omega) with h1 | h1
    · exact absurd hyk (h1 hjy)
    · rw [getD_of_getElem? t _ e he] at h1; exact h1
  · rintro ⟨hj, h⟩
    refine ⟨hj, fun y _ => ?_⟩
    by_cases hc : jl < y ∧ y ≤ k
    · right
      cases he : t[y - 1]? with
      | some e => rw [getD_of_getElem? t _ e he]; exact h y hc.1 hc.2 e he
      | none => rw [getD_of_none t _ he]; rfl
    · left; intro h1 h2; exact hc ⟨h1, h2⟩

theorem crashImage_get (vols : Nat → Img) (jl : Nat) (choice : Nat → Nat) (i : Nat)
    (hi : i < (vols jl).len) : (crashImage vols jl choice).get i = (vols (choice (i / kSector))).get i := by
  unfold crashImage Img.get
  simp only [hi, if_true]

end KV.IO.Fs
