import Proofs.LeftLoopSem
/-! `RevealAfter` (`lm/partial.hh:108-130`): revealing the left state of a following fragment `A` to a fragment `M`,
one pointer at a time and finally its `full` flag, accumulates exactly  whole − parts. -/
namespace KV.Left
open KV.Arpa KV.Table KV.State KV.Score

variable {a : Arpa} {T : Table}

/-- closure of a full second fragment carries over to the concatenation when all its pointers were extended by the
whole first fragment -/
theorem closed_concat_full (H : Hyp a T) (ws1 ws2 : List Word) (L2 : Nat) (hc : Closed T ws2 L2) (hL2 : L2 ≤ ws2.length)
    (hb : L2 + ws1.length ≤ a.order - 1) : Closed T (ws1 ++ ws2) (ws1.length + L2) := by
  have hord := H.tf.order_eq
  rcases hc with ⟨h1, h2⟩ | ⟨h1, h2, k, hk1, hk2, h3⟩ | ⟨h1, h2⟩
  · left
    refine ⟨by simp; omega, ?_⟩
    intro x
    rw [pre_concat ws1 ws2 L2 h1]
    cases hws : ws1.reverse with
    | nil => simpa using h2 x
    | cons y r =>
      have : pre ws2 L2 ++ y :: r ++ [x] = (pre ws2 L2 ++ [y]) ++ (r ++ [x]) := by simp
      rw [this]
      exact lookup_none_extend H.ok _ _ (by simp) (h2 y)
  · right; left
    refine ⟨by simp; omega, by omega, k, hk1, by simp; omega, ?_⟩
    rw [List.reverse_append, List.take_append_of_le_length (by simp; omega)]; exact h3
  · rw [hord] at h2
    right; right
    have hws : ws1.length = 0 := by omega
    have hnil : ws1 = [] := List.eq_nil_of_length_eq_zero hws
    subst hnil
    exact ⟨by simp; omega, by rw [hord]; simp; omega⟩

/-- protocol invariant after `k` pointers of `A` have been revealed to `M` (`h = M.reverse`) -/
structure PA (a : Arpa) (T : Table) (R : Ptr → Rat) (M A : List Word) (cM : Chart) (k Lp : Nat)
    (left : LeftSt) (right : State) (acc : Rat) : Prop where
  nu_le : right.length ≤ cM.right.length
  words : right.words.take right.length = M.reverse.take right.length
  hN : k + 1 + right.length ≤ a.order
  back : right.backoff.take right.length = (List.range right.length).map (fun j => a.boW (gm1 A k ++ M.reverse.take (j+1)))
  dead : ∀ kk, right.length < kk → kk ≤ M.reverse.length → ¬ live a (gm1 A k ++ M.reverse.take kk)
  Lp_le : Lp ≤ k
  ptrs : left.pointers = cM.left.pointers ++ (List.range Lp).map (fun i => pre A i ++ M.reverse)
  xl : ∀ i, i < Lp → T.xl (pre A i ++ M.reverse) = true
  bound : 0 < Lp → Lp + M.length ≤ a.order - 1
  acc_eq : acc = dsum (openTerm R A [] M.reverse) 0 Lp + dsum (doneTerm a R A [] M.reverse) Lp (k - Lp)
  open_ : left.full = false → cM.left.full = false ∧ Lp = k ∧ right.length = M.length
  closed : left.full = true → (cM.left.full = true ∧ Lp = 0) ∨
    (cM.left.full = false ∧ (CN T A [] M.reverse Lp ∨ Lp + M.length = a.order - 1))

theorem PA.init (R : Ptr → Rat) {M A : List Word} {Lm : Nat} {cM : Chart} {pM : Rat} (GM : FragC a T R M Lm cM pM)
    (hN2 : 2 ≤ a.order) : PA a T R M A cM 0 0 cM.left cM.right 0 := by
  have sf := GM.right_for
  refine ⟨Nat.le_refl _, sf.words, by have := sf.len_le_N; omega, ?_, ?_, Nat.le_refl _, by simp, fun i hi => by omega,
    fun h => by omega, by simp [dsum] <;> grind, ?_, fun hf => Or.inl ⟨hf, rfl⟩⟩
  · rw [sf.backoff]; simp [gm1]
  · intro kk h1 h2; simpa [gm1] using sf.dead kk h1 h2
  · intro hf
    exact ⟨hf, rfl, (GM.open_ hf).2⟩

theorem range_split (k Lw : Nat) (h : k ≤ Lw) (f : Nat → Ptr) :
    (List.range k).map f ++ ((List.range Lw).drop k).map f = (List.range Lw).map f := by
  rw [← List.map_append]
  congr 1
  have : List.range Lw = List.range (k + (Lw - k)) := by congr 1; omega
  rw [this, List.range_add, List.drop_append_of_le_length (by simp)]
  simp

/-- **one `RevealAfter` call** (pointer `k` of `A`, `reveal.full = false`) -/
theorem revealAfter_step (H : Hyp a T) (R : Ptr → Rat) {M A : List Word} {Lm La : Nat} {cM cA : Chart} {pM pA : Rat}
    (GM : FragC a T R M Lm cM pM) (GA : FragC a T R A La cA pA) {k Lp : Nat} {left : LeftSt} {right : State} {acc : Rat}
    (I : PA a T R M A cM k Lp left right acc) (hk : k < La) :
    ∃ Lp', PA a T R M A cM (k+1) Lp'
      (revealAfter T R left right { pointers := cA.left.pointers.take (k+1), full := false } k).2.1
      (revealAfter T R left right { pointers := cA.left.pointers.take (k+1), full := false } k).2.2
      (acc + (revealAfter T R left right { pointers := cA.left.pointers.take (k+1), full := false } k).1) := by
  have hord : T.order = a.order := H.tf.order_eq
  have hN2 := H.wf.order_ge
  let h := M.reverse
  let nu := right.length
  have hLa := GA.L_le
  have hhl : h.length = M.length := by simp [h]
  have hnuh : nu ≤ h.length := by
    have := I.nu_le; have := GM.right_for.len_le_h; simp only [List.length_reverse] at this; omega
  have C : LoopCtx a T A [] h (k+1) nu :=
    ⟨by omega, fun i hi => by simpa using GA.ptr_xl i (by omega), by have := GA.L_lt; simp; omega, hnuh⟩
  have hps : ({ pointers := cA.left.pointers.take (k+1), full := false } : LeftSt).pointers.drop k =
      ((List.range (k+1)).map (fun i => pre A i ++ [])).drop k := by
    show (cA.left.pointers.take (k+1)).drop k = _
    rw [GA.ptrs, ← List.map_take, List.take_range, Nat.min_eq_left (by omega)]
    simp
  have I0 : InvL a A [] h nu k { nextUse := nu, backIn := (right.backoff.take right.length).take nu } := by
    refine ⟨Nat.le_refl _, by have := I.hN; show k + 0 + 1 + nu ≤ a.order; omega, ?_, ?_⟩
    · show ((right.backoff.take right.length).take nu).take nu = _
      rw [List.take_take, Nat.min_self, List.take_take, Nat.min_self, I.back]
      simp only [List.append_nil]
      rfl
    · intro kk h1 h2; simpa using I.dead kk h1 h2
  have hallw : (!left.full) = true → nu = h.length := by
    intro hw
    have : left.full = false := by simpa using hw
    rw [hhl]; exact (I.open_ this).2.2
  obtain ⟨Lw, s1, s2, s3, s4, s5, s6, s7, s8, s9⟩ :=
    extendLoop_sem H R C k k (by simp) (by omega) (right.backoff.take right.length) I0 (!left.full) hallw
  unfold revealAfter
  dsimp only
  rw [I.words, hps]
  generalize extendLoop T R k (h.take nu) (right.backoff.take right.length)
    (((List.range (k+1)).map (fun i => pre A i ++ [])).drop k) (!left.full) = v at s4 s7 s8 s9
  simp only [Bool.false_eq_true, if_false]
  -- the residual right state
  have hnu' : v.nextUse ≤ nu := s7.nu_le
  have hwords' : ((h.take nu).take v.nextUse).take v.nextUse = h.take v.nextUse := by
    rw [List.take_take, Nat.min_self, List.take_take, Nat.min_eq_left hnu']
  have hback' : (v.backIn.take v.nextUse).take v.nextUse =
      (List.range v.nextUse).map (fun j => a.boW (gm1 A (k+1) ++ h.take (j+1))) := by
    rw [List.take_take, Nat.min_self, s7.back]; simp
  have hdead' : ∀ kk, v.nextUse < kk → kk ≤ h.length → ¬ live a (gm1 A (k+1) ++ h.take kk) := by
    intro kk h1 h2; simpa using s7.dead kk h1 h2
  have hN' : k + 1 + 1 + v.nextUse ≤ a.order := by have := s7.hN; simpa using this
  have hLwk : Lw = k ∨ Lw = k + 1 := by omega
  by_cases hfull : left.full = true
  · -- already complete: the pointer is finalised
    have hw : (!left.full) = false := by simp [hfull]
    have hLw : Lw = k := s3 hw
    simp only [hfull, if_true]
    refine ⟨Lp, ⟨by show v.nextUse ≤ _; have := I.nu_le; omega, hwords', hN', hback', hdead', by have := I.Lp_le; omega, I.ptrs, I.xl,
      I.bound, ?_, (fun hc => by rw [hfull] at hc; cases hc), fun _ => I.closed hfull⟩⟩
    rw [s8, I.acc_eq, hLw]
    have e1 : k + 1 - k = 1 := by omega
    have e2 : k + 1 - Lp = (k - Lp) + 1 := by have := I.Lp_le; omega
    rw [Nat.sub_self, e1, e2, dsum_add]
    have e3 : Lp + (k - Lp) = k := by have := I.Lp_le; omega
    rw [e3]
    simp only [dsum]; grind
  · have hopen : left.full = false := by simpa using hfull
    have hw : (!left.full) = true := by simp [hopen]
    obtain ⟨o1, o2, o3⟩ := I.open_ hopen
    simp only [hopen, Bool.false_eq_true, if_false]
    have hptrs' : left.pointers ++ v.written = cM.left.pointers ++ (List.range Lw).map (fun i => pre A i ++ M.reverse) := by
      rw [I.ptrs, s4, o2, List.append_assoc]
      congr 1
      have := range_split k Lw s1 (fun i => pre A i ++ M.reverse)
      simpa using this
    have hxl' : ∀ i, i < Lw → T.xl (pre A i ++ M.reverse) = true := by
      intro i hi
      by_cases hlt : i < k
      · exact I.xl i (by omega)
      · have := s5 i (by omega) hi; simpa using this
    have hbound' : 0 < Lw → Lw + M.length ≤ a.order - 1 := by
      intro hpos
      by_cases hlt : k < Lw
      · have := s6 hlt; simp only [List.length_nil, Nat.add_zero] at this; omega
      · have : Lw = k := by omega
        rw [this, ← o2]; exact I.bound (by omega)
    have hacc' : acc + v.adjust = dsum (openTerm R A [] M.reverse) 0 Lw + dsum (doneTerm a R A [] M.reverse) Lw (k + 1 - Lw) := by
      rw [s8, I.acc_eq, o2, Nat.sub_self]
      have e0 : Lw = k + (Lw - k) := by omega
      rw [e0, dsum_add]
      simp only [Nat.zero_add, dsum]
      have e1 : k + (Lw - k) - k = Lw - k := by omega
      rw [e1]; grind
    refine ⟨Lw, ⟨by show v.nextUse ≤ _; have := I.nu_le; omega, hwords', hN', hback', hdead', by omega, hptrs', hxl', hbound', hacc', ?_, ?_⟩⟩
    · intro hc
      have hc' : ((v.makeFull || v.nextUse == T.order - 1) || (left.pointers ++ v.written).length == T.order - 1) = false := hc
      simp only [Bool.or_eq_false_iff] at hc'
      obtain ⟨⟨hc1, _⟩, _⟩ := hc'
      rcases s9 with ⟨_, m2⟩ | ⟨m1, _⟩
      · obtain ⟨m3, m4⟩ := m2 hw
        exact ⟨o1, m3, by show v.nextUse = _; rw [m4]; exact o3⟩
      · rw [m1] at hc1; cases hc1
    · intro hc
      right
      refine ⟨o1, ?_⟩
      have hc' : ((v.makeFull || v.nextUse == T.order - 1) || (left.pointers ++ v.written).length == T.order - 1) = true := hc
      rcases s9 with ⟨m1, m2⟩ | ⟨_, _, m3⟩
      · obtain ⟨m3, m4⟩ := m2 hw
        right
        rw [m1] at hc'
        simp only [Bool.false_or, Bool.or_eq_true, beq_iff_eq] at hc'
        rcases hc' with hc' | hc'
        · rw [m4] at hc'; omega
        · rw [hptrs', GM.ptrs] at hc'
          simp only [List.length_append, List.length_map, List.length_range] at hc'
          have hLm := (GM.open_ o1).1
          omega
      · left; simpa [h] using m3.toCN


/-- what the back-off buffer after all pointers means for the code that follows (`in.left.full` charging / the
right-state merge), through `nt_tail` -/
theorem tail_sem (H : Hyp a T) (R : Ptr → Rat) {M A : List Word} {Lm La : Nat} {cM cA : Chart} {pM pA : Rat}
    (GM : FragC a T R M Lm cM pM) (GA : FragC a T R A La cA pA) (v : ExtendReturn)
    (I : InvL a A [] M.reverse cM.right.length La v) :
    (cA.left.full = true → (v.backIn.take v.nextUse).sum = remaining a R A La M.reverse La ∧
        StateFor a (A.reverse ++ M.reverse) cA.right) ∧
    (cA.left.full = false →
        StateFor a (A.reverse ++ M.reverse) (mergedState cA (M.reverse.take cM.right.length) v) ∧
        NormS (mergedState cA (M.reverse.take cM.right.length) v) ∧
        remaining a R A La M.reverse La = 0 ∧ cA.right.length = A.length ∧ La = A.length) := by
  have sf := GM.right_for
  have nm := GM.right_norm
  let st' : StepOut := { rs := { out := { left := cM.left, right := cM.right }, leftDone := false, prob := 0 },
                         nextUse := v.nextUse, back := v.backIn, exit := false }
  have IA : InvA a A M.reverse cM.right La st' := invA_of_invL rfl I _ rfl
  obtain ⟨_, _, t3, t4, t5, t6⟩ := nt_tail H R GA sf nm IA
  have hlen2 : cA.left.length = La := by simp [LeftSt.length, GA.ptrs]
  constructor
  · intro hf
    have hr : (ntTail cA st').out.right = cA.right := by simp [ntTail, hf, st']
    have hp : (ntTail cA st').prob = 0 + (v.backIn.take v.nextUse).sum := by simp [ntTail, hf, st']
    rw [hr] at t3
    rw [hp] at t5
    refine ⟨?_, t3⟩
    have : (0 : Rat) + (v.backIn.take v.nextUse).sum = 0 + remaining a R A La M.reverse La := t5
    grind
  · intro hf
    obtain ⟨h1, h2⟩ := GA.open_ hf
    have hlt : ¬ (cA.right.length < cA.left.length) := by rw [hlen2]; omega
    have hw : cM.right.words.take v.nextUse = (M.reverse.take cM.right.length).take v.nextUse := by
      rw [← sf.words, List.take_take, Nat.min_eq_left I.nu_le]
    have hr : (ntTail cA st').out.right = mergedState cA (M.reverse.take cM.right.length) v := by
      simp only [ntTail, hf, hlt, st', mergedState, Bool.false_eq_true, if_false, hw]
    have hp : (ntTail cA st').prob = 0 := by simp [ntTail, hf, hlt, st']
    rw [hr] at t3 t4
    rw [hp] at t5
    have hrem : remaining a R A La M.reverse La = 0 := by
      have : (0 : Rat) = 0 + remaining a R A La M.reverse La := t5
      grind
    exact ⟨t3, t4, hrem, h2, h1⟩

/-- from the facts a pointer loop establishes to the canonical description of the concatenation -/
theorem assemble (H : Hyp a T) (R : Ptr → Rat) {M A : List Word} {Lm La : Nat} {cM cA : Chart} {pM pA : Rat}
    (GM : FragC a T R M Lm cM pM) (GA : FragC a T R A La cA pA) (left' : LeftSt) (v : ExtendReturn) (Lp : Nat) (acc : Rat)
    (I : InvL a A [] M.reverse cM.right.length La v) (hLp : Lp ≤ La)
    (hptr : left'.pointers = cM.left.pointers ++ (List.range Lp).map (fun i => pre A i ++ M.reverse))
    (hxl : ∀ i, i < Lp → T.xl (pre A i ++ M.reverse) = true) (hbound : 0 < Lp → Lp + M.length ≤ a.order - 1)
    (hLp0 : cM.left.full = true → Lp = 0)
    (hacc : acc = dsum (openTerm R A [] M.reverse) 0 Lp + dsum (doneTerm a R A [] M.reverse) Lp (La - Lp) +
        remaining a R A La M.reverse La)
    (hop : left'.full = false → cM.left.full = false ∧ cA.left.full = false ∧ Lp = La ∧ v.nextUse = M.length)
    (hfullM : cM.left.full = true → left'.full = true)
    (hcl : left'.full = true → cM.left.full = false → Closed T (M ++ A) (M.length + Lp)) :
    ∃ L' right', FragC a T R (M ++ A) L' { left := left', right := right' } (pM + pA + acc) := by
  have hLa := GA.L_le
  obtain ⟨tf1, tf2⟩ := tail_sem H R GM GA v I
  have hX : acc = hSum R A M.reverse Lp - restSum R A Lp + remaining a R A La M.reverse Lp := by
    rw [hacc, dsum_open_hSum, Rat.add_assoc, dsum_done_remaining R A M.reverse La hLa (La - Lp) Lp rfl hLp]
  -- the right state of the description
  have hright : ∃ right', StateFor a (A.reverse ++ M.reverse) right' ∧ NormS right' ∧
      (cA.left.full = false → right'.length = A.length + v.nextUse) := by
    by_cases hf : cA.left.full = true
    · exact ⟨cA.right, (tf1 hf).2, GA.right_norm, fun hc => by rw [hf] at hc; cases hc⟩
    · have hf' : cA.left.full = false := by simpa using hf
      obtain ⟨e1, e2, _, e4, _⟩ := tf2 hf'
      exact ⟨_, e1, e2, fun _ => by show cA.right.length + v.nextUse = _; rw [e4]⟩
  obtain ⟨right', hr1, hr2, hr3⟩ := hright
  by_cases hfM : cM.left.full = true
  · -- the first fragment was complete: same left state
    have hLp' := hLp0 hfM
    subst hLp'
    refine ⟨Lm, right', ⟨by rw [List.reverse_append]; exact hr1, hr2, by simp; have := GM.L_le; omega, GM.L_lt, ?_, ?_, ?_,
      (fun hc => by rw [hfullM hfM] at hc; cases hc), fun _ => (GM.closed hfM).append H A⟩⟩
    · show left'.pointers = _
      rw [hptr, GM.ptrs]
      simp only [List.range_zero, List.map_nil, List.append_nil]
      apply List.map_congr_left
      intro i hi
      have : i < Lm := by simpa using hi
      rw [pre_append M A (by have := GM.L_le; omega)]
    · intro i hi; rw [pre_append M A (by have := GM.L_le; omega)]; exact GM.ptr_xl i hi
    · rw [hX]
      simp only [hSum, restSum]
      have hp0 : pA + remaining a R A La M.reverse 0 = specSeq a M.reverse A := by
        rw [GA.prob_eq]; unfold remaining
        simp only [gm1, List.take_zero, List.reverse_nil, List.nil_append, List.drop_zero, restSum]
        grind
      rw [GM.prob_eq, restSum_append R M A Lm GM.L_le, List.take_append_of_le_length GM.L_le,
        List.drop_append_of_le_length GM.L_le, specSeq_append]
      have : (M.drop Lm).reverse ++ (M.take Lm).reverse = M.reverse := by
        rw [← List.reverse_append, List.take_append_drop]
      rw [this, ← hp0]; grind
  · have hfM' : cM.left.full = false := by simpa using hfM
    refine ⟨M.length + Lp, right', fragC_build R GM hfM' GA Lp _ _ hLp (by
        by_cases hpos : 0 < Lp
        · exact hbound hpos
        · have : Lp = 0 := by omega
          rw [this]; have := GM.L_lt; have := (GM.open_ hfM').1; omega) hr1 hr2 hptr hxl (by rw [hX]; grind) ?_ (fun hc => hcl hc hfM')⟩
    intro hc
    obtain ⟨_, o2, o3, o4⟩ := hop hc
    have := (GA.open_ o2).1
    exact ⟨by omega, by show right'.length = _; rw [hr3 o2, o4]⟩


theorem revealAfterLoop_inv (H : Hyp a T) (R : Ptr → Rat) {M A : List Word} {Lm La : Nat} {cM cA : Chart} {pM pA : Rat}
    (GM : FragC a T R M Lm cM pM) (GA : FragC a T R A La cA pA) :
    ∀ (fuel k Lp : Nat) (left : LeftSt) (right : State) (acc : Rat), k + fuel = La → PA a T R M A cM k Lp left right acc →
      ∃ Lp', PA a T R M A cM La Lp'
        (revealAfterLoop T R cA.left.pointers fuel k (left, right, acc)).1
        (revealAfterLoop T R cA.left.pointers fuel k (left, right, acc)).2.1
        (revealAfterLoop T R cA.left.pointers fuel k (left, right, acc)).2.2 := by
  intro fuel
  induction fuel with
  | zero =>
    intro k Lp left right acc hk I
    have : k = La := by omega
    subst this
    exact ⟨Lp, I⟩
  | succ fuel ih =>
    intro k Lp left right acc hk I
    obtain ⟨Lp', I'⟩ := revealAfter_step H R GM GA I (by omega)
    simp only [revealAfterLoop]
    exact ih (k+1) Lp' _ _ _ (by omega) I'

/-- **RevealAfter, whole protocol**: after revealing all pointers of the following fragment (and its `full` flag) the
left state is the canonical left state of the concatenation and the accumulated adjustment is  whole − parts. -/
theorem revealAfterAll_frag (H : Hyp a T) (R : Ptr → Rat) {M A : List Word} {Lm La : Nat} {cM cA : Chart} {pM pA : Rat}
    (GM : FragC a T R M Lm cM pM) (GA : FragC a T R A La cA pA) :
    ∃ L' right', FragC a T R (M ++ A) L' { left := (revealAfterAll T R cM cA).1, right := right' }
      (pM + pA + (revealAfterAll T R cM cA).2.2) := by
  have hord : T.order = a.order := H.tf.order_eq
  have hN2 := H.wf.order_ge
  have hlenA : cA.left.length = La := by simp [LeftSt.length, GA.ptrs]
  obtain ⟨Lp, I⟩ := revealAfterLoop_inv H R GM GA La 0 0 cM.left cM.right 0 (by omega) (PA.init R GM hN2)
  unfold revealAfterAll
  rw [hlenA]
  generalize revealAfterLoop T R cA.left.pointers La 0 (cM.left, cM.right, 0) = st at I
  obtain ⟨l, r, acc⟩ := st
  simp only at I
  have hLpLa : Lp ≤ La := I.Lp_le
  have hLaA := GA.L_le
  -- the buffer state after all pointers
  let v : ExtendReturn := { nextUse := r.length, backIn := r.backoff.take r.length }
  have IL : InvL a A [] M.reverse cM.right.length La v := by
    refine ⟨I.nu_le, by have := I.hN; show La + 0 + 1 + r.length ≤ a.order; omega, ?_, ?_⟩
    · show (r.backoff.take r.length).take r.length = _
      rw [List.take_take, Nat.min_self, I.back]
      simp only [List.append_nil]
      rfl
    · intro kk h1 h2; simpa using I.dead kk h1 h2
  have hLp0 : cM.left.full = true → Lp = 0 := by
    intro hf
    by_cases hl : l.full = true
    · rcases I.closed hl with ⟨_, h0⟩ | ⟨hc, _⟩
      · exact h0
      · rw [hf] at hc; cases hc
    · have := (I.open_ (by simpa using hl)).1
      rw [hf] at this; cases this
  have hfullM : cM.left.full = true → l.full = true := by
    intro hf
    by_cases hl : l.full = true
    · exact hl
    · have := (I.open_ (by simpa using hl)).1
      rw [hf] at this; cases this
  -- closure when the left state was completed during the loop
  have hclLoop : l.full = true → cM.left.full = false → Closed T (M ++ A) (M.length + Lp) := by
    intro hl hM
    rcases I.closed hl with ⟨hc, _⟩ | ⟨_, hcn | hlen⟩
    · rw [hM] at hc; cases hc
    · exact closed_of_cn H M A Lp (by omega) hcn
    · by_cases hlt : Lp < A.length
      · left
        refine ⟨by simp; omega, ?_⟩
        intro x
        apply Classical.byContradiction; intro hne
        have := H.ok.len_le _ hne
        rw [pre_concat M A Lp hlt] at this
        simp only [List.length_append, List.length_reverse, List.length_cons, List.length_nil] at this
        have hpl : (pre A Lp).length = Lp + 1 := by simp [pre]; omega
        omega
      · right; right
        exact ⟨by simp; omega, by rw [hord]; omega⟩
  by_cases hfA : cA.left.full = true
  · -- the final call: `reveal.full`
    simp only [hfA, if_true]
    have hps : ({ pointers := cA.left.pointers, full := true } : LeftSt).pointers.drop La = [] := by
      show cA.left.pointers.drop La = []
      exact List.drop_eq_nil_of_le (by rw [GA.ptrs]; simp)
    have hv : extendLoop T R La (r.words.take r.length) (r.backoff.take r.length) [] (!l.full) =
        { v with adjust := 0 + unRest T R [] (0 + La + 1) } := by
      unfold extendLoop
      have hal : (r.words.take r.length).length = r.length := by
        rw [I.words, List.length_take]
        have := I.nu_le; have := GM.right_for.len_le_h; simp only [List.length_reverse] at *; omega
      cases l.full <;> simp [extendLoopWrite, extendLoopUse, hal, v, List.take_take]
    obtain ⟨tf1, _⟩ := tail_sem H R GM GA v IL
    obtain ⟨e1, _⟩ := tf1 hfA
    have hres : revealAfter T R l r { pointers := cA.left.pointers, full := true } La =
        (0 + 0 + (r.backoff.take r.length |>.take r.length).sum, (if l.full then l else { pointers := l.pointers ++ [], full := true }),
          ({ length := 0 } : State)) := by
      unfold revealAfter
      dsimp only
      rw [hps, hv]
      simp only [unRest, List.map_nil, List.sum_nil, v]
      cases hl : l.full <;> simp
    rw [hres]
    simp only
    have hsum : ((r.backoff.take r.length).take r.length).sum = remaining a R A La M.reverse La := by
      have := e1; simpa [v] using this
    apply assemble H R GM GA (if l.full then l else { pointers := l.pointers ++ [], full := true }) v Lp _ IL hLpLa
    · cases hl : l.full <;> simp [I.ptrs]
    · exact I.xl
    · exact I.bound
    · exact hLp0
    · rw [I.acc_eq, hsum]; grind
    · intro hc
      cases hl : l.full <;> simp [hl] at hc
    · intro hf
      have := hfullM hf
      simp [this]
    · intro hc hM
      by_cases hl : l.full = true
      · exact hclLoop hl hM
      · obtain ⟨_, o2, o3⟩ := I.open_ (by simpa using hl)
        rw [o2, Nat.add_comm]
        have := closed_concat_full H M A La (GA.closed hfA) hLaA (by have := I.hN; rw [o3] at this; omega)
        rwa [Nat.add_comm] at this
  · have hfA' : cA.left.full = false := by simpa using hfA
    simp only [hfA', Bool.false_eq_true, if_false]
    obtain ⟨_, tf2⟩ := tail_sem H R GM GA v IL
    obtain ⟨_, _, e3, _, _⟩ := tf2 hfA'
    apply assemble H R GM GA l v Lp acc IL hLpLa I.ptrs I.xl I.bound hLp0
    · rw [I.acc_eq, e3]; grind
    · intro hc
      obtain ⟨o1, o2, o3⟩ := I.open_ hc
      exact ⟨o1, hfA', o2, o3⟩
    · exact hfullM
    · exact hclLoop

end KV.Left
