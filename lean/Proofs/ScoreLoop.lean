import Model.Arpa
import Model.Table
import Model.State
import Model.Score
/-! Post-condition of `ScoreExceptBackoff`/`ResumeScore` over the abstract table (loop invariant,
induction on the remaining context). -/
namespace KV.Score
open KV.Arpa KV.Table KV.State

def _root_.KV.Table.Table.bo (T : Table) (g : List Word) : Rat :=
  match T.lookup g with | some t => t.backoff | none => 0
def _root_.KV.Table.Table.xr (T : Table) (g : List Word) : Bool :=
  match T.lookup g with | some t => t.extendsRight | none => false
def _root_.KV.Table.Table.xl (T : Table) (g : List Word) : Bool :=
  match T.lookup g with | some t => t.extendsLeft | none => false

/-- shape properties of a table that the generic algorithm relies on -/
structure TableOK (T : Table) : Prop where
  order_ge : 2 ≤ T.order
  prefix_closed : ∀ g x, g ≠ [] → T.lookup (g ++ [x]) ≠ none → T.lookup g ≠ none
  xl_sound : ∀ g x t, T.lookup g = some t → t.extendsLeft = false → T.lookup (g ++ [x]) = none
  len_le : ∀ g, T.lookup g ≠ none → g.length ≤ T.order

/-- what `ScoreExceptBackoff` returns, stated on the loop state: `c0` context words were matched -/
structure AccPost (T : Table) (ctx : List Word) (w : Word) (acc : Acc (List Word)) (c0 : Nat) : Prop where
  c0_le : c0 ≤ ctx.length
  c0_lt : c0 ≤ T.order - 1
  found : ∃ t, T.lookup (w :: ctx.take c0) = some t ∧ acc.ret.prob = t.prob
  len : acc.ret.ngramLength = c0 + 1
  stop : c0 < ctx.length → c0 < T.order - 1 → T.lookup (w :: ctx.take (c0+1)) = none
  indep : acc.ret.independentLeft = (decide (c0 = T.order - 1) || decide (c0 < ctx.length) || !T.xl (w :: ctx.take c0))
  bo : acc.backoffOut = (List.range (min (c0+1) (T.order-1))).map (fun j => T.bo (w :: ctx.take j))
  olen_le : acc.nextUse ≤ min (c0+1) (T.order - 1)
  unmarked : ∀ j, acc.nextUse ≤ j → j < min (c0+1) (T.order-1) → T.xr (w :: ctx.take j) = false
  marked : 0 < acc.nextUse → T.xr (w :: ctx.take (acc.nextUse - 1)) = true

/-- loop invariant at the head of `ResumeScore` after `i` context words -/
structure AccInv (T : Table) (ctx : List Word) (w : Word) (i : Nat) (node : List Word) (acc : Acc (List Word)) : Prop where
  node_eq : node = w :: ctx.take i
  i_le : i ≤ ctx.length
  i_lt : i ≤ T.order - 2
  len : acc.ret.ngramLength = i + 1
  found : ∃ t, T.lookup (w :: ctx.take i) = some t ∧ acc.ret.prob = t.prob ∧ acc.ret.independentLeft = !t.extendsLeft
  bo : acc.backoffOut = (List.range (i+1)).map (fun j => T.bo (w :: ctx.take j))
  olen_le : acc.nextUse ≤ i + 1
  unmarked : ∀ j, acc.nextUse ≤ j → j < i + 1 → T.xr (w :: ctx.take j) = false
  marked : 0 < acc.nextUse → T.xr (w :: ctx.take (acc.nextUse - 1)) = true

theorem take_succ_of_drop {α} {l : List α} {i : Nat} {x : α} {rest : List α} (h : l.drop i = x :: rest) :
    l.take (i+1) = l.take i ++ [x] ∧ l.drop (i+1) = rest ∧ i < l.length := by
  have hi : i < l.length := by
    rcases Nat.lt_or_ge i l.length with h' | h'
    · exact h'
    · rw [List.drop_eq_nil_of_le h'] at h; cases h
  have hx : l[i] = x := by
    have := List.drop_eq_getElem_cons hi
    rw [this] at h; injection h
  refine ⟨?_, ?_, hi⟩
  · rw [List.take_succ_eq_append_getElem hi, hx]
  · have := List.drop_eq_getElem_cons hi
    rw [this] at h; injection h

theorem resume_post (T : Table) (ok : TableOK T) (ctx : List Word) (w : Word) :
    ∀ (n i : Nat) (node : List Word) (acc : Acc (List Word)), n = ctx.length - i →
      AccInv T ctx w i node acc →
      ∃ c0, AccPost T ctx w (resumeScore (tableSearch T) (ctx.drop i) i node acc) c0 := by
  intro n
  induction n with
  | zero =>
    intro i node acc hn inv
    have hilt := inv.i_lt
    have holen := inv.olen_le
    have hi : ctx.length ≤ i := by omega
    have hie : i = ctx.length := Nat.le_antisymm inv.i_le hi
    rw [List.drop_eq_nil_of_le hi]
    simp only [resumeScore]
    obtain ⟨t, ht, hp, hind⟩ := inv.found
    have h2 := ok.order_ge
    refine ⟨i, ⟨inv.i_le, by omega, ⟨t, ht, hp⟩, inv.len, by omega, ?_, ?_, ?_, ?_, inv.marked⟩⟩
    · have : ¬ (i = T.order - 1) := by omega
      have h3 : ¬ (i < ctx.length) := by omega
      simp [this, h3, hind, Table.xl, ht]
    · have : min (i+1) (T.order - 1) = i + 1 := by omega
      rw [this]; exact inv.bo
    · have := inv.olen_le; omega
    · intro j h1 h2'; exact inv.unmarked j h1 (by omega)
  | succ n ih =>
    intro i node acc hn inv
    have hilt := inv.i_lt
    have holen := inv.olen_le
    have hi : i < ctx.length := by omega
    obtain ⟨x, rest, hdrop⟩ : ∃ x rest, ctx.drop i = x :: rest := by
      cases h : ctx.drop i with
      | nil => have := List.drop_eq_nil_iff.mp h; omega
      | cons x rest => exact ⟨x, rest, rfl⟩
    obtain ⟨htake, hdrop', _⟩ := take_succ_of_drop hdrop
    rw [hdrop]
    obtain ⟨t, ht, hp, hind⟩ := inv.found
    have h2 := ok.order_ge
    have hnode : node ++ [x] = w :: ctx.take (i+1) := by rw [inv.node_eq, htake]; rfl
    unfold resumeScore
    by_cases hil : acc.ret.independentLeft = true
    · -- stopped: the matched entry does not extend left
      simp only [hil, if_true]
      have hxl : t.extendsLeft = false := by rw [hil] at hind; cases h : t.extendsLeft <;> simp_all
      have hnone : T.lookup (w :: ctx.take (i+1)) = none := by
        have := ok.xl_sound (w :: ctx.take i) x t ht hxl
        rw [← hnode, inv.node_eq]; exact this
      refine ⟨i, ⟨inv.i_le, by omega, ⟨t, ht, hp⟩, inv.len, fun _ _ => hnone, ?_, ?_, ?_, ?_, inv.marked⟩⟩
      · simp [hil, hi]
      · have : min (i+1) (T.order - 1) = i + 1 := by have := inv.i_lt; omega
        rw [this]; exact inv.bo
      · have := inv.olen_le; have := inv.i_lt; omega
      · intro j h1 h2'; exact inv.unmarked j h1 (by omega)
    · simp only [hil, Bool.false_eq_true, if_false]
      by_cases hlong : i = T.order - 2
      · -- longest order
        have hb : (i == (tableSearch T).order - 2) = true := by simp [tableSearch, hlong]
        simp only [hb, if_true]
        have hmin : min (i+1) (T.order - 1) = i + 1 := by omega
        cases hl : T.lookup (w :: ctx.take (i+1)) with
        | none =>
          have : (tableSearch T).lookupLongest x node = none := by simp [tableSearch, hnode, hl]
          simp only [this]
          refine ⟨i, ⟨inv.i_le, by omega, ⟨t, ht, hp⟩, inv.len, fun _ _ => hl, ?_, ?_, ?_, ?_, inv.marked⟩⟩
          · simp [hi]
          · rw [hmin]; exact inv.bo
          · dsimp only; omega
          · intro j h1 h2'; exact inv.unmarked j h1 (by omega)
        | some tl =>
          have : (tableSearch T).lookupLongest x node = some tl.prob := by simp [tableSearch, hnode, hl]
          simp only [this]
          have hmin' : min (i+1+1) (T.order - 1) = i + 1 := by omega
          refine ⟨i+1, ⟨by omega, by omega, ⟨tl, hl, rfl⟩, ?_, ?_, ?_, ?_, ?_, ?_, inv.marked⟩⟩
          · simp [tableSearch]; omega
          · intro _ h; omega
          · have : i + 1 = T.order - 1 := by omega
            simp [this]
          · rw [hmin']; exact inv.bo
          · dsimp only; omega
          · intro j h1 h2'; exact inv.unmarked j h1 (by omega)
      · have hb : (i == (tableSearch T).order - 2) = false := by simp [tableSearch, hlong]
        simp only [hb, Bool.false_eq_true, if_false]
        cases hl : T.lookup (w :: ctx.take (i+1)) with
        | none =>
          have : (tableSearch T).lookupMiddle i x node = (none, node ++ [x]) := by simp [tableSearch, hnode, hl]
          simp only [this]
          have hmin : min (i+1) (T.order - 1) = i + 1 := by omega
          refine ⟨i, ⟨inv.i_le, by omega, ⟨t, ht, hp⟩, inv.len, fun _ _ => hl, ?_, ?_, ?_, ?_, inv.marked⟩⟩
          · simp [hi]
          · rw [hmin]; exact inv.bo
          · dsimp only; omega
          · intro j h1 h2'; exact inv.unmarked j h1 (by omega)
        | some tm =>
          have : (tableSearch T).lookupMiddle i x node = (some (toFound tm), node ++ [x]) := by simp [tableSearch, hnode, hl]
          simp only [this]
          have hlt : i + 1 ≤ T.order - 2 := by have := inv.i_lt; omega
          rw [← hdrop']
          apply ih (i+1) (node ++ [x]) _ (by omega)
          refine ⟨hnode, by omega, hlt, rfl, ⟨tm, hl, rfl, by simp [toFound]⟩, ?_, ?_, ?_, ?_⟩
          · simp only [inv.bo, List.range_succ (n := i+1), List.map_append, List.map_cons, List.map_nil, toFound]
            simp [Table.bo, hl]
          · dsimp only [toFound]; by_cases hx : tm.extendsRight = true <;> simp only [hx, if_true, if_false, Bool.false_eq_true] <;> omega
          · intro j h1 h2'
            simp only [toFound] at h1
            by_cases hx : tm.extendsRight = true
            · simp [hx] at h1; omega
            · simp [hx] at h1
              by_cases hj : j = i + 1
              · subst hj; simp [Table.xr, hl]; simpa using hx
              · exact inv.unmarked j h1 (by omega)
          · intro hpos
            simp only [toFound] at hpos ⊢
            by_cases hx : tm.extendsRight = true
            · simp [hx, Table.xr, hl]
            · simp [hx] at hpos ⊢; exact inv.marked hpos

end KV.Score
