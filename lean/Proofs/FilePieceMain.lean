import Proofs.FilePieceOps
/-! Assembly: construction establishes the invariant; every operation is transparent; transcripts. -/
namespace KV.FilePiece

theorem initMapSize_big (page mb : Nat) (hp : 0 < page) : page < initMapSize page mb := by
  unfold initMapSize
  have h2 : page * 2 ≤ page * max (mb / page + 1) 2 := Nat.mul_le_mul_left page (Nat.le_max_right _ 2)
  omega

theorem inv_st0_mmap (env : Env) (mb : Nat) (hp : 0 < env.cfg.page) : Inv env (st0 env.cfg.page mb .mmap) := by
  refine { page_pos := hp, pos_le := by simp [st0], in_range := by simp [st0], win_eq := by simp [st0],
           atEnd_end := by simp [st0], map_big := initMapSize_big _ _ hp, read_off := by simp [st0],
           mmap_al := ?_, ls := ?_ }
  · intro _
    exact ⟨by simp [st0], by simp [st0], by simp [st0]⟩
  · left; exact ⟨by simp [st0], by simp [st0]⟩

theorem inv_lazy (env : Env) (mb : Nat) (hp : 0 < env.cfg.page) (hdr : Nat) :
    Inv env (transitionToRead (st0 env.cfg.page mb .read) 0 hdr) := by
  refine { page_pos := hp, pos_le := by simp [st0, transitionToRead], in_range := by simp [st0, transitionToRead],
           win_eq := by simp [st0, transitionToRead], atEnd_end := by simp [st0, transitionToRead],
           map_big := initMapSize_big _ _ hp, read_off := by simp [st0, transitionToRead],
           mmap_al := by simp [st0, transitionToRead], ls := ?_ }
  left; exact ⟨by simp [st0, transitionToRead], by simp [st0, transitionToRead]⟩

theorem init_spec (env : Env) (mb : Nat) (b : Backend) (hp : 0 < env.cfg.page) (hH : ShiftFixed env) :
    Inv env (init env mb b) ∧ (init env mb b).offset = 0 := by
  cases b with
  | file =>
    have h0 := inv_st0_mmap env mb hp
    obtain ⟨st', hs, hpost⟩ := shift_post hH h0 (by simp [st0])
    simp only [init, hs]
    exact ⟨hpost.inv, by rw [hpost.offset_eq]; simp [st0, St.offset]⟩
  | pipe =>
    have h0 := inv_lazy env mb hp kMagicSize
    obtain ⟨st', hs, hpost⟩ := shift_post hH h0 (by simp [st0, transitionToRead])
    simp only [init, hs]
    exact ⟨hpost.inv, by rw [hpost.offset_eq]; simp [st0, St.offset, transitionToRead]⟩
  | lazy =>
    exact ⟨inv_lazy env mb hp 0, by simp [init, st0, St.offset, transitionToRead]⟩

theorem canon_peek (r : Res) : canon .peek r = r := by cases r <;> rfl
theorem canon_get (r : Res) : canon .get r = r := by cases r <;> rfl
theorem canon_readLine (d : Byte) (s : Bool) (r : Res) : canon (.readLine d s) r = r := by cases r <;> rfl
theorem canon_readLineOrEOF (d : Byte) (s : Bool) (r : Res) : canon (.readLineOrEOF d s) r = r := by cases r <;> rfl
theorem canon_readDelimited (d : Byte → Bool) (r : Res) : canon (.readDelimited d) r = r := by cases r <;> rfl
theorem canon_readWordSameLine (d : Byte → Bool) (r : Res) : canon (.readWordSameLine d) r = r := by cases r <;> rfl

/-- the statement of C18's central theorem for one operation from one state -/
def Transparent (env : Env) (G : NumKind → Grammar) (op : Op) (st : St) : Prop :=
  canon op (runOp env G op st).1 = (specOp G op (env.bytes.drop st.offset)).1 ∧
  (runOp env G op st).2.offset = st.offset + (specOp G op (env.bytes.drop st.offset)).2 ∧
  Inv env (runOp env G op st).2

theorem fuelFor_big (env : Env) : 2 * env.bytes.length + 3 < fuelFor env := by unfold fuelFor; omega

/-- `Good k tok`: the tokens on which the grammar of kind `k` is known to be a function of the token alone.
An operation is admissible at `rest` if it is not a number read, or the token it will look at is good. -/
def OpGood (Good : NumKind → List Byte → Prop) (op : Op) (rest : List Byte) : Prop :=
  ∀ k, op = .readNumber k → tokenAt rest ≠ [] → Good k (tokenAt rest)

theorem op_transparent_aux (env : Env) (G : NumKind → Grammar) (Good : NumKind → List Byte → Prop)
    (hG : ∀ k, GrammarOKOn (Good k) (G k))
    (hH : ShiftFixed env) (hI : env.cfg.fixI = true) (op : Op) (st : St) (h : Inv env st)
    (hgood : OpGood Good op (env.bytes.drop st.offset)) :
    Transparent env G op st := by
  unfold Transparent
  have hf := fuelFor_big env
  have hmu := mu_le env st
  show _ = (specOp G op (st.rest env)).1 ∧ _ = st.offset + (specOp G op (st.rest env)).2 ∧ _
  cases op with
  | peek =>
    obtain ⟨a, b, c, _⟩ := peek_spec hH hI h
    rw [canon_peek]
    refine ⟨?_, ?_, c⟩
    · show (peek env st).1 = _; rw [a]; cases st.rest env <;> rfl
    · show (peek env st).2.offset = _; rw [b]; cases st.rest env <;> rfl
  | get =>
    obtain ⟨a, b, c⟩ := get_spec hH hI h
    rw [canon_get]
    refine ⟨?_, ?_, c⟩
    · show (get env st).1 = _; rw [a]; cases st.rest env <;> rfl
    · show (get env st).2.offset = _; rw [b]; cases st.rest env <;> rfl
  | skipSpaces d =>
    have := skipSpaces_spec hH d (fuelFor env) st h (by rw [h.rest_length]; omega)
    simp only at this
    obtain ⟨a, b, c⟩ := this
    refine ⟨?_, b, c⟩
    show canon (.skipSpaces d) (skipSpaces env d (fuelFor env) st).1 = Res.skipped
    rcases a with a | ⟨a, _⟩ <;> rw [a] <;> rfl
  | readLine d s =>
    rw [canon_readLine]
    exact readLine_spec hH G d s (fuelFor env) 0 st h (by omega) (by simp [idxOf])
  | readLineOrEOF d s =>
    rw [canon_readLineOrEOF]
    exact readLine_spec hH G d s (fuelFor env) 0 st h (by omega) (by simp [idxOf])
  | readDelimited d =>
    rw [canon_readDelimited]
    exact readDelimited_spec hH G d (fuelFor env) st h hf
  | readWordSameLine d =>
    rw [canon_readWordSameLine]
    exact readWordSameLine_spec hH G d (fuelFor env) st h hf
  | readNumber k =>
    exact readNumber_spec hH G k (Good k) (hG k) (fuelFor env) st h hf (hgood k rfl)

/-- every number read of the script meets a good token (decided along the spec transcript) -/
def GoodScript (Good : NumKind → List Byte → Prop) (G : NumKind → Grammar) (bytes : List Byte) :
    List Op → Nat → Prop
  | [], _ => True
  | op :: ops, off =>
    OpGood Good op (bytes.drop off) ∧ GoodScript Good G bytes ops (off + (specOp G op (bytes.drop off)).2)

theorem transcript_spec (env : Env) (G : NumKind → Grammar) (Good : NumKind → List Byte → Prop)
    (hG : ∀ k, GrammarOKOn (Good k) (G k))
    (hH : ShiftFixed env) (hI : env.cfg.fixI = true) :
    ∀ (ops : List Op) (st : St), Inv env st → GoodScript Good G env.bytes ops st.offset →
      transcript env G ops st = specTranscript G env.bytes ops st.offset := by
  intro ops
  induction ops with
  | nil => intro st _ _; rfl
  | cons op ops ih =>
    intro st h hgs
    obtain ⟨hg1, hg2⟩ := hgs
    obtain ⟨a, b, c⟩ := op_transparent_aux env G Good hG hH hI op st h hg1
    simp only [transcript, specTranscript]
    rw [ih _ c (by rw [b]; exact hg2), a, b]

theorem goodScript_of_all (G : NumKind → Grammar) (bytes : List Byte) :
    ∀ (ops : List Op) (off : Nat), GoodScript (fun _ _ => True) G bytes ops off := by
  intro ops
  induction ops with
  | nil => intro _; trivial
  | cons op ops ih => intro off; exact ⟨fun _ _ _ => trivial, ih _⟩

end KV.FilePiece
