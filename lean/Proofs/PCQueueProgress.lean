import Proofs.PCQueueSys
/-!
Progress inside one queue of the composed system ("open" deadlock freedom): if some entry is inside an
operation before its linearisation point and the corresponding abstract FIFO operation is enabled, then some
entry of that queue can take a micro-step; lifted to the composed system.  Core Lean only.
-/
namespace KV.PCQueue

variable {dP dC : Nat}

theorem absBuf_length {s : State} (h : Inv dP dC s) : (absBuf s).length = s.writes.length - s.reads.length := by
  simp [absBuf]

/-- **queue progress**: a producer before its body with a non-full abstract buffer, or a consumer before its body
with a non-empty abstract buffer, guarantees that some thread of this queue can take a micro-step -/
theorem queue_progress {s : State} {t : Nat} {th : Thread} (h : Inv dP dC s) (hth : s.threads[t]? = some th)
    (hpre : th.pc = .wait ∨ th.pc = .lock ∨ th.pc = .body)
    (hen : (th.role = .prod → (absBuf s).length < s.cap) ∧ (th.role = .cons → absBuf s ≠ [])) :
    ∃ t', step s t' ≠ none := by
  by_cases h1 : ∃ (t' : Nat) (th' : Thread), s.threads[t']? = some th' ∧
      (th'.pc = .body ∨ th'.pc = .unlock ∨ th'.pc = .post)
  · obtain ⟨t', th', hth', hp⟩ := h1
    exact ⟨t', step_isSome_of h hth' (by rcases hp with hp | hp | hp <;> simp [hp])⟩
  have n1 : ∀ (t' : Nat) (th' : Thread), s.threads[t']? = some th' →
      th'.pc ≠ .body ∧ th'.pc ≠ .unlock ∧ th'.pc ≠ .post := by
    intro t' th' hth'
    exact ⟨fun e => h1 ⟨t', th', hth', Or.inl e⟩, fun e => h1 ⟨t', th', hth', Or.inr (Or.inl e)⟩,
           fun e => h1 ⟨t', th', hth', Or.inr (Or.inr e)⟩⟩
  have hpm : s.pmutex = none := by
    cases hm : s.pmutex with
    | none => rfl
    | some t' =>
      obtain ⟨th', hth', _, hp⟩ := h.pm.1 t' hm
      have := n1 t' th' hth'
      rcases hp with hp | hp <;> simp [hp] at this
  have hcm : s.cmutex = none := by
    cases hm : s.cmutex with
    | none => rfl
    | some t' =>
      obtain ⟨th', hth', _, hp⟩ := h.cm.1 t' hm
      have := n1 t' th' hth'
      rcases hp with hp | hp <;> simp [hp] at this
  by_cases h2 : ∃ (t' : Nat) (th' : Thread), s.threads[t']? = some th' ∧ th'.pc = .lock
  · obtain ⟨t', th', hth', hp⟩ := h2
    cases hr : th'.role
    · exact ⟨t', step_isSome_of h hth' (Or.inr (Or.inl ⟨hr, hp, hpm⟩))⟩
    · exact ⟨t', step_isSome_of h hth' (Or.inr (Or.inr (Or.inr (Or.inl ⟨hr, hp, hcm⟩))))⟩
  have n2 : ∀ (t' : Nat) (th' : Thread), s.threads[t']? = some th' → th'.pc = .wait ∨ th'.pc = .done := by
    intro t' th' hth'
    have a := n1 t' th' hth'
    have b : th'.pc ≠ .lock := fun e => h2 ⟨t', th', hth', e⟩
    cases hp : th'.pc <;> simp_all
  have zA : sumBy isA s.threads = 0 := sumBy_eq_zero (fun t' th' hth' => by
    rcases n2 t' th' hth' with hp | hp <;> simp [isA, b2n, hp])
  have zB : sumBy isB s.threads = 0 := sumBy_eq_zero (fun t' th' hth' => by
    rcases n2 t' th' hth' with hp | hp <;> simp [isB, b2n, hp])
  have zC : sumBy isC s.threads = 0 := sumBy_eq_zero (fun t' th' hth' => by
    rcases n2 t' th' hth' with hp | hp <;> simp [isC, b2n, hp])
  have zD : sumBy isD s.threads = 0 := sumBy_eq_zero (fun t' th' hth' => by
    rcases n2 t' th' hth' with hp | hp <;> simp [isD, b2n, hp])
  have hacct := h.acct
  have hocc := h.occ
  have hlen := absBuf_length h
  have hw : th.pc = .wait := by
    rcases n2 t th hth with hp | hp
    · exact hp
    · rcases hpre with e | e | e <;> simp [hp] at e
  refine ⟨t, ?_⟩
  cases hr : th.role
  · have := hen.1 hr
    exact step_isSome_of h hth (Or.inl ⟨hr, hw, by omega⟩)
  · have hne := hen.2 hr
    have : 0 < (absBuf s).length := List.length_pos_iff.mpr hne
    exact step_isSome_of h hth (Or.inr (Or.inr (Or.inl ⟨hr, hw, by omega⟩)))

/-- every `Produce` / `Consume` takes exactly five micro-steps (EINTR retries aside): the entry's `stepsLeft`
goes 5, 4, 3, 2, 1, 0 (`measure_step` per queue); an interrupt does not change the state, so a run in which every
wait is interrupted only finitely often (the fairness assumption on signals) spends finitely many transitions
per operation -/
theorem op_bounded {s s' : State} {t : Nat} (h : Inv dP dC s) (hs : step s t = some s') :
    measure s' + 1 = measure s := measure_step h hs

end KV.PCQueue

namespace KV.Sys
open KV.PCQueue
open KV.Chain (upd)

variable {σ : Type}

/-- **progress of the composed system at an enabled abstract operation**: if thread `t` is inside `Produce(q)` /
`Consume(q)` before its linearisation point and the abstract FIFO operation is enabled in `abs c` (buffer not full
resp. not empty), then some thread of the composed system can take a micro-step in queue `q` -/
theorem steplevel_op_progress {P : Prog σ} {c : CState σ} (h : CInv P c) {t q : Nat} (ht : t < P.nthreads)
    (hq : (c.mode t).queue = some q) (hpre : linearized (c.qs q) t = false)
    (hen : (∀ v k, c.mode t = .inP q v k → ((abs c).q q).length < P.cap q)
         ∧ (∀ k, c.mode t = .inC q k → (abs c).q q ≠ [])) :
    ∃ t', cstep P c t' ≠ none := by
  obtain ⟨th, hth⟩ := entry_of_lt h ht q
  obtain ⟨dP, dC, hinv⟩ := h.qinv q
  have hmok := h.mok t q th hq hth
  have hpc : th.pc = .wait ∨ th.pc = .lock ∨ th.pc = .body := by
    rw [linearized_eq hth] at hpre
    cases hp : th.pc <;> simp [hp] at hpre ⊢
  have hen' : (th.role = .prod → (absBuf (c.qs q)).length < (c.qs q).cap)
      ∧ (th.role = .cons → absBuf (c.qs q) ≠ []) := by
    cases hm : c.mode t with
    | idle => rw [hm] at hq; cases hq
    | inP q' v k =>
      rw [hm] at hmok hq
      obtain ⟨rfl, _, hrole, _, _⟩ := hmok
      refine ⟨fun _ => ?_, fun e => (by rw [hrole] at e; cases e)⟩
      rw [h.qcap]; exact hen.1 v k hm
    | inC q' k =>
      rw [hm] at hmok hq
      obtain ⟨rfl, _, hrole, _, _⟩ := hmok
      exact ⟨fun e => (by rw [hrole] at e; cases e), fun _ => hen.2 k hm⟩
  obtain ⟨t', ht'⟩ := queue_progress hinv hth hpc hen'
  -- the stepping entry belongs to a thread that is inside an operation on `q`
  have hex : ∃ th', (c.qs q).threads[t']? = some th' := by
    cases hg : (c.qs q).threads[t']? with
    | none => simp [step, hg] at ht'
    | some th' => exact ⟨th', rfl⟩
  obtain ⟨th', hth'⟩ := hex
  have hlt : t' < P.nthreads := by
    have := (List.getElem?_eq_some_iff.mp hth').1
    rw [h.qlen q] at this; exact this
  have hnd : pcOf (c.qs q) t' ≠ .done := by
    rw [pcOf_eq hth']
    intro e
    apply ht'
    unfold step
    simp only [hth']
    cases th'.role <;> simp [e]
  have hq' : (c.mode t').queue = some q := Classical.byContradiction fun e => hnd (h.rest t' q e)
  refine ⟨t', ?_⟩
  unfold cstep
  rw [if_pos hlt]
  cases hm : c.mode t' with
  | idle => rw [hm] at hq'; cases hq'
  | inP q' v k =>
    rw [hm] at hq'
    have : q' = q := Option.some.inj hq'
    subst this
    simp only [hnd, if_false]
    cases hst : step (c.qs q') t' with
    | none => exact absurd hst ht'
    | some s' => simp
  | inC q' k =>
    rw [hm] at hq'
    have : q' = q := Option.some.inj hq'
    subst this
    simp only [hnd, if_false]
    cases hst : step (c.qs q') t' with
    | none => exact absurd hst ht'
    | some s' => simp

end KV.Sys
