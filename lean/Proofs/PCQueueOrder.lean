import Proofs.PCQueueLive
/-! Termination measure, per-pair order, final delivery. -/
namespace KV.PCQueue

variable {dP dC : Nat}

/-! ### what a step does to the thread list, and the termination measure -/

theorem step_thread {s s' : State} {tid : Nat} (h : Inv dP dC s) (hs : step s tid = some s') :
    ∃ th th', s.threads[tid]? = some th ∧ s'.threads = s.threads.set tid th' ∧ s'.cap = s.cap
      ∧ stepsLeft th' + 1 = stepsLeft th := by
  unfold step at hs
  cases hth : s.threads[tid]? with
  | none => simp [hth] at hs
  | some th =>
    have ok := h.thr tid th hth
    simp only [hth] at hs
    obtain ⟨role, pc, items, orig, quota, got⟩ := th
    cases role <;> cases pc <;> simp only at hs
    · by_cases he : s.empty = 0
      · simp [he] at hs
      · simp [he] at hs; subst hs
        exact ⟨_, _, rfl, rfl, rfl, by simp [stepsLeft, pcRank]⟩
    · by_cases hm : s.pmutex.isSome
      · simp [hm] at hs
      · simp [hm] at hs; subst hs
        exact ⟨_, _, rfl, rfl, rfl, by simp [stepsLeft, pcRank]⟩
    · cases items with
      | nil => simp at hs
      | cons v rest =>
        simp at hs; subst hs
        exact ⟨_, _, rfl, rfl, rfl, by simp [stepsLeft, pcRank]⟩
    · simp at hs; subst hs; exact ⟨_, _, rfl, rfl, rfl, by simp [stepsLeft, pcRank]⟩
    · simp at hs; subst hs
      refine ⟨_, _, rfl, rfl, rfl, ?_⟩
      cases items with
      | nil => simp [stepsLeft, pcRank, nextProd]
      | cons v rest => simp [stepsLeft, pcRank, nextProd]; omega
    · simp at hs
    · by_cases he : s.used = 0
      · simp [he] at hs
      · simp [he] at hs; subst hs
        exact ⟨_, _, rfl, rfl, rfl, by simp [stepsLeft, pcRank]⟩
    · by_cases hm : s.cmutex.isSome
      · simp [hm] at hs
      · simp [hm] at hs; subst hs
        exact ⟨_, _, rfl, rfl, rfl, by simp [stepsLeft, pcRank]⟩
    · simp at hs; subst hs
      have hq : 0 < quota := ok.c_pos rfl (Or.inr (Or.inr rfl))
      exact ⟨_, _, rfl, rfl, rfl, by simp [stepsLeft, pcRank]⟩
    · simp at hs; subst hs; exact ⟨_, _, rfl, rfl, rfl, by simp [stepsLeft, pcRank]⟩
    · simp at hs; subst hs
      refine ⟨_, _, rfl, rfl, rfl, ?_⟩
      by_cases hq : quota = 0
      · simp [stepsLeft, pcRank, nextCons, hq]
      · simp [stepsLeft, pcRank, nextCons, hq]; omega
    · simp at hs

/-- every step consumes exactly one unit of the measure: all schedules are finite, of equal length -/
theorem measure_step {s s' : State} {tid : Nat} (h : Inv dP dC s) (hs : step s tid = some s') :
    measure s' + 1 = measure s := by
  obtain ⟨th, th', hth, hset, _, hdec⟩ := step_thread h hs
  have := sumBy_set (f := stepsLeft) hth th'
  unfold measure
  rw [hset]
  omega

theorem cap_step {s s' : State} {tid : Nat} (h : Inv dP dC s) (hs : step s tid = some s') : s'.cap = s.cap := by
  obtain ⟨_, _, _, _, hc, _⟩ := step_thread h hs
  exact hc

/-! ### per-pair order -/

/-- values written by producer `p` and read by consumer `c`, in the order of the reads -/
def pairSeq (s : State) (p c : Nat) : List Nat :=
  ((s.writes.zip s.reads).filter (fun wr => wr.1.1 == p && wr.2.1 == c)).map (·.2.2)

theorem zip_filter_sublist_left (w r : List (Nat × Nat)) (p c : Nat) :
    (((w.zip r).filter (fun wr => wr.1.1 == p && wr.2.1 == c)).map (·.1.2)).Sublist (writesOf w p) := by
  induction w generalizing r with
  | nil => simp [writesOf]
  | cons a w ih =>
    cases r with
    | nil => simp
    | cons b r =>
      simp only [List.zip_cons_cons, writesOf]
      by_cases h1 : a.1 == p
      · by_cases h2 : b.1 == c
        · simp only [List.filter_cons, h1, h2, Bool.and_self, if_true, List.map_cons]
          exact List.Sublist.cons₂ _ (ih r)
        · simp only [List.filter_cons, h1, h2, Bool.and_false, Bool.false_eq_true, if_false, if_true, List.map_cons]
          exact List.Sublist.cons _ (ih r)
      · simp only [List.filter_cons, h1, Bool.false_and, Bool.false_eq_true, if_false]
        exact ih r

theorem zip_filter_sublist_right (w r : List (Nat × Nat)) (p c : Nat) :
    (((w.zip r).filter (fun wr => wr.1.1 == p && wr.2.1 == c)).map (·.2.2)).Sublist (writesOf r c) := by
  induction w generalizing r with
  | nil => simp [writesOf]
  | cons a w ih =>
    cases r with
    | nil => simp
    | cons b r =>
      simp only [List.zip_cons_cons, writesOf]
      by_cases h2 : b.1 == c
      · by_cases h1 : a.1 == p
        · simp only [List.filter_cons, h1, h2, Bool.and_self, if_true, List.map_cons]
          exact List.Sublist.cons₂ _ (ih r)
        · simp only [List.filter_cons, h1, h2, Bool.false_and, Bool.false_eq_true, if_false, if_true, List.map_cons]
          exact List.Sublist.cons _ (ih r)
      · simp only [List.filter_cons, h2, Bool.and_false, Bool.false_eq_true, if_false]
        exact ih r

theorem zip_values_eq (w r : List (Nat × Nat)) (h : r.map (·.2) = (w.map (·.2)).take r.length) :
    ∀ wr ∈ w.zip r, wr.1.2 = wr.2.2 := by
  induction w generalizing r with
  | nil => simp
  | cons a w ih =>
    cases r with
    | nil => simp
    | cons b r =>
      simp only [List.map_cons, List.length_cons, List.take_succ_cons, List.cons.injEq] at h
      intro wr hwr
      simp only [List.zip_cons_cons, List.mem_cons] at hwr
      rcases hwr with rfl | hwr
      · exact h.1.symm
      · exact ih r h.2 wr hwr

theorem pairSeq_eq_left {s : State} (h : Inv dP dC s) (p c : Nat) :
    pairSeq s p c = ((s.writes.zip s.reads).filter (fun wr => wr.1.1 == p && wr.2.1 == c)).map (·.1.2) := by
  unfold pairSeq
  apply List.map_congr_left
  intro wr hwr
  exact (zip_values_eq _ _ h.fifo wr (List.mem_filter.mp hwr).1).symm

/-! ### final delivery -/

theorem all_done_delivered {s : State} {d : Nat} (h : Inv d d s)
    (hd : ∀ (t : Nat) (th : Thread), s.threads[t]? = some th → th.pc = .done) :
    s.reads.length = s.writes.length ∧ s.reads.map (·.2) = s.writes.map (·.2) ∧ s.used = 0 ∧ s.empty = s.cap := by
  have zA : sumBy isA s.threads = 0 := sumBy_eq_zero (fun t th hth => by simp [isA, b2n, hd t th hth])
  have zB : sumBy isB s.threads = 0 := sumBy_eq_zero (fun t th hth => by simp [isB, b2n, hd t th hth])
  have zC : sumBy isC s.threads = 0 := sumBy_eq_zero (fun t th hth => by simp [isC, b2n, hd t th hth])
  have zD : sumBy isD s.threads = 0 := sumBy_eq_zero (fun t th hth => by simp [isD, b2n, hd t th hth])
  have zP : sumBy remP s.threads = 0 := sumBy_eq_zero (fun t th hth => by
    cases hr : th.role
    · simp [remP, hr, (h.thr t th hth).p_done hr (hd t th hth)]
    · simp [remP, hr])
  have zQ : sumBy remC s.threads = 0 := sumBy_eq_zero (fun t th hth => by
    cases hr : th.role
    · simp [remC, hr]
    · simp [remC, hr, (h.thr t th hth).c_done hr (hd t th hth)])
  have hacct := h.acct
  have hocc := h.occ
  have hbal := h.balance
  have hlen : s.reads.length = s.writes.length := by omega
  refine ⟨hlen, ?_, by omega, by omega⟩
  have := h.fifo
  rw [hlen, ← List.length_map (f := (·.2)), List.take_length] at this
  exact this

end KV.PCQueue
