import Proofs.TrieLevels
import Proofs.TrieMem
import Proofs.TrieRefines
set_option maxRecDepth 4000
namespace KV.TrieLM
open KV.Bits KV.Score KV.Search

theorem or_sign (y : Nat) : (y % 2^32) ||| 2^31 = y % 2^31 + 2^31 := by
  have e : y % 2^31 + 2^31 = (1 <<< 31) ||| (y % 2^31) := by
    rw [← Nat.shiftLeft_add_eq_or_of_lt (Nat.mod_lt _ (by decide)) 1]; simp [Nat.shiftLeft_eq]; omega
  rw [e]
  apply Nat.eq_of_testBit_eq
  intro j
  have e1 : (1 <<< 31 : Nat) = 2^31 := by simp [Nat.shiftLeft_eq]
  rw [e1]
  simp only [Nat.testBit_or, Nat.testBit_mod_two_pow, Nat.testBit_two_pow]
  by_cases h1 : j < 31
  · have : j < 32 := by omega
    have h3 : ¬ (31 = j) := by omega
    simp [h1, this, h3]
  · by_cases h2 : j = 31
    · subst h2; simp
    · have : ¬ j < 32 := by omega
      have h3 : ¬ (31 = j) := by omega
      simp [h1, this, h3]

theorem readFloat32_eq (m off : Nat) : readFloat32 m off = (m >>> off) % 2^32 :=
  KV.C20.read_eq m off 32 (by omega)

theorem readFloat31_eq (m off : Nat) : readNonPositiveFloat31 m off = (m >>> off) % 2^31 + 2^31 := by
  have h : readNonPositiveFloat31 m off = readFloat32 m off ||| 2^31 := rfl
  rw [h, readFloat32_eq, or_sign]

/-- the layout facts of the plain `TrieModel` shape used by `ofTable` (bit widths from `RequiredBits`, the regions in file
order); they follow from the C04 layout model (`Binary.trieSetup`, `trie_regions`) for counts below 2^57 -/
structure ShapeOK (bt : BT) (bound order start : Nat) : Prop where
  nmid : (ofLayout 0 false false plainCfg (countsOf bt bound order) start).middles.length = order - 2
  mid : ∀ om2, om2 + 2 < order → ∃ base,
    (ofLayout 0 false false plainCfg (countsOf bt bound order) start).middles.getD om2 default =
      { base := base, wordBits := requiredBits bound,
        totalBits := requiredBits bound + 63 + requiredBits (level bt bound (om2 + 3)).length,
        quantBits := 63, maxVocab := bound, bhik := .dont (requiredBits (level bt bound (om2 + 3)).length) }
  long : ∃ base, (ofLayout 0 false false plainCfg (countsOf bt bound order) start).longest =
      { base := base, wordBits := requiredBits bound, totalBits := requiredBits bound + 31, maxVocab := bound }
  ord : (regionsOf bt bound order (ofLayout 0 false false plainCfg (countsOf bt bound order) start)).Pairwise RegionSpec.Before
  wbits : requiredBits bound ≤ 57 ∧ ∀ k, k ≤ order → requiredBits (level bt bound k).length ≤ 57
  small : bound < 2^64 ∧ ∀ k, k ≤ order → (level bt bound k).length < 2^64

theorem sum_take_le (l : List Nat) (i : Nat) : (l.take i).sum ≤ l.sum := by
  induction l generalizing i with
  | nil => simp
  | cons x xs ih =>
    cases i with
    | zero => simp
    | succ i => simp only [List.take_succ_cons, List.sum_cons]; have := ih i; omega

theorem startOf_le (bt : BT) (lvl : List (List Nat)) (i : Nat) : startOf bt lvl i ≤ (nextLevel bt lvl).length := by
  rw [length_nextLevel]
  unfold startOf
  rw [List.take_length, List.map_take]
  exact sum_take_le _ i

theorem childStarts_le (bt : BT) (lvl : List (List Nat)) (i : Nat) : (childStarts bt lvl).getD i 0 ≤ (nextLevel bt lvl).length := by
  by_cases h : i ≤ lvl.length
  · rw [childStarts_getD _ _ i h]; exact startOf_le bt lvl i
  · have : (childStarts bt lvl).length = lvl.length + 1 := by
      unfold childStarts; rw [childStarts_fold]; simp
    rw [List.getD_eq_getElem?_getD, List.getElem?_eq_none (by omega)]; simp

theorem uniRegion_ok (bt : BT) (bound U : Nat) : (uniRegion bt bound U).OK := by
  refine ⟨?_, ?_, ?_⟩
  · intro s hs
    have : s < 3 := hs
    simp only [uniRegion, RegionSpec.slotOff, RegionSpec.slotLen, Gen.C04.sizeofTrieUnigramValue]
    match s, this with
    | 0, _ => decide
    | 1, _ => decide
    | 2, _ => decide
  · intro s s' h1 hs'
    have : s' < 3 := hs'
    simp only [uniRegion, RegionSpec.slotOff, RegionSpec.slotLen]
    have h3 : s < s' := h1
    match s, s', h3, this with
    | 0, 1, _, _ => decide
    | 0, 2, _, _ => decide
    | 1, 2, _, _ => decide
    | 0, 0, h, _ => omega
    | 1, 0, h, _ => omega
    | 1, 1, h, _ => omega
    | s+2, 0, h, _ => omega
    | s+2, 1, h, _ => omega
    | s+2, 2, h, _ => omega
    | _, s'+3, _, h => omega
  · intro i s v _ hs hv
    have : s < 3 := hs
    simp only [uniRegion, RegionSpec.slotLen] at hv ⊢
    match s, this with
    | 0, _ =>
      simp only [show (0 : Nat) ≠ 2 by decide, if_false, if_true] at hv
      split at hv
      · cases hv; exact Nat.mod_lt _ (by decide)
      · cases hv
    | 1, _ =>
      simp only [show (1 : Nat) ≠ 2 by decide, show (1 : Nat) ≠ 0 by decide, if_false] at hv
      split at hv
      · cases hv; exact Nat.mod_lt _ (by decide)
      · cases hv
    | 2, _ =>
      simp only [if_true] at hv
      cases hv; exact Nat.mod_lt _ (by decide)


theorem lookup_some_mem (bt : BT) (g : List Nat) (v : Nat × Nat) (h : bt.lookup g = some v) : (g, v) ∈ bt := by
  induction bt with
  | nil => simp [List.lookup] at h
  | cons p ps ih =>
    obtain ⟨k, b⟩ := p
    by_cases hk : g = k
    · subst hk; simp [List.lookup] at h; subst h; simp
    · have : (g == k) = false := by simpa using hk
      simp only [List.lookup, this] at h
      exact List.mem_cons_of_mem _ (ih h)

def ValsOK (bt : BT) : Prop := ∀ p ∈ bt, p.2.1 < 2^32 ∧ p.2.2 < 2^32

theorem valuesOf_lt (bt : BT) (hv : ValsOK bt) (g : List Nat) : (valuesOf bt g).1 < 2^32 ∧ (valuesOf bt g).2 < 2^32 := by
  unfold valuesOf
  cases h : bt.lookup g with
  | none => simp
  | some v => exact hv (g, v) (lookup_some_mem bt g v h)

/-- last word of a record of level `k` is a valid word id -/
theorem level_word_lt (bt : BT) (bound order : Nat) (ok : BTOK bt bound order) (k i : Nat) (hk : 1 ≤ k)
    (hi : i < (level bt bound k).length) : ((level bt bound k).getD i []).getLast?.getD 0 < bound := by
  have hm : (level bt bound k)[i] ∈ level bt bound k := List.getElem_mem hi
  obtain ⟨⟨p, hp, e⟩, hl⟩ := (mem_level bt bound order ok k hk _).mp hm
  rw [List.getD_eq_getElem?_getD, List.getElem?_eq_getElem hi, Option.getD_some]
  have hne : (level bt bound k)[i] ≠ [] := by intro e'; rw [e'] at hl; simp at hl; omega
  rw [List.getLast?_eq_some_getLast hne, Option.getD_some]
  exact ok.words p hp _ (by rw [e]; exact List.getLast_mem hne)

theorem slot_cases4 (s : Nat) (h : s < 4) : s = 0 ∨ s = 1 ∨ s = 2 ∨ s = 3 := by omega

theorem midRegion_ok (bt : BT) (bound order : Nat) (ok : BTOK bt bound order) (hv : ValsOK bt) (k base : Nat) (hk : 1 ≤ k)
    (hb : bound < 2^64) (hn : (level bt bound (k + 1)).length < 2^64) :
    (midRegion bt bound k
      { base := base, wordBits := requiredBits bound,
        totalBits := requiredBits bound + 63 + requiredBits (level bt bound (k + 1)).length,
        quantBits := 63, maxVocab := bound, bhik := .dont (requiredBits (level bt bound (k + 1)).length) }
      (requiredBits (level bt bound (k + 1)).length)).OK := by
  refine ⟨?_, ?_, ?_⟩
  · intro s hs
    rcases slot_cases4 s hs with rfl | rfl | rfl | rfl <;>
      simp [midRegion, RegionSpec.slotOff, RegionSpec.slotLen] <;> omega
  · intro s s' h1 hs'
    rcases slot_cases4 s' hs' with rfl | rfl | rfl | rfl <;>
      rcases slot_cases4 s (by omega) with rfl | rfl | rfl | rfl <;>
      first | omega | (simp [midRegion, RegionSpec.slotOff, RegionSpec.slotLen] <;> omega)
  · intro i s v hi hs hval
    have hnext : (nextLevel bt (level bt bound k)).length = (level bt bound (k + 1)).length := by
      rw [level_succ bt bound k hk]
    rcases slot_cases4 s hs with rfl | rfl | rfl | rfl
    · simp only [midRegion, RegionSpec.slotLen, show (0:Nat) ≠ 3 by decide, if_false, if_true, List.getD_cons_zero] at hval ⊢
      split at hval
      · rename_i hil
        cases hval
        exact KV.C20.required_bits_fits bound _ hb (Nat.le_of_lt (level_word_lt bt bound order ok k i hk hil))
      · cases hval
    · simp only [midRegion, RegionSpec.slotLen, show (1:Nat) ≠ 3 by decide, show (1:Nat) ≠ 0 by decide, if_false, if_true] at hval ⊢
      split at hval
      · cases hval; exact Nat.mod_lt _ (by decide)
      · cases hval
    · simp only [midRegion, RegionSpec.slotLen, show (2:Nat) ≠ 3 by decide, show (2:Nat) ≠ 0 by decide,
        show (2:Nat) ≠ 1 by decide, if_false] at hval ⊢
      split at hval
      · cases hval; exact (valuesOf_lt bt hv _).2
      · cases hval
    · simp only [midRegion, RegionSpec.slotLen, if_true] at hval ⊢
      cases hval
      apply KV.C20.required_bits_fits _ _ hn
      rw [← hnext]; exact childStarts_le bt _ i


theorem longRegion_ok (bt : BT) (bound order : Nat) (ok : BTOK bt bound order) (base : Nat) (hb : bound < 2^64) :
    (longRegion bt bound order
      { base := base, wordBits := requiredBits bound, totalBits := requiredBits bound + 31, maxVocab := bound }).OK := by
  have ho : 1 ≤ order := by have := ok.order2; omega
  refine ⟨?_, ?_, ?_⟩
  · intro s hs
    have h2 : s = 0 ∨ s = 1 := by have : s < 2 := hs; omega
    rcases h2 with rfl | rfl <;> simp [longRegion, RegionSpec.slotOff, RegionSpec.slotLen]
  · intro s s' h1 hs'
    have h2 : s = 0 ∧ s' = 1 := by have : s' < 2 := hs'; omega
    obtain ⟨rfl, rfl⟩ := h2
    simp [longRegion, RegionSpec.slotOff, RegionSpec.slotLen]
  · intro i s v hi hs hval
    have h2 : s = 0 ∨ s = 1 := by have : s < 2 := hs; omega
    rcases h2 with rfl | rfl
    · simp only [longRegion, RegionSpec.slotLen, if_true, List.getD_cons_zero] at hval ⊢
      cases hval
      exact KV.C20.required_bits_fits bound _ hb (Nat.le_of_lt (level_word_lt bt bound order ok order i ho hi))
    · simp only [longRegion, RegionSpec.slotLen, show (1:Nat) ≠ 0 by decide, if_false] at hval ⊢
      cases hval; exact Nat.mod_lt _ (by decide)

/-- membership of the regions -/
theorem uni_mem (bt : BT) (bound order : Nat) (shape : Trie) : uniRegion bt bound shape.unigram ∈ regionsOf bt bound order shape := by
  simp [regionsOf]

theorem long_mem (bt : BT) (bound order : Nat) (shape : Trie) : longRegion bt bound order shape.longest ∈ regionsOf bt bound order shape := by
  simp [regionsOf]

theorem mid_mem (bt : BT) (bound order : Nat) (shape : Trie) (om2 : Nat) (h : om2 < shape.middles.length) :
    midRegion bt bound (om2 + 2) (shape.middles.getD om2 default) (bhikBits (shape.middles.getD om2 default).bhik)
      ∈ regionsOf bt bound order shape := by
  simp only [regionsOf, List.mem_append, List.mem_map, List.mem_singleton]
  left; right
  refine ⟨(shape.middles[om2], om2), ?_, ?_⟩
  · rw [List.mem_iff_getElem]
    refine ⟨om2, by simpa using h, by simp⟩
  · simp [List.getD_eq_getElem?_getD, h]


/-- the table entry `ftOf` makes of a key with values `v` -/
def entryOf (fval : Nat → Rat) (bt : BT) (order : Nat) (g : List Nat) (v : Nat × Nat) : KV.Table.TEntry :=
  { prob := fval (if g.length = 1 then v.1 else v.1 % 2^31 + 2^31), backoff := if g.length = order then 0 else fval v.2,
    extendsLeft := if g.length = order then false else !(childrenOf bt g).isEmpty,
    extendsRight := if g.length = order then false else v.2 != noExtensionBits, blank := false }

theorem lookup_map_entry (fval : Nat → Rat) (bt0 bt : BT) (order : Nat) (g : List Nat) :
    (bt.map fun p => (p.1, entryOf fval bt0 order p.1 p.2)).lookup g = (bt.lookup g).map (entryOf fval bt0 order g) := by
  induction bt with
  | nil => simp [List.lookup]
  | cons p ps ih =>
    obtain ⟨k, v⟩ := p
    by_cases hk : g = k
    · subst hk; simp [List.lookup]
    · have : (g == k) = false := by simpa using hk
      simp only [List.map_cons, List.lookup, this, ih]

theorem lookup_ftOf (fval : Nat → Rat) (bt : BT) (order : Nat) (g : List Nat) :
    (tableOf (ftOf fval bt order) order).lookup g = (bt.lookup g).map (entryOf fval bt order g) := by
  show (ftOf fval bt order).lookup g = _
  exact lookup_map_entry fval bt bt order g

/-- a record with these bits and this child range is the table entry of the key -/
theorem toFound_entry (fval : Nat → Rat) (bt : BT) (order : Nat) (g : List Nat) (v : Nat × Nat) (r : Rec) (s : Nat)
    (hlen : g.length ≠ order)
    (hp : fval r.probBits = fval (if g.length = 1 then v.1 else v.1 % 2^31 + 2^31))
    (hb : r.backoffBits = v.2) (hr : r.range = (s, s + (childrenOf bt g).length)) :
    toFound fval r = Score.toFound (entryOf fval bt order g v) := by
  unfold toFound Score.toFound entryOf
  simp only [hlen, if_false, hp, hb, hr]
  congr 1
  cases hc : childrenOf bt g with
  | nil => simp
  | cons x xs => simp

theorem ofTable_order (bt : BT) (bound order start : Nat) : (ofTable bt bound order start).order = order := by
  simp [ofTable, ofLayout, countsOf]

theorem countsOf_cnt (bt : BT) (bound order k : Nat) (hk : k < order) :
    Binary.cnt (countsOf bt bound order) k = (level bt bound (k + 1)).length := by
  simp [Binary.cnt, countsOf, List.getD_eq_getElem?_getD, hk]

theorem ofTable_bound (bt : BT) (bound order start : Nat) (ho : 1 ≤ order) : (ofTable bt bound order start).bound = bound := by
  show Binary.cnt (countsOf bt bound order) 0 = bound
  rw [countsOf_cnt _ _ _ 0 ho]; simp [level]


theorem regions_ok (bt : BT) (bound order start : Nat) (ok : BTOK bt bound order) (hv : ValsOK bt)
    (sh : ShapeOK bt bound order start) :
    ∀ R ∈ regionsOf bt bound order (ofLayout 0 false false plainCfg (countsOf bt bound order) start), R.OK := by
  intro R hR
  simp only [regionsOf, List.mem_append, List.mem_map, List.mem_singleton] at hR
  rcases hR with (hR | hR) | hR
  · rw [hR]; exact uniRegion_ok _ _ _
  · obtain ⟨⟨m, j⟩, hmem, rfl⟩ := hR
    obtain ⟨idx, hidx, hget⟩ := List.mem_iff_getElem.mp hmem
    simp only [List.length_zip, List.length_range, Nat.min_self] at hidx
    simp only [List.getElem_zip, List.getElem_range, Prod.mk.injEq] at hget
    obtain ⟨hm, hj⟩ := hget
    subst hj
    have hlt : idx + 2 < order := by have := sh.nmid; omega
    obtain ⟨base, hb⟩ := sh.mid idx hlt
    rw [List.getD_eq_getElem?_getD, List.getElem?_eq_getElem hidx, Option.getD_some, hm] at hb
    simp only [hb, bhikBits]
    exact midRegion_ok bt bound order ok hv (idx + 2) base (by omega) sh.small.1 (sh.small.2 _ (by omega))
  · obtain ⟨base, hb⟩ := sh.long
    rw [hR, hb]
    exact longRegion_ok bt bound order ok base sh.small.1

/-- every written slot of the memory built by `ofTable` reads back -/
theorem ofTable_read (bt : BT) (bound order start : Nat) (ok : BTOK bt bound order) (hv : ValsOK bt)
    (sh : ShapeOK bt bound order start) (R : RegionSpec)
    (hR : R ∈ regionsOf bt bound order (ofLayout 0 false false plainCfg (countsOf bt bound order) start))
    (i s v : Nat) (hi : i < R.nrec) (hs : s < R.slots.length) (hval : R.val i s = some v) :
    ((ofTable bt bound order start).mem >>> (R.base + i * R.stride + R.slotOff s)) % 2^(R.slotLen s) = v :=
  regions_read _ (regions_ok bt bound order start ok hv sh) sh.ord R hR i s v hi hs hval


theorem level1_length (bt : BT) (bound : Nat) : (level bt bound 1).length = bound := by simp [level]

/-- the unigram record of word `w` as read from the built memory -/
theorem ofTable_unigramRec (bt : BT) (bound order start : Nat) (ok : BTOK bt bound order) (hv : ValsOK bt)
    (sh : ShapeOK bt bound order start) (w : Nat) (hw : w < bound) :
    unigramRec (ofTable bt bound order start) w =
      { probBits := (valuesOf bt [w]).1, backoffBits := (valuesOf bt [w]).2,
        range := (startOf bt (level bt bound 1) w, startOf bt (level bt bound 1) (w + 1)) } := by
  let shape := ofLayout 0 false false plainCfg (countsOf bt bound order) start
  have hR := uni_mem bt bound order shape
  have rd := ofTable_read bt bound order start ok hv sh _ hR
  have hU : (ofTable bt bound order start).unigram = shape.unigram := rfl
  have hnrec : (uniRegion bt bound shape.unigram).nrec = bound + 1 := rfl
  have hlvl := level1_length bt bound
  have hsl : ∀ s, s < 3 → s < (uniRegion bt bound shape.unigram).slots.length := fun s h => h
  have hsmall : ∀ j, j ≤ bound → startOf bt (level bt bound 1) j % 2^64 = startOf bt (level bt bound 1) j := by
    intro j _
    apply Nat.mod_eq_of_lt
    have := startOf_le bt (level bt bound 1) j
    rw [← level_succ bt bound 1 (by omega)] at this
    exact Nat.lt_of_le_of_lt this (sh.small.2 2 ok.order2)
  have r0 := rd w 0 ((valuesOf bt [w]).1 % 2^32) (by rw [hnrec]; omega) (hsl 0 (by omega)) (by simp [uniRegion, hw])
  have r1 := rd w 1 ((valuesOf bt [w]).2 % 2^32) (by rw [hnrec]; omega) (hsl 1 (by omega)) (by simp [uniRegion, hw])
  have r2 := rd w 2 ((childStarts bt (level bt bound 1)).getD w 0 % 2^64) (by rw [hnrec]; omega) (hsl 2 (by omega)) (by simp [uniRegion])
  have r3 := rd (w + 1) 2 ((childStarts bt (level bt bound 1)).getD (w + 1) 0 % 2^64) (by rw [hnrec]; omega) (hsl 2 (by omega)) (by simp [uniRegion])
  rw [childStarts_getD _ _ w (by omega), hsmall w (by omega)] at r2
  rw [childStarts_getD _ _ (w + 1) (by omega), hsmall (w + 1) (by omega)] at r3
  rw [Nat.mod_eq_of_lt (valuesOf_lt bt hv [w]).1] at r0
  rw [Nat.mod_eq_of_lt (valuesOf_lt bt hv [w]).2] at r1
  simp only [uniRegion, RegionSpec.slotOff, RegionSpec.slotLen, List.getD_cons_zero, List.getD_cons_succ,
    Gen.C04.sizeofTrieUnigramValue] at r0 r1 r2 r3
  unfold unigramRec
  simp only [hU, Gen.C04.sizeofTrieUnigramValue, load32, load64]
  have e0 : 8 * (shape.unigram + 16 * w) = 8 * shape.unigram + w * (8 * 16) + 0 := by omega
  have e1 : 8 * (shape.unigram + 16 * w + 4) = 8 * shape.unigram + w * (8 * 16) + 32 := by omega
  have e2 : 8 * (shape.unigram + 16 * w + 8) = 8 * shape.unigram + w * (8 * 16) + 64 := by omega
  have e3 : 8 * (shape.unigram + 16 * w + 16 + 8) = 8 * shape.unigram + (w + 1) * (8 * 16) + 64 := by omega
  rw [e0, e1, e2, e3, r0, r1, r2, r3]


theorem next_rec_addr (b i T a : Nat) : b + i * T + a + T = b + (i + 1) * T + a := by
  rw [Nat.succ_mul]; generalize i * T = x; omega

/-- record `i` of middle order `om2` as read from the built memory: its word, values and child range -/
theorem ofTable_middle (bt : BT) (bound order start : Nat) (ok : BTOK bt bound order) (hv : ValsOK bt)
    (sh : ShapeOK bt bound order start) (om2 i : Nat) (hom : om2 + 2 < order) (hi : i < (level bt bound (om2 + 2)).length) :
    midKey (ofTable bt bound order start) om2 i = ((level bt bound (om2 + 2)).getD i []).getLast?.getD 0 ∧
    middleRec (ofTable bt bound order start) om2 i =
      { probBits := (valuesOf bt ((level bt bound (om2 + 2)).getD i [])).1 % 2^31 + 2^31,
        backoffBits := (valuesOf bt ((level bt bound (om2 + 2)).getD i [])).2,
        range := (startOf bt (level bt bound (om2 + 2)) i, startOf bt (level bt bound (om2 + 2)) (i + 1)) } := by
  obtain ⟨base, hm⟩ := sh.mid om2 hom
  have hlen : om2 < (ofLayout 0 false false plainCfg (countsOf bt bound order) start).middles.length := by
    rw [sh.nmid]; omega
  have hR := mid_mem bt bound order (ofLayout 0 false false plainCfg (countsOf bt bound order) start) om2 hlen
  have hmid : (ofTable bt bound order start).middle om2 = (ofLayout 0 false false plainCfg (countsOf bt bound order) start).middles.getD om2 default := rfl
  have hq : (ofTable bt bound order start).quant = none := rfl
  rw [hm] at hR
  simp only [bhikBits] at hR
  have rd := ofTable_read bt bound order start ok hv sh _ hR
  have hWle0 := sh.wbits.1
  have hIle0 := sh.wbits.2 (om2 + 3) (by omega)
  generalize hW : requiredBits bound = W at *
  generalize hI : requiredBits (level bt bound (om2 + 3)).length = I at *
  have hWle : W ≤ 57 := hWle0
  have hIle : I ≤ 57 := hIle0
  have hsl : ∀ s, s < 4 → s < (midRegion bt bound (om2 + 2)
      { base := base, wordBits := W, totalBits := W + 63 + I, quantBits := 63, maxVocab := bound, bhik := .dont I } I).slots.length :=
    fun s h => h
  have hnr : (midRegion bt bound (om2 + 2)
      { base := base, wordBits := W, totalBits := W + 63 + I, quantBits := 63, maxVocab := bound, bhik := .dont I } I).nrec
      = (level bt bound (om2 + 2)).length + 1 := rfl
  have r0 := rd i 0 (((level bt bound (om2 + 2)).getD i []).getLast?.getD 0) (by rw [hnr]; omega) (hsl 0 (by omega)) (by simp only [midRegion]; simp [hi])
  have r1 := rd i 1 ((valuesOf bt ((level bt bound (om2 + 2)).getD i [])).1 % 2^32 % 2^31) (by rw [hnr]; omega) (hsl 1 (by omega)) (by simp only [midRegion]; simp [hi])
  have r2 := rd i 2 ((valuesOf bt ((level bt bound (om2 + 2)).getD i [])).2) (by rw [hnr]; omega) (hsl 2 (by omega)) (by simp only [midRegion]; simp [hi])
  have r3 := rd i 3 ((childStarts bt (level bt bound (om2 + 2))).getD i 0) (by rw [hnr]; omega) (hsl 3 (by omega)) (by simp only [midRegion]; simp)
  have r4 := rd (i + 1) 3 ((childStarts bt (level bt bound (om2 + 2))).getD (i + 1) 0) (by rw [hnr]; omega) (hsl 3 (by omega)) (by simp only [midRegion]; simp)
  rw [childStarts_getD _ _ i (by omega)] at r3
  rw [childStarts_getD _ _ (i + 1) (by omega)] at r4
  simp only [midRegion, RegionSpec.slotOff, RegionSpec.slotLen, List.getD_cons_zero, List.getD_cons_succ] at r0 r1 r2 r3 r4
  have hp : (valuesOf bt ((level bt bound (om2 + 2)).getD i [])).1 % 2^32 % 2^31
      = (valuesOf bt ((level bt bound (om2 + 2)).getD i [])).1 % 2^31 := by
    rw [Nat.mod_eq_of_lt (valuesOf_lt bt hv _).1]
  rw [hp] at r1
  constructor
  · unfold midKey wordAt recAddr
    rw [hmid, hm, KV.C20.read_eq_57 _ _ _ hWle]
    have e : 8 * base + i * (W + 63 + I) = 8 * base + i * (W + 63 + I) + 0 := by omega
    rw [e]; exact r0
  · unfold middleRec
    simp only [hmid, hm, hq, middleValues, readNext, recAddr]
    rw [readFloat31_eq, readFloat32_eq, KV.C20.read_eq_57 _ _ _ hIle, KV.C20.read_eq_57 _ _ _ hIle]
    have e1 : 8 * base + i * (W + 63 + I) + W + 31 = 8 * base + i * (W + 63 + I) + (W + 31) := by omega
    have e3 : 8 * base + i * (W + 63 + I) + W + 63 = 8 * base + i * (W + 63 + I) + (W + 63) := by omega
    have e4 : 8 * base + i * (W + 63 + I) + W + 63 + (W + 63 + I) = 8 * base + (i + 1) * (W + 63 + I) + (W + 63) := by
      have := next_rec_addr (8 * base) i (W + 63 + I) (W + 63)
      rw [← this]; simp only [Nat.add_assoc]
    rw [e4, e3, e1, r1, r2, r3, r4]


/-- record `i` of the longest order as read from the built memory -/
theorem ofTable_longest (bt : BT) (bound order start : Nat) (ok : BTOK bt bound order) (hv : ValsOK bt)
    (sh : ShapeOK bt bound order start) (i : Nat) (hi : i < (level bt bound order).length) :
    longKey (ofTable bt bound order start) i = ((level bt bound order).getD i []).getLast?.getD 0 ∧
    longestProbBits (ofTable bt bound order start) i = (valuesOf bt ((level bt bound order).getD i [])).1 % 2^31 + 2^31 := by
  obtain ⟨base, hl⟩ := sh.long
  have hR := long_mem bt bound order (ofLayout 0 false false plainCfg (countsOf bt bound order) start)
  have hlong : (ofTable bt bound order start).longest = (ofLayout 0 false false plainCfg (countsOf bt bound order) start).longest := rfl
  have hq : (ofTable bt bound order start).quant = none := rfl
  rw [hl] at hR
  have rd := ofTable_read bt bound order start ok hv sh _ hR
  have hWle0 := sh.wbits.1
  generalize hW : requiredBits bound = W at *
  have hsl : ∀ s, s < 2 → s < (longRegion bt bound order { base := base, wordBits := W, totalBits := W + 31, maxVocab := bound }).slots.length :=
    fun s h => h
  have hnr : (longRegion bt bound order { base := base, wordBits := W, totalBits := W + 31, maxVocab := bound }).nrec
      = (level bt bound order).length := rfl
  have r0 := rd i 0 (((level bt bound order).getD i []).getLast?.getD 0) (by rw [hnr]; omega) (hsl 0 (by omega)) (by simp only [longRegion]; simp)
  have r1 := rd i 1 ((valuesOf bt ((level bt bound order).getD i [])).1 % 2^32 % 2^31) (by rw [hnr]; omega) (hsl 1 (by omega)) (by simp only [longRegion]; simp)
  simp only [longRegion, RegionSpec.slotOff, RegionSpec.slotLen, List.getD_cons_zero, List.getD_cons_succ] at r0 r1
  have hp : (valuesOf bt ((level bt bound order).getD i [])).1 % 2^32 % 2^31
      = (valuesOf bt ((level bt bound order).getD i [])).1 % 2^31 := by
    rw [Nat.mod_eq_of_lt (valuesOf_lt bt hv _).1]
  rw [hp] at r1
  constructor
  · unfold longKey wordAt recAddr
    rw [hlong, hl, KV.C20.read_eq_57 _ _ _ hWle0]
    have e : 8 * base + i * (W + 31) = 8 * base + i * (W + 31) + 0 := by omega
    rw [e]; exact r0
  · unfold longestProbBits longestValue recAddr
    simp only [hlong, hl, hq]
    rw [readFloat31_eq, r1]


theorem table_lookup_ne_none (fval : Nat → Rat) (bt : BT) (order : Nat) (g : List Nat) :
    (tableOf (ftOf fval bt order) order).lookup g ≠ none ↔ IsKey bt g := by
  rw [lookup_ftOf, ← lookup_ne_none_iff]
  cases bt.lookup g <;> simp

theorem table_lookup_key (fval : Nat → Rat) (bt : BT) (order : Nat) (g : List Nat) (h : IsKey bt g) :
    (tableOf (ftOf fval bt order) order).lookup g = some (entryOf fval bt order g (valuesOf bt g)) := by
  rw [lookup_ftOf]
  have := (lookup_ne_none_iff bt g).mpr h
  unfold valuesOf
  cases hl : bt.lookup g with
  | none => exact absurd hl this
  | some v => simp

theorem level1_getElem (bt : BT) (bound j : Nat) (hj : j < (level bt bound 1).length) : (level bt bound 1)[j] = [j] := by
  simp [level]

theorem key_position' (bt : BT) (bound order : Nat) (ok : BTOK bt bound order) (g : List Nat) (hg : IsKey bt g) (k : Nat)
    (hk : g.length = k) :
    ∃ j, ∃ hj : j < (level bt bound k).length, (level bt bound k)[j] = g ∧ (level bt bound k).idxOf g = j ∧
      rngOf bt bound g = (startOf bt (level bt bound k) j, startOf bt (level bt bound k) j + (childrenOf bt g).length) := by
  subst hk; exact key_position bt bound order ok g hg

/-- everything about the children of a key `g` (length `k`) in the array of level `k+1` -/
theorem children_layout (bt : BT) (bound order : Nat) (ok : BTOK bt bound order) (g : List Nat) (hg : IsKey bt g) :
    ∃ S, rngOf bt bound g = (S, S + (childrenOf bt g).length) ∧
      ∀ t (ht : t < (childrenOf bt g).length),
        ∃ hi : S + t < (level bt bound (g.length + 1)).length,
          (level bt bound (g.length + 1)).getD (S + t) [] = g ++ [(childrenOf bt g)[t]] ∧
          IsKey bt (g ++ [(childrenOf bt g)[t]]) ∧
          rngOf bt bound (g ++ [(childrenOf bt g)[t]]) =
            (startOf bt (level bt bound (g.length + 1)) (S + t), startOf bt (level bt bound (g.length + 1)) (S + t + 1)) := by
  obtain ⟨j, hj, hjg, _, hr⟩ := key_position bt bound order ok g hg
  have hk : 1 ≤ g.length := by obtain ⟨p, hp, e⟩ := hg; rw [← e]; exact (ok.len p hp).1
  refine ⟨_, hr, ?_⟩
  intro t ht
  have ht' : t < (childrenOf bt (level bt bound g.length)[j]).length := by rw [hjg]; exact ht
  obtain ⟨hi, he, hidx⟩ := child_position bt bound order ok g.length j t hk hj ht'
  simp only [hjg] at he hidx
  have hkey : IsKey bt (g ++ [(childrenOf bt g)[t]]) := (mem_childrenOf bt g _).mp (List.getElem_mem ht)
  refine ⟨hi, ?_, hkey, ?_⟩
  · rw [List.getD_eq_getElem?_getD, List.getElem?_eq_getElem hi, Option.getD_some]; exact he
  · obtain ⟨j', hj', hj'g, hidx', hr'⟩ := key_position' bt bound order ok _ hkey (g.length + 1) (by simp)
    have : j' = startOf bt (level bt bound g.length) j + t := by rw [← hidx', hidx]
    subst this
    rw [hr', startOf_succ _ _ _ hj', hj'g]


/-- sortedness of a child range from the sortedness of the children list -/
theorem sortedIn_of_children (key : Nat → Nat) (S : Nat) (c : List Nat) (hc : c.Pairwise (· ≤ ·))
    (hkey : ∀ t (ht : t < c.length), key (S + t) = c[t]) :
    SortedIn (fun pos => key (pos - 1)) S (S + c.length + 1) := by
  intro i j hi hij hj
  have h1 : i - 1 = S + (i - 1 - S) := by omega
  have h2 : j - 1 = S + (j - 1 - S) := by omega
  show key (i - 1) ≤ key (j - 1)
  rw [h1, h2, hkey _ (by omega), hkey _ (by omega)]
  by_cases he : i - 1 - S = j - 1 - S
  · simp [he]
  · exact List.pairwise_iff_getElem.mp hc _ _ (by omega) (by omega) (by omega)

theorem ofTable_represents (fval : Nat → Rat) (bt : BT) (bound order start : Nat) (ok : BTOK bt bound order) (hv : ValsOK bt)
    (sh : ShapeOK bt bound order start) :
    Represents fval (ofTable bt bound order start) (tableOf (ftOf fval bt order) order) (rngOf bt bound) := by
  have ho := ok.order2
  have hbound : (ofTable bt bound order start).bound = bound := ofTable_bound bt bound order start (by omega)
  have hTo : (tableOf (ftOf fval bt order) order).order = order := rfl
  have hmidm : ∀ om2, om2 + 2 < order → ((ofTable bt bound order start).middle om2).maxVocab = bound := by
    intro om2 h
    obtain ⟨base, hm⟩ := sh.mid om2 h
    show ((ofLayout 0 false false plainCfg (countsOf bt bound order) start).middles.getD om2 default).maxVocab = bound
    rw [hm]
  -- children of a key through the middle array
  have midfacts : ∀ g om2, IsKey bt g → g.length = om2 + 1 → om2 + 2 < order →
      ∃ S, rngOf bt bound g = (S, S + (childrenOf bt g).length) ∧
        ∀ t (ht : t < (childrenOf bt g).length),
          midKey (ofTable bt bound order start) om2 (S + t) = (childrenOf bt g)[t] ∧
          IsKey bt (g ++ [(childrenOf bt g)[t]]) ∧
          toFound fval (middleRec (ofTable bt bound order start) om2 (S + t))
            = Score.toFound (entryOf fval bt order (g ++ [(childrenOf bt g)[t]]) (valuesOf bt (g ++ [(childrenOf bt g)[t]]))) ∧
          (middleRec (ofTable bt bound order start) om2 (S + t)).range = rngOf bt bound (g ++ [(childrenOf bt g)[t]]) := by
    intro g om2 hg hl hom
    obtain ⟨S, hr, hch⟩ := children_layout bt bound order ok g hg
    refine ⟨S, hr, ?_⟩
    intro t ht
    obtain ⟨hi, hget, hkey, hrng⟩ := hch t ht
    have e : g.length + 1 = om2 + 2 := by omega
    rw [e] at hi hget hrng
    obtain ⟨hw, hrec⟩ := ofTable_middle bt bound order start ok hv sh om2 (S + t) hom hi
    rw [hget] at hw hrec
    refine ⟨by rw [hw]; simp, hkey, ?_, by rw [hrec, hrng]⟩
    have hlen' : (g ++ [(childrenOf bt g)[t]]).length = om2 + 2 := by simp; omega
    apply toFound_entry fval bt order _ _ _ (startOf bt (level bt bound (om2 + 2)) (S + t)) (by rw [hlen']; omega)
    · rw [hrec]; simp only [hlen']; rw [if_neg (by omega)]
    · rw [hrec]
    · rw [hrec]
      have hs := startOf_succ bt (level bt bound (om2 + 2)) (S + t) hi
      have hg' : (level bt bound (om2 + 2))[S + t] = g ++ [(childrenOf bt g)[t]] := by
        rw [List.getD_eq_getElem?_getD, List.getElem?_eq_getElem hi, Option.getD_some] at hget; exact hget
      rw [hg'] at hs
      simp only [hs]
  have longfacts : ∀ g, IsKey bt g → g.length + 1 = order →
      ∃ S, rngOf bt bound g = (S, S + (childrenOf bt g).length) ∧
        ∀ t (ht : t < (childrenOf bt g).length),
          longKey (ofTable bt bound order start) (S + t) = (childrenOf bt g)[t] ∧
          IsKey bt (g ++ [(childrenOf bt g)[t]]) ∧
          fval (longestProbBits (ofTable bt bound order start) (S + t))
            = (entryOf fval bt order (g ++ [(childrenOf bt g)[t]]) (valuesOf bt (g ++ [(childrenOf bt g)[t]]))).prob := by
    intro g hg hl
    obtain ⟨S, hr, hch⟩ := children_layout bt bound order ok g hg
    refine ⟨S, hr, ?_⟩
    intro t ht
    obtain ⟨hi, hget, hkey, _⟩ := hch t ht
    rw [hl] at hi hget
    obtain ⟨hw, hp⟩ := ofTable_longest bt bound order start ok hv sh (S + t) hi
    rw [hget] at hw hp
    refine ⟨by rw [hw]; simp, hkey, ?_⟩
    have hlen' : (g ++ [(childrenOf bt g)[t]]).length = order := by simp; omega
    rw [hp]; simp only [entryOf, hlen']; rw [if_neg (by omega)]
  refine ⟨ofTable_order bt bound order start, ?_, ?_, ?_, ?_, ?_, ?_, ?_, ?_, ?_⟩
  · -- uni
    intro w hw
    rw [hbound] at hw
    have hkey := ok.unigrams w hw
    refine ⟨_, table_lookup_key fval bt order [w] hkey, ?_, ?_⟩
    · rw [ofTable_unigramRec bt bound order start ok hv sh w hw]
      apply toFound_entry fval bt order [w] _ _ (startOf bt (level bt bound 1) w) (by simp; omega)
      · simp
      · rfl
      · have hwl : w < (level bt bound 1).length := by rw [level1_length]; exact hw
        have hs := startOf_succ bt (level bt bound 1) w hwl
        rw [level1_getElem] at hs
        simp only [hs]
    · rw [ofTable_unigramRec bt bound order start ok hv sh w hw]
      obtain ⟨j, hj, hjg, _, hr⟩ := key_position' bt bound order ok [w] hkey 1 rfl
      rw [level1_getElem] at hjg
      have : j = w := by simpa using hjg
      subst this
      rw [hr, startOf_succ _ _ _ hj, level1_getElem]
  · intro om2 hom; rw [hTo] at hom; rw [hbound, hmidm om2 hom]; omega
  · -- mid_sorted
    intro g om2 hg hl hom
    rw [hTo] at hom
    obtain ⟨S, hr, hch⟩ := midfacts g om2 ((table_lookup_ne_none fval bt order g).mp hg) hl hom
    rw [hr]
    exact sortedIn_of_children (midKey (ofTable bt bound order start) om2) S _ (sorted_sortNat _) (fun t ht => (hch t ht).1)
  · -- mid_rec
    intro g om2 i hg hl hom h1 h2
    rw [hTo] at hom
    obtain ⟨S, hr, hch⟩ := midfacts g om2 ((table_lookup_ne_none fval bt order g).mp hg) hl hom
    rw [hr] at h1 h2
    simp only at h1 h2
    obtain ⟨hw, hkey, hf, hrange⟩ := hch (i - S) (by omega)
    have e : S + (i - S) = i := by omega
    rw [e] at hw hf hrange
    show ∃ t, (tableOf (ftOf fval bt order) order).lookup (g ++ [midKey (ofTable bt bound order start) om2 i]) = some t ∧
      toFound fval (middleRec (ofTable bt bound order start) om2 i) = Score.toFound t ∧
      (middleRec (ofTable bt bound order start) om2 i).range = rngOf bt bound (g ++ [midKey (ofTable bt bound order start) om2 i])
    rw [hw]
    exact ⟨_, table_lookup_key fval bt order _ hkey, hf, hrange⟩
  · -- mid_all
    intro g om2 w hg hl hom hgw
    rw [hTo] at hom
    obtain ⟨S, hr, hch⟩ := midfacts g om2 ((table_lookup_ne_none fval bt order g).mp hg) hl hom
    have hmem : w ∈ childrenOf bt g := (mem_childrenOf bt g w).mpr ((table_lookup_ne_none fval bt order _).mp hgw)
    obtain ⟨t, ht, hte⟩ := List.getElem_of_mem hmem
    rw [hr]
    refine ⟨S + t, by simp, by simp; omega, ?_⟩
    show midKey (ofTable bt bound order start) om2 (S + t) = w
    rw [(hch t ht).1, hte]
  · -- long_bound
    obtain ⟨base, hl⟩ := sh.long
    show (ofTable bt bound order start).bound ≤ (ofLayout 0 false false plainCfg (countsOf bt bound order) start).longest.maxVocab + 1
    rw [hbound, hl]; simp
  · -- long_sorted
    intro g hg _ hl
    rw [hTo] at hl
    obtain ⟨S, hr, hch⟩ := longfacts g ((table_lookup_ne_none fval bt order g).mp hg) hl
    rw [hr]
    exact sortedIn_of_children (longKey (ofTable bt bound order start)) S _ (sorted_sortNat _) (fun t ht => (hch t ht).1)
  · -- long_rec
    intro g i hg _ hl h1 h2
    rw [hTo] at hl
    obtain ⟨S, hr, hch⟩ := longfacts g ((table_lookup_ne_none fval bt order g).mp hg) hl
    rw [hr] at h1 h2
    simp only at h1 h2
    obtain ⟨hw, hkey, hp⟩ := hch (i - S) (by omega)
    have e : S + (i - S) = i := by omega
    rw [e] at hw hp
    show ∃ t, (tableOf (ftOf fval bt order) order).lookup (g ++ [longKey (ofTable bt bound order start) i]) = some t ∧ _
    rw [hw]
    exact ⟨_, table_lookup_key fval bt order _ hkey, hp⟩
  · -- long_all
    intro g w hg _ hl hgw
    rw [hTo] at hl
    obtain ⟨S, hr, hch⟩ := longfacts g ((table_lookup_ne_none fval bt order g).mp hg) hl
    have hmem : w ∈ childrenOf bt g := (mem_childrenOf bt g w).mpr ((table_lookup_ne_none fval bt order _).mp hgw)
    obtain ⟨t, ht, hte⟩ := List.getElem_of_mem hmem
    rw [hr]
    refine ⟨S + t, by simp, by simp; omega, ?_⟩
    show longKey (ofTable bt bound order start) (S + t) = w
    rw [(hch t ht).1, hte]


end KV.TrieLM
