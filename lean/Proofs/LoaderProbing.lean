import Model.LoaderArpa
/-! The probing builder model (`KV.LoaderArpa.probingRun`): what is in the key table, and what an accepted run says about
the contexts.  Core only. -/
namespace KV.LoaderArpa
open KV.Arpa

/-- `k` is an n-gram of the file, or a blank: a proper reversed prefix (length ≥ 2) of an n-gram of the file -/
def Reach (all : List (List Word)) (k : List Word) : Prop :=
  k ∈ all ∨ ∃ g ∈ all, 2 ≤ k.length ∧ k.length < g.length ∧ k = g.take k.length

theorem findLower_reach (all : List (List Word)) (g : List Word) (hg : g ∈ all) :
    ∀ (j : Nat) (keys : List (List Word)), j < g.length → (∀ k ∈ keys, Reach all k) →
      ∀ k ∈ findLower g j keys, Reach all k := by
  intro j
  induction j with
  | zero => intro keys _ h k hk; exact h k (by simpa [findLower] using hk)
  | succ j ih =>
    intro keys hj h k hk
    unfold findLower at hk
    split at hk
    · exact h k hk
    · rename_i h2
      split at hk
      · exact h k hk
      · apply ih (g.take (j + 1) :: keys) (by omega) _ k hk
        intro k' hk'
        rcases List.mem_cons.mp hk' with rfl | hk'
        · right
          have hl : (g.take (j + 1)).length = j + 1 := by simp; omega
          exact ⟨g, hg, by omega, by omega, by rw [hl]⟩
        · exact h k' hk'

theorem probingStep_reach (all : List (List Word)) (order : Nat) (st : List (List Word) × Bool) (g : List Word)
    (hg : g ∈ all) (hgl : 0 < g.length) (h : ∀ k ∈ st.1, Reach all k) :
    ∀ k ∈ (probingStep order st g).1, Reach all k := by
  unfold probingStep
  simp only
  apply findLower_reach all g hg (g.length - 1) _ (by omega)
  intro k hk
  split at hk
  · rcases List.mem_cons.mp hk with rfl | hk
    · exact Or.inl hg
    · exact h k hk
  · exact h k hk

theorem probingStep_flag (order : Nat) (st : List (List Word) × Bool) (g : List Word) :
    (probingStep order st g).2 = true →
      st.2 = true ∧ (3 ≤ g.length → g.tail ∈ (probingStep order st g).1) := by
  unfold probingStep
  simp only [Bool.and_eq_true, Bool.or_eq_true, decide_eq_true_eq, List.contains_eq_mem]
  intro h
  refine ⟨h.1, fun h3 => ?_⟩
  rcases h.2 with hl | hm
  · omega
  · exact hm

theorem fold_flag_mono (order : Nat) : ∀ (gs : List (List Word)) (st : List (List Word) × Bool),
    (gs.foldl (probingStep order) st).2 = true → st.2 = true := by
  intro gs
  induction gs with
  | nil => intro st h; exact h
  | cons g gs ih =>
    intro st h
    simp only [List.foldl_cons] at h
    exact (probingStep_flag order st g (ih _ h)).1

/-- an accepted run: the context of every n-gram of order ≥ 3 was in the table when it was read, hence is an n-gram of
the file or a blank -/
theorem run_reach (all : List (List Word)) (order : Nat) : ∀ (gs : List (List Word)) (st : List (List Word) × Bool),
    (∀ g ∈ gs, g ∈ all ∧ 0 < g.length) → (∀ k ∈ st.1, Reach all k) → (gs.foldl (probingStep order) st).2 = true →
    ∀ g ∈ gs, 3 ≤ g.length → Reach all g.tail := by
  intro gs
  induction gs with
  | nil => intro st _ _ _ g hg; cases hg
  | cons g0 gs ih =>
    intro st hall hinv hflag g hg h3
    simp only [List.foldl_cons] at hflag
    have hg0 := hall g0 List.mem_cons_self
    have hinv' := probingStep_reach all order st g0 hg0.1 hg0.2 hinv
    rcases List.mem_cons.mp hg with rfl | hg
    · have hf := fold_flag_mono order gs _ hflag
      exact hinv' _ ((probingStep_flag order st g hf).2 h3)
    · exact ih _ (fun x hx => hall x (List.mem_cons_of_mem _ hx)) hinv' hflag g hg h3

end KV.LoaderArpa
