import Proofs.ProbingBuildRepG
/-! Lines of order ≥ 4 whose immediate suffix is absent while the next shorter suffix is stored (single-level blank with
a basis of order ≥ 2): closed forms of the builder's phases. -/
namespace KV.ProbingBuild
open KV.Arpa KV.Table KV.Score KV.ProbingLM

theorem findLower_blank4 (combine : Nat → Word → Nat) (p : Key) (k : Nat) (s : St) (o1' : Ord) (is2 : Nat)
    (hfoi1 : (s.mid.getD (k + 1) default).findOrInsert (hashOf combine (p.take (k + 3))) blankW =
      .ok (false, (s.mid.getD (k + 1) default).pay.length, o1'))
    (hfoi2 : ((setMid s (k + 1) o1').mid.getD k default).findOrInsert (hashOf combine (p.take (k + 2))) blankW =
      .ok (true, is2, (setMid s (k + 1) o1').mid.getD k default)) :
    findLower combine p (k + 2) s [] =
      .ok (setMid (setMid s (k + 1) o1') k ((setMid s (k + 1) o1').mid.getD k default),
           [.mid (k + 1) (s.mid.getD (k + 1) default).pay.length, .mid k is2]) := by
  simp only [findLower, hfoi1, bind, Except.bind, List.nil_append, Bool.false_eq_true, if_false]
  have := hfoi2
  simp only [setMid] at this
  simp only [this, if_true, setMid, List.cons_append, List.nil_append]

theorem adjustLower_blank4 (combine : Nat → Word → Nat) (ar : Rat) (p : Key) (k L is2 ic2 : Nat) (s : St)
    (hfind : (s.mid.getD k default).find (hashOf combine ((p.drop 1).take (k + 2))) = .ok (some ic2)) :
    adjustLower combine false ar p (k + 4) [.mid (k + 1) L, .mid k is2] s =
      .ok ((((s.modify (.mid k ic2) setExtension).modify (.mid (k + 1) L)
              (fun w => setProb w (-(s.get (.mid k is2)).mag + ((s.modify (.mid k ic2) setExtension).get (.mid k ic2)).backoff))).modify
            (.mid (k + 1) L) clr).modify (.mid k is2) clr) := by
  have hb : (k + 4 - 2 == 1) = false := by simp
  have h2 : k + 4 - 2 = k + 2 := by omega
  have h3 : k + 2 - 2 = k := by omega
  simp only [adjustLower, List.getLastD, List.getLast?, List.length_cons, List.length_nil, List.dropLast, List.reverse_cons,
    List.reverse_nil, List.nil_append, hb, Bool.false_eq_true, if_false, bind, Except.bind, pure, Except.pure, h2,
    fillBlanks, h3, hfind, setRest, markChain, markExtends]
  rfl

end KV.ProbingBuild

namespace KV.ProbingBuild
open KV.Arpa KV.Table KV.Score KV.ProbingLM

theorem tbl_mid (N : Nat) (s : St) (m : Nat) (h : m ≠ N) : tbl N s m = s.mid.getD (m - 2) default := by
  unfold tbl; simp [h]

/-- a line of order `k+4` whose immediate suffix is not stored while the next shorter one is -/
theorem invG_step_blank4 (combine : Nat → Word → Nat) (a : Arpa) (u0 : List W) (N : Nat) (caps : Nat → Nat)
    (S : List Key) (s : St) (inv : InvG combine a u0 N caps S s) (p : Key) (k : Nat) (e : Entry)
    (hpl : p.length = k + 4) (hN : k + 4 ≤ N) (hreal : a.gram p = some e) (hblank : a.gram (p.take (k + 3)) = none)
    (hasc : ∀ q ∈ S, q.length ≤ k + 4)
    (hfreshp : ∀ q ∈ keysOf S (k + 4), hashOf combine q ≠ hashOf combine p)
    (hfreshb : ∀ q ∈ keysOf S (k + 3), hashOf combine q ≠ hashOf combine (p.take (k + 3)))
    (hcapp : (keysOf S (k + 4)).length + 1 < caps (k + 4)) (hcapb : (keysOf S (k + 3)).length + 1 < caps (k + 3))
    (hE : endsInK S (p.take (k + 3)) = false) (hSW : startsWithK S (p.take (k + 3)) = false)
    (hbasis : p.take (k + 2) ∈ S) (hctx1 : p.drop 1 ∈ S) (hctx2 : (p.drop 1).take (k + 2) ∈ S)
    (hval : (-(wantW a S (p.take (k + 2))).mag + (wantW a S ((p.drop 1).take (k + 2))).backoff).abs =
      (score a (p.take (k + 3)).tail ((p.take (k + 3)).headD 0)).abs) :
    ∃ s', addLine combine false N s p e = .ok s' ∧ InvG combine a u0 N caps (S ++ [p.take (k + 3)] ++ [p]) s' := by
  have hbl : (p.take (k + 3)).length = k + 3 := by rw [List.length_take]; omega
  have hbl2 : (p.take (k + 2)).length = k + 2 := by rw [List.length_take]; omega
  have hcl1 : (p.drop 1).length = k + 3 := by rw [List.length_drop]; omega
  have hcl2 : ((p.drop 1).take (k + 2)).length = k + 2 := by rw [List.length_take, hcl1]; omega
  obtain ⟨Mn, semn⟩ := inv.tabs (k + 4) (by omega) hN
  obtain ⟨M3, sem3⟩ := inv.tabs (k + 3) (by omega) (by omega)
  obtain ⟨M2, sem2⟩ := inv.tabs (k + 2) (by omega) (by omega)
  have semn0 := ordG_frame semn (p.take (k + 3)) (by omega) (by omega)
  have hkn : keysOf (S ++ [p.take (k + 3)]) (k + 4) = keysOf S (k + 4) := keysOf_append_other S _ _ (by omega)
  obtain ⟨s1, Mn', hph, hu1, hml1, semn', hto⟩ := invG_insert_line combine a N caps (S ++ [p.take (k + 3)]) s inv.midlen p e
    (by omega) (by omega) Mn (by rw [hpl]; exact semn0) hreal
    (by intro q hq; rcases List.mem_append.mp hq with h | h
        · rw [hpl]; exact hasc q h
        · simp at h; subst h; omega)
    (by rw [hpl, hkn]; exact hfreshp) (by rw [hpl, hkn]; exact hcapp)
  rw [hpl] at semn' hto
  have h3N : k + 3 ≠ N := by omega
  have h2N : k + 2 ≠ N := by omega
  have ht3 : s1.mid.getD (k + 1) default = tbl N s (k + 3) := by
    have := hto (k + 3) (by omega) (by omega)
    rw [tbl_mid N s1 _ h3N] at this
    simpa using this
  have ht2 : s1.mid.getD k default = tbl N s (k + 2) := by
    have := hto (k + 2) (by omega) (by omega)
    rw [tbl_mid N s1 _ h2N] at this
    simpa using this
  rw [← ht3] at sem3
  rw [← ht2] at sem2
  have hk1l : k + 1 < s1.mid.length := by rw [hml1]; omega
  have hkl : k < s1.mid.length := by rw [hml1]; omega
  -- table k+3: the blank is new
  have hM3 := sem3.find_fresh _ hfreshb
  obtain ⟨o1', hfoi1, oi1', hpay1', hN1', hent1'⟩ := ord_findOrInsert_new sem3.inv (hashOf combine (p.take (k + 3))) blankW hM3
    (by rw [sem3.ent, sem3.cap]; exact hcapb)
  obtain ⟨ic1, hic1, hc1e, hkeyc1⟩ := sem3.find_mem _ hctx1 hcl1
  have hLlen : (s1.mid.getD (k + 1) default).pay.length = (keysOf S (k + 3)).length := sem3.plen
  -- table k+2: basis and context are stored
  obtain ⟨is2, his2, hb2e, hkeyb⟩ := sem2.find_mem _ hbasis hbl2
  obtain ⟨ic2, hic2, hc2e, hkeyc2⟩ := sem2.find_mem _ hctx2 hcl2
  have hget_k : (setMid s1 (k + 1) o1').mid.getD k default = s1.mid.getD k default := by
    simp only [setMid, getD_set]
    have : ¬ (k = k + 1 ∧ k + 1 < s1.mid.length) := by omega
    simp [this]
  have hfoi2 : ((setMid s1 (k + 1) o1').mid.getD k default).findOrInsert (hashOf combine (p.take (k + 2))) blankW =
      .ok (true, is2, (setMid s1 (k + 1) o1').mid.getD k default) := by
    rw [hget_k]; exact ord_findOrInsert_found sem2.inv _ blankW is2 hkeyb
  rw [addLine_phases, hph]
  simp only [bind, Except.bind]
  have hf2 : p.length - 2 = k + 2 := by omega
  rw [hf2, hpl]
  rw [findLower_blank4 combine p k s1 o1' is2 hfoi1 hfoi2]
  simp only
  have hs2get : (setMid (setMid s1 (k + 1) o1') k ((setMid s1 (k + 1) o1').mid.getD k default)).mid.getD k default = s1.mid.getD k default := by
    rw [hget_k]
    simp only [setMid, getD_set, List.length_set]
    simp [hkl]
  have hfind : ((setMid (setMid s1 (k + 1) o1') k ((setMid s1 (k + 1) o1').mid.getD k default)).mid.getD k default).find
      (hashOf combine ((p.drop 1).take (k + 2))) = .ok (some ic2) := by
    rw [hs2get, ord_find sem2.inv, hkeyc2]
  rw [adjustLower_blank4 combine _ p k _ is2 ic2 _ hfind]
  rw [hget_k]
  obtain ⟨s3, hs3⟩ : ∃ s3 : St, s3 = ((((setMid (setMid s1 (k + 1) o1') k (s1.mid.getD k default)).modify (.mid k ic2) setExtension).modify
      (.mid (k + 1) (s1.mid.getD (k + 1) default).pay.length)
      (fun w => setProb w (-((setMid (setMid s1 (k + 1) o1') k (s1.mid.getD k default)).get (.mid k is2)).mag +
        (((setMid (setMid s1 (k + 1) o1') k (s1.mid.getD k default)).modify (.mid k ic2) setExtension).get (.mid k ic2)).backoff))).modify
      (.mid (k + 1) (s1.mid.getD (k + 1) default).pay.length) clr).modify (.mid k is2) clr := ⟨_, rfl⟩
  rw [← hs3]
  have hne1 : ¬ (k + 1 = k) := by omega
  have hne2 : ¬ (k = k + 1) := by omega
  have hic2l : ic2 < (s1.mid.getD k default).pay.length := by rw [sem2.plen]; exact hic2
  have his2l : is2 < (s1.mid.getD k default).pay.length := by rw [sem2.plen]; exact his2
  have h3len : s3.mid.length = N - 2 := by rw [hs3]; simp [St.modify, setMid, hml1]
  have h3uni : s3.uni = s1.uni := by rw [hs3]; rfl
  have h3long : s3.longest = s1.longest := by rw [hs3]; rfl
  have h3k : s3.mid.getD k default = withPay (s1.mid.getD k default)
      (((s1.mid.getD k default).pay.set ic2 (setExtension ((s1.mid.getD k default).pay.getD ic2 default))).set is2
        (clr ((((s1.mid.getD k default).pay.set ic2 (setExtension ((s1.mid.getD k default).pay.getD ic2 default)))).getD is2 default))) := by
    rw [hs3]
    simp only [St.modify, St.get, setMid, getD_set, List.length_set, hkl, hk1l, hne1, hne2, and_self, if_true, false_and, if_false,
      set_set_same, withPay]
  have h3k1 : s3.mid.getD (k + 1) default = withPay o1'
      ((o1'.pay.set (s1.mid.getD (k + 1) default).pay.length
        (setProb (o1'.pay.getD (s1.mid.getD (k + 1) default).pay.length default)
          (-((s1.mid.getD k default).pay.getD is2 default).mag + (setExtension ((s1.mid.getD k default).pay.getD ic2 default)).backoff))).set
        (s1.mid.getD (k + 1) default).pay.length
        (clr ((o1'.pay.set (s1.mid.getD (k + 1) default).pay.length
          (setProb (o1'.pay.getD (s1.mid.getD (k + 1) default).pay.length default)
            (-((s1.mid.getD k default).pay.getD is2 default).mag + (setExtension ((s1.mid.getD k default).pay.getD ic2 default)).backoff))).getD
          (s1.mid.getD (k + 1) default).pay.length default))) := by
    rw [hs3]
    simp only [St.modify, St.get, setMid, getD_set, List.length_set, hkl, hk1l, hne1, hne2, hic2l, and_self, if_true, false_and, if_false,
      set_set_same, withPay]
  have h3o : ∀ i, i ≠ k → i ≠ k + 1 → s3.mid.getD i default = s1.mid.getD i default := by
    intro i h1 h2
    rw [hs3]
    simp only [St.modify, St.get, setMid, getD_set, List.length_set, h1, h2, false_and, if_false]
  generalize hP2 : (s1.mid.getD k default).pay = P2 at *
  generalize hPA : ((o1'.pay.set (s1.mid.getD (k + 1) default).pay.length (setProb (o1'.pay.getD (s1.mid.getD (k + 1) default).pay.length default)
      (-(P2.getD is2 default).mag + (setExtension (P2.getD ic2 default)).backoff))).set (s1.mid.getD (k + 1) default).pay.length
      (clr ((o1'.pay.set (s1.mid.getD (k + 1) default).pay.length (setProb (o1'.pay.getD (s1.mid.getD (k + 1) default).pay.length default)
        (-(P2.getD is2 default).mag + (setExtension (P2.getD ic2 default)).backoff))).getD (s1.mid.getD (k + 1) default).pay.length default))) = PA at h3k1
  have hPAlen : PA.length = o1'.pay.length := by rw [← hPA]; simp
  have hPAget : ∀ j, PA.getD j default = if j = (s1.mid.getD (k + 1) default).pay.length then
      clr (setProb blankW (-(P2.getD is2 default).mag + (setExtension (P2.getD ic2 default)).backoff)) else o1'.pay.getD j default := by
    intro j
    rw [← hPA]
    simp only [getD_set, List.length_set, hpay1', List.length_append, List.length_cons, List.length_nil]
    by_cases hj : j = (s1.mid.getD (k + 1) default).pay.length
    · rw [hj]
      have hlt : (s1.mid.getD (k + 1) default).pay.length < (s1.mid.getD (k + 1) default).pay.length + 1 := by omega
      simp only [hlt, and_self, if_true]
      have : ((s1.mid.getD (k + 1) default).pay ++ [blankW]).getD (s1.mid.getD (k + 1) default).pay.length default = blankW := by
        rw [List.getD_eq_getElem?_getD, List.getElem?_append_right (Nat.le_refl _)]
        simp
      rw [this]
    · have hj' := hj
      simp only [List.getD_eq_getElem?_getD] at hj'
      simp [hj']
  have oi3 : OrdInv (s3.mid.getD (k + 1) default) (KV.Probing.upd M3 (hashOf combine (p.take (k + 3))) (s1.mid.getD (k + 1) default).pay.length) := by
    rw [h3k1]
    exact ⟨oi1'.inv, oi1'.abs, fun q i hq => by show i < PA.length; rw [hPAlen]; exact oi1'.idx q i hq⟩
  have hkeyc' : KV.Probing.upd M3 (hashOf combine (p.take (k + 3))) (s1.mid.getD (k + 1) default).pay.length (hashOf combine (p.drop 1)) = some ic1 := by
    have hne : hashOf combine (p.drop 1) ≠ hashOf combine (p.take (k + 3)) := hfreshb _ (by rw [← hc1e]; exact List.getElem_mem hic1)
    show (if hashOf combine (p.drop 1) = hashOf combine (p.take (k + 3)) then _ else M3 (hashOf combine (p.drop 1))) = _
    rw [if_neg hne]; exact hkeyc1
  have hact := activate_found combine p (k + 1) s3 _ ic1 oi3 hkeyc'
  have h43 : k + 1 + 3 = k + 4 := by omega
  rw [h43] at hact
  simp only [hact]
  refine ⟨_, rfl, ⟨by simp [St.modify, h3len], ?_, ?_⟩⟩
  · show UniG u0 _ s3.uni
    rw [h3uni, hu1]
    exact uniG_frame (uniG_frame inv.uni _ (by omega)) p (by omega)
  · intro m hm2 hmN
    have hic1L : ic1 < (s1.mid.getD (k + 1) default).pay.length := by rw [hLlen]; exact hic1
    by_cases hm3 : m = k + 3
    · -- the table that received the blank
      subst hm3
      have htm : tbl N (s3.modify (.mid (k + 1) ic1) setExtension) (k + 3) =
          withPay o1' (PA.set ic1 (setExtension (PA.getD ic1 default))) := by
        rw [tbl_mid _ _ _ h3N]
        simp only [St.modify, Nat.add_sub_cancel, getD_set, h3len, h3k1, withPay]
        have : k + 3 - 2 = k + 1 := by omega
        simp [this]; omega
      rw [htm]
      have semA := ordG_append sem3 (p.take (k + 3)) hbl hfreshb
        (withPay o1' ((s1.mid.getD (k + 1) default).pay ++ [wantW a (S ++ [p.take (k + 3)]) (p.take (k + 3))]))
        ⟨oi1'.inv, oi1'.abs, fun q i hq => by
          show i < ((s1.mid.getD (k + 1) default).pay ++ [_]).length
          have := oi1'.idx q i hq; rw [hpay1'] at this; simpa using this⟩
        rfl hN1' hent1'
      have hk3 : keysOf (S ++ [p.take (k + 3)]) (k + 3) = keysOf S (k + 3) ++ [p.take (k + 3)] := keysOf_append_same S _ _ hbl
      have hLk : (s1.mid.getD (k + 1) default).pay.length < (keysOf (S ++ [p.take (k + 3)]) (k + 3)).length := by rw [hk3, hLlen]; simp
      have hic1' : ic1 < (keysOf (S ++ [p.take (k + 3)]) (k + 3)).length := by rw [hk3]; simp; omega
      have semB := ordG_mark semA p (by omega) (s1.mid.getD (k + 1) default).pay.length hLk
        (by simp only [hk3]; rw [List.getElem_append_right (by rw [hLlen]; exact Nat.le_refl _)]; simp [hLlen])
        ic1 hic1' (by simp only [hk3]; rw [List.getElem_append_left hic1]; exact hc1e)
      refine ⟨KV.Probing.upd M3 (hashOf combine (p.take (k + 3))) (s1.mid.getD (k + 1) default).pay.length, ?_⟩
      have := ordG_congr semB (PA.set ic1 (setExtension (PA.getD ic1 default))) (by simp [withPay, markPay, hPAlen, hpay1']) ?_
      · simpa [withPay] using this
      · intro j
        have hBval : wantW a (S ++ [p.take (k + 3)]) (p.take (k + 3)) =
            { mag := (score a (p.take (k + 3)).tail ((p.take (k + 3)).headD 0)).abs, neg := true, backoff := 0, xr := false, rest := 0 } := by
          simp [wantW, baseW, hblank, endsInK_append, startsWithK_append, hE, hSW]
        have hp_is2 : P2.getD is2 default = wantW a S (p.take (k + 2)) := by
          have := sem2.pay is2 his2; rw [hb2e, hP2] at this; exact this
        have hp_ic2 : P2.getD ic2 default = wantW a S ((p.drop 1).take (k + 2)) := by
          have := sem2.pay ic2 hic2; rw [hc2e, hP2] at this; exact this
        have hse : (setExtension (P2.getD ic2 default)).backoff = (wantW a S ((p.drop 1).take (k + 2))).backoff := by
          rw [hp_ic2]; unfold setExtension; split <;> rfl
        have hnew : clr (setProb blankW (-(P2.getD is2 default).mag + (setExtension (P2.getD ic2 default)).backoff)) =
            clr (wantW a (S ++ [p.take (k + 3)]) (p.take (k + 3))) := by
          rw [hBval, hse, hp_is2]
          simp only [clr, setProb, blankW, hval]
        simp only [withPay, markPay, getD_set, List.length_set, List.length_append, List.length_cons, List.length_nil, hPAlen, hpay1',
          hPAget, hnew]
        generalize hLL : (s1.mid.getD (k + 1) default).pay.length = LL at *
        generalize hPP : (s1.mid.getD (k + 1) default).pay = PP at *
        by_cases hjL : j = LL
        · subst hjL
          have hne : ¬ j = ic1 := by omega
          have hlt : j < j + 1 := by omega
          simp only [hne, false_and, if_false, if_true, hlt, and_self]
          have : (PP ++ [wantW a (S ++ [p.take (k + 3)]) (p.take (k + 3))]).getD j default = wantW a (S ++ [p.take (k + 3)]) (p.take (k + 3)) := by
            rw [List.getD_eq_getElem?_getD, List.getElem?_append_right (by omega)]
            simp [hLL]
          rw [this]
        · by_cases hji : j = ic1
          · subst hji
            have hlt : j < LL + 1 := by omega
            simp only [hlt, and_self, if_true, hjL, if_false, false_and]
            have e1 : (PP ++ [blankW]).getD j default = PP.getD j default := by
              rw [List.getD_eq_getElem?_getD, List.getD_eq_getElem?_getD, List.getElem?_append_left (by omega)]
            have e2 : (PP ++ [wantW a (S ++ [p.take (k + 3)]) (p.take (k + 3))]).getD j default = PP.getD j default := by
              rw [List.getD_eq_getElem?_getD, List.getD_eq_getElem?_getD, List.getElem?_append_left (by omega)]
            rw [e1, e2]
          · simp only [hji, hjL, false_and, if_false]
            by_cases hjlt : j < LL
            · rw [List.getD_eq_getElem?_getD, List.getD_eq_getElem?_getD, List.getElem?_append_left (by omega),
                List.getElem?_append_left (by omega)]
            · rw [List.getD_eq_getElem?_getD, List.getD_eq_getElem?_getD, List.getElem?_eq_none (by simp; omega),
                List.getElem?_eq_none (by simp; omega)]
    · have hframe : ∀ i, i ≠ k + 1 → (s3.modify (.mid (k + 1) ic1) setExtension).mid.getD i default = s3.mid.getD i default := by
        intro i hi
        simp only [St.modify, getD_set, hi, false_and, if_false]
      by_cases hm2' : m = k + 2
      · -- the table of the basis and of the blank's context
        subst hm2'
        rw [tbl_mid _ _ _ h2N]
        have hidx : k + 2 - 2 = k := by omega
        rw [hidx, hframe k (by omega), h3k]
        have hbk : (keysOf S (k + 2))[is2] = (p.take (k + 3)).take (k + 2) := by
          rw [hb2e, List.take_take]; congr 1; omega
        have hck : (keysOf S (k + 2))[ic2] = (p.take (k + 3)).drop 1 := by
          rw [hc2e, take_drop_one p (k + 3) (by omega)]; rfl
        have semM := ordG_frame (ordG_mark sem2 (p.take (k + 3)) hbl is2 his2 hbk ic2 hic2 hck) p (by omega) (by omega)
        refine ⟨M2, ?_⟩
        rw [hP2] at semM
        have := ordG_congr semM ((P2.set ic2 (setExtension (P2.getD ic2 default))).set is2
          (clr ((P2.set ic2 (setExtension (P2.getD ic2 default))).getD is2 default))) (by simp [withPay, markPay]) ?_
        · simpa [withPay, hP2] using this
        · intro j
          have hic2l' : ic2 < P2.length := hic2l
          have his2l' : is2 < P2.length := his2l
          simp only [withPay, markPay, getD_set, List.length_set, hic2l', his2l', and_self, if_true]
          by_cases hji : j = is2
          · subst hji
            by_cases hjc : j = ic2
            · subst hjc; simp only [and_self, if_true, his2l']; exact clr_setExtension _
            · simp [hjc, his2l']
          · by_cases hjc : j = ic2
            · subst hjc; simp [hji, hic2l']
            · simp [hji, hjc]
      · by_cases hmn : m = k + 4
        · subst hmn
          have : tbl N (s3.modify (.mid (k + 1) ic1) setExtension) (k + 4) = tbl N s1 (k + 4) := by
            unfold tbl
            by_cases hN4 : k + 4 = N
            · simp only [hN4, if_true, St.modify, h3long]
            · simp only [hN4, if_false]
              have hidx : k + 4 - 2 = k + 2 := by omega
              rw [hidx, hframe (k + 2) (by omega), h3o (k + 2) (by omega) (by omega)]
          rw [this]; exact ⟨Mn', semn'⟩
        · have : tbl N (s3.modify (.mid (k + 1) ic1) setExtension) m = tbl N s m := by
            rw [← hto m hmn hm2]
            unfold tbl
            by_cases hmN' : m = N
            · simp only [hmN', if_true, St.modify, h3long]
            · simp only [hmN', if_false]
              rw [hframe (m - 2) (by omega), h3o (m - 2) (by omega) (by omega)]
          rw [this]
          obtain ⟨M, sem⟩ := inv.tabs m hm2 hmN
          exact ⟨M, ordG_frame (ordG_frame sem _ (by omega) (by omega)) p (by omega) (by omega)⟩

end KV.ProbingBuild

namespace KV.ProbingBuild
open KV.Arpa KV.Table KV.Score KV.ProbingLM

theorem blank4_val {a : Arpa} {nWords : Nat} {um : Rat} (ok : ArpaOK' a nWords um) (S : List Key) (p : Key) (k : Nat)
    (hpl : p.length = k + 4) (hN : k + 4 ≤ a.order) (hblank : a.gram (p.take (k + 3)) = none) (e2 : Entry)
    (hb : a.gram (p.take (k + 2)) = some e2) :
    (-(wantW a S (p.take (k + 2))).mag + (wantW a S ((p.drop 1).take (k + 2))).backoff).abs =
      (score a (p.take (k + 3)).tail ((p.take (k + 3)).headD 0)).abs := by
  cases p with
  | nil => simp at hpl
  | cons w rest =>
    have hrl : rest.length = k + 3 := by simpa using hpl
    simp only [List.take_succ_cons, List.tail_cons, List.headD_cons, List.drop_one] at hblank hb ⊢
    have hmag : (wantW a S (w :: rest.take (k + 1))).mag = e2.prob.abs := by simp [wantW, baseW, hb, lineW]
    have hbo : (wantW a S (rest.take (k + 2))).backoff = a.boW (rest.take (k + 2)) := by
      unfold Arpa.boW
      cases hg : a.gram (rest.take (k + 2)) <;> simp [wantW, baseW, hg, lineW]
    have hsc : score a (rest.take (k + 2)) w = a.boW (rest.take (k + 2)) + e2.prob := by
      unfold score
      have hl : (rest.take (k + 2)).length = k + 2 := by rw [List.length_take]; omega
      have : min (rest.take (k + 2)).length (a.order - 1) = (k + 1) + 1 := by rw [hl]; omega
      rw [this]
      have ht1 : (rest.take (k + 2)).take (k + 1 + 1) = rest.take (k + 2) := by rw [List.take_take]; congr 1; omega
      have ht2 : (rest.take (k + 2)).take (k + 1) = rest.take (k + 1) := by rw [List.take_take]; congr 1; omega
      simp only [scoreAt, ht1, hblank]
      cases k with
      | zero => simp only [scoreAt, ht2, hb] at *
      | succ k' => simp only [scoreAt, ht2, hb]
    rw [hmag, hbo, hsc, neg_abs_of_nonpos _ (ok.nonpos _ e2 hb)]
    congr 1; grind

end KV.ProbingBuild

namespace KV.ProbingBuild
open KV.Arpa KV.Table KV.Score KV.ProbingLM

/-- single-level blanks at any order: an n-gram of order ≥ 4 has its immediate suffix or the next shorter one in the model -/
def Cls2 (a : Arpa) (p : Key) : Prop :=
  4 ≤ p.length → a.gram (p.take (p.length - 1)) ≠ none ∨ a.gram (p.take (p.length - 2)) ≠ none

theorem step2 (combine : Nat → Word → Nat) (a : Arpa) (nWords : Nat) (um : Rat) (ok : ArpaOK' a nWords um) (caps : Nat → Nat)
    (S : List Key) (s : St) (p : Key) (e : Entry) (inv : InvG combine a (initUni a nWords) a.order caps S s) (si : SInv a S)
    (lc : LC combine a (initUni a nWords) a.order caps S p e) (cls : Cls2 a p) :
    ∃ s', addLine combine false a.order s p e = .ok s' ∧ InvG combine a (initUni a nWords) a.order caps (addLineKeys S p) s' := by
  by_cases hcase : 4 ≤ p.length ∧ p.take (p.length - 1) ∉ S
  · obtain ⟨h4, hns⟩ := hcase
    obtain ⟨k, hk⟩ : ∃ k, p.length = k + 4 := ⟨p.length - 4, by omega⟩
    have hk3 : p.length - 1 = k + 3 := by omega
    have hk2 : p.length - 2 = k + 2 := by omega
    rw [hk3] at hns
    have hblank : a.gram (p.take (k + 3)) = none := by
      cases hg : a.gram (p.take (k + 3)) with
      | none => rfl
      | some e' => exact absurd (lc.rs _ (by rw [hg]; simp) (by rw [List.length_take]; omega) (by rw [List.length_take]; omega)) hns
    have hb2 : a.gram (p.take (k + 2)) ≠ none := by
      rcases cls h4 with h | h
      · rw [hk3, hblank] at h; exact absurd rfl h
      · rw [hk2] at h; exact h
    obtain ⟨e2, he2⟩ := Option.ne_none_iff_exists'.mp hb2
    have hbasis : p.take (k + 2) ∈ S := lc.rs _ hb2 (by rw [List.length_take]; omega) (by rw [List.length_take]; omega)
    have hmiss : missing S p (p.length - 1) = [p.take (k + 3)] := by
      rw [hk3]
      have : missing S p (k + 2) = [] := missing_nil_of_mem S p (k + 2) (Or.inr hbasis)
      simp [missing, hns, hbasis]
    have hS : addLineKeys S p = S ++ [p.take (k + 3)] ++ [p] := by simp [addLineKeys, hmiss]
    rw [hS]
    have hbl : (p.take (k + 3)).length = k + 3 := by rw [List.length_take]; omega
    have hcp := lc.cap (k + 4)
    have hcb := lc.cap (k + 3)
    rw [hS] at hcp hcb
    have hkp : keysOf (S ++ [p.take (k + 3)] ++ [p]) (k + 4) = keysOf S (k + 4) ++ [p] := by
      rw [keysOf_append_same _ _ _ hk, keysOf_append_other _ _ _ (by omega)]
    have hkb : keysOf (S ++ [p.take (k + 3)] ++ [p]) (k + 3) = keysOf S (k + 3) ++ [p.take (k + 3)] := by
      rw [keysOf_append_other _ _ _ (by omega), keysOf_append_same _ _ _ hbl]
    rw [hkp] at hcp; rw [hkb] at hcb
    have hc1 := lc.ctx (by omega)
    refine invG_step_blank4 combine a _ a.order caps S s inv p k e hk (by rw [← hk]; exact lc.nN) lc.real hblank
      (by rw [← hk]; exact lc.asc) ?_ ?_ (by simpa using hcp) (by simpa using hcb) ?_ ?_ hbasis hc1 ?_
      (blank4_val ok S p k hk (by rw [← hk]; exact lc.nN) hblank e2 he2)
    · have := lc.fresh p (Or.inr rfl); rw [hk] at this; exact this
    · have := lc.fresh (p.take (k + 3)) (Or.inl (by rw [hmiss]; simp)); rw [hbl] at this; exact this
    · unfold endsInK
      rw [List.any_eq_false]
      intro q hq
      by_cases hl : q.length = k + 4
      · have := si.pc q hq (by omega)
        rw [hl] at this
        have hne : ¬ (q.take (k + 3) = p.take (k + 3)) := fun h => hns (by rw [← h]; simpa using this)
        simp [hbl, hl, hne]
      · simp [hbl, hl]
    · unfold startsWithK
      rw [List.any_eq_false]
      intro q hq
      by_cases hl : q.length = k + 4
      · have := si.cs q hq (by omega)
        have hne : ¬ (q.drop 1 = p.take (k + 3)) := fun h => hns (by rw [← h]; exact this)
        simp only [hbl, hl, beq_self_eq_true, Bool.true_and]
        simpa using hne
      · simp [hbl, hl]
    · exact si.take_mem _ hc1 1 (k + 2) (by rw [List.length_drop]; omega) (by omega)
  · refine step1' combine a nWords um ok a.order caps S s p e inv si lc ?_
    intro h3 hns
    apply Classical.byContradiction; intro hne
    exact hcase ⟨by omega, hns⟩

end KV.ProbingBuild
