import Proofs.KNCorpus
import Proofs.KNProb
import Proofs.KNAdjust
/-!
The refinement theorems of `Proofs/KNAdjust.lean` for every corpus (`fullWF_countFull` and the
`…_corpus` corollaries), and the n-gram-set clause of C05 (`ngram_set`): the n-grams of order `n`
of the model are exactly the length-`n` windows of the sentences delimited by one `<s>` and one
`</s>`, without the bare `<s>` (which, like `<unk>`, is added explicitly at order 1).
-/
namespace KV.KN.Norm

open KV.KN KV.KN.Spec

/-! ## 1. `FullWF` for the table of a corpus -/

theorem strict_of_sorted_nodup (l : List (Gram × Nat)) (h1 : l.Pairwise fun a b => a.1 ≤ b.1)
    (h2 : (l.map (·.1)).Nodup) : l.Pairwise fun a b => a.1 < b.1 := by
  have h2' : l.Pairwise fun a b => a.1 ≠ b.1 := List.pairwise_map.mp h2
  refine (h1.and h2').imp ?_
  intro a b hab
  rcases List.le_iff_lt_or_eq.mp hab.1 with h | h
  · exact h
  · exact absurd h hab.2

theorem countFull_sorted (N : Nat) (corpus : List (List Word)) :
    (countFull N corpus).Pairwise fun a b => a.1 < b.1 :=
  strict_of_sorted_nodup _ (cs_sorted_nodup _ (gramLe_sorted _)).1 (countFull_nodup N corpus)

theorem fullWF_countFull (N : Nat) (corpus : List (List Word)) (h2 : 2 ≤ N)
    (hw : ∀ s ∈ corpus, ∀ w ∈ s, 3 ≤ w) : KV.KN.Adjust.FullWF N (countFull N corpus) where
  len := by
    intro e he
    obtain ⟨s, _, i, hi, hg⟩ := row_occ he
    rw [hg]; exact win_len hi
  sorted := countFull_sorted N corpus
  headOK := by
    intro e he
    obtain ⟨s, hs, i, hi, hg⟩ := row_occ he
    rw [hg]; exact win_head (hw s hs) hi (by omega)
  bosRun := by
    intro e he
    obtain ⟨s, hs, i, hi, hg⟩ := row_occ he
    rw [hg]; exact win_bosRun (hw s hs) hi

/-! ## 2. The refinement theorems for every corpus -/

theorem adjust_stream_eq_corpus (cfg : Cfg) (corpus : List (List Word)) (h2 : 2 ≤ cfg.order)
    (hw : ∀ s ∈ corpus, ∀ w ∈ s, 3 ≤ w) (hk : cfg.keepSpecials = true) (n : Nat) (h1 : 1 ≤ n)
    (hn : n < cfg.order) :
    (adjustStream cfg (countFull cfg.order corpus)).stream n =
      Spec.ents cfg (countFull cfg.order corpus) n :=
  KV.KN.Adjust.adjust_stream_eq cfg _ h2 (fullWF_countFull _ corpus h2 hw) hk n h1 hn

theorem prune_exact_corpus (cfg : Cfg) (corpus : List (List Word)) (h2 : 2 ≤ cfg.order)
    (hw : ∀ s ∈ corpus, ∀ w ∈ s, 3 ≤ w) (hk : cfg.keepSpecials = true) (n : Nat) (h1 : 1 ≤ n)
    (hn : n < cfg.order) :
    ∀ e ∈ (adjustStream cfg (countFull cfg.order corpus)).stream n,
      e.marked = Spec.pruned cfg (countFull cfg.order corpus) e.gram :=
  KV.KN.Adjust.prune_exact cfg _ h2 (fullWF_countFull _ corpus h2 hw) hk n h1 hn

theorem stats_eq_corpus (cfg : Cfg) (corpus : List (List Word)) (h2 : 2 ≤ cfg.order)
    (hw : ∀ s ∈ corpus, ∀ w ∈ s, 3 ≤ w) (hk : cfg.keepSpecials = true)
    (hfix : cfg.flushAdjusted = true) (i : Nat) (hi : i + 1 < cfg.order) :
    statsOf (adjustStream cfg (countFull cfg.order corpus)).adds.reverse i =
      countsOfCounts (Spec.ents cfg (countFull cfg.order corpus) (i + 1)) :=
  KV.KN.Adjust.stats_eq cfg _ h2 (fullWF_countFull _ corpus h2 hw) hk hfix i hi

/-! ## 3. The n-gram set -/

/-- a sentence delimited by one `<s>` and one `</s>` -/
def padded1 (s : List Word) : List Word := bos :: s ++ [eos]

theorem padded1_length (s : List Word) : (padded1 s).length = s.length + 2 := by
  simp [padded1]

theorem paddedN_eq (N : Nat) (h2 : 2 ≤ N) (s : List Word) :
    paddedN N s = List.replicate (N - 2) bos ++ padded1 s := by
  obtain ⟨M, rfl⟩ : ∃ M, N = M + 2 := ⟨N - 2, by omega⟩
  unfold paddedN padded1
  rw [show M + 2 - 1 = M + 1 by omega, show M + 2 - 2 = M by omega, List.replicate_succ']
  simp

theorem drop_paddedN (N : Nat) (h2 : 2 ≤ N) (s : List Word) (j : Nat) :
    (paddedN N s).drop (N - 2 + j) = (padded1 s).drop j := by
  rw [paddedN_eq N h2, List.drop_append, List.drop_of_length_le (by simp)]
  simp

theorem window_mem {n : Nat} (hn : 1 ≤ n) {l : List Word} :
    ∀ i, i + n ≤ l.length → ((l.drop i).take n).reverse ∈ windows n l := by
  induction l with
  | nil => intro i hi; simp at hi; omega
  | cons a t ih =>
    intro i hi
    rw [windows_cons, if_pos (by omega)]
    cases i with
    | zero => exact List.mem_cons_self ..
    | succ i =>
      rw [List.drop_succ_cons]
      exact List.mem_cons_of_mem _ (ih i (by simp only [List.length_cons] at hi; omega))

/-- the suffix of length `n` of the window at `i` is the length-`n` window at `i + N - n` -/
theorem win_take {N n : Nat} {P : List Word} {i : Nat} (hi : i + N ≤ P.length) (hn : n ≤ N) :
    (((P.drop i).take N).reverse).take n = ((P.drop (i + (N - n))).take n).reverse := by
  have hl : ((P.drop i).take N).length = N := by
    rw [List.length_take, List.length_drop]; omega
  rw [List.take_reverse, hl, List.drop_take, List.drop_drop]
  congr 2
  omega

section
variable {N : Nat} (h2 : 2 ≤ N) {s : List Word} (hs : ∀ w ∈ s, 3 ≤ w) {n : Nat} (h1 : 1 ≤ n)
  (hn : n ≤ N)
include h2 hs h1 hn

/-- ⇒ per sentence: a valid suffix of an `N`-padded window is a window of the 1-padded sentence -/
theorem sentence_sound {r g : Gram} (hr : r ∈ windows N (paddedN N s)) (hv : validAt n r = true)
    (hg : r.take n = g) : g ∈ windows n (padded1 s) ∧ g ≠ [bos] := by
  obtain ⟨i, hi, rfl⟩ := mem_windows hr
  have hlenP := paddedN_length N s
  constructor
  · -- position of the suffix
    have hj : N - 2 ≤ i + (N - n) := by
      by_contra hlt
      have hn2 : 2 ≤ n := by omega
      have hget := win_get (P := paddedN N s) (i := i) (j := n - 2) hi (by omega)
      rw [pad_get_lo (by omega)] at hget
      apply validAt_iff.mp hv
      apply List.mem_of_getElem? (i := n - 2)
      rw [List.getElem?_take, if_pos (by omega)]
      exact hget
    rw [← hg, win_take hi hn]
    obtain ⟨j, hj'⟩ : ∃ j, i + (N - n) = N - 2 + j := ⟨i + (N - n) - (N - 2), by omega⟩
    rw [hj', drop_paddedN N h2]
    apply window_mem h1
    rw [padded1_length]; omega
  · have hh := (win_head hs hi (by omega)).1
    intro hb
    apply hh
    rw [← hg] at hb
    have : (((paddedN N s).drop i).take N).reverse.head? = ((((paddedN N s).drop i).take N).reverse.take n).head? := by
      rw [List.head?_take, if_neg (by omega)]
    rw [this, hb]; rfl

/-- ⇐ per sentence: every window of the 1-padded sentence other than `[<s>]` is the valid suffix
of an `N`-padded window -/
theorem sentence_complete {g : Gram} (hg : g ∈ windows n (padded1 s)) (hb : g ≠ [bos]) :
    ∃ r ∈ windows N (paddedN N s), validAt n r = true ∧ r.take n = g := by
  obtain ⟨j, hj, rfl⟩ := mem_windows hg
  rw [padded1_length] at hj
  have hlenP := paddedN_length N s
  -- for n = 1 the window is not the first one
  have hj2 : 2 ≤ j + n := by
    by_contra hlt
    have hn1 : n = 1 := by omega
    have hj0 : j = 0 := by omega
    subst hn1; subst hj0
    apply hb
    simp [padded1]
  have hi : (j + n - 2) + N ≤ (paddedN N s).length := by rw [hlenP]; omega
  refine ⟨(((paddedN N s).drop (j + n - 2)).take N).reverse,
    window_mem (by omega) _ hi, ?_, ?_⟩
  · rw [validAt_iff]
    intro hmem
    obtain ⟨a, ha⟩ := List.mem_iff_getElem?.mp hmem
    rw [List.getElem?_take] at ha
    split at ha
    · rename_i ha'
      rw [win_get hi (by omega)] at ha
      exact (not_special_of_mem hs (pad_get_hi (by omega) ha)).1 rfl
    · cases ha
  · rw [win_take hi hn, show j + n - 2 + (N - n) = N - 2 + j by omega, drop_paddedN N h2]

end

/-- **The n-gram set** (first clause of C05): for `1 ≤ n ≤ N`, the n-grams of order `n` that
the estimation sees are exactly the length-`n` windows of the `<s>`/`</s>`-delimited sentences,
except the bare `<s>`. -/
theorem ngram_set (N : Nat) (corpus : List (List Word)) (h2 : 2 ≤ N)
    (hw : ∀ s ∈ corpus, ∀ w ∈ s, 3 ≤ w) (n : Nat) (h1 : 1 ≤ n) (hn : n ≤ N) (g : Gram) :
    g ∈ Spec.keys n (countFull N corpus) ↔
      (∃ s ∈ corpus, g ∈ windows n (padded1 s)) ∧ g ≠ [bos] := by
  rw [mem_keys]
  constructor
  · rintro ⟨e, he, hv, hg⟩
    have hocc := (mem_countFull_keys N corpus e.1).mp (List.mem_map.mpr ⟨e, he, rfl⟩)
    unfold occurrences at hocc
    obtain ⟨s, hs, hr⟩ := List.mem_flatMap.mp hocc
    obtain ⟨h3, h4⟩ := sentence_sound h2 (hw s hs) h1 hn hr hv hg
    exact ⟨⟨s, hs, h3⟩, h4⟩
  · rintro ⟨⟨s, hs, hg⟩, hb⟩
    obtain ⟨r, hr, hv, hrg⟩ := sentence_complete h2 (hw s hs) h1 hn hg hb
    have hocc : r ∈ occurrences N corpus := by
      unfold occurrences
      exact List.mem_flatMap.mpr ⟨s, hs, hr⟩
    obtain ⟨e, he, rfl⟩ := List.mem_map.mp ((mem_countFull_keys N corpus r).mpr hocc)
    exact ⟨e, he, hv, hrg⟩

/-- at the highest order the records are the rows whose natural position 1 is not `<s>`; for the
table of a corpus these are exactly the keys of order `N` -/
theorem top_keys (cfg : Cfg) (corpus : List (List Word)) (h2 : 2 ≤ cfg.order)
    (hw : ∀ s ∈ corpus, ∀ w ∈ s, 3 ≤ w) (g : Gram) :
    g ∈ ksOf cfg (countFull cfg.order corpus) cfg.order ↔
      g ∈ Spec.keys cfg.order (countFull cfg.order corpus) := by
  have hF := fullWF_countFull cfg.order corpus h2 hw
  unfold ksOf
  have h1 : (cfg.order == 1) = false := by simp; omega
  simp only [h1, beq_self_eq_true, if_true, Bool.false_eq_true, if_false]
  rw [mem_keys, List.mem_filter, List.mem_map]
  constructor
  · rintro ⟨⟨e, he, rfl⟩, hc⟩
    have hlen := hF.len e he
    refine ⟨e, he, ?_, List.take_of_length_le (by omega)⟩
    apply topValid_of_bosRun hlen h2 (hF.bosRun e he)
    rw [hlen] at hc
    simpa using hc
  · rintro ⟨e, he, hv, rfl⟩
    have hlen := hF.len e he
    rw [List.take_of_length_le (by omega)]
    refine ⟨⟨e, he, rfl⟩, ?_⟩
    rw [hlen]
    simp only [Bool.not_eq_eq_eq_not, Bool.not_true, beq_eq_false_iff_ne, ne_eq]
    intro hb
    apply validAt_iff.mp hv
    apply List.mem_of_getElem? (i := cfg.order - 2)
    rw [List.getElem?_take, if_pos (by omega)]
    rw [List.getD_eq_getElem?_getD] at hb
    rw [List.getElem?_eq_getElem (by omega)] at hb ⊢
    simpa using hb

/-- **The n-gram set of the records** (`Spec.ents`, all orders `1 ≤ n ≤ N`): the windows of the
`<s>`/`</s>`-delimited sentences other than the bare `<s>`, plus `<unk>` and `<s>` at order 1. -/
theorem ngram_set_ents (cfg : Cfg) (corpus : List (List Word)) (h2 : 2 ≤ cfg.order)
    (hw : ∀ s ∈ corpus, ∀ w ∈ s, 3 ≤ w) (n : Nat) (h1 : 1 ≤ n) (hn : n ≤ cfg.order) (g : Gram) :
    g ∈ (Spec.ents cfg (countFull cfg.order corpus) n).map (·.gram) ↔
      (n = 1 ∧ (g = [unk] ∨ g = [bos])) ∨
      ((∃ s ∈ corpus, g ∈ windows n (padded1 s)) ∧ g ≠ [bos]) := by
  rw [ents_grams, ← ngram_set cfg.order corpus h2 hw n h1 hn g]
  by_cases hn1 : n = 1
  · subst hn1
    unfold ksOf
    simp only [beq_self_eq_true, if_true, List.mem_cons, true_and]
    constructor
    · rintro (h | h | h)
      · exact Or.inl (Or.inl h)
      · exact Or.inl (Or.inr h)
      · exact Or.inr h
    · rintro ((h | h) | h)
      · exact Or.inl h
      · exact Or.inr (Or.inl h)
      · exact Or.inr (Or.inr h)
  · by_cases hnN : n = cfg.order
    · subst hnN
      rw [top_keys cfg corpus h2 hw]
      simp [hn1]
    · unfold ksOf
      have h1' : (n == 1) = false := by simp [hn1]
      have h2' : (n == cfg.order) = false := by simp [hnN]
      simp [h1', h2', hn1]

/-! ## 4. Probability bounds for the order-1 model -/

theorem spec_len1 {cfg : Cfg} {full : Table} (hw : TableWF1 cfg full) (discs : List (Disc × Bool)) :
    ∀ n, 1 ≤ n → ∀ r ∈ (specCtx cfg full discs).esAt n, r.gram.length = n := by
  intro n hn r hr
  by_cases h1 : n = 1
  · subst h1; exact (tableOK1 hw discs).len1 r hr
  · rw [esAt1_spec hw, if_neg (by omega)] at hr; cases hr

theorem prob_le_one_table1 (cfg : Cfg) (fallback : Option Disc) (full : Spec.Table) (m : Model)
    (hm : Spec.estimateFrom cfg fallback full = .ok m) (hw : TableWF1 cfg full)
    (hfb : ∀ f, fallback = some f → DiscOK f) :
    ∀ l ∈ m.orders, ∀ e ∈ l, 0 ≤ e.p ∧ e.p ≤ 1 ∧ 0 ≤ e.bo := by
  obtain ⟨discs, hd, ho⟩ := estimateFrom_orders cfg fallback full m hm
  rw [ho]
  apply entry_bounds (tableOK1 hw discs) _ (spec_len1 hw discs)
  intro d hmem
  obtain ⟨d', hd', rfl⟩ := List.mem_map.mp (show d ∈ discs.map (·.1) from hmem)
  exact discounts_ok hfb hd d' hd'

theorem prob_le_one_corpus1 (cfg : Cfg) (pv : Bool) (fallback : Option Disc) (corpus : List (List Word))
    (m : Model) (hm : Spec.estimate cfg pv fallback corpus = .ok m) (h1 : cfg.order = 1)
    (hne : corpus ≠ []) (hw : ∀ s ∈ corpus, ∀ w ∈ s, 3 ≤ w)
    (hfb : ∀ f, fallback = some f → DiscOK f) :
    ∀ l ∈ m.orders, ∀ e ∈ l, 0 ≤ e.p ∧ e.p ≤ 1 ∧ 0 ≤ e.bo := by
  unfold Spec.estimate at hm
  rw [if_pos (by omega)] at hm
  exact prob_le_one_table1 cfg fallback _ m hm (tableWF1_countFull cfg corpus h1 hne hw) hfb

/-! ## 5. Non-vacuity -/

example : [4, 3] ∈ Spec.keys 2 (countFull 3 [[3, 4], [3], [4, 3, 5]]) :=
  (ngram_set 3 _ (by decide) (by decide) 2 (by decide) (by decide) _).mpr
    ⟨⟨[3, 4], by decide, by decide⟩, by decide⟩

end KV.KN.Norm
