import Proofs.InterpPass1Sorted
/-!
Pass 1 with the component streams kept apart (`NGramHandler::active_`, the `minimum` loop of
`HandleSuffix`): on the component streams of a union whose merged streams have the grouped shape,
the k-way recursion `handleK` consumes every component stream and writes exactly the records
`p1Rec` — each n-gram once, with the contributions of exactly the models that have it, at their
own model numbers.
-/
namespace KV.Interp
variable (cs : Comps Nat)

theorem strOf_cons (m : LM Nat) (r : Rec Nat) (M : List (Rec Nat)) :
    strOf m (r :: M) =
      match m.findGram r.1 with
      | some e => (r.1, e.prob) :: strOf m M
      | none => strOf m M := by
  unfold strOf
  rw [List.filterMap_cons]
  cases m.findGram r.1 <;> rfl

theorem mem_strOf {m : LM Nat} {M : List (Rec Nat)} {x : List Nat × Rat} (h : x ∈ strOf m M) :
    ∃ r ∈ M, r.1 = x.1 := by
  unfold strOf at h
  rw [List.mem_filterMap] at h
  obtain ⟨r, hr, hx⟩ := h
  cases hf : m.findGram r.1 with
  | none => rw [hf] at hx; simp at hx
  | some e =>
    rw [hf] at hx
    simp only [Option.map_some, Option.some.injEq] at hx
    exact ⟨r, hr, by rw [← hx]⟩

/-- the per-component element of `actsOf` -/
def actOf (M : List (Rec Nat)) (pi : (Rat × LM Nat) × Nat) : Option Act :=
  if strOf pi.1.2 M = [] then none else some ⟨pi.2, strOf pi.1.2 M⟩

/-- models that have `gram`, with their model number and probability -/
def contribFrom (l : Comps Nat) (n : Nat) (gram : List Nat) : List (Nat × Rat) :=
  (l.zipIdx n).filterMap (fun pi => (pi.1.2.findGram gram).map (fun e => (pi.2, e.prob)))

/-- **advance**: popping the head n-gram of the merged stream pops it from exactly the components
that have it -/
theorem advance_actsOf (gram : List Nat) (w : Nat) (M' : List (Rec Nat))
    (hne : ∀ r ∈ M', r.1 ≠ gram) :
    advance (actsOf cs ((gram, w) :: M')) gram = (contribFrom cs 0 gram, actsOf cs M') := by
  unfold advance actsOf contribFrom
  rw [List.filterMap_filterMap, List.filterMap_filterMap]
  refine Prod.ext ?_ ?_
  · apply List.filterMap_congr
    intro pi _
    rw [strOf_cons]
    cases hf : pi.1.2.findGram gram with
    | some e => simp
    | none =>
      simp only
      cases hs : strOf pi.1.2 M' with
      | nil => simp
      | cons x t =>
        have hx : x ∈ strOf pi.1.2 M' := by rw [hs]; exact List.mem_cons_self
        obtain ⟨r, hr, hrx⟩ := mem_strOf hx
        have : x.1 ≠ gram := hrx ▸ hne r hr
        obtain ⟨g', p'⟩ := x
        simp at this
        simp [this]
  · apply List.filterMap_congr
    intro pi _
    rw [strOf_cons]
    cases hf : pi.1.2.findGram gram with
    | some e => simp
    | none =>
      simp only
      cases hs : strOf pi.1.2 M' with
      | nil => simp
      | cons x t =>
        have hx : x ∈ strOf pi.1.2 M' := by rw [hs]; exact List.mem_cons_self
        obtain ⟨r, hr, hrx⟩ := mem_strOf hx
        have : x.1 ≠ gram := hrx ▸ hne r hr
        obtain ⟨g', p'⟩ := x
        simp at this
        simp [this]

theorem mergeG_cons (m : LM Nat) (y : Nat) (t : List Nat) :
    m.mergeG (y :: t) = match m.findGram (y :: t) with
      | some e => (e.prob, t.length)
      | none => m.mergeG t := by
  conv_lhs => rw [LM.mergeG]
  cases m.findGram (y :: t) <;> rfl

theorem getElem_mergeFb (g : List Nat) (j : Nat) (hj : j < cs.length) (h : j < (mergeFb cs g).length) :
    (mergeFb cs g)[j] = (cs[j].1 * (cs[j].2.mergeG g).1, (cs[j].2.mergeG g).2) := by
  simp [mergeFb]

theorem lookup_contribFrom (gram : List Nat) : ∀ (l : Comps Nat) (n i : Nat),
    (contribFrom l n gram).lookup i =
      if n ≤ i then (l[i - n]?).bind (fun p => (p.2.findGram gram).map (fun e => e.prob)) else none
  | [], n, i => by simp [contribFrom]
  | p :: l, n, i => by
    have ih := lookup_contribFrom gram l (n + 1) i
    unfold contribFrom at ih ⊢
    rw [List.zipIdx_cons, List.filterMap_cons]
    by_cases hin : i = n
    · subst hin
      cases hf : p.2.findGram gram with
      | some e => simp [List.lookup, hf]
      | none =>
        simp only [Option.map_none]
        rw [ih]
        simp [hf]
    · cases hf : p.2.findGram gram with
      | some e =>
        simp only [Option.map_some]
        rw [List.lookup_cons]
        have : (i == n) = false := by simpa using hin
        rw [this, ih]
        by_cases hle : n ≤ i
        · have h1 : n + 1 ≤ i := by omega
          have h2 : i - n = (i - (n + 1)) + 1 := by omega
          simp [hle, h1, h2]
        · have h1 : ¬ n + 1 ≤ i := by omega
          simp [hle, h1]
      | none =>
        simp only [Option.map_none]
        rw [ih]
        by_cases hle : n ≤ i
        · have h1 : n + 1 ≤ i := by omega
          have h2 : i - n = (i - (n + 1)) + 1 := by omega
          simp [hle, h1, h2]
        · have h1 : ¬ n + 1 ≤ i := by omega
          simp [hle, h1]

/-- **the contributions land at the right model numbers**: overwriting the fallback of the suffix
at the model numbers of the contributing streams gives the per-component values of the n-gram -/
theorem applyContrib_mergeFb (y : Nat) (g : List Nat) :
    applyContrib (cs.map (·.1)) (mergeFb cs g) (contribFrom cs 0 (y :: g)) g.length = mergeFb cs (y :: g) := by
  unfold applyContrib
  apply List.ext_getElem
  · simp [mergeFb]
  · intro j h1 h2
    have hj : j < cs.length := by simpa [mergeFb] using h2
    rw [List.getElem_map, List.getElem_zipIdx]
    simp only [Nat.zero_add]
    rw [lookup_contribFrom]
    simp only [Nat.zero_le, if_true, Nat.sub_zero, List.getElem?_eq_getElem hj, Option.bind_some]
    rw [getElem_mergeFb cs (y :: g) j hj, mergeG_cons]
    cases hf : (cs[j]).2.findGram (y :: g) with
    | some e => simp [List.getD_eq_getElem?_getD, hj]
    | none => simp [getElem_mergeFb cs g j hj]

theorem foldl_min_eq (y : Nat) : ∀ (l : List Nat) (c : Nat), y ∈ c :: l → (∀ z ∈ c :: l, y ≤ z) →
    l.foldl min c = y
  | [], c, hm, _ => by
    have : y = c := by simpa using hm
    simp [this]
  | x :: l, c, hm, hall => by
    rw [List.foldl_cons]
    have hc : y ≤ c := hall c (by simp)
    have hx : y ≤ x := hall x (by simp)
    apply foldl_min_eq y l (min c x)
    · rcases List.mem_cons.1 hm with h | h
      · have : min c x = y := by rw [h] at hx ⊢; exact Nat.min_eq_left hx
        rw [this]; exact List.mem_cons_self
      · rcases List.mem_cons.1 h with h | h
        · have : min c x = y := by rw [h] at hc ⊢; exact Nat.min_eq_right hc
          rw [this]; exact List.mem_cons_self
        · exact List.mem_cons_of_mem _ h
    · intro z hz
      rcases List.mem_cons.1 hz with h | h
      · rw [h]; exact Nat.le_min.2 ⟨hc, hx⟩
      · exact hall z (by simp [h])

/-- a candidate first word comes from a record of the merged stream that ends in `g` -/
theorem mem_candFirst {M : List (Rec Nat)} {g : List Nat} {z : Nat}
    (h : z ∈ candFirst (actsOf cs M) g) : ∃ r ∈ M, r.1 = z :: g := by
  unfold candFirst actsOf at h
  rw [List.filterMap_filterMap, List.mem_filterMap] at h
  obtain ⟨pi, _, hz⟩ := h
  by_cases hs : strOf pi.1.2 M = []
  · simp [hs] at hz
  · simp only [hs, if_false, Option.bind_some] at hz
    cases hst : strOf pi.1.2 M with
    | nil => exact absurd hst hs
    | cons x t =>
      rw [hst] at hz
      have hx : x ∈ strOf pi.1.2 M := by rw [hst]; exact List.mem_cons_self
      obtain ⟨r, hr, hrx⟩ := mem_strOf hx
      obtain ⟨gx, px⟩ := x
      cases gx with
      | nil => simp at hz
      | cons y' t' =>
        simp only at hz
        split at hz
        · rename_i ht
          have : y' = z := by simpa using hz
          exact ⟨r, hr, by rw [hrx, this, ht]⟩
        · simp at hz

/-- **the `minimum` loop finds the head of the merged stream** -/
theorem minFirst_actsOf (y w : Nat) (g : List Nat) (M' : List (Rec Nat))
    (hhas : ∃ p ∈ cs, (p.2.findGram (y :: g)).isSome = true)
    (hge : ∀ r ∈ M', ∀ z, r.1 = z :: g → y ≤ z) :
    minFirst (actsOf cs ((y :: g, w) :: M')) g = some y := by
  have hmem : y ∈ candFirst (actsOf cs ((y :: g, w) :: M')) g := by
    obtain ⟨p, hp, hsome⟩ := hhas
    obtain ⟨i, hi, hpi⟩ := List.getElem_of_mem hp
    unfold candFirst actsOf
    rw [List.filterMap_filterMap, List.mem_filterMap]
    refine ⟨(p, i), ?_, ?_⟩
    · rw [List.mem_zipIdx_iff_getElem?]
      simp [hi, hpi]
    · simp only
      rw [strOf_cons]
      cases hf : p.2.findGram (y :: g) with
      | none => rw [hf] at hsome; simp at hsome
      | some e => simp
  have hall : ∀ z ∈ candFirst (actsOf cs ((y :: g, w) :: M')) g, y ≤ z := by
    intro z hz
    obtain ⟨r, hr, hrz⟩ := mem_candFirst cs hz
    rcases List.mem_cons.1 hr with h | h
    · rw [h] at hrz
      simp at hrz
      omega
    · exact hge r h z hrz
  unfold minFirst
  cases hc : candFirst (actsOf cs ((y :: g, w) :: M')) g with
  | nil => rw [hc] at hmem; simp at hmem
  | cons c l =>
    rw [hc] at hmem hall
    simp only
    rw [foldl_min_eq y l c hmem hall]

/-- no record ending in `g` is left: the loop of `HandleSuffix` stops -/
theorem minFirst_none (g : List Nat) (M : List (Rec Nat)) (h : ∀ r ∈ M, ¬ g <:+ r.1) :
    minFirst (actsOf cs M) g = none := by
  unfold minFirst
  cases hc : candFirst (actsOf cs M) g with
  | nil => rfl
  | cons z l =>
    have hz : z ∈ candFirst (actsOf cs M) g := by rw [hc]; exact List.mem_cons_self
    obtain ⟨r, hr, hrz⟩ := mem_candFirst cs hz
    exact absurd (hrz ▸ List.suffix_cons z g) (h r hr)

/-! ### the k-way recursion against the grouped shape -/

/-- some component has the n-gram -/
def HasGram (g : List Nat) : Prop := ∃ p ∈ cs, (p.2.findGram g).isSome = true

/-- left extensions are strictly increasing and every node of the tree is an n-gram of some component -/
def GoodK (Y : List Nat → List Nat) : Nat → List Nat → List Nat → Prop
  | 0, ys, g => ys.Pairwise (· < ·) ∧ ∀ y ∈ ys, HasGram cs (y :: g)
  | d + 1, ys, g => ys.Pairwise (· < ·) ∧
      ∀ y ∈ ys, HasGram cs (y :: g) ∧ GoodK Y d (Y (y :: g)) (y :: g)

theorem handleK_nil (lam : List Rat) (n : Nat) (g : List Nat) (fb : Fallback) :
    handleK lam n [] g fb = ([], []) := by
  cases n <;> simp [handleK]

/-- one iteration of the loop of `HandleSuffix` on component streams -/
theorem handleK_step (n y : Nat) (g : List Nat) (M' : List (Rec Nat)) (deeper : List (List Act))
    (hhas : HasGram cs (y :: g))
    (hge : ∀ r ∈ M', ∀ z, r.1 = z :: g → y ≤ z) (hne : ∀ r ∈ M', r.1 ≠ y :: g) :
    handleK (cs.map (·.1)) (n + 1) (actsOf cs ((y :: g, 0) :: M') :: deeper) g (mergeFb cs g) =
      ((handleK (cs.map (·.1)) n
          (actsOf cs M' :: (handleK (cs.map (·.1)) n deeper (y :: g) (mergeFb cs (y :: g))).1) g (mergeFb cs g)).1,
        p1Rec cs (y :: g) :: (handleK (cs.map (·.1)) n deeper (y :: g) (mergeFb cs (y :: g))).2 ++
          (handleK (cs.map (·.1)) n
            (actsOf cs M' :: (handleK (cs.map (·.1)) n deeper (y :: g) (mergeFb cs (y :: g))).1) g (mergeFb cs g)).2) := by
  rw [handleK, minFirst_actsOf cs y 0 g M' hhas hge]
  simp only [advance_actsOf cs (y :: g) 0 M' hne, applyContrib_mergeFb]
  rfl

theorem handleK_stop (n : Nat) (g : List Nat) (M : List (Rec Nat)) (deeper : List (List Act))
    (h : ∀ r ∈ M, ¬ g <:+ r.1) :
    handleK (cs.map (·.1)) n (actsOf cs M :: deeper) g (mergeFb cs g) = (actsOf cs M :: deeper, []) := by
  cases n with
  | zero => rfl
  | succ n => rw [handleK, minFirst_none cs g M h]

/-- **refinement of the k-way recursion**: on the component streams of merged streams that have the
grouped shape, `HandleSuffix` consumes the subtrees of the contexts `y :: g`, `y ∈ ys`, from every
component and writes `p1Rec` for every n-gram, in `SuffixOrder`. -/
theorem handleK_spec (Y : List Nat → List Nat) : ∀ (d : Nat) (ys g : List Nat)
    (rests : List (List (Rec Nat))) (fuel : Nat),
    rests.length = d + 1 → needE Y d ys g ≤ fuel → GoodK cs Y d ys g →
    AllRecs (fun r : Rec Nat => ¬ g <:+ r.1) rests →
    handleK (cs.map (·.1)) fuel
        ((List.zipWith (· ++ ·) (levelsE X1 Y d ys g) rests).map (actsOf cs)) g (mergeFb cs g) =
      (rests.map (actsOf cs), ys.flatMap (fun y => specP1 cs Y d (y :: g))) := by
  intro d
  induction d with
  | zero =>
    intro ys
    induction ys with
    | nil =>
      intro g rests fuel hlen _ _ hrests
      rw [levelsE_nil, zipWith_replicate_nil _ _ (by omega)]
      match rests, hlen with
      | [r0], _ =>
        simp only [List.map_cons, List.map_nil, List.flatMap_nil]
        exact handleK_stop cs fuel g r0 [] (hrests r0 List.mem_cons_self)
    | cons y ys' ih =>
      intro g rests fuel hlen hfuel hgood hrests
      obtain ⟨hpw, hall⟩ := hgood
      have hpw' := List.pairwise_cons.1 hpw
      rw [levelsE_cons, zipWith_append_assoc]
      set R' := List.zipWith (· ++ ·) (levelsE X1 Y 0 ys' g) rests with hR'
      have hR'len : R'.length = 1 := by rw [hR', List.length_zipWith, length_levelsE, hlen]; simp
      have hAll : AllRecs (fun r : Rec Nat => (∃ y' ∈ ys', (y' :: g) <:+ r.1) ∨ ¬ g <:+ r.1) R' :=
        allRecs_zipWith _ _ _ (allRecs_mono (fun _ h => Or.inl h) (allRecs_levelsE X1 Y 0 g ys'))
          (allRecs_mono (fun _ h => Or.inr h) hrests)
      obtain ⟨n, rfl⟩ : ∃ n, fuel = n + 1 := ⟨fuel - 1, by simp [needE] at hfuel; omega⟩
      have hn2 : needE Y 0 ys' g ≤ n := by
        simp only [needE, List.map_cons, List.sum_cons] at hfuel ⊢; omega
      match R', hR'len, hAll, hR' with
      | [r0'], _, hAll, hR' =>
        have hr0 := hAll r0' List.mem_cons_self
        have hge : ∀ r ∈ r0', ∀ z, r.1 = z :: g → y ≤ z := by
          intro r hr z hz
          rcases hr0 r hr with ⟨y', hy', hsuf⟩ | hno
          · rw [hz] at hsuf
            have := suffix_cons_inj hsuf (List.suffix_refl _)
            exact Nat.le_of_lt (this ▸ hpw'.1 y' hy')
          · exact absurd (hz ▸ List.suffix_cons z g) hno
        have hne : ∀ r ∈ r0', r.1 ≠ y :: g := by
          intro r hr heq
          rcases hr0 r hr with ⟨y', hy', hsuf⟩ | hno
          · rw [heq] at hsuf
            have := suffix_cons_inj hsuf (List.suffix_refl _)
            have := hpw'.1 y' hy'
            omega
          · exact hno (heq ▸ List.suffix_cons y g)
        have hlev : levels X1 Y 0 (y :: g) = [[(y :: g, 0)]] := rfl
        rw [hlev]
        simp only [List.zipWith_cons_cons, List.zipWith_nil_left, List.map_cons, List.map_nil,
          List.singleton_append]
        rw [handleK_step cs n y g r0' [] (hall y List.mem_cons_self) hge hne, handleK_nil]
        have ih' := ih g rests n hlen hn2 ⟨hpw'.2, fun y' hy' => hall y' (List.mem_cons_of_mem _ hy')⟩ hrests
        rw [← hR'] at ih'
        simp only [List.map_cons, List.map_nil] at ih'
        rw [ih']
        simp [List.flatMap_cons, specP1]
  | succ d ihd =>
    intro ys
    induction ys with
    | nil =>
      intro g rests fuel hlen _ _ hrests
      rw [levelsE_nil, zipWith_replicate_nil _ _ (by omega)]
      match rests, hlen with
      | r0 :: rs, _ =>
        simp only [List.map_cons, List.flatMap_nil]
        exact handleK_stop cs fuel g r0 _ (hrests r0 List.mem_cons_self)
    | cons y ys' ih =>
      intro g rests fuel hlen hfuel hgood hrests
      obtain ⟨hpw, hall⟩ := hgood
      have hpw' := List.pairwise_cons.1 hpw
      have hy := hall y List.mem_cons_self
      rw [levelsE_cons, zipWith_append_assoc]
      set R' := List.zipWith (· ++ ·) (levelsE X1 Y (d + 1) ys' g) rests with hR'
      have hR'len : R'.length = d + 1 + 1 := by
        rw [hR', List.length_zipWith, length_levelsE, hlen]; simp
      have hAll : AllRecs (fun r : Rec Nat => (∃ y' ∈ ys', (y' :: g) <:+ r.1) ∨ ¬ g <:+ r.1) R' :=
        allRecs_zipWith _ _ _ (allRecs_mono (fun _ h => Or.inl h) (allRecs_levelsE X1 Y (d + 1) g ys'))
          (allRecs_mono (fun _ h => Or.inr h) hrests)
      obtain ⟨n, rfl⟩ : ∃ n, fuel = n + 1 := ⟨fuel - 1, by simp [needE] at hfuel; omega⟩
      have hn1 : needE Y d (Y (y :: g)) (y :: g) ≤ n := by
        simp only [needE, List.map_cons, List.sum_cons, needS] at hfuel ⊢; omega
      have hn2 : needE Y (d + 1) ys' g ≤ n := by
        simp only [needE, List.map_cons, List.sum_cons] at hfuel ⊢; omega
      match R', hR'len, hAll, hR' with
      | r0' :: Rs', hR'len, hAll, hR' =>
        have hRs'len : Rs'.length = d + 1 := by simpa using hR'len
        have hr0 := hAll r0' List.mem_cons_self
        have hge : ∀ r ∈ r0', ∀ z, r.1 = z :: g → y ≤ z := by
          intro r hr z hz
          rcases hr0 r hr with ⟨y', hy', hsuf⟩ | hno
          · rw [hz] at hsuf
            have := suffix_cons_inj hsuf (List.suffix_refl _)
            exact Nat.le_of_lt (this ▸ hpw'.1 y' hy')
          · exact absurd (hz ▸ List.suffix_cons z g) hno
        have hne : ∀ r ∈ r0', r.1 ≠ y :: g := by
          intro r hr heq
          rcases hr0 r hr with ⟨y', hy', hsuf⟩ | hno
          · rw [heq] at hsuf
            have := suffix_cons_inj hsuf (List.suffix_refl _)
            have := hpw'.1 y' hy'
            omega
          · exact hno (heq ▸ List.suffix_cons y g)
        have hRs' : AllRecs (fun r : Rec Nat => ¬ (y :: g) <:+ r.1) Rs' := by
          intro l hl r hr hcon
          rcases hAll l (List.mem_cons_of_mem _ hl) r hr with ⟨y', hy', hsuf⟩ | hno
          · have := suffix_cons_inj hcon hsuf
            have := hpw'.1 y' hy'
            omega
          · exact hno (List.IsSuffix.trans (List.suffix_cons y g) hcon)
        have hlev : levels X1 Y (d + 1) (y :: g) =
            [(y :: g, 0)] :: levelsE X1 Y d (Y (y :: g)) (y :: g) := rfl
        rw [hlev]
        simp only [List.zipWith_cons_cons, List.map_cons, List.singleton_append]
        rw [handleK_step cs n y g r0' _ hy.1 hge hne,
          ihd (Y (y :: g)) (y :: g) Rs' n hRs'len hn1 hy.2 hRs']
        have ih' := ih g rests n hlen hn2
          ⟨hpw'.2, fun y' hy' => hall y' (List.mem_cons_of_mem _ hy')⟩ hrests
        rw [← hR'] at ih'
        simp only [List.map_cons] at ih'
        simp only []
        rw [ih']
        simp [List.flatMap_cons, specP1]

/-! ### the concrete sorted streams -/

theorem findGram_isSome_iff (m : LM Nat) (g : List Nat) :
    (m.findGram g).isSome = true ↔ ∃ e ∈ m.entries, e.gram = g := by
  unfold LM.findGram
  rw [List.find?_isSome]
  constructor
  · rintro ⟨e, he, h⟩; exact ⟨e, he, of_decide_eq_true h⟩
  · rintro ⟨e, he, h⟩; exact ⟨e, he, by simp [h]⟩

theorem hasGram_of_mem_unionN {g : List Nat} (h : g ∈ unionN cs) : HasGram cs g := by
  unfold unionN at h
  obtain ⟨u, hu, rfl⟩ := List.mem_map.1 h
  obtain ⟨p, hp, e, he, h1, h2⟩ := mem_unionGrams.1 (show (u.1, u.2) ∈ unionGrams cs from hu)
  exact ⟨p, hp, (findGram_isSome_iff p.2 _).2 ⟨e, he, by simp [Entry.gram, h1, h2]⟩⟩

theorem goodK_sorted : ∀ (d : Nat) (g : List Nat), GoodK cs (sortedYg cs) d (sortedYg cs g) g
  | 0, g => ⟨pairwise_sortedYg cs g, fun y hy => hasGram_of_mem_unionN cs ((mem_sortedYg cs).1 hy)⟩
  | d + 1, g => ⟨pairwise_sortedYg cs g, fun y hy =>
      ⟨hasGram_of_mem_unionN cs ((mem_sortedYg cs).1 hy), goodK_sorted d (y :: g)⟩⟩

theorem actsOf_nil : actsOf cs [] = [] := by
  unfold actsOf strOf
  simp

/-- **Pass 1, component streams kept apart, on the sorted streams.** -/
theorem pass1_kway_sorted (h : UnionSuffixClosed cs) (D fuel : Nat)
    (hfuel : needE (sortedYg cs) D (sortedYg cs []) [] ≤ fuel) :
    handleK (cs.map (·.1)) fuel
        ((List.range (D + 1)).map (fun j => actsOf cs (p1Stream cs (j + 1)))) [] (mergeFb cs []) =
      (List.replicate (D + 1) [],
        (sortedYg cs []).flatMap (fun y => specP1 cs (sortedYg cs) D [y])) := by
  have hs := handleK_spec cs (sortedYg cs) D (sortedYg cs []) [] (List.replicate (D + 1) []) fuel
    (by simp) hfuel (goodK_sorted cs D []) (allRecs_replicate_nil _ _)
  rw [zipWith_replicate_nil_right _ _ (by rw [length_levelsE]), levelsE_eq_p1Streams cs h D,
    List.map_map] at hs
  rw [List.map_replicate, actsOf_nil] at hs
  exact hs

theorem filterMap_filter_isSome {α β : Type} (f : α → Option β) : ∀ l : List α,
    (l.filter (fun a => (f a).isSome)).filterMap f = l.filterMap f
  | [] => rfl
  | a :: l => by
    cases h : f a with
    | none => simp [List.filter_cons, List.filterMap_cons, h, filterMap_filter_isSome f l]
    | some b => simp [List.filter_cons, List.filterMap_cons, h, filterMap_filter_isSome f l]

/-- what the merged-stream view assigns to a component is that component's own sorted stream -/
theorem strOf_p1Stream (p : Rat × LM Nat) (hp : p ∈ cs) (k : Nat) :
    strOf p.2 (p1Stream cs k) = compStream p.2 k := by
  unfold strOf p1Stream compStream
  rw [List.filterMap_map]
  set f : List Nat → Option (List Nat × Rat) := fun g => (p.2.findGram g).map (fun e => (g, e.prob)) with hf
  have hfun : ((fun r : Rec Nat => (p.2.findGram r.1).map (fun e => (r.1, e.prob))) ∘ fun g => (g, 0)) = f := rfl
  rw [hfun, ← filterMap_filter_isSome f (probStream3 cs k)]
  congr 1
  apply sufSorted_eq_of_mem
  · exact (sufSorted_probStream3 cs k).sublist List.filter_sublist
  · exact sufSorted_mergeSort _ (nodup_dedup _)
  · intro g
    rw [List.mem_filter, mem_probStream3, List.mem_mergeSort, mem_dedup, List.mem_filter, List.mem_map]
    have hsome : (f g).isSome = true ↔ ∃ e ∈ p.2.entries, e.gram = g := by
      rw [hf]; simp only [Option.isSome_map]; exact findGram_isSome_iff p.2 g
    rw [hsome]
    constructor
    · rintro ⟨⟨_, hlen⟩, e, he, hg⟩
      exact ⟨⟨e, he, hg⟩, by simpa using hlen⟩
    · rintro ⟨⟨e, he, hg⟩, hlen⟩
      refine ⟨⟨⟨(e.ctx, e.word), mem_unionGrams.2 ⟨p, hp, e, he, rfl, rfl⟩, hg⟩, by simpa using hlen⟩, e, he, hg⟩

/-- the active lists built from the component files are the component views of the merged streams -/
theorem initActs_eq (k : Nat) : initActs cs k = actsOf cs (p1Stream cs k) := by
  unfold initActs actsOf
  apply List.filterMap_congr
  intro pi hpi
  have hp : pi.1 ∈ cs := List.mem_of_getElem? (List.mem_zipIdx_iff_getElem?.1 hpi)
  rw [strOf_p1Stream cs pi.1 hp k]

end KV.Interp
