import Proofs.LeftNT4
/-! **NonTerminal preserves the fragment invariant** (assembly of the done-mode and open-mode analyses). -/
namespace KV.Left
open KV.Arpa KV.Table KV.State KV.Score

variable {a : Arpa} {T : Table}

theorem pre_concat (ws1 ws2 : List Word) (i : Nat) (hi : i < ws2.length) :
    pre (ws1 ++ ws2) (ws1.length + i) = pre ws2 i ++ ws1.reverse := by
  unfold pre
  have : ws1.length + i + 1 = ws1.length + (i + 1) := by omega
  rw [this, take_append_len, List.reverse_append]

theorem restSum_concat (R : Ptr → Rat) (ws1 ws2 : List Word) :
    ∀ Lp, Lp ≤ ws2.length → restSum R (ws1 ++ ws2) (ws1.length + Lp) = restSum R ws1 ws1.length + hSum R ws2 ws1.reverse Lp := by
  intro Lp
  induction Lp with
  | zero => intro _; simp only [Nat.add_zero, hSum]; rw [restSum_append R ws1 ws2 _ (Nat.le_refl _)]; grind
  | succ Lp ih =>
    intro h
    have : ws1.length + (Lp + 1) = (ws1.length + Lp) + 1 := by omega
    rw [this]; simp only [restSum, hSum]
    rw [ih (by omega), pre_concat ws1 ws2 Lp (by omega)]
    grind

theorem ptrs_concat (ws1 ws2 : List Word) (Lp : Nat) (hLp : Lp ≤ ws2.length) :
    (List.range ws1.length).map (pre ws1) ++ (List.range Lp).map (fun i' => pre ws2 i' ++ ws1.reverse) =
      (List.range (ws1.length + Lp)).map (pre (ws1 ++ ws2)) := by
  rw [List.range_add, List.map_append, List.map_map]
  congr 1
  · apply List.map_congr_left
    intro i hi
    have : i < ws1.length := by simpa using hi
    rw [pre_append ws1 ws2 this]
  · apply List.map_congr_left
    intro i hi
    have : i < Lp := by simpa using hi
    show pre ws2 i ++ ws1.reverse = pre (ws1 ++ ws2) (ws1.length + i)
    rw [pre_concat ws1 ws2 i (by omega)]

/-- the probability bookkeeping of the open-mode analysis ends in the `Frag` form -/
theorem X_eq (R : Ptr → Rat) (ws1 ws2 : List Word) (L2 Lp : Nat) (hLp : Lp ≤ L2) (hL2 : L2 ≤ ws2.length) (p1 p2 : Rat)
    (hp1 : p1 = restSum R ws1 ws1.length)
    (hp2 : p2 = restSum R ws2 L2 + specSeq a (ws2.take L2).reverse (ws2.drop L2)) :
    p1 + p2 + hSum R ws2 ws1.reverse Lp - restSum R ws2 Lp + remaining a R ws2 L2 ws1.reverse Lp =
      restSum R (ws1 ++ ws2) (ws1.length + Lp) +
        specSeq a ((ws1 ++ ws2).take (ws1.length + Lp)).reverse ((ws1 ++ ws2).drop (ws1.length + Lp)) := by
  rw [restSum_concat R ws1 ws2 Lp (by omega), take_append_len, List.reverse_append]
  have : (ws1 ++ ws2).drop (ws1.length + Lp) = ws2.drop Lp := by
    rw [List.drop_append]; simp
  rw [this, hp1, hp2]
  unfold remaining gm1
  grind

/-- **NonTerminal preserves the fragment invariant.** -/
theorem nonTerminal_frag_aux (H : Hyp a T) (R : Ptr → Rat) {ws1 : List Word} {L1 : Nat} {rs : RS}
    (F : Frag a T R ws1 L1 rs) {ws2 : List Word} {L2 : Nat} {c : Chart} {p2 : Rat} (G : FragC a T R ws2 L2 c p2) :
    ∃ L', Frag a T R (ws1 ++ ws2) L' (nonTerminal T R rs c p2) := by
  have hord : T.order = a.order := H.tf.order_eq
  have hN2 := H.wf.order_ge
  have hL2 := G.L_le
  have hrev : (ws1 ++ ws2).reverse = ws2.reverse ++ ws1.reverse := List.reverse_append
  have hptrs_old : ∀ L, L ≤ ws1.length → (List.range L).map (pre ws1) = (List.range L).map (pre (ws1 ++ ws2)) := by
    intro L hL
    apply List.map_congr_left
    intro i hi
    have : i < L := by simpa using hi
    rw [pre_append ws1 ws2 (by omega)]
  by_cases hd : rs.leftDone = true
  · -- the left state is complete
    obtain ⟨h1, h2, h3, h4, h5⟩ := nonTerminal_done H R G hd F.right_for F.right_norm
    refine ⟨L1, ⟨by rw [hrev]; exact h3, h4, by simp; have := F.L_le; omega, F.L_lt, ?_, ?_, ?_, by simp [h1],
      fun _ => (F.closed hd).append H ws2⟩⟩
    · rw [h2, F.ptrs]; exact hptrs_old L1 F.L_le
    · intro i hi; rw [pre_append ws1 ws2 (by have := F.L_le; omega)]; exact F.ptr_xl i hi
    · rw [h5, F.prob_eq, restSum_append R ws1 ws2 L1 F.L_le, List.take_append_of_le_length F.L_le,
        List.drop_append_of_le_length F.L_le, specSeq_append]
      have : (ws1.drop L1).reverse ++ (ws1.take L1).reverse = ws1.reverse := by
        rw [← List.reverse_append, List.take_append_drop]
      rw [this]; grind
  · have hopen : rs.leftDone = false := by simpa using hd
    obtain ⟨hL1, hrl⟩ := F.open_ hopen
    have hlen : c.left.length = L2 := by simp [LeftSt.length, G.ptrs]
    have hp1 : rs.prob = restSum R ws1 ws1.length := by
      rw [F.prob_eq, hL1, List.drop_eq_nil_of_le (Nat.le_refl _)]; simp only [specSeq]; grind
    have hhl : ws1.reverse.length = ws1.length := by simp
    by_cases hz : (L2 == 0) = true
    · have hL0 : L2 = 0 := by simpa using hz
      by_cases hf : c.left.full = true
      · -- an incoming fragment whose first word is independent of left context
        have hnt : nonTerminal T R rs c p2 =
            { rs with prob := rs.prob + p2 + (rs.out.right.backoff.take rs.out.right.length).sum, leftDone := true,
                      out := { rs.out with right := c.right } } := by
          unfold nonTerminal; simp [hlen, hz, hf]
        rw [hnt]
        rcases G.closed hf with ⟨h1, h2⟩ | ⟨_, h2, _⟩ | ⟨_, h2⟩
        · have hdead : ∀ k, 1 ≤ k → k ≤ ws1.reverse.length → ¬ live a (ws2.reverse ++ ws1.reverse.take k) :=
            fun k hk1 hk2 => closed_dead H (G.closed hf) hL2 _ (take_ne_nil hk1 hk2)
          have hcl : Closed T (ws1 ++ ws2) L1 := by
            left
            refine ⟨by simp; omega, ?_⟩
            intro x
            have hp : pre (ws1 ++ ws2) L1 = pre ws2 0 ++ ws1.reverse := by
              rw [hL1]; exact pre_concat ws1 ws2 0 (by omega)
            rw [hp, hL0] at *
            cases hws : ws1.reverse with
            | nil => simpa using h2 x
            | cons y r =>
              have : pre ws2 0 ++ y :: r ++ [x] = (pre ws2 0 ++ [y]) ++ (r ++ [x]) := by simp
              rw [this]
              exact lookup_none_extend H.ok _ _ (by simp) (h2 y)
          refine ⟨L1, ⟨by rw [hrev]; exact stateFor_extend G.right_for _ hdead, G.right_norm, by simp; omega, F.L_lt, ?_, ?_, ?_,
            by simp, fun _ => hcl⟩⟩
          · show rs.out.left.pointers = _
            rw [F.ptrs]; exact hptrs_old L1 F.L_le
          · intro i hi; rw [pre_append ws1 ws2 (by omega)]; exact F.ptr_xl i hi
          · show rs.prob + p2 + (rs.out.right.backoff.take rs.out.right.length).sum = _
            have ht := tail_a H ws2 ws1.reverse L2 rs.out.right.length h1 (by have := F.right_for.len_le_N; omega)
              F.right_for.len_le_h h2 (by intro k hk1 hk2; rw [hL0]; simpa [gm1] using F.right_for.dead k hk1 hk2)
            rw [hL0] at ht
            simp only [gm1, List.take_zero, List.reverse_nil, List.nil_append, List.drop_zero] at ht
            rw [F.right_for.backoff, sum_range_map, hp1, G.prob_eq, hL0, hL1, restSum_append R ws1 ws2 _ (Nat.le_refl _),
              List.take_append_of_le_length (Nat.le_refl _), List.take_of_length_le (Nat.le_refl _),
              List.drop_append_of_le_length (Nat.le_refl _), List.drop_eq_nil_of_le (Nat.le_refl _), List.nil_append, ht]
            simp only [restSum, List.take_zero, List.reverse_nil, List.drop_zero]
            grind
        · omega
        · omega
      · have hf' : c.left.full = false := by simpa using hf
        have hnt : nonTerminal T R rs c p2 = { rs with prob := rs.prob + p2 } := by
          unfold nonTerminal; simp [hlen, hz, hf']
        rw [hnt]
        obtain ⟨h1, _⟩ := G.open_ hf'
        have hnil : ws2 = [] := List.eq_nil_of_length_eq_zero (by omega)
        subst hnil
        have hp20 : p2 = 0 := by rw [G.prob_eq, hL0]; simp [restSum, specSeq]; grind
        refine ⟨L1, ⟨by simpa using F.right_for, F.right_norm, by simpa using F.L_le, F.L_lt, by simpa using F.ptrs,
          by simpa using F.ptr_xl, ?_, by simpa using F.open_, by simpa using F.closed⟩⟩
        show rs.prob + p2 = _
        rw [hp20]; simp only [List.append_nil]; rw [F.prob_eq]; grind
    · have hL0 : 0 < L2 := by
        have : L2 ≠ 0 := by simpa using hz
        omega
      have hz' : (c.left.length == 0) = false := by rw [hlen]; simpa using hz
      by_cases hr0 : (rs.out.right.length == 0) = true
      · -- nothing scored so far: the result is the incoming fragment
        have hn0 : rs.out.right.length = 0 := by simpa using hr0
        have hnil : ws1 = [] := List.eq_nil_of_length_eq_zero (by omega)
        subst hnil
        have hl0 : rs.out.left.length = 0 := by simp [LeftSt.length, F.ptrs, hL1]
        have hnt : nonTerminal T R rs c p2 =
            { out := { left := c.left, right := c.right }, leftDone := c.left.full, prob := rs.prob + p2 } := by
          unfold nonTerminal; simp [hz', hr0, hopen, hl0]
        rw [hnt]
        have hp10 : rs.prob = 0 := by rw [hp1]; simp [restSum]
        refine ⟨L2, ⟨by simpa using G.right_for, G.right_norm, by simpa using G.L_le, G.L_lt, by simpa using G.ptrs,
          by simpa using G.ptr_xl, ?_, by simpa using G.open_, by simpa using G.closed⟩⟩
        show rs.prob + p2 = _
        rw [hp10, G.prob_eq]; simp only [List.nil_append]; grind
      · have hr0' : (rs.out.right.length == 0) = false := by simpa using hr0
        rw [nonTerminal_loop R rs c p2 hz' hr0', hlen]
        -- the pointer loop in open mode
        let st0 : StepOut := { rs := { rs with prob := rs.prob + p2 }, nextUse := rs.out.right.length,
                               back := rs.out.right.backoff.take rs.out.right.length, exit := false }
        have sf := F.right_for
        have nm := F.right_norm
        have hall : rs.out.right.length = ws1.reverse.length := by rw [hrl]; simp
        have I0 : InvB a T R ws2 ws1.reverse rs.out.right rs.out.left.pointers (rs.prob + p2) 0 st0 := by
          refine ⟨⟨rfl, Nat.le_refl _, ?_, ?_, ?_, rfl⟩, hopen, rfl, by show rs.out.left.pointers = _; simp, by simp only [hSum, restSum]; show rs.prob + p2 = _; grind,
            fun i' hi' => by omega⟩
          · have := sf.len_le_N; show 0 + 1 + rs.out.right.length ≤ a.order; omega
          · show (rs.out.right.backoff.take rs.out.right.length).take rs.out.right.length = _
            rw [List.take_take, Nat.min_self, sf.backoff]
            simp only [gm1, List.take_zero, List.reverse_nil, List.nil_append]
            rfl
          · intro k hk1 hk2
            simpa [gm1] using sf.dead k hk1 hk2
        have hloop := loopB H R G sf nm hall rs.out.left.pointers (rs.prob + p2) L2 0 st0 (by omega) I0
        simp only [Nat.zero_add] at hloop
        generalize hst : extendAll T R c L2 1 st0 = st' at hloop
        have hP0 : rs.out.left.pointers = (List.range ws1.length).map (pre ws1) := by rw [F.ptrs, hL1]
        -- common: building the `Frag` from the pieces
        have build : ∀ (Lp : Nat) (rs' : RS), Lp ≤ L2 → Lp + ws1.length ≤ a.order - 1 →
            StateFor a (ws2.reverse ++ ws1.reverse) rs'.out.right → NormS rs'.out.right →
            rs'.out.left.pointers = rs.out.left.pointers ++ (List.range Lp).map (fun i' => pre ws2 i' ++ ws1.reverse) →
            (∀ i', i' < Lp → T.xl (pre ws2 i' ++ ws1.reverse) = true) →
            rs'.prob = rs.prob + p2 + hSum R ws2 ws1.reverse Lp - restSum R ws2 Lp + remaining a R ws2 L2 ws1.reverse Lp →
            (rs'.leftDone = false → Lp = ws2.length ∧ rs'.out.right.length = ws2.length + ws1.length) →
            (rs'.leftDone = true → Closed T (ws1 ++ ws2) (ws1.length + Lp)) →
            Frag a T R (ws1 ++ ws2) (ws1.length + Lp) rs' := by
          intro Lp rs' hLp hb hsf hnm hptr hxl hprob hop hcl
          refine ⟨by rw [hrev]; exact hsf, hnm, by simp; omega, by omega, ?_, ?_, ?_, ?_, hcl⟩
          · rw [hptr, hP0]; exact ptrs_concat ws1 ws2 Lp (by omega)
          · intro i hi
            by_cases hlt : i < ws1.length
            · rw [pre_append ws1 ws2 hlt]; exact F.ptr_xl i (by omega)
            · obtain ⟨i', rfl⟩ : ∃ i', i = ws1.length + i' := ⟨i - ws1.length, by omega⟩
              rw [pre_concat ws1 ws2 i' (by omega)]; exact hxl i' (by omega)
          · rw [hprob]; exact X_eq R ws1 ws2 L2 Lp hLp hL2 rs.prob p2 hp1 G.prob_eq
          · intro ho
            obtain ⟨h1, h2⟩ := hop ho
            exact ⟨by simp; omega, by rw [h2]; simp; omega⟩
        -- closure of the concatenation from the closure witness of the loop
        have closed_of_cn : ∀ Lp, Lp ≤ ws2.length →
            ((Lp < ws2.length ∧ ∀ x, T.lookup (pre ws2 Lp ++ ws1.reverse ++ [x]) = none) ∨
             (0 < Lp ∧ T.xr (pre ws2 (Lp-1) ++ ws1.reverse) = false)) → Closed T (ws1 ++ ws2) (ws1.length + Lp) := by
          intro Lp hLp hcn
          rcases hcn with ⟨h1, h2⟩ | ⟨h1, h2⟩
          · left
            refine ⟨by simp; omega, ?_⟩
            rw [pre_concat ws1 ws2 Lp h1]; exact h2
          · by_cases hlt : Lp < ws2.length
            · left
              refine ⟨by simp; omega, ?_⟩
              intro x
              rw [pre_concat ws1 ws2 Lp hlt, pre_eq_cons ws2 Lp hlt]
              have hg : gm1 ws2 Lp = pre ws2 (Lp - 1) := by
                have : Lp = (Lp - 1) + 1 := by omega
                rw [this, gm1_succ ws2 (Lp-1) (by omega)]; simp
              rw [hg]
              have hne : pre ws2 (Lp-1) ++ ws1.reverse ≠ [] := by
                rw [pre_eq_cons ws2 (Lp-1) (by omega)]; simp
              have hnone : T.lookup (ws2[Lp] :: (pre ws2 (Lp-1) ++ ws1.reverse)) = none := by
                apply Classical.byContradiction; intro hc
                have := H.marks _ ws2[Lp] hne hc
                rw [h2] at this; cases this
              have := lookup_none_extend H.ok [x] _ (by simp) hnone
              simpa using this
            · right; left
              have hLpe : Lp = ws2.length := by omega
              refine ⟨by rw [List.length_append, hLpe], by omega, (ws1 ++ ws2).length, by rw [List.length_append]; omega, Nat.le_refl _, ?_⟩
              rw [List.take_of_length_le (by simp; omega), hrev]
              have : pre ws2 (Lp - 1) = ws2.reverse := by
                unfold pre
                rw [List.take_of_length_le (by omega)]
              rw [← this]; exact h2
        rcases hloop with ⟨hex, I⟩ | ⟨Lp, C⟩
        · -- open through all pointers
          obtain ⟨t1, t2, t3, t4, t5, t6⟩ := nt_tail H R G sf nm I.toInvA
          have hb : L2 + ws1.length ≤ a.order - 1 := by
            have := I.hN; rw [I.nu_eq, hrl] at this; omega
          refine ⟨ws1.length + L2, build L2 (ntTail c st') (Nat.le_refl _) hb t3 t4 (by rw [t1]; exact I.ptrs) I.xl
            (by rw [t5, I.prob]) ?_ ?_⟩
          · intro ho
            rw [t2, I.open_, Bool.false_or] at ho
            obtain ⟨h1, _⟩ := G.open_ ho
            exact ⟨h1, by rw [t6 ho, I.nu_eq, hrl]⟩
          · intro hc
            rw [t2, I.open_, Bool.false_or] at hc
            rcases G.closed hc with ⟨h1, h2⟩ | ⟨h1, h2, k, hk1, hk2, h3⟩ | ⟨h1, h2⟩
            · left
              refine ⟨by simp; omega, ?_⟩
              intro x
              rw [pre_concat ws1 ws2 L2 h1]
              cases hws : ws1.reverse with
              | nil =>
                have : ws1 = [] := by simpa using hws
                subst this
                simp at hrl hr0
                exact absurd hrl hr0
              | cons y r =>
                have : pre ws2 L2 ++ y :: r ++ [x] = (pre ws2 L2 ++ [y]) ++ (r ++ [x]) := by simp
                rw [this]
                exact lookup_none_extend H.ok _ _ (by simp) (h2 y)
            · right; left
              refine ⟨by simp; omega, by omega, k, hk1, by simp; omega, ?_⟩
              rw [hrev, List.take_append_of_le_length (by simp; omega)]; exact h3
            · rw [hord] at h2
              have : 0 < ws1.length := by
                have : rs.out.right.length ≠ 0 := by simpa using hr0
                omega
              omega
        · -- the loop closed the left state after `Lp` new pointers
          have hbound : Lp + ws1.length ≤ a.order - 1 := by have := C.bound; rw [hrl] at this; exact this
          have hcl := closed_of_cn Lp (by have := C.Lp_le; omega) C.cn
          rcases C.fin with ⟨e1, e2, e3, e4⟩ | ⟨e1, I, e3⟩
          · have hnt : ntTail c st' = st'.rs := by simp [ntTail, e1]
            rw [hnt]
            refine ⟨ws1.length + Lp, build Lp st'.rs C.Lp_le hbound (by rw [e2]; exact stateFor_extend G.right_for _ e3)
              (by rw [e2]; exact G.right_norm) C.ptrs C.xl e4 (fun ho => by rw [C.done] at ho; cases ho) (fun _ => hcl)⟩
          · obtain ⟨t1, t2, t3, t4, t5, _⟩ := nt_tail H R G sf nm I
            refine ⟨ws1.length + Lp, build Lp (ntTail c st') C.Lp_le hbound t3 t4 (by rw [t1]; exact C.ptrs) C.xl
              (by rw [t5, e3]) (fun ho => by rw [t2, C.done] at ho; cases ho) (fun _ => hcl)⟩

end KV.Left
