import Proofs.TrieRefines
/-! Soundness of the decidable checker `TrieLM.check`: it implies `Represents` for the finite table. -/
namespace KV.TrieLM
open KV.Arpa KV.Table KV.Score KV.Search

theorem mem_idxs (r : Node) (i : Nat) : i ∈ idxs r ↔ r.1 ≤ i ∧ i < r.2 := by
  simp only [idxs, List.mem_range'_1]; omega

theorem lookup_key_mem {β} (ft : List (List Word × β)) (g : List Word) (h : ft.lookup g ≠ none) : ∃ p ∈ ft, p.1 = g := by
  induction ft with
  | nil => simp [List.lookup] at h
  | cons p ps ih =>
    obtain ⟨k, b⟩ := p
    by_cases hk : g = k
    · exact ⟨(k, b), by simp, hk.symm⟩
    · have : (g == k) = false := by simpa using hk
      simp only [List.lookup, this] at h
      obtain ⟨q, hq, hq1⟩ := ih h
      exact ⟨q, List.mem_cons_of_mem _ hq, hq1⟩

theorem sortedCheck_sound (key : Nat → Nat) (r : Node) (h : sortedCheck key r = true) :
    SortedIn (fun pos => key (pos - 1)) r.1 (r.2 + 1) := by
  intro i j hi hij hj
  simp only [sortedCheck, List.all_eq_true, decide_eq_true_eq] at h
  exact h (i - 1) ((mem_idxs r _).mpr (by omega)) (j - 1) ((mem_idxs r _).mpr (by omega)) (by omega)

theorem check_sound (fval : Nat → Rat) (M : Trie) (ft : FT) (order : Nat) (rng : List Word → Node)
    (h : check fval M ft order rng = true) : Represents fval M (tableOf ft order) rng := by
  simp only [check, Bool.and_eq_true, decide_eq_true_eq, List.all_eq_true] at h
  obtain ⟨⟨⟨⟨hord, huni⟩, hbounds⟩, hchild⟩, hcomp⟩ := h
  simp only [chkBounds, Bool.and_eq_true, decide_eq_true_eq, List.all_eq_true, List.mem_range] at hbounds
  -- children facts for a key of the table
  have child : ∀ g, (tableOf ft order).lookup g ≠ none → chkChildren fval M ft order rng g = true := by
    intro g hg
    obtain ⟨p, hp, hp1⟩ := lookup_key_mem ft g hg
    rw [← hp1]; exact hchild p hp
  have comp : ∀ g, (tableOf ft order).lookup g ≠ none → chkComplete M order rng g = true := by
    intro g hg
    obtain ⟨p, hp, hp1⟩ := lookup_key_mem ft g hg
    rw [← hp1]; exact hcomp p hp
  have hord' : (tableOf ft order).order = order := rfl
  refine ⟨hord, ?_, ?_, ?_, ?_, ?_, hbounds.2, ?_, ?_, ?_⟩
  · -- uni
    intro w hw
    have hu := huni
    simp only [chkUni, List.all_eq_true, List.mem_range] at hu
    have hw' := hu w hw
    cases hl : ft.lookup [w] with
    | none => simp [hl] at hw'
    | some t =>
      simp only [hl, Bool.and_eq_true, decide_eq_true_eq] at hw'
      exact ⟨t, hl, hw'.1, hw'.2⟩
  · intro om2 hom; exact hbounds.1 om2 (by omega)
  · -- mid_sorted
    intro g om2 hg hl hom
    have hc := child g hg
    have c1 : 1 ≤ g.length ∧ g.length + 1 < order := by omega
    unfold chkChildren at hc
    rw [if_pos c1] at hc
    have e : g.length - 1 = om2 := by omega
    simp only [e, Bool.and_eq_true] at hc
    exact sortedCheck_sound _ _ hc.1
  · -- mid_rec
    intro g om2 i hg hl hom h1 h2
    have hc := child g hg
    have c1 : 1 ≤ g.length ∧ g.length + 1 < order := by omega
    unfold chkChildren at hc
    rw [if_pos c1] at hc
    have e : g.length - 1 = om2 := by omega
    simp only [e, Bool.and_eq_true, List.all_eq_true] at hc
    have hi := hc.2 i ((mem_idxs _ _).mpr ⟨h1, h2⟩)
    show ∃ t, ft.lookup (g ++ [midKey M om2 i]) = some t ∧ _
    cases hlk : ft.lookup (g ++ [midKey M om2 i]) with
    | none => simp [hlk] at hi
    | some t =>
      simp only [hlk, Bool.and_eq_true, decide_eq_true_eq] at hi
      exact ⟨t, rfl, hi.1, hi.2⟩
  · -- mid_all
    intro g om2 w hg hl hom hgw
    have hc := comp (g ++ [w]) hgw
    have c1 : 2 ≤ (g ++ [w]).length := by simp; omega
    have c2 : (g ++ [w]).length < order := by simp; omega
    unfold chkComplete at hc
    dsimp only at hc
    rw [if_pos c1, if_pos c2] at hc
    simp only [List.dropLast_concat, List.getLast?_concat, Option.getD_some,
      List.any_eq_true, decide_eq_true_eq] at hc
    obtain ⟨i, hi, hw⟩ := hc
    have e : g.length - 1 = om2 := by omega
    rw [e] at hw
    exact ⟨i, ((mem_idxs _ _).mp hi).1, ((mem_idxs _ _).mp hi).2, hw⟩
  · -- long_sorted
    intro g hg h1 hl
    have hc := child g hg
    have c1 : ¬ (1 ≤ g.length ∧ g.length + 1 < order) := by omega
    have c2 : 1 ≤ g.length ∧ g.length + 1 = order := ⟨h1, by omega⟩
    unfold chkChildren at hc
    rw [if_neg c1, if_pos c2] at hc
    simp only [Bool.and_eq_true] at hc
    exact sortedCheck_sound _ _ hc.1
  · -- long_rec
    intro g i hg h1 hl hb he
    have hc := child g hg
    have c1 : ¬ (1 ≤ g.length ∧ g.length + 1 < order) := by omega
    have c2 : 1 ≤ g.length ∧ g.length + 1 = order := ⟨h1, by omega⟩
    unfold chkChildren at hc
    rw [if_neg c1, if_pos c2] at hc
    simp only [Bool.and_eq_true, List.all_eq_true] at hc
    have hi := hc.2 i ((mem_idxs _ _).mpr ⟨hb, he⟩)
    show ∃ t, ft.lookup (g ++ [longKey M i]) = some t ∧ _
    cases hlk : ft.lookup (g ++ [longKey M i]) with
    | none => simp [hlk] at hi
    | some t =>
      simp only [hlk, decide_eq_true_eq] at hi
      exact ⟨t, rfl, hi⟩
  · -- long_all
    intro g w hg h1 hl hgw
    have hc := comp (g ++ [w]) hgw
    have c1 : 2 ≤ (g ++ [w]).length := by simp; omega
    have c2 : ¬ (g ++ [w]).length < order := by simp; omega
    have c3 : (g ++ [w]).length = order := by simp; omega
    unfold chkComplete at hc
    dsimp only at hc
    rw [if_pos c1, if_neg c2, if_pos c3] at hc
    simp only [List.dropLast_concat, List.getLast?_concat, Option.getD_some,
      List.any_eq_true, decide_eq_true_eq] at hc
    obtain ⟨i, hi, hw⟩ := hc
    exact ⟨i, ((mem_idxs _ _).mp hi).1, ((mem_idxs _ _).mp hi).2, hw⟩

end KV.TrieLM
