import Model.KN
/-!
`stats.Add` calls versus emitted records in `AdjustCounts::Run` (core Lean only).

For every lower order the log of `Add(order_minus_1, count, pruned)` calls is, call by call,
the list of records written to that order's stream — provided the final flush passes the
*adjusted* count (`cfg.flushAdjusted`).  No sortedness is needed for this.
-/
namespace KV.KN

def AddCall.pair (a : AddCall) : Nat × Bool := (a.count, a.pruned)
def Emit.pair (e : Emit) : Nat × Bool := (e.count, e.marked)

theorem filter_pairs_regs (cfg : Cfg) (i : Nat) (d : List Reg) (h : ∀ r ∈ d, 1 ≤ r.gram.length) :
    ((d.map (Reg.addCall cfg)).filter (fun a => a.idx == i)).map AddCall.pair =
    ((d.map (Reg.emit cfg)).filter (fun e => e.gram.length == i + 1)).map Emit.pair := by
  induction d with
  | nil => rfl
  | cons r t ih =>
    have ht := ih (fun x hx => h x (List.mem_cons_of_mem _ hx))
    have hr := h r (List.mem_cons_self)
    simp only [List.map_cons, List.filter_cons]
    have e1 : (Reg.addCall cfg r).idx = r.gram.length - 1 := rfl
    have e2 : (Reg.emit cfg r).gram.length = r.gram.length := rfl
    rw [e1, e2]
    by_cases hc : r.gram.length = i + 1
    · have h1 : (r.gram.length - 1 == i) = true := by simp; omega
      have h2 : (r.gram.length == i + 1) = true := by simp [hc]
      simp only [h1, h2, if_true, List.map_cons, ht]
      rfl
    · have h1 : (r.gram.length - 1 == i) = false := by simp; omega
      have h2 : (r.gram.length == i + 1) = false := by simp [hc]
      simp only [h1, h2, Bool.false_eq_true, if_false]
      exact ht

theorem filter_pairs_regs_rev (cfg : Cfg) (i : Nat) (d : List Reg) (h : ∀ r ∈ d, 1 ≤ r.gram.length) :
    (((d.map (Reg.addCall cfg)).reverse).filter (fun a => a.idx == i)).map AddCall.pair =
    (((d.map (Reg.emit cfg)).reverse).filter (fun e => e.gram.length == i + 1)).map Emit.pair := by
  rw [List.filter_reverse, List.filter_reverse, List.map_reverse, List.map_reverse, filter_pairs_regs cfg i d h]

/-- registers created by STEP 3 are non-empty prefixes of `g` -/
theorem newRegs_len (g : Gram) (c : Nat) (hg : 1 ≤ g.length) :
    ∀ (ws : List Word) (n : Nat), 1 ≤ n → ∀ r ∈ (newRegs g c n ws).1, 1 ≤ r.gram.length := by
  intro ws
  induction ws with
  | nil => intro n _ r hr; simp [newRegs] at hr
  | cons w rest ih =>
    intro n hn r hr
    cases rest with
    | nil => simp [newRegs] at hr
    | cons w2 rest2 =>
      unfold newRegs at hr
      split at hr
      · simp at hr; subst hr; simp [List.length_take]; omega
      · simp only [List.mem_cons] at hr
        rcases hr with hr | hr
        · subst hr; simp [List.length_take]; omega
        · exact ih (n + 1) (by omega) r hr

theorem bump_grams (c : Nat) (l : List Reg) : (bump c l).map (·.gram) = l.map (·.gram) := by
  induction l with
  | nil => rfl
  | cons r t ih =>
    cases t with
    | nil => rfl
    | cons r2 t2 => simp only [bump, List.map_cons] at ih ⊢; rw [ih]

theorem bump_len (c : Nat) (l : List Reg) (h : ∀ r ∈ l, 1 ≤ r.gram.length) :
    ∀ r ∈ bump c l, 1 ≤ r.gram.length := by
  intro r hr
  have : r.gram ∈ (bump c l).map (·.gram) := List.mem_map_of_mem hr
  rw [bump_grams] at this
  obtain ⟨r', hr', e⟩ := List.mem_map.mp this
  rw [← e]; exact h r' hr'

/-- the invariant linking the Add log to the output records of the lower orders -/
structure StatsInv (N : Nat) (s : AState) : Prop where
  regs_len : ∀ r ∈ s.regs, 1 ≤ r.gram.length
  log : ∀ i, i + 1 < N →
    (s.adds.filter (fun a => a.idx == i)).map AddCall.pair =
    (s.out.filter (fun e => e.gram.length == i + 1)).map Emit.pair

theorem statsInv_init (N : Nat) : StatsInv N adjustInit := by
  constructor
  · intro r hr; simp [adjustInit] at hr; subst hr; simp
  · intro i _
    by_cases h0 : i = 0
    · subst h0; rfl
    · have h1 : ((0 : Nat) == i) = false := by simp; omega
      have h2 : ((1 : Nat) == i + 1) = false := by simp; omega
      simp [adjustInit, List.filter_cons, h1, h2]

theorem statsInv_step (cfg : Cfg) (N : Nat) (s : AState) (e : Gram × Nat)
    (he : e.1.length = N) (hN : 1 ≤ N) (inv : StatsInv N s) : StatsInv N (adjustStep cfg s e) := by
  obtain ⟨g, c⟩ := e
  simp only at he
  constructor
  · intro r hr
    simp only [adjustStep, List.mem_append] at hr
    rcases hr with hr | hr
    · exact bump_len c _ (fun x hx => inv.regs_len x (List.mem_of_mem_take hx)) r hr
    · exact newRegs_len g c (by omega) _ _ (by omega) r hr
  · intro i hi
    have hd : ∀ r ∈ (s.regs.drop (sameOf s.regs g)).reverse, 1 ≤ r.gram.length := by
      intro r hr
      exact inv.regs_len r (List.mem_of_mem_drop (List.mem_reverse.mp hr))
    have key := filter_pairs_regs_rev cfg i _ hd
    have hfull : ((g.length - 1 == i) = false) := by simp; omega
    simp only [adjustStep, List.filter_append, List.map_append]
    rw [inv.log i hi, key]
    have : (List.filter (fun a => a.idx == i)
        (if (newRegs g c (sameOf s.regs g + 1) (List.drop (sameOf s.regs g) g)).snd = true then
          [({ idx := g.length - 1, count := c, pruned := markOf cfg c g } : AddCall)] else [])) = [] := by
      split
      · simp [List.filter_cons, hfull]
      · rfl
    rw [this]; rfl

theorem statsInv_fold (cfg : Cfg) (N : Nat) (hN : 1 ≤ N) (full : List (Gram × Nat))
    (hfull : ∀ e ∈ full, e.1.length = N) (s : AState) (inv : StatsInv N s) :
    StatsInv N (full.foldl (adjustStep cfg) s) := by
  induction full generalizing s with
  | nil => exact inv
  | cons e t ih =>
    simp only [List.foldl_cons]
    exact ih (fun x hx => hfull x (List.mem_cons_of_mem _ hx)) _
      (statsInv_step cfg N s e (hfull e List.mem_cons_self) hN inv)

theorem statsInv_flush (cfg : Cfg) (N : Nat) (s : AState) (hfix : cfg.flushAdjusted = true)
    (inv : StatsInv N s) : StatsInv N (adjustFlush cfg s) := by
  constructor
  · intro r hr; simp [adjustFlush] at hr
  · intro i hi
    have key := filter_pairs_regs_rev cfg i s.regs inv.regs_len
    simp only [adjustFlush, hfix, if_true, List.filter_append, List.map_append]
    rw [inv.log i hi]
    congr 1

theorem foldl_add_pairs (l : List AddCall) (s : OrderStat) :
    l.foldl (fun s a => s.add a.count a.pruned) s = (l.map AddCall.pair).foldl (fun s p => s.add p.1 p.2) s := by
  rw [List.foldl_map]; rfl

theorem foldl_emit_pairs (l : List Emit) (s : OrderStat) :
    l.foldl (fun s e => s.add e.count e.marked) s = (l.map Emit.pair).foldl (fun s p => s.add p.1 p.2) s := by
  rw [List.foldl_map]; rfl

/-- **Add log = emitted records**, for every lower order, on the repaired flush. -/
theorem stats_eq_stream (cfg : Cfg) (N : Nat) (hN : 1 ≤ N) (full : List (Gram × Nat))
    (hfull : ∀ e ∈ full, e.1.length = N) (hfix : cfg.flushAdjusted = true) (i : Nat) (hi : i + 1 < N) :
    statsOf (adjustStream cfg full).adds.reverse i = countsOfCounts ((adjustStream cfg full).stream (i + 1)) := by
  have inv := statsInv_flush cfg N _ hfix (statsInv_fold cfg N hN full hfull _ (statsInv_init N))
  have h := inv.log i hi
  unfold statsOf countsOfCounts AState.stream
  rw [foldl_add_pairs, foldl_emit_pairs, List.filter_reverse, List.filter_reverse, List.map_reverse, List.map_reverse]
  unfold adjustStream at *
  rw [h]

end KV.KN
