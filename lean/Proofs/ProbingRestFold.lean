import Proofs.ProbingRestClosed
import Proofs.ProbingBuildRepG
/-! The fold over the n-gram lines, generic in the build mode and the invariant (a copy of `invG_fold`), the initial
state, and `Represents` with a rest function for `MaxRestBuild`. -/
namespace KV.ProbingBuild
open KV.Arpa KV.Table KV.Score KV.ProbingLM

theorem inv_fold_gen (combine : Nat → Word → Nat) (a : Arpa) (u0 : List W) (N : Nat) (caps : Nat → Nat) (Cls : Key → Prop)
    (rmode : Bool) (I : List Key → St → Prop)
    (step : ∀ (S : List Key) (s : St) (p : Key) (e : Entry), I S s → SInv a S → LC combine a u0 N caps S p e → Cls p →
      ∃ s', addLine combine rmode N s p e = .ok s' ∧ I (addLineKeys S p) s') (hwf : WellFormed a)
    (hinj : ∀ k k', IsKey a k → IsKey a k' → k.length = k'.length → hashOf combine k = hashOf combine k' → k = k')
    (hwords : ∀ p, a.gram p ≠ none → ∀ x ∈ p, x < u0.length) :
    ∀ (rest proc : List Line) (S : List Key) (s : St), I S s → FI a proc S →
      (proc ++ rest).Pairwise (fun p q => p.1.length ≤ q.1.length) →
      ((proc ++ rest).map (·.1)).Nodup →
      (∀ q ∈ proc ++ rest, 2 ≤ q.1.length ∧ q.1.length ≤ N ∧ a.gram q.1 = some q.2) →
      (∀ k, a.gram k ≠ none → 2 ≤ k.length → ∃ q ∈ proc ++ rest, q.1 = k) →
      (∀ m, (keysOf (foldKeys S rest) m).length < caps m) →
      (∀ q ∈ rest, Cls q.1) →
      ∃ s', rest.foldlM (fun s p => addLine combine rmode N s p.1 p.2) s = .ok s' ∧
        I (foldKeys S rest) s' ∧ FI a (proc ++ rest) (foldKeys S rest) := by
  intro rest
  induction rest with
  | nil => intro proc S s inv fi _ _ _ _ _ _; exact ⟨s, rfl, by simpa [foldKeys] using inv, by simpa [foldKeys] using fi⟩
  | cons p rest ih =>
    intro proc S s inv fi hsorted hnd hlines hall hcaps hcls
    obtain ⟨hp2, hpN, hpr⟩ := hlines p (by simp)
    have hpw := List.pairwise_append.mp hsorted
    have hbefore : ∀ q ∈ proc, q.1.length ≤ p.1.length := fun q hq => hpw.2.2 q hq p List.mem_cons_self
    have hlater : ∀ q ∈ rest, p.1.length ≤ q.1.length := fun q hq => (List.pairwise_cons.mp hpw.2.1).1 q hq
    have inproc : ∀ q ∈ proc ++ p :: rest, q.1.length < p.1.length → q ∈ proc := by
      intro q hq hl
      rcases List.mem_append.mp hq with h | h
      · exact h
      · rcases List.mem_cons.mp h with h | h
        · subst h; omega
        · have := hlater q h; omega
    have realIn : ∀ k, a.gram k ≠ none → 2 ≤ k.length → k.length < p.1.length → k ∈ S := by
      intro k hk h2 hl
      obtain ⟨q, hq, hqe⟩ := hall k hk h2
      have := inproc q hq (by rw [hqe]; exact hl)
      rw [← hqe]; exact fi.lines q this
    have hpnS : p.1 ∉ S := by
      intro hin
      obtain ⟨q, hq, i, hqi⟩ := fi.pre _ hin
      have h1 := hbefore q hq
      have hlen : p.1.length = min i q.1.length := by rw [hqi, List.length_take]
      have hqe : q.1 = p.1 := by
        rw [hqi]; symm; apply List.take_of_length_le; omega
      rw [List.map_append, List.nodup_append] at hnd
      exact hnd.2.2 _ (List.mem_map_of_mem hq) _ (List.mem_map_of_mem (List.mem_cons_self (a := p) (l := rest))) hqe
    have hkp : IsKey a p.1 := ⟨by intro h; rw [h] at hp2; simp at hp2, Or.inl (by rw [hpr]; simp)⟩
    obtain ⟨X, hX⟩ := foldKeys_append rest (addLineKeys S p.1)
    have lc : LC combine a u0 N caps S p.1 p.2 := by
      refine ⟨hp2, hpN, hpr, ?_, ?_, ?_, hwords p.1 (by rw [hpr]; simp), ?_, realIn⟩
      · intro k hk
        obtain ⟨q, hq, i, hqi⟩ := fi.pre k hk
        have := hbefore q hq
        rw [hqi, List.length_take]; omega
      · intro k hk k' hk' heq
        have hk'S := keysOf_mem S _ k' hk'
        have hk'l := keysOf_len S _ k' hk'
        have hkkey : IsKey a k := by
          rcases hk with hk | hk
          · obtain ⟨i, h1, h3, h4, _⟩ := missing_mem S p.1 _ k hk
            rw [h4]; exact isKey_take a p.1 hkp i (by omega) (by omega)
          · subst hk; exact hkp
        have := hinj k' k (fi.si.keys k' hk'S) hkkey hk'l heq
        subst this
        rcases hk with hk | hk
        · obtain ⟨_, _, _, _, hns⟩ := missing_mem S p.1 _ k' hk
          exact hns hk'S
        · subst hk; exact hpnS hk'S
      · intro m
        have h1 := hcaps m
        simp only [foldKeys, List.foldl_cons] at h1
        have h2 : foldKeys (addLineKeys S p.1) rest = addLineKeys S p.1 ++ X := hX
        simp only [foldKeys] at h2
        rw [h2] at h1
        have := keysOf_len_mono (addLineKeys S p.1) X m
        omega
      · intro h3
        have hreal : a.gram (p.1.drop 1) ≠ none := by
          match hpk : p.1, h3 with
          | x :: t, h3 =>
            have hne : t ≠ [] := by intro h; subst h; simp at h3
            have := hwf.ctx_present x t hne (by rw [← hpk, hpr]; simp)
            simpa using this
        exact realIn _ hreal (by rw [List.length_drop]; omega) (by rw [List.length_drop]; omega)
    obtain ⟨s1, h1, inv1⟩ := step S s p.1 p.2 inv fi.si lc (hcls p List.mem_cons_self)
    have si1 := sInv_addLine fi.si p.1 (by rw [hpr]; simp) hp2 lc.ctx
    have fi1 : FI a (proc ++ [p]) (addLineKeys S p.1) := by
      refine ⟨si1, ?_, ?_⟩
      · intro q hq
        rcases List.mem_append.mp hq with h | h
        · exact (mem_addLineKeys S p.1 _).mpr (Or.inl (fi.lines q h))
        · simp at h; subst h; exact (mem_addLineKeys S q.1 _).mpr (Or.inr (Or.inr rfl))
      · intro k hk
        rcases (mem_addLineKeys S p.1 k).mp hk with h | h | h
        · obtain ⟨q, hq, i, hqi⟩ := fi.pre k h
          exact ⟨q, List.mem_append_left _ hq, i, hqi⟩
        · obtain ⟨i, _, _, h4, _⟩ := missing_mem S p.1 _ k h
          exact ⟨p, by simp, i, h4⟩
        · exact ⟨p, by simp, p.1.length, by rw [h, List.take_length]⟩
    have happ : proc ++ p :: rest = (proc ++ [p]) ++ rest := by simp
    obtain ⟨s', h2', inv', fi'⟩ := ih (proc ++ [p]) (addLineKeys S p.1) s1 inv1 fi1 (by rw [← happ]; exact hsorted)
      (by rw [← happ]; exact hnd) (by rw [← happ]; exact hlines) (by rw [← happ]; exact hall)
      (by intro m; have := hcaps m; simpa [foldKeys] using this)
      (fun q hq => hcls q (List.mem_cons_of_mem _ hq))
    refine ⟨s', ?_, by simpa [foldKeys] using inv', by rw [happ]; simpa [foldKeys] using fi'⟩
    rw [List.foldlM_cons, h1]
    exact h2'


/-- the class handled under `MaxRestBuild` so far: every n-gram of order ≥ 3 has its immediate suffix in the model
(no blank is hallucinated; by induction this is suffix-closure) -/
def ClsC (a : Arpa) (p : Key) : Prop := 3 ≤ p.length → a.gram (p.take (p.length - 1)) ≠ none

/-- the initial state satisfies the `MaxRestBuild` invariant: `rest` of a unigram is its probability -/
theorem invT_init (combine : Nat → Word → Nat) (a : Arpa) (nWords : Nat) (buckets : List Nat) (um : Rat) (ok : ArpaOK' a nWords um)
    (hu : a.unkHallucinated = false) (hcount : nWords ≤ (a.entries.filter fun p => p.1.length == 1).length)
    (hcaps : ∀ m, 0 < capOf buckets m) :
    InvT combine a nWords (capOf buckets) [] (initSt a nWords buckets) := by
  have hN := ok.wf.order_ge
  have inv0 : InvG combine a (initUni a nWords) a.order (capOf buckets) [] (initSt a nWords buckets) := by
    refine ⟨by simp [initSt], ⟨rfl, fun w => by simp [initSt, expU, endsInK, startsWithK]⟩, ?_⟩
    intro m h2 hmN
    have hc : 0 < capOf buckets m := hcaps m
    refine ⟨fun _ => none, ?_⟩
    have : tbl a.order (initSt a nWords buckets) m = emptyOrd (capOf buckets m) := by
      unfold tbl capOf initSt
      by_cases hm : m = a.order
      · simp [hm]
      · have hlt : m - 2 < a.order - 2 := by omega
        simp only [hm, if_false]
        rw [List.getD_eq_getElem?_getD, List.getElem?_map, List.getElem?_range hlt]
        rfl
    rw [this]
    exact ordG_empty combine a m _ hc
  refine stP_congr_on (stP_of_invG inv0) (fun m k hk => by simp [keysOf] at hk) (fun w => ?_)
  apply W.ext' <;> try rfl
  show (wantAll a (initUni a nWords) [] [w]).rest = restOf a [] [w]
  have hr : restOf a [] [w] = a.uniProb w := by simp [restOf, val_uni]
  rw [hr]
  simp only [wantAll, List.length_cons, List.length_nil, if_true, List.headD_cons, expU]
  by_cases hw : w < nWords
  · have hg := (ok.vocab w).mp hw
    obtain ⟨e, he⟩ := Option.ne_none_iff_exists'.mp hg
    rw [initUni_getD_lt a nWords w hw e he]
    have hlt : w < (a.entries.filter fun p => p.1.length == 1).length - 0 := Nat.lt_of_lt_of_le hw hcount
    simp only [hu, Bool.and_false, Bool.false_eq_true, if_false, Arpa.uniProb, he]
    rw [if_pos hlt]
    exact neg_abs_of_nonpos _ (ok.nonpos _ e he)
  · have hg : a.gram [w] = none := by
      cases h : a.gram [w] with
      | none => rfl
      | some e => exact absurd ((ok.vocab w).mpr (by rw [h]; simp)) hw
    rw [initUni_getD_ge a nWords w hw]
    simp [Arpa.uniProb, hg, default]

/-- **the `MaxRestBuild` builder on a model without blanks**: `build … true` returns `.ok s`, and every table and the
unigram array of `s` hold, for each stored key `k`, the payload of the `NoRestBuild` run (`wantAll`: probability,
back-off, sign bit, extension bit) with `rest = restOf a Sf k` — the maximum of `k`'s own probability and the
probabilities of all stored n-grams that extend `k` to the left -/
theorem build_rest_inv_closed (combine : Nat → Word → Nat) (a : Arpa) (nWords : Nat) (buckets : List Nat) (um : Rat)
    (ok : ArpaOK' a nWords um) (hu : a.unkHallucinated = false)
    (hcount : nWords ≤ (a.entries.filter fun p => p.1.length == 1).length)
    (hcls : ∀ q ∈ ngramLines a, ClsC a q.1)
    (hsorted : (ngramLines a).Pairwise (fun p q => p.1.length ≤ q.1.length))
    (hdist : (a.entries.map (·.1)).Nodup)
    (hinj : ∀ k k', IsKey a k → IsKey a k' → k.length = k'.length → hashOf combine k = hashOf combine k' → k = k')
    (hcaps : ∀ m, (keysOf (foldKeys [] (ngramLines a)) m).length < capOf buckets m) :
    ∃ s, build combine true a nWords buckets um = .ok s ∧
      InvT combine a nWords (capOf buckets) (foldKeys [] (ngramLines a)) s ∧ Final a (foldKeys [] (ngramLines a)) := by
  have hul : (initUni a nWords).length = nWords := by simp [initUni]
  have inv0 := invT_init combine a nWords buckets um ok hu hcount (fun m => by have := hcaps m; omega)
  have fi0 : FI a [] [] := ⟨⟨by simp, by simp, by simp, by simp⟩, by simp, by simp⟩
  have hmemE : ∀ q ∈ ngramLines a, q ∈ a.entries ∧ 2 ≤ q.1.length := by
    intro q hq; simp [ngramLines] at hq; exact hq
  obtain ⟨s, hf, inv, fi⟩ := inv_fold_gen combine a (initUni a nWords) a.order (capOf buckets) (ClsC a) true
    (InvT combine a nWords (capOf buckets))
    (fun S s p e h si lc cls => step_closedT combine a nWords um ok (capOf buckets) S s p e h si lc
      (fun h3 => lc.rs _ (cls h3) (by rw [List.length_take]; omega) (by rw [List.length_take]; omega)))
    ok.wf hinj
    (fun p hp x hx => by rw [hul]; exact (ok.vocab x).mpr (ok.words p hp x hx))
    (ngramLines a) [] [] _ inv0 fi0 (by simpa using hsorted)
    (by
      have : ((ngramLines a).map (·.1)).Nodup := by
        unfold ngramLines
        exact List.Nodup.sublist (List.Sublist.map _ List.filter_sublist) hdist
      simpa using this)
    (by
      intro q hq
      have hq' : q ∈ ngramLines a := by simpa using hq
      obtain ⟨hqe, hq2⟩ := hmemE q hq'
      have hg : a.gram q.1 = some q.2 := lookup_of_mem_nodup a.entries hdist q.1 q.2 hqe
      exact ⟨hq2, ok.wf.len_le _ (by rw [hg]; simp), hg⟩)
    (by
      intro k hk h2
      obtain ⟨e, he⟩ := Option.ne_none_iff_exists'.mp hk
      exact ⟨(k, e), by simpa using mem_ngramLines a k e he h2, rfl⟩)
    hcaps (by simpa using hcls)
  have ffin : Final a (foldKeys [] (ngramLines a)) := by
    refine ⟨fi.si, ?_⟩
    intro k hk h2
    obtain ⟨e, he⟩ := Option.ne_none_iff_exists'.mp hk
    exact fi.lines (k, e) (by simpa using mem_ngramLines a k e he h2)
  refine ⟨fixUnk a um s, ?_, ?_, ffin⟩
  · unfold build
    simp only [bind, Except.bind]
    have hf' : List.foldlM (fun s p => addLine combine true a.order s p.1 p.2) (initSt a nWords buckets)
        (a.entries.filter fun p => p.1.length ≥ 2) = .ok s := hf
    unfold initSt at hf'
    rw [hf']
  · have : fixUnk a um s = s := by unfold fixUnk; simp [hu]
    rw [this]; exact inv

end KV.ProbingBuild
