import Proofs.LeftNT2
/-! `NonTerminal` onto a fragment whose left state is complete (also: after `BeginSentence`): it adds exactly the
left-to-right score of the incoming fragment given the history, and produces the right state of the
concatenation. -/
namespace KV.Left
open KV.Arpa KV.Table KV.State KV.Score

variable {a : Arpa} {T : Table}

/-- a state stays valid for a longer history if everything beyond the old history is dead -/
theorem stateFor_extend {hA : List Word} {s : State} (sf : StateFor a hA s) (c : List Word)
    (hd : ∀ k, 1 ≤ k → k ≤ c.length → ¬ live a (hA ++ c.take k)) : StateFor a (hA ++ c) s := by
  have h1 := sf.len_le_h
  refine ⟨by simp; omega, sf.len_le_N, ?_, ?_, ?_⟩
  · rw [sf.words, List.take_append_of_le_length h1]
  · rw [sf.backoff]
    apply List.map_congr_left
    intro j hj
    have : j < s.length := by simpa using hj
    rw [List.take_append_of_le_length (by omega)]
  · intro k hk1 hk2
    by_cases hk : k ≤ hA.length
    · rw [List.take_append_of_le_length hk]; exact sf.dead k hk1 hk
    · have e : k = hA.length + (k - hA.length) := by omega
      rw [e, take_append_len]
      simp only [List.length_append] at hk2
      exact hd _ (by omega) (by omega)

/-- the three reasons for a complete left state all make everything beyond the fragment dead -/
theorem closed_dead (H : Hyp a T) {ws : List Word} {L : Nat} (hc : Closed T ws L) (hL : L ≤ ws.length) (c : List Word) (hcne : c ≠ []) :
    ¬ live a (ws.reverse ++ c) := by
  rcases hc with ⟨h1, h2⟩ | ⟨h1, h2, k, hk1, hk2, h3⟩ | ⟨h1, h2⟩
  · have hne : pre ws L ≠ [] := by
      rw [pre_eq_cons ws L h1]; simp
    have := H.dead_of_no_ext hne h2 (ws.drop (L+1)).reverse c hcne
    rw [← List.append_assoc, ← gm1_succ ws L h1, ← rev_split] at this
    exact this
  · have hne : ws.reverse.take k ≠ [] := take_ne_nil hk1 (by simpa using hk2)
    have := H.dead_of_not_xr hne h3 (ws.reverse.drop k ++ c)
    rw [← List.append_assoc, List.take_append_drop] at this
    exact this
  · intro hl
    obtain ⟨e, he, hor⟩ := hl
    have hlen := H.wf.len_le _ (by simp [he] : a.gram (ws.reverse ++ c) ≠ none)
    have hcl : 1 ≤ c.length := by
      cases c with
      | nil => exact absurd rfl hcne
      | cons x c' => simp
    simp only [List.length_append, List.length_reverse] at hlen
    rw [H.tf.order_eq] at h2
    have hN := H.wf.order_ge
    have hlen' : (ws.reverse ++ c).length = a.order := by simp; omega
    rcases hor with hb | ⟨x, hx⟩
    · exact hb (H.wf.top_bo _ e he hlen')
    · have := H.wf.len_le _ hx
      simp only [List.length_cons] at this
      omega

/-- reason (a): the first word after the left state receives the back-offs of the revealed contexts, the words
after it nothing -/
theorem tail_a (H : Hyp a T) (ws h : List Word) (L nu : Nat) (hL : L < ws.length) (hLN : L + nu ≤ a.order - 1)
    (hnu : nu ≤ h.length)
    (hx : ∀ x, T.lookup (pre ws L ++ [x]) = none)
    (hD : ∀ k, nu < k → k ≤ h.length → ¬ live a (gm1 ws L ++ h.take k)) :
    specSeq a (gm1 ws L ++ h) (ws.drop L) = specSeq a (gm1 ws L) (ws.drop L) +
      rsum (fun j => a.boW (gm1 ws L ++ h.take (j+1))) 0 nu := by
  have hgl := gm1_length ws L (by omega)
  have hpc := pre_eq_cons ws L hL
  have hne : pre ws L ≠ [] := by rw [hpc]; simp
  rw [drop_eq_cons ws L hL]
  simp only [specSeq]
  -- the words after the first one
  have htail : specSeq a (ws[L] :: (gm1 ws L ++ h)) (ws.drop (L+1)) = specSeq a (ws[L] :: gm1 ws L) (ws.drop (L+1)) := by
    have e : ws[L] :: (gm1 ws L ++ h) = pre ws L ++ h := by rw [hpc]; rfl
    rw [e, ← hpc]
    apply specSeq_dead H
    intro k hk1 hk2
    have := H.dead_of_no_ext hne hx [] (h.take k) (take_ne_nil hk1 hk2)
    simpa using this
  rw [htail]
  -- the first word
  have hloc := score_local (a := a) ws[L] (gm1 ws L) h (by rw [hgl]; omega) (by
    intro k hk1 hk2
    have := H.not_real_of_no_ext hne hx [] (h.take k) (take_ne_nil hk1 hk2)
    rw [hpc] at this
    simpa using this)
  rw [hloc, hgl]
  have hsplit : min h.length (a.order - 1 - L) = nu + (min h.length (a.order - 1 - L) - nu) := by omega
  rw [hsplit]
  have hz := rsum_zero_tail (f := fun j => a.boW (gm1 ws L ++ h.take (j+1))) (lo := 0) (d := nu)
    (e := min h.length (a.order - 1 - L) - nu) (by
      intro j h1 h2
      exact boW_zero_of_dead (hD (j+1) (by omega) (by omega)))
  rw [hz]
  grind

theorem range_add_map (f : Nat → Rat) (m n : Nat) :
    (List.range (m + n)).map f = (List.range m).map f ++ (List.range n).map (fun j => f (m + j)) := by
  rw [List.range_add, List.map_append, List.map_map]
  rfl

/-- **NonTerminal in done mode.** -/
theorem nonTerminal_done (H : Hyp a T) (R : Ptr → Rat) {ws2 : List Word} {L2 : Nat} {c : Chart} {p2 : Rat}
    (G : FragC a T R ws2 L2 c p2) {h : List Word} {rs : RS} (hd : rs.leftDone = true)
    (sf : StateFor a h rs.out.right) (nm : NormS rs.out.right) :
    (nonTerminal T R rs c p2).leftDone = true ∧ (nonTerminal T R rs c p2).out.left = rs.out.left ∧
    StateFor a (ws2.reverse ++ h) (nonTerminal T R rs c p2).out.right ∧ NormS (nonTerminal T R rs c p2).out.right ∧
    (nonTerminal T R rs c p2).prob = rs.prob + specSeq a h ws2 := by
  have hord : T.order = a.order := H.tf.order_eq
  have hN2 := H.wf.order_ge
  have hL := G.L_le
  have hlen : c.left.length = L2 := by simp [LeftSt.length, G.ptrs]
  have hp2 := G.prob_eq
  -- everything beyond the incoming fragment is dead once its left state is complete
  have hdeadC : c.left.full = true → ∀ k, 1 ≤ k → k ≤ h.length → ¬ live a (ws2.reverse ++ h.take k) :=
    fun hf k hk1 hk2 => closed_dead H (G.closed hf) hL (h.take k) (take_ne_nil hk1 hk2)
  unfold nonTerminal
  simp only [hlen]
  by_cases hz : (L2 == 0) = true
  · have hL0 : L2 = 0 := by simpa using hz
    simp only [hz, if_true]
    by_cases hf : c.left.full = true
    · simp only [hf, if_true]
      have hcl := G.closed hf
      rcases hcl with ⟨h1, h2⟩ | ⟨_, h2, _⟩ | ⟨_, h2⟩
      · refine ⟨(by first | rfl | trivial), (by first | rfl | trivial), stateFor_extend G.right_for h (hdeadC hf), G.right_norm, ?_⟩
        show rs.prob + p2 + (rs.out.right.backoff.take rs.out.right.length).sum = _
        have ht := tail_a H ws2 h L2 rs.out.right.length h1 (by have := sf.len_le_N; omega) sf.len_le_h h2
          (by intro k hk1 hk2; rw [hL0]; simpa [gm1] using sf.dead k hk1 hk2)
        rw [hL0] at ht
        simp only [gm1, List.take_zero, List.reverse_nil, List.nil_append, List.drop_zero] at ht
        rw [ht, sf.backoff, sum_range_map, hp2, hL0]
        simp only [restSum, List.take_zero, List.reverse_nil, List.drop_zero]
        grind
      · omega
      · omega
    · have hf' : c.left.full = false := by simpa using hf
      simp only [hf', Bool.false_eq_true, if_false]
      obtain ⟨h1, _⟩ := G.open_ hf'
      have hnil : ws2 = [] := List.eq_nil_of_length_eq_zero (by omega)
      subst hnil
      refine ⟨(by first | exact hd | trivial), (by first | rfl | trivial), by simpa using sf, nm, ?_⟩
      show rs.prob + p2 = _
      rw [hp2, hL0]; simp [restSum, specSeq]; grind
  · simp only [hz, Bool.false_eq_true, if_false]
    have hL0 : 0 < L2 := by
      have : L2 ≠ 0 := by simpa using hz
      omega
    by_cases hr0 : (rs.out.right.length == 0) = true
    · -- the history is irrelevant: UnRest of all pointers
      have hn0 : rs.out.right.length = 0 := by simpa using hr0
      simp only [hr0, if_true, hd]
      have hdead0 : ∀ k, 1 ≤ k → k ≤ h.length → ¬ live a (gm1 ws2 0 ++ h.take k) := by
        intro k hk1 hk2
        simpa [gm1] using sf.dead k (by omega) hk2
      have hun := unrest_remaining H R ws2 L2 h hL G.L_lt G.ptr_xl (L2 - 0) 0 rfl (by omega) hdead0
      refine ⟨(by first | rfl | trivial), (by first | rfl | trivial), ?_, G.right_norm, ?_⟩
      · apply stateFor_extend G.right_for h
        intro k hk1 hk2
        have hne : h.take k ≠ [] := take_ne_nil hk1 hk2
        have := H.dead_cons ws2.reverse _ hne (by simpa [gm1] using hdead0 k hk1 hk2)
        exact this
      · show rs.prob + p2 + unRest T R c.left.pointers 1 = _
        rw [G.ptrs]
        simp only [List.drop_zero, Nat.zero_add] at hun
        rw [hun, hp2]
        unfold remaining
        simp only [gm1, List.take_zero, List.reverse_nil, List.nil_append, List.drop_zero, restSum]
        grind
    · simp only [hr0, Bool.false_eq_true, if_false]
      -- the pointer loop
      let st0 : StepOut := { rs := { rs with prob := rs.prob + p2 }, nextUse := rs.out.right.length,
                             back := rs.out.right.backoff.take rs.out.right.length, exit := false }
      have I0 : InvA a ws2 h rs.out.right 0 st0 := by
        refine ⟨rfl, Nat.le_refl _, ?_, ?_, ?_, rfl⟩
        · have := sf.len_le_N; show 0 + 1 + rs.out.right.length ≤ a.order; omega
        · show (rs.out.right.backoff.take rs.out.right.length).take rs.out.right.length = _
          rw [List.take_take, Nat.min_self, sf.backoff]
          simp only [gm1, List.take_zero, List.reverse_nil, List.nil_append]
          rfl
        · intro k hk1 hk2
          simpa [gm1] using sf.dead k hk1 hk2
      have hloop := loopA H R G sf nm L2 0 st0 (by omega) I0 hd
      simp only [Nat.zero_add] at hloop
      generalize hst : extendAll T R c L2 1 st0 = st' at hloop
      obtain ⟨hl1, hl2, hl3⟩ := hloop
      have hrem0 : (rs.prob + p2) + remaining a R ws2 L2 h 0 = rs.prob + specSeq a h ws2 := by
        rw [hp2]; unfold remaining
        simp only [gm1, List.take_zero, List.reverse_nil, List.nil_append, List.drop_zero, restSum]
        grind
      rcases hl3 with ⟨e1, e2, e3, e4⟩ | ⟨e1, I, e3⟩
      · -- early exit
        simp only [e1, if_true]
        refine ⟨hl1, hl2, ?_, by rw [e2]; exact G.right_norm, by rw [e4]; exact hrem0⟩
        rw [e2]; exact stateFor_extend G.right_for h e3
      · simp only [e1, Bool.false_eq_true, if_false]
        have e3' : st'.rs.prob + remaining a R ws2 L2 h L2 = rs.prob + specSeq a h ws2 := by rw [e3]; exact hrem0
        have hnuh : st'.nextUse ≤ h.length := by have := I.nu_le; have := sf.len_le_h; omega
        by_cases hf : c.left.full = true
        · simp only [hf, if_true]
          refine ⟨(by first | rfl | trivial), hl2, stateFor_extend G.right_for h (hdeadC hf), G.right_norm, ?_⟩
          show st'.rs.prob + (st'.back.take st'.nextUse).sum = _
          rw [← e3', I.back, sum_range_map]
          congr 1
          unfold remaining
          have hrs : restSum R ws2 L2 - restSum R ws2 L2 = 0 := by grind
          rcases G.closed hf with ⟨h1, h2⟩ | ⟨h1, _, k, hk1, hk2, h3⟩ | ⟨h1, h2⟩
          · have ht := tail_a H ws2 h L2 st'.nextUse h1 (by have := I.hN; omega) hnuh h2 I.dead
            rw [ht]; grind
          · -- nothing to charge: all these contexts are dead
            have hz0 : rsum (fun j => a.boW (gm1 ws2 L2 ++ h.take (j+1))) 0 st'.nextUse = 0 := by
              apply rsum_zero
              intro j _ hj
              apply boW_zero_of_dead
              have hg : gm1 ws2 L2 = ws2.reverse := by unfold gm1; rw [h1, List.take_of_length_le (Nat.le_refl _)]
              rw [hg]
              exact closed_dead H (G.closed hf) hL _ (take_ne_nil (by omega) (by omega))
            rw [hz0, h1, List.drop_eq_nil_of_le (Nat.le_refl _)]
            simp only [specSeq]; grind
          · have hnu0 : st'.nextUse = 0 := by have := I.hN; rw [hord] at h2; omega
            rw [hnu0, h1, List.drop_eq_nil_of_le (Nat.le_refl _)]
            simp only [specSeq, rsum]; grind
        · have hf' : c.left.full = false := by simpa using hf
          simp only [hf', Bool.false_eq_true, if_false]
          obtain ⟨h1, h2⟩ := G.open_ hf'
          have hlt : ¬ (c.right.length < L2) := by omega
          simp only [hlt, if_false]
          have hg : gm1 ws2 L2 = ws2.reverse := by unfold gm1; rw [h1, List.take_of_length_le (Nat.le_refl _)]
          have hw1 : c.right.words.take c.right.length = ws2.reverse := by
            rw [G.right_for.words, h2, List.take_of_length_le (by simp)]
          have hw2 : st'.rs.out.right.words.take st'.nextUse = h.take st'.nextUse := by
            rw [I.right]; exact state_words_take sf nm I.nu_le
          have hb2 := I.back
          rw [hg] at hb2
          have hbl : (st'.back.take st'.nextUse).length = st'.nextUse := by rw [hb2]; simp
          have hcb : (c.right.backoff.take c.right.length).length = c.right.length := by
            rw [List.length_take, G.right_norm.2]; omega
          have hrem : remaining a R ws2 L2 h L2 = 0 := by
            unfold remaining
            rw [h1, List.drop_eq_nil_of_le (Nat.le_refl _)]
            simp only [specSeq]; grind
          refine ⟨hl1, hl2, ?_, ?_, by rw [← e3', hrem]; show st'.rs.prob = _; grind⟩
          · -- the merged right state
            show StateFor a (ws2.reverse ++ h)
              { length := c.right.length + st'.nextUse,
                words := c.right.words.take c.right.length ++ st'.rs.out.right.words.take st'.nextUse,
                backoff := c.right.backoff.take c.right.length ++ st'.back.take st'.nextUse }
            rw [hw1, hw2]
            refine ⟨by simp; omega, by show c.right.length + st'.nextUse ≤ a.order - 1; have := I.hN; omega, ?_, ?_, ?_⟩
            · show (ws2.reverse ++ h.take st'.nextUse).take (c.right.length + st'.nextUse) = _
              rw [h2]
              have e1 : ws2.length = ws2.reverse.length := by simp
              rw [e1, take_append_len, take_append_len, List.take_take, Nat.min_self]
            · show (c.right.backoff.take c.right.length ++ st'.back.take st'.nextUse).take (c.right.length + st'.nextUse) = _
              rw [List.take_of_length_le (by simp only [List.length_append, hbl, hcb]; omega), range_add_map,
                G.right_for.backoff, hb2]
              congr 1
              · apply List.map_congr_left
                intro j hj
                have : j < c.right.length := by simpa using hj
                rw [List.take_append_of_le_length (by simp; omega)]
              · apply List.map_congr_left
                intro j _
                have e1 : c.right.length + j + 1 = ws2.reverse.length + (j + 1) := by simp; omega
                rw [e1, take_append_len]
            · intro k hk1 hk2
              have hk1' : c.right.length + st'.nextUse < k := hk1
              simp only [List.length_append, List.length_reverse] at hk2
              have e1 : k = ws2.reverse.length + (k - ws2.length) := by simp; omega
              rw [e1, take_append_len, ← hg]
              exact I.dead _ (by omega) (by omega)
          · constructor
            · show (c.right.words.take c.right.length ++ st'.rs.out.right.words.take st'.nextUse).length = _
              rw [hw1, hw2]; simp; omega
            · show (c.right.backoff.take c.right.length ++ st'.back.take st'.nextUse).length = _
              simp only [List.length_append, hbl, hcb]

end KV.Left
