import Proofs.LoaderProbingFrame
import Proofs.LoaderProbing
/-! One line of `ProbingBuild`'s fold against one step of the loader model's probing run, and the fold over all lines. -/
namespace KV.LoaderPB
open KV.Arpa KV.ProbingBuild KV.Probing KV.ProbingLM

theorem cnt_mono_append (pre keys : List Key) (m : Nat) : cnt keys m ≤ cnt (pre ++ keys) m := by
  rw [cnt_append]; omega

/-- keys and tops after the loader model's step for the line `g` -/
def keys1 (N : Nat) (keys : List Key) (g : Key) : List Key := if g.length < N then g :: keys else keys
def tops1 (N : Nat) (tops : List Key) (g : Key) : List Key := if g.length = N then g :: tops else tops

theorem probingStep_eq (N : Nat) (keys : List Key) (b : Bool) (g : Key) :
    KV.LoaderArpa.probingStep N (keys, b) g =
      (KV.LoaderArpa.findLower g (g.length - 1) (keys1 N keys g),
       b && (decide (g.length < 3) || (KV.LoaderArpa.findLower g (g.length - 1) (keys1 N keys g)).contains g.tail)) := by
  unfold KV.LoaderArpa.probingStep keys1
  rfl

/-- **one line**: `addLine` succeeds with the invariant for the loader model's next key list and a passed context test, or raises
`probingSize` at an order whose key count (in the loader model's next state) reaches the capacity, or raises `format` exactly
when the loader model's context test fails -/
theorem addLine_sim (combine : Nat → Word → Nat) (inj : ∀ k1 k2 : Key, hashOf combine k1 = hashOf combine k2 → k1 = k2)
    (N : Nat) (caps : Nat → Nat) (keys tops : List Key) (s : St) (g : Key) (e : KV.Arpa.Entry)
    (inv : TabInv combine N caps keys tops s) (h2 : 2 ≤ g.length) (hN : g.length ≤ N)
    (fresh : g ∉ keysAt N keys tops g.length) :
    let st' := KV.LoaderArpa.probingStep N (keys, true) g
    (∃ s', addLine combine false N s g e = .ok s' ∧ TabInv combine N caps st'.1 (tops1 N tops g) s' ∧ st'.2 = true) ∨
    (addLine combine false N s g e = .error .probingSize ∧
      ∃ m, 2 ≤ m ∧ m ≤ N ∧ caps m ≤ cnt (keysAt N st'.1 (tops1 N tops g) m) m) ∨
    (addLine combine false N s g e = .error .format ∧ st'.2 = false) := by
  intro st'
  have hst : st' = KV.LoaderArpa.probingStep N (keys, true) g := rfl
  rw [probingStep_eq] at hst
  rw [addLine_phases]
  have hk1 : (if g.length = N then keys else g :: keys) = keys1 N keys g := by
    unfold keys1; by_cases h : g.length = N
    · simp [h]
    · have : g.length < N := by omega
      simp [h, this]
  have ht1 : (if g.length = N then g :: tops else tops) = tops1 N tops g := rfl
  obtain ⟨pre, hpre⟩ := findLower_suffix g (g.length - 1) (keys1 N keys g)
  have hst1 : st'.1 = pre ++ keys1 N keys g := by rw [hst]; exact hpre
  obtain ⟨hins_err, hins_ok⟩ := insert_sim combine inj N caps keys tops s g e inv h2 hN fresh
  by_cases hc : cnt (keysAt N keys tops g.length) g.length + 1 < caps g.length
  · obtain ⟨s1, h1, _, inv1⟩ := hins_ok hc
    rw [hk1, ht1] at inv1
    rw [h1]
    simp only [bind, Except.bind]
    have hfl := findLower_sim combine inj N caps (tops1 N tops g) g (g.length - 2) s1 [] (keys1 N keys g) (by omega) (by omega) inv1
    have hidx : g.length - 2 + 1 = g.length - 1 := by omega
    rw [hidx] at hfl
    rcases hfl with ⟨s2, b2, hok2, inv2, _⟩ | ⟨herr2, m, hm2, hmN, hcap⟩
    · rw [hok2]
      simp only
      obtain ⟨s3, hok3, same3⟩ := adjustLower_frame combine (lineW e).rest g g.length b2 s2 inv2.allInv
      rw [hok3]
      simp only
      have inv3 := inv2.of_sameT same3
      by_cases h3 : 3 ≤ g.length
      · obtain ⟨hfmt, hok⟩ := activate_sim combine N caps _ (tops1 N tops g) s3 g inv3 h3 hN
        by_cases hin : g.tail ∈ KV.LoaderArpa.findLower g (g.length - 1) (keys1 N keys g)
        · obtain ⟨s4, hok4⟩ := hok hin
          left
          refine ⟨s4, hok4, ?_, ?_⟩
          · -- activate only modifies a payload
            have hb : (g.length == 2) = false := by simp; omega
            have : ∃ r f, s4 = s3.modify r f := by
              simp only [KV.ProbingBuild.activate, hb, Bool.false_eq_true, if_false, bind, Except.bind] at hok4
              split at hok4
              · simp at hok4
              · split at hok4
                · simp at hok4
                · simp only [Except.ok.injEq] at hok4
                  exact ⟨_, _, hok4.symm⟩
            obtain ⟨r, f, rfl⟩ := this
            rw [hst]
            exact inv3.of_sameT (modify_sameT _ _ _)
          · rw [hst]
            simp [hin]
        · right; right
          refine ⟨hfmt.mpr hin, ?_⟩
          rw [hst]
          have : ¬ g.length < 3 := by omega
          simp [hin, this]
      · have hg2 : g.length = 2 := by omega
        left
        refine ⟨s3.modify (.uni (g.getD 1 0)) setExtension, by simp [KV.ProbingBuild.activate, hg2], ?_, ?_⟩
        · rw [hst]; exact inv3.of_sameT (modify_sameT _ _ _)
        · rw [hst]; simp [hg2]
    · right; left
      rw [herr2]
      refine ⟨rfl, m, hm2, by omega, ?_⟩
      have hmne : m ≠ N := by omega
      rw [hst]
      simpa [keysAt, hmne] using hcap
  · right; left
    have herr := hins_err.mpr (by omega)
    rw [herr]
    refine ⟨rfl, g.length, h2, hN, ?_⟩
    -- the new line itself is in the loader model's next state
    have hle : caps g.length ≤ cnt (keysAt N keys tops g.length) g.length + 1 := by omega
    by_cases hgN : g.length = N
    · have : keysAt N st'.1 (tops1 N tops g) g.length = g :: tops := by simp [keysAt, tops1, hgN]
      rw [this, cnt_cons_same _ _ _ rfl]
      have : keysAt N keys tops g.length = tops := by simp [keysAt, hgN]
      rw [this] at hle; exact hle
    · have hlt : g.length < N := by omega
      have : keysAt N st'.1 (tops1 N tops g) g.length = st'.1 := by simp [keysAt, hgN]
      rw [this, hst1]
      have hk : keys1 N keys g = g :: keys := by simp [keys1, hlt]
      rw [hk]
      have : keysAt N keys tops g.length = keys := by simp [keysAt, hgN]
      rw [this] at hle
      have := cnt_mono_append pre (g :: keys) g.length
      rw [cnt_cons_same _ _ _ rfl] at this
      omega

theorem findLower_mem (g : Key) : ∀ (j : Nat) (keys : List Key) (k : Key), k ∈ KV.LoaderArpa.findLower g j keys →
    k ∈ keys ∨ ∃ i, 2 ≤ i ∧ i ≤ j ∧ k = g.take i := by
  intro j
  induction j with
  | zero => intro keys k hk; left; simpa [KV.LoaderArpa.findLower] using hk
  | succ j ih =>
    intro keys k hk
    unfold KV.LoaderArpa.findLower at hk
    split at hk
    · exact Or.inl hk
    · split at hk
      · exact Or.inl hk
      · rcases ih _ k hk with h | ⟨i, h2, hi, he⟩
        · rcases List.mem_cons.mp h with rfl | h
          · exact Or.inr ⟨j + 1, by omega, Nat.le_refl _, rfl⟩
          · exact Or.inl h
        · exact Or.inr ⟨i, h2, by omega, he⟩

theorem step_mem (N : Nat) (keys : List Key) (b : Bool) (g k : Key) (hk : k ∈ (KV.LoaderArpa.probingStep N (keys, b) g).1) :
    k ∈ keys ∨ k = g ∨ ∃ i, 2 ≤ i ∧ i < g.length ∧ k = g.take i := by
  rw [probingStep_eq] at hk
  rcases findLower_mem g _ _ k hk with h | ⟨i, h2, hi, he⟩
  · unfold keys1 at h
    split at h
    · rcases List.mem_cons.mp h with rfl | h
      · exact Or.inr (Or.inl rfl)
      · exact Or.inl h
    · exact Or.inl h
  · exact Or.inr (Or.inr ⟨i, h2, by omega, he⟩)

theorem step_keys_indep (N : Nat) (keys : List Key) (b : Bool) (g : Key) :
    (KV.LoaderArpa.probingStep N (keys, b) g).1 = (KV.LoaderArpa.probingStep N (keys, true) g).1 := by
  rw [probingStep_eq, probingStep_eq]

theorem fold_keys_indep (N : Nat) : ∀ (gs : List Key) (keys : List Key) (b : Bool),
    (gs.foldl (KV.LoaderArpa.probingStep N) (keys, b)).1 = (gs.foldl (KV.LoaderArpa.probingStep N) (keys, true)).1 := by
  intro gs
  induction gs with
  | nil => intro keys b; rfl
  | cons g gs ih =>
    intro keys b
    simp only [List.foldl_cons]
    have e1 : KV.LoaderArpa.probingStep N (keys, b) g = ((KV.LoaderArpa.probingStep N (keys, b) g).1, (KV.LoaderArpa.probingStep N (keys, b) g).2) := rfl
    have e2 : KV.LoaderArpa.probingStep N (keys, true) g = ((KV.LoaderArpa.probingStep N (keys, true) g).1, (KV.LoaderArpa.probingStep N (keys, true) g).2) := rfl
    rw [e1, e2, ih _ (KV.LoaderArpa.probingStep N (keys, b) g).2, ih _ (KV.LoaderArpa.probingStep N (keys, true) g).2, step_keys_indep]

theorem fold_false (N : Nat) (gs : List Key) (st : List Key × Bool) (h : st.2 = false) :
    (gs.foldl (KV.LoaderArpa.probingStep N) st).2 = false := by
  cases hf : (gs.foldl (KV.LoaderArpa.probingStep N) st).2 with
  | false => rfl
  | true => have := KV.LoaderArpa.fold_flag_mono N gs st hf; rw [h] at this; cases this

/-- **the fold over the lines.**  Lines of orders 2 … N in section order, distinct, not yet stored; the highest order's table larger
than its line count.  Then `ProbingBuild`'s fold and the loader model's run agree: both go through (flag true, every middle count
below its capacity), or `ProbingBuild` raises `format` and the loader model's flag is false, or it raises `probingSize` and the
loader model's end-of-run capacity test fails.  It never diverges. -/
theorem fold_sim (combine : Nat → Word → Nat) (inj : ∀ k1 k2 : Key, hashOf combine k1 = hashOf combine k2 → k1 = k2)
    (N : Nat) (caps : Nat → Nat) :
    ∀ (lines : List (Key × KV.Arpa.Entry)) (keys tops : List Key) (s : St),
      TabInv combine N caps keys tops s →
      (∀ p ∈ lines, 2 ≤ p.1.length ∧ p.1.length ≤ N) →
      lines.Pairwise (fun p q => p.1.length ≤ q.1.length) →
      (lines.map (·.1)).Nodup →
      (∀ p ∈ lines, p.1 ∉ keys ∧ p.1 ∉ tops) →
      (∀ t ∈ tops, t.length = N) →
      tops.length + (lines.filter (fun p => p.1.length == N)).length < caps N →
      let fin := (lines.map (·.1)).foldl (KV.LoaderArpa.probingStep N) (keys, true)
      (∃ s', lines.foldlM (fun s p => addLine combine false N s p.1 p.2) s = .ok s' ∧ fin.2 = true ∧
          ∀ m, 2 ≤ m → m < N → cnt fin.1 m < caps m) ∨
      (lines.foldlM (fun s p => addLine combine false N s p.1 p.2) s = .error .format ∧ fin.2 = false) ∨
      (lines.foldlM (fun s p => addLine combine false N s p.1 p.2) s = .error .probingSize ∧
          ∃ m, 2 ≤ m ∧ m < N ∧ caps m ≤ cnt fin.1 m) := by
  intro lines
  induction lines with
  | nil =>
    intro keys tops s inv _ _ _ _ _ _
    left
    refine ⟨s, rfl, rfl, ?_⟩
    intro m h2 hN
    obtain ⟨M, _, _, hent, hcap⟩ := inv.tabs m h2 (by omega)
    have := inv.below m h2 (by omega)
    rw [hent, hcap] at this
    simpa [keysAt, Nat.ne_of_lt hN] using this
  | cons p lines ih =>
    intro keys tops s inv hlen hsorted hnd hfresh htops hcapN
    obtain ⟨g, e⟩ := p
    have hg := hlen (g, e) List.mem_cons_self
    have hfr := hfresh (g, e) List.mem_cons_self
    have fresh : g ∉ keysAt N keys tops g.length := by
      unfold keysAt; split
      · exact hfr.2
      · exact hfr.1
    have hcN : cnt tops N = tops.length := by
      unfold cnt
      rw [List.filter_eq_self.mpr]
      intro t ht; simp [htops t ht]
    simp only [List.map_cons, List.foldl_cons, List.foldlM_cons, bind, Except.bind]
    rcases addLine_sim combine inj N caps keys tops s g e inv hg.1 hg.2 fresh with
      ⟨s', hok, inv', hflag⟩ | ⟨herr, m, hm2, hmN, hcap⟩ | ⟨herr, hflag⟩
    · rw [hok]
      simp only
      -- the state after the line, as a pair with flag true
      have hpair : KV.LoaderArpa.probingStep N (keys, true) g = ((KV.LoaderArpa.probingStep N (keys, true) g).1, true) :=
        Prod.ext rfl hflag
      rw [hpair]
      have hnd' : g ∉ lines.map (·.1) ∧ (lines.map (·.1)).Nodup := List.nodup_cons.mp hnd
      have hsorted' := List.pairwise_cons.mp hsorted
      apply ih _ (tops1 N tops g) s' inv' (fun q hq => hlen q (List.mem_cons_of_mem _ hq)) hsorted'.2 hnd'.2
      · intro q hq
        have hqf := hfresh q (List.mem_cons_of_mem _ hq)
        have hqg : q.1 ≠ g := by
          intro h; apply hnd'.1; rw [← h]; exact List.mem_map_of_mem hq
        have hql := hsorted'.1 q hq
        constructor
        · intro hmem
          rcases step_mem N keys true g q.1 hmem with h | h | ⟨i, h2, hi, he⟩
          · exact hqf.1 h
          · exact hqg h
          · have : q.1.length = i := by rw [he, List.length_take]; omega
            simp only at hql
            omega
        · unfold tops1
          split
          · intro hmem
            rcases List.mem_cons.mp hmem with h | h
            · exact hqg h
            · exact hqf.2 h
          · exact hqf.2
      · intro t ht
        unfold tops1 at ht
        split at ht
        · rename_i hgN
          rcases List.mem_cons.mp ht with rfl | h
          · exact hgN
          · exact htops t h
        · exact htops t ht
      · unfold tops1
        simp only [List.filter_cons] at hcapN
        split
        · rename_i hgN
          simp only [hgN, beq_self_eq_true, ↓reduceIte, List.length_cons] at hcapN ⊢
          omega
        · rename_i hgN
          have : (g.length == N) = false := by simpa using hgN
          simp only [this, Bool.false_eq_true, ↓reduceIte] at hcapN
          exact hcapN
    · -- capacity reached at this line
      rw [herr]
      simp only
      by_cases hmeq : m = N
      · -- impossible: the highest order's table is large enough
        exfalso
        subst hmeq
        have hk : keysAt m (KV.LoaderArpa.probingStep m (keys, true) g).1 (tops1 m tops g) m = tops1 m tops g := by simp [keysAt]
        rw [hk] at hcap
        by_cases hgN : g.length = m
        · have h1 : cnt (tops1 m tops g) m = tops.length + 1 := by
            simp only [tops1, hgN, ↓reduceIte]
            rw [cnt_cons_same _ _ _ hgN, hcN]
          have h2 : 1 ≤ (List.filter (fun p => p.1.length == m) ((g, e) :: lines)).length := by
            simp [List.filter_cons, hgN]
          omega
        · have h1 : cnt (tops1 m tops g) m = tops.length := by
            simp only [tops1, hgN, ↓reduceIte]
            exact hcN
          omega
      · right; right
        refine ⟨by simp, m, hm2, by omega, ?_⟩
        have hk : keysAt N (KV.LoaderArpa.probingStep N (keys, true) g).1 (tops1 N tops g) m = (KV.LoaderArpa.probingStep N (keys, true) g).1 := by
          simp [keysAt, hmeq]
        rw [hk] at hcap
        obtain ⟨pre, hpre⟩ := fold_suffix N (lines.map (·.1)) (KV.LoaderArpa.probingStep N (keys, true) g)
        rw [hpre]
        have := cnt_mono_append pre (KV.LoaderArpa.probingStep N (keys, true) g).1 m
        omega
    · rw [herr]
      simp only
      right; left
      exact ⟨by simp, fold_false N _ _ hflag⟩

end KV.LoaderPB
