import Proofs.LoaderProbingFrame
/-! One line of `ProbingBuild`'s fold against one step of the loader model's probing run, and the fold over all lines. -/
namespace KV.LoaderPB
open KV.Arpa KV.ProbingBuild KV.Probing KV.ProbingLM

theorem cnt_mono_append (pre keys : List Key) (m : Nat) : cnt keys m ≤ cnt (pre ++ keys) m := by
  rw [cnt_append]; omega

/-- keys and tops after the loader model's step for the line `g` -/
def keys1 (N : Nat) (keys : List Key) (g : Key) : List Key := if g.length < N then g :: keys else keys
def tops1 (N : Nat) (tops : List Key) (g : Key) : List Key := if g.length = N then g :: tops else tops

theorem probingStep_eq (N : Nat) (keys : List Key) (b : Bool) (g : Key) :
    KV.LoaderArpa.probingStep N (keys, b) g =
      (KV.LoaderArpa.findLower g (g.length - 1) (keys1 N keys g),
       b && (decide (g.length < 3) || (KV.LoaderArpa.findLower g (g.length - 1) (keys1 N keys g)).contains g.tail)) := by
  unfold KV.LoaderArpa.probingStep keys1
  rfl

/-- **one line**: `addLine` succeeds with the invariant for the loader model's next key list and a passed context test, or raises
`probingSize` at an order whose key count (in the loader model's next state) reaches the capacity, or raises `format` exactly
when the loader model's context test fails -/
theorem addLine_sim (combine : Nat → Word → Nat) (inj : ∀ k1 k2 : Key, hashOf combine k1 = hashOf combine k2 → k1 = k2)
    (N : Nat) (caps : Nat → Nat) (keys tops : List Key) (s : St) (g : Key) (e : KV.Arpa.Entry)
    (inv : TabInv combine N caps keys tops s) (h2 : 2 ≤ g.length) (hN : g.length ≤ N)
    (fresh : g ∉ keysAt N keys tops g.length) :
    let st' := KV.LoaderArpa.probingStep N (keys, true) g
    (∃ s', addLine combine false N s g e = .ok s' ∧ TabInv combine N caps st'.1 (tops1 N tops g) s' ∧ st'.2 = true) ∨
    (addLine combine false N s g e = .error .probingSize ∧
      ∃ m, 2 ≤ m ∧ m ≤ N ∧ caps m ≤ cnt (keysAt N st'.1 (tops1 N tops g) m) m) ∨
    (addLine combine false N s g e = .error .format ∧ st'.2 = false) := by
  intro st'
  have hst : st' = KV.LoaderArpa.probingStep N (keys, true) g := rfl
  rw [probingStep_eq] at hst
  rw [addLine_phases]
  have hk1 : (if g.length = N then keys else g :: keys) = keys1 N keys g := by
    unfold keys1; by_cases h : g.length = N
    · simp [h]
    · have : g.length < N := by omega
      simp [h, this]
  have ht1 : (if g.length = N then g :: tops else tops) = tops1 N tops g := rfl
  obtain ⟨pre, hpre⟩ := findLower_suffix g (g.length - 1) (keys1 N keys g)
  have hst1 : st'.1 = pre ++ keys1 N keys g := by rw [hst]; exact hpre
  obtain ⟨hins_err, hins_ok⟩ := insert_sim combine inj N caps keys tops s g e inv h2 hN fresh
  by_cases hc : cnt (keysAt N keys tops g.length) g.length + 1 < caps g.length
  · obtain ⟨s1, h1, _, inv1⟩ := hins_ok hc
    rw [hk1, ht1] at inv1
    rw [h1]
    simp only [bind, Except.bind]
    have hfl := findLower_sim combine inj N caps (tops1 N tops g) g (g.length - 2) s1 [] (keys1 N keys g) (by omega) (by omega) inv1
    have hidx : g.length - 2 + 1 = g.length - 1 := by omega
    rw [hidx] at hfl
    rcases hfl with ⟨s2, b2, hok2, inv2, _⟩ | ⟨herr2, m, hm2, hmN, hcap⟩
    · rw [hok2]
      simp only
      obtain ⟨s3, hok3, same3⟩ := adjustLower_frame combine (lineW e).rest g g.length b2 s2 inv2.allInv
      rw [hok3]
      simp only
      have inv3 := inv2.of_sameT same3
      by_cases h3 : 3 ≤ g.length
      · obtain ⟨hfmt, hok⟩ := activate_sim combine N caps _ (tops1 N tops g) s3 g inv3 h3 hN
        by_cases hin : g.tail ∈ KV.LoaderArpa.findLower g (g.length - 1) (keys1 N keys g)
        · obtain ⟨s4, hok4⟩ := hok hin
          left
          refine ⟨s4, hok4, ?_, ?_⟩
          · -- activate only modifies a payload
            have hb : (g.length == 2) = false := by simp; omega
            have : ∃ r f, s4 = s3.modify r f := by
              simp only [KV.ProbingBuild.activate, hb, Bool.false_eq_true, if_false, bind, Except.bind] at hok4
              split at hok4
              · simp at hok4
              · split at hok4
                · simp at hok4
                · simp only [Except.ok.injEq] at hok4
                  exact ⟨_, _, hok4.symm⟩
            obtain ⟨r, f, rfl⟩ := this
            rw [hst]
            exact inv3.of_sameT (modify_sameT _ _ _)
          · rw [hst]
            simp [hin]
        · right; right
          refine ⟨hfmt.mpr hin, ?_⟩
          rw [hst]
          have : ¬ g.length < 3 := by omega
          simp [hin, this]
      · have hg2 : g.length = 2 := by omega
        left
        refine ⟨s3.modify (.uni (g.getD 1 0)) setExtension, by simp [KV.ProbingBuild.activate, hg2], ?_, ?_⟩
        · rw [hst]; exact inv3.of_sameT (modify_sameT _ _ _)
        · rw [hst]; simp [hg2]
    · right; left
      rw [herr2]
      refine ⟨rfl, m, hm2, by omega, ?_⟩
      have hmne : m ≠ N := by omega
      rw [hst]
      simpa [keysAt, hmne] using hcap
  · right; left
    have herr := hins_err.mpr (by omega)
    rw [herr]
    refine ⟨rfl, g.length, h2, hN, ?_⟩
    -- the new line itself is in the loader model's next state
    have hle : caps g.length ≤ cnt (keysAt N keys tops g.length) g.length + 1 := by omega
    by_cases hgN : g.length = N
    · have : keysAt N st'.1 (tops1 N tops g) g.length = g :: tops := by simp [keysAt, tops1, hgN]
      rw [this, cnt_cons_same _ _ _ rfl]
      have : keysAt N keys tops g.length = tops := by simp [keysAt, hgN]
      rw [this] at hle; exact hle
    · have hlt : g.length < N := by omega
      have : keysAt N st'.1 (tops1 N tops g) g.length = st'.1 := by simp [keysAt, hgN]
      rw [this, hst1]
      have hk : keys1 N keys g = g :: keys := by simp [keys1, hlt]
      rw [hk]
      have : keysAt N keys tops g.length = keys := by simp [keysAt, hgN]
      rw [this] at hle
      have := cnt_mono_append pre (g :: keys) g.length
      rw [cnt_cons_same _ _ _ rfl] at this
      omega

end KV.LoaderPB
