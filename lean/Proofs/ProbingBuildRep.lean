import Proofs.ProbingBuildClosed
import Proofs.ScoreClosed
/-! From the fold invariant to `Represents (Table.build a)` on suffix-closed models. -/
namespace KV.ProbingBuild
open KV.Arpa KV.Table KV.Score KV.ProbingLM

theorem mem_ngramLines (a : Arpa) (g : List Word) (e : Entry) (h : a.gram g = some e) (hl : 2 ≤ g.length) :
    (g, e) ∈ ngramLines a := by
  have := lookup_some_mem _ _ _ h
  simp [ngramLines, this, hl]

theorem ngramLines_real (a : Arpa) (p : Line) (hp : p ∈ ngramLines a) : a.gram p.1 ≠ none ∧ 2 ≤ p.1.length := by
  simp [ngramLines] at hp
  exact ⟨mem_lookup_ne_none _ p.1 p.2 hp.1, hp.2⟩

theorem endsIn_eq_extendsLeft {a : Arpa} (sc : SuffixClosed a) (g : List Word) (hg : g ≠ []) :
    endsIn (ngramLines a) g = extendsLeft a g := by
  apply Bool.eq_iff_iff.mpr
  rw [extendsLeft_iff]
  unfold endsIn
  rw [List.any_eq_true]
  constructor
  · rintro ⟨p, hp, h⟩
    simp only [Bool.and_eq_true, beq_iff_eq] at h
    refine ⟨p.1, (ngramLines_real a p hp).1, by omega, ?_⟩
    rw [← h.2]; exact List.take_prefix _ _
  · rintro ⟨p, hp, hl, ⟨ys, hys⟩⟩
    cases ys with
    | nil => simp at hys; subst hys; omega
    | cons y ys =>
      have h1 : a.gram ((g ++ [y]) ++ ys) ≠ none := by rw [← hys] at hp; simpa using hp
      have hr := closed_prefix_real sc ys (g ++ [y]) (by simp) h1
      obtain ⟨e, he⟩ := Option.ne_none_iff_exists'.mp hr
      have hgl : 1 ≤ g.length := by cases g with | nil => exact absurd rfl hg | cons _ _ => simp
      refine ⟨(g ++ [y], e), mem_ngramLines a _ e he (by simp; omega), ?_⟩
      simp

theorem startsWith_eq_isContext {a : Arpa} (sc : SuffixClosed a) (g : List Word) (hg : g ≠ []) :
    startsWith (ngramLines a) g = isContext a g := by
  apply Bool.eq_iff_iff.mpr
  unfold startsWith isContext
  rw [List.any_eq_true, List.any_eq_true]
  have hgl : 1 ≤ g.length := by cases g with | nil => exact absurd rfl hg | cons _ _ => simp
  constructor
  · rintro ⟨p, hp, h⟩
    simp only [Bool.and_eq_true, beq_iff_eq] at h
    have hmem : p ∈ a.entries := by simp [ngramLines] at hp; exact hp.1
    refine ⟨p, hmem, ?_⟩
    simp only [Bool.and_eq_true, decide_eq_true_eq, List.isPrefixOf_iff_prefix]
    refine ⟨by omega, ?_⟩
    rw [← h.2, List.drop_one]; exact List.prefix_refl _
  · rintro ⟨p, hp, h⟩
    simp only [Bool.and_eq_true, decide_eq_true_eq, List.isPrefixOf_iff_prefix] at h
    obtain ⟨hl, ⟨ys, hys⟩⟩ := h
    obtain ⟨pk, pe⟩ := p
    cases pk with
    | nil => simp at hl
    | cons x t =>
      simp only [List.tail_cons] at hys
      have hreal : a.gram (x :: t) ≠ none := mem_lookup_ne_none _ _ pe hp
      have h1 : a.gram ((x :: g) ++ ys) ≠ none := by rw [← hys] at hreal; simpa using hreal
      have hr := closed_prefix_real sc ys (x :: g) (by simp) h1
      obtain ⟨e, he⟩ := Option.ne_none_iff_exists'.mp hr
      refine ⟨(x :: g, e), mem_ngramLines a _ e he (by simp; omega), ?_⟩
      simp

end KV.ProbingBuild

namespace KV.ProbingBuild
open KV.Arpa KV.Table KV.Score KV.ProbingLM

/-- what a loaded, suffix-closed ARPA satisfies (all established by `KV.Arpa.parse` for lmplz-style files) -/
structure ArpaOK (a : Arpa) (nWords : Nat) (um : Rat) : Prop where
  wf : WellFormed a
  sc : SuffixClosed a
  nonpos : ∀ g e, a.gram g = some e → e.prob ≤ 0
  vocab : ∀ w, w < nWords ↔ a.gram [w] ≠ none
  unk : a.unkHallucinated = true → ∃ e, a.gram [0] = some e ∧ e.prob = um ∧ e.backoff = 0
  umle : um ≤ 0

theorem neg_abs_of_nonpos (q : Rat) (h : q ≤ 0) : -q.abs = q := by
  rw [Rat.abs_of_nonpos h]; simp

/-- a stored real n-gram of order ≥ 2 is found with the payload `Table.build` prescribes -/
theorem stored_of_sem {combine : Nat → Word → Nat} {a : Arpa} {nWords : Nat} {um : Rat} (ok : ArpaOK a nWords um)
    {m cap : Nat} {o : Ord} {M : Nat → Option Nat} (sem : OrdSem combine (ngramLines a) m cap o M)
    (g : List Word) (t : TEntry) (hl : g.length = m) (h2 : 2 ≤ m) (ht : (KV.Table.build a).lookup g = some t) :
    ∃ j, M (hashOf combine g) = some j ∧ wFound false (o.pay.getD j default) = toFound t := by
  have hreal := closed_lookup_real ok.sc (fun _ => false) g (by rw [ht]; simp)
  obtain ⟨e, he⟩ := Option.ne_none_iff_exists'.mp hreal
  have hmem : (g, e) ∈ linesOf (ngramLines a) m := by
    simp [linesOf, mem_ngramLines a g e he (by omega), hl]
  obtain ⟨j, hj, hje⟩ := List.mem_iff_getElem.mp hmem
  have hk := sem.key j hj
  have hp := sem.pay j hj
  rw [hje] at hk hp
  refine ⟨j, hk, ?_⟩
  rw [hp]
  have hgne : g ≠ [] := by intro h; subst h; simp at hl; omega
  cases g with
  | nil => exact absurd rfl hgne
  | cons w ctx =>
    simp only [KV.Table.build, he] at ht
    injection ht with ht
    subst ht
    have hne0 : ((w :: ctx) == [0]) = false := by
      cases ctx with
      | nil => simp at hl; omega
      | cons _ _ => simp
    simp only [wFound, toFound, expW, lineW, endsIn_eq_extendsLeft ok.sc _ hgne, startsWith_eq_isContext ok.sc _ hgne,
      neg_abs_of_nonpos _ (ok.nonpos _ e he), hne0, Bool.and_false, Bool.or_false, Bool.true_and, Bool.false_eq_true, if_false]
    simp
    by_cases hb : e.backoff = 0 <;> simp [hb]

theorem only_of_sem {combine : Nat → Word → Nat} {a : Arpa} {m cap : Nat} {o : Ord} {M : Nat → Option Nat}
    (sem : OrdSem combine (ngramLines a) m cap o M) (k v : Nat) (h : M k = some v) :
    ∃ g, g.length = m ∧ hashOf combine g = k ∧ (KV.Table.build a).lookup g ≠ none := by
  obtain ⟨hj, hk⟩ := sem.only k v h
  have hmem := List.getElem_mem hj
  have hlen := linesOf_len _ _ _ hmem
  have hin : (linesOf (ngramLines a) m)[v] ∈ ngramLines a := by
    exact (List.mem_filter.mp hmem).1
  obtain ⟨hreal, h2⟩ := ngramLines_real a _ hin
  refine ⟨_, hlen, hk.symm, ?_⟩
  rw [build_lookup_ne_none]
  exact ⟨by intro hnil; rw [hnil] at h2; simp at h2, Or.inl hreal⟩

end KV.ProbingBuild

namespace KV.ProbingBuild
open KV.Arpa KV.Table KV.Score KV.ProbingLM

def realT (a : Arpa) (g : List Word) (e : Entry) : TEntry :=
  ⟨e.prob, e.backoff, extendsLeft a g, e.backoff != 0 || isContext a g || (a.unkHallucinated && g == [0]), false⟩

theorem initUni_getD_lt (a : Arpa) (nWords w : Nat) (h : w < nWords) (e : Entry) (he : a.gram [w] = some e) :
    (initUni a nWords).getD w default =
      if w == 0 && a.unkHallucinated then { mag := 0, neg := true, backoff := 0, xr := true, rest := 0 }
      else { mag := e.prob.abs, neg := true, backoff := e.backoff, xr := decide (e.backoff ≠ 0),
             rest := if w < (a.entries.filter fun p => p.1.length == 1).length - (if a.unkHallucinated then 1 else 0)
                     then -e.prob.abs else 0 } := by
  unfold initUni
  rw [List.getD_eq_getElem?_getD, List.getElem?_map, List.getElem?_range h]
  simp only [Option.map_some, Option.getD_some, he]

theorem initUni_getD_ge (a : Arpa) (nWords w : Nat) (h : ¬ w < nWords) : (initUni a nWords).getD w default = default := by
  unfold initUni
  rw [List.getD_eq_getElem?_getD, List.getElem?_map]
  have : (List.range nWords)[w]? = none := by simp; omega
  rw [this]; rfl

theorem uni_of_sem {combine : Nat → Word → Nat} {a : Arpa} {nWords : Nat} {um : Rat} (ok : ArpaOK a nWords um) (s : St)
    (sem : UniSem (initUni a nWords) (ngramLines a) s.uni) (w : Word) :
    wFound false ((fixUnk a um s).uni.getD w default) = ((tableSearch (KV.Table.build a)).lookupUnigram w).1 := by
  have hval := sem.val w
  have hE1 := endsIn_eq_extendsLeft ok.sc [w] (by simp)
  have hE2 := startsWith_eq_isContext ok.sc [w] (by simp)
  have hlen : s.uni.length = nWords := by rw [sem.len]; simp [initUni]
  cases hg : a.gram [w] with
  | none =>
    have hw : ¬ w < nWords := fun h => (ok.vocab w).mp h hg
    have hxl : extendsLeft a [w] = false := by
      cases hx : extendsLeft a [w] with
      | false => rfl
      | true =>
        obtain ⟨p, hp, _, ⟨ys, hys⟩⟩ := (extendsLeft_iff _ _).mp hx
        rw [← hys] at hp
        exact absurd hg (closed_prefix_real ok.sc ys [w] (by simp) hp)
    have hic : isContext a [w] = false := by
      cases hx : isContext a [w] with
      | false => rfl
      | true =>
        rw [← hE2] at hx
        unfold startsWith at hx
        rw [List.any_eq_true] at hx
        obtain ⟨p, hp, h⟩ := hx
        simp only [Bool.and_eq_true, beq_iff_eq] at h
        obtain ⟨hreal, _⟩ := ngramLines_real a p hp
        obtain ⟨pk, pe⟩ := p
        cases pk with
        | nil => simp at h
        | cons x t =>
          simp only [List.drop_one, List.tail_cons] at h
          have := ok.wf.ctx_present x t (by rw [h.2]; simp) hreal
          rw [h.2] at this
          exact absurd hg this
    have hw0 : ¬ (w = 0 ∧ a.unkHallucinated = true) := by
      intro ⟨h0, hu⟩
      obtain ⟨e, he, _⟩ := ok.unk hu
      subst h0; rw [hg] at he; cases he
    have hfix : (fixUnk a um s).uni.getD w default = s.uni.getD w default := by
      unfold fixUnk
      by_cases hu : a.unkHallucinated = true
      · simp only [hu, if_true, St.modify, getD_set]
        have : ¬ (w = 0 ∧ 0 < s.uni.length) := fun ⟨h0, _⟩ => hw0 ⟨h0, hu⟩
        simp [this]
      · simp [hu]
    rw [hfix, hval, initUni_getD_ge a nWords w hw]
    have hl : (KV.Table.build a).lookup [w] = none := by simp [KV.Table.build, hg, hxl]
    simp only [tableSearch, hl, expW, hE1, hE2, hxl, hic, wFound]
    simp [default]
  | some e =>
    have hw : w < nWords := (ok.vocab w).mpr (by rw [hg]; simp)
    have hl : (KV.Table.build a).lookup [w] = some (realT a [w] e) := by
      simp [KV.Table.build, hg, realT]
    simp only [tableSearch, hl, toFound, realT]
    have hnp := ok.nonpos _ e hg
    by_cases hu0 : w = 0 ∧ a.unkHallucinated = true
    · obtain ⟨h0, hu⟩ := hu0
      subst h0
      obtain ⟨e', he', hp', hb'⟩ := ok.unk hu
      rw [hg] at he'; cases he'
      have hfix : (fixUnk a um s).uni.getD 0 default =
          { (s.uni.getD 0 default) with backoff := 0, xr := true, mag := um.abs, neg := (s.uni.getD 0 default).neg } := by
        unfold fixUnk
        simp only [hu, if_true, St.modify, getD_set]
        have : (0 = 0 ∧ 0 < s.uni.length) := ⟨rfl, by rw [hlen]; exact hw⟩
        simp [this]
      rw [hfix, hval, initUni_getD_lt a nWords 0 hw e hg]
      simp only [hu, beq_self_eq_true, Bool.and_self, if_true, wFound, expW, hE1, hE2, hp', hb',
        neg_abs_of_nonpos _ ok.umle, Bool.true_and, Bool.true_or, Bool.false_eq_true, if_false]
      simp
    · have hfix : (fixUnk a um s).uni.getD w default = s.uni.getD w default := by
        unfold fixUnk
        by_cases hu : a.unkHallucinated = true
        · simp only [hu, if_true, St.modify, getD_set]
          have : ¬ (w = 0 ∧ 0 < s.uni.length) := fun ⟨h0, _⟩ => hu0 ⟨h0, hu⟩
          simp [this]
        · simp [hu]
      rw [hfix, hval, initUni_getD_lt a nWords w hw e hg]
      have hcond : (w == 0 && a.unkHallucinated) = false := by
        cases hw0 : (w == 0) <;> cases hu : a.unkHallucinated <;> simp_all
      have hcond2 : (a.unkHallucinated && ([w] == [0])) = false := by
        cases hu : a.unkHallucinated <;> simp_all
      simp only [hcond, Bool.false_eq_true, if_false, wFound, expW, hE1, hE2, hcond2, Bool.or_false,
        neg_abs_of_nonpos _ hnp, Bool.true_and]
      simp
      by_cases hb : e.backoff = 0 <;> simp [hb]

end KV.ProbingBuild

namespace KV.ProbingBuild
open KV.Arpa KV.Table KV.Score KV.ProbingLM

theorem fixUnk_mid (a : Arpa) (um : Rat) (s : St) : (fixUnk a um s).mid = s.mid := by
  unfold fixUnk; split <;> rfl
theorem fixUnk_longest (a : Arpa) (um : Rat) (s : St) : (fixUnk a um s).longest = s.longest := by
  unfold fixUnk; split <;> rfl

/-- **the fold invariant implies `Represents`** on suffix-closed models -/
theorem represents_of_invC (combine : Nat → Word → Nat) (a : Arpa) (nWords : Nat) (um : Rat) (ok : ArpaOK a nWords um)
    (caps : Nat → Nat) (s : St) (inv : InvC combine (initUni a nWords) a.order caps (ngramLines a) s) :
    ∃ Mmid Mlong, Represents combine (toPLM false a.order (fixUnk a um s)) (KV.Table.build a) Mmid Mlong := by
  have hN := ok.wf.order_ge
  have hmid : ∀ om2, om2 + 2 < a.order → tbl a.order s (om2 + 2) = s.mid.getD om2 default := by
    intro om2 h
    unfold tbl
    have : ¬ om2 + 2 = a.order := by omega
    simp [this]
  have hlong : tbl a.order s a.order = s.longest := by unfold tbl; simp
  have hex : ∀ om2, om2 + 2 < a.order →
      ∃ M, OrdSem combine (ngramLines a) (om2 + 2) (caps (om2 + 2)) (s.mid.getD om2 default) M := by
    intro om2 h
    obtain ⟨M, sem⟩ := inv.tabs (om2 + 2) (by omega) (by omega)
    rw [hmid om2 h] at sem
    exact ⟨M, sem⟩
  let Mmid : Nat → Nat → Option Nat := fun om2 =>
    if h : om2 + 2 < a.order then Classical.choose (hex om2 h) else fun _ => none
  have hMmid : ∀ om2 (h : om2 + 2 < a.order), OrdSem combine (ngramLines a) (om2 + 2) (caps (om2 + 2)) (s.mid.getD om2 default) (Mmid om2) := by
    intro om2 h
    have := Classical.choose_spec (hex om2 h)
    simp only [Mmid, h, dif_pos]
    exact this
  obtain ⟨Mlong, semL⟩ := inv.tabs a.order hN (Nat.le_refl _)
  rw [hlong] at semL
  refine ⟨Mmid, Mlong, ⟨rfl, ?_, ?_, ?_, ?_, ?_, ?_, ?_⟩⟩
  · intro w
    exact uni_of_sem (combine := combine) ok s inv.uni w
  · intro om2
    show KV.Probing.Inv id ((fixUnk a um s).mid.getD om2 default).t ∧ KV.Probing.Abs ((fixUnk a um s).mid.getD om2 default).t (Mmid om2)
    rw [fixUnk_mid]
    by_cases h : om2 + 2 < a.order
    · exact ⟨(hMmid om2 h).inv.inv, (hMmid om2 h).inv.abs⟩
    · have hge : s.mid.length ≤ om2 := by rw [inv.midlen]; omega
      have hd : s.mid.getD om2 default = default := by
        rw [List.getD_eq_getElem?_getD, List.getElem?_eq_none hge]; rfl
      rw [hd]
      simp only [Mmid, h, dif_neg, not_false_eq_true]
      exact ⟨KV.Probing.Inv_empty id 1 (by decide), KV.Probing.Abs_empty 1⟩
  · show KV.Probing.Inv id (fixUnk a um s).longest.t ∧ KV.Probing.Abs (fixUnk a um s).longest.t Mlong
    rw [fixUnk_longest]
    exact ⟨semL.inv.inv, semL.inv.abs⟩
  · intro om2 g t hl hlt ht
    have hlt' : om2 + 2 < a.order := hlt
    obtain ⟨j, hj, hw⟩ := stored_of_sem ok (hMmid om2 hlt') g t hl (by omega) ht
    refine ⟨j, hj, ?_⟩
    show wFound false (((fixUnk a um s).mid.getD om2 default).pay.getD j default) = toFound t
    rw [fixUnk_mid]; exact hw
  · intro om2 k v h
    by_cases hlt : om2 + 2 < a.order
    · exact only_of_sem (hMmid om2 hlt) k v h
    · simp only [Mmid, hlt, dif_neg, not_false_eq_true] at h
      cases h
  · intro g t hl ht
    have hl' : g.length = a.order := hl
    obtain ⟨j, hj, hw⟩ := stored_of_sem ok semL g t hl' hN ht
    refine ⟨j, hj, ?_⟩
    show -((fixUnk a um s).longest.pay.getD j default).mag = t.prob
    rw [fixUnk_longest]
    have := congrArg Found.prob hw
    simpa [wFound, toFound] using this
  · intro k v h
    exact only_of_sem semL k v h

end KV.ProbingBuild

namespace KV.ProbingBuild
open KV.Arpa KV.Table KV.Score KV.ProbingLM

theorem initUni_ok (a : Arpa) (nWords : Nat) : UniOK (initUni a nWords) := by
  intro w hb
  by_cases h : w < nWords
  · unfold initUni at hb ⊢
    rw [List.getD_eq_getElem?_getD, List.getElem?_map, List.getElem?_range h] at hb ⊢
    simp only [Option.map_some, Option.getD_some] at hb ⊢
    cases hg : a.gram [w] with
    | none => simp [hg] at hb
    | some e =>
      simp only [hg] at hb ⊢
      by_cases hc : (w == 0 && a.unkHallucinated) = true
      · simp [hc] at hb
      · simp only [hc, Bool.false_eq_true, if_false] at hb ⊢
        simpa using hb
  · rw [initUni_getD_ge a nWords w h] at hb
    exact absurd rfl hb

/-- **`probing_build_represents_closed`** -/
theorem build_represents_closed (combine : Nat → Word → Nat) (a : Arpa) (nWords : Nat) (buckets : List Nat) (um : Rat)
    (ok : ArpaOK a nWords um)
    (hsorted : (ngramLines a).Pairwise (fun p q => p.1.length ≤ q.1.length))
    (hnd : ((ngramLines a).map (fun p => hashOf combine p.1)).Nodup)
    (hcaps : ∀ m, (linesOf (ngramLines a) m).length < capOf buckets m) :
    ∃ s Mmid Mlong, build combine false a nWords buckets um = .ok s ∧
      Represents combine (toPLM false a.order s) (KV.Table.build a) Mmid Mlong := by
  have hreal := ngramLines_real a
  have hword : ∀ x, a.gram [x] ≠ none → x < nWords := fun x h => (ok.vocab x).mpr h
  obtain ⟨s, hb, inv⟩ := build_closed_inv combine a nWords buckets um ok.wf.order_ge (initUni_ok a nWords) hsorted hnd
    (fun p hp => ok.wf.len_le _ (hreal p hp).1) hcaps
    (by
      intro p hp h2
      obtain ⟨hr, _⟩ := hreal p hp
      obtain ⟨pk, pe⟩ := p
      match pk, h2, hr with
      | [x, y], _, hr =>
        refine ⟨x, y, rfl, hword x ?_, hword y ?_⟩
        · have := ok.sc [x, y] hr (by simp)
          simpa using this
        · exact ok.wf.ctx_present x [y] (by simp) hr)
    (by
      intro p hp h3
      obtain ⟨hr, _⟩ := hreal p hp
      constructor
      · have h1 := ok.sc p.1 hr (by omega)
        obtain ⟨e, he⟩ := Option.ne_none_iff_exists'.mp h1
        refine ⟨(p.1.dropLast, e), mem_ngramLines a _ e he (by simp; omega), ?_⟩
        simp [List.dropLast_eq_take]
      · obtain ⟨pk, pe⟩ := p
        cases pk with
        | nil => simp at h3
        | cons x t =>
          have h1 := ok.wf.ctx_present x t (by intro h; subst h; simp at h3) hr
          obtain ⟨e, he⟩ := Option.ne_none_iff_exists'.mp h1
          refine ⟨(t, e), mem_ngramLines a _ e he (by simp at h3; omega), ?_⟩
          simp)
  obtain ⟨Mmid, Mlong, rep⟩ := represents_of_invC combine a nWords um ok (capOf buckets) s inv
  exact ⟨_, Mmid, Mlong, hb, rep⟩

end KV.ProbingBuild
