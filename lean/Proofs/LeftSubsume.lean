import Proofs.LeftLoop
import Proofs.TableBuild
/-! `Subsume` (`lm/partial.hh:132-158`, `between_length = 0`): joining two finished fragments gives the canonical
chart state of the concatenation, and the returned adjustment is exactly whole − parts. -/
namespace KV.Left
open KV.Arpa KV.Table KV.State KV.Score

variable {a : Arpa} {T : Table}

theorem doneTerm_nil (R : Ptr → Rat) (F h : List Word) (i : Nat) (hi : i < F.length) :
    doneTerm a R F [] h i = score a (gm1 F i ++ h) F[i] - R (pre F i) := by
  simp only [doneTerm, List.append_nil]
  rw [getD_getElem _ _ hi]

theorem dsum_done_remaining (R : Ptr → Rat) (F h : List Word) (L : Nat) (hL : L ≤ F.length) :
    ∀ (n i : Nat), n = L - i → i ≤ L →
      dsum (doneTerm a R F [] h) i (L - i) + remaining a R F L h L = remaining a R F L h i := by
  intro n
  induction n with
  | zero =>
    intro i hn hi
    have : i = L := by omega
    subst this
    simp [dsum]; grind
  | succ n ih =>
    intro i hn hi
    have hiL : i < L := by omega
    have hsplit : L - i = (L - (i+1)) + 1 := by omega
    rw [hsplit]
    simp only [dsum]
    rw [remaining_step R F L h i hiL hL, doneTerm_nil R F h i (by omega), ← ih (i+1) (by omega) (by omega)]
    grind

theorem dsum_open_hSum (R : Ptr → Rat) (F h : List Word) :
    ∀ Lw, dsum (openTerm R F [] h) 0 Lw = hSum R F h Lw - restSum R F Lw := by
  have key : ∀ (n i : Nat), dsum (openTerm R F [] h) i n = (hSum R F h (i+n) - restSum R F (i+n)) - (hSum R F h i - restSum R F i) := by
    intro n
    induction n with
    | zero => intro i; simp [dsum]; grind
    | succ n ih =>
      intro i
      simp only [dsum]
      rw [ih (i+1)]
      have e : i + 1 + n = i + (n + 1) := by omega
      rw [e]
      simp only [hSum, restSum, openTerm, List.append_nil]
      grind
  intro Lw
  have := key Lw 0
  simp only [Nat.zero_add, hSum, restSum] at this
  rw [this]; grind

/-- closure of the concatenation from the witness produced by the write loop -/
theorem closed_of_cn (H : Hyp a T) (ws1 ws2 : List Word) (Lp : Nat) (hLp : Lp ≤ ws2.length)
    (hcn : CN T ws2 [] ws1.reverse Lp) : Closed T (ws1 ++ ws2) (ws1.length + Lp) := by
  have hrev : (ws1 ++ ws2).reverse = ws2.reverse ++ ws1.reverse := List.reverse_append
  rcases hcn with ⟨h1, h2⟩ | ⟨h1, h2⟩
  · left
    refine ⟨by simp; omega, ?_⟩
    rw [pre_concat ws1 ws2 Lp h1]
    simpa using h2
  · simp only [List.append_nil] at h2
    by_cases hlt : Lp < ws2.length
    · left
      refine ⟨by simp; omega, ?_⟩
      intro x
      rw [pre_concat ws1 ws2 Lp hlt, pre_eq_cons ws2 Lp hlt]
      have hg : gm1 ws2 Lp = pre ws2 (Lp - 1) := by
        have : Lp = (Lp - 1) + 1 := by omega
        rw [this, gm1_succ ws2 (Lp-1) (by omega)]; simp
      rw [hg]
      have hne : pre ws2 (Lp-1) ++ ws1.reverse ≠ [] := by
        rw [pre_eq_cons ws2 (Lp-1) (by omega)]; simp
      have hnone : T.lookup (ws2[Lp] :: (pre ws2 (Lp-1) ++ ws1.reverse)) = none := by
        apply Classical.byContradiction; intro hc
        have := H.marks _ ws2[Lp] hne hc
        rw [h2] at this; cases this
      have := lookup_none_extend H.ok [x] _ (by simp) hnone
      simpa using this
    · right; left
      have hLpe : Lp = ws2.length := by omega
      refine ⟨by rw [List.length_append, hLpe], by omega, (ws1 ++ ws2).length, by rw [List.length_append]; omega, Nat.le_refl _, ?_⟩
      rw [List.take_of_length_le (by simp; omega), hrev]
      have : pre ws2 (Lp - 1) = ws2.reverse := by
        unfold pre
        rw [List.take_of_length_le (by omega)]
      rw [← this]; exact h2

/-- a finished-fragment description from its pieces (first fragment open) -/
theorem fragC_build (R : Ptr → Rat) {ws1 ws2 : List Word} {L1 L2 : Nat} {c1 c2 : Chart} {p1 p2 : Rat}
    (G1 : FragC a T R ws1 L1 c1 p1) (hopen : c1.left.full = false) (G2 : FragC a T R ws2 L2 c2 p2)
    (Lp : Nat) (c' : Chart) (p : Rat) (hLp : Lp ≤ L2) (hb : Lp + ws1.length ≤ a.order - 1)
    (hsf : StateFor a (ws2.reverse ++ ws1.reverse) c'.right) (hnm : NormS c'.right)
    (hptr : c'.left.pointers = c1.left.pointers ++ (List.range Lp).map (fun i' => pre ws2 i' ++ ws1.reverse))
    (hxl : ∀ i', i' < Lp → T.xl (pre ws2 i' ++ ws1.reverse) = true)
    (hprob : p = p1 + p2 + hSum R ws2 ws1.reverse Lp - restSum R ws2 Lp + remaining a R ws2 L2 ws1.reverse Lp)
    (hop : c'.left.full = false → Lp = ws2.length ∧ c'.right.length = ws2.length + ws1.length)
    (hcl : c'.left.full = true → Closed T (ws1 ++ ws2) (ws1.length + Lp)) :
    FragC a T R (ws1 ++ ws2) (ws1.length + Lp) c' p := by
  obtain ⟨hL1, hrl⟩ := G1.open_ hopen
  have hL2 := G2.L_le
  have hp1 : p1 = restSum R ws1 ws1.length := by
    rw [G1.prob_eq, hL1, List.drop_eq_nil_of_le (Nat.le_refl _)]; simp only [specSeq]; grind
  refine ⟨by rw [List.reverse_append]; exact hsf, hnm, by simp; omega, by omega, ?_, ?_, ?_, ?_, hcl⟩
  · rw [hptr, G1.ptrs, hL1]; exact ptrs_concat ws1 ws2 Lp (by omega)
  · intro i hi
    by_cases hlt : i < ws1.length
    · rw [pre_append ws1 ws2 hlt]; exact G1.ptr_xl i (by omega)
    · obtain ⟨i', rfl⟩ : ∃ i', i = ws1.length + i' := ⟨i - ws1.length, by omega⟩
      rw [pre_concat ws1 ws2 i' (by omega)]; exact hxl i' (by omega)
  · rw [hprob]; exact X_eq R ws1 ws2 L2 Lp hLp hL2 p1 p2 hp1 G2.prob_eq
  · intro ho
    obtain ⟨h1, h2⟩ := hop ho
    exact ⟨by simp; omega, by rw [h2]; simp; omega⟩

/-- the loop state after all pointers, as a `StepOut` for `nt_tail` -/
theorem invA_of_invL {ws2 h : List Word} {s0 : State} {L2 nu0 : Nat} {v : ExtendReturn} (hs0 : s0.length = nu0)
    (I : InvL a ws2 [] h nu0 L2 v) (rs : RS) (hr : rs.out.right = s0) :
    InvA a ws2 h s0 L2 { rs := rs, nextUse := v.nextUse, back := v.backIn, exit := false } := by
  refine ⟨hr, by rw [hs0]; exact I.nu_le, by have := I.hN; simp at this; exact this, ?_, ?_, rfl⟩
  · have := I.back; simpa using this
  · have := I.dead; simpa using this

/-- the right state `Subsume` / `RevealBefore` assemble when the second left state is not full -/
def mergedState (c2 : Chart) (add : List Word) (v : ExtendReturn) : State :=
  { length := c2.right.length + v.nextUse,
    words := c2.right.words.take c2.right.length ++ add.take v.nextUse,
    backoff := c2.right.backoff.take c2.right.length ++ v.backIn.take v.nextUse }

/-- **Subsume** (`between_length = 0`): the new `first_left` and `second_right` are the chart state of the
concatenation and `first + second + adjustment` is its score. -/
theorem subsume_frag_aux (H : Hyp a T) (R : Ptr → Rat) {ws1 ws2 : List Word} {L1 L2 : Nat} {c1 c2 : Chart} {p1 p2 : Rat}
    (G1 : FragC a T R ws1 L1 c1 p1) (G2 : FragC a T R ws2 L2 c2 p2) :
    ∃ L', FragC a T R (ws1 ++ ws2) L'
      { left := (subsume T R c1.left c1.right c2.left c2.right 0).2.1, right := (subsume T R c1.left c1.right c2.left c2.right 0).2.2 }
      (p1 + p2 + (subsume T R c1.left c1.right c2.left c2.right 0).1) := by
  have hord : T.order = a.order := H.tf.order_eq
  have hN2 := H.wf.order_ge
  have hL2 := G2.L_le
  have sf := G1.right_for
  have nm := G1.right_norm
  let h := ws1.reverse
  let n1 := c1.right.length
  have hn1h : n1 ≤ h.length := sf.len_le_h
  have hadd : c1.right.words.take c1.right.length = h.take n1 := by
    rw [sf.words]
  have haddl : (h.take n1).length = n1 := by rw [List.length_take]; omega
  have C : LoopCtx a T ws2 [] h L2 n1 := ⟨G2.L_le, fun i hi => by simpa using G2.ptr_xl i hi, by have := G2.L_lt; simpa using this, hn1h⟩
  have hptrs2 : c2.left.pointers = ((List.range L2).map (fun i => pre ws2 i ++ [])).drop 0 := by
    rw [G2.ptrs]; simp
  -- the initial loop state
  let v0 : ExtendReturn := { nextUse := n1, backIn := (c1.right.backoff.take c1.right.length).take n1 }
  have I0 : InvL a ws2 [] h n1 0 v0 := by
    refine ⟨Nat.le_refl _, ?_, ?_, ?_⟩
    · have := sf.len_le_N; show 0 + 0 + 1 + n1 ≤ a.order; omega
    · show ((c1.right.backoff.take c1.right.length).take n1).take n1 = _
      rw [List.take_take, Nat.min_self, List.take_take, Nat.min_self, sf.backoff]
      simp only [gm1, List.take_zero, List.reverse_nil, List.nil_append, List.append_nil]
      rfl
    · intro k hk1 hk2
      simpa [gm1] using sf.dead k hk1 hk2
  have hv0 : ∀ w, extendLoop T R 0 (h.take n1) (c1.right.backoff.take c1.right.length) c2.left.pointers w =
      (let r1 := if w then extendLoopWrite T R 0 (h.take n1) n1 c2.left.pointers 0 v0 else (v0, c2.left.pointers, 0)
       let r2 := extendLoopUse T R 0 (h.take n1) r1.2.1 r1.2.2 r1.1
       { r2.1 with adjust := r2.1.adjust + unRest T R r2.2.1 (r2.2.2 + 0 + 1) }) := by
    intro w
    unfold extendLoop
    simp only [haddl]
    rfl
  -- common tail: the code after ExtendLoop, through `nt_tail`
  have tail : ∀ (v : ExtendReturn), InvL a ws2 [] h n1 L2 v →
      (c2.left.full = true → (v.backIn.take v.nextUse).sum = remaining a R ws2 L2 h L2 ∧
          StateFor a (ws2.reverse ++ h) c2.right) ∧
      (c2.left.full = false →
          StateFor a (ws2.reverse ++ h) (mergedState c2 (h.take n1) v) ∧
          NormS (mergedState c2 (h.take n1) v) ∧
          remaining a R ws2 L2 h L2 = 0 ∧ c2.right.length = ws2.length ∧ L2 = ws2.length) := by
    intro v I
    let st' : StepOut := { rs := { out := { left := c1.left, right := c1.right }, leftDone := false, prob := 0 },
                           nextUse := v.nextUse, back := v.backIn, exit := false }
    have IA : InvA a ws2 h c1.right L2 st' := invA_of_invL rfl I _ rfl
    obtain ⟨_, _, t3, t4, t5, t6⟩ := nt_tail H R G2 sf nm IA
    have hlen2 : c2.left.length = L2 := by simp [LeftSt.length, G2.ptrs]
    constructor
    · intro hf
      have hr : (ntTail c2 st').out.right = c2.right := by simp [ntTail, hf, st']
      have hp : (ntTail c2 st').prob = 0 + (v.backIn.take v.nextUse).sum := by simp [ntTail, hf, st']
      rw [hr] at t3
      rw [hp] at t5
      refine ⟨?_, t3⟩
      have : (0 : Rat) + (v.backIn.take v.nextUse).sum = 0 + remaining a R ws2 L2 h L2 := t5
      grind
    · intro hf
      obtain ⟨h1, h2⟩ := G2.open_ hf
      have hlt : ¬ (c2.right.length < c2.left.length) := by rw [hlen2]; omega
      have hw : c1.right.words.take v.nextUse = (h.take n1).take v.nextUse := by
        rw [← hadd, List.take_take, Nat.min_eq_left I.nu_le]
      have hr : (ntTail c2 st').out.right = mergedState c2 (h.take n1) v := by
        simp only [ntTail, hf, hlt, st', mergedState, Bool.false_eq_true, if_false, hw]
      have hp : (ntTail c2 st').prob = 0 := by simp [ntTail, hf, hlt, st']
      rw [hr] at t3 t4
      rw [hp] at t5
      have hrem : remaining a R ws2 L2 h L2 = 0 := by
        have : (0 : Rat) = 0 + remaining a R ws2 L2 h L2 := t5
        grind
      exact ⟨t3, t4, hrem, h2, h1⟩
  unfold subsume
  dsimp only
  rw [hadd]
  by_cases hfull1 : c1.left.full = true
  · -- the first fragment's left state is complete: its left state is the result's
    have hw : (!c1.left.full) = false := by simp [hfull1]
    rw [hw, hv0 false]
    simp only [Bool.false_eq_true, if_false]
    obtain ⟨_, u1, u2, u3, u4⟩ := useLoop H R C 0 c2.left.pointers 0 0 v0 hptrs2 (Nat.zero_le _) (by simp) I0
    simp only [Nat.sub_zero] at u4
    generalize extendLoopUse T R 0 (h.take n1) c2.left.pointers 0 v0 = r2 at u1 u2 u3 u4
    obtain ⟨tf1, tf2⟩ := tail r2.1 u3
    have hrem0 := dsum_done_remaining (a := a) R ws2 h L2 hL2 (L2 - 0) 0 rfl (Nat.zero_le _)
    simp only [Nat.sub_zero] at hrem0
    have hp0 : p2 + remaining a R ws2 L2 h 0 = specSeq a h ws2 := by
      rw [G2.prob_eq]; unfold remaining
      simp only [gm1, List.take_zero, List.reverse_nil, List.nil_append, List.drop_zero, restSum]
      grind
    have hv0adj : v0.adjust = 0 := rfl
    -- the resulting description: same left state, exact history
    have hclosed := (G1.closed hfull1).append H ws2
    have hprobC : ∀ x : Rat, x = specSeq a h ws2 → p1 + x = restSum R (ws1 ++ ws2) L1 +
        specSeq a ((ws1 ++ ws2).take L1).reverse ((ws1 ++ ws2).drop L1) := by
      intro x hx
      rw [hx, G1.prob_eq, restSum_append R ws1 ws2 L1 G1.L_le, List.take_append_of_le_length G1.L_le,
        List.drop_append_of_le_length G1.L_le, specSeq_append]
      have : (ws1.drop L1).reverse ++ (ws1.take L1).reverse = ws1.reverse := by
        rw [← List.reverse_append, List.take_append_drop]
      rw [this]; grind
    have hptrs_old : c1.left.pointers = (List.range L1).map (pre (ws1 ++ ws2)) := by
      rw [G1.ptrs]
      apply List.map_congr_left
      intro i hi
      have : i < L1 := by simpa using hi
      rw [pre_append ws1 ws2 (by have := G1.L_le; omega)]
    have hxl_old : ∀ i, i < L1 → T.xl (pre (ws1 ++ ws2) i) = true := by
      intro i hi; rw [pre_append ws1 ws2 (by have := G1.L_le; omega)]; exact G1.ptr_xl i hi
    by_cases hf2 : c2.left.full = true
    · simp only [hf2, if_true, hfull1]
      obtain ⟨e1, e2⟩ := tf1 hf2
      refine ⟨L1, ⟨by rw [List.reverse_append]; exact e2, G2.right_norm, by simp; have := G1.L_le; omega, G1.L_lt, hptrs_old,
        hxl_old, ?_, (fun hc => by rw [hfull1] at hc; cases hc), fun _ => hclosed⟩⟩
      rw [Rat.add_assoc]
      apply hprobC
      rw [u4, hv0adj, e1, ← hp0, ← hrem0]; grind
    · have hf2' : c2.left.full = false := by simpa using hf2
      simp only [hf2', Bool.false_eq_true, if_false, hfull1, if_true]
      obtain ⟨e1, e2, e3, _, _⟩ := tf2 hf2'
      refine ⟨L1, ⟨by rw [List.reverse_append]; exact e1, e2, by simp; have := G1.L_le; omega, G1.L_lt, hptrs_old,
        hxl_old, ?_, (fun hc => by rw [hfull1] at hc; cases hc), fun _ => hclosed⟩⟩
      rw [Rat.add_assoc]
      apply hprobC
      rw [u4, hv0adj, ← hp0, ← hrem0, e3]; grind
  · -- the first fragment is open: pointers are appended to its left state
    have hfull1' : c1.left.full = false := by simpa using hfull1
    have hw : (!c1.left.full) = true := by simp [hfull1']
    obtain ⟨hL1, hrl⟩ := G1.open_ hfull1'
    have hall : n1 = h.length := by show c1.right.length = ws1.reverse.length; rw [hrl]; simp
    rw [hw, hv0 true]
    simp only [if_true]
    obtain ⟨Lw, t, w1, w2, w3, w4, w5, w6, w7, w8, w9, w10, w11, w12⟩ :=
      writeLoop H R C 0 hall [] 0 c2.left.pointers 0 0 v0 hptrs2 (Nat.le_refl _) (Nat.zero_le _) (by simp) I0 rfl rfl (by show ([] : List Ptr) = _; simp)
        (fun i' _ hi' => by omega)
    generalize extendLoopWrite T R 0 (h.take n1) n1 c2.left.pointers 0 v0 = r1 at w6 w8 w9 w10 w11 w12
    obtain ⟨u0, u1, u2, u3, u4⟩ := useLoop H R C 0 r1.2.1 r1.2.2 t r1.1 w8 w3 w9 w10
    generalize extendLoopUse T R 0 (h.take n1) r1.2.1 r1.2.2 r1.1 = r2 at u0 u1 u2 u3 u4
    obtain ⟨tf1, tf2⟩ := tail r2.1 u3
    have hv0adj : v0.adjust = 0 := rfl
    have hwritten : r2.1.written = (List.range Lw).map (fun i' => pre ws2 i' ++ ws1.reverse) := by
      rw [u1, w6]; simp only [List.drop_zero, List.nil_append, List.append_nil]; rfl
    have hxl : ∀ i', i' < Lw → T.xl (pre ws2 i' ++ ws1.reverse) = true := by
      intro i' hi'; have := w7 i' (Nat.zero_le _) hi'; simpa using this
    have hb : Lw + ws1.length ≤ a.order - 1 := by
      have := w5; simp only [List.length_nil, Nat.add_zero] at this
      have e : h.length = ws1.length := by simp [h]
      omega
    -- the accumulated adjustment in the `X` form
    have hadj : r2.1.adjust + unRest T R r2.2.1 (r2.2.2 + 0 + 1) + remaining a R ws2 L2 h L2 =
        hSum R ws2 h Lw - restSum R ws2 Lw + remaining a R ws2 L2 h Lw := by
      rw [u4, w11, hv0adj]
      have hd := dsum_done_remaining (a := a) R ws2 h L2 hL2 (L2 - Lw) Lw rfl (by omega)
      have hsplit : L2 - Lw = (t - Lw) + (L2 - t) := by omega
      rw [hsplit, dsum_add] at hd
      have e : Lw + (t - Lw) = t := by omega
      rw [e] at hd
      have ho := dsum_open_hSum R ws2 h Lw
      simp only [Nat.sub_zero]
      rw [ho, ← hd]; grind
    have hmf : r2.1.makeFull = r1.1.makeFull := u2
    by_cases hf2 : c2.left.full = true
    · simp only [hf2, if_true, hfull1', Bool.false_eq_true, if_false, Bool.or_true, Bool.true_or]
      obtain ⟨e1, e2⟩ := tf1 hf2
      -- closed: either the write loop closed it, or the second fragment's closure carries over
      have hcl : Closed T (ws1 ++ ws2) (ws1.length + Lw) := by
        rcases w12 with ⟨_, hLw, _, hnu⟩ | ⟨_, hcn⟩
        · rcases G2.closed hf2 with ⟨h1, h2⟩ | ⟨h1, h2, k, hk1, hk2, h3⟩ | ⟨h1, h2⟩
          · left
            refine ⟨by simp; omega, ?_⟩
            intro x
            rw [hLw, pre_concat ws1 ws2 L2 h1]
            cases hws : ws1.reverse with
            | nil =>
              simpa using h2 x
            | cons y r =>
              have : pre ws2 L2 ++ y :: r ++ [x] = (pre ws2 L2 ++ [y]) ++ (r ++ [x]) := by simp
              rw [this]
              exact lookup_none_extend H.ok _ _ (by simp) (h2 y)
          · right; left
            refine ⟨by simp; omega, by omega, k, hk1, by simp; omega, ?_⟩
            rw [List.reverse_append, List.take_append_of_le_length (by simp; omega)]; exact h3
          · -- an (N-1)-gram cannot have been extended by a non-empty history; with an empty one it is reason (c) again
            rw [hord] at h2
            by_cases hws : ws1.length = 0
            · right; right
              have hnil : ws1 = [] := List.eq_nil_of_length_eq_zero hws
              subst hnil
              exact ⟨by simp; omega, by rw [hord]; simp; omega⟩
            · omega
        · exact closed_of_cn H ws1 ws2 Lw (by omega) (by simpa [h] using hcn.toCN)
      refine ⟨ws1.length + Lw, fragC_build R G1 hfull1' G2 Lw _ _ (by omega) hb e2 G2.right_norm (by rw [hwritten]) hxl ?_
        (fun hc => by simp at hc) (fun _ => hcl)⟩
      rw [e1]
      have := hadj
      grind
    · have hf2' : c2.left.full = false := by simpa using hf2
      simp only [hf2', Bool.false_eq_true, if_false, hfull1', Bool.or_false]
      obtain ⟨e1, e2, e3, e4, e5⟩ := tf2 hf2'
      refine ⟨ws1.length + Lw, fragC_build R G1 hfull1' G2 Lw _ _ (by omega) hb e1 e2 (by rw [hwritten]) hxl ?_ ?_ ?_⟩
      · have := hadj
        rw [e3] at this
        grind
      · -- still open: everything was written and kept
        intro hc
        simp only [Bool.or_eq_false_iff] at hc
        obtain ⟨⟨hc1, _⟩, _⟩ := hc
        rw [hmf] at hc1
        rcases w12 with ⟨_, hLw, ht, hnu⟩ | ⟨hmt, _⟩
        · have hnu2 : r2.1.nextUse = n1 := by rw [u0 ht]; exact hnu
          exact ⟨by omega, by show c2.right.length + r2.1.nextUse = _; rw [hnu2, e4]; show _ = ws2.length + ws1.length; omega⟩
        · rw [hmt] at hc1; cases hc1
      · intro hc
        rcases w12 with ⟨hmf0, hLw, ht, hnu⟩ | ⟨_, hcn⟩
        · -- open through, but full because of its length: reason (c)
          right; right
          have hnu2 : r2.1.nextUse = n1 := by rw [u0 ht]; exact hnu
          have hlen : (ws1 ++ ws2).length = ws1.length + Lw := by simp; omega
          refine ⟨hlen.symm, ?_⟩
          rw [hmf, hmf0] at hc
          simp only [Bool.false_or, Bool.or_false, Bool.or_eq_true, beq_iff_eq, List.length_append] at hc
          rcases hc with hc | hc
          · have : c2.right.length + r2.1.nextUse = T.order - 1 := hc
            rw [hnu2, e4] at this
            have e : n1 = ws1.length := hrl
            omega
          · rw [hwritten, G1.ptrs] at hc
            simp only [List.length_map, List.length_range] at hc
            omega
        · exact closed_of_cn H ws1 ws2 Lw (by omega) (by simpa [h] using hcn.toCN)

end KV.Left

namespace KV.Left
open KV.Arpa KV.Table KV.State KV.Score

variable {a : Arpa} {T : Table}

/-- the extends-left marks are exact (true for every correctly built table; not for the probing sign-bit quirk) -/
def XLSound (T : Table) : Prop := ∀ g, T.xl g = true → ∃ x, T.lookup (g ++ [x]) ≠ none

/-- with exact extends-left marks the canonical description of a word sequence is unique: in particular every
derivation of the same yield returns the same score (also with rest costs) -/
theorem frag_unique (R : Ptr → Rat) (hx : XLSound T) {ws : List Word} {L L' : Nat} {c c' : Chart} {p p' : Rat}
    (G : FragC a T R ws L c p) (G' : FragC a T R ws L' c' p') : L = L' ∧ p = p' := by
  have key : ∀ {L L' : Nat} {c c' : Chart} {p p' : Rat}, FragC a T R ws L c p → FragC a T R ws L' c' p' → ¬ L < L' := by
    intro L L' c c' p p' G G' hlt
    have hL' := G'.L_le
    by_cases hf : c.left.full = true
    · rcases G.closed hf with ⟨h1, h2⟩ | ⟨h1, _⟩ | ⟨h1, _⟩
      · obtain ⟨x, hx'⟩ := hx _ (G'.ptr_xl L hlt)
        exact hx' (h2 x)
      · omega
      · omega
    · have := (G.open_ (by simpa using hf)).1
      omega
  have hLL : L = L' := by
    have h1 := key G G'
    have h2 := key G' G
    omega
  subst hLL
  exact ⟨rfl, by rw [G.prob_eq, G'.prob_eq]⟩

theorem xlSound_build (a : Arpa) : XLSound (build a) := by
  intro g hg
  obtain ⟨t, ht, hxl⟩ := xl_lookup hg
  have hxa : extendsLeft a g = true := by
    cases g with
    | nil => simp [build] at ht
    | cons w ctx =>
      simp only [build] at ht
      cases hgr : a.gram (w :: ctx) with
      | some e => simp [hgr] at ht; subst ht; exact hxl
      | none =>
        by_cases hx : extendsLeft a (w :: ctx) = true
        · exact hx
        · simp [hgr, hx] at ht
  obtain ⟨p, hp, hl, s, hs⟩ := (extendsLeft_iff _ _).mp hxa
  subst hs
  cases s with
  | nil => simp at hl
  | cons x s' =>
    refine ⟨x, ?_⟩
    rw [build_lookup_ne_none]
    refine ⟨by simp, ?_⟩
    cases s' with
    | nil => left; simpa using hp
    | cons y s'' =>
      right
      rw [extendsLeft_iff]
      exact ⟨g ++ x :: y :: s'', hp, by simp, by
        have : g ++ x :: y :: s'' = (g ++ [x]) ++ (y :: s'') := by simp
        rw [this]; exact List.prefix_append _ _⟩

end KV.Left
