import Proofs.VocabWords
import Proofs.VocabProbing
import Proofs.VocabSorted
/-!
The vocabulary theorems in the form used by Properties/C20.lean (and by KV.C07's `h_vocab`).
-/
namespace KV.Vocab
open KV.Probing

section C07
variable {W : Type} [DecidableEq W]

/-- the `encode` component of `lmplz` (tokens → id sequences, special words skipped) when the memory
configuration leads to the initial-size argument `x` of the vocabulary's `AutoProbing` table; `[]` stands
for "the tool died" (excluded by the theorem) -/
def idsOf : Except VErr (List (List Nat) × Nat) → List (List Nat)
  | .ok r => r.1
  | .error _ => []

def growableIds (hash : W → Nat) (unk bos eos : W) (unkCapHash : Nat) (x : Nat) (text : List (List W)) :
    List (List Nat) :=
  idsOf (growableEncode ⟨hash unk, unkCapHash, hash bos, hash eos⟩ x (text.map (·.map hash)))

/-- the configuration-free specification: every token gets the index of its first occurrence among the
distinct words (`<unk>`, `<s>`, `</s>` are 0, 1, 2); occurrences of the three special words are dropped -/
def firstOccurrenceIds (unk bos eos : W) (text : List (List W)) : List (List Nat) :=
  (specEncode unk bos eos text).1

/-- **`vocab_ids_indep`** in the shape of KV.C07's hypothesis `h_vocab : ∀ m, I.encode m text = ids text`:
`Mem` is any type of memory configurations, `xOf m` the argument `RoundBuckets` receives for the
`--vocab_estimate` of `m` -/
theorem vocab_ids_indep' {Mem : Type} (hash : W → Nat) (unk bos eos : W) (unkCapHash : Nat) (xOf : Mem → Nat)
    (hx : ∀ m, 1 ≤ xOf m ∧ xOf m ≤ 2^63) (text : List (List W))
    (hsp : unk ≠ bos ∧ unk ≠ eos ∧ bos ≠ eos)
    (hinj : InjOn hash ([unk, bos, eos] ++ text.flatten))
    (hnz : ∀ w, w ∈ [unk, bos, eos] ++ text.flatten → hash w ≠ 0)
    (hmax : (specEncode unk bos eos text).2 < kWordIndexMax) :
    ∀ m, growableIds hash unk bos eos unkCapHash (xOf m) text = firstOccurrenceIds unk bos eos text := by
  intro m
  show idsOf (growableEncode ⟨hash unk, unkCapHash, hash bos, hash eos⟩ (xOf m) (text.map (·.map hash))) = _
  rw [growable_ids_first_occurrence hash unk bos eos unkCapHash text hsp hinj hnz hmax (xOf m) (hx m).1 (hx m).2]
  rfl

/-- the argument `RoundBuckets` receives in `AutoProbing(initial_size)` is admissible for every 32-bit
`initial_size` (a `WordIndex`) and every value `fl ≤ 2^63` of the float product `1.2f * initial_size` -/
theorem initial_arg_ok (init fl : Nat) (hi : init < 2^32) (hf : fl ≤ 2^63) :
    1 ≤ max (init + 1) fl ∧ max (init + 1) fl ≤ 2^63 := by omega

end C07

/-! ### `ProbingVocabulary` -/

/-- **`ProbingVocabulary`**: loading the words `ws` (hashes, in file order) into `N` buckets, where the
words other than `<unk>`/`<UNK>` are distinct and fewer than `N`: `Insert` returns the ids in file order
(`<unk>`/`<UNK>` ↦ 0), `Bound()` is their number + 1, `SawUnk()` tells whether `<unk>`/`<UNK>` occurred, and
`Index(h)` is the id of `h` if it was inserted and 0 otherwise (in particular 0 for `<unk>`) -/
theorem probing_vocab_correct' (sp : Specials) (N : Nat) (ws : List Nat)
    (hnd : (ws.filter (fun k => !isUnk sp k)).Nodup) (hN : (ws.filter (fun k => !isUnk sp k)).length < N) :
    ∃ v, pInsertAll sp (pNew N) ws = .ok (pSpecIds sp 1 ws, v) ∧
      v.bound = (ws.filter (fun k => !isUnk sp k)).length + 1 ∧
      v.sawUnk = ws.any (isUnk sp) ∧
      ∀ k, pIndex v k = some (if k ∈ ws.filter (fun k => !isUnk sp k)
                              then (ws.filter (fun k => !isUnk sp k)).idxOf k + 1 else 0) := by
  obtain ⟨v, h1, r, hs⟩ := pInsertAll_spec sp ws (pNew N) [] (pNew_rep N (by omega)) (by simpa using hnd)
    (by simpa [pNew, emptyTable] using hN)
  simp only [List.nil_append, List.length_nil, Nat.zero_add] at h1 r
  refine ⟨v, h1, r.bound, by rw [hs]; simp [pNew], fun k => pIndex_spec v _ r k⟩

/-- … for the bucket count `ProbingHashTable::Size(entries, multiplier)` computes with `DivMod`:
`max(entries + 1, ⌊multiplier · entries⌋)`, whatever the float product `fl` is, as long as the header count
`entries` is not smaller than the number of words actually inserted -/
theorem probing_vocab_sized' (sp : Specials) (entries fl : Nat) (ws : List Nat)
    (hnd : (ws.filter (fun k => !isUnk sp k)).Nodup) (hE : (ws.filter (fun k => !isUnk sp k)).length ≤ entries) :
    ∃ v, pInsertAll sp (pNew (max (entries + 1) fl)) ws = .ok (pSpecIds sp 1 ws, v) ∧
      ∀ k, pIndex v k = some (if k ∈ ws.filter (fun k => !isUnk sp k)
                              then (ws.filter (fun k => !isUnk sp k)).idxOf k + 1 else 0) := by
  obtain ⟨v, h1, _, _, h4⟩ := probing_vocab_correct' sp (max (entries + 1) fl) ws hnd (by omega)
  exact ⟨v, h1, h4⟩

/-- the ids `Insert` returns are the ids `Index` finds afterwards -/
theorem pSpecIds_eq_index (sp : Specials) : ∀ (ws : List Nat) (seen : List Nat),
    (seen ++ ws.filter (fun k => !isUnk sp k)).Nodup →
    pSpecIds sp (seen.length + 1) ws =
      ws.map (fun k => if isUnk sp k then 0 else (seen ++ ws.filter (fun k => !isUnk sp k)).idxOf k + 1) := by
  intro ws
  induction ws with
  | nil => intro _ _; rfl
  | cons k ks ih =>
    intro seen hnd
    cases hk : isUnk sp k with
    | true =>
      have hf : (k :: ks).filter (fun k => !isUnk sp k) = ks.filter (fun k => !isUnk sp k) := by simp [hk]
      rw [hf] at hnd ⊢
      simp only [pSpecIds, hk, List.map_cons, if_true]
      rw [ih seen hnd]
    | false =>
      have hf : (k :: ks).filter (fun k => !isUnk sp k) = k :: ks.filter (fun k => !isUnk sp k) := by simp [hk]
      rw [hf] at hnd ⊢
      have e : seen ++ k :: ks.filter (fun k => !isUnk sp k) = (seen ++ [k]) ++ ks.filter (fun k => !isUnk sp k) := by simp
      have hfresh : k ∉ seen := by
        intro hm
        exact (List.nodup_append.1 hnd).2.2 k hm k (by simp) rfl
      have hl : (seen ++ [k]).length + 1 = seen.length + 1 + 1 := by simp
      have := ih (seen ++ [k]) (by rw [← e]; exact hnd)
      rw [hl] at this
      simp only [pSpecIds, hk, List.map_cons, Bool.false_eq_true, if_false, this]
      congr 1
      · rw [e, List.idxOf_append, if_pos (by simp), List.idxOf_append, if_neg hfresh]; simp
      · rw [e]

/-! ### `SortedVocabulary` -/

/-- **`SortedVocabulary`**: `Insert` of the words `ws`, then `FinishedLoading(reorder)` with
`weights = reorder[1 ..]` (one entry per non-`<unk>` word, in insertion order) -/
theorem sorted_vocab_correct' {β : Type} (f : Nat → Nat → Nat → Nat) (sp : Specials) (ws : List Nat) (weights : List β)
    (hlen : weights.length = (ws.filter (fun k => !(k = sp.unk || k = sp.unkCap))).length)
    (hnd : (ws.filter (fun k => !(k = sp.unk || k = sp.unkCap))).Nodup) :
    let keys := ws.filter (fun k => !(k = sp.unk || k = sp.unkCap))
    let v0 := (sInsertAll sp sNew ws).2
    let r := sFinish v0 weights
    v0.keys = keys ∧
    r.1.keys.Pairwise (· < ·) ∧ r.1.keys.Perm keys ∧ (r.1.keys.zip r.2).Perm (keys.zip weights) ∧
    (∀ k, k < 2^64 → sIndex f r.1 k = if k ∈ keys then keys.countP (· < k) + 1 else 0) ∧
    (∀ h w, h < 2^64 → (h, w) ∈ keys.zip weights → r.2[sIndex f r.1 h - 1]? = some w) ∧
    sBound r.1 = keys.length + 1 ∧
    r.1.sawUnk = ws.any (fun k => k = sp.unk || k = sp.unkCap) := by
  intro keys v0 r
  obtain ⟨hk, hs⟩ := sInsertAll_keys sp ws sNew
  have hk' : v0.keys = keys := hk
  have hs' : v0.sawUnk = ws.any (fun k => k = sp.unk || k = sp.unkCap) := hs
  obtain ⟨a1, a2, a3, a4, a5, a6, a7⟩ := sFinish_spec f v0 weights (by rw [hk']; exact hlen) (by rw [hk']; exact hnd)
  rw [hk'] at a2 a3 a4 a5 a6
  exact ⟨hk', a1, a2, a3, a4, a5, a6, by rw [a7]; exact hs'⟩

end KV.Vocab
