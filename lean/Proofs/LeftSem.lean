import Model.Left
import Proofs.LeftResume
import Proofs.ScoreMain
import Proofs.ScoreForgot
/-! Semantic layer for C08: the hypotheses bundle `Hyp` (well-formed model, table representing it, complete
extends-right marks, the property's premise), facts about `live`, and what one `ExtendLeft` / one
`FullScore` over the rest-cost search means in terms of the textbook score. -/
namespace KV.Left
open KV.Arpa KV.Table KV.State KV.Score

/-- everything the chart-scoring theorems assume about a model and its table -/
structure Hyp (a : Arpa) (T : Table) : Prop where
  wf : WellFormed a
  tf : TableFor a T
  /-- the extends-right marks are complete: an entry (real or blank) that is the context of another table
  entry is marked.  This is what the unrepaired trie builder violates (pre-observation G). -/
  marks : ∀ g y, g ≠ [] → T.lookup (y :: g) ≠ none → T.xr g = true
  /-- the property's premise: only n-grams that are contexts of longer n-grams carry a non-zero back-off -/
  premise : ∀ g e, a.gram g = some e → e.backoff ≠ 0 → ∃ y, a.gram (y :: g) ≠ none

variable {a : Arpa} {T : Table}

theorem Hyp.ok (H : Hyp a T) : TableOK T := H.tf.toTableOK

theorem Hyp.real_in (H : Hyp a T) {g : List Word} (h : a.gram g ≠ none) : T.lookup g ≠ none := by
  obtain ⟨e, he⟩ := Option.ne_none_iff_exists'.mp h
  obtain ⟨t, ht, _⟩ := H.tf.real g e he
  simp [ht]

/-- dropping newest words of a real n-gram leaves a real n-gram (contexts are present) -/
theorem Hyp.real_tail (H : Hyp a T) : ∀ (l g : List Word), g ≠ [] → a.gram (l ++ g) ≠ none → a.gram g ≠ none := by
  intro l
  induction l with
  | nil => intro g _ h; simpa using h
  | cons x l ih =>
    intro g hg h
    have : a.gram (l ++ g) ≠ none := H.wf.ctx_present x (l ++ g) (by simp [hg]) (by simpa using h)
    exact ih g hg this

theorem live_real {g : List Word} (h : live a g) : a.gram g ≠ none := by
  obtain ⟨e, he, _⟩ := h; simp [he]

/-- `live` is closed under dropping the newest word -/
theorem Hyp.live_tail (H : Hyp a T) {y : Word} {g : List Word} (hg : g ≠ []) (h : live a (y :: g)) : live a g := by
  have hr := live_real h
  have := H.wf.ctx_present y g hg hr
  obtain ⟨e, he⟩ := Option.ne_none_iff_exists'.mp this
  exact ⟨e, he, Or.inr ⟨y, hr⟩⟩

theorem Hyp.dead_cons (H : Hyp a T) : ∀ (l g : List Word), g ≠ [] → ¬ live a g → ¬ live a (l ++ g) := by
  intro l
  induction l with
  | nil => intro g _ h; simpa using h
  | cons x l ih =>
    intro g hg h hl
    exact ih g hg h (H.live_tail (by simp [hg]) hl)

theorem Hyp.xr_of_live (H : Hyp a T) {g : List Word} (h : live a g) : T.xr g = true := by
  obtain ⟨e, he, hor⟩ := h
  obtain ⟨t, ht, _⟩ := H.tf.real g e he
  have := H.tf.xr_live g t ht ⟨e, he, hor⟩
  simp [Table.xr, ht, this]

theorem boW_zero_of_dead {g : List Word} (h : ¬ live a g) : a.boW g = 0 := by
  unfold Arpa.boW
  cases hg : a.gram g with
  | none => rfl
  | some e =>
    apply Classical.byContradiction; intro hb
    exact h ⟨e, hg, Or.inl hb⟩

/-- with the premise, a live n-gram is the context of a real n-gram -/
theorem Hyp.live_ctx (H : Hyp a T) {g : List Word} (h : live a g) : ∃ y, a.gram (y :: g) ≠ none := by
  obtain ⟨e, he, hor⟩ := h
  rcases hor with hb | hx
  · exact H.premise g e he hb
  · exact hx

theorem Hyp.lookup_prefix (H : Hyp a T) : ∀ (c g : List Word), g ≠ [] → T.lookup (g ++ c) ≠ none → T.lookup g ≠ none := by
  intro c g hg h
  apply Classical.byContradiction; intro hn
  have hn' : T.lookup g = none := by simpa using hn
  exact h (lookup_none_extend H.ok c g hg hn')

/-- an entry without the extends-right mark: nothing longer on either side is live (uses premise + marks) -/
theorem Hyp.dead_of_not_xr (H : Hyp a T) {g : List Word} (hg : g ≠ []) (hx : T.xr g = false) (c : List Word) :
    ¬ live a (g ++ c) := by
  intro hl
  obtain ⟨y, hy⟩ := H.live_ctx hl
  have h1 : T.lookup ((y :: g) ++ c) ≠ none := H.real_in (by simpa using hy)
  have h2 := H.lookup_prefix c (y :: g) (by simp) h1
  have := H.marks g y hg h2
  rw [hx] at this; cases this

/-- an n-gram that no table entry extends to the left: nothing containing it plus older words is real -/
theorem Hyp.not_real_of_no_ext (H : Hyp a T) {g : List Word} (hg : g ≠ []) (hx : ∀ x, T.lookup (g ++ [x]) = none)
    (l c : List Word) (hc : c ≠ []) : a.gram (l ++ (g ++ c)) = none := by
  apply Classical.byContradiction; intro hr
  have h1 := H.real_tail l (g ++ c) (by simp [hg]) hr
  have h2 := H.real_in h1
  cases c with
  | nil => exact hc rfl
  | cons x c' =>
    have : g ++ x :: c' = (g ++ [x]) ++ c' := by simp
    rw [this] at h2
    exact H.lookup_prefix c' (g ++ [x]) (by simp) h2 (hx x)

theorem Hyp.dead_of_no_ext (H : Hyp a T) {g : List Word} (hg : g ≠ []) (hx : ∀ x, T.lookup (g ++ [x]) = none)
    (l c : List Word) (hc : c ≠ []) : ¬ live a (l ++ (g ++ c)) := by
  intro hl
  have := live_real hl
  exact this (H.not_real_of_no_ext hg hx l c hc)

/-! ### the two searches agree except for `rest` -/

def AccEq (x y : Acc Ptr) : Prop :=
  x.ret.prob = y.ret.prob ∧ x.ret.ngramLength = y.ret.ngramLength ∧ x.ret.independentLeft = y.ret.independentLeft ∧
  x.ret.extendLeft = y.ret.extendLeft ∧ x.backoffOut = y.backoffOut ∧ x.nextUse = y.nextUse

theorem resume_sim (T : Table) (R : Ptr → Rat) :
    ∀ (l : List Word) (om2 : Nat) (node : Ptr) (x y : Acc Ptr), AccEq x y →
      AccEq (resumeScore (restSearch T R) l om2 node x) (resumeScore (tableSearch T) l om2 node y) := by
  intro l
  induction l with
  | nil => intro om2 node x y h; simpa [resumeScore] using h
  | cons w rest ih =>
    intro om2 node x y h
    obtain ⟨h1, h2, h3, h4, h5, h6⟩ := h
    unfold resumeScore
    rw [h3]
    by_cases hil : y.ret.independentLeft = true
    · simp only [hil, if_true]; exact ⟨h1, h2, h3, h4, h5, h6⟩
    · simp only [hil, Bool.false_eq_true, if_false]
      have ho : (restSearch T R).order = (tableSearch T).order := rfl
      rw [ho]
      by_cases hb : (om2 == (tableSearch T).order - 2) = true
      · simp only [hb, if_true]
        have : (restSearch T R).lookupLongest w node = (tableSearch T).lookupLongest w node := rfl
        rw [this]
        cases (tableSearch T).lookupLongest w node with
        | none => exact ⟨h1, h2, rfl, h4, h5, h6⟩
        | some p => exact ⟨rfl, rfl, rfl, h4, h5, h6⟩
      · simp only [hb, Bool.false_eq_true, if_false]
        cases hl : T.lookup (node ++ [w]) with
        | none =>
          have e1 : (restSearch T R).lookupMiddle om2 w node = (none, node ++ [w]) := by simp [restSearch, foundOf, hl]
          have e2 : (tableSearch T).lookupMiddle om2 w node = (none, node ++ [w]) := by simp [tableSearch, hl]
          simp only [e1, e2]; exact ⟨h1, h2, rfl, h4, h5, h6⟩
        | some t =>
          have e1 : (restSearch T R).lookupMiddle om2 w node =
              (some { toFound t with rest := R (node ++ [w]) }, node ++ [w]) := by simp [restSearch, foundOf, hl]
          have e2 : (tableSearch T).lookupMiddle om2 w node = (some (toFound t), node ++ [w]) := by simp [tableSearch, hl]
          simp only [e1, e2]
          apply ih
          refine ⟨rfl, rfl, rfl, rfl, by simp [h5], ?_⟩
          simp [h6]

theorem sxb_def {ν : Type} (S : Search ν) (ctx : List Word) (w : Word) :
    scoreExceptBackoff S ctx w =
      ((resumeScore S ctx 0 (S.lookupUnigram w).2
          { ret := { prob := (S.lookupUnigram w).1.prob, rest := (S.lookupUnigram w).1.rest, ngramLength := 1,
                     independentLeft := (S.lookupUnigram w).1.independentLeft, extendLeft := (S.lookupUnigram w).2 },
            backoffOut := [(S.lookupUnigram w).1.backoff],
            nextUse := if (S.lookupUnigram w).1.extendsRight then 1 else 0 }).ret,
       { length := (resumeScore S ctx 0 (S.lookupUnigram w).2
          { ret := { prob := (S.lookupUnigram w).1.prob, rest := (S.lookupUnigram w).1.rest, ngramLength := 1,
                     independentLeft := (S.lookupUnigram w).1.independentLeft, extendLeft := (S.lookupUnigram w).2 },
            backoffOut := [(S.lookupUnigram w).1.backoff],
            nextUse := if (S.lookupUnigram w).1.extendsRight then 1 else 0 }).nextUse,
         words := w :: ctx.take ((resumeScore S ctx 0 (S.lookupUnigram w).2
          { ret := { prob := (S.lookupUnigram w).1.prob, rest := (S.lookupUnigram w).1.rest, ngramLength := 1,
                     independentLeft := (S.lookupUnigram w).1.independentLeft, extendLeft := (S.lookupUnigram w).2 },
            backoffOut := [(S.lookupUnigram w).1.backoff],
            nextUse := if (S.lookupUnigram w).1.extendsRight then 1 else 0 }).nextUse - 1),
         backoff := (resumeScore S ctx 0 (S.lookupUnigram w).2
          { ret := { prob := (S.lookupUnigram w).1.prob, rest := (S.lookupUnigram w).1.rest, ngramLength := 1,
                     independentLeft := (S.lookupUnigram w).1.independentLeft, extendLeft := (S.lookupUnigram w).2 },
            backoffOut := [(S.lookupUnigram w).1.backoff],
            nextUse := if (S.lookupUnigram w).1.extendsRight then 1 else 0 }).backoffOut }) := rfl

theorem fullScore_sim (T : Table) (R : Ptr → Rat) (s : State) (w : Word) :
    (fullScore (restSearch T R) s w).1.prob = (fullScore (tableSearch T) s w).1.prob ∧
    (fullScore (restSearch T R) s w).2 = (fullScore (tableSearch T) s w).2 := by
  have key : ∀ ctx : List Word,
      (scoreExceptBackoff (restSearch T R) ctx w).1.prob = (scoreExceptBackoff (tableSearch T) ctx w).1.prob ∧
      (scoreExceptBackoff (restSearch T R) ctx w).1.ngramLength = (scoreExceptBackoff (tableSearch T) ctx w).1.ngramLength ∧
      (scoreExceptBackoff (restSearch T R) ctx w).2 = (scoreExceptBackoff (tableSearch T) ctx w).2 := by
    intro ctx
    rw [sxb_def, sxb_def]
    have hu : ((restSearch T R).lookupUnigram w).2 = [w] := rfl
    have hu' : ((tableSearch T).lookupUnigram w).2 = [w] := rfl
    simp only [hu, hu']
    have := resume_sim T R ctx 0 [w]
      { ret := { prob := ((restSearch T R).lookupUnigram w).1.prob, rest := ((restSearch T R).lookupUnigram w).1.rest,
                 ngramLength := 1, independentLeft := ((restSearch T R).lookupUnigram w).1.independentLeft,
                 extendLeft := [w] },
        backoffOut := [((restSearch T R).lookupUnigram w).1.backoff],
        nextUse := if ((restSearch T R).lookupUnigram w).1.extendsRight then 1 else 0 }
      { ret := { prob := ((tableSearch T).lookupUnigram w).1.prob, rest := ((tableSearch T).lookupUnigram w).1.rest,
                 ngramLength := 1, independentLeft := ((tableSearch T).lookupUnigram w).1.independentLeft,
                 extendLeft := [w] },
        backoffOut := [((tableSearch T).lookupUnigram w).1.backoff],
        nextUse := if ((tableSearch T).lookupUnigram w).1.extendsRight then 1 else 0 }
      (by
        obtain ⟨o, ho⟩ : ∃ o, T.lookup [w] = o := ⟨_, rfl⟩
        simp only [AccEq, restSearch, tableSearch, foundOf, ho]
        cases o <;> simp [toFound, notFound])
    obtain ⟨h1, h2, _, _, h5, h6⟩ := this
    refine ⟨h1, h2, ?_⟩
    rw [h5, h6]
  obtain ⟨k1, k2, k3⟩ := key (s.words.take s.length)
  constructor
  · simp only [fullScore]; rw [k1, k2]
  · simp only [fullScore]; exact k3

end KV.Left
