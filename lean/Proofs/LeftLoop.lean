import Proofs.LeftNT5
/-! Semantics of `ExtendLoop` (`lm/partial.hh:19-79`): the write loop ("using full context, writing to new left
state"), the use loop ("using some of the new context") and the final `UnRest`, for the pointers of a fragment `F`
that already include the context `P`, when the further context `h` (of which `nu0` words are offered) is revealed. -/
namespace KV.Left
open KV.Arpa KV.Table KV.State KV.Score

variable {a : Arpa} {T : Table}

/-- the setting of one `ExtendLoop` call: `L` pointers `pre F i ++ P`, all extending left -/
structure LoopCtx (a : Arpa) (T : Table) (F P h : List Word) (L nu0 : Nat) : Prop where
  L_le : L ≤ F.length
  ptr_xl : ∀ i, i < L → T.xl (pre F i ++ P) = true
  bound : L + P.length ≤ a.order - 1
  nu0_le : nu0 ≤ h.length

/-- loop invariant before pointer `i` -/
structure InvL (a : Arpa) (F P h : List Word) (nu0 i : Nat) (v : ExtendReturn) : Prop where
  nu_le : v.nextUse ≤ nu0
  hN : i + P.length + 1 + v.nextUse ≤ a.order
  back : v.backIn.take v.nextUse = (List.range v.nextUse).map (fun j => a.boW (gm1 F i ++ P ++ h.take (j+1)))
  dead : ∀ k, v.nextUse < k → k ≤ h.length → ¬ live a (gm1 F i ++ P ++ h.take k)

/-- contribution of a pointer that is finalised: exact score given everything revealed − its rest cost -/
def doneTerm (a : Arpa) (R : Ptr → Rat) (F P h : List Word) (i : Nat) : Rat :=
  score a (gm1 F i ++ P ++ h) (F.getD i 0) - R (pre F i ++ P)

/-- contribution of a pointer that stays in the left state: new rest cost − old rest cost -/
def openTerm (R : Ptr → Rat) (F P h : List Word) (i : Nat) : Rat := R (pre F i ++ P ++ h) - R (pre F i ++ P)

/-- Σ_{i ≤ i' < i+n} f i' -/
def dsum (f : Nat → Rat) : Nat → Nat → Rat
  | _, 0 => 0
  | i, n+1 => f i + dsum f (i+1) n

theorem dsum_add (f : Nat → Rat) : ∀ (n m i : Nat), dsum f i (n + m) = dsum f i n + dsum f (i + n) m := by
  intro n
  induction n with
  | zero => intro m i; simp [dsum]; grind
  | succ n ih =>
    intro m i
    have : n + 1 + m = (n + m) + 1 := by omega
    rw [this]; simp only [dsum]
    rw [ih m (i+1)]
    have : i + 1 + n = i + (n + 1) := by omega
    rw [this]; grind

theorem getD_getElem (l : List Word) (i : Nat) (h : i < l.length) : l.getD i 0 = l[i] := by
  simp [List.getD, h]

theorem pre_cons_P (F P : List Word) (i : Nat) (hi : i < F.length) : pre F i ++ P = F[i] :: (gm1 F i ++ P) := by
  rw [pre_eq_cons F i hi]; rfl

theorem ptrs_drop (F P : List Word) (L i : Nat) (hi : i < L) :
    ((List.range L).map (fun i => pre F i ++ P)).drop i = (pre F i ++ P) :: ((List.range L).map (fun i => pre F i ++ P)).drop (i+1) := by
  rw [drop_eq_cons _ i (by simpa using hi)]
  simp

/-- one `ExtendLeft` of the loop and the invariant for the next pointer -/
theorem loop_step (H : Hyp a T) (R : Ptr → Rat) {F P h : List Word} {L nu0 : Nat} (C : LoopCtx a T F P h L nu0)
    {i : Nat} {v : ExtendReturn} (I : InvL a F P h nu0 i v) (hi : i < L) (hiw : i < F.length) :
    ∃ c0, ExtStep a T R F[i] (gm1 F i ++ P) h v.nextUse
        (extendLeft T R ((h.take nu0).take v.nextUse) v.backIn (pre F i ++ P) (i + P.length + 1)) c0 ∧
      ∀ (adj : Rat) (mf : Bool) (wr : List Ptr),
        InvL a F P h nu0 (i+1)
          { adjust := adj, makeFull := mf, written := wr,
            nextUse := (extendLeft T R ((h.take nu0).take v.nextUse) v.backIn (pre F i ++ P) (i + P.length + 1)).nextUse,
            backIn := (extendLeft T R ((h.take nu0).take v.nextUse) v.backIn (pre F i ++ P) (i + P.length + 1)).backoffOut } := by
  obtain ⟨tg, htg, hxl⟩ := xl_lookup (C.ptr_xl i hi)
  have hpc := pre_cons_P F P i hiw
  have hgl : (gm1 F i ++ P).length = i + P.length := by rw [List.length_append, gm1_length F i (by omega)]
  have hnul : v.nextUse ≤ h.length := by have := I.nu_le; have := C.nu0_le; omega
  have hb := C.bound
  have hstep := extendLeft_step H R F[i] (gm1 F i ++ P) h v.nextUse v.backIn tg (by rw [← hpc]; exact htg) hxl hnul
    (by rw [hgl]; exact I.hN) (by rw [hgl]; omega)
    I.back I.dead
  rw [hgl, ← hpc, ← take_take_le h I.nu_le] at hstep
  obtain ⟨c0, hs⟩ := hstep
  generalize hret : extendLeft T R ((h.take nu0).take v.nextUse) v.backIn (pre F i ++ P) (i + P.length + 1) = ret at hs ⊢
  refine ⟨c0, hs, ?_⟩
  intro adj mf wr
  have hord := H.tf.order_eq
  refine ⟨?_, ?_, ?_, ?_⟩
  · have := hs.nu_le.1; have := hs.c0_le; have := I.nu_le
    show ret.nextUse ≤ nu0; omega
  · have := hs.nu_le.2; rw [hgl, hord] at this
    have := H.wf.order_ge
    show i + 1 + P.length + 1 + ret.nextUse ≤ a.order; omega
  · show ret.backoffOut.take ret.nextUse = _
    rw [hs.back, gm1_succ F i hiw, hpc]
  · show ∀ k, ret.nextUse < k → _
    intro k h1 h2
    have := hs.dead k h1 h2
    rw [gm1_succ F i hiw, hpc]
    simpa only [List.cons_append, List.append_assoc] using this

/-- the probability stored with an extended pointer is the score of its word given the included context -/
theorem ptr_prob (H : Hyp a T) (F P : List Word) (i : Nat) (hi : i < F.length) (hN : i + P.length ≤ a.order - 1)
    {t : TEntry} (ht : T.lookup (pre F i ++ P) = some t) : t.prob = score a (gm1 F i ++ P) F[i] := by
  have hl : (gm1 F i ++ P).length = i + P.length := by rw [List.length_append, gm1_length F i (by omega)]
  have := entry_prob_eq H.tf (gm1 F i ++ P) F[i] (i + P.length) (by omega) hN t (by
    rw [List.take_of_length_le (by omega), ← pre_cons_P F P i hi]; exact ht)
  rw [this]
  unfold score
  rw [hl, Nat.min_eq_left hN]

/-- with nothing of the new context usable, `UnRest` of the remaining pointers is what they still have to receive -/
theorem unrest_done (H : Hyp a T) (R : Ptr → Rat) {F P h : List Word} {L nu0 : Nat} (C : LoopCtx a T F P h L nu0) :
    ∀ (n i : Nat) (fl : Nat), n = L - i → i ≤ L →
      (∀ k, 1 ≤ k → k ≤ h.length → ¬ live a (gm1 F i ++ P ++ h.take k)) →
      unRest T R (((List.range L).map (fun i => pre F i ++ P)).drop i) fl = dsum (doneTerm a R F P h) i (L - i) ∧
      (∀ k, 1 ≤ k → k ≤ h.length → ¬ live a (gm1 F L ++ P ++ h.take k)) := by
  intro n
  induction n with
  | zero =>
    intro i fl hn hi hd
    have : i = L := by omega
    subst this
    rw [List.drop_eq_nil_of_le (by simp)]
    exact ⟨by simp [unRest, dsum], hd⟩
  | succ n ih =>
    intro i fl hn hi hd
    have hiL : i < L := by omega
    have hiw : i < F.length := by have := C.L_le; omega
    rw [ptrs_drop F P L i hiL]
    obtain ⟨t, ht, _⟩ := xl_lookup (C.ptr_xl i hiL)
    have hb := C.bound
    have hd' : ∀ k, 1 ≤ k → k ≤ h.length → ¬ live a (gm1 F (i+1) ++ P ++ h.take k) := by
      intro k hk1 hk2
      rw [gm1_succ F i hiw, pre_eq_cons F i hiw]
      have hne : gm1 F i ++ P ++ h.take k ≠ [] := by have := take_ne_nil hk1 hk2; simp [this]
      have := H.dead_cons [F[i]] _ hne (hd k hk1 hk2)
      simpa only [List.cons_append, List.append_assoc, List.singleton_append, List.nil_append] using this
    obtain ⟨ih1, ih2⟩ := ih (i+1) fl (by omega) (by omega) hd'
    refine ⟨?_, ih2⟩
    have hsc : score a (gm1 F i ++ P ++ h) F[i] = t.prob := by
      rw [score_dead H F[i] (gm1 F i ++ P) h hd, ptr_prob H F P i hiw (by omega) ht]
    have hsplit : L - i = (L - (i+1)) + 1 := by omega
    unfold unRest at ih1 ⊢
    rw [hsplit]
    simp only [List.map_cons, List.sum_cons, dsum]
    rw [ih1, probMinusRest_entry R ht]
    simp only [doneTerm]
    rw [getD_getElem _ _ hiw, hsc]

/-- **the use loop + final UnRest**: every remaining pointer receives its exact score − rest -/
theorem useLoop (H : Hyp a T) (R : Ptr → Rat) {F P h : List Word} {L nu0 : Nat} (C : LoopCtx a T F P h L nu0) (seen : Nat) :
    ∀ (ps : List Ptr) (j i : Nat) (v : ExtendReturn),
      ps = ((List.range L).map (fun i => pre F i ++ P)).drop i → i ≤ L → j + seen = i + P.length → InvL a F P h nu0 i v →
      (i = L → (extendLoopUse T R seen (h.take nu0) ps j v).1 = v) ∧
      (extendLoopUse T R seen (h.take nu0) ps j v).1.written = v.written ∧
      (extendLoopUse T R seen (h.take nu0) ps j v).1.makeFull = v.makeFull ∧
      InvL a F P h nu0 L (extendLoopUse T R seen (h.take nu0) ps j v).1 ∧
      (extendLoopUse T R seen (h.take nu0) ps j v).1.adjust +
          unRest T R (extendLoopUse T R seen (h.take nu0) ps j v).2.1 ((extendLoopUse T R seen (h.take nu0) ps j v).2.2 + seen + 1) =
        v.adjust + dsum (doneTerm a R F P h) i (L - i) := by
  intro ps
  induction ps with
  | nil =>
    intro j i v hps hi hj I
    have : L ≤ i := by
      have := congrArg List.length hps
      simp at this; omega
    have hiL : i = L := by omega
    subst hiL
    simp only [extendLoopUse, unRest, List.map_nil, List.sum_nil, Nat.sub_self, dsum]
    exact ⟨(by first | trivial | exact fun _ => rfl), (by first | rfl | trivial), (by first | rfl | trivial), I, (by first | rfl | trivial | grind)⟩
  | cons p ps ih =>
    intro j i v hps hi hj I
    have hiL : i < L := by
      apply Classical.byContradiction; intro hc
      have : ((List.range L).map (fun i => pre F i ++ P)).drop i = [] := List.drop_eq_nil_of_le (by simp; omega)
      rw [this] at hps; cases hps
    have hiw : i < F.length := by have := C.L_le; omega
    rw [ptrs_drop F P L i hiL] at hps
    injection hps with hp hps'
    have hb := C.bound
    unfold extendLoopUse
    by_cases hz : (v.nextUse == 0) = true
    · -- nothing usable: stop, UnRest takes over
      simp only [hz, if_true]
      have hz' : v.nextUse = 0 := by simpa using hz
      have hd : ∀ k, 1 ≤ k → k ≤ h.length → ¬ live a (gm1 F i ++ P ++ h.take k) := fun k h1 h2 => I.dead k (by omega) h2
      have hun := unrest_done H R C (L - i) i (j + seen + 1) rfl (by omega) hd
      refine ⟨fun hc => by omega, (by first | rfl | trivial), (by first | rfl | trivial), ⟨by rw [hz']; omega, by rw [hz']; have := H.wf.order_ge; omega, by rw [hz']; simp, ?_⟩, ?_⟩
      · intro k hk1 hk2; exact hun.2 k (by omega) hk2
      · rw [hp, hps', ← ptrs_drop F P L i hiL, hun.1]
    · simp only [hz, Bool.false_eq_true, if_false]
      obtain ⟨c0, hs, hnext⟩ := loop_step H R C I hiL hiw
      have hext : j + seen + 1 = i + P.length + 1 := by omega
      rw [hp, hext]
      generalize hret : extendLeft T R ((h.take nu0).take v.nextUse) v.backIn (pre F i ++ P) (i + P.length + 1) = ret at hs hnext
      have I' := hnext (v.adjust + ret.prob) v.makeFull v.written
      have := ih (j+1) (i+1) _ hps' (by omega) (by omega) I'
      obtain ⟨_, h1, h2, h3, h4⟩ := this
      refine ⟨fun hc => by omega, h1, h2, h3, ?_⟩
      rw [h4]
      have hsplit : L - i = (L - (i+1)) + 1 := by omega
      rw [hsplit]
      simp only [dsum, doneTerm]
      rw [getD_getElem _ _ hiw]
      have hprob := hs.prob
      rw [← pre_cons_P F P i hiw] at hprob
      show v.adjust + ret.prob + _ = _
      have e : gm1 F i ++ P ++ h = (gm1 F i ++ P) ++ h := rfl
      rw [← hprob]; grind


/-- closure witness produced when the write loop stops -/
def CN (T : Table) (F P h : List Word) (Lw : Nat) : Prop :=
  (Lw < F.length ∧ ∀ x, T.lookup (pre F Lw ++ P ++ h ++ [x]) = none) ∨ (0 < Lw ∧ T.xr (pre F (Lw-1) ++ P ++ h) = false)

/-- … remembering, for the first kind of witness, that the stopped pointer is one of the `L` pointers of the call -/
def CNL (T : Table) (F P h : List Word) (L Lw : Nat) : Prop :=
  (Lw < L ∧ Lw < F.length ∧ ∀ x, T.lookup (pre F Lw ++ P ++ h ++ [x]) = none) ∨ (0 < Lw ∧ T.xr (pre F (Lw-1) ++ P ++ h) = false)

theorem CNL.toCN {T : Table} {F P h : List Word} {L Lw : Nat} (c : CNL T F P h L Lw) : CN T F P h Lw := by
  rcases c with ⟨_, h1, h2⟩ | h
  · exact Or.inl ⟨h1, h2⟩
  · exact Or.inr h

theorem range_drop_succ (i0 i : Nat) (hi : i0 ≤ i) (f : Nat → Ptr) :
    ((List.range (i+1)).drop i0).map f = ((List.range i).drop i0).map f ++ [f i] := by
  rw [List.range_succ, List.drop_append_of_le_length (by simpa using hi), List.map_append]
  rfl

/-- **the write loop**: pointers are extended by the whole offered context and stay in the left state until one is
independent of it or does not extend right any more -/
theorem writeLoop (H : Hyp a T) (R : Ptr → Rat) {F P h : List Word} {L nu0 : Nat} (C : LoopCtx a T F P h L nu0) (seen : Nat)
    (hall : nu0 = h.length) (Wpre : List Ptr) (i0 : Nat) :
    ∀ (ps : List Ptr) (j i : Nat) (v : ExtendReturn),
      ps = ((List.range L).map (fun i => pre F i ++ P)).drop i → i0 ≤ i → i ≤ L → j + seen = i + P.length →
      InvL a F P h nu0 i v → v.nextUse = nu0 → v.makeFull = false →
      v.written = Wpre ++ ((List.range i).drop i0).map (fun i' => pre F i' ++ P ++ h) →
      (∀ i', i0 ≤ i' → i' < i → T.xl (pre F i' ++ P ++ h) = true) →
      ∃ Lw t, i ≤ Lw ∧ Lw ≤ t ∧ t ≤ L ∧ t ≤ Lw + 1 ∧ Lw + P.length + h.length ≤ a.order - 1 ∧
        (extendLoopWrite T R seen (h.take nu0) nu0 ps j v).1.written =
          Wpre ++ ((List.range Lw).drop i0).map (fun i' => pre F i' ++ P ++ h) ∧
        (∀ i', i0 ≤ i' → i' < Lw → T.xl (pre F i' ++ P ++ h) = true) ∧
        (extendLoopWrite T R seen (h.take nu0) nu0 ps j v).2.1 = ((List.range L).map (fun i => pre F i ++ P)).drop t ∧
        (extendLoopWrite T R seen (h.take nu0) nu0 ps j v).2.2 + seen = t + P.length ∧
        InvL a F P h nu0 t (extendLoopWrite T R seen (h.take nu0) nu0 ps j v).1 ∧
        (extendLoopWrite T R seen (h.take nu0) nu0 ps j v).1.adjust =
          v.adjust + dsum (openTerm R F P h) i (Lw - i) + dsum (doneTerm a R F P h) Lw (t - Lw) ∧
        (((extendLoopWrite T R seen (h.take nu0) nu0 ps j v).1.makeFull = false ∧ Lw = L ∧ t = L ∧
            (extendLoopWrite T R seen (h.take nu0) nu0 ps j v).1.nextUse = nu0) ∨
         ((extendLoopWrite T R seen (h.take nu0) nu0 ps j v).1.makeFull = true ∧ CNL T F P h L Lw)) := by
  intro ps
  induction ps with
  | nil =>
    intro j i v hps hi0 hi hj I hnu hmf hwr hxl
    have : L ≤ i := by
      have := congrArg List.length hps
      simp at this; omega
    have hiL : i = L := by omega
    subst hiL
    have hb : i + P.length + h.length ≤ a.order - 1 := by have := I.hN; rw [hnu, hall] at this; omega
    refine ⟨i, i, Nat.le_refl _, Nat.le_refl _, Nat.le_refl _, by omega, hb, hwr, hxl, ?_, hj, I, ?_, Or.inl ⟨hmf, rfl, rfl, hnu⟩⟩
    · simp only [extendLoopWrite]; rw [List.drop_eq_nil_of_le (by simp)]
    · simp only [extendLoopWrite, Nat.sub_self, dsum]; grind
  | cons p ps ih =>
    intro j i v hps hi0 hi hj I hnu hmf hwr hxl
    have hiL : i < L := by
      apply Classical.byContradiction; intro hc
      have : ((List.range L).map (fun i => pre F i ++ P)).drop i = [] := List.drop_eq_nil_of_le (by simp; omega)
      rw [this] at hps; cases hps
    have hiw : i < F.length := by have := C.L_le; omega
    rw [ptrs_drop F P L i hiL] at hps
    injection hps with hp hps'
    have hord : T.order = a.order := H.tf.order_eq
    have hb0 : i + P.length + h.length ≤ a.order - 1 := by have := I.hN; rw [hnu, hall] at this; omega
    obtain ⟨c0, hs, hnext⟩ := loop_step H R C I hiL hiw
    have hext : j + seen + 1 = i + P.length + 1 := by omega
    unfold extendLoopWrite
    rw [hp, hext]
    generalize hret : extendLeft T R ((h.take nu0).take v.nextUse) v.backIn (pre F i ++ P) (i + P.length + 1) = ret at hs hnext
    have hgl : (gm1 F i ++ P).length = i + P.length := by rw [List.length_append, gm1_length F i (by omega)]
    have hpc := pre_cons_P F P i hiw
    have htakeall : ∀ k, h.length ≤ k → h.take k = h := fun k hk => List.take_of_length_le hk
    have hnuh : v.nextUse = h.length := by rw [hnu, hall]
    have hprob : ret.prob = doneTerm a R F P h i := by
      have := hs.prob
      rw [← hpc] at this
      simp only [doneTerm]
      rw [getD_getElem _ _ hiw, ← this]; grind
    by_cases hind : ret.independentLeft = true
    · -- independent of the new context: the left state is complete
      simp only [hind, if_true]
      have hcn : ∀ x, T.lookup (pre F i ++ P ++ h ++ [x]) = none := by
        intro x
        have hi' := hs.indep
        rw [hind, hgl] at hi'
        have hi' := hi'.symm
        simp only [Bool.or_eq_true, decide_eq_true_eq, Bool.not_eq_true'] at hi'
        apply Classical.byContradiction; intro hne
        have hle := H.ok.len_le _ hne
        rw [hpc] at hle
        simp only [List.length_append, List.length_cons, hgl, List.length_nil] at hle
        have hc0 := hs.c0_le
        have hstop : c0 < h.length → T.lookup (pre F i ++ P ++ h ++ [x]) = none := by
          intro hlt
          have := hs.stop (by omega) (by rw [hgl]; omega)
          have e : pre F i ++ P ++ h ++ [x] = (F[i] :: (gm1 F i ++ P) ++ h.take (c0+1)) ++ (h.drop (c0+1) ++ [x]) := by
            rw [hpc]
            simp only [List.cons_append, List.append_assoc]
            rw [← List.append_assoc (h.take (c0+1)), List.take_append_drop]
          rw [e]
          exact lookup_none_extend H.ok _ _ (by simp) this
        rcases hi' with (h1 | h1) | h1
        · by_cases hlt : c0 < h.length
          · exact hne (hstop hlt)
          · omega
        · exact hne (hstop (by omega))
        · by_cases hlt : c0 < h.length
          · exact hne (hstop hlt)
          · rw [htakeall c0 (by omega), ← hpc] at h1
            have hfd := hs.found
            rw [htakeall c0 (by omega), ← hpc] at hfd
            obtain ⟨t, ht⟩ := Option.ne_none_iff_exists'.mp hfd
            have hxl' : t.extendsLeft = false := by unfold Table.xl at h1; rw [ht] at h1; simpa using h1
            exact hne (H.ok.xl_sound _ x t ht hxl')
      refine ⟨i, i+1, Nat.le_refl _, by omega, by omega, by omega, hb0, hwr, hxl, hps'.symm ▸ rfl, by show j + 1 + seen = _; omega,
        hnext _ _ _, ?_, Or.inr ⟨(by first | rfl | trivial), Or.inl ⟨hiL, hiw, hcn⟩⟩⟩
      show v.adjust + ret.prob = _
      have e1 : i + 1 - i = 1 := by omega
      rw [Nat.sub_self, e1]
      simp only [dsum]; rw [hprob]; grind
    · have hind' : ret.independentLeft = false := by simpa using hind
      simp only [hind', Bool.false_eq_true, if_false]
      have hi' := hs.indep
      rw [hind', hgl] at hi'
      have hi' := hi'.symm
      simp only [Bool.or_eq_false_iff, decide_eq_false_iff_not, Bool.not_eq_false'] at hi'
      obtain ⟨⟨hi1, hi2⟩, hi3⟩ := hi'
      have hc0 : c0 = h.length := by have := hs.c0_le; omega
      have hlenN : i + P.length + 1 + h.length < T.order := by have := hs.len_le; rw [hgl] at this; omega
      rw [hc0, htakeall _ (Nat.le_refl _), ← hpc] at hi3
      have hptr := hs.ptr (by rw [hgl]; omega)
      rw [hc0, htakeall _ (Nat.le_refl _), ← hpc] at hptr
      have hrest := hs.rest (by rw [hgl]; omega)
      rw [hc0, htakeall _ (Nat.le_refl _), ← hpc] at hrest
      have hrest' : ret.rest = openTerm R F P h i := by simp only [openTerm]; rw [← hrest]; grind
      have hwr' : v.written ++ [ret.extendLeft] = Wpre ++ ((List.range (i+1)).drop i0).map (fun i' => pre F i' ++ P ++ h) := by
        rw [hwr, hptr, range_drop_succ i0 i hi0, List.append_assoc]
      have hxl' : ∀ i', i0 ≤ i' → i' < i + 1 → T.xl (pre F i' ++ P ++ h) = true := by
        intro i' h1 h2
        by_cases hlt : i' < i
        · exact hxl i' h1 hlt
        · have : i' = i := by omega
          subst this; exact hi3
      have hb1 : i + 1 + P.length + h.length ≤ a.order - 1 := by rw [← hord]; omega
      by_cases hne : (ret.nextUse != nu0) = true
      · -- pushed, but it does not extend right: complete
        simp only [hne, if_true]
        have hxr : T.xr (pre F i ++ P ++ h) = false := by
          have hnen : ret.nextUse ≠ h.length := by rw [← hall]; simpa using hne
          have := hs.unmarked h.length (by have := hs.nu_le.1; omega) (by omega) (by rw [hgl]; omega)
          rwa [htakeall _ (Nat.le_refl _), ← hpc] at this
        refine ⟨i+1, i+1, by omega, Nat.le_refl _, by omega, by omega, hb1, hwr', hxl', hps'.symm ▸ rfl, by show j + 1 + seen = _; omega,
          hnext _ _ _, ?_, Or.inr ⟨(by first | rfl | trivial), Or.inr ⟨by omega, by simpa using hxr⟩⟩⟩
        show v.adjust + ret.rest = _
        have e1 : i + 1 - i = 1 := by omega
        rw [Nat.sub_self, e1]
        simp only [dsum]; rw [hrest']; grind
      · simp only [hne, Bool.false_eq_true, if_false]
        have hnu' : ret.nextUse = nu0 := by simpa using hne
        have I' := hnext (v.adjust + ret.rest) v.makeFull (v.written ++ [ret.extendLeft])
        obtain ⟨Lw, t, h1, h2, h3, h4, h5, h6, h7, h8, h9, h10, h11, h12⟩ :=
          ih (j+1) (i+1) _ hps' (by omega) (by omega) (by omega) I' hnu' hmf hwr' hxl'
        refine ⟨Lw, t, by omega, h2, h3, h4, h5, h6, h7, h8, h9, h10, ?_, h12⟩
        rw [h11]
        have hsplit : Lw - i = (Lw - (i+1)) + 1 := by omega
        rw [hsplit]
        simp only [dsum]
        show v.adjust + ret.rest + _ + _ = _
        rw [hrest']; grind

end KV.Left
