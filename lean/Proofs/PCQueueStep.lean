import Proofs.PCQueue
namespace KV.PCQueue

variable {dP dC : Nat}

theorem set_cases {l : List Thread} {tid : Nat} {th th' : Thread} (hth : l[tid]? = some th)
    {t : Nat} {th0 : Thread} (h0 : (l.set tid th')[t]? = some th0) :
    (t = tid ∧ th0 = th') ∨ (t ≠ tid ∧ l[t]? = some th0) := by
  rw [List.getElem?_set] at h0
  by_cases h : tid = t
  · subst h
    have : tid < l.length := (List.getElem?_eq_some_iff.mp hth).1
    simp [this] at h0
    exact Or.inl ⟨rfl, h0.symm⟩
  · simp [h] at h0
    exact Or.inr ⟨fun e => h e.symm, h0⟩

theorem set_self {l : List Thread} {tid : Nat} {th : Thread} (hth : l[tid]? = some th) (th' : Thread) :
    (l.set tid th')[tid]? = some th' := by
  have : tid < l.length := (List.getElem?_eq_some_iff.mp hth).1
  simp [this]

theorem set_other {l : List Thread} {tid t : Nat} (th' : Thread) (h : t ≠ tid) :
    (l.set tid th')[t]? = l[t]? := by
  simp [Ne.symm h]

/-! ### mutex bookkeeping -/

theorem MutexOK.frame {m : Option Nat} {l : List Thread} {H : Thread → Prop} {tid : Nat} {th th' : Thread}
    (h : MutexOK m l H) (hth : l[tid]? = some th) (hiff : H th ↔ H th') : MutexOK m (l.set tid th') H := by
  constructor
  · intro t ht
    obtain ⟨th0, h0, h1⟩ := h.1 t ht
    by_cases e : t = tid
    · subst e
      rw [hth] at h0; cases h0
      exact ⟨th', set_self hth th', hiff.mp h1⟩
    · exact ⟨th0, by rw [set_other _ e]; exact h0, h1⟩
  · intro t th0 h0 h1
    rcases set_cases hth h0 with ⟨rfl, rfl⟩ | ⟨_, h0⟩
    · exact h.2 _ th hth (hiff.mpr h1)
    · exact h.2 t th0 h0 h1

theorem MutexOK.acquire {l : List Thread} {H : Thread → Prop} {tid : Nat} {th th' : Thread}
    (h : MutexOK none l H) (hth : l[tid]? = some th) (hnew : H th') : MutexOK (some tid) (l.set tid th') H := by
  constructor
  · intro t ht
    cases ht
    exact ⟨th', set_self hth th', hnew⟩
  · intro t th0 h0 h1
    rcases set_cases hth h0 with ⟨rfl, rfl⟩ | ⟨_, h0⟩
    · rfl
    · have := h.2 t th0 h0 h1
      cases this

theorem MutexOK.release {m : Option Nat} {l : List Thread} {H : Thread → Prop} {tid : Nat} {th th' : Thread}
    (h : MutexOK m l H) (hth : l[tid]? = some th) (hold : H th) (hnew : ¬ H th') : MutexOK none (l.set tid th') H := by
  have hm : m = some tid := h.2 tid th hth hold
  constructor
  · intro t ht; cases ht
  · intro t th0 h0 h1
    rcases set_cases hth h0 with ⟨rfl, rfl⟩ | ⟨hne, h0⟩
    · exact absurd h1 hnew
    · have := h.2 t th0 h0 h1
      rw [hm] at this
      cases this
      exact absurd rfl hne

/-! ### per-thread facts -/

theorem thr_update {s s' : State} {tid : Nat} {th th' : Thread}
    (h : ∀ (t : Nat) th0, s.threads[t]? = some th0 → ThreadOK s t th0) (hth : s.threads[tid]? = some th)
    (hnew : ThreadOK s' tid th')
    (hframe : ∀ t th0, t ≠ tid → ThreadOK s t th0 → ThreadOK s' t th0) :
    ∀ (t : Nat) th0, (s.threads.set tid th')[t]? = some th0 → ThreadOK s' t th0 := by
  intro t th0 h0
  rcases set_cases hth h0 with ⟨rfl, rfl⟩ | ⟨hne, h0⟩
  · exact hnew
  · exact hframe t th0 hne (h t th0 h0)

theorem ThreadOK.frame {s s' : State} {t : Nat} {th : Thread} (h : ThreadOK s t th)
    (hw : writesOf s'.writes t = writesOf s.writes t) (hr : writesOf s'.reads t = writesOf s.reads t) :
    ThreadOK s' t th :=
  ⟨h.p_nonempty, h.p_done, by rw [hw]; exact h.p_orig, h.c_pos, h.c_done, by rw [hr]; exact h.c_got⟩

set_option hygiene false in
macro "sum_facts" hth:ident th':term : tactic => `(tactic| (
  have hA := sumBy_set (f := isA) $hth $th'
  have hB := sumBy_set (f := isB) $hth $th'
  have hC := sumBy_set (f := isC) $hth $th'
  have hD := sumBy_set (f := isD) $hth $th'
  have hP := sumBy_set (f := remP) $hth $th'
  have hQ := sumBy_set (f := remC) $hth $th'))

/-! ### the ten transitions -/

theorem inv_prod_wait {s : State} {tid : Nat} {th : Thread} (h : Inv dP dC s)
    (hth : s.threads[tid]? = some th) (hr : th.role = .prod) (hp : th.pc = .wait) (he : s.empty ≠ 0) :
    Inv dP dC { s.setT tid { th with pc := .lock } with empty := s.empty - 1 } := by
  sum_facts hth { th with pc := .lock }
  simp [isA, isB, isC, isD, remP, remC, b2n, hr, hp] at hA hB hC hD hP hQ
  have ok := h.thr tid th hth
  refine { cap_pos := h.cap_pos, acct := ?_, occ := ?_, pat := h.pat, cat := h.cat, ringv := h.ringv,
           fifo := h.fifo, pm := ?_, cm := ?_, balance := ?_, thr := ?_ }
  · have := h.acct; simp [State.setT, hr]; omega
  · have := h.occ; simp [State.setT, hr]; omega
  · exact h.pm.frame hth (by simp [holdsP, hp])
  · exact h.cm.frame hth (by simp [holdsC, hr])
  · have := h.balance; simp [State.setT, hr]; omega
  · exact thr_update h.thr hth
      ⟨fun _ _ => ok.p_nonempty hr (Or.inl hp), by simp, ok.p_orig, by simp [hr], by simp [hr], by simp [hr]⟩
      (fun t th0 _ h0 => h0.frame rfl rfl)

theorem inv_prod_lock {s : State} {tid : Nat} {th : Thread} (h : Inv dP dC s)
    (hth : s.threads[tid]? = some th) (hr : th.role = .prod) (hp : th.pc = .lock) (hm : s.pmutex = none) :
    Inv dP dC { s.setT tid { th with pc := .body } with pmutex := some tid } := by
  sum_facts hth { th with pc := .body }
  simp [isA, isB, isC, isD, remP, remC, b2n, hr, hp] at hA hB hC hD hP hQ
  have ok := h.thr tid th hth
  refine { cap_pos := h.cap_pos, acct := ?_, occ := ?_, pat := h.pat, cat := h.cat, ringv := h.ringv,
           fifo := h.fifo, pm := ?_, cm := ?_, balance := ?_, thr := ?_ }
  · have := h.acct; simp [State.setT, hr]; omega
  · have := h.occ; simp [State.setT, hr]; omega
  · exact MutexOK.acquire (hm ▸ h.pm) hth (by simp [holdsP, hr])
  · exact h.cm.frame hth (by simp [holdsC, hr])
  · have := h.balance; simp [State.setT, hr]; omega
  · exact thr_update h.thr hth
      ⟨fun _ _ => ok.p_nonempty hr (Or.inr (Or.inl hp)), by simp, ok.p_orig, by simp [hr], by simp [hr], by simp [hr]⟩
      (fun t th0 _ h0 => h0.frame rfl rfl)

theorem inv_prod_body {s : State} {tid : Nat} {th : Thread} {v : Nat} {rest : List Nat} (h : Inv dP dC s)
    (hth : s.threads[tid]? = some th) (hr : th.role = .prod) (hp : th.pc = .body) (hi : th.items = v :: rest) :
    Inv dP dC { s.setT tid { th with pc := .unlock, items := rest } with
          ring := upd s.ring s.produceAt v
          produceAt := wrap s.cap s.produceAt
          writes := s.writes ++ [(tid, v)] } := by
  have hA1 : 1 ≤ sumBy isA s.threads := by
    have := sumBy_le (f := isA) hth; simpa [isA, b2n, hr, hp] using this
  sum_facts hth { th with pc := .unlock, items := rest }
  simp [isA, isB, isC, isD, remP, remC, b2n, hr, hp, hi] at hA hB hC hD hP hQ
  have ok := h.thr tid th hth
  have hacct := h.acct
  have hocc := h.occ
  have hlt : s.writes.length - s.reads.length < s.cap := by omega
  have hle : s.reads.length ≤ s.writes.length := by omega
  refine { cap_pos := h.cap_pos, acct := ?_, occ := ?_, pat := ?_, cat := h.cat, ringv := ?_,
           fifo := ?_, pm := ?_, cm := ?_, balance := ?_, thr := ?_ }
  · simp [State.setT, hr]; omega
  · simp [State.setT, hr]; omega
  · simp [State.setT]; rw [h.pat]; exact wrap_mod h.cap_pos
  · intro i hi1 hi2
    simp [State.setT] at hi1 hi2 ⊢
    by_cases e : i = s.writes.length
    · subst e
      simp [upd, h.pat]
    · have hi3 : i < s.writes.length := by omega
      have hne : i % s.cap ≠ s.produceAt := by
        rw [h.pat]; exact mod_ne_of_lt hi3 (by omega)
      have := h.ringv i hi1 hi3
      rw [List.getElem?_append_left hi3]
      simp [upd, hne]
      simpa using this
  · simp [State.setT]
    rw [List.take_append_of_le_length (by simpa using hle)]
    exact h.fifo
  · exact h.pm.frame hth (by simp [holdsP, hr, hp])
  · exact h.cm.frame hth (by simp [holdsC, hr])
  · have := h.balance; simp [State.setT, hr]; omega
  · refine thr_update h.thr hth ⟨by simp, by simp, ?_, by simp [hr], by simp [hr], by simp [hr]⟩ ?_
    · intro _
      show th.orig = writesOf (s.writes ++ [(tid, v)]) tid ++ rest
      rw [writesOf_append_self, ok.p_orig hr, hi]; simp
    · intro t th0 hne h0
      exact h0.frame (writesOf_append_other _ _ (Ne.symm hne)) rfl

theorem inv_prod_unlock {s : State} {tid : Nat} {th : Thread} (h : Inv dP dC s)
    (hth : s.threads[tid]? = some th) (hr : th.role = .prod) (hp : th.pc = .unlock) :
    Inv dP dC { s.setT tid { th with pc := .post } with pmutex := none } := by
  sum_facts hth { th with pc := .post }
  simp [isA, isB, isC, isD, remP, remC, b2n, hr, hp] at hA hB hC hD hP hQ
  have ok := h.thr tid th hth
  refine { cap_pos := h.cap_pos, acct := ?_, occ := ?_, pat := h.pat, cat := h.cat, ringv := h.ringv,
           fifo := h.fifo, pm := ?_, cm := ?_, balance := ?_, thr := ?_ }
  · have := h.acct; simp [State.setT, hr]; omega
  · have := h.occ; simp [State.setT, hr]; omega
  · exact h.pm.release hth ⟨hr, Or.inr hp⟩ (by simp [holdsP])
  · exact h.cm.frame hth (by simp [holdsC, hr])
  · have := h.balance; simp [State.setT, hr]; omega
  · exact thr_update h.thr hth
      ⟨by simp, by simp, ok.p_orig, by simp [hr], by simp [hr], by simp [hr]⟩
      (fun t th0 _ h0 => h0.frame rfl rfl)

theorem inv_prod_post {s : State} {tid : Nat} {th : Thread} (h : Inv dP dC s)
    (hth : s.threads[tid]? = some th) (hr : th.role = .prod) (hp : th.pc = .post) :
    Inv dP dC { s.setT tid { th with pc := nextProd th.items } with used := s.used + 1 } := by
  sum_facts hth { th with pc := nextProd th.items }
  have ok := h.thr tid th hth
  cases hi : th.items with
  | nil =>
    simp [isA, isB, isC, isD, remP, remC, b2n, hr, hp, hi, nextProd] at hA hB hC hD hP hQ
    refine { cap_pos := h.cap_pos, acct := ?_, occ := ?_, pat := h.pat, cat := h.cat, ringv := h.ringv,
             fifo := h.fifo, pm := ?_, cm := ?_, balance := ?_, thr := ?_ }
    · have := h.acct; simp [State.setT, hr, nextProd]; omega
    · have := h.occ; simp [State.setT, hr, nextProd]; omega
    · exact h.pm.frame hth (by simp [holdsP, hp, nextProd])
    · exact h.cm.frame hth (by simp [holdsC, hr])
    · have := h.balance; simp [State.setT, hr, nextProd]; omega
    · exact thr_update h.thr hth
        ⟨by simp [nextProd], by simp, (fun _ => by have := ok.p_orig hr; rw [hi] at this; exact this), by simp [hr], by simp [hr], by simp [hr]⟩
        (fun t th0 _ h0 => h0.frame rfl rfl)
  | cons v rest =>
    simp [isA, isB, isC, isD, remP, remC, b2n, hr, hp, hi, nextProd] at hA hB hC hD hP hQ
    refine { cap_pos := h.cap_pos, acct := ?_, occ := ?_, pat := h.pat, cat := h.cat, ringv := h.ringv,
             fifo := h.fifo, pm := ?_, cm := ?_, balance := ?_, thr := ?_ }
    · have := h.acct; simp [State.setT, hr, nextProd]; omega
    · have := h.occ; simp [State.setT, hr, nextProd]; omega
    · exact h.pm.frame hth (by simp [holdsP, hp, nextProd])
    · exact h.cm.frame hth (by simp [holdsC, hr])
    · have := h.balance; simp [State.setT, hr, nextProd]; omega
    · exact thr_update h.thr hth
        ⟨by simp, by simp [nextProd], (fun _ => by have := ok.p_orig hr; rw [hi] at this; exact this), by simp [hr], by simp [hr], by simp [hr]⟩
        (fun t th0 _ h0 => h0.frame rfl rfl)

theorem inv_cons_wait {s : State} {tid : Nat} {th : Thread} (h : Inv dP dC s)
    (hth : s.threads[tid]? = some th) (hr : th.role = .cons) (hp : th.pc = .wait) (he : s.used ≠ 0) :
    Inv dP dC { s.setT tid { th with pc := .lock } with used := s.used - 1 } := by
  sum_facts hth { th with pc := .lock }
  simp [isA, isB, isC, isD, remP, remC, b2n, hr, hp] at hA hB hC hD hP hQ
  have ok := h.thr tid th hth
  refine { cap_pos := h.cap_pos, acct := ?_, occ := ?_, pat := h.pat, cat := h.cat, ringv := h.ringv,
           fifo := h.fifo, pm := ?_, cm := ?_, balance := ?_, thr := ?_ }
  · have := h.acct; simp [State.setT, hr]; omega
  · have := h.occ; simp [State.setT, hr]; omega
  · exact h.pm.frame hth (by simp [holdsP, hr])
  · exact h.cm.frame hth (by simp [holdsC, hp])
  · have := h.balance; simp [State.setT, hr]; omega
  · exact thr_update h.thr hth
      ⟨by simp [hr], by simp [hr], by simp [hr], fun _ _ => ok.c_pos hr (Or.inl hp), by simp, ok.c_got⟩
      (fun t th0 _ h0 => h0.frame rfl rfl)

theorem inv_cons_lock {s : State} {tid : Nat} {th : Thread} (h : Inv dP dC s)
    (hth : s.threads[tid]? = some th) (hr : th.role = .cons) (hp : th.pc = .lock) (hm : s.cmutex = none) :
    Inv dP dC { s.setT tid { th with pc := .body } with cmutex := some tid } := by
  sum_facts hth { th with pc := .body }
  simp [isA, isB, isC, isD, remP, remC, b2n, hr, hp] at hA hB hC hD hP hQ
  have ok := h.thr tid th hth
  refine { cap_pos := h.cap_pos, acct := ?_, occ := ?_, pat := h.pat, cat := h.cat, ringv := h.ringv,
           fifo := h.fifo, pm := ?_, cm := ?_, balance := ?_, thr := ?_ }
  · have := h.acct; simp [State.setT, hr]; omega
  · have := h.occ; simp [State.setT, hr]; omega
  · exact h.pm.frame hth (by simp [holdsP, hr])
  · exact MutexOK.acquire (hm ▸ h.cm) hth (by simp [holdsC, hr])
  · have := h.balance; simp [State.setT, hr]; omega
  · exact thr_update h.thr hth
      ⟨by simp [hr], by simp [hr], by simp [hr], fun _ _ => ok.c_pos hr (Or.inr (Or.inl hp)), by simp, ok.c_got⟩
      (fun t th0 _ h0 => h0.frame rfl rfl)

theorem inv_cons_body {s : State} {tid : Nat} {th : Thread} (h : Inv dP dC s)
    (hth : s.threads[tid]? = some th) (hr : th.role = .cons) (hp : th.pc = .body) :
    Inv dP dC { s.setT tid { th with pc := .unlock, quota := th.quota - 1, got := th.got ++ [s.ring s.consumeAt] } with
          consumeAt := wrap s.cap s.consumeAt
          reads := s.reads ++ [(tid, s.ring s.consumeAt)] } := by
  have hC1 : 1 ≤ sumBy isC s.threads := by
    have := sumBy_le (f := isC) hth; simpa [isC, b2n, hr, hp] using this
  have ok := h.thr tid th hth
  have hq : 0 < th.quota := ok.c_pos hr (Or.inr (Or.inr hp))
  sum_facts hth { th with pc := .unlock, quota := th.quota - 1, got := th.got ++ [s.ring s.consumeAt] }
  simp [isA, isB, isC, isD, remP, remC, b2n, hr, hp] at hA hB hC hD hP hQ
  have hacct := h.acct
  have hocc := h.occ
  have hlt : s.reads.length < s.writes.length := by omega
  have hv := h.ringv s.reads.length (Nat.le_refl _) hlt
  rw [← h.cat] at hv
  refine { cap_pos := h.cap_pos, acct := ?_, occ := ?_, pat := h.pat, cat := ?_, ringv := ?_,
           fifo := ?_, pm := ?_, cm := ?_, balance := ?_, thr := ?_ }
  · simp [State.setT, hr]; omega
  · simp [State.setT, hr]; omega
  · simp [State.setT]; rw [h.cat]; exact wrap_mod h.cap_pos
  · intro i hi1 hi2
    simp [State.setT] at hi1 hi2 ⊢
    have := h.ringv i (by omega) hi2
    simpa using this
  · show (s.reads ++ [(tid, s.ring s.consumeAt)]).map (·.2)
        = (s.writes.map (·.2)).take (s.reads ++ [(tid, s.ring s.consumeAt)]).length
    rw [List.length_append, List.length_singleton, List.take_succ, ← h.fifo, List.getElem?_map, hv]
    simp
  · exact h.pm.frame hth (by simp [holdsP, hr])
  · exact h.cm.frame hth (by simp [holdsC, hr, hp])
  · have := h.balance; simp [State.setT, hr]; omega
  · refine thr_update h.thr hth ⟨by simp [hr], by simp [hr], by simp [hr], by simp, by simp, ?_⟩ ?_
    · intro _
      show th.got ++ [s.ring s.consumeAt] = writesOf (s.reads ++ [(tid, s.ring s.consumeAt)]) tid
      rw [writesOf_append_self, ok.c_got hr]
    · intro t th0 hne h0
      exact h0.frame rfl (writesOf_append_other _ _ (Ne.symm hne))

theorem inv_cons_unlock {s : State} {tid : Nat} {th : Thread} (h : Inv dP dC s)
    (hth : s.threads[tid]? = some th) (hr : th.role = .cons) (hp : th.pc = .unlock) :
    Inv dP dC { s.setT tid { th with pc := .post } with cmutex := none } := by
  sum_facts hth { th with pc := .post }
  simp [isA, isB, isC, isD, remP, remC, b2n, hr, hp] at hA hB hC hD hP hQ
  have ok := h.thr tid th hth
  refine { cap_pos := h.cap_pos, acct := ?_, occ := ?_, pat := h.pat, cat := h.cat, ringv := h.ringv,
           fifo := h.fifo, pm := ?_, cm := ?_, balance := ?_, thr := ?_ }
  · have := h.acct; simp [State.setT, hr]; omega
  · have := h.occ; simp [State.setT, hr]; omega
  · exact h.pm.frame hth (by simp [holdsP, hr])
  · exact h.cm.release hth ⟨hr, Or.inr hp⟩ (by simp [holdsC])
  · have := h.balance; simp [State.setT, hr]; omega
  · exact thr_update h.thr hth
      ⟨by simp [hr], by simp [hr], by simp [hr], by simp, by simp, ok.c_got⟩
      (fun t th0 _ h0 => h0.frame rfl rfl)

theorem inv_cons_post {s : State} {tid : Nat} {th : Thread} (h : Inv dP dC s)
    (hth : s.threads[tid]? = some th) (hr : th.role = .cons) (hp : th.pc = .post) :
    Inv dP dC { s.setT tid { th with pc := nextCons th.quota } with empty := s.empty + 1 } := by
  sum_facts hth { th with pc := nextCons th.quota }
  have ok := h.thr tid th hth
  by_cases hq : th.quota = 0
  · simp [isA, isB, isC, isD, remP, remC, b2n, hr, hp, hq, nextCons] at hA hB hC hD hP hQ
    refine { cap_pos := h.cap_pos, acct := ?_, occ := ?_, pat := h.pat, cat := h.cat, ringv := h.ringv,
             fifo := h.fifo, pm := ?_, cm := ?_, balance := ?_, thr := ?_ }
    · have := h.acct; simp [State.setT, hr, hq, nextCons]; omega
    · have := h.occ; simp [State.setT, hr, hq, nextCons]; omega
    · exact h.pm.frame hth (by simp [holdsP, hr])
    · exact h.cm.frame hth (by simp [holdsC, hp, hq, nextCons])
    · have := h.balance; simp [State.setT, hr, hq, nextCons]; omega
    · exact thr_update h.thr hth
        ⟨by simp [hr], by simp [hr], by simp [hr], by simp [hq, nextCons], by simp [hq], ok.c_got⟩
        (fun t th0 _ h0 => h0.frame rfl rfl)
  · simp [isA, isB, isC, isD, remP, remC, b2n, hr, hp, hq, nextCons] at hA hB hC hD hP hQ
    refine { cap_pos := h.cap_pos, acct := ?_, occ := ?_, pat := h.pat, cat := h.cat, ringv := h.ringv,
             fifo := h.fifo, pm := ?_, cm := ?_, balance := ?_, thr := ?_ }
    · have := h.acct; simp [State.setT, hr, hq, nextCons]; omega
    · have := h.occ; simp [State.setT, hr, hq, nextCons]; omega
    · exact h.pm.frame hth (by simp [holdsP, hr])
    · exact h.cm.frame hth (by simp [holdsC, hp, hq, nextCons])
    · have := h.balance; simp [State.setT, hr, hq, nextCons]; omega
    · exact thr_update h.thr hth
        ⟨by simp [hr], by simp [hr], by simp [hr], by simp; omega, by simp [hq, nextCons], ok.c_got⟩
        (fun t th0 _ h0 => h0.frame rfl rfl)

/-- **every step of every thread preserves the invariant** -/
theorem inv_step {s s' : State} {tid : Nat} (h : Inv dP dC s) (hs : step s tid = some s') : Inv dP dC s' := by
  unfold step at hs
  cases hth : s.threads[tid]? with
  | none => simp [hth] at hs
  | some th =>
    simp only [hth] at hs
    obtain ⟨role, pc, items, orig, quota, got⟩ := th
    cases role <;> cases pc <;> simp only at hs
    · -- prod wait
      by_cases he : s.empty = 0
      · simp [he] at hs
      · simp [he] at hs; subst hs; exact inv_prod_wait h hth rfl rfl he
    · by_cases hm : s.pmutex.isSome
      · simp [hm] at hs
      · simp [hm] at hs; subst hs
        exact inv_prod_lock h hth rfl rfl (by simpa using hm)
    · cases items with
      | nil => simp at hs
      | cons v rest => simp at hs; subst hs; exact inv_prod_body h hth rfl rfl rfl
    · simp at hs; subst hs; exact inv_prod_unlock h hth rfl rfl
    · simp at hs; subst hs; exact inv_prod_post h hth rfl rfl
    · simp at hs
    · by_cases he : s.used = 0
      · simp [he] at hs
      · simp [he] at hs; subst hs; exact inv_cons_wait h hth rfl rfl he
    · by_cases hm : s.cmutex.isSome
      · simp [hm] at hs
      · simp [hm] at hs; subst hs
        exact inv_cons_lock h hth rfl rfl (by simpa using hm)
    · simp at hs; subst hs; exact inv_cons_body h hth rfl rfl
    · simp at hs; subst hs; exact inv_cons_unlock h hth rfl rfl
    · simp at hs; subst hs; exact inv_cons_post h hth rfl rfl
    · simp at hs

theorem inv_reach {s0 s : State} (h0 : Inv dP dC s0) (hr : Reach s0 s) : Inv dP dC s := by
  induction hr with
  | init => exact h0
  | step _ hs ih => exact inv_step ih hs

end KV.PCQueue
