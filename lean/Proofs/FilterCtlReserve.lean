import Model.FilterCtl
/-!
The no-reallocation invariant of `InputBuffer`: `Controller` reserves `batch_size` lines per batch
(`ThreadBatch::Reserve`), every `Line` keeps a `StringPiece` into its own `std::string`, so
`lines_` must never grow beyond the reservation.  In the model: whenever the reader is about to
execute `AddNGram`, the current batch holds fewer than `batch_size` lines.
-/
namespace KV.FilterCtl
variable {α : Type}

def CurBelow (cfg : Cfg α) (s : State α) : Prop :=
  s.rpc = .run → ∀ top lr, s.localRead = top :: lr → top.input.length < cfg.batchSize

theorem curBelow_newInput (cfg : Cfg α) (hb : 1 ≤ cfg.batchSize) (s : State α) : CurBelow cfg (newInput cfg s) ∨
    (s.localRead = [] ∧ newInput cfg s = s) := by
  unfold newInput
  cases hl : s.localRead with
  | nil => exact Or.inr ⟨rfl, rfl⟩
  | cons t lr =>
    left
    intro _ top lr' h
    simp only at h
    injection h with h1 _
    subst h1
    simp [fill]; omega

theorem curBelow_reader (cfg : Cfg α) (hb : 1 ≤ cfg.batchSize) {s s' : State α} (h : CurBelow cfg s)
    (hst : readerStep cfg s = some s') : CurBelow cfg s' := by
  have hnew : ∀ x : State α, CurBelow cfg (newInput cfg x) := by
    intro x
    rcases curBelow_newInput cfg hb x with h1 | ⟨h1, h2⟩
    · exact h1
    · rw [h2]; intro _ top lr hl; rw [h1] at hl; cases hl
  unfold readerStep at hst
  split at hst
  · rename_i hrpc
    split at hst
    · simp only [Option.some.injEq] at hst; subst hst; intro hh; cases hh
    · simp only [Option.some.injEq] at hst; subst hst; exact h
    · split at hst
      · simp at hst
      rename_i top lr hlr
      simp only at hst
      split at hst
      · split at hst
        · split at hst
          · simp only [Option.some.injEq] at hst; subst hst; intro hh; cases hh
          · simp only [Option.some.injEq] at hst; subst hst; exact hnew _
        · simp at hst
      · rename_i hne
        simp only [Option.some.injEq] at hst; subst hst
        intro _ top' lr' hl
        simp only at hl
        injection hl with h1 _
        subst h1
        have := h hrpc top lr hlr
        simp only [List.length_append, List.length_cons, List.length_nil] at hne ⊢
        omega
    · split at hst
      · simp at hst
      simp only at hst
      split at hst
      · simp only [Option.some.injEq] at hst; subst hst; intro hh; cases hh
      · split at hst
        · simp only [Option.some.injEq] at hst; subst hst; intro hh; cases hh
        · simp at hst
  · split at hst
    · simp at hst
    · simp only [Option.some.injEq] at hst; subst hst; exact hnew _
  · rename_i hrpc
    split at hst
    · split at hst
      · simp at hst
      · simp only [Option.some.injEq] at hst; subst hst
        intro hh; simp only at hh; rw [hrpc] at hh; cases hh
    · simp only [Option.some.injEq] at hst; subst hst; exact hnew _
  all_goals
    first
    | cases hst
    | (split at hst
       · simp only [Option.some.injEq] at hst; subst hst; intro hh; cases hh
       · simp at hst)

theorem worker_keeps_reader (cfg : Cfg α) {s s' : State α} (i : Nat) (hst : workerStep cfg s i = some s') :
    s'.rpc = s.rpc ∧ s'.localRead = s.localRead := by
  unfold workerStep at hst
  split at hst
  · split at hst
    · simp at hst
    · simp only [Option.some.injEq] at hst; subst hst; exact ⟨rfl, rfl⟩
    · simp only [Option.some.injEq] at hst; subst hst; exact ⟨rfl, rfl⟩
  · split at hst
    · simp only [Option.some.injEq] at hst; subst hst; exact ⟨rfl, rfl⟩
    · simp at hst
  · simp at hst

theorem out_keeps_reader (cfg : Cfg α) {s s' : State α} (hst : outStep cfg s = some s') :
    s'.rpc = s.rpc ∧ s'.localRead = s.localRead := by
  unfold outStep at hst
  split at hst
  · simp at hst
  split at hst
  · split at hst
    · simp only [Option.some.injEq] at hst; subst hst; exact ⟨rfl, rfl⟩
    · simp at hst
  · split at hst
    · simp at hst
    · simp only [Option.some.injEq] at hst; subst hst; exact ⟨rfl, rfl⟩
    · simp only [Option.some.injEq] at hst; subst hst; exact ⟨rfl, rfl⟩

theorem curBelow_reach (cfg : Cfg α) (hb : 1 ≤ cfg.batchSize) (prog : List (ROp α)) {s : State α}
    (hr : Reach cfg prog s) : CurBelow cfg s := by
  induction hr with
  | init =>
    unfold init
    rcases curBelow_newInput cfg hb _ with h1 | ⟨h1, h2⟩
    · exact h1
    · rw [h2]; intro _ top lr hl; simp only at h1; rw [h1] at hl; cases hl
  | step t _ hst ih =>
    cases t with
    | reader => exact curBelow_reader cfg hb ih hst
    | outw =>
      obtain ⟨h1, h2⟩ := out_keeps_reader cfg hst
      intro hh top lr hl; rw [h1] at hh; rw [h2] at hl; exact ih hh top lr hl
    | worker i =>
      obtain ⟨h1, h2⟩ := worker_keeps_reader cfg i hst
      intro hh top lr hl; rw [h1] at hh; rw [h2] at hl; exact ih hh top lr hl

end KV.FilterCtl
