import Model.KNBlocks
/-!
# `CollapseStream` with its marking code (lm/builder/adjust_counts.cc:126-199)

`Model/KNBlocks.lean` models the compaction of `CollapseStream` and leaves the pruning marks out ("applied on arrival and on
copy-in, i.e. to every slot of the output").  Here that sentence is a theorem: `cstartM`/`cstepM` add the three marking blocks
of the real iterator (`StartBlock`: the first slot; `operator++`: the slot that just received `*copy_from_` — `remark` —,
then the new current slot), and `collapseBlockM_eq_map` shows by a step simulation (`rel`) that the block that flows
downstream is `map mk` of the mark-free model's block, provided the `<s>` test does not look at the mark
(`p (mk a) = p a`; `Mark()` sets the top bit of the count, `begin()[1] == kBOS` reads a word id).
-/
namespace KV.KN.Blocks

section Marks
variable {α : Type}

/-- mark the first `k` slots -/
def markPrefix (mk : α → α) (k : Nat) (l : List α) : List α := (l.take k).map mk ++ l.drop k

/-- `StartBlock` with the marking code: slot 0 is marked on arrival -/
def cstartM (p : α → Bool) (mk : α → α) (block : List α) : CState α :=
  { slots := markPrefix mk 1 block, cur := 0, copyEnd := down p (markPrefix mk 1 block) 0 block.length, seen := [] }

/-- `operator++` with the marking code: `remark = true` is the real code (the copied-in record is marked again),
`remark = false` the variant without the first marking block; then the new current slot is marked on arrival -/
def cstepM (p : α → Bool) (mk : α → α) (remark : Bool) (st : CState α) : CState α :=
  match st.slots[st.cur]? with
  | none => st
  | some a =>
    if p a && decide (st.cur + 1 < st.copyEnd) then
      match st.slots[st.copyEnd - 1]? with
      | some b =>
        let sl := st.slots.set st.cur (if remark then mk b else b)
        { slots := sl.modify (st.cur + 1) mk, cur := st.cur + 1, copyEnd := down p sl st.cur (st.copyEnd - 1),
          seen := a :: st.seen }
      | none => { st with slots := st.slots.modify (st.cur + 1) mk, cur := st.cur + 1, seen := a :: st.seen }
    else { st with slots := st.slots.modify (st.cur + 1) mk, cur := st.cur + 1, seen := a :: st.seen }

def cstepsM (p : α → Bool) (mk : α → α) (remark : Bool) : Nat → CState α → CState α
  | 0, st => st
  | k + 1, st => cstepsM p mk remark k (cstepM p mk remark st)

def collapseBlockM (p : α → Bool) (mk : α → α) (remark : Bool) (block : List α) : List α × List α :=
  let st := cstepsM p mk remark block.length (cstartM p mk block)
  (st.seen.reverse, st.slots.take st.copyEnd)

def collapseStreamM (p : α → Bool) (mk : α → α) (remark : Bool) (blocks : List (List α)) : List α :=
  blocks.flatMap fun b => (collapseBlockM p mk remark b).2

end Marks


section MarksProof
variable {α : Type}

theorem markPrefix_getElem? (mk : α → α) (k : Nat) (l : List α) (i : Nat) :
    (markPrefix mk k l)[i]? = if i < k then l[i]?.map mk else l[i]? := by
  unfold markPrefix
  by_cases h : i < k
  · simp only [h, if_true]
    by_cases hl : i < l.length
    · rw [List.getElem?_append_left (by simp; omega)]
      simp [List.getElem?_map, h]
    · have : l[i]? = none := by simp; omega
      rw [this]
      simp only [Option.map_none]
      rw [List.getElem?_eq_none_iff]; simp; omega
  · simp only [h, if_false]
    by_cases hl : k ≤ l.length
    · rw [List.getElem?_append_right (by simp; omega)]
      simp only [List.length_map, List.length_take, List.getElem?_drop]
      congr 1; omega
    · have : l[i]? = none := by simp; omega
      rw [this, List.getElem?_eq_none_iff]; simp; omega

theorem markPrefix_length (mk : α → α) (k : Nat) (l : List α) : (markPrefix mk k l).length = l.length := by
  unfold markPrefix; simp; omega

theorem down_markPrefix (p : α → Bool) (mk : α → α) (hp : ∀ a, p (mk a) = p a) (k : Nat) (l : List α) (cur : Nat) :
    ∀ e, down p (markPrefix mk k l) cur e = down p l cur e := by
  intro e
  induction e with
  | zero => rfl
  | succ e ih =>
    simp only [down]
    split
    · rfl
    · rw [markPrefix_getElem?]
      by_cases h : e < k
      · simp only [h, if_true]
        cases hl : l[e]? with
        | none => simp [ih]
        | some a => simp [hp, ih]
      · simp only [h, if_false]
        cases hl : l[e]? with
        | none => simp [ih]
        | some a => simp [ih]


theorem markPrefix_set (mk : α → α) (c : Nat) (l : List α) (b : α) :
    (markPrefix mk (c + 1) l).set c (mk b) = markPrefix mk (c + 1) (l.set c b) := by
  apply List.ext_getElem?
  intro i
  rw [List.getElem?_set, markPrefix_getElem?, markPrefix_getElem?, List.getElem?_set, markPrefix_length]
  by_cases h : c = i
  · subst h
    by_cases hl : c < l.length <;> simp [hl]
  · simp [h]

theorem markPrefix_modify (mk : α → α) (c : Nat) (l : List α) :
    (markPrefix mk (c + 1) l).modify (c + 1) mk = markPrefix mk (c + 2) l := by
  apply List.ext_getElem?
  intro i
  rw [List.getElem?_modify, markPrefix_getElem?, markPrefix_getElem?]
  by_cases h : c + 1 = i
  · subst h; simp
  · simp only [h, if_false]
    by_cases h2 : i < c + 1
    · have : i < c + 2 := by omega
      simp [h2, this]
    · have : ¬ i < c + 2 := by omega
      simp [h2, this]

/-- the state of the marking iterator that corresponds to a state of the mark-free model -/
def rel (mk : α → α) (st : CState α) : CState α :=
  { slots := markPrefix mk (st.cur + 1) st.slots, cur := st.cur, copyEnd := st.copyEnd, seen := st.seen.map mk }

theorem cstepM_rel (p : α → Bool) (mk : α → α) (hp : ∀ a, p (mk a) = p a) (st : CState α) :
    cstepM p mk true (rel mk st) = rel mk (cstep p st) := by
  unfold cstepM cstep
  have h0 : (rel mk st).slots[(rel mk st).cur]? = st.slots[st.cur]?.map mk := by
    simp [rel, markPrefix_getElem?]
  rw [h0]
  cases ha : st.slots[st.cur]? with
  | none => simp
  | some a =>
    simp only [Option.map_some, hp]
    by_cases hc : (p a && decide (st.cur + 1 < st.copyEnd)) = true
    · have hc' : (p a && decide ((rel mk st).cur + 1 < (rel mk st).copyEnd)) = true := hc
      rw [if_pos hc, if_pos hc']
      have hlt : st.cur + 1 < st.copyEnd := by
        simp only [Bool.and_eq_true, decide_eq_true_eq] at hc; exact hc.2
      have h1 : (rel mk st).slots[(rel mk st).copyEnd - 1]? = st.slots[st.copyEnd - 1]? := by
        simp only [rel, markPrefix_getElem?]
        rw [if_neg (by omega)]
      rw [h1]
      cases hb : st.slots[st.copyEnd - 1]? with
      | none => simp [rel, markPrefix_modify]
      | some b =>
        simp only [rel, if_true, markPrefix_set, markPrefix_modify, down_markPrefix p mk hp, List.map_cons]
    · rw [if_neg hc, if_neg (show ¬ (p a && decide ((rel mk st).cur + 1 < (rel mk st).copyEnd)) = true from hc)]
      simp [rel, markPrefix_modify]

theorem cstepsM_rel (p : α → Bool) (mk : α → α) (hp : ∀ a, p (mk a) = p a) :
    ∀ k (st : CState α), cstepsM p mk true k (rel mk st) = rel mk (csteps p k st) := by
  intro k
  induction k with
  | zero => intro st; rfl
  | succ k ih => intro st; simp only [cstepsM, csteps]; rw [cstepM_rel p mk hp, ih]

theorem cstartM_rel (p : α → Bool) (mk : α → α) (hp : ∀ a, p (mk a) = p a) (block : List α) :
    cstartM p mk block = rel mk (cstart p block) := by
  simp [cstartM, rel, cstart, down_markPrefix p mk hp]

theorem csteps_cur (p : α → Bool) : ∀ k (st : CState α), k + st.cur ≤ st.slots.length →
    (csteps p k st).cur = st.cur + k ∧ (csteps p k st).slots.length = st.slots.length := by
  intro k
  induction k with
  | zero => intro st _; exact ⟨rfl, rfl⟩
  | succ k ih =>
    intro st h
    have hlt : st.cur < st.slots.length := by omega
    have hs : (cstep p st).cur = st.cur + 1 ∧ (cstep p st).slots.length = st.slots.length := by
      unfold cstep
      rw [List.getElem?_eq_getElem hlt]
      simp only
      split
      · split <;> simp
      · simp
    obtain ⟨h1, h2⟩ := ih (cstep p st) (by rw [hs.1, hs.2]; omega)
    simp only [csteps]
    exact ⟨by rw [h1, hs.1]; omega, by rw [h2, hs.2]⟩

/-- one block: the marking iterator delivers the marked image of what the mark-free model delivers -/
theorem collapseBlockM_eq_map (p : α → Bool) (mk : α → α) (hp : ∀ a, p (mk a) = p a) (block : List α) :
    (collapseBlockM p mk true block).2 = ((collapseBlock p block).2).map mk := by
  unfold collapseBlockM collapseBlock
  simp only
  rw [cstartM_rel p mk hp, cstepsM_rel p mk hp]
  obtain ⟨hc, hl⟩ := csteps_cur p block.length (cstart p block) (by simp [cstart])
  simp only [rel]
  have : markPrefix mk ((csteps p block.length (cstart p block)).cur + 1) (csteps p block.length (cstart p block)).slots
      = (csteps p block.length (cstart p block)).slots.map mk := by
    unfold markPrefix
    rw [List.take_of_length_le (by rw [hl, hc]; simp [cstart]), List.drop_eq_nil_of_le (by rw [hl, hc]; simp [cstart])]
    simp
  rw [this, List.map_take]

end MarksProof


end KV.KN.Blocks
