import Model.Format
import Proofs.Format
/-! Helper lemmas for C19 (core only): the integer reader inverts the integer formatter. -/
namespace KV.Format

/-- the text that follows a number does not continue it (end of input, white space, …) -/
def NoDigitHead (rest : List Char) : Prop := ∀ c, rest.head? = some c → c.isDigit = false

theorem noDigitHead_nil : NoDigitHead [] := by intro c h; simp at h

theorem spanDigits_append (ds rest : List Char) (hd : ∀ c ∈ ds, c.isDigit = true) (hr : NoDigitHead rest) :
    spanDigits (ds ++ rest) = (ds, rest) := by
  induction ds with
  | nil =>
    cases rest with
    | nil => rfl
    | cons c cs =>
      have : c.isDigit = false := hr c rfl
      simp [spanDigits, this]
  | cons d t ih =>
    have hd' : d.isDigit = true := hd d (by simp)
    have := ih (fun c hc => hd c (by simp [hc]))
    simp [spanDigits, hd', this]

theorem isSpaceC_of_isDigit {c : Char} (h : c.isDigit = true) : isSpaceC c = false := by
  unfold isSpaceC
  simp only [Bool.or_eq_false_iff, beq_eq_false_iff_ne, ne_eq]
  refine ⟨⟨⟨⟨⟨?_, ?_⟩, ?_⟩, ?_⟩, ?_⟩, ?_⟩ <;> (intro hc; subst hc; revert h; decide)

theorem takeSign_of_isDigit {c : Char} (t : List Char) (h : c.isDigit = true) : takeSign (c :: t) = (false, c :: t) := by
  have h1 : c ≠ '-' := by intro hc; subst hc; revert h; decide
  have h2 : c ≠ '+' := by intro hc; subst hc; revert h; decide
  unfold takeSign
  split
  · rename_i heq; simp at heq; exact absurd heq.1 h1
  · rename_i heq; simp at heq; exact absurd heq.1 h2
  · rfl

theorem fmtNat_isDigit (n : Nat) : ∀ c ∈ fmtNat n, c.isDigit = true :=
  fun _ hc => Nat.isDigit_of_mem_toDigits (by decide) (by decide) hc

theorem fmtNat_cons (n : Nat) : ∃ d t, fmtNat n = d :: t ∧ d.isDigit = true := by
  have hne : fmtNat n ≠ [] := Nat.toDigits_ne_nil
  cases h : fmtNat n with
  | nil => exact absurd h hne
  | cons d t => exact ⟨d, t, rfl, fmtNat_isDigit n d (by simp [h])⟩

theorem ofDigitChars_fmtNat (n : Nat) : Nat.ofDigitChars 10 (fmtNat n) 0 = n := Nat.ofDigitChars_ten_toDigits

/-- core of both readers: an unsigned digit string followed by a non-digit. -/
theorem read_prefix (n : Nat) (rest : List Char) (hr : NoDigitHead rest) :
    (fmtNat n ++ rest).dropWhile isSpaceC = fmtNat n ++ rest ∧
    takeSign (fmtNat n ++ rest) = (false, fmtNat n ++ rest) ∧
    spanDigits (fmtNat n ++ rest) = (fmtNat n, rest) ∧ (fmtNat n).isEmpty = false := by
  obtain ⟨d, t, hdt, hd⟩ := fmtNat_cons n
  refine ⟨?_, ?_, spanDigits_append _ _ (fmtNat_isDigit n) hr, ?_⟩
  · rw [hdt, List.cons_append, List.dropWhile_cons_of_neg (by simp [isSpaceC_of_isDigit hd])]
  · rw [hdt, List.cons_append, takeSign_of_isDigit _ hd]
  · rw [hdt]; rfl

theorem readULong_fmtNat (n : Nat) (rest : List Char) (hn : n < 2 ^ 64) (hr : NoDigitHead rest) :
    readULong (fmtNat n ++ rest) = .ok (n, rest) := by
  obtain ⟨h1, h2, h3, h4⟩ := read_prefix n rest hr
  have h5 : ¬ n ≥ 2 ^ 64 := by omega
  simp only [readULong, h1, h2, h3, h4, ofDigitChars_fmtNat, h5, if_false, Bool.false_eq_true]

theorem readLong_fmtInt (i : Int) (rest : List Char) (h1 : -2 ^ 63 ≤ i) (h2 : i < 2 ^ 63) (hr : NoDigitHead rest) :
    readLong (fmtInt i ++ rest) = .ok (i, rest) := by
  obtain ⟨p1, p2, p3, p4⟩ := read_prefix i.natAbs rest hr
  unfold fmtInt
  by_cases hneg : i < 0
  · have hs : (('-' :: fmtNat i.natAbs) ++ rest).dropWhile isSpaceC = '-' :: (fmtNat i.natAbs ++ rest) := by
      rw [List.cons_append, List.dropWhile_cons_of_neg (by decide)]
    have ht : takeSign ('-' :: (fmtNat i.natAbs ++ rest)) = (true, fmtNat i.natAbs ++ rest) := rfl
    have h5 : ¬ i.natAbs > 2 ^ 63 := by omega
    have h6 : -((i.natAbs : Nat) : Int) = i := by omega
    simp only [if_pos hneg, readLong, hs, ht, p3, p4, ofDigitChars_fmtNat, h5, if_false, Bool.false_eq_true, if_true, h6]
  · have h5 : ¬ i.natAbs ≥ 2 ^ 63 := by omega
    have h6 : ((i.natAbs : Nat) : Int) = i := by omega
    simp only [if_neg hneg, readLong, p1, p2, p3, p4, ofDigitChars_fmtNat, h5, if_false, Bool.false_eq_true, h6]

end KV.Format
