import Proofs.ProbingP2
/-!
`AutoProbing`'s real backend is `ProbingHashTable<…, Power2Mod>`: `Double` and the `AutoProbing`
operations written with the mask arithmetic coincide with the `DivMod` forms the theorems are about,
as long as the bucket count is a power of two — which `RoundBuckets` establishes and `Double` preserves.
-/
namespace KV.Probing

/-- `Power2Mod::Double`: `mask_ = (mask_ << 1) | 1` is the mask of the doubled bucket count -/
theorem mask_double (N : Nat) (hN : 0 < N) : (((N - 1) <<< 1) ||| 1) + 1 = 2 * N := by
  rw [← Nat.shiftLeft_add_eq_or_of_lt (by decide : 1 < 2^1), Nat.shiftLeft_eq]
  omega

theorem reinsertP2_eq (h : Nat → Nat) (j : Nat) : ∀ (n i : Nat) (s : Slots),
    reinsertP2 h (2^j) n i s = reinsert h (2^j) n i s := by
  intro n
  induction n with
  | zero => intro i s; rfl
  | succ n ih =>
    intro i s
    simp only [reinsertP2, reinsert, firstEmpty]
    cases s i with
    | none => exact ih (i + 1) s
    | some e =>
      obtain ⟨k, v⟩ := e
      simp only []
      rw [idealP2_eq, firstEmptyWith_P2 _ j _ _ (ideal_lt_pow h j k)]
      cases firstEmptyWith (next (2 ^ j)) (set s i none) (2 ^ j) (ideal h (2 ^ j) k) with
      | none => rfl
      | some q => exact ih (i + 1) _

theorem insertAllP2_eq (h : Nat → Nat) (j : Nat) : ∀ (buf : List Entry) (s : Slots),
    insertAllP2 h (2^j) buf s = insertAll h (2^j) buf s := by
  intro buf
  induction buf with
  | nil => intro s; rfl
  | cons e rest ih =>
    intro s
    obtain ⟨k, v⟩ := e
    simp only [insertAllP2, insertAll, firstEmpty]
    rw [idealP2_eq, firstEmptyWith_P2 _ j _ _ (ideal_lt_pow h j k)]
    cases firstEmptyWith (next (2 ^ j)) s (2 ^ j) (ideal h (2 ^ j) k) with
    | none => rfl
    | some q => exact ih _

theorem doubleP2_eq (h : Nat → Nat) (t : Table) (j : Nat) (hN : t.N = 2^j) : doubleP2 h t = double h t := by
  have hm : (((t.N - 1) <<< 1) ||| 1) + 1 = 2^(j+1) := by
    rw [mask_double t.N (by rw [hN]; exact Nat.two_pow_pos j), hN, Nat.pow_succ]; omega
  have h2 : 2 * t.N = 2^(j+1) := by rw [hN, Nat.pow_succ]; omega
  simp only [doubleP2, double, hm, h2, reinsertP2_eq, insertAllP2_eq]

theorem double_N (h : Nat → Nat) (t t' : Table) (hd : double h t = some t') : t'.N = 2 * t.N := by
  unfold double at hd
  simp only [] at hd
  split at hd
  · cases hd
  · split at hd
    · cases hd
    · injection hd with hd; rw [← hd]

theorem uncheckedInsert_N (h : Nat → Nat) (t t' : Table) (k v q : Nat)
    (hu : uncheckedInsert h t k v = some (q, t')) : t'.N = t.N := by
  unfold uncheckedInsert at hu
  split at hu
  · cases hu
  · injection hu with hu; injection hu with _ hu; rw [← hu]

theorem findOrInsert_N (h : Nat → Nat) (t t' : Table) (k v p w : Nat) (b : Bool)
    (hf : findOrInsert h t k v = .ok (b, p, w, t')) : t'.N = t.N := by
  unfold findOrInsert at hf
  split at hf
  · cases hf
  · injection hf with hf; injection hf with _ hf; injection hf with _ hf; injection hf with _ hf; rw [← hf]
  · simp only [] at hf
    split at hf
    · cases hf
    · injection hf with hf; injection hf with _ hf; injection hf with _ hf; injection hf with _ hf; rw [← hf]

def Pow2 (n : Nat) : Prop := ∃ j, n = 2^j

theorem Pow2_double (n : Nat) (hp : Pow2 n) : Pow2 (2 * n) := by
  obtain ⟨j, rfl⟩ := hp
  exact ⟨j + 1, by rw [Nat.pow_succ]; omega⟩

theorem doubleIfNeededP2_eq (h : Nat → Nat) (θ : Nat → Nat) (a : Auto) (hp : Pow2 a.t.N) :
    doubleIfNeededP2 h θ a = doubleIfNeeded h θ a := by
  obtain ⟨j, hj⟩ := hp
  simp only [doubleIfNeededP2, doubleIfNeeded, doubleP2_eq h a.t j hj]

theorem doubleIfNeeded_pow2 (h : Nat → Nat) (θ : Nat → Nat) (a a2 : Auto) (hp : Pow2 a.t.N)
    (hd : doubleIfNeeded h θ a = some a2) : Pow2 a2.t.N := by
  unfold doubleIfNeeded at hd
  split at hd
  · injection hd with hd; rw [← hd]; exact hp
  · split at hd
    · cases hd
    · next t' ht' =>
      injection hd with hd
      rw [← hd]
      show Pow2 t'.N
      rw [double_N h a.t t' ht']
      exact Pow2_double _ hp

theorem auto_insertP2_eq (h : Nat → Nat) (θ : Nat → Nat) (a : Auto) (k v : Nat) (hp : Pow2 a.t.N) :
    a.insertP2 h θ k v = a.insert h θ k v := by
  unfold Auto.insertP2 Auto.insert
  rw [doubleIfNeededP2_eq h θ { a with t := { a.t with entries := a.t.entries + 1 } } hp]
  cases hd : doubleIfNeeded h θ { a with t := { a.t with entries := a.t.entries + 1 } } with
  | none => rfl
  | some a2 =>
    obtain ⟨j', hj'⟩ := doubleIfNeeded_pow2 h θ { a with t := { a.t with entries := a.t.entries + 1 } } a2 hp hd
    simp only []
    rw [uncheckedInsertP2_eq h a2.t j' k v hj']

theorem auto_findOrInsertP2_eq (h : Nat → Nat) (θ : Nat → Nat) (a : Auto) (k v : Nat) (hp : Pow2 a.t.N) :
    a.findOrInsertP2 h θ k v = a.findOrInsert h θ k v := by
  unfold Auto.findOrInsertP2 Auto.findOrInsert
  rw [doubleIfNeededP2_eq h θ _ hp]
  cases hd : doubleIfNeeded h θ a with
  | none => rfl
  | some a2 =>
    obtain ⟨j', hj'⟩ := doubleIfNeeded_pow2 h θ _ a2 hp hd
    simp only []
    rw [findOrInsertP2_eq h a2.t j' k v hj']

theorem auto_insert_pow2 (h : Nat → Nat) (θ : Nat → Nat) (a a' : Auto) (k v q : Nat) (hp : Pow2 a.t.N)
    (hi : a.insert h θ k v = some (q, a')) : Pow2 a'.t.N := by
  unfold Auto.insert at hi
  split at hi
  · cases hi
  · next a2 hd =>
    have hp2 := doubleIfNeeded_pow2 h θ { a with t := { a.t with entries := a.t.entries + 1 } } a2 hp hd
    split at hi
    · cases hi
    · next q' t' hu =>
      injection hi with hi; injection hi with _ hi
      rw [← hi]
      show Pow2 t'.N
      rw [uncheckedInsert_N h a2.t t' k v q' hu]; exact hp2

theorem auto_findOrInsert_pow2 (h : Nat → Nat) (θ : Nat → Nat) (a a' : Auto) (k v p w : Nat) (b : Bool)
    (hp : Pow2 a.t.N) (hf : a.findOrInsert h θ k v = .ok (b, p, w, a')) : Pow2 a'.t.N := by
  unfold Auto.findOrInsert at hf
  split at hf
  · cases hf
  · next a2 hd =>
    have hp2 := doubleIfNeeded_pow2 h θ _ a2 hp hd
    split at hf
    · cases hf
    · cases hf
    · next b' p' w' t' hu =>
      injection hf with hf; injection hf with _ hf; injection hf with _ hf; injection hf with _ hf
      rw [← hf]
      show Pow2 t'.N
      rw [findOrInsert_N h a2.t t' k v p' w' b' hu]; exact hp2

theorem stepAP2_eq (h : Nat → Nat) (θ : Nat → Nat) (a : Auto) (op : Op) (hp : Pow2 a.t.N) :
    stepAP2 h θ a op = stepA h θ a op := by
  obtain ⟨j, hj⟩ := hp
  cases op with
  | insert k v => simp only [stepAP2, stepA, auto_insertP2_eq h θ a k v ⟨j, hj⟩]
  | findOrInsert k v => simp only [stepAP2, stepA, auto_findOrInsertP2_eq h θ a k v ⟨j, hj⟩]
  | find k =>
    simp only [stepAP2, stepA, findPosP2_eq h a.t j k hj, Auto.find, find, findPos]
    cases scan a.t.s a.t.N k a.t.N (ideal h a.t.N k) with
    | none => rfl
    | some r => cases r <;> rfl

theorem stepA_pow2 (h : Nat → Nat) (θ : Nat → Nat) (a a' : Auto) (op : Op) (o : Out) (hp : Pow2 a.t.N)
    (hs : stepA h θ a op = some (o, a')) (hne : o ≠ .full) : Pow2 a'.t.N := by
  cases op with
  | insert k v =>
    simp only [stepA] at hs
    split at hs
    · next q a1 hi =>
      injection hs with hs; injection hs with _ hs; rw [← hs]
      exact auto_insert_pow2 h θ a a1 k v q hp hi
    · cases hs
  | findOrInsert k v =>
    simp only [stepA] at hs
    split at hs
    · next b p w a1 hf =>
      injection hs with hs; injection hs with _ hs; rw [← hs]
      exact auto_findOrInsert_pow2 h θ a a1 k v p w b hp hf
    · injection hs with hs; injection hs with ho _; exact absurd ho.symm hne
    · cases hs
  | find k =>
    simp only [stepA] at hs
    split at hs
    · injection hs with hs; injection hs with _ hs; rw [← hs]; exact hp
    · cases hs

end KV.Probing
