import Proofs.ProbingBuildChainSem
/-! `MaxRestBuild` (`rest = true`, RestProbingModel): the rest cost of a key is the maximum of the values of the stored
keys it is a (reversed) prefix of — "max over left extensions".  Per-line step for lines whose immediate suffix is stored. -/
namespace KV.ProbingBuild
open KV.Arpa KV.Table KV.Score KV.ProbingLM

/-- `rest(k)` given the stored keys: the maximum of `val` over `k` and the stored keys having `k` as reversed prefix
(= the n-grams, real or blank, that extend `k` to the left, transitively) -/
def restOf (a : Arpa) (S : List Key) (k : Key) : Rat :=
  S.foldl (fun m k' => if k.isPrefixOf k' then max m (val a k') else m) (val a k)

theorem restOf_append (a : Arpa) (S : List Key) (g k : Key) :
    restOf a (S ++ [g]) k = if k.isPrefixOf g then max (restOf a S k) (val a g) else restOf a S k := by
  simp [restOf, List.foldl_append]

theorem foldMax_ge_init (c : Key → Bool) (v : Key → Rat) : ∀ (S : List Key) (init : Rat),
    init ≤ S.foldl (fun m k' => if c k' then max m (v k') else m) init := by
  intro S
  induction S with
  | nil => intro init; exact Rat.le_refl
  | cons x xs ih =>
    intro init
    simp only [List.foldl_cons]
    have := ih (if c x then max init (v x) else init)
    by_cases hc : c x <;> simp only [hc, if_true, Bool.false_eq_true, if_false] at this ⊢ <;> grind

theorem foldMax_ge_mem (c : Key → Bool) (v : Key → Rat) : ∀ (S : List Key) (init : Rat) (k' : Key), k' ∈ S → c k' = true →
    v k' ≤ S.foldl (fun m k' => if c k' then max m (v k') else m) init := by
  intro S
  induction S with
  | nil => intro init k' h; cases h
  | cons x xs ih =>
    intro init k' hk hc
    simp only [List.foldl_cons]
    rcases List.mem_cons.mp hk with h | h
    · subst h
      have := foldMax_ge_init c v xs (if c k' then max init (v k') else init)
      simp only [hc, if_true] at this
      grind
    · exact ih _ k' h hc

theorem foldMax_le (c : Key → Bool) (v : Key → Rat) (B : Rat) : ∀ (S : List Key) (init : Rat), init ≤ B →
    (∀ k' ∈ S, c k' = true → v k' ≤ B) → S.foldl (fun m k' => if c k' then max m (v k') else m) init ≤ B := by
  intro S
  induction S with
  | nil => intro init h _; exact h
  | cons x xs ih =>
    intro init h hS
    simp only [List.foldl_cons]
    apply ih
    · by_cases hc : c x
      · have := hS x (by simp) hc
        simp only [hc, if_true]; grind
      · simp only [hc, Bool.false_eq_true, if_false]; exact h
    · intro k' hk hc; exact hS k' (List.mem_cons_of_mem _ hk) hc

theorem restOf_ge_self (a : Arpa) (S : List Key) (k : Key) : val a k ≤ restOf a S k := foldMax_ge_init _ _ S _
theorem restOf_ge_mem (a : Arpa) (S : List Key) (k k' : Key) (hk : k' ∈ S) (hp : k <+: k') : val a k' ≤ restOf a S k :=
  foldMax_ge_mem _ _ S _ k' hk (List.isPrefixOf_iff_prefix.mpr hp)
theorem restOf_le (a : Arpa) (S : List Key) (k : Key) (B : Rat) (h0 : val a k ≤ B)
    (h : ∀ k' ∈ S, k <+: k' → val a k' ≤ B) : restOf a S k ≤ B :=
  foldMax_le _ _ B S _ h0 (fun k' hk hc => h k' hk (List.isPrefixOf_iff_prefix.mp hc))

/-- monotone along prefixes: a shorter key has at least the rest of a stored longer one -/
theorem restOf_mono (a : Arpa) (S : List Key) (k : Key) (j : Nat) (hk : k ∈ S ∨ k.take j = k) :
    restOf a S k ≤ restOf a S (k.take j) := by
  apply restOf_le
  · rcases hk with h | h
    · exact restOf_ge_mem a S _ k h (List.take_prefix j k)
    · rw [h]; exact restOf_ge_self a S k
  · intro k' hk' hp
    exact restOf_ge_mem a S _ k' hk' ((List.take_prefix j k).trans hp)

/-- the payload of a key under `MaxRestBuild` -/
def wantT (a : Arpa) (u0 : List W) (S : List Key) (k : Key) : W := { (wantAll a u0 S k) with rest := restOf a S k }

/-- `MarkExtends` under `MaxRestBuild`: clear the sign, raise `rest` -/
theorem markExtends_true (w : W) (lr : Rat) : (markExtends true w lr).1 = { w with neg := false, rest := max w.rest lr } := by
  unfold markExtends
  simp only [if_true]
  by_cases h : w.rest ≥ lr
  · simp only [h, if_true]
    have : max w.rest lr = w.rest := by grind
    rw [this]
  · simp only [h, if_false]
    have : max w.rest lr = lr := by grind
    rw [this]

theorem markExtends_true_changed (w : W) (lr : Rat) : (markExtends true w lr).2 = !decide (w.rest ≥ lr) := by
  unfold markExtends
  simp only [if_true]
  by_cases h : w.rest ≥ lr <;> simp [h]


/-- `Insert` of the line itself, on the key-indexed view -/
theorem stP_insert {combine : Nat → Word → Nat} {N : Nat} {caps : Nat → Nat} {U : Nat} {s : St} {Ks : Nat → List Key} {want : Key → W}
    (h : StP combine N caps U s Ks want) (p : Key) (e : Entry) (hn2 : 2 ≤ p.length) (hnN : p.length ≤ N)
    (hnew : p ∉ Ks p.length) (hfresh : ∀ k' ∈ Ks p.length, hashOf combine k' ≠ hashOf combine p)
    (hcap : (Ks p.length).length + 1 < caps p.length) :
    ∃ s1, insPhase combine N s p e = .ok s1 ∧
      StP combine N caps U s1 (fun m => if m = p.length then Ks p.length ++ [p] else Ks m) (updW want p (lineW e)) := by
  obtain ⟨M, hP⟩ := h.tabs p.length hn2 hnN
  obtain ⟨o', hins, oi', hpay', hN', hent'⟩ := ord_insert hP.inv (hashOf combine p) (lineW e) (hP.find_fresh p hfresh)
    (by rw [hP.ent, hP.cap]; exact hcap)
  obtain ⟨s1, hph, hu1, hml1, ht1, hto⟩ := insPhase_ok combine N s p e o' hn2 hnN h.midlen hins
  refine ⟨s1, hph, hml1, ?_, ?_, by rw [hu1]; exact h.ulen, ?_⟩
  · intro m hm2 hmN
    by_cases hm : m = p.length
    · subst hm
      simp only [if_true]
      rw [ht1]
      exact ⟨_, ordP_append hP p (lineW e) hnew hfresh o' oi' hpay' hN' hent'⟩
    · simp only [hm, if_false]
      rw [hto m hm hm2]
      obtain ⟨M', hP'⟩ := h.tabs m hm2 hmN
      refine ⟨M', ordP_congr hP' ?_⟩
      intro k' hk'
      have hl' := h.klen m k' hk'
      have hne : k' ≠ p := by intro he; rw [he] at hl'; exact hm hl'.symm
      simp [updW, hne]
  · intro m k' hk'
    by_cases hm : m = p.length
    · subst hm
      simp only [if_true, List.mem_append, List.mem_singleton] at hk'
      rcases hk' with hk' | hk'
      · exact h.klen _ k' hk'
      · rw [hk']
    · simp only [hm, if_false] at hk'
      exact h.klen m k' hk'
  · intro w'
    rw [hu1, h.uni w']
    have hne : [w'] ≠ p := by intro he; rw [← he] at hn2; simp at hn2
    simp [updW, hne]

/-- `MarkLower` (`kMarkEvenLower`): the prefixes of orders `J .. 1` get `MarkExtends(·, lr)`; the early exit is sound when
`rest` is monotone along the prefixes and their sign bits are already clear -/
theorem markLower_chain (combine : Nat → Word → Nat) (N : Nat) (caps : Nat → Nat) (U : Nat) (p : Key) (Ks : Nat → List Key) (lr : Rat) :
    ∀ (J : Nat) (s : St) (want : Key → W), StP combine N caps U s Ks want → J < N → J ≤ p.length →
      (∀ j, 2 ≤ j → j ≤ J → p.take j ∈ Ks j) → (1 ≤ J → p.headD 0 < U) →
      (∀ j, 1 ≤ j → j < J → (want (p.take (j + 1))).rest ≤ (want (p.take j)).rest) →
      (∀ j, 1 ≤ j → j ≤ J → (want (p.take j)).neg = false) →
      ∃ s', markLower combine p lr J s = .ok s' ∧
        StP combine N caps U s' Ks (fun k => if 1 ≤ k.length ∧ k.length ≤ J ∧ k = p.take k.length
          then (markExtends true (want k) lr).1 else want k) := by
  intro J
  induction J using Nat.strongRecOn with
  | _ J ih =>
    intro s want h hJN hJl hmem hU H1 H2
    match J, ih, hJN, hJl, hmem, hU, H1, H2 with
    | 0, _, _, _, _, _, _, _ =>
      refine ⟨s, rfl, stP_congr h (fun _ => rfl) (fun k => ?_)⟩
      rw [if_neg (by omega)]
    | 1, _, _, hJl, _, hU, _, _ =>
      have hd : Den N U Ks (.uni (p.headD 0)) (p.take 1) := ⟨take_one_headD p hJl, hU (Nat.le_refl _)⟩
      refine ⟨_, rfl, stP_congr (stP_modify h _ _ hd (fun w => (markExtends true w lr).1)) (fun _ => rfl) (fun k => ?_)⟩
      have hl1 : (p.take 1).length = 1 := by rw [List.length_take]; omega
      unfold updW
      by_cases hk : k = p.take 1
      · rw [if_pos hk, if_pos ⟨by rw [hk, hl1]; omega, by rw [hk, hl1]; omega, by rw [hk, hl1]⟩, hk]
      · rw [if_neg hk, if_neg]
        rintro ⟨h1, h2, h3⟩
        have : k.length = 1 := by omega
        rw [this] at h3; exact hk h3
    | el+2, ih, hJN, hJl, hmem, hU, H1, H2 =>
      have hlK : (p.take (el + 2)).length = el + 2 := by rw [List.length_take]; omega
      obtain ⟨i, hden, _, hfind⟩ := stP_lookup h (el + 2) (by omega) hJN _ (hmem (el + 2) (by omega) (Nat.le_refl _)) blankW
      simp only [Nat.add_sub_cancel] at hden hfind
      have hget := stP_get h _ _ hden
      have h1 := stP_modify h _ _ hden (fun _ => (markExtends true (s.get (.mid el i)) lr).1)
      rw [hget] at h1
      have hK : ∀ k, (k = p.take (el + 2)) ↔ (k.length = el + 2 ∧ k = p.take k.length) := by
        intro k
        constructor
        · intro hk; rw [hk, hlK]; exact ⟨rfl, rfl⟩
        · rintro ⟨hl, hk⟩; rw [hl] at hk; exact hk
      by_cases hch : (want (p.take (el + 2))).rest ≥ lr
      · -- not raised: stop
        have hr2 : (markExtends true (want (p.take (el + 2))) lr).2 = false := by
          rw [markExtends_true_changed]; simp [hch]
        refine ⟨_, ?_, stP_congr h1 (fun _ => rfl) (fun k => ?_)⟩
        · simp only [markLower, hfind, bind, Except.bind, hget, hr2, Bool.false_eq_true, if_false]
        · have hchain : ∀ d j, j + d = el + 2 → 1 ≤ j → (want (p.take (el + 2))).rest ≤ (want (p.take j)).rest := by
            intro d
            induction d with
            | zero => intro j hj _; rw [show j = el + 2 by omega]; exact Rat.le_refl
            | succ d ihd =>
              intro j hj hj1
              have := ihd (j + 1) (by omega) (by omega)
              exact Rat.le_trans this (H1 j hj1 (by omega))
          unfold updW
          by_cases hk : k = p.take (el + 2)
          · rw [if_pos hk, if_pos ⟨by rw [hk, hlK]; omega, by rw [hk, hlK]; omega, by rw [hk, hlK]⟩, hk]
          · rw [if_neg hk]
            by_cases hc : 1 ≤ k.length ∧ k.length ≤ el + 2 ∧ k = p.take k.length
            · rw [if_pos hc, markExtends_true]
              have hlt : k.length < el + 2 := by
                have : k.length ≠ el + 2 := fun hl => hk ((hK k).mpr ⟨hl, hc.2.2⟩)
                omega
              have hn := H2 k.length hc.1 hc.2.1
              have hr := hchain (el + 2 - k.length) k.length (by omega) hc.1
              rw [← hc.2.2] at hn hr
              have hmax : max (want k).rest lr = (want k).rest := by grind
              rw [hmax, ← hn]
            · rw [if_neg hc]
      · -- raised: continue with the next lower order
        have hr2 : (markExtends true (want (p.take (el + 2))) lr).2 = true := by
          rw [markExtends_true_changed]; simp [hch]
        have hlow : ∀ j, j ≤ el + 1 → updW want (p.take (el + 2)) (markExtends true (want (p.take (el + 2))) lr).1 (p.take j) = want (p.take j) := by
          intro j hj
          have hne : p.take j ≠ p.take (el + 2) := by
            intro he
            have := congrArg List.length he
            rw [hlK, List.length_take] at this; omega
          simp [updW, hne]
        obtain ⟨s', hml, h'⟩ := ih (el + 1) (by omega) _ _ h1 (by omega) (by omega)
          (fun j h2 hj => hmem j h2 (by omega)) (fun _ => hU (by omega))
          (fun j hj1 hj2 => by rw [hlow (j + 1) (by omega), hlow j (by omega)]; exact H1 j hj1 (by omega))
          (fun j hj1 hj2 => by rw [hlow j hj2]; exact H2 j hj1 (by omega))
        refine ⟨s', ?_, stP_congr h' (fun _ => rfl) (fun k => ?_)⟩
        · simp only [markLower, hfind, bind, Except.bind, hget, hr2, if_true]
          exact hml
        · unfold updW
          by_cases hk : k = p.take (el + 2)
          · have hl : k.length = el + 2 := by rw [hk, hlK]
            rw [if_pos ⟨by omega, by omega, by rw [hl]; exact hk⟩, if_neg (by omega), if_pos hk, hk]
          · rw [if_neg hk]
            by_cases hc : 1 ≤ k.length ∧ k.length ≤ el + 1 ∧ k = p.take k.length
            · rw [if_pos ⟨hc.1, by omega, hc.2.2⟩, if_pos hc]
            · rw [if_neg hc, if_neg]
              rintro ⟨c1, c2, c3⟩
              by_cases hl : k.length = el + 2
              · exact hk ((hK k).mpr ⟨hl, c3⟩)
              · exact hc ⟨c1, by omega, c3⟩


theorem addLine_phasesT (combine : Nat → Word → Nat) (N : Nat) (s : St) (g : List Word) (e : Entry) :
    addLine combine true N s g e =
      (insPhase combine N s g e >>= fun s1 =>
        findLower combine g (g.length - 2) s1 [] >>= fun r =>
          adjustLower combine true (lineW e).rest g g.length r.2 r.1 >>= fun s3 =>
            markLower combine g (s3.get (r.2.getLastD (.uni 0))).rest (g.length - r.2.length - 1) s3 >>= fun s4 =>
              activate combine g g.length s4) := by
  unfold addLine insPhase
  by_cases hN : (g.length == N) = true
  · simp only [hN, if_true, bind, Except.bind, Except.map, setLongest]
    cases s.longest.insert (hashOf combine g) (lineW e) with
    | error err => rfl
    | ok o => simp only
  · simp only [hN, Bool.false_eq_true, if_false, bind, Except.bind, Except.map, setMid]
    cases (s.mid.getD (g.length - 2) default).insert (hashOf combine g) (lineW e) with
    | error err => rfl
    | ok o =>
      simp only
      cases findLower combine g (g.length - 2) { s with mid := s.mid.set (g.length - 2) o } [] with
      | error err => rfl
      | ok r =>
        obtain ⟨s2, between⟩ := r
        simp only [if_true, pure, Except.pure]

theorem W.ext' (x y : W) (h1 : x.mag = y.mag) (h2 : x.neg = y.neg) (h3 : x.backoff = y.backoff) (h4 : x.xr = y.xr)
    (h5 : x.rest = y.rest) : x = y := by
  cases x; cases y; simp_all

end KV.ProbingBuild
