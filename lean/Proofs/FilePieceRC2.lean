import Proofs.FilePieceRC
/-! The concrete readers of `util::ReadCompressed` (ReadFactory / Complete / Uncompressed / UncompressedWithHeader /
StreamCompressed with its input buffer and the hand-over of left-over input to the next member) meet the same
contract as the abstract `rcRead`. -/
namespace KV.FilePiece

/-- what the model assumes about the third-party codecs: a member is at least `kMagicSize` bytes long, lies inside
the raw bytes it was parsed from, and starts with a magic that `DetectMagic` recognises in any header of at least
`kMagicSize` bytes -/
structure CodecsOK (C : Codecs) : Prop where
  member_len : ∀ raw len plain, C.member raw = some (len, plain) → kMagicSize ≤ len ∧ len ≤ raw.length
  member_magic : ∀ raw len plain k, C.member raw = some (len, plain) → kMagicSize ≤ k → C.magic (raw.take k) = true

/-- `raw` is a chain of members decoding to `ch` -/
inductive Members (C : Codecs) : List Byte → Chain → Prop
  | nil : Members C [] []
  | cons {raw : List Byte} {len : Nat} {plain : List Byte} {ch : Chain} :
      C.member raw = some (len, plain) → Members C (raw.drop len) ch → Members C raw (plain :: ch)

/-- the abstract state (plain bytes still owed, per member) of a concrete reader -/
inductive Abs (C : Codecs) : RcSt → Chain → Prop
  | complete : Abs C ⟨[], .complete⟩ []
  | uncompressed (fd : List Byte) : Abs C ⟨fd, .uncompressed⟩ [fd]
  | withHeader (fd buf : List Byte) : buf ≠ [] → Abs C ⟨fd, .withHeader buf⟩ [buf ++ fd]
  | stream (fd inbuf : List Byte) (rawLeft : Nat) (plainLeft : List Byte) (ch : Chain) :
      rawLeft ≤ (inbuf ++ fd).length → (0 < rawLeft ∨ plainLeft ≠ []) →
      Members C ((inbuf ++ fd).drop rawLeft) ch → Abs C ⟨fd, .stream inbuf rawLeft plainLeft⟩ (plainLeft :: ch)

def rcMeasure (s : RcSt) : Nat :=
  match s.rd with
  | .stream inbuf _ _ => inbuf.length + s.fd.length + 1
  | _ => 1

theorem decStep_spec (dorc : Nat → Nat → Nat → Nat → Nat × Nat) (inLen rawLeft plainLen availOut : Nat) :
    (decStep dorc inLen rawLeft plainLen availOut).1 ≤ min inLen rawLeft ∧
    (decStep dorc inLen rawLeft plainLen availOut).2 ≤ min availOut plainLen ∧
    ((decStep dorc inLen rawLeft plainLen availOut).1 = 0 → (decStep dorc inLen rawLeft plainLen availOut).2 = 0 →
      min availOut plainLen = 0 ∧ min inLen rawLeft = 0) := by
  unfold decStep
  simp only
  split
  · split
    · simp; omega
    · split
      · simp; omega
      · simp; omega
  · rename_i h
    refine ⟨by simp only; omega, by simp only; omega, ?_⟩
    intro h1 h2
    exact absurd ⟨h1, h2⟩ h

/-- `ReadFactory` on the left-over input of a finished member continues with exactly the chain that is left -/
theorem readFactory_next (C : Codecs) (hC : CodecsOK C) (fd leftover : List Byte) (ch : Chain)
    (hm : Members C (leftover ++ fd) ch) :
    ∃ s', readFactory C fd leftover true = .ok s' ∧ Abs C s' ch ∧ rcMeasure s' ≤ (leftover ++ fd).length + 1 := by
  unfold readFactory
  have hsplit : (leftover ++ fd.take (kMagicSize - leftover.length)) ++ fd.drop (kMagicSize - leftover.length) = leftover ++ fd := by
    rw [List.append_assoc, List.take_append_drop]
  generalize hr : leftover ++ fd = rest at hm hsplit ⊢
  cases hm with
  | nil =>
    have h1 : leftover = [] := (List.append_eq_nil_iff.mp hr).1
    have h2 : fd = [] := (List.append_eq_nil_iff.mp hr).2
    subst h1 h2
    exact ⟨⟨[], .complete⟩, by simp, Abs.complete, by simp [rcMeasure]⟩
  | cons hmem hrest =>
    rename_i len plain ch0
    obtain ⟨hl1, hl2⟩ := hC.member_len _ _ _ hmem
    generalize hhdr : leftover ++ fd.take (kMagicSize - leftover.length) = header at hsplit
    have hhlen : kMagicSize ≤ header.length := by
      rw [← hhdr]
      have := congrArg List.length hr
      simp only [List.length_append, List.length_take] at this hl2 ⊢
      omega
    have hne : header.isEmpty = false := by
      cases header with
      | nil => simp [kMagicSize] at hhlen
      | cons a t => rfl
    have hpre : header = rest.take header.length := by
      rw [← hsplit]; simp
    have hmagic : C.magic header = true := by
      rw [hpre]; exact hC.member_magic _ _ _ _ hmem hhlen
    simp only [hne, Bool.false_eq_true, ↓reduceIte, hmagic, hsplit, hmem]
    refine ⟨_, rfl, ?_, ?_⟩
    · refine Abs.stream _ _ _ _ _ ?_ (Or.inl (by simp [kMagicSize] at hl1; omega)) ?_
      · rw [hsplit]; exact hl2
      · rw [hsplit]; exact hrest
    · simp only [rcMeasure]
      have := congrArg List.length hsplit
      simp only [List.length_append] at this ⊢
      omega

theorem rcRead2_contract (C : Codecs) (hC : CodecsOK C) (os : Nat → Nat) (dorc : Nat → Nat → Nat → Nat → Nat × Nat) :
    ∀ (f : Nat) (s : RcSt) (amount : Nat) (ch : Chain), Abs C s ch → 0 < amount → rcMeasure s ≤ f →
      ∃ out s' ch', rcRead2 C os dorc f s amount = .ok (out, s') ∧ Abs C s' ch' ∧
        out ++ ch'.flatten = ch.flatten ∧ out.length ≤ amount ∧ (out = [] ↔ ch.flatten = []) := by
  intro f
  induction f with
  | zero => intro s amount ch _ _ hm; unfold rcMeasure at hm; split at hm <;> omega
  | succ f ih =>
    intro s amount ch habs hamt hmeas
    cases habs with
    | complete => exact ⟨[], _, [], rfl, Abs.complete, rfl, Nat.zero_le _, by simp⟩
    | uncompressed fd =>
      simp only [rcRead2]
      generalize hn : chunk os fd.length amount fd.length = n
      have hle := chunk_le os fd.length amount fd.length
      have hz := chunk_eq_zero_iff os fd.length amount fd.length
      rw [hn] at hle hz
      refine ⟨fd.take n, _, [fd.drop n], rfl, Abs.uncompressed _, by simp, by simp [List.length_take]; omega, ?_⟩
      simp only [List.flatten_cons, List.flatten_nil, List.append_nil]
      constructor
      · intro h
        have := congrArg List.length h
        simp only [List.length_take, List.length_nil] at this
        have hn0 : n = 0 := by omega
        rcases hz.mp hn0 with h' | h'
        · exact List.length_eq_zero_iff.mp h'
        · omega
      · intro h; subst h; simp
    | withHeader fd buf hne =>
      simp only [rcRead2]
      have hbl : 0 < buf.length := List.length_pos_iff.mpr hne
      by_cases hfull : min amount buf.length = buf.length
      · rw [if_pos hfull]
        have : buf.take (min amount buf.length) = buf := by rw [hfull]; exact List.take_length
        rw [this]
        refine ⟨buf, _, [fd], rfl, Abs.uncompressed _, by simp, by omega, ?_⟩
        simp [hne]
      · rw [if_neg hfull]
        have hlt : min amount buf.length < buf.length := by omega
        refine ⟨buf.take (min amount buf.length), _, [buf.drop (min amount buf.length) ++ fd], rfl,
          Abs.withHeader _ _ ?_, ?_, by simp [List.length_take]; omega, ?_⟩
        · intro hc
          have := congrArg List.length hc
          simp only [List.length_drop, List.length_nil] at this
          omega
        · simp only [List.flatten_cons, List.flatten_nil, List.append_nil]
          rw [← List.append_assoc, List.take_append_drop]
        · simp only [List.flatten_cons, List.flatten_nil, List.append_nil]
          constructor
          · intro hc
            have := congrArg List.length hc
            simp only [List.length_take, List.length_nil] at this
            omega
          · intro hc
            have := congrArg List.length hc
            simp only [List.length_append, List.length_nil] at this
            omega
    | stream fd inbuf rawLeft plainLeft ch0 hrl hnf hmem =>
      simp only [rcRead2]
      rw [if_neg (by omega)]
      -- after `ReadInput`
      generalize hib : (if inbuf.isEmpty then fd.take kInputBuffer else inbuf) = inbuf1
      generalize hfd : (if inbuf.isEmpty then fd.drop kInputBuffer else fd) = fd1
      have hcat : inbuf1 ++ fd1 = inbuf ++ fd := by
        subst hib hfd
        cases inbuf with
        | nil => simp
        | cons a t => simp
      have hin1 : inbuf1 = [] → inbuf ++ fd = [] := by
        intro h
        subst hib
        cases inbuf with
        | nil =>
          simp only [List.isEmpty_nil, ↓reduceIte] at h
          have := congrArg List.length h
          simp only [List.length_take, List.length_nil, kInputBuffer] at this
          simp only [List.nil_append]
          exact List.length_eq_zero_iff.mp (by omega)
        | cons a t => simp at h
      obtain ⟨d1, d2, d3⟩ := decStep_spec dorc inbuf1.length rawLeft plainLeft.length amount
      generalize decStep dorc inbuf1.length rawLeft plainLeft.length amount = st at d1 d2 d3
      obtain ⟨ci, po⟩ := st
      simp only at d1 d2 d3 ⊢
      -- the raw bytes after the step
      have hdrop : (inbuf1.drop ci ++ fd1).drop (rawLeft - ci) = (inbuf ++ fd).drop rawLeft := by
        have : inbuf1.drop ci ++ fd1 = (inbuf1 ++ fd1).drop ci := by
          rw [List.drop_append_of_le_length (by omega)]
        rw [this, List.drop_drop, hcat]
        congr 1; omega
      have hlen' : rawLeft - ci ≤ (inbuf1.drop ci ++ fd1).length := by
        have := congrArg List.length hcat
        simp only [List.length_append, List.length_drop] at this hrl ⊢
        omega
      have hout : plainLeft.take po ++ plainLeft.drop po = plainLeft := List.take_append_drop _ _
      have houtlen : (plainLeft.take po).length ≤ amount := by simp only [List.length_take]; omega
      by_cases hend : rawLeft - ci = 0 ∧ plainLeft.drop po = []
      · rw [if_pos hend]
        obtain ⟨he1, he2⟩ := hend
        have hrest : Members C (inbuf1.drop ci ++ fd1) ch0 := by
          have := hdrop; rw [he1] at this; simp only [List.drop_zero] at this
          rw [this]; exact hmem
        obtain ⟨s', hs', habs', hms'⟩ := readFactory_next C hC fd1 (inbuf1.drop ci) ch0 hrest
        rw [hs']
        simp only
        have hpl : plainLeft.take po = plainLeft := by rw [he2] at hout; simpa using hout
        by_cases hoe : (plainLeft.take po).isEmpty
        · rw [if_pos hoe]
          have hpe : plainLeft = [] := by rw [← hpl]; exact List.isEmpty_iff.mp hoe
          -- nothing produced: at least one raw byte was consumed, forward to the next reader
          have hci : 0 < ci := by
            rcases hnf with h | h
            · omega
            · exact absurd hpe h
          have hmeas' : rcMeasure s' ≤ f := by
            have := congrArg List.length hcat
            simp only [List.length_append, List.length_drop] at this hms'
            simp only [rcMeasure] at hmeas
            omega
          obtain ⟨out, s'', ch'', r1, r2, r3, r4, r5⟩ := ih s' amount ch0 habs' hamt hmeas'
          exact ⟨out, s'', ch'', r1, r2, by rw [r3, hpe]; rfl, r4, by rw [r5, hpe]; rfl⟩
        · rw [if_neg hoe]
          refine ⟨plainLeft.take po, s', ch0, rfl, habs', by rw [hpl]; rfl, houtlen, ?_⟩
          have hne : plainLeft.take po ≠ [] := fun hc => hoe (by rw [hc]; rfl)
          constructor
          · intro hc; exact absurd hc hne
          · intro hc
            rw [hpl] at hne
            simp only [List.flatten_cons, List.append_eq_nil_iff] at hc
            exact absurd hc.1 hne
      · rw [if_neg hend]
        have hnf' : 0 < rawLeft - ci ∨ plainLeft.drop po ≠ [] := by
          by_cases h1 : rawLeft - ci = 0
          · right; intro h2; exact hend ⟨h1, h2⟩
          · left; omega
        have habs' : Abs C ⟨fd1, .stream (inbuf1.drop ci) (rawLeft - ci) (plainLeft.drop po)⟩ (plainLeft.drop po :: ch0) :=
          Abs.stream _ _ _ _ _ hlen' hnf' (by rw [hdrop]; exact hmem)
        by_cases hoe : (plainLeft.take po).isEmpty
        · simp only [hoe, Bool.not_true, Bool.false_eq_true, ↓reduceIte]
          have hpo : po = 0 ∨ plainLeft = [] := by
            have := List.isEmpty_iff.mp hoe
            have hl := congrArg List.length this
            simp only [List.length_take, List.length_nil] at hl
            by_cases hp : po = 0
            · left; exact hp
            · right; exact List.length_eq_zero_iff.mp (by omega)
          have hdrop0 : plainLeft.drop po = plainLeft := by
            rcases hpo with h | h
            · subst h; rfl
            · subst h; simp
          have hpo0 : po = 0 ∨ plainLeft.length = 0 := by
            rcases hpo with h | h
            · left; exact h
            · right; subst h; rfl
          by_cases hci : ci = 0
          · -- no progress at all is impossible on a well-formed input
            exfalso
            have hpo' : po = 0 := by
              rcases hpo0 with h | h
              · exact h
              · omega
            obtain ⟨p1, p2⟩ := d3 hci hpo'
            subst hci
            have hpl0 : plainLeft = [] := List.length_eq_zero_iff.mp (by omega)
            have hraw : 0 < rawLeft := by
              rcases hnf with h | h
              · exact h
              · exact absurd hpl0 h
            have hi0 : inbuf1 = [] := List.length_eq_zero_iff.mp (by omega)
            have := hin1 hi0
            rw [this] at hrl
            simp at hrl; omega
          · rw [if_neg hci]
            have hmeas' : rcMeasure ⟨fd1, .stream (inbuf1.drop ci) (rawLeft - ci) (plainLeft.drop po)⟩ ≤ f := by
              have := congrArg List.length hcat
              simp only [List.length_append] at this
              simp only [rcMeasure, List.length_drop] at hmeas ⊢
              omega
            obtain ⟨out, s'', ch'', r1, r2, r3, r4, r5⟩ := ih _ amount _ habs' hamt hmeas'
            rw [hdrop0] at r3 r5
            exact ⟨out, s'', ch'', r1, r2, r3, r4, r5⟩
        · simp only [hoe, Bool.not_false, ↓reduceIte]
          refine ⟨plainLeft.take po, _, _, rfl, habs', ?_, houtlen, ?_⟩
          · simp only [List.flatten_cons]
            rw [← List.append_assoc, hout]
          · have hne : plainLeft.take po ≠ [] := fun hc => hoe (by rw [hc]; rfl)
            constructor
            · intro hc; exact absurd hc hne
            · intro hc
              simp only [List.flatten_cons, List.append_eq_nil_iff] at hc
              rw [hc.1] at hne
              simp at hne

/-- `ReadCompressed::Reset(fd)` on a well-formed input: a chain of compressed members, or plain bytes that do not
start with a magic (handed out as one "member"), or nothing -/
theorem rcOpen_abs (C : Codecs) (hC : CodecsOK C) (raw : List Byte) :
    (∀ ch, Members C raw ch → ∃ s, rcOpen C raw = .ok s ∧ Abs C s ch) ∧
    (raw ≠ [] → C.magic (raw.take kMagicSize) = false → ∃ s, rcOpen C raw = .ok s ∧ Abs C s [raw]) := by
  constructor
  · intro ch hm
    cases hm with
    | nil => exact ⟨⟨[], .complete⟩, by simp [rcOpen, readFactory], Abs.complete⟩
    | cons hmem hrest =>
      rename_i len plain ch0
      obtain ⟨hl1, hl2⟩ := hC.member_len _ _ _ hmem
      have hmagic := hC.member_magic _ _ _ kMagicSize hmem (Nat.le_refl _)
      have hne : (raw.take kMagicSize).isEmpty = false := by
        cases hr : raw.take kMagicSize with
        | nil =>
          have := congrArg List.length hr
          simp only [List.length_take, List.length_nil, kMagicSize] at this hl1 hl2
          omega
        | cons a t => rfl
      refine ⟨⟨raw.drop kMagicSize, .stream (raw.take kMagicSize) len plain⟩, ?_, ?_⟩
      · simp [rcOpen, readFactory, hne, hmagic, hmem]
      · refine Abs.stream _ _ _ _ _ ?_ (Or.inl (by simp [kMagicSize] at hl1; omega)) ?_
        · rw [List.take_append_drop]; exact hl2
        · rw [List.take_append_drop]; exact hrest
  · intro hne hnm
    have hne' : (raw.take kMagicSize).isEmpty = false := by
      cases raw with
      | nil => exact absurd rfl hne
      | cons a t => simp [kMagicSize]
    refine ⟨⟨raw.drop kMagicSize, .withHeader (raw.take kMagicSize)⟩, ?_, ?_⟩
    · simp [rcOpen, readFactory, hne', hnm]
    · have := Abs.withHeader (C := C) (raw.drop kMagicSize) (raw.take kMagicSize)
        (by intro hc; rw [hc] at hne'; simp at hne')
      rwa [List.take_append_drop] at this

end KV.FilePiece
