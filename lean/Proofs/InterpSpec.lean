import Proofs.Interp
/-!
The score the tool computes on universal ids (`LM.rawScore`: n-gram lookups on the raw ids, `<unk>`
only when the unigram is missing) equals the *specified* component score (`LM.score`: every word
first mapped into the component's vocabulary, "a word missing from a component counts as its
`<unk>`"), for components in which `<unk>` occurs only as a unigram without back-off and every
word of an n-gram has a unigram (lmplz output; checked per generated model).
-/
namespace KV.Interp
variable {W : Type} [DecidableEq W]

/-- no n-gram of order ≥ 2 contains `<unk>` -/
def UnkOnlyUnigram (m : LM W) : Prop :=
  ∀ e ∈ m.entries, e.ctx ≠ [] → m.unk ∉ e.ctx ∧ e.word ≠ m.unk

/-- every word occurring in an n-gram has a unigram -/
def WordsKnown (m : LM W) : Prop :=
  ∀ e ∈ m.entries, (∀ x ∈ e.ctx, m.known x = true) ∧ m.known e.word = true

structure UnkClean (m : LM W) : Prop where
  only : UnkOnlyUnigram m
  nobo : m.boOf [m.unk] = 0
  words : WordsKnown m

theorem norm_of_known {m : LM W} {w : W} (h : m.known w = true) : m.norm w = w := by
  simp [LM.norm, h]

theorem norm_of_unknown {m : LM W} {w : W} (h : m.known w = false) : m.norm w = m.unk := by
  simp [LM.norm, h]

theorem map_norm_of_allKnown {m : LM W} : ∀ {c : List W}, (∀ x ∈ c, m.known x = true) → c.map m.norm = c
  | [], _ => rfl
  | y :: c, h => by
    rw [List.map_cons, norm_of_known (h y List.mem_cons_self),
      map_norm_of_allKnown (fun x hx => h x (List.mem_cons_of_mem _ hx))]

theorem unk_mem_map_norm {m : LM W} {c : List W} {x : W} (hx : x ∈ c) (hk : m.known x = false) :
    m.unk ∈ c.map m.norm :=
  List.mem_map.2 ⟨x, hx, norm_of_unknown hk⟩

theorem find_none_of_unknown_word {m : LM W} (hw : WordsKnown m) (c : List W) (w : W)
    (h : m.known w = false) : m.find c w = none := by
  cases hf : m.find c w with
  | none => rfl
  | some e =>
    obtain ⟨_, he, _, h2⟩ := mem_ext_of_find m c w e hf
    have := (hw e he).2
    rw [h2, h] at this
    exact Bool.noConfusion this

theorem find_none_of_unknown_ctx {m : LM W} (hw : WordsKnown m) (c : List W) (w : W) (x : W)
    (hx : x ∈ c) (h : m.known x = false) : m.find c w = none := by
  cases hf : m.find c w with
  | none => rfl
  | some e =>
    obtain ⟨_, he, h1, _⟩ := mem_ext_of_find m c w e hf
    have := (hw e he).1 x (h1 ▸ hx)
    rw [h] at this
    exact Bool.noConfusion this

theorem findGram_some {m : LM W} {g : List W} {e : Entry W} (h : m.findGram g = some e) :
    e ∈ m.entries ∧ e.ctx ++ [e.word] = g := by
  unfold LM.findGram at h
  have hm := List.mem_of_find?_eq_some h
  have hp := List.find?_some h
  exact ⟨hm, of_decide_eq_true hp⟩

theorem boOf_zero_of_findGram_none {m : LM W} {g : List W} (h : m.findGram g = none) : m.boOf g = 0 := by
  unfold LM.boOf
  rw [h]
  split <;> rfl

theorem boOf_zero_of_unknown {m : LM W} (hw : WordsKnown m) (g : List W) (x : W) (hx : x ∈ g)
    (h : m.known x = false) : m.boOf g = 0 := by
  apply boOf_zero_of_findGram_none
  cases hf : m.findGram g with
  | none => rfl
  | some e =>
    obtain ⟨he, hg⟩ := findGram_some hf
    rw [← hg, List.mem_append] at hx
    have hk : m.known x = true := by
      rcases hx with hx | hx
      · exact (hw e he).1 x hx
      · rw [List.mem_singleton.1 hx]; exact (hw e he).2
    rw [h] at hk
    exact Bool.noConfusion hk

theorem find_none_of_unk_ctx {m : LM W} (hu : UnkOnlyUnigram m) (c : List W) (w : W)
    (h : m.unk ∈ c) : m.find c w = none := by
  cases hf : m.find c w with
  | none => rfl
  | some e =>
    obtain ⟨_, he, h1, _⟩ := mem_ext_of_find m c w e hf
    have hne : e.ctx ≠ [] := by rw [h1]; exact List.ne_nil_of_mem h
    exact absurd (h1 ▸ h) (hu e he hne).1

theorem find_none_of_unk_word {m : LM W} (hu : UnkOnlyUnigram m) (c : List W) (hc : c ≠ []) :
    m.find c m.unk = none := by
  cases hf : m.find c m.unk with
  | none => rfl
  | some e =>
    obtain ⟨_, he, h1, h2⟩ := mem_ext_of_find m c m.unk e hf
    exact absurd h2 (hu e he (h1 ▸ hc)).2

theorem boOf_zero_of_unk_mem {m : LM W} (hc : UnkClean m) (g : List W) (h : m.unk ∈ g) : m.boOf g = 0 := by
  cases hf : m.findGram g with
  | none => exact boOf_zero_of_findGram_none hf
  | some e =>
    obtain ⟨he, hg⟩ := findGram_some hf
    by_cases hctx : e.ctx = []
    · -- a unigram: g = [unk]
      rw [hctx, List.nil_append] at hg
      rw [← hg, List.mem_singleton] at h
      rw [← hg, ← h]
      exact hc.nobo
    · have := hc.only e he hctx
      rw [← hg, List.mem_append, List.mem_singleton] at h
      rcases h with h | h
      · exact absurd h this.1
      · exact absurd h.symm this.2

/-- **tool score = specified score** -/
theorem rawScore_eq_score (m : LM W) (hc : UnkClean m) : ∀ (c : List W) (w : W),
    m.rawScore c w = m.score c w
  | [], w => by
    unfold LM.score
    rw [List.map_nil]
    cases hk : m.known w with
    | true => rw [norm_of_known hk]
    | false =>
      rw [norm_of_unknown hk]
      have hf : m.find [] w = none := by
        unfold LM.known at hk
        cases h : m.find [] w with
        | none => rfl
        | some e => rw [h] at hk; exact Bool.noConfusion hk
      rw [LM.rawScore, hf, LM.rawScore]
      unfold LM.unkProb
      cases m.find [] m.unk <;> rfl
  | y :: c, w => by
    have ih := rawScore_eq_score m hc c
    unfold LM.score at ih ⊢
    by_cases hall : (∀ x ∈ y :: c, m.known x = true) ∧ m.known w = true
    · rw [map_norm_of_allKnown hall.1, norm_of_known hall.2]
    · -- some word is unknown: both sides back off once
      have hL : m.find (y :: c) w = none := by
        by_cases hw : m.known w = true
        · have : ¬ ∀ x ∈ y :: c, m.known x = true := fun h => hall ⟨h, hw⟩
          push Not at this
          obtain ⟨x, hx, hk⟩ := this
          exact find_none_of_unknown_ctx hc.words _ _ x hx (by simpa using hk)
        · exact find_none_of_unknown_word hc.words _ _ (by simpa using hw)
      have hR : m.find ((y :: c).map m.norm) (m.norm w) = none := by
        by_cases hw : m.known w = true
        · have : ¬ ∀ x ∈ y :: c, m.known x = true := fun h => hall ⟨h, hw⟩
          push Not at this
          obtain ⟨x, hx, hk⟩ := this
          exact find_none_of_unk_ctx hc.only _ _ (unk_mem_map_norm hx (by simpa using hk))
        · rw [norm_of_unknown (by simpa using hw)]
          exact find_none_of_unk_word hc.only _ (by simp)
      have hB : m.boOf (y :: c) = m.boOf ((y :: c).map m.norm) := by
        by_cases hctx : ∀ x ∈ y :: c, m.known x = true
        · rw [map_norm_of_allKnown hctx]
        · push Not at hctx
          obtain ⟨x, hx, hk⟩ := hctx
          have hk' : m.known x = false := by simpa using hk
          rw [boOf_zero_of_unknown hc.words _ x hx hk',
            boOf_zero_of_unk_mem hc _ (unk_mem_map_norm hx hk')]
      have hmap : (y :: c).map m.norm = m.norm y :: c.map m.norm := rfl
      rw [LM.rawScore, hL]
      rw [hmap] at hR hB ⊢
      rw [LM.rawScore, hR]
      simp only
      rw [hB, ih w]

theorem usum_eq_usumSpec (cs : Comps W) (h : ∀ p ∈ cs, UnkClean p.2) (c : List W) (w : W) :
    usum cs c w = usumSpec cs c w := by
  unfold usum usumSpec
  congr 1
  apply List.map_congr_left
  intro p hp
  rw [rawScore_eq_score p.2 (h p hp)]

/-! ### pass-1 records + pass-2 charging = back-off recursion -/

theorem merge_from_le (m : LM W) : ∀ (c : List W) (x : W), (m.merge c x).2 ≤ c.length
  | [], x => by
    unfold LM.merge
    cases m.find [] x <;> simp
  | y :: c, x => by
    unfold LM.merge
    cases m.find (y :: c) x with
    | some e => simp
    | none =>
      have := merge_from_le m c x
      simp only [List.length_cons]
      omega

/-- the probability found by `HandleSuffix` plus the back-offs charged by `SameContext` according
to `from` is the back-off recursion -/
theorem merge_charge_eq_rawScore (m : LM W) : ∀ (c : List W) (x : W),
    (m.merge c x).1 + m.charge c (m.merge c x).2 = m.rawScore c x
  | [], x => by
    unfold LM.merge LM.rawScore LM.charge
    cases m.find [] x <;> simp
  | y :: c, x => by
    have ih := merge_charge_eq_rawScore m c x
    have hle := merge_from_le m c x
    unfold LM.merge LM.rawScore
    cases hf : m.find (y :: c) x with
    | some e => simp [LM.charge]
    | none =>
      simp only
      rw [LM.charge, if_pos (by simp only [List.length_cons]; omega), ← ih]
      ring

theorem toolProb_eq_usum (cs : Comps W) (c : List W) (x : W) : toolProb cs c x = usum cs c x := by
  unfold toolProb usum
  congr 1
  apply List.map_congr_left
  intro p _
  rw [merge_charge_eq_rawScore]

/-- every n-gram's suffix is an n-gram of the same component -/
def SuffixClosed (m : LM W) : Prop :=
  ∀ e ∈ m.entries, e.ctx ≠ [] → (m.find e.ctx.tail e.word).isSome = true

theorem charge_of_ge (m : LM W) : ∀ (c : List W) (n : Nat), c.length ≤ n → m.charge c n = 0
  | [], _, _ => rfl
  | y :: c, n, h => by
    rw [LM.charge, if_neg (by omega)]

/-- `LowerProb()` is the weighted back-off score in the shorter context — this needs suffix
closure of every component: `SameContext` decides the charges of the lower probability by the
`from` of the *full* n-gram. -/
theorem toolLower_eq_usum (cs : Comps W) (hs : ∀ p ∈ cs, SuffixClosed p.2) (y : W) (c : List W) (x : W) :
    toolLower cs y c x = usum cs c x := by
  unfold toolLower usum
  congr 1
  apply List.map_congr_left
  intro p hp
  congr 1
  rw [← merge_charge_eq_rawScore p.2 c x]
  congr 1
  cases hf : p.2.find (y :: c) x with
  | none =>
    have : p.2.merge (y :: c) x = p.2.merge c x := by rw [LM.merge, hf]
    rw [this]
  | some e =>
    obtain ⟨_, he, h1, h2⟩ := mem_ext_of_find p.2 (y :: c) x e hf
    have hsome := hs p hp e he (by rw [h1]; simp)
    rw [h1, h2, List.tail_cons] at hsome
    have h1' : (p.2.merge (y :: c) x).2 = (y :: c).length := by rw [LM.merge, hf]
    -- the component has `c ++ [x]` as well: its own `from` is `c.length`, nothing is charged
    have h2' : (p.2.merge c x).2 = c.length := by
      cases c with
      | nil => unfold LM.merge; cases p.2.find [] x <;> rfl
      | cons z c' =>
        cases hf' : p.2.find (z :: c') x with
        | none => rw [hf'] at hsome; exact Bool.noConfusion hsome
        | some e' => rw [LM.merge, hf']
    rw [h1', h2', charge_of_ge _ _ _ (by simp), charge_of_ge _ _ _ (le_refl _)]

theorem zincTool_eq_zinc {F : Type} [Field F] (E : ℚ → F) (cs : Comps W) (V : List W)
    (hs : ∀ p ∈ cs, SuffixClosed p.2) : ∀ c, ZincTool E cs V c = Zinc E cs V c
  | [] => by
    unfold ZincTool Zinc
    simp only [toolProb_eq_usum]
  | y :: c => by
    unfold ZincTool Zinc
    rw [zincTool_eq_zinc E cs V hs c]
    simp only [toolProb_eq_usum, toolLower_eq_usum cs hs]

end KV.Interp
