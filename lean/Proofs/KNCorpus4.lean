import Proofs.KNCorpus3
/-!
Corpus-level forms of the remaining C06 clauses: the written n-grams are closed under "drop the
newest word" and "drop the oldest word" (`closed_corpus`), and the three special unigrams are
always written (`specials_corpus`).
-/
namespace KV.KN.Norm

open KV.KN KV.KN.Spec

theorem lookup_isSome_iff (c : Spec.Ctx) {g : Gram} (hne : g ≠ []) :
    (Query.lookup (ordersOf c) g).isSome = true ↔ keptIn c g = true := by
  rw [lookup_eq c g hne]
  by_cases hk : keptIn c g = true <;> simp [hk]

/-- closure of the written n-grams, for any context satisfying the record hypotheses -/
theorem closed_tableOK {c : Spec.Ctx} (h : TableOK c) (g : Gram) (hg : 2 ≤ g.length)
    (hin : (Query.lookup (ordersOf c) g).isSome = true) :
    (Query.lookup (ordersOf c) g.tail).isSome = true ∧
      (Query.lookup (ordersOf c) g.dropLast).isSome = true := by
  cases g with
  | nil => simp at hg
  | cons w ctx =>
    have hc : ctx ≠ [] := by intro h0; subst h0; simp at hg
    have hk := (lookup_isSome_iff c (List.cons_ne_nil w ctx)).mp hin
    rw [List.tail_cons, List.dropLast_cons_of_ne_nil hc]
    exact ⟨(lookup_isSome_iff c hc).mpr (keptIn_tail h w ctx hc hk),
      (lookup_isSome_iff c (List.cons_ne_nil _ _)).mpr (keptIn_dropLast h w ctx hc hk)⟩

/-- **closed** (corpus level): every written n-gram of order ≥ 2 has its context (drop the newest
word) and its suffix (drop the oldest word) written — under pruning too -/
theorem closed_corpus (cfg : Cfg) (pv : Bool) (fallback : Option Disc) (corpus : List (List Word))
    (m : Model) (hm : Spec.estimate cfg pv fallback corpus = .ok m) (h2 : 2 ≤ cfg.order)
    (hne : corpus ≠ []) (hw : ∀ s ∈ corpus, ∀ w ∈ s, 3 ≤ w)
    (hthr : ∀ i, i < cfg.order - 1 → cfg.thr i ≤ cfg.thr (i + 1)) (g : Gram) (hg : 2 ≤ g.length)
    (hin : (Query.lookup m.orders g).isSome = true) :
    (Query.lookup m.orders g.tail).isSome = true ∧ (Query.lookup m.orders g.dropLast).isSome = true := by
  unfold Spec.estimate at hm
  rw [if_neg (by omega)] at hm
  obtain ⟨discs, _, ho⟩ := estimateFrom_orders cfg fallback _ m hm
  rw [ho] at hin ⊢
  exact closed_tableOK (tableOK_of_wf (tableWF_countFull cfg corpus h2 hne hw hthr) discs) g hg hin

theorem eos_window {s : List Word} : [eos] ∈ windows 1 (padded1 s) := by
  have := window_mem (n := 1) (Nat.le_refl 1) (l := padded1 s) (s.length + 1)
    (by rw [padded1_length])
  have hd : (padded1 s).drop (s.length + 1) = [eos] := by
    unfold padded1
    exact List.drop_left' (by simp)
  rw [hd] at this
  simpa using this

/-- **specials** (corpus level): `<unk>`, `<s>` and `</s>` are always written -/
theorem specials_corpus (cfg : Cfg) (pv : Bool) (fallback : Option Disc) (corpus : List (List Word))
    (m : Model) (hm : Spec.estimate cfg pv fallback corpus = .ok m) (h2 : 2 ≤ cfg.order)
    (hne : corpus ≠ []) (hw : ∀ s ∈ corpus, ∀ w ∈ s, 3 ≤ w)
    (hthr : ∀ i, i < cfg.order - 1 → cfg.thr i ≤ cfg.thr (i + 1)) :
    (Query.lookup m.orders [unk]).isSome = true ∧ (Query.lookup m.orders [bos]).isSome = true ∧
      (Query.lookup m.orders [eos]).isSome = true := by
  have hW := fun g => written_set_corpus cfg pv fallback corpus m hm h2 hne hw hthr g
  obtain ⟨s, hs⟩ : ∃ s, s ∈ corpus := by
    cases corpus with
    | nil => contradiction
    | cons a t => exact ⟨a, by simp⟩
  refine ⟨(hW [unk]).mpr ?_, (hW [bos]).mpr ?_, (hW [eos]).mpr ?_⟩
  · exact ⟨by simp, by simp; omega, Or.inl ⟨rfl, Or.inl rfl⟩, pruned_special rfl⟩
  · exact ⟨by simp, by simp; omega, Or.inl ⟨rfl, Or.inr rfl⟩, pruned_special rfl⟩
  · exact ⟨by simp, by simp; omega, Or.inr ⟨⟨s, hs, eos_window⟩, by decide⟩, pruned_special rfl⟩

end KV.KN.Norm
