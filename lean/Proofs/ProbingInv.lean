import Proofs.ProbingScan
/-!
The invariant of the probing table, the abstraction to a finite map, and the fixed-size
operations `Find`, `Insert`, `FindOrInsert`, `UncheckedInsert`.
-/
namespace KV.Probing

/-- the pair `(k, v)` is stored in some bucket below `N` -/
def Stored (s : Slots) (N k v : Nat) : Prop := ∃ p, p < N ∧ s p = some (k, v)

/-- bucket-level well-formedness under hash `h` and bucket count `N`: keys are stored once and
every bucket between a key's ideal bucket and its actual bucket (cyclically) is occupied -/
structure WF (h : Nat → Nat) (s : Slots) (N : Nat) : Prop where
  pos : 0 < N
  distinct : ∀ p q k v w, p < N → q < N → s p = some (k, v) → s q = some (k, w) → p = q
  path : ∀ p k v, p < N → s p = some (k, v) → PathOK s N (ideal h N k) p

/-- the table invariant: well-formed buckets, at least one empty bucket, and `entries_` is an
upper bound of the number of occupied buckets (it runs ahead after a `ProbingSizeException`) -/
structure Inv (h : Nat → Nat) (t : Table) : Prop where
  wf : WF h t.s t.N
  hole : ∃ e, e < t.N ∧ t.s e = none
  cnt : occ t.s t.N ≤ t.entries

/-- abstraction to a map -/
def Abs (t : Table) (M : Nat → Option Nat) : Prop := ∀ k v, Stored t.s t.N k v ↔ M k = some v

theorem ideal_lt (h : Nat → Nat) (N k : Nat) (hN : 0 < N) : ideal h N k < N := Nat.mod_lt _ hN

theorem set_mono (s : Slots) (q : Nat) (e : Entry) (x : Nat) (hx : s x ≠ none) : set s q (some e) x ≠ none := by
  unfold set; split
  · simp
  · exact hx

/-- filling the first empty bucket of a fresh key's probe path keeps the buckets well-formed -/
theorem WF_fill (h : Nat → Nat) (s : Slots) (N k v q : Nat) (wf : WF h s N) (hq : q < N)
    (hpath : PathOK s N (ideal h N k) q) (hfresh : ∀ p w, p < N → s p ≠ some (k, w)) :
    WF h (set s q (some (k, v))) N := by
  refine ⟨wf.pos, ?_, ?_⟩
  · intro p p' k' v' w' hp hp' h1 h2
    by_cases e1 : p = q
    · by_cases e2 : p' = q
      · omega
      · subst e1
        simp [set, e2] at h1 h2
        obtain ⟨rfl, _⟩ := h1
        exact absurd h2 (hfresh p' w' hp')
    · by_cases e2 : p' = q
      · subst e2
        simp [set, e1] at h1 h2
        obtain ⟨rfl, _⟩ := h2
        exact absurd h1 (hfresh p v' hp)
      · simp [set, e1, e2] at h1 h2
        exact wf.distinct p p' k' v' w' hp hp' h1 h2
  · intro p k' v' hp h1
    by_cases e1 : p = q
    · subst e1
      simp [set] at h1
      obtain ⟨rfl, _⟩ := h1
      exact PathOK_mono s _ N _ _ (set_mono s p _) hpath
    · simp [set, e1] at h1
      exact PathOK_mono s _ N _ _ (set_mono s q _) (wf.path p k' v' hp h1)

theorem Stored_fill (s : Slots) (N k v q : Nat) (hq : q < N) (hqs : s q = none) (k' v' : Nat) :
    Stored (set s q (some (k, v))) N k' v' ↔ Stored s N k' v' ∨ (k' = k ∧ v' = v) := by
  constructor
  · rintro ⟨p, hp, h1⟩
    by_cases e : p = q
    · subst e; simp [set] at h1; right; omega
    · simp [set, e] at h1; left; exact ⟨p, hp, h1⟩
  · rintro (⟨p, hp, h1⟩ | ⟨rfl, rfl⟩)
    · have e : p ≠ q := by intro e; subst e; rw [hqs] at h1; cases h1
      exact ⟨p, hp, by simp [set, e]; exact h1⟩
    · exact ⟨q, hq, by simp [set]⟩

/-- `UncheckedInsert` of a fresh key into well-formed buckets with a hole -/
theorem fill_spec (h : Nat → Nat) (s : Slots) (N k v : Nat) (wf : WF h s N) (hc : occ s N < N)
    (hfresh : ∀ p w, p < N → s p ≠ some (k, w)) :
    ∃ q, firstEmpty s N N (ideal h N k) = some q ∧ q < N ∧ s q = none ∧
      PathOK s N (ideal h N k) q ∧
      WF h (set s q (some (k, v))) N ∧ occ (set s q (some (k, v))) N = occ s N + 1 := by
  obtain ⟨e, he, hes⟩ := exists_hole s N hc
  obtain ⟨q, hq, hqN, hqs, hp⟩ := firstEmpty_total s N e (ideal h N k) he hes (ideal_lt h N k wf.pos)
  exact ⟨q, hq, hqN, hqs, hp, WF_fill h s N k v q wf hqN hp hfresh, occ_set_some s q (k, v) N hqN hqs⟩

theorem Abs_fresh (t : Table) (M : Nat → Option Nat) (abs : Abs t M) (k : Nat) (hM : M k = none) :
    ∀ p w, p < t.N → t.s p ≠ some (k, w) := by
  intro p w hp hs
  have := (abs k w).1 ⟨p, hp, hs⟩
  rw [hM] at this; cases this

theorem Abs_fill (t : Table) (M : Nat → Option Nat) (abs : Abs t M) (k v q : Nat) (hq : q < t.N)
    (hqs : t.s q = none) (hM : M k = none) (e : Nat) :
    Abs { s := set t.s q (some (k, v)), N := t.N, entries := e } (upd M k v) := by
  intro k' v'
  show Stored (set t.s q (some (k, v))) t.N k' v' ↔ _
  rw [Stored_fill t.s t.N k v q hq hqs]
  unfold upd
  by_cases hk : k' = k
  · subst hk
    simp
    constructor
    · rintro (hst | rfl)
      · have := (abs k' v').1 hst; rw [hM] at this; cases this
      · rfl
    · intro e; right; exact e.symm
  · simp [hk]; exact abs k' v'

/-! ### the freshly cleared table -/

theorem occ_empty : ∀ n, occ (fun _ => none) n = 0 := by
  intro n; induction n with
  | zero => rfl
  | succ n ih => simp [occ, ih]

theorem Inv_empty (h : Nat → Nat) (N : Nat) (hN : 0 < N) : Inv h (emptyTable N) := by
  refine ⟨⟨hN, ?_, ?_⟩, ⟨0, hN, rfl⟩, ?_⟩
  · intro p q k v w _ _ h1; cases h1
  · intro p k v _ h1; cases h1
  · show occ (fun _ => none) N ≤ 0
    rw [occ_empty]; exact Nat.le_refl _

theorem Abs_empty (N : Nat) : Abs (emptyTable N) (fun _ => none) := by
  intro k v
  constructor
  · rintro ⟨p, _, h1⟩; cases h1
  · intro h1; cases h1

/-! ### `Find` -/

theorem scan_stored (h : Nat → Nat) (t : Table) (inv : Inv h t) (k p v : Nat) (hp : p < t.N)
    (hs : t.s p = some (k, v)) :
    scan t.s t.N k t.N (ideal h t.N k) = some (.found p v) :=
  scan_found t.s t.N k p v hp hs
    (fun q w hq hqs => inv.wf.distinct q p k w v hq hp hqs hs)
    t.N _ (ideal_lt h t.N k inv.wf.pos) (dist_lt _ _ _ (ideal_lt h t.N k inv.wf.pos) hp)
    (inv.wf.path p k v hp hs)

theorem scan_not_stored (h : Nat → Nat) (t : Table) (inv : Inv h t) (k : Nat)
    (hk : ∀ p w, p < t.N → t.s p ≠ some (k, w)) :
    ∃ q, scan t.s t.N k t.N (ideal h t.N k) = some (.absent q) ∧ q < t.N ∧ t.s q = none ∧
      PathOK t.s t.N (ideal h t.N k) q ∧ firstEmpty t.s t.N t.N (ideal h t.N k) = some q := by
  obtain ⟨e, he, hes⟩ := inv.hole
  obtain ⟨q, hq, hqN, hqs, hp⟩ :=
    firstEmpty_total t.s t.N e (ideal h t.N k) he hes (ideal_lt h t.N k inv.wf.pos)
  refine ⟨q, ?_, hqN, hqs, hp, hq⟩
  rw [scan_absent_eq t.s t.N k hk t.N _ (ideal_lt h t.N k inv.wf.pos), hq]
  rfl

/-- **`Find` returns exactly the map's answer** -/
theorem find_correct' (h : Nat → Nat) (t : Table) (M : Nat → Option Nat) (inv : Inv h t)
    (abs : Abs t M) (k : Nat) : find h t k = some (M k) := by
  cases hM : M k with
  | none =>
    obtain ⟨q, hq, _⟩ := scan_not_stored h t inv k (Abs_fresh t M abs k hM)
    simp [find, hq]
  | some v =>
    obtain ⟨p, hp, hs⟩ := (abs k v).2 hM
    simp [find, scan_stored h t inv k p v hp hs]

/-! ### `Insert`, `UncheckedInsert`, `FindOrInsert` -/

theorem Inv_bump (h : Nat → Nat) (t : Table) (inv : Inv h t) :
    Inv h { t with entries := t.entries + 1 } :=
  ⟨inv.wf, inv.hole, Nat.le_succ_of_le inv.cnt⟩

theorem Abs_entries (t : Table) (M : Nat → Option Nat) (abs : Abs t M) (e : Nat) :
    Abs { t with entries := e } M := abs

/-- `UncheckedInsert` of a key that is not in the map, with room for one more hole -/
theorem uncheckedInsert_spec (h : Nat → Nat) (t : Table) (M : Nat → Option Nat) (k v : Nat)
    (wf : WF h t.s t.N) (hc : occ t.s t.N + 1 < t.N) (hcnt : occ t.s t.N + 1 ≤ t.entries)
    (abs : Abs t M) (hM : M k = none) :
    ∃ q t', uncheckedInsert h t k v = some (q, t') ∧ Inv h t' ∧ Abs t' (upd M k v) ∧
      t'.N = t.N ∧ t'.entries = t.entries ∧ q < t.N ∧ t'.s q = some (k, v) ∧ t.s q = none := by
  obtain ⟨q, hq, hqN, hqs, _, wf', hocc⟩ :=
    fill_spec h t.s t.N k v wf (by omega) (Abs_fresh t M abs k hM)
  refine ⟨q, { t with s := set t.s q (some (k, v)) }, ?_, ⟨wf', ?_, ?_⟩, ?_, rfl, rfl, hqN, ?_, hqs⟩
  · simp [uncheckedInsert, hq]
  · exact exists_hole _ _ (by show occ (set t.s q (some (k, v))) t.N < t.N; omega)
  · show occ (set t.s q (some (k, v))) t.N ≤ t.entries; omega
  · exact Abs_fill t M abs k v q hqN hqs hM t.entries
  · simp [set]

/-- **`Insert` below capacity** -/
theorem insert_spec' (h : Nat → Nat) (t : Table) (M : Nat → Option Nat) (k v : Nat)
    (inv : Inv h t) (abs : Abs t M) (hM : M k = none) (hc : t.entries + 1 < t.N) :
    ∃ q t', insert h t k v = .ok (q, t') ∧ Inv h t' ∧ Abs t' (upd M k v) ∧
      t'.N = t.N ∧ t'.entries = t.entries + 1 ∧ q < t.N ∧ t'.s q = some (k, v) := by
  have hcnt := inv.cnt
  obtain ⟨q, t', hu, inv', abs', hN, hE, hq, hs, _⟩ :=
    uncheckedInsert_spec h { t with entries := t.entries + 1 } M k v inv.wf
      (by show occ t.s t.N + 1 < t.N; omega) (by show occ t.s t.N + 1 ≤ t.entries + 1; omega)
      (Abs_entries t M abs _) hM
  refine ⟨q, t', ?_, inv', abs', hN, hE, hq, hs⟩
  have hnf : ¬ (t.entries + 1 ≥ t.N) := by omega
  simp [insert, hnf, hu]

/-- **at capacity `Insert` throws** (before any loop is entered) -/
theorem insert_full (h : Nat → Nat) (t : Table) (k v : Nat) (hc : t.entries + 1 ≥ t.N) :
    insert h t k v = .full { t with entries := t.entries + 1 } := by
  simp [insert, hc]

theorem findOrInsert_found (h : Nat → Nat) (t : Table) (M : Nat → Option Nat) (k v v' : Nat)
    (inv : Inv h t) (abs : Abs t M) (hM : M k = some v') :
    ∃ p, findOrInsert h t k v = .ok (true, p, v', t) ∧ p < t.N ∧ t.s p = some (k, v') := by
  obtain ⟨p, hp, hs⟩ := (abs k v').2 hM
  exact ⟨p, by simp [findOrInsert, scan_stored h t inv k p v' hp hs], hp, hs⟩

theorem findOrInsert_new (h : Nat → Nat) (t : Table) (M : Nat → Option Nat) (k v : Nat)
    (inv : Inv h t) (abs : Abs t M) (hM : M k = none) (hc : t.entries + 1 < t.N) :
    ∃ p t', findOrInsert h t k v = .ok (false, p, v, t') ∧ Inv h t' ∧ Abs t' (upd M k v) ∧
      t'.N = t.N ∧ t'.entries = t.entries + 1 ∧ p < t.N ∧ t'.s p = some (k, v) := by
  have hfresh := Abs_fresh t M abs k hM
  obtain ⟨q, hq, hqN, hqs, hp, _⟩ := scan_not_stored h t inv k hfresh
  have hcnt := inv.cnt
  have wf' := WF_fill h t.s t.N k v q inv.wf hqN hp hfresh
  have hocc := occ_set_some t.s q (k, v) t.N hqN hqs
  refine ⟨q, { t with s := set t.s q (some (k, v)), entries := t.entries + 1 }, ?_, ⟨wf', ?_, ?_⟩, ?_,
    rfl, rfl, hqN, by simp [set]⟩
  · have hnf : ¬ (t.entries + 1 ≥ t.N) := by omega
    simp [findOrInsert, hq, hnf]
  · exact exists_hole _ _ (by show occ (set t.s q (some (k, v))) t.N < t.N; omega)
  · show occ (set t.s q (some (k, v))) t.N ≤ t.entries + 1; omega
  · exact Abs_fill t M abs k v q hqN hqs hM _

/-- **at capacity `FindOrInsert` of an absent key throws instead of looping**: the scan ends at
the hole the invariant guarantees -/
theorem findOrInsert_full (h : Nat → Nat) (t : Table) (M : Nat → Option Nat) (k v : Nat)
    (inv : Inv h t) (abs : Abs t M) (hM : M k = none) (hc : t.entries + 1 ≥ t.N) :
    findOrInsert h t k v = .full { t with entries := t.entries + 1 } := by
  obtain ⟨q, hq, _⟩ := scan_not_stored h t inv k (Abs_fresh t M abs k hM)
  simp [findOrInsert, hq, hc]

end KV.Probing
