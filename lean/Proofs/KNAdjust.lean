import Model.KNSpec
import Proofs.KNStats
/-!
C05, central refinement theorem: the streaming adjusted-counts algorithm (`adjustStream`,
transcribed from `AdjustCounts::Run`) produces, for every lower order, exactly the records of
the set-based specification `Spec.ents` (core Lean only).
-/
namespace KV.KN.Adjust

open KV.KN KV.KN.Spec

/-! ## 0. Generic list facts -/

theorem nodup_dedup {α : Type} [BEq α] [LawfulBEq α] : (l : List α) → l.eraseDups.Nodup
  | [] => by simp
  | a :: as => by
    rw [List.eraseDups_cons, List.nodup_cons]
    refine ⟨?_, nodup_dedup _⟩
    rw [List.mem_eraseDups, List.mem_filter]
    simp
termination_by l => l.length
decreasing_by
  simp only [List.length_cons]
  exact Nat.lt_succ_of_le (List.length_filter_le _ _)

theorem dedup_snoc {α : Type} [BEq α] [LawfulBEq α] (l : List α) (a : α) :
    (l ++ [a]).eraseDups = if a ∈ l then l.eraseDups else l.eraseDups ++ [a] := by
  rw [List.eraseDups_append]
  by_cases h : a ∈ l
  · simp [h, List.removeAll]
  · simp [h, List.removeAll, List.eraseDups_cons]

/-- a list in which exactly the element at index `m` satisfies `p` -/
theorem filter_single {α : Type} (p : α → Bool) :
    ∀ (L : List α) (m : Nat), (∀ i (hi : i < L.length), p L[i] = decide (i = m)) →
      L.filter p = (L[m]?).toList
  | [], m, _ => by simp
  | a :: t, m, h => by
    have h0 := h 0 (by simp)
    cases m with
    | zero =>
      have ht : t.filter p = [] := by
        rw [List.filter_eq_nil_iff]
        intro x hx
        obtain ⟨i, hi, rfl⟩ := List.getElem_of_mem hx
        have := h (i + 1) (by simp; omega)
        simpa using this
      simp at h0
      simp [h0, ht]
    | succ m =>
      have ih := filter_single p t m (fun i hi => by
        have := h (i + 1) (by simp; omega)
        simpa using this)
      simp at h0
      simp [h0, ih]

theorem filter_drop_single {α : Type} (p : α → Bool) (L : List α) (m s : Nat)
    (h : ∀ i (hi : i < L.length), p L[i] = decide (i = m)) :
    (L.drop s).filter p = if s ≤ m then (L[m]?).toList else [] := by
  by_cases hs : s ≤ m
  · rw [if_pos hs, filter_single p (L.drop s) (m - s)]
    · rw [List.getElem?_drop]; congr 2; omega
    · intro i hi
      rw [List.getElem_drop, h]
      simp; omega
  · rw [if_neg hs, List.filter_eq_nil_iff]
    intro x hx
    obtain ⟨i, hi, rfl⟩ := List.getElem_of_mem hx
    rw [List.getElem_drop, h]
    simp; omega

/-- replacing the value of the last key of a duplicate-free key list -/
theorem map_update_last {κ ε : Type} (gram : ε → κ) (ks : List κ) (f f' : κ → ε)
    (hf : ∀ k, gram (f k) = k) (hnd : ks.Nodup) (E : List ε) (e : ε)
    (h : ks.map f = E ++ [e]) (hf' : ∀ k ∈ ks, k ≠ gram e → f' k = f k) :
    ks.map f' = E ++ [f' (gram e)] := by
  rcases List.eq_nil_or_concat ks with rfl | ⟨ks', kl, rfl⟩
  · simp at h
  · rw [List.concat_eq_append] at *
    rw [List.map_append] at h
    obtain ⟨h1, h2⟩ := List.append_inj' h rfl
    simp only [List.map_cons, List.map_nil, List.cons.injEq, and_true] at h2
    have hk : kl = gram e := by rw [← h2, hf]
    rw [List.nodup_append] at hnd
    have hnot : ∀ k ∈ ks', k ≠ gram e := by
      intro k hk' heq
      exact hnd.2.2 k hk' kl (by simp) (by rw [heq, hk])
    rw [List.map_append, ← h1, ← hk]
    congr 1
    apply List.map_congr_left
    intro k hk'
    exact hf' k (by simp [hk']) (hnot k hk')

/-! ## 1. Lexicographic order, `commonPrefix` -/

/-- lexicographic sandwich: between two lists with the same `m`-prefix everything has that prefix -/
theorem take_sandwich : ∀ (m : Nat) (a b c : List Nat), ¬ b < a → ¬ c < b →
    a.take m = c.take m → b.take m = a.take m
  | 0, _, _, _, _, _, _ => by simp
  | m + 1, [], b, c, _, hbc, h => by
    cases c with
    | nil =>
      cases b with
      | nil => rfl
      | cons y b' => exact absurd (List.nil_lt_cons y b') hbc
    | cons z c' => simp at h
  | m + 1, x :: a', b, c, hab, hbc, h => by
    cases c with
    | nil => simp at h
    | cons z c' =>
      cases b with
      | nil => exact absurd (List.nil_lt_cons x a') hab
      | cons y b' =>
        simp only [List.take_succ_cons, List.cons.injEq] at h
        obtain ⟨rfl, h⟩ := h
        rw [List.cons_lt_cons_iff] at hab hbc
        have hxy : x = y := by omega
        subst hxy
        have := take_sandwich m a' b' c' (fun hh => hab (Or.inr ⟨rfl, hh⟩))
          (fun hh => hbc (Or.inr ⟨rfl, hh⟩)) h
        simp [List.take_succ_cons, this]

theorem le_commonPrefix : ∀ (g h : Gram) (n : Nat),
    n ≤ commonPrefix g h ↔ n ≤ g.length ∧ n ≤ h.length ∧ g.take n = h.take n
  | _, _, 0 => by simp
  | [], h, n + 1 => by simp [commonPrefix]
  | a :: as, [], n + 1 => by simp [commonPrefix]
  | a :: as, b :: bs, n + 1 => by
    unfold commonPrefix
    by_cases hab : a = b
    · subst hab
      have := le_commonPrefix as bs n
      simp only [if_true, Nat.add_le_add_iff_right, List.length_cons, List.take_succ_cons,
        List.cons.injEq, true_and]
      exact this
    · simp [hab]

/-! ## 2. Valid register lengths -/

/-- index of the first `<s>` (the length when there is none) -/
def firstBos : List Nat → Nat
  | [] => 0
  | a :: t => if a = bos then 0 else firstBos t + 1

theorem le_firstBos : ∀ (l : List Nat) (m : Nat), m ≤ firstBos l ↔ m ≤ l.length ∧ bos ∉ l.take m
  | _, 0 => by simp
  | [], m + 1 => by simp [firstBos]
  | a :: t, m + 1 => by
    unfold firstBos
    by_cases ha : a = bos
    · simp [ha]
    · have := le_firstBos t m
      simp only [ha, if_false, Nat.add_le_add_iff_right, List.length_cons, List.take_succ_cons,
        List.mem_cons, not_or]
      rw [this]
      constructor
      · rintro ⟨h1, h2⟩; exact ⟨h1, fun h => ha h.symm, h2⟩
      · rintro ⟨h1, _, h2⟩; exact ⟨h1, h2⟩

theorem firstBos_le_length (l : List Nat) : firstBos l ≤ l.length :=
  ((le_firstBos l (firstBos l)).mp (Nat.le_refl _)).1

theorem firstBos_drop : ∀ (g : List Nat) (s : Nat), s ≤ firstBos g →
    firstBos (g.drop s) = firstBos g - s
  | _, 0, _ => by simp
  | [], s + 1, h => by simp [firstBos] at h
  | a :: t, s + 1, h => by
    by_cases ha : a = bos
    · simp [firstBos, ha] at h
    · have e : firstBos (a :: t) = firstBos t + 1 := by simp [firstBos, ha]
      rw [e] at h ⊢
      rw [List.drop_succ_cons, firstBos_drop t s (by omega)]
      omega

theorem getElem?_ne_bos_of_lt_firstBos (l : List Nat) (i : Nat) (h : i < firstBos l) :
    l[i]? ≠ some bos := by
  have := ((le_firstBos l (i + 1)).mp h)
  intro hb
  apply this.2
  rw [List.mem_take_iff_getElem]
  have hi : i < l.length := by omega
  refine ⟨i, by omega, ?_⟩
  rw [List.getElem?_eq_getElem hi] at hb
  exact Option.some.inj hb

/-- number of registers that are valid after a row `l` of an order-`N` table -/
def regLen (N : Nat) (l : Gram) : Nat := min (N - 1) (firstBos l + 1)

theorem le_regLen {N : Nat} {l : Gram} (hl : l.length = N) {n : Nat} (h1 : 1 ≤ n) :
    n ≤ regLen N l ↔ n ≤ N - 1 ∧ validAt n l = true := by
  unfold regLen validAt
  have := le_firstBos l (n - 1)
  simp only [Bool.not_eq_true', List.contains_eq_mem, decide_eq_false_iff_not]
  constructor
  · intro h
    exact ⟨by omega, (this.mp (by omega)).2⟩
  · rintro ⟨h2, h3⟩
    have := this.mpr ⟨by omega, h3⟩
    omega

theorem validAt_of_take {n : Nat} {g l : Gram} (h : g.take n = l.take n) :
    validAt n g = validAt n l := by
  unfold validAt
  have : g.take (n - 1) = l.take (n - 1) := by
    have := congrArg (List.take (n - 1)) h
    simpa [List.take_take, Nat.min_eq_left (Nat.sub_le n 1)] using this
  rw [this]

/-- per-row part of `FullWF` -/
structure RowOK (N : Nat) (g : Gram) : Prop where
  len : g.length = N
  head : g.head? ≠ some bos ∧ g.head? ≠ some unk
  run : ∀ i j, i ≤ j → j < N → g[i]? = some bos → g[j]? = some bos

/-- two rows that agree on a suffix which starts with `<s>` are equal -/
theorem row_eq_of_bos {N : Nat} {l g : Gram} (hl : RowOK N l) (hg : RowOK N g) (n : Nat)
    (h1 : 1 ≤ n) (ht : g.take n = l.take n) (hb : l[n - 1]? = some bos) : g = l := by
  have key : ∀ i, i < n → g[i]? = l[i]? := by
    intro i hi
    have := congrArg (fun x => x[i]?) ht
    simpa [List.getElem?_take, hi] using this
  have hgb : g[n - 1]? = some bos := by rw [key (n - 1) (by omega)]; exact hb
  apply List.ext_getElem?
  intro i
  by_cases hi : i < n
  · exact key i hi
  · by_cases hiN : i < N
    · rw [hl.run (n - 1) i (by omega) hiN hb, hg.run (n - 1) i (by omega) hiN hgb]
    · rw [List.getElem?_eq_none (by rw [hg.len]; omega), List.getElem?_eq_none (by rw [hl.len]; omega)]

/-! ## 3. Specification side: one more row -/

/-- the record of key `k` -/
def entOf (cfg : Cfg) (full : Table) (k : Gram) : Emit :=
  if k == [unk] || k == [bos] then ⟨k, 0, false⟩
  else ⟨k, adjCount cfg.order full k, pruned cfg full k⟩

/-- the keys of a lower order (order 1: `<unk>`, `<s>` first) -/
def keysE (n : Nat) (full : Table) : List Gram :=
  if n == 1 then [unk] :: [bos] :: keys 1 full else keys n full

theorem ents_eq (cfg : Cfg) (full : Table) (n : Nat) (hn : n < cfg.order) :
    ents cfg full n = (keysE n full).map (entOf cfg full) := by
  have h : (n == cfg.order) = false := by simp; omega
  unfold ents keysE entOf
  by_cases h1 : n = 1
  · subst h1; simp
  · simp [h1, h]

theorem entOf_gram (cfg : Cfg) (full : Table) (k : Gram) : (entOf cfg full k).gram = k := by
  unfold entOf; split <;> rfl

theorem rowsOf_snoc (pre : Table) (g : Gram) (c : Nat) (k : Gram) :
    rowsOf (pre ++ [(g, c)]) k = rowsOf pre k ++ (if g.take k.length = k then [(g, c)] else []) := by
  unfold rowsOf
  rw [List.filter_append]
  by_cases h : g.take k.length = k <;> simp [h]

theorem rowsOf_snoc_miss (pre : Table) (g : Gram) (c : Nat) (k : Gram) (h : g.take k.length ≠ k) :
    rowsOf (pre ++ [(g, c)]) k = rowsOf pre k := by
  rw [rowsOf_snoc, if_neg h, List.append_nil]

theorem entOf_congr (cfg : Cfg) (A B : Table) (k : Gram) (h : rowsOf A k = rowsOf B k) :
    entOf cfg A k = entOf cfg B k := by
  unfold entOf adjCount pruned trueCount leftExts
  rw [h]

theorem mem_keys {n : Nat} {full : Table} {k : Gram} :
    k ∈ keys n full ↔ ∃ x ∈ full, validAt n x.1 = true ∧ x.1.take n = k := by
  unfold keys
  rw [List.mem_eraseDups]
  simp only [List.mem_map, List.mem_filter]
  constructor
  · rintro ⟨a, ⟨⟨x, hx, rfl⟩, hv⟩, rfl⟩; exact ⟨x, hx, hv, rfl⟩
  · rintro ⟨x, hx, hv, rfl⟩; exact ⟨x.1, ⟨⟨x, hx, rfl⟩, hv⟩, rfl⟩

theorem keys_snoc (n : Nat) (pre : Table) (g : Gram) (c : Nat) :
    keys n (pre ++ [(g, c)]) =
      if validAt n g = true ∧ g.take n ∉ keys n pre then keys n pre ++ [g.take n] else keys n pre := by
  unfold keys
  simp only [List.map_append, List.filter_append, List.map_cons, List.map_nil]
  by_cases hv : validAt n g = true
  · simp only [List.filter_cons, hv, if_true, List.filter_nil, List.map_cons, List.map_nil, true_and]
    rw [dedup_snoc]
    by_cases hm : List.take n g ∈ List.map (fun x => List.take n x) (List.filter (validAt n) (List.map (fun x => x.fst) pre))
    · simp [hm, List.mem_eraseDups]
    · simp [hm, List.mem_eraseDups]
  · simp [hv]

theorem trueCount_snoc_hit (pre : Table) (g : Gram) (c : Nat) (k : Gram) (h : g.take k.length = k) :
    trueCount (pre ++ [(g, c)]) k = trueCount pre k + c := by
  unfold trueCount
  rw [rowsOf_snoc, if_pos h]
  simp

theorem leftExts_snoc_hit (pre : Table) (g : Gram) (c : Nat) (k : Gram) (h : g.take k.length = k) :
    leftExts (pre ++ [(g, c)]) k = leftExts pre k +
      (if g.take (k.length + 1) ∈ (rowsOf pre k).map (fun x => x.1.take (k.length + 1)) then 0 else 1) := by
  unfold leftExts
  rw [rowsOf_snoc, if_pos h, List.map_append, List.map_cons, List.map_nil, dedup_snoc]
  split <;> simp

theorem markOf_eq_pruned (cfg : Cfg) (hk : cfg.keepSpecials = true) (full : Table) (k : Gram) :
    markOf cfg (trueCount full k) k = pruned cfg full k := by
  unfold markOf pruned
  have : (k.length == 1 && k.all isSpecial) = (k == [unk] || k == [bos] || k == [eos]) := by
    cases k with
    | nil => rfl
    | cons w t =>
      cases t with
      | nil => simp [isSpecial]
      | cons w2 t2 => simp
  rw [hk, Bool.true_and, this]

/-- the register that the specification predicts for key `k` -/
def specReg (N : Nat) (full : Table) (k : Gram) : Reg := ⟨k, adjCount N full k, trueCount full k⟩

theorem emit_specReg (cfg : Cfg) (hk : cfg.keepSpecials = true) (full : Table) (k : Gram)
    (h1 : k ≠ [unk]) (h2 : k ≠ [bos]) :
    (specReg cfg.order full k).emit cfg = entOf cfg full k := by
  unfold Reg.emit specReg entOf
  simp only [markOf_eq_pruned cfg hk]
  simp [h1, h2]

/-! ## 4. Algorithm side: what one step does to the stream and to the registers -/

/-- the records of order `n` that are still in the registers -/
def pending (cfg : Cfg) (regs : List Reg) (n : Nat) : List Emit :=
  ((regs.filter fun r => r.gram.length == n).map (Reg.emit cfg))

theorem stream_step (cfg : Cfg) (s : AState) (e : Gram × Nat) (n : Nat) :
    (adjustStep cfg s e).stream n = s.stream n ++
      (((s.regs.drop (sameOf s.regs e.1)).filter fun r => r.gram.length == n).map (Reg.emit cfg)).reverse := by
  unfold AState.stream adjustStep
  simp only [List.reverse_append, List.reverse_reverse, List.filter_append, List.map_reverse,
    List.filter_reverse, List.filter_map]
  rfl

theorem stream_flush (cfg : Cfg) (s : AState) (n : Nat) :
    (adjustFlush cfg s).stream n = s.stream n ++ pending cfg s.regs n := by
  unfold AState.stream adjustFlush pending
  simp only [List.reverse_append, List.reverse_reverse, List.filter_append, List.filter_map]
  rfl

/-- the registers that the specification predicts after the row `l` -/
def specRegs (N : Nat) (full : Table) (l : Gram) : List Reg :=
  (List.range (regLen N l)).map fun i => specReg N full (l.take (i + 1))

theorem regLen_le (N : Nat) (l : Gram) : regLen N l ≤ N - 1 := Nat.min_le_left _ _

theorem regLen_pos {N : Nat} (h2 : 2 ≤ N) (l : Gram) : 1 ≤ regLen N l := by
  unfold regLen; omega

theorem specRegs_length (N : Nat) (full : Table) (l : Gram) :
    (specRegs N full l).length = regLen N l := by simp [specRegs]

theorem specRegs_getElem? (N : Nat) (full : Table) (l : Gram) (i : Nat) :
    (specRegs N full l)[i]? = if i < regLen N l then some (specReg N full (l.take (i + 1))) else none := by
  unfold specRegs
  rw [List.getElem?_map]
  by_cases h : i < regLen N l
  · rw [List.getElem?_range h, if_pos h]; rfl
  · rw [List.getElem?_eq_none (by simp; omega), if_neg h]; rfl

theorem specRegs_shape {N : Nat} (full : Table) {l : Gram} (hl : l.length = N) (n : Nat) (h1 : 1 ≤ n) :
    ∀ i (hi : i < (specRegs N full l).length),
      ((specRegs N full l)[i].gram.length == n) = decide (i = n - 1) := by
  intro i hi
  have hi' : i < regLen N l := by rwa [specRegs_length] at hi
  have hle := regLen_le N l
  have : (specRegs N full l)[i] = specReg N full (l.take (i + 1)) := by
    have := specRegs_getElem? N full l i
    rw [if_pos hi', List.getElem?_eq_getElem hi] at this
    exact Option.some.inj this
  rw [this]
  simp only [specReg, List.length_take, hl]
  have : min (i + 1) N = i + 1 := by omega
  rw [this]
  by_cases h : i = n - 1
  · simp [h]; omega
  · simp [h]; omega

theorem specRegs_drop_filter {N : Nat} (full : Table) {l : Gram} (hl : l.length = N) (n s : Nat)
    (h1 : 1 ≤ n) :
    ((specRegs N full l).drop s).filter (fun r => r.gram.length == n) =
      if s < n ∧ n ≤ regLen N l then [specReg N full (l.take n)] else [] := by
  rw [filter_drop_single _ _ (n - 1) s (specRegs_shape full hl n h1), specRegs_getElem?]
  have e : n - 1 + 1 = n := by omega
  rw [e]
  by_cases ha : s ≤ n - 1
  · by_cases hb : n - 1 < regLen N l
    · rw [if_pos ha, if_pos hb, if_pos ⟨by omega, by omega⟩]; rfl
    · rw [if_pos ha, if_neg hb, if_neg (by omega)]; rfl
  · rw [if_neg ha, if_neg (by omega)]

theorem pending_specRegs (cfg : Cfg) {N : Nat} (full : Table) {l : Gram} (hl : l.length = N) (n : Nat)
    (h1 : 1 ≤ n) :
    pending cfg (specRegs N full l) n =
      if n ≤ regLen N l then [(specReg N full (l.take n)).emit cfg] else [] := by
  have := specRegs_drop_filter full hl n 0 h1
  rw [List.drop_zero] at this
  unfold pending
  rw [this]
  by_cases h : n ≤ regLen N l
  · rw [if_pos ⟨by omega, h⟩, if_pos h]; rfl
  · rw [if_neg (by omega), if_neg h]; rfl

theorem le_sameOf_specRegs {N : Nat} (h2 : 2 ≤ N) (full : Table) {l g : Gram} (hl : l.length = N)
    (hg : g.length = N) (n : Nat) :
    n ≤ sameOf (specRegs N full l) g ↔ n ≤ regLen N l ∧ g.take n = l.take n := by
  have hpos := regLen_pos h2 l
  have hle := regLen_le N l
  have : (specRegs N full l).getLast? = some (specReg N full (l.take (regLen N l))) := by
    unfold specRegs
    rw [List.getLast?_map, List.getLast?_range, if_neg (by omega)]
    simp only [Option.map_some]
    congr 3; omega
  unfold sameOf
  rw [this]
  simp only [specReg]
  rw [le_commonPrefix, List.length_take, hl, hg, List.take_take]
  constructor
  · rintro ⟨_, hb, hc⟩
    have : n ≤ regLen N l := by omega
    exact ⟨this, by rwa [Nat.min_eq_left this] at hc⟩
  · rintro ⟨ha, hb⟩
    exact ⟨by omega, by omega, by rwa [Nat.min_eq_left ha]⟩

theorem bump_snoc (c : Nat) : ∀ (L : List Reg) (r : Reg),
    bump c (L ++ [r]) = L.map (fun x => { x with actual := x.actual + c }) ++
      [{ r with adj := r.adj + 1, actual := r.actual + c }]
  | [], r => rfl
  | a :: t, r => by
    have ih := bump_snoc c t r
    cases t with
    | nil => rfl
    | cons b t' =>
      simp only [List.cons_append, bump, List.map_cons] at ih ⊢
      rw [ih]

theorem newRegs_fst (g : Gram) (c : Nat) : ∀ (ws : List Word) (n : Nat),
    (newRegs g c n ws).1 = (List.range (min (ws.length - 1) (firstBos ws + 1))).map
      (fun j => (⟨g.take (n + j), if ws[j]? = some bos then c else 1, c⟩ : Reg))
  | [], n => by simp [newRegs]
  | [_], n => by simp [newRegs]
  | w :: w2 :: rest, n => by
    unfold newRegs
    by_cases hw : w = bos
    · subst hw
      have : min ((bos :: w2 :: rest).length - 1) (firstBos (bos :: w2 :: rest) + 1) = 1 := by
        simp [firstBos]
      rw [this]
      simp
    · have ih := newRegs_fst g c (w2 :: rest) (n + 1)
      have e : min ((w :: w2 :: rest).length - 1) (firstBos (w :: w2 :: rest) + 1) =
          min ((w2 :: rest).length - 1) (firstBos (w2 :: rest) + 1) + 1 := by
        simp [firstBos, hw]
      rw [e, List.range_succ_eq_map]
      simp only [hw, if_false, List.map_cons, List.map_map, ih]
      congr 1
      · simp [hw]
      · apply List.map_congr_left
        intro j _
        simp only [Function.comp, Nat.succ_eq_add_one, List.getElem?_cons_succ]
        congr 2; omega

/-! ## 5. A new row after a sorted prefix -/

theorem row_take_ne {N : Nat} {x : Gram} (hx : RowOK N x) (hN : 1 ≤ N) (n : Nat) (h1 : 1 ≤ n) :
    x.take n ≠ [unk] ∧ x.take n ≠ [bos] := by
  have hlen := hx.len
  cases x with
  | nil => simp at hlen; omega
  | cons a t =>
    have hh := hx.head
    simp only [List.head?_cons, ne_eq, Option.some.injEq] at hh
    obtain ⟨m, rfl⟩ : ∃ m, n = m + 1 := ⟨n - 1, by omega⟩
    simp only [List.take_succ_cons, ne_eq, List.cons.injEq, not_and]
    exact ⟨fun h => absurd h hh.2, fun h => absurd h hh.1⟩

theorem getLast?_take_row {N : Nat} {x : Gram} (hx : x.length = N) (n : Nat) (h1 : 1 ≤ n) (hn : n ≤ N) :
    (x.take n).getLast? = x[n - 1]? := by
  rw [List.getLast?_eq_getElem?, List.length_take, hx, Nat.min_eq_left hn, List.getElem?_take,
    if_pos (by omega)]

/-- the situation of one step: `P` is the processed prefix, `l` its last row, `g` the next row -/
structure Ctx (N : Nat) (P : Table) (l g : Gram) : Prop where
  h2 : 2 ≤ N
  lmem : ∃ cl, (l, cl) ∈ P
  rows : ∀ x ∈ P, RowOK N x.1
  lmax : ∀ x ∈ P, ¬ l < x.1
  glt : ∀ x ∈ P, x.1 < g
  grow : RowOK N g

namespace Ctx

variable {N : Nat} {P : Table} {l g : Gram} (X : Ctx N P l g)
include X

theorem lrow : RowOK N l := by
  obtain ⟨cl, h⟩ := X.lmem
  exact X.rows _ h

theorem l_lt_g : l < g := by
  obtain ⟨cl, h⟩ := X.lmem
  exact X.glt _ h

theorem g_ne_l : g ≠ l := by
  intro h
  have := X.l_lt_g
  rw [h] at this
  exact List.lt_irrefl _ this

/-- contiguity: a suffix that `g` shares with some earlier row is shared with the last row -/
theorem contig {x : Gram × Nat} (hx : x ∈ P) (m : Nat) (h : x.1.take m = g.take m) :
    l.take m = g.take m := by
  rw [take_sandwich m x.1 l g (X.lmax x hx) (List.lt_asymm X.l_lt_g) h, h]

/-- a shared suffix never starts with `<s>` -/
theorem shared_no_bos (n : Nat) (h1 : 1 ≤ n) (ht : g.take n = l.take n) : l[n - 1]? ≠ some bos :=
  fun hb => X.g_ne_l (row_eq_of_bos X.lrow X.grow n h1 ht hb)

/-- an invalid or unshared suffix of `g` is the suffix of no earlier row -/
theorem absent (n : Nat) (h1 : 1 ≤ n) (hng : n ≤ regLen N g)
    (hns : ¬ (n ≤ regLen N l ∧ g.take n = l.take n)) : rowsOf P (g.take n) = [] := by
  unfold rowsOf
  rw [List.filter_eq_nil_iff]
  intro x hx hh
  have hle := regLen_le N g
  have hlen : (g.take n).length = n := by rw [List.length_take, X.grow.len]; omega
  rw [hlen] at hh
  have hxg : x.1.take n = g.take n := by simpa using hh
  have hlg := X.contig hx n hxg
  apply hns
  refine ⟨?_, hlg.symm⟩
  rw [le_regLen X.lrow.len h1]
  have := (le_regLen X.grow.len h1).mp hng
  exact ⟨this.1, by rw [validAt_of_take hlg]; exact this.2⟩

end Ctx

/-- the register of a suffix of the new row that no earlier row has -/
theorem specReg_new {N : Nat} (P : Table) {g : Gram} (c : Nat) (hg : g.length = N) (n : Nat)
    (h1 : 1 ≤ n) (hn : n < N) (habs : rowsOf P (g.take n) = []) :
    specReg N (P ++ [(g, c)]) (g.take n) = ⟨g.take n, if g[n - 1]? = some bos then c else 1, c⟩ := by
  have hlen : (g.take n).length = n := by rw [List.length_take, hg]; omega
  have hrows : rowsOf (P ++ [(g, c)]) (g.take n) = [(g, c)] := by
    rw [rowsOf_snoc, habs, hlen, if_pos rfl]; rfl
  unfold specReg adjCount trueCount leftExts
  rw [hrows, hlen, getLast?_take_row hg n h1 (by omega)]
  have hN : ¬ n = N := by omega
  by_cases hb : g[n - 1]? = some bos
  · simp [hN, hb]
  · simp [hN, hb, List.eraseDups_cons]

/-- the register of a suffix that the new row shares with the last row -/
theorem specReg_shared {N : Nat} {P : Table} {l g : Gram} (X : Ctx N P l g) (c : Nat) (same : Nat)
    (hs : ∀ n, n ≤ same ↔ n ≤ regLen N l ∧ g.take n = l.take n) (n : Nat) (h1 : 1 ≤ n)
    (hn : n ≤ same) :
    specReg N (P ++ [(g, c)]) (g.take n) =
      ⟨l.take n, adjCount N P (l.take n) + (if n = same then 1 else 0), trueCount P (l.take n) + c⟩ := by
  obtain ⟨hnl, ht⟩ := (hs n).mp hn
  have hle := regLen_le N l
  have hN := X.h2
  have hlenl : (l.take n).length = n := by rw [List.length_take, X.lrow.len]; omega
  have hhit : g.take (l.take n).length = l.take n := by rw [hlenl, ht]
  have hnb := X.shared_no_bos n h1 ht
  have hlast : (l.take n).getLast? = l[n - 1]? := getLast?_take_row X.lrow.len n h1 (by omega)
  have hcond : ¬ ((l.take n).length = N ∨ (l.take n).getLast? = some bos) := by
    rw [hlenl, hlast]; intro h; rcases h with h | h
    · omega
    · exact hnb h
  rw [ht]
  unfold specReg adjCount
  rw [if_neg hcond, if_neg hcond, trueCount_snoc_hit P g c _ hhit, leftExts_snoc_hit P g c _ hhit, hlenl]
  have hext : g.take (n + 1) ∈ (rowsOf P (l.take n)).map (fun x => x.1.take (n + 1)) ↔ n + 1 ≤ same := by
    constructor
    · intro hm
      obtain ⟨x, hx, hxe⟩ := List.mem_map.mp hm
      unfold rowsOf at hx
      have hxP := (List.mem_filter.mp hx).1
      have hlg := X.contig hxP (n + 1) hxe
      rw [hs]
      refine ⟨?_, hlg.symm⟩
      -- otherwise the register of length `n` is the last one
      apply Classical.byContradiction
      intro hnot
      have hreg : regLen N l = n := by omega
      by_cases hN1 : n = N - 1
      · apply X.g_ne_l
        have e : n + 1 = N := by omega
        rw [e] at hlg
        have h1' := List.take_of_length_le (Nat.le_of_eq X.lrow.len)
        have h2' := List.take_of_length_le (Nat.le_of_eq X.grow.len)
        rw [h1', h2'] at hlg
        exact hlg.symm
      · -- `l` is not valid at `n+1` but valid at `n`: its word `n-1` is `<s>`
        have hv1 : ¬ validAt (n + 1) l = true := by
          intro hv
          have := (le_regLen X.lrow.len (n := n + 1) (by omega)).mpr ⟨by omega, hv⟩
          omega
        have hv0 := ((le_regLen X.lrow.len h1).mp hnl).2
        unfold validAt at hv1 hv0
        simp only [Nat.add_sub_cancel, Bool.not_eq_true', List.contains_eq_mem,
          decide_eq_false_iff_not, Classical.not_not] at hv1 hv0
        rw [List.mem_take_iff_getElem] at hv1
        obtain ⟨j, hj, hjb⟩ := hv1
        have hjn : j = n - 1 := by
          apply Classical.byContradiction
          intro hne
          apply hv0
          rw [List.mem_take_iff_getElem]
          exact ⟨j, by omega, hjb⟩
        subst hjn
        apply hnb
        rw [List.getElem?_eq_getElem (by omega), hjb]
    · intro hn1
      obtain ⟨_, ht1⟩ := (hs (n + 1)).mp hn1
      obtain ⟨cl, hcl⟩ := X.lmem
      apply List.mem_map.mpr
      refine ⟨(l, cl), ?_, ht1.symm⟩
      unfold rowsOf
      rw [List.mem_filter]
      refine ⟨hcl, ?_⟩
      simp [hlenl]
  by_cases hsame : n = same
  · rw [if_neg (by rw [hext]; omega), if_pos hsame]
  · rw [if_pos (by rw [hext]; omega), if_neg hsame]

/-! ## 6. The registers after one step -/

theorem newRegs_spec {N : Nat} (P : Table) {g : Gram} (c : Nat) (hg : g.length = N) (same : Nat)
    (hs : same ≤ firstBos g) (hsN : same ≤ N - 1)
    (habs : ∀ n, same < n → n ≤ regLen N g → rowsOf P (g.take n) = []) :
    (newRegs g c (same + 1) (g.drop same)).1 =
      (List.range (regLen N g - same)).map
        fun j => specReg N (P ++ [(g, c)]) (g.take (same + j + 1)) := by
  rw [newRegs_fst, firstBos_drop g same hs, List.length_drop, hg]
  have e : min (N - same - 1) (firstBos g - same + 1) = regLen N g - same := by
    unfold regLen; omega
  rw [e]
  apply List.map_congr_left
  intro j hj
  have hj' : j < regLen N g - same := List.mem_range.mp hj
  have hle := regLen_le N g
  rw [specReg_new P c hg (same + j + 1) (by omega) (by omega) (habs _ (by omega) (by omega))]
  rw [List.getElem?_drop]
  have e1 : same + 1 + j = same + j + 1 := by omega
  have e2 : same + j + 1 - 1 = same + j := by omega
  rw [e1, e2]

theorem same_le_firstBos {N : Nat} {P : Table} {l g : Gram} (X : Ctx N P l g) (same : Nat)
    (hs : ∀ n, n ≤ same ↔ n ≤ regLen N l ∧ g.take n = l.take n) : same ≤ firstBos g := by
  have hsl := (hs same).mp (Nat.le_refl _)
  have hle := regLen_le N l
  rw [le_firstBos]
  refine ⟨by rw [X.grow.len]; omega, ?_⟩
  intro hmem
  rw [List.mem_take_iff_getElem] at hmem
  obtain ⟨i, hi, hib⟩ := hmem
  have hi1 : i + 1 ≤ same := by omega
  obtain ⟨_, ht⟩ := (hs (i + 1)).mp hi1
  apply X.shared_no_bos (i + 1) (by omega) ht
  have := congrArg (fun x => x[i]?) ht
  simp only [List.getElem?_take, Nat.lt_add_one, if_true] at this
  rw [Nat.add_sub_cancel, ← this, List.getElem?_eq_getElem (by omega), hib]

theorem regs_step {N : Nat} {P : Table} {l g : Gram} (X : Ctx N P l g) (c : Nat) (same : Nat)
    (hs : ∀ n, n ≤ same ↔ n ≤ regLen N l ∧ g.take n = l.take n) :
    bump c ((specRegs N P l).take same) ++ (newRegs g c (same + 1) (g.drop same)).1 =
      specRegs N (P ++ [(g, c)]) g := by
  have hsl := (hs same).mp (Nat.le_refl _)
  have hle := regLen_le N l
  have hfb := same_le_firstBos X same hs
  have hsg : same ≤ regLen N g := by unfold regLen; omega
  have hnew := newRegs_spec P c X.grow.len same hfb (by omega)
    (fun n h1 h2 => X.absent n (by omega) h2 (by rw [← hs]; omega))
  rw [hnew]
  unfold specRegs
  have hsplit : regLen N g = same + (regLen N g - same) := by omega
  conv => rhs; rw [hsplit, List.range_add, List.map_append, List.map_map]
  congr 1
  rw [← List.map_take, List.take_range, Nat.min_eq_left hsl.1]
  cases same with
  | zero => rfl
  | succ m =>
    rw [List.range_succ, List.map_append, List.map_cons, List.map_nil, bump_snoc, List.map_append,
      List.map_cons, List.map_nil, List.map_map]
    congr 1
    · apply List.map_congr_left
      intro i hi
      have := List.mem_range.mp hi
      simp only [Function.comp]
      rw [specReg_shared X c (m + 1) hs (i + 1) (by omega) (by omega), if_neg (by omega)]
      rfl
    · rw [specReg_shared X c (m + 1) hs (m + 1) (by omega) (Nat.le_refl _), if_pos rfl]
      rfl

/-! ## 7. The stream after one step -/

theorem keysE_length {N : Nat} {P : Table} (hP : ∀ x ∈ P, x.1.length = N) (n : Nat) (hn : n ≤ N) :
    ∀ k ∈ keysE n P, k.length = n := by
  have hk : ∀ m, m ≤ N → ∀ k ∈ keys m P, k.length = m := by
    intro m hm k hk
    obtain ⟨x, hx, _, rfl⟩ := mem_keys.mp hk
    rw [List.length_take, hP x hx]; omega
  intro k hk'
  unfold keysE at hk'
  by_cases h1 : n = 1
  · subst h1
    simp only [beq_self_eq_true, if_true, List.mem_cons] at hk'
    rcases hk' with rfl | rfl | h
    · rfl
    · rfl
    · exact hk 1 hn k h
  · have : (n == 1) = false := by simp [h1]
    rw [this] at hk'
    exact hk n hn k hk'

theorem keysE_nodup {N : Nat} {P : Table} (hP : ∀ x ∈ P, RowOK N x.1) (hN : 1 ≤ N) (n : Nat) :
    (keysE n P).Nodup := by
  unfold keysE
  by_cases h1 : n = 1
  · subst h1
    have hno : ∀ k ∈ keys 1 P, k ≠ [unk] ∧ k ≠ [bos] := by
      intro k hk
      obtain ⟨x, hx, _, rfl⟩ := mem_keys.mp hk
      exact row_take_ne (hP x hx) hN 1 (Nat.le_refl _)
    simp only [beq_self_eq_true, if_true, List.nodup_cons, List.mem_cons, not_or]
    refine ⟨⟨by decide, fun h => (hno _ h).1 rfl⟩, fun h => (hno _ h).2 rfl, nodup_dedup _⟩
  · have : (n == 1) = false := by simp [h1]
    rw [this]
    exact nodup_dedup _

theorem not_mem_keysE {P : Table} {g : Gram} (n : Nat) (hg1 : g.take n ≠ [unk] ∧ g.take n ≠ [bos])
    (h : g.take n ∉ keys n P) : g.take n ∉ keysE n P := by
  unfold keysE
  by_cases h1 : n = 1
  · subst h1
    simp only [beq_self_eq_true, if_true, List.mem_cons, not_or]
    exact ⟨hg1.1, hg1.2, h⟩
  · have : (n == 1) = false := by simp [h1]
    rw [this]; exact h

theorem keysE_snoc (n : Nat) (P : Table) (g : Gram) (c : Nat) :
    keysE n (P ++ [(g, c)]) =
      if validAt n g = true ∧ g.take n ∉ keys n P then keysE n P ++ [g.take n] else keysE n P := by
  unfold keysE
  by_cases h1 : n = 1
  · subst h1
    simp only [beq_self_eq_true, if_true]
    rw [keys_snoc]
    split <;> rfl
  · have : (n == 1) = false := by simp [h1]
    rw [this]
    simp only [Bool.false_eq_true, if_false]
    exact keys_snoc n P g c

/-- a new row whose (valid) suffix of length `n` is new adds one record at the end -/
theorem ents_snoc_new (cfg : Cfg) (P : Table) (g : Gram) (c : Nat) (n : Nat) (hn : n < cfg.order)
    (hlen : ∀ k ∈ keysE n P, k.length = n)
    (hg1 : g.take n ≠ [unk] ∧ g.take n ≠ [bos])
    (habs : validAt n g = true → rowsOf P (g.take n) = []) :
    ents cfg (P ++ [(g, c)]) n = ents cfg P n ++
      (if validAt n g = true then [entOf cfg (P ++ [(g, c)]) (g.take n)] else []) := by
  have hnk : g.take n ∉ keys n P := by
    intro hk
    obtain ⟨x, hx, hv, hxe⟩ := mem_keys.mp hk
    have hvg : validAt n g = true := by rw [← validAt_of_take hxe]; exact hv
    have hr := habs hvg
    have hlen' : (g.take n).length = n := by rw [← hxe]; exact hlen _ (by
      have : x.1.take n ∈ keys n P := mem_keys.mpr ⟨x, hx, hv, rfl⟩
      unfold keysE; split
      · next h =>
        have h' : n = 1 := by simpa using h
        subst h'
        exact List.mem_cons_of_mem _ (List.mem_cons_of_mem _ this)
      · exact this)
    have : x ∈ rowsOf P (g.take n) := by
      unfold rowsOf
      rw [List.mem_filter]
      exact ⟨hx, by rw [hlen']; simp [hxe]⟩
    rw [hr] at this
    cases this
  have hnE := not_mem_keysE n hg1 hnk
  have hkeys : keysE n (P ++ [(g, c)]) = keysE n P ++ (if validAt n g = true then [g.take n] else []) := by
    rw [keysE_snoc]
    by_cases hv : validAt n g = true
    · rw [if_pos ⟨hv, hnk⟩, if_pos hv]
    · rw [if_neg (fun h => hv h.1), if_neg hv, List.append_nil]
  rw [ents_eq cfg _ n hn, ents_eq cfg _ n hn, hkeys, List.map_append]
  congr 1
  · apply List.map_congr_left
    intro k hk
    apply entOf_congr
    apply rowsOf_snoc_miss
    rw [hlen k hk]
    intro h
    exact hnE (h ▸ hk)
  · split <;> rfl

theorem stream_step_inv (cfg : Cfg) {P : Table} {l g : Gram} (X : Ctx cfg.order P l g) (c : Nat)
    (hk : cfg.keepSpecials = true) (s : AState) (hregs : s.regs = specRegs cfg.order P l)
    (n : Nat) (h1 : 1 ≤ n) (hn : n < cfg.order)
    (ih : s.stream n ++ pending cfg (specRegs cfg.order P l) n = ents cfg P n) :
    (adjustStep cfg s (g, c)).stream n ++ pending cfg (specRegs cfg.order (P ++ [(g, c)]) g) n =
      ents cfg (P ++ [(g, c)]) n := by
  have hN := X.h2
  have hs := le_sameOf_specRegs X.h2 P X.lrow.len X.grow.len
  have hgne := row_take_ne X.grow (by omega) n h1
  have hlne := row_take_ne X.lrow (by omega) n h1
  have hrowlen : ∀ x ∈ P, x.1.length = cfg.order := fun x hx => (X.rows x hx).len
  have hklen := keysE_length hrowlen n (by omega)
  rw [stream_step, hregs]
  simp only
  rw [specRegs_drop_filter P X.lrow.len n _ h1, pending_specRegs cfg _ X.grow.len n h1]
  rw [pending_specRegs cfg P X.lrow.len n h1] at ih
  by_cases hns : n ≤ sameOf (specRegs cfg.order P l) g
  · obtain ⟨hnl, ht⟩ := (hs n).mp hns
    have hvl := (le_regLen X.lrow.len h1).mp hnl
    have hng : n ≤ regLen cfg.order g := by
      rw [le_regLen X.grow.len h1]
      exact ⟨hvl.1, by rw [validAt_of_take ht]; exact hvl.2⟩
    rw [if_neg (by omega), if_pos hng]
    simp only [List.map_nil, List.reverse_nil, List.append_nil]
    rw [if_pos hnl, emit_specReg cfg hk _ _ hlne.1 hlne.2, ents_eq cfg _ n hn] at ih
    rw [emit_specReg cfg hk _ _ hgne.1 hgne.2, ents_eq cfg _ n hn]
    have hkeys : keysE n (P ++ [(g, c)]) = keysE n P := by
      obtain ⟨cl, hcl⟩ := X.lmem
      have : g.take n ∈ keys n P := mem_keys.mpr ⟨(l, cl), hcl, hvl.2, ht.symm⟩
      rw [keysE_snoc, if_neg (fun h => h.2 this)]
    rw [hkeys]
    have := map_update_last Emit.gram (keysE n P) (entOf cfg P) (entOf cfg (P ++ [(g, c)]))
      (entOf_gram cfg P) (keysE_nodup X.rows (by omega) n) (s.stream n) (entOf cfg P (l.take n))
      ih.symm (by
        intro k hk' hne
        rw [entOf_gram] at hne
        apply entOf_congr
        apply rowsOf_snoc_miss
        rw [hklen k hk', ht]
        exact fun h => hne h.symm)
    rw [entOf_gram] at this
    rw [this, ht]
  · have hnot : ¬ (n ≤ regLen cfg.order l ∧ g.take n = l.take n) := by rw [← hs]; exact hns
    have hA : (((if sameOf (specRegs cfg.order P l) g < n ∧ n ≤ regLen cfg.order l then
          [specReg cfg.order P (l.take n)] else []).map (Reg.emit cfg)).reverse) =
        if n ≤ regLen cfg.order l then [(specReg cfg.order P (l.take n)).emit cfg] else [] := by
      by_cases hh : n ≤ regLen cfg.order l
      · rw [if_pos ⟨by omega, hh⟩, if_pos hh]; rfl
      · rw [if_neg (fun h => hh h.2), if_neg hh]; rfl
    rw [hA, ih]
    have hle := regLen_le cfg.order g
    rw [ents_snoc_new cfg P g c n hn hklen hgne (fun hv =>
      X.absent n h1 ((le_regLen X.grow.len h1).mpr ⟨by omega, hv⟩) hnot)]
    congr 1
    by_cases hng : n ≤ regLen cfg.order g
    · have hv := ((le_regLen X.grow.len h1).mp hng).2
      rw [if_pos hng, if_pos hv, emit_specReg cfg hk _ _ hgne.1 hgne.2]
    · have hv : ¬ validAt n g = true := fun hv => hng ((le_regLen X.grow.len h1).mpr ⟨by omega, hv⟩)
      rw [if_neg hng, if_neg hv]

/-! ## 8. The invariant, the fold, the theorem -/

/-- well-formed order-`N` count table: rows of length `N`, strictly suffix-sorted, newest word
neither `<s>` nor `<unk>`, `<s>` only as a run at the old end -/
structure FullWF (N : Nat) (full : List (Gram × Nat)) : Prop where
  len : ∀ e ∈ full, e.1.length = N
  sorted : full.Pairwise (fun a b => a.1 < b.1)
  headOK : ∀ e ∈ full, e.1.head? ≠ some bos ∧ e.1.head? ≠ some unk
  bosRun : ∀ e ∈ full, ∀ i j, i ≤ j → j < N → e.1[i]? = some bos → e.1[j]? = some bos

theorem FullWF.row {N : Nat} {full : List (Gram × Nat)} (hw : FullWF N full) (e : Gram × Nat)
    (he : e ∈ full) : RowOK N e.1 := ⟨hw.len e he, hw.headOK e he, hw.bosRun e he⟩

/-- after a non-empty prefix `P` with last row `l`: the registers are the specification's
registers of the suffixes of `l`, and emitted ++ pending records are the specification of `P` -/
structure Inv (cfg : Cfg) (P : Table) (l : Gram) (s : AState) : Prop where
  regs : s.regs = specRegs cfg.order P l
  strm : ∀ n, 1 ≤ n → n < cfg.order →
    s.stream n ++ pending cfg (specRegs cfg.order P l) n = ents cfg P n

theorem inv_step (cfg : Cfg) {P : Table} {l g : Gram} (X : Ctx cfg.order P l g) (c : Nat)
    (hk : cfg.keepSpecials = true) (s : AState) (inv : Inv cfg P l s) :
    Inv cfg (P ++ [(g, c)]) g (adjustStep cfg s (g, c)) := by
  constructor
  · show bump c (s.regs.take (sameOf s.regs g)) ++
      (newRegs g c (sameOf s.regs g + 1) (g.drop (sameOf s.regs g))).1 = _
    rw [inv.regs]
    exact regs_step X c _ (le_sameOf_specRegs X.h2 P X.lrow.len X.grow.len)
  · intro n h1 hn
    exact stream_step_inv cfg X c hk s inv.regs n h1 hn (inv.strm n h1 hn)

theorem reverse_short {α : Type} (L : List α) (h : L.length ≤ 1) : L.reverse = L := by
  match L, h with
  | [], _ => rfl
  | [_], _ => rfl

/-- before the first row: `<unk>` is written, `<s>` is pending (and will not be marked) -/
theorem init_stream (cfg : Cfg) (hk : cfg.keepSpecials = true) (n : Nat) (h1 : 1 ≤ n)
    (hn : n < cfg.order) :
    adjustInit.stream n ++ pending cfg adjustInit.regs n = ents cfg [] n := by
  rw [ents_eq cfg _ n hn]
  unfold keysE keys AState.stream adjustInit pending
  by_cases h : n = 1
  · subst h
    simp [Reg.emit, markOf, hk, isSpecial, entOf]
  · have e1 : ((1 : Nat) == n) = false := by simp; omega
    have e2 : (n == 1) = false := by simp [h]
    simp [e1, e2]

theorem sameOf_init {N : Nat} {g : Gram} (hg : RowOK N g) : sameOf adjustInit.regs g = 0 := by
  have hh := hg.head.1
  unfold sameOf adjustInit
  cases g with
  | nil => rfl
  | cons a t =>
    simp only [List.head?_cons, ne_eq, Option.some.injEq] at hh
    simp [commonPrefix, hh]

theorem inv_first (cfg : Cfg) (h2 : 2 ≤ cfg.order) (hk : cfg.keepSpecials = true) (g : Gram) (c : Nat)
    (hg : RowOK cfg.order g) : Inv cfg [(g, c)] g (adjustStep cfg adjustInit (g, c)) := by
  have hsame := sameOf_init hg
  constructor
  · show bump c (adjustInit.regs.take (sameOf adjustInit.regs g)) ++
      (newRegs g c (sameOf adjustInit.regs g + 1) (g.drop (sameOf adjustInit.regs g))).1 = _
    rw [hsame]
    have := newRegs_spec [] c hg.len 0 (Nat.zero_le _) (Nat.zero_le _) (fun _ _ _ => rfl)
    rw [this]
    simp only [List.take_zero, bump, List.nil_append, Nat.sub_zero, Nat.zero_add]
    rfl
  · intro n h1 hn
    rw [stream_step]
    simp only
    rw [hsame, List.drop_zero, reverse_short]
    · have hi := init_stream cfg hk n h1 hn
      unfold pending at hi
      rw [hi, pending_specRegs cfg _ hg.len n h1]
      have hgne := row_take_ne hg (by omega) n h1
      have hlen : ∀ k ∈ keysE n ([] : Table), k.length = n :=
        keysE_length (N := cfg.order) (by intro x hx; cases hx) n (by omega)
      have := ents_snoc_new cfg [] g c n hn hlen hgne (fun _ => rfl)
      rw [List.nil_append] at this
      rw [this]
      congr 1
      have hle := regLen_le cfg.order g
      by_cases hng : n ≤ regLen cfg.order g
      · have hv := ((le_regLen hg.len h1).mp hng).2
        rw [if_pos hng, if_pos hv, emit_specReg cfg hk _ _ hgne.1 hgne.2]
      · have hv : ¬ validAt n g = true := fun hv => hng ((le_regLen hg.len h1).mpr ⟨by omega, hv⟩)
        rw [if_neg hng, if_neg hv]
    · rw [List.length_map]
      exact Nat.le_trans (List.length_filter_le _ _) (by simp [adjustInit])

theorem inv_fold (cfg : Cfg) (h2 : 2 ≤ cfg.order) (hk : cfg.keepSpecials = true) :
    ∀ (rest P : Table) (l : Gram) (cl : Nat) (s : AState),
      (l, cl) ∈ P → (∀ x ∈ P, ¬ l < x.1) → FullWF cfg.order (P ++ rest) → Inv cfg P l s →
      ∀ n, 1 ≤ n → n < cfg.order →
        (adjustFlush cfg (rest.foldl (adjustStep cfg) s)).stream n = ents cfg (P ++ rest) n
  | [], P, l, cl, s, _, _, _, inv, n, h1, hn => by
    rw [List.foldl_nil, stream_flush, inv.regs, inv.strm n h1 hn, List.append_nil]
  | (g, c) :: rest, P, l, cl, s, hl, hmax, hw, inv, n, h1, hn => by
    have hgmem : (g, c) ∈ P ++ (g, c) :: rest := by simp
    have hsort := List.pairwise_append.mp hw.sorted
    have X : Ctx cfg.order P l g :=
      { h2 := h2
        lmem := ⟨cl, hl⟩
        rows := fun x hx => hw.row x (List.mem_append_left _ hx)
        lmax := hmax
        glt := fun x hx => hsort.2.2 x hx (g, c) (by simp)
        grow := hw.row (g, c) hgmem }
    have inv' := inv_step cfg X c hk s inv
    have hassoc : P ++ (g, c) :: rest = (P ++ [(g, c)]) ++ rest := by simp
    rw [List.foldl_cons, hassoc]
    apply inv_fold cfg h2 hk rest (P ++ [(g, c)]) g c _ (by simp) _ (hassoc ▸ hw) inv' n h1 hn
    intro x hx
    rcases List.mem_append.mp hx with hx | hx
    · exact List.lt_asymm (X.glt x hx)
    · simp only [List.mem_singleton] at hx
      subst hx
      exact List.lt_irrefl _

/-- **C05, refinement**: for every lower order the streaming algorithm emits exactly the records
of the set-based specification, in the same order. -/
theorem adjust_stream_eq (cfg : Cfg) (full : List (Gram × Nat)) (h2 : 2 ≤ cfg.order)
    (hw : FullWF cfg.order full) (hk : cfg.keepSpecials = true) (n : Nat) (h1 : 1 ≤ n)
    (hn : n < cfg.order) :
    (adjustStream cfg full).stream n = ents cfg full n := by
  unfold adjustStream
  cases full with
  | nil =>
    rw [List.foldl_nil, stream_flush]
    exact init_stream cfg hk n h1 hn
  | cons e rest =>
    obtain ⟨g, c⟩ := e
    rw [List.foldl_cons]
    have hg := hw.row (g, c) (by simp)
    exact inv_fold cfg h2 hk rest [(g, c)] g c _ (by simp)
      (by intro x hx; simp only [List.mem_singleton] at hx; subst hx; exact List.lt_irrefl _)
      (by simpa using hw) (inv_first cfg h2 hk g c hg) n h1 hn

/-- every emitted record carries exactly the specification's prune mark -/
theorem prune_exact (cfg : Cfg) (full : List (Gram × Nat)) (h2 : 2 ≤ cfg.order)
    (hw : FullWF cfg.order full) (hk : cfg.keepSpecials = true) (n : Nat) (h1 : 1 ≤ n)
    (hn : n < cfg.order) :
    ∀ e ∈ (adjustStream cfg full).stream n, e.marked = pruned cfg full e.gram := by
  intro e he
  rw [adjust_stream_eq cfg full h2 hw hk n h1 hn, ents_eq cfg _ n hn] at he
  obtain ⟨k, _, rfl⟩ := List.mem_map.mp he
  rw [entOf_gram]
  unfold entOf
  by_cases hsp : (k == [unk] || k == [bos]) = true
  · rw [if_pos hsp]
    unfold pruned
    have : (k == [unk] || k == [bos] || k == [eos]) = true := by rw [hsp]; rfl
    rw [if_pos this]
  · rw [if_neg hsp]

/-- the statistics that `AdjustCounts` collects are the counts-of-counts of the specification -/
theorem stats_eq (cfg : Cfg) (full : List (Gram × Nat)) (h2 : 2 ≤ cfg.order)
    (hw : FullWF cfg.order full) (hk : cfg.keepSpecials = true) (hfix : cfg.flushAdjusted = true)
    (i : Nat) (hi : i + 1 < cfg.order) :
    statsOf (adjustStream cfg full).adds.reverse i = countsOfCounts (ents cfg full (i + 1)) := by
  rw [stats_eq_stream cfg cfg.order (by omega) full hw.len hfix i hi,
    adjust_stream_eq cfg full h2 hw hk (i + 1) (by omega) hi]

/-! ## 9. `FullWF` is decidable (and holds for real tables) -/

/-- executable form of `FullWF` -/
def fullWFb (N : Nat) (full : List (Gram × Nat)) : Bool :=
  decide (∀ e ∈ full, e.1.length = N)
  && decide (full.Pairwise (fun a b => a.1 < b.1))
  && decide (∀ e ∈ full, e.1.head? ≠ some bos ∧ e.1.head? ≠ some unk)
  && decide (∀ e ∈ full, ∀ i, i < N → ∀ j, j < N → i ≤ j → e.1[i]? = some bos → e.1[j]? = some bos)

theorem fullWFb_sound (N : Nat) (full : List (Gram × Nat)) (h : fullWFb N full = true) :
    FullWF N full := by
  simp only [fullWFb, Bool.and_eq_true, decide_eq_true_eq] at h
  obtain ⟨⟨⟨h1, h2⟩, h3⟩, h4⟩ := h
  exact ⟨h1, h2, h3, fun e he i j hij hj hb => h4 e he i (by omega) j hj hij hb⟩

/-- the trigram table of the corpus `3 4 / 3 3 4 / 5 / 3 4` (`countFull 3`) is well-formed -/
theorem exFull_wf : FullWF 3
    [([2, 4, 3], 3), ([2, 5, 1], 1), ([3, 1, 1], 3), ([3, 3, 1], 1), ([4, 3, 1], 2), ([4, 3, 3], 1),
      ([5, 1, 1], 1)] :=
  fullWFb_sound _ _ (by decide)

end KV.KN.Adjust
