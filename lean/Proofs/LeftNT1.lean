import Proofs.LeftFrag
/-! Locality of the textbook score (dead contexts do not matter), the finished-fragment invariant `FragC`,
and the bookkeeping quantities of the `NonTerminal` proof. -/
namespace KV.Left
open KV.Arpa KV.Table KV.State KV.Score

variable {a : Arpa} {T : Table}

/-- if no n-gram `w h1 c'` (c' a non-empty prefix of `c`) is in the model, the extra context `c` only contributes
back-offs -/
theorem score_local (w : Word) (h1 c : List Word) (hlen : h1.length ≤ a.order - 1)
    (hnone : ∀ k, 1 ≤ k → k ≤ c.length → a.gram (w :: h1 ++ c.take k) = none) :
    score a (h1 ++ c) w = score a h1 w +
      rsum (fun j => a.boW (h1 ++ c.take (j+1))) 0 (min c.length (a.order - 1 - h1.length)) := by
  let hh := h1 ++ c
  let i := h1.length
  let d := min c.length (a.order - 1 - i)
  have hn : min hh.length (a.order - 1) = i + d := by simp only [hh, List.length_append, d, i]; omega
  have htk : ∀ k, hh.take (i + k) = h1 ++ c.take k := fun k => take_append_len h1 c k
  have hskip := scoreAt_skip a hh w i d (by
    intro cc h1' h2'
    obtain ⟨k, rfl⟩ : ∃ k, cc = i + k := ⟨cc - i, by omega⟩
    rw [htk k]
    exact hnone k (by omega) (by simp only [d] at h2'; omega))
  have h0 : scoreAt a hh w i = score a h1 w := by
    have := scoreAt_take a hh w i i (Nat.le_refl _)
    have e : hh.take i = h1 := by simpa using htk 0
    rw [e] at this
    unfold score
    rw [Nat.min_eq_left hlen]
    exact this.symm
  show scoreAt a hh w (min hh.length (a.order - 1)) = _
  rw [hn, hskip, h0]
  congr 1
  have := rsum_shift (fun cc => a.boW (hh.take (cc+1))) i 0 d
  simp only [Nat.add_zero] at this
  rw [this]
  apply rsum_congr
  intro j _ _
  show a.boW (hh.take (i + j + 1)) = _
  have e : i + j + 1 = i + (j + 1) := by omega
  rw [e, htk (j+1)]

/-- contexts that are dead do not change the score -/
theorem score_dead (H : Hyp a T) (w : Word) (h1 c : List Word)
    (hdead : ∀ k, 1 ≤ k → k ≤ c.length → ¬ live a (h1 ++ c.take k)) :
    score a (h1 ++ c) w = score a h1 w := by
  by_cases hlen : h1.length ≤ a.order - 1
  · have hnone : ∀ k, 1 ≤ k → k ≤ c.length → a.gram (w :: h1 ++ c.take k) = none := by
      intro k hk1 hk2
      apply Classical.byContradiction; intro hreal
      have hne : h1 ++ c.take k ≠ [] := by have := take_ne_nil hk1 hk2; simp [this]
      have hctx := H.wf.ctx_present w _ hne hreal
      obtain ⟨e, he⟩ := Option.ne_none_iff_exists'.mp hctx
      exact hdead k hk1 hk2 ⟨e, he, Or.inr ⟨w, hreal⟩⟩
    rw [score_local w h1 c hlen hnone]
    have : rsum (fun j => a.boW (h1 ++ c.take (j+1))) 0 (min c.length (a.order - 1 - h1.length)) = 0 := by
      apply rsum_zero
      intro j _ hj
      exact boW_zero_of_dead (hdead (j+1) (by omega) (by omega))
    rw [this]; grind
  · rw [← score_take a (h1 ++ c) w, ← score_take a h1 w]
    congr 1
    rw [List.take_append_of_le_length (by omega)]

theorem specSeq_dead (H : Hyp a T) (c : List Word) :
    ∀ (ws h1 : List Word), (∀ k, 1 ≤ k → k ≤ c.length → ¬ live a (h1 ++ c.take k)) →
      specSeq a (h1 ++ c) ws = specSeq a h1 ws := by
  intro ws
  induction ws with
  | nil => intro h1 _; rfl
  | cons w ws ih =>
    intro h1 hd
    simp only [specSeq]
    rw [score_dead H w h1 c hd]
    have := ih (w :: h1) (by
      intro k hk1 hk2
      have hne : h1 ++ c.take k ≠ [] := by have := take_ne_nil hk1 hk2; simp [this]
      exact H.dead_cons [w] _ hne (hd k hk1 hk2))
    rw [← this]; rfl

theorem sum_range_map (f : Nat → Rat) (n : Nat) : ((List.range n).map f).sum = rsum f 0 n := by
  have := sum_drop_range_map f n 0 (Nat.zero_le _)
  simpa using this

/-! ### finished fragments -/

/-- the invariant of a finished fragment (`ChartState` + score returned by `Finish`) -/
structure FragC (a : Arpa) (T : Table) (R : Ptr → Rat) (ws : List Word) (L : Nat) (c : Chart) (p : Rat) : Prop where
  right_for : StateFor a ws.reverse c.right
  right_norm : NormS c.right
  L_le : L ≤ ws.length
  L_lt : L ≤ a.order - 1
  ptrs : c.left.pointers = (List.range L).map (pre ws)
  ptr_xl : ∀ i, i < L → T.xl (pre ws i) = true
  prob_eq : p = restSum R ws L + specSeq a (ws.take L).reverse (ws.drop L)
  open_ : c.left.full = false → L = ws.length ∧ c.right.length = ws.length
  closed : c.left.full = true → Closed T ws L

theorem finish_frag (H : Hyp a T) (R : Ptr → Rat) {ws : List Word} {L : Nat} {rs : RS} (F : Frag a T R ws L rs) :
    FragC a T R ws L (finish T.order rs).1 (finish T.order rs).2 := by
  have hord : T.order = a.order := H.tf.order_eq
  refine ⟨F.right_for, F.right_norm, F.L_le, F.L_lt, F.ptrs, F.ptr_xl, F.prob_eq, ?_, ?_⟩
  · intro hf
    have hf' : (rs.leftDone || rs.out.left.length == T.order - 1) = false := hf
    simp only [Bool.or_eq_false_iff] at hf'
    exact F.open_ hf'.1
  · intro hf
    have hf' : (rs.leftDone || rs.out.left.length == T.order - 1) = true := hf
    by_cases hd : rs.leftDone = true
    · exact F.closed hd
    · have hd' : rs.leftDone = false := by simpa using hd
      simp only [hd', Bool.false_or, beq_iff_eq] at hf'
      have hl : rs.out.left.length = L := by simp [LeftSt.length, F.ptrs]
      right; right
      exact ⟨(F.open_ hd').1, by omega⟩

/-! ### bookkeeping -/

/-- the fragment-internal (reversed) history of word `i` -/
def gm1 (ws : List Word) (i : Nat) : List Word := (ws.take i).reverse

theorem pre_eq_cons (ws : List Word) (i : Nat) (hi : i < ws.length) : pre ws i = ws[i] :: gm1 ws i := by
  unfold pre gm1
  rw [List.take_succ_eq_append_getElem hi]
  simp

theorem gm1_succ (ws : List Word) (i : Nat) (hi : i < ws.length) : gm1 ws (i+1) = pre ws i := rfl

theorem drop_eq_cons {α} (l : List α) (i : Nat) (hi : i < l.length) : l.drop i = l[i] :: l.drop (i+1) := by
  exact List.drop_eq_getElem_cons hi

/-- prob − rest of a pointer (an entry of the table) -/
theorem probMinusRest_entry (R : Ptr → Rat) {g : Ptr} {t : TEntry} (ht : T.lookup g = some t) :
    probMinusRest T R g = t.prob - R g := by
  simp [probMinusRest, foundOf, ht, toFound]

/-- the probability stored with the pointer of prefix `i` is the fragment-internal score of word `i` -/
theorem pre_prob (H : Hyp a T) (ws : List Word) (i : Nat) (hi : i < ws.length) (hN : i ≤ a.order - 1)
    {t : TEntry} (ht : T.lookup (pre ws i) = some t) : t.prob = score a (gm1 ws i) ws[i] := by
  have hl : (gm1 ws i).length = i := by simp [gm1]; omega
  have := entry_prob_eq H.tf (gm1 ws i) ws[i] i (by omega) hN t (by
    rw [List.take_of_length_le (by omega), ← pre_eq_cons ws i hi]; exact ht)
  rw [this]
  unfold score
  rw [hl, Nat.min_eq_left hN]

/-- what a completed left state still has to receive when the history `h` is revealed, from pointer `i` on -/
def remaining (a : Arpa) (R : Ptr → Rat) (ws : List Word) (L : Nat) (h : List Word) (i : Nat) : Rat :=
  specSeq a (gm1 ws i ++ h) (ws.drop i) - (restSum R ws L - restSum R ws i) - specSeq a (gm1 ws L) (ws.drop L)

theorem remaining_step (R : Ptr → Rat) (ws : List Word) (L : Nat) (h : List Word) (i : Nat) (hi : i < L) (hL : L ≤ ws.length) :
    remaining a R ws L h i = (score a (gm1 ws i ++ h) ws[i] - R (pre ws i)) + remaining a R ws L h (i+1) := by
  unfold remaining
  rw [drop_eq_cons ws i (by omega)]
  simp only [specSeq, restSum]
  have e : ws[i] :: (gm1 ws i ++ h) = gm1 ws (i+1) ++ h := by
    rw [gm1_succ ws i (by omega), pre_eq_cons ws i (by omega)]; rfl
  rw [e]
  grind

/-- if everything beyond the fragment is dead from pointer `i` on, what remains is exactly `UnRest` of the
remaining pointers -/
theorem unrest_remaining (H : Hyp a T) (R : Ptr → Rat) (ws : List Word) (L : Nat) (h : List Word) (hL : L ≤ ws.length)
    (hLN : L ≤ a.order - 1) (hxl : ∀ i, i < L → T.xl (pre ws i) = true) :
    ∀ (n i : Nat), n = L - i → i ≤ L →
      (∀ k, 1 ≤ k → k ≤ h.length → ¬ live a (gm1 ws i ++ h.take k)) →
      unRest T R (((List.range L).map (pre ws)).drop i) (i+1) = remaining a R ws L h i := by
  intro n
  induction n with
  | zero =>
    intro i hn hi hd
    have : i = L := by omega
    subst this
    rw [List.drop_eq_nil_of_le (by simp)]
    unfold remaining unRest
    have := specSeq_dead H h (ws.drop i) (gm1 ws i) hd
    rw [this]
    simp only [List.map_nil, List.sum_nil]; grind
  | succ n ih =>
    intro i hn hi hd
    have hiL : i < L := by omega
    have hdrop : ((List.range L).map (pre ws)).drop i = pre ws i :: ((List.range L).map (pre ws)).drop (i+1) := by
      rw [drop_eq_cons _ i (by simpa using hiL)]
      simp
    rw [hdrop, remaining_step R ws L h i hiL hL]
    obtain ⟨t, ht, _⟩ := xl_lookup (hxl i hiL)
    have hsc : score a (gm1 ws i ++ h) ws[i] = t.prob := by
      rw [score_dead H ws[i] (gm1 ws i) h hd, pre_prob H ws i (by omega) (by omega) ht]
    have hd' : ∀ k, 1 ≤ k → k ≤ h.length → ¬ live a (gm1 ws (i+1) ++ h.take k) := by
      intro k hk1 hk2
      rw [gm1_succ ws i (by omega), pre_eq_cons ws i (by omega)]
      have hne : gm1 ws i ++ h.take k ≠ [] := by have := take_ne_nil hk1 hk2; simp [this]
      exact H.dead_cons [ws[i]] _ hne (hd k hk1 hk2)
    have := ih (i+1) (by omega) (by omega) hd'
    unfold unRest at this ⊢
    simp only [List.map_cons, List.sum_cons]
    rw [this, probMinusRest_entry R ht, hsc]

end KV.Left
