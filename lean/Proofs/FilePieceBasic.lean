import Model.FilePiece
/-! List lemmas for the FilePiece proofs (core only). -/
namespace KV.FilePiece

/-! ### idxOf -/

theorem idxOf_none_iff {p : Byte → Bool} {l : List Byte} :
    idxOf p l = none ↔ ∀ b ∈ l, p b = false := by
  induction l with
  | nil => simp [idxOf]
  | cons a l ih =>
    simp only [idxOf]
    by_cases h : p a
    · simp [h]
    · simp [h, ih]

theorem idxOf_some_lt {p : Byte → Bool} {l : List Byte} {i : Nat} (h : idxOf p l = some i) :
    i < l.length := by
  induction l generalizing i with
  | nil => simp [idxOf] at h
  | cons a l ih =>
    simp only [idxOf] at h
    by_cases ha : p a
    · simp [ha] at h; subst h; simp
    · simp [ha] at h
      obtain ⟨j, hj, rfl⟩ := h
      have := ih hj
      simp; omega

/-- scanning a prefix that already contains a hit gives the same index -/
theorem idxOf_take_some {p : Byte → Bool} {l : List Byte} {k i : Nat}
    (h : idxOf p (l.take k) = some i) : idxOf p l = some i := by
  induction l generalizing k i with
  | nil => simp [idxOf] at h
  | cons a l ih =>
    cases k with
    | zero => simp [idxOf] at h
    | succ k =>
      simp only [List.take_succ_cons, idxOf] at h ⊢
      by_cases ha : p a
      · simpa [ha] using h
      · simp [ha] at h ⊢
        obtain ⟨j, hj, rfl⟩ := h
        exact ⟨j, ih hj, rfl⟩

theorem idxOf_append_of_none {p : Byte → Bool} {l m : List Byte} (h : idxOf p l = none) :
    idxOf p (l ++ m) = (idxOf p m).map (· + l.length) := by
  induction l with
  | nil => simp
  | cons a l ih =>
    simp only [idxOf] at h
    by_cases ha : p a
    · simp [ha] at h
    · simp [ha] at h
      simp only [List.cons_append, idxOf, ha, Bool.false_eq_true, ↓reduceIte, ih h, List.length_cons]
      cases idxOf p m <;> simp <;> omega

/-- `idxFrom` agrees with `idxOf` when the skipped prefix has no hit -/
theorem idxFrom_eq_idxOf {p : Byte → Bool} {l : List Byte} {skip : Nat}
    (h : idxOf p (l.take skip) = none) (hs : skip ≤ l.length) : idxFrom p l skip = idxOf p l := by
  unfold idxFrom
  conv => rhs; rw [← List.take_append_drop skip l]
  rw [idxOf_append_of_none h]
  simp [List.length_take, Nat.min_eq_left hs]

theorem idxOf_take_none {p : Byte → Bool} {l : List Byte} (n : Nat) (h : idxOf p l = none) :
    idxOf p (l.take n) = none := by
  rw [idxOf_none_iff] at h ⊢
  intro b hb; exact h b (List.mem_of_mem_take hb)

/-- the same without a bound on `skip` (a window that shrank below the resume offset, after a fall back) -/
theorem idxFrom_eq_idxOf' {p : Byte → Bool} {l : List Byte} {skip : Nat}
    (h : idxOf p (l.take skip) = none) : idxFrom p l skip = idxOf p l := by
  by_cases hs : skip ≤ l.length
  · exact idxFrom_eq_idxOf h hs
  · have h1 : l.take skip = l := List.take_of_length_le (by omega)
    have h2 : l.drop skip = [] := List.drop_of_length_le (by omega)
    rw [h1] at h
    simp [idxFrom, h2, idxOf, h]

theorem idxOf_some_spec {p : Byte → Bool} {l : List Byte} {i : Nat} (h : idxOf p l = some i) :
    idxOf p (l.take i) = none ∧ p (l.getD i 0) = true := by
  induction l generalizing i with
  | nil => simp [idxOf] at h
  | cons a l ih =>
    simp only [idxOf] at h
    by_cases ha : p a
    · simp [ha] at h; subst h; simp [idxOf, ha]
    · simp [ha] at h
      obtain ⟨j, hj, rfl⟩ := h
      have := ih hj
      simp only [List.getD_eq_getElem?_getD] at this ⊢
      simp [idxOf, ha, this.1, this.2]

/-- relation with `takeWhile` -/
theorem idxOf_some_takeWhile {p : Byte → Bool} {l : List Byte} {i : Nat} (h : idxOf p l = some i) :
    l.takeWhile (fun b => !p b) = l.take i := by
  induction l generalizing i with
  | nil => simp [idxOf] at h
  | cons a l ih =>
    simp only [idxOf] at h
    by_cases ha : p a
    · simp [ha] at h; subst h; simp [List.takeWhile, ha]
    · simp [ha] at h
      obtain ⟨j, hj, rfl⟩ := h
      simp [List.takeWhile, ha, ih hj]

theorem idxOf_none_takeWhile {p : Byte → Bool} {l : List Byte} (h : idxOf p l = none) :
    l.takeWhile (fun b => !p b) = l := by
  rw [idxOf_none_iff] at h
  induction l with
  | nil => rfl
  | cons a l ih =>
    have ha := h a (by simp)
    simp only [List.takeWhile, ha, Bool.not_false]
    rw [ih (fun b hb => h b (by simp [hb]))]

/-! ### lastIdx1 and the `last_space_` invariant -/

/-- what `ReadNumber` needs to know about `last_space_` (index + 1) relative to `position_` -/
def LS (win : List Byte) (pos ls1 : Nat) : Prop :=
  (ls1 ≤ pos ∧ ∀ b ∈ win.drop pos, isSpace b = false) ∨
  (pos < ls1 ∧ ls1 ≤ win.length ∧ isSpace (win.getD (ls1 - 1) 0) = true ∧ ∀ b ∈ win.drop ls1, isSpace b = false)

theorem lastIdx1_zero {p : Byte → Bool} {l : List Byte} (h : lastIdx1 p l = 0) : ∀ b ∈ l, p b = false := by
  induction l with
  | nil => simp
  | cons a l ih =>
    simp only [lastIdx1] at h
    split at h
    · rename_i h0
      by_cases ha : p a
      · simp [ha] at h
      · intro b hb
        simp at hb
        rcases hb with rfl | hb
        · simpa using ha
        · exact ih h0 b hb
    · omega

theorem lastIdx1_pos {p : Byte → Bool} {l : List Byte} {n : Nat} (h : lastIdx1 p l = n + 1) :
    n < l.length ∧ p (l.getD n 0) = true := by
  induction l generalizing n with
  | nil => simp [lastIdx1] at h
  | cons a l ih =>
    simp only [lastIdx1] at h
    split at h
    · by_cases ha : p a
      · simp [ha] at h; subst h; simp [ha]
      · simp [ha] at h
    · rename_i m hm
      have := ih hm
      have hn : n = m + 1 := by omega
      subst hn
      simp only [List.getD_eq_getElem?_getD] at this ⊢
      have h2 := this.2
      simp [this.1] at h2
      simp [this.1, h2]

theorem lastIdx1_after {p : Byte → Bool} {l : List Byte} {n : Nat} (h : lastIdx1 p l = n + 1) :
    ∀ b ∈ l.drop (n + 1), p b = false := by
  induction l generalizing n with
  | nil => simp [lastIdx1] at h
  | cons a l ih =>
    simp only [lastIdx1] at h
    split at h
    · rename_i h0
      by_cases ha : p a
      · simp [ha] at h; subst h
        simpa using lastIdx1_zero h0
      · simp [ha] at h
    · rename_i m hm
      have hn : n = m + 1 := by omega
      subst hn
      simpa using ih hm

theorem LS_compute (win : List Byte) (pos : Nat) (hp : pos ≤ win.length) : LS win pos (computeLs1 win pos) := by
  unfold computeLs1
  cases h : lastIdx1 isSpace (win.drop pos) with
  | zero => left; exact ⟨by omega, lastIdx1_zero h⟩
  | succ n =>
    right
    have h1 := lastIdx1_pos h
    have h3 := lastIdx1_after h
    simp only [List.length_drop] at h1
    refine ⟨by omega, by omega, ?_, ?_⟩
    · have h2 := h1.2
      rw [List.getD_eq_getElem?_getD, List.getElem?_drop] at h2
      rw [List.getD_eq_getElem?_getD]
      have : pos + (n + 1) - 1 = pos + n := by omega
      rw [this]; exact h2
    · rw [List.drop_drop] at h3
      exact h3

theorem mem_drop_of_le {l : List Byte} {a b : Nat} (h : a ≤ b) {x : Byte} (hx : x ∈ l.drop b) : x ∈ l.drop a := by
  have : l.drop b = (l.drop a).drop (b - a) := by
    rw [List.drop_drop]; congr 1; omega
  rw [this] at hx
  exact List.mem_of_mem_drop hx

theorem LS_mono {win : List Byte} {pos pos' ls1 : Nat} (h : LS win pos ls1) (hp : pos ≤ pos') :
    LS win pos' ls1 := by
  rcases h with ⟨h1, h2⟩ | ⟨h1, h2, h3, h4⟩
  · left
    exact ⟨by omega, fun b hb => h2 b (mem_drop_of_le hp hb)⟩
  · by_cases hc : pos' < ls1
    · right; exact ⟨hc, h2, h3, h4⟩
    · left
      exact ⟨by omega, fun b hb => h4 b (mem_drop_of_le (by omega) hb)⟩

end KV.FilePiece
