import Proofs.SortOffsets
import Proofs.SortMerge
/-! C16: passes and the whole external sort. -/
namespace KV.Sort
open List

variable {α : Type}

theorem splitGroups_flatten {β : Type} : ∀ (sizes : List Nat) (xs : List β), (splitGroups sizes xs).flatten = xs
  | _, [] => by cases ‹List Nat› <;> simp [splitGroups]
  | [], x :: xs => by simp [splitGroups]
  | n :: ns, x :: xs => by
    simp only [splitGroups, flatten_cons, splitGroups_flatten ns (xs.drop (n - 1))]
    simp

theorem mem_of_mem_splitGroups {β : Type} {sizes : List Nat} {xs : List β} {g : List β} {r : β}
    (hg : g ∈ splitGroups sizes xs) (hr : r ∈ g) : r ∈ xs := by
  rw [← splitGroups_flatten sizes xs]
  exact mem_flatten.mpr ⟨g, hg, hr⟩

def AllSorted (lt : α → α → Bool) (runs : List (List α)) : Prop := ∀ r ∈ runs, Pairwise (LE lt) r
def AllStrict (lt : α → α → Bool) (runs : List (List α)) : Prop := ∀ r ∈ runs, Pairwise (fun a b => lt a b = true) r

/-! ### one merge group -/

theorem mergeGroup_sorted {lt : α → α → Bool} (h : StrictWeak lt) {comb} (hc : CombKeeps lt comb) (pick)
    (g : List (List α)) (hg : AllSorted lt g) : Pairwise (LE lt) (mergeGroup lt comb pick g) :=
  combineAdj_sorted h hc _ (kmerge_sorted h pick g hg)

theorem mergeGroup_strict {lt : α → α → Bool} (h : StrictWeak lt) {comb} (hc : CombKeeps lt comb)
    (hk : CombComplete lt comb) (pick) (g : List (List α)) (hg : AllSorted lt g) :
    Pairwise (fun a b => lt a b = true) (mergeGroup lt comb pick g) :=
  combineAdj_strict h hc hk _ (kmerge_sorted h pick g hg)

theorem mergeGroup_perm {lt : α → α → Bool} (h : StrictWeak lt) (pick) (g : List (List α)) :
    mergeGroup lt neverCombine pick g ~ g.flatten := by
  unfold mergeGroup
  rw [combineAdj_never]
  exact kmerge_perm h pick g

theorem mergeGroup_sum {lt : α → α → Bool} (h : StrictWeak lt) {comb : α → α → Option α} (pick) (w : α → Nat)
    (hw : ∀ a b c, comb a b = some c → w c = w a + w b) (g : List (List α)) :
    ((mergeGroup lt comb pick g).map w).sum = (g.flatten.map w).sum := by
  unfold mergeGroup
  rw [combineAdj_sum w hw]
  exact ((kmerge_perm h pick g).map w).sum_nat

theorem strict_sorted {lt : α → α → Bool} (h : StrictWeak lt) {l : List α}
    (hl : Pairwise (fun a b => lt a b = true) l) : Pairwise (LE lt) l :=
  hl.imp (fun hab => h.asymm _ _ hab)

/-! ### one pass -/

/-- the three shapes of a pass result -/
theorem pass_cases (lt : α → α → Bool) (comb) (pick) (sizes) (runs : List (List α)) :
    (runs.length ≤ 1 ∧ pass lt comb pick sizes runs = some (nonempties runs)) ∨
    (2 ≤ runs.length ∧ pass lt comb pick sizes runs =
        some (nonempties ((splitGroups sizes runs).map (mergeGroup lt comb pick)))) := by
  match runs with
  | [] => left; exact ⟨by simp, by simp [pass, storeRuns_eq]⟩
  | [r] => left; exact ⟨by simp, by simp [pass, storeRuns_eq]⟩
  | r1 :: r2 :: rs => right; exact ⟨by simp, by simp only [pass, storeRunsLogged_merge, storeRuns_eq]⟩

theorem groups_sorted {lt : α → α → Bool} {sizes} {runs : List (List α)} (hr : AllSorted lt runs) :
    ∀ g ∈ splitGroups sizes runs, AllSorted lt g :=
  fun _ hg r hrg => hr r (mem_of_mem_splitGroups hg hrg)

theorem pass_sorted {lt : α → α → Bool} (h : StrictWeak lt) {comb} (hc : CombKeeps lt comb) (pick) (sizes)
    {runs runs' : List (List α)} (hr : AllSorted lt runs) (hp : pass lt comb pick sizes runs = some runs') :
    AllSorted lt runs' := by
  rcases pass_cases lt comb pick sizes runs with ⟨_, he⟩ | ⟨_, he⟩
  · rw [he] at hp; cases hp
    exact fun r hr' => hr r (mem_nonempties.mp hr').1
  · rw [he] at hp; cases hp
    intro r hr'
    obtain ⟨g, hg, rfl⟩ := mem_map.mp (mem_nonempties.mp hr').1
    exact mergeGroup_sorted h hc pick g (groups_sorted hr g hg)

theorem pass_strict {lt : α → α → Bool} (h : StrictWeak lt) {comb} (hc : CombKeeps lt comb)
    (hk : CombComplete lt comb) (pick) (sizes)
    {runs runs' : List (List α)} (hr : AllStrict lt runs) (hp : pass lt comb pick sizes runs = some runs') :
    AllStrict lt runs' := by
  rcases pass_cases lt comb pick sizes runs with ⟨_, he⟩ | ⟨_, he⟩
  · rw [he] at hp; cases hp
    exact fun r hr' => hr r (mem_nonempties.mp hr').1
  · rw [he] at hp; cases hp
    intro r hr'
    obtain ⟨g, hg, rfl⟩ := mem_map.mp (mem_nonempties.mp hr').1
    exact mergeGroup_strict h hc hk pick g
      (groups_sorted (fun r hr' => strict_sorted h (hr r hr')) g hg)

theorem flatten_map_perm {β : Type} {f : List (List β) → List β} :
    ∀ (gs : List (List (List β))), (∀ g ∈ gs, f g ~ g.flatten) → (gs.map f).flatten ~ gs.flatten.flatten
  | [], _ => by simp
  | g :: gs, hf => by
    simp only [map_cons, flatten_cons, flatten_append]
    exact (hf g (by simp)).append (flatten_map_perm gs (fun g' hg' => hf g' (by simp [hg'])))

theorem pass_perm {lt : α → α → Bool} (h : StrictWeak lt) (pick) (sizes)
    {runs runs' : List (List α)} (hp : pass lt neverCombine pick sizes runs = some runs') :
    runs'.flatten ~ runs.flatten := by
  rcases pass_cases lt neverCombine pick sizes runs with ⟨_, he⟩ | ⟨_, he⟩
  · rw [he] at hp; cases hp
    rw [flatten_nonempties]
  · rw [he] at hp; cases hp
    rw [flatten_nonempties]
    have := flatten_map_perm (f := mergeGroup lt neverCombine pick) (splitGroups sizes runs)
      (fun g _ => mergeGroup_perm h pick g)
    rwa [splitGroups_flatten] at this

theorem flatten_map_sum {β : Type} {f : List (List β) → List β} (w : β → Nat) :
    ∀ (gs : List (List (List β))), (∀ g ∈ gs, ((f g).map w).sum = (g.flatten.map w).sum) →
      (((gs.map f).flatten).map w).sum = ((gs.flatten.flatten).map w).sum
  | [], _ => by simp
  | g :: gs, hf => by
    simp only [map_cons, flatten_cons, flatten_append, map_append, sum_append]
    rw [hf g (by simp), flatten_map_sum w gs (fun g' hg' => hf g' (by simp [hg']))]

theorem pass_sum {lt : α → α → Bool} (h : StrictWeak lt) {comb : α → α → Option α} (pick) (w : α → Nat)
    (hw : ∀ a b c, comb a b = some c → w c = w a + w b) (sizes)
    {runs runs' : List (List α)} (hp : pass lt comb pick sizes runs = some runs') :
    (runs'.flatten.map w).sum = (runs.flatten.map w).sum := by
  rcases pass_cases lt comb pick sizes runs with ⟨_, he⟩ | ⟨_, he⟩
  · rw [he] at hp; cases hp
    rw [flatten_nonempties]
  · rw [he] at hp; cases hp
    rw [flatten_nonempties]
    have := flatten_map_sum (f := mergeGroup lt comb pick) w (splitGroups sizes runs)
      (fun g _ => mergeGroup_sum h pick w hw g)
    rwa [splitGroups_flatten] at this

theorem pass_isSome (lt : α → α → Bool) (comb) (pick) (sizes) (runs : List (List α)) :
    ∃ runs', pass lt comb pick sizes runs = some runs' := by
  rcases pass_cases lt comb pick sizes runs with ⟨_, he⟩ | ⟨_, he⟩ <;> exact ⟨_, he⟩

/-! ### any number of passes: a property preserved by one pass is preserved by all -/

theorem passes_induct {lt : α → α → Bool} {comb} {pick} (P : List (List α) → Prop)
    (step : ∀ sizes runs runs', P runs → pass lt comb pick sizes runs = some runs' → P runs') :
    ∀ (plan : List (List Nat)) (runs runs' : List (List α)), P runs →
      passes lt comb pick plan runs = some runs' → P runs'
  | [], runs, runs', hP, hp => by simp only [passes, Option.some.injEq] at hp; subst hp; exact hP
  | sizes :: plan, runs, runs', hP, hp => by
    simp only [passes] at hp
    cases h1 : pass lt comb pick sizes runs with
    | none => rw [h1] at hp; cases hp
    | some r1 =>
      rw [h1] at hp
      exact passes_induct P step plan r1 runs' (step sizes runs r1 hP h1) hp

theorem passes_isSome (lt : α → α → Bool) (comb) (pick) :
    ∀ (plan : List (List Nat)) (runs : List (List α)), ∃ runs', passes lt comb pick plan runs = some runs'
  | [], runs => ⟨runs, rfl⟩
  | sizes :: plan, runs => by
    obtain ⟨r1, h1⟩ := pass_isSome lt comb pick sizes runs
    obtain ⟨r2, h2⟩ := passes_isSome lt comb pick plan r1
    exact ⟨r2, by simp [passes, h1, h2]⟩

/-! ### block sorting -/

theorem blockSort_sorted {lt : α → α → Bool} (h : StrictWeak lt) (b : List α) : Pairwise (LE lt) (blockSort lt b) := by
  have := pairwise_mergeSort (le := le lt) (fun a b c => h.le_trans a b c) (fun a b => h.le_total a b) b
  exact this.imp (fun hab => by simpa [le] using hab)

theorem blockSort_perm (lt : α → α → Bool) (b : List α) : blockSort lt b ~ b := mergeSort_perm b _

theorem afterBlockSorter_eq (lt : α → α → Bool) (blocks : List (List α)) :
    afterBlockSorter lt blocks = some (nonempties (blocks.map (blockSort lt))) := by
  have hl : blocks.map List.length = (blocks.map (blockSort lt)).map List.length := by
    rw [List.map_map]
    exact List.map_congr_left (fun b _ => ((mergeSort_perm b (le lt)).length_eq).symm)
  unfold afterBlockSorter
  rw [hl]
  exact storeRuns_eq _

theorem flatten_map_blockSort_perm (lt : α → α → Bool) : ∀ (blocks : List (List α)),
    (blocks.map (blockSort lt)).flatten ~ blocks.flatten
  | [] => by simp
  | b :: bs => by
    simp only [map_cons, flatten_cons]
    exact (blockSort_perm lt b).append (flatten_map_blockSort_perm lt bs)

/-! ### final merge -/

theorem finalMerge_sorted {lt : α → α → Bool} (h : StrictWeak lt) {comb} (hc : CombKeeps lt comb) (pick)
    {runs : List (List α)} (hr : AllSorted lt runs) : Pairwise (LE lt) (finalMerge lt comb pick runs) := by
  match runs with
  | [] => simp [finalMerge]
  | [r] => exact hr r (by simp)
  | r1 :: r2 :: rs => exact mergeGroup_sorted h hc pick _ hr

theorem finalMerge_strict {lt : α → α → Bool} (h : StrictWeak lt) {comb} (hc : CombKeeps lt comb)
    (hk : CombComplete lt comb) (pick)
    {runs : List (List α)} (hr : AllStrict lt runs) :
    Pairwise (fun a b => lt a b = true) (finalMerge lt comb pick runs) := by
  match runs with
  | [] => simp [finalMerge]
  | [r] => exact hr r (by simp)
  | r1 :: r2 :: rs =>
    exact mergeGroup_strict h hc hk pick _ (fun r hr' => strict_sorted h (hr r hr'))

theorem finalMerge_perm {lt : α → α → Bool} (h : StrictWeak lt) (pick) (runs : List (List α)) :
    finalMerge lt neverCombine pick runs ~ runs.flatten := by
  match runs with
  | [] => simp [finalMerge]
  | [r] => simp [finalMerge]
  | r1 :: r2 :: rs => exact mergeGroup_perm h pick _

theorem finalMerge_sum {lt : α → α → Bool} (h : StrictWeak lt) {comb : α → α → Option α} (pick) (w : α → Nat)
    (hw : ∀ a b c, comb a b = some c → w c = w a + w b) (runs : List (List α)) :
    ((finalMerge lt comb pick runs).map w).sum = (runs.flatten.map w).sum := by
  match runs with
  | [] => simp [finalMerge]
  | [r] => simp [finalMerge]
  | r1 :: r2 :: rs => exact mergeGroup_sum h pick w hw _

/-! ### the whole sort -/

/-- `extSort` unfolded: the runs after block sorting, the runs after the passes, the output -/
theorem extSort_unfold (lt : α → α → Bool) (comb) (pick) (blocks : List (List α)) (plan) :
    ∃ runs', passes lt comb pick plan (nonempties (blocks.map (blockSort lt))) = some runs' ∧
      extSort lt comb pick blocks plan = some (finalMerge lt comb pick runs') := by
  obtain ⟨runs', h⟩ := passes_isSome lt comb pick plan (nonempties (blocks.map (blockSort lt)))
  exact ⟨runs', h, by simp [extSort, afterBlockSorter_eq, h]⟩

theorem initial_sorted {lt : α → α → Bool} (h : StrictWeak lt) (blocks : List (List α)) :
    AllSorted lt (nonempties (blocks.map (blockSort lt))) := by
  intro r hr
  obtain ⟨b, _, rfl⟩ := mem_map.mp (mem_nonempties.mp hr).1
  exact blockSort_sorted h b

end KV.Sort
