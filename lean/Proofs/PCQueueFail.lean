import Proofs.PCQueueRefine
import Proofs.PCQueueEintr
/-! A failed element copy inside `Produce` / `Consume` is a stutter step of the queue: the invariant, the ghost
histories and the abstract FIFO are unchanged.  Core Lean only. -/
namespace KV.PCQueue

variable {dP dC : Nat}

theorem inv_fail_prod {s : State} {tid : Nat} {th : Thread} (h : Inv dP dC s)
    (hth : s.threads[tid]? = some th) (hr : th.role = .prod) (hp : th.pc = .body) (g : Nat) :
    Inv dP dC { s.setT tid { th with pc := .wait } with
                empty := s.empty + 1
                pmutex := none
                ring := upd s.ring s.produceAt g } := by
  have hA1 : 1 ≤ sumBy isA s.threads := by
    have := sumBy_le (f := isA) hth; simpa [isA, b2n, hr, hp] using this
  sum_facts hth { th with pc := .wait }
  simp [isA, isB, isC, isD, remP, remC, b2n, hr, hp] at hA hB hC hD hP hQ
  have ok := h.thr tid th hth
  have hacct := h.acct
  have hocc := h.occ
  refine { cap_pos := h.cap_pos, acct := ?_, occ := ?_, pat := h.pat, cat := h.cat, ringv := ?_,
           fifo := h.fifo, pm := ?_, cm := ?_, balance := ?_, thr := ?_ }
  · simp [State.setT, hr]; omega
  · simp [State.setT, hr]; omega
  · intro i hi1 hi2
    have hi1' : s.reads.length ≤ i := hi1
    have hi2' : i < s.writes.length := hi2
    have hne : i % s.cap ≠ s.produceAt := by
      rw [h.pat]; exact mod_ne_of_lt hi2' (by omega)
    have := h.ringv i hi1' hi2'
    show (s.writes[i]?).map (·.2) = some (upd s.ring s.produceAt g (i % s.cap))
    simp only [upd, hne, if_false]
    exact this
  · exact h.pm.release hth ⟨hr, Or.inl hp⟩ (by simp [holdsP])
  · exact h.cm.frame hth (by simp [holdsC, hr])
  · have := h.balance; simp [State.setT, hr]; omega
  · exact thr_update h.thr hth
      ⟨fun _ _ => ok.p_nonempty hr (Or.inr (Or.inr hp)), by simp, ok.p_orig, by simp [hr], by simp [hr], by simp [hr]⟩
      (fun t th0 _ h0 => h0.frame rfl rfl)

theorem inv_fail_cons {s : State} {tid : Nat} {th : Thread} (h : Inv dP dC s)
    (hth : s.threads[tid]? = some th) (hr : th.role = .cons) (hp : th.pc = .body) :
    Inv dP dC { s.setT tid { th with pc := .wait } with
                used := s.used + 1
                cmutex := none } := by
  have hC1 : 1 ≤ sumBy isC s.threads := by
    have := sumBy_le (f := isC) hth; simpa [isC, b2n, hr, hp] using this
  sum_facts hth { th with pc := .wait }
  simp [isA, isB, isC, isD, remP, remC, b2n, hr, hp] at hA hB hC hD hP hQ
  have ok := h.thr tid th hth
  have hacct := h.acct
  have hocc := h.occ
  refine { cap_pos := h.cap_pos, acct := ?_, occ := ?_, pat := h.pat, cat := h.cat, ringv := h.ringv,
           fifo := h.fifo, pm := ?_, cm := ?_, balance := ?_, thr := ?_ }
  · simp [State.setT, hr]; omega
  · simp [State.setT, hr]; omega
  · exact h.pm.frame hth (by simp [holdsP, hr])
  · exact h.cm.release hth ⟨hr, Or.inl hp⟩ (by simp [holdsC])
  · have := h.balance; simp [State.setT, hr]; omega
  · exact thr_update h.thr hth
      ⟨by simp [hr], by simp [hr], by simp [hr], fun _ _ => ok.c_pos hr (Or.inr (Or.inr hp)), by simp, ok.c_got⟩
      (fun t th0 _ h0 => h0.frame rfl rfl)

/-- a failed copy preserves the invariant and changes neither the ghost histories, nor the cursors, nor the
abstract FIFO, nor what any thread has received -/
theorem fail_stutter {s s' : State} {t g : Nat} (h : Inv dP dC s) (hf : fail s t g = some s') :
    Inv dP dC s' ∧ s'.writes = s.writes ∧ s'.reads = s.reads ∧ s'.produceAt = s.produceAt
      ∧ s'.consumeAt = s.consumeAt ∧ absBuf s' = absBuf s ∧ s'.cap = s.cap := by
  unfold fail at hf
  cases hth : s.threads[t]? with
  | none => simp [hth] at hf
  | some th =>
    simp only [hth] at hf
    obtain ⟨role, pc, items, orig, quota, got⟩ := th
    cases role <;> cases pc <;> simp only at hf <;> try (cases hf)
    · exact ⟨inv_fail_prod h hth rfl rfl g, rfl, rfl, rfl, rfl, absBuf_frame rfl rfl, rfl⟩
    · exact ⟨inv_fail_cons h hth rfl rfl, rfl, rfl, rfl, rfl, absBuf_frame rfl rfl, rfl⟩

theorem inv_reachF {s0 s : State} (h0 : Inv dP dC s0) (hr : ReachF s0 s) : Inv dP dC s := by
  induction hr with
  | init => exact h0
  | step _ hs ih => exact inv_step ih hs
  | intr _ hi ih => rw [interrupt_eq hi]; exact ih
  | fail _ hf ih => exact (fail_stutter ih hf).1

end KV.PCQueue
