import Proofs.PCQueueOrder
import Model.Chain
/-!
Refinement: the step-level PCQueue model (semaphores, mutexes, ring, cursors) refines the atomic bounded
FIFO `KV.Chain.fifoPush` / `KV.Chain.fifoPop` that the ThreadPool / Chain models (and the queues of
`Model/FilterCtl.lean`: `if q.length < cap then q ++ [x]`, head pop) are built on.

Abstraction function: `absBuf s` = the values written and not yet read, oldest first.
Linearisation points: the critical-section bodies (`pc = body`) of `Produce` and `Consume`; every other
synchronisation step is a stutter step of the atomic FIFO.  Core Lean only.
-/
namespace KV.PCQueue
open KV.Chain (fifoPush fifoPop)

variable {dP dC : Nat}

/-- content of the abstract FIFO -/
def absBuf (s : State) : List Nat := (s.writes.map (·.2)).drop s.reads.length

/-- an operation of the atomic FIFO, tagged with the thread that performs it -/
inductive Ev
  | push (tid v : Nat)
  | pop (tid v : Nat)
  deriving DecidableEq, Repr

/-- the operation that a step linearises, if any -/
def stepEvent (s : State) (tid : Nat) : Option Ev :=
  match s.threads[tid]? with
  | none => none
  | some th =>
    match th.role, th.pc with
    | .prod, .body => th.items.head?.map (Ev.push tid)
    | .cons, .body => some (Ev.pop tid (s.ring s.consumeAt))
    | _, _ => none

/-- one operation of the atomic bounded FIFO of capacity `cap` -/
def fifoApply (cap : Nat) (buf : List Nat) : Ev → Option (List Nat)
  | .push _ v => fifoPush cap buf v
  | .pop _ v =>
    match fifoPop buf with
    | some (x, rest) => if x = v then some rest else none
    | none => none

def fifoRun (cap : Nat) : List Nat → List Ev → Option (List Nat)
  | buf, [] => some buf
  | buf, e :: es => match fifoApply cap buf e with
    | some buf' => fifoRun cap buf' es
    | none => none

/-- the operations linearised along a schedule, in order -/
def events : State → List Nat → List Ev
  | _, [] => []
  | s, t :: ts =>
    match step s t with
    | none => []
    | some s' => (match stepEvent s t with | some e => [e] | none => []) ++ events s' ts

theorem absBuf_frame {s s' : State} (hw : s'.writes = s.writes) (hr : s'.reads = s.reads) :
    absBuf s' = absBuf s := by unfold absBuf; rw [hw, hr]

/-- **step refinement**: every step of the semaphore implementation is either a stutter step of the atomic
FIFO, or — at the critical-section body of a `Produce` — `fifoPush` of the produced value, enabled because the
buffer is not full, or — at the body of a `Consume` — `fifoPop` returning exactly the value the consumer gets. -/
theorem step_refines {s s' : State} {tid : Nat} (h : Inv dP dC s) (hs : step s tid = some s') :
    match stepEvent s tid with
    | none => absBuf s' = absBuf s
    | some (.push _ v) => fifoPush s.cap (absBuf s) v = some (absBuf s')
    | some (.pop _ v) => fifoPop (absBuf s) = some (v, absBuf s') := by
  unfold step at hs
  unfold stepEvent
  cases hth : s.threads[tid]? with
  | none => simp [hth] at hs
  | some th =>
    simp only [hth] at hs ⊢
    obtain ⟨role, pc, items, orig, quota, got⟩ := th
    cases role <;> cases pc <;> simp only at hs ⊢
    · by_cases he : s.empty = 0
      · simp [he] at hs
      · simp [he] at hs; subst hs; exact absBuf_frame rfl rfl
    · by_cases hm : s.pmutex.isSome
      · simp [hm] at hs
      · simp [hm] at hs; subst hs; exact absBuf_frame rfl rfl
    · -- producer body: push
      cases items with
      | nil => simp at hs
      | cons v rest =>
        simp at hs; subst hs
        have hA1 : 1 ≤ sumBy isA s.threads := by
          have := sumBy_le (f := isA) hth; simpa [isA, b2n] using this
        have hacct := h.acct
        have hocc := h.occ
        have hle : s.reads.length ≤ (s.writes.map (·.2)).length := by simp; omega
        simp only [List.head?_cons, Option.map_some]
        unfold fifoPush absBuf
        have hlen : ((s.writes.map (·.2)).drop s.reads.length).length < s.cap := by simp; omega
        rw [if_pos hlen]
        simp only [State.setT, List.map_append, List.map_cons, List.map_nil]
        rw [List.drop_append_of_le_length hle]
    · simp at hs; subst hs; exact absBuf_frame rfl rfl
    · simp at hs; subst hs; exact absBuf_frame rfl rfl
    · simp at hs
    · by_cases he : s.used = 0
      · simp [he] at hs
      · simp [he] at hs; subst hs; exact absBuf_frame rfl rfl
    · by_cases hm : s.cmutex.isSome
      · simp [hm] at hs
      · simp [hm] at hs; subst hs; exact absBuf_frame rfl rfl
    · -- consumer body: pop
      simp at hs; subst hs
      have hC1 : 1 ≤ sumBy isC s.threads := by
        have := sumBy_le (f := isC) hth; simpa [isC, b2n] using this
      have hocc := h.occ
      have hlt : s.reads.length < s.writes.length := by omega
      have hv := h.ringv s.reads.length (Nat.le_refl _) hlt
      rw [← h.cat] at hv
      have hlt' : s.reads.length < (s.writes.map (·.2)).length := by simpa using hlt
      have hget : (s.writes.map (·.2))[s.reads.length] = s.ring s.consumeAt := by
        have : (s.writes.map (·.2))[s.reads.length]? = some (s.ring s.consumeAt) := by
          rw [List.getElem?_map]; exact hv
        rw [List.getElem?_eq_getElem hlt'] at this
        exact Option.some.inj this
      unfold absBuf fifoPop
      rw [List.drop_eq_getElem_cons hlt', hget]
      simp [State.setT]
    · simp at hs; subst hs; exact absBuf_frame rfl rfl
    · simp at hs; subst hs; exact absBuf_frame rfl rfl
    · simp at hs

/-- **trace refinement**: along every schedule, the sequence of linearised operations is a run of the atomic
bounded FIFO from `absBuf s0` to `absBuf s` -/
theorem run_refines {s0 : State} (h0 : Inv dP dC s0) (sched : List Nat) {s : State}
    (hrun : runSched s0 sched = some s) :
    fifoRun s0.cap (absBuf s0) (events s0 sched) = some (absBuf s) := by
  induction sched generalizing s0 with
  | nil => simp [runSched] at hrun; subst hrun; rfl
  | cons t ts ih =>
    simp only [runSched] at hrun
    cases hst : step s0 t with
    | none => simp [hst] at hrun
    | some s1 =>
      simp only [hst] at hrun
      have h1 := inv_step h0 hst
      have hcap := cap_step h0 hst
      have hr := step_refines h0 hst
      have ih' := ih h1 hrun
      rw [hcap] at ih'
      simp only [events, hst]
      cases hev : stepEvent s0 t with
      | none =>
        rw [hev] at hr
        simp only [List.nil_append]
        rw [← hr]; exact ih'
      | some e =>
        rw [hev] at hr
        cases e with
        | push p v =>
          simp only at hr
          simp only [List.singleton_append, fifoRun, fifoApply, hr]
          exact ih'
        | pop p v =>
          simp only at hr
          simp only [List.singleton_append, fifoRun, fifoApply, hr, if_true]
          exact ih'

end KV.PCQueue
