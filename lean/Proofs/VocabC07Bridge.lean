import Properties.C07
import Proofs.VocabTop
/-!
Discharging KV.C07's hypothesis `h_vocab` with C20's `vocab_ids_indep`: for any implementation of lmplz whose
`encode` stage is `GrowableVocab` over the tokenised text (with the table's initial size a function `xOf` of
the memory configuration), the C07 conclusions hold with `h_vocab` replaced by the hash-injectivity contract.
(This file imports Properties.C07; it is not imported by Properties/C20.lean.)
-/
namespace KV.C07
open KV.Vocab

theorem lmplz_indep_growable {Mem Sched Out W : Type} [DecidableEq W]
    (I : Impl Mem Sched (List (List W)) Out) (render : Except KV.KN.Err KV.KN.Model → Out) (opts : Opts)
    (hN : 1 ≤ opts.cfg.order) (text : List (List W))
    (hash : W → Nat) (unk bos eos : W) (unkCapHash : Nat) (xOf : Mem → Nat)
    (hx : ∀ m, 1 ≤ xOf m ∧ xOf m ≤ 2^63)
    (h_enc : ∀ m t, I.encode m t = growableIds hash unk bos eos unkCapHash (xOf m) t)
    (hsp : unk ≠ bos ∧ unk ≠ eos ∧ bos ≠ eos)
    (hinj : InjOn hash ([unk, bos, eos] ++ text.flatten))
    (hnz : ∀ w, w ∈ [unk, bos, eos] ++ text.flatten → hash w ≠ 0)
    (hmax : (specEncode unk bos eos text).2 < kWordIndexMax)
    (h_ids : ∀ s ∈ firstOccurrenceIds unk bos eos text, ∀ w ∈ s, KV.KN.isSpecial w = false)
    (h_sort : ∀ m s blocks, I.sortCombine m s blocks = KV.KN.combineSorted (blocks.flatten.mergeSort KV.KN.gramLe))
    (h_chain : ∀ m s full, I.post m s opts full = render (KV.KN.estimateFrom opts.cfg opts.pruneVocab opts.fallback full))
    (m₁ m₂ : Mem) (s₁ s₂ : Sched) :
    lmplzOut I m₁ s₁ opts text = lmplzOut I m₂ s₂ opts text :=
  lmplz_indep I render (firstOccurrenceIds unk bos eos) opts hN text
    (fun m => by rw [h_enc]; exact vocab_ids_indep' hash unk bos eos unkCapHash xOf hx text hsp hinj hnz hmax m)
    h_ids h_sort h_chain m₁ m₂ s₁ s₂

end KV.C07
