import Model.Chain
/-! Invariant of the ThreadPool model: conservation of the item sequence, attribution of handled
requests to pops, one poison per finished worker; deadlock freedom; termination. Core Lean only. -/
namespace KV.Chain

def Item.val? : Item → Option Nat
  | .val v => some v
  | .poison => none

theorem countP_set' {α : Type} (p : α → Bool) {l : List α} {i : Nat} {x : α} (h : l[i]? = some x) (y : α) :
    (l.set i y).countP p + (if p x then 1 else 0) = l.countP p + (if p y then 1 else 0) := by
  induction l generalizing i with
  | nil => simp at h
  | cons a l ih =>
    cases i with
    | zero =>
      simp at h; subst h
      simp only [List.set_cons_zero, List.countP_cons]
      omega
    | succ i =>
      simp at h
      have := ih h
      simp only [List.set_cons_succ, List.countP_cons]
      omega

def allItems (w : Nat) (reqs : List Nat) : List Item := reqs.map .val ++ List.replicate w .poison

def poisons (l : List Item) : Nat := l.countP Item.isPoison

theorem poisons_append (a b : List Item) : poisons (a ++ b) = poisons a + poisons b := by
  simp [poisons]

theorem poisons_allItems (w : Nat) (reqs : List Nat) : poisons (allItems w reqs) = w := by
  unfold allItems
  rw [poisons_append]
  have h1 : poisons (reqs.map Item.val) = 0 := by
    induction reqs with
    | nil => rfl
    | cons a l ih => simpa [poisons, Item.isPoison] using ih
  have h2 : poisons (List.replicate w Item.poison) = w := by
    induction w with
    | zero => rfl
    | succ n ih =>
      show List.countP Item.isPoison (Item.poison :: List.replicate n Item.poison) = n + 1
      rw [List.countP_cons_of_pos (by rfl)]
      exact congrArg (· + 1) ih
  omega

/-- a non-empty suffix of `requests ++ poison^w` (w > 0) contains a poison -/
theorem suffix_has_poison {w : Nat} {reqs : List Nat} (hw : 0 < w) {pre suf : List Item}
    (h : pre ++ suf = allItems w reqs) (hs : suf ≠ []) : 0 < poisons suf := by
  have hlast : (allItems w reqs).getLast? = some Item.poison := by
    unfold allItems
    obtain ⟨n, rfl⟩ : ∃ n, w = n + 1 := ⟨w - 1, by omega⟩
    rw [List.replicate_succ', ← List.append_assoc]
    simp
  rw [← h, List.getLast?_append] at hlast
  have hmem : Item.poison ∈ suf := by
    cases hsl : suf.getLast? with
    | none => exact absurd (List.getLast?_eq_none_iff.mp hsl) hs
    | some x =>
      rw [hsl] at hlast
      simp at hlast
      subst hlast
      exact List.mem_of_getLast? hsl
  unfold poisons
  exact List.countP_pos_iff.mpr ⟨_, hmem, rfl⟩

structure PInv (w : Nat) (reqs : List Nat) (p : Pool) : Prop where
  cons : p.log.map (·.2) ++ p.q ++ p.todo = allItems w reqs
  wlen : p.wpc.length = w
  hlen : p.handled.length = w
  hand : ∀ i, i < w → p.handled.getD i [] = ((p.log.filter (fun x => x.1 == i)).map (·.2)).filterMap Item.val?
  fin : poisons (p.log.map (·.2)) = p.wpc.countP (· == .finished)
  capb : p.q.length ≤ p.cap
  jn : p.joined ≤ w

theorem pinv_init (cap w : Nat) (reqs : List Nat) : PInv w reqs (Pool.init cap w reqs) := by
  refine ⟨by simp [Pool.init, allItems], by simp [Pool.init], by simp [Pool.init], ?_, ?_, by simp [Pool.init],
          by simp [Pool.init]⟩
  · intro i hi
    simp [Pool.init, List.getD_eq_getElem?_getD, hi]
  · have : ∀ n, List.countP (fun x => x == WPC.finished) (List.replicate n WPC.notStarted) = 0 := by
      intro n; induction n with
      | zero => rfl
      | succ n ih => rw [List.replicate_succ, List.countP_cons_of_neg (by decide)]; exact ih
    simp [Pool.init, poisons, this]

theorem pinv_step {w : Nat} {reqs : List Nat} {p p' : Pool} {tid : Nat} (h : PInv w reqs p)
    (hs : p.step tid = some p') : PInv w reqs p' := by
  unfold Pool.step at hs
  cases tid with
  | zero =>
    simp only at hs
    cases htodo : p.todo with
    | cons x rest =>
      simp only [htodo] at hs
      by_cases hq : p.q.length < p.cap
      · simp [hq] at hs; subst hs
        have := h.cons
        rw [htodo] at this
        exact ⟨by simpa using this, h.wlen, h.hlen, h.hand, h.fin, by simp; omega, h.jn⟩
      · simp [hq] at hs
    | nil =>
      simp only [htodo] at hs
      by_cases hj : p.joined < p.wpc.length
      · simp only [hj, if_true] at hs
        cases hw : p.wpc[p.joined]? with
        | none => simp [hw] at hs
        | some st =>
          cases st <;> simp [hw] at hs
          subst hs
          exact ⟨by simpa [htodo] using h.cons, h.wlen, h.hlen, h.hand, h.fin, h.capb, by have := h.wlen; simp; omega⟩
      · simp [hj] at hs
  | succ i =>
    simp only at hs
    cases hw : p.wpc[i]? with
    | none => simp [hw] at hs
    | some st =>
      have hi : i < w := by
        have := (List.getElem?_eq_some_iff.mp hw).1
        rw [h.wlen] at this; exact this
      cases st with
      | notStarted =>
        simp [hw] at hs; subst hs
        have hc := countP_set' (fun x => x == WPC.finished) hw WPC.running
        simp at hc
        exact ⟨h.cons, by simp [h.wlen], h.hlen, h.hand, by rw [h.fin]; simpa using hc.symm, h.capb, h.jn⟩
      | finished => simp [hw] at hs
      | running =>
        simp only [hw] at hs
        cases hq : p.q with
        | nil => simp [hq] at hs
        | cons x q' =>
          cases x with
          | poison =>
            simp [hq] at hs; subst hs
            have hc := countP_set' (fun x => x == WPC.finished) hw WPC.finished
            simp at hc
            have hcons := h.cons
            rw [hq] at hcons
            refine ⟨by simpa using hcons, by simp [h.wlen], h.hlen, ?_, ?_, ?_, h.jn⟩
            · intro j hj
              rw [h.hand j hj]
              by_cases e : i = j
              · subst e; simp [List.filter_append, Item.val?]
              · simp [List.filter_append, e]
            · simp only [List.map_append, poisons_append, h.fin]
              simp [poisons, Item.isPoison]
              omega
            · have := h.capb; rw [hq] at this; simp at this ⊢; omega
          | val v =>
            simp [hq] at hs; subst hs
            have hcons := h.cons
            rw [hq] at hcons
            refine ⟨by simpa using hcons, h.wlen, by simp [h.hlen], ?_, ?_, ?_, h.jn⟩
            · intro j hj
              by_cases e : i = j
              · subst e
                have hl : i < p.handled.length := by rw [h.hlen]; exact hi
                have := h.hand i hi
                simp [List.getD_eq_getElem?_getD, hl, List.filter_append, Item.val?] at this ⊢
                rw [this]
              · have := h.hand j hj
                simp [List.getD_eq_getElem?_getD, List.getElem?_set, e, List.filter_append] at this ⊢
                exact this
            · simp only [List.map_append, poisons_append, h.fin]
              simp [poisons, Item.isPoison]
            · have := h.capb; rw [hq] at this; simp at this ⊢; omega

theorem pinv_reach {w cap : Nat} {reqs : List Nat} {p : Pool} (hr : Pool.Reach (Pool.init cap w reqs) p) :
    PInv w reqs p := by
  induction hr with
  | init => exact pinv_init cap w reqs
  | step _ hs ih => exact pinv_step ih hs

theorem filterMap_allItems (w : Nat) (reqs : List Nat) : (allItems w reqs).filterMap Item.val? = reqs := by
  unfold allItems
  rw [List.filterMap_append]
  have h1 : (reqs.map Item.val).filterMap Item.val? = reqs := by
    induction reqs with
    | nil => rfl
    | cons a l ih => simp [Item.val?] at ih ⊢; exact ih
  have h2 : (List.replicate w Item.poison).filterMap Item.val? = [] := by
    induction w with
    | zero => rfl
    | succ n ih => rw [List.replicate_succ, List.filterMap_cons_none (by rfl)]; exact ih
  rw [h1, h2, List.append_nil]

theorem all_finished_of_none {l : List WPC}
    (h1 : ∀ (i : Nat), l[i]? ≠ some .notStarted) (h2 : ∀ (i : Nat), l[i]? ≠ some .running) :
    l.countP (· == .finished) = l.length := by
  rw [List.countP_eq_length]
  intro x hx
  obtain ⟨i, hi, rfl⟩ := List.getElem_of_mem hx
  have e : l[i]? = some l[i] := List.getElem?_eq_getElem hi
  cases hc : l[i] with
  | notStarted => rw [hc] at e; exact absurd e (h1 i)
  | running => rw [hc] at e; exact absurd e (h2 i)
  | finished => rfl

theorem finished_of_count {l : List WPC} (h : l.countP (· == .finished) = l.length) {i : Nat} {x : WPC}
    (hx : l[i]? = some x) : x = .finished := by
  rw [List.countP_eq_length] at h
  have := h x (List.mem_of_getElem? hx)
  simpa using this

/-- when every item has been popped the queue is empty and the log is the whole item sequence -/
theorem log_complete {w : Nat} {reqs : List Nat} {p : Pool} (hw : 0 < w) (h : PInv w reqs p)
    (ht : p.todo = []) (hf : p.wpc.countP (· == .finished) = p.wpc.length) :
    p.q = [] ∧ p.log.map (·.2) = allItems w reqs := by
  have hc := h.cons
  rw [ht, List.append_nil] at hc
  have hp : poisons (p.log.map (·.2)) = w := by rw [h.fin, hf, h.wlen]
  have hq : p.q = [] := by
    apply Classical.byContradiction
    intro hne
    have h1 := suffix_has_poison hw hc hne
    have h2 := congrArg poisons hc
    rw [poisons_append, poisons_allItems] at h2
    omega
  rw [hq, List.append_nil] at hc
  exact ⟨hq, hc⟩

theorem pool_no_deadlock_inv {w : Nat} {reqs : List Nat} {p : Pool} (hw : 0 < w) (hcap : 0 < p.cap)
    (h : PInv w reqs p) (hnd : p.allDone = false) : ∃ tid, p.step tid ≠ none := by
  by_cases hA : ∃ i : Nat, p.wpc[i]? = some .notStarted
  · obtain ⟨i, hi⟩ := hA
    exact ⟨i + 1, by simp [Pool.step, hi]⟩
  by_cases hB : ∃ i : Nat, p.wpc[i]? = some .running ∧ p.q ≠ []
  · obtain ⟨i, hi, hq⟩ := hB
    refine ⟨i + 1, ?_⟩
    cases hq' : p.q with
    | nil => exact absurd hq' hq
    | cons x r => cases x <;> simp [Pool.step, hi, hq']
  have nA : ∀ i : Nat, p.wpc[i]? ≠ some .notStarted := fun i e => hA ⟨i, e⟩
  -- if a worker is running then the queue is empty
  have nB : ∀ i : Nat, p.wpc[i]? = some .running → p.q = [] := fun i e =>
    Classical.byContradiction fun hq => hB ⟨i, e, hq⟩
  cases htodo : p.todo with
  | cons x rest =>
    by_cases hq : p.q.length < p.cap
    · exact ⟨0, by simp [Pool.step, htodo, hq]⟩
    · exfalso
      have hne : p.q ≠ [] := by intro e; rw [e] at hq; simp at hq; omega
      have hf := all_finished_of_none nA (fun i e => hne (nB i e))
      have hc := h.cons
      have h2 := congrArg poisons hc
      rw [poisons_append, poisons_append, poisons_allItems, h.fin, hf, h.wlen] at h2
      have h1 := suffix_has_poison hw hc (by rw [htodo]; simp)
      omega
  | nil =>
    by_cases hj : p.joined < p.wpc.length
    · cases hst : p.wpc[p.joined]? with
      | none => have := List.getElem?_eq_none_iff.mp hst; omega
      | some st =>
        cases st with
        | finished =>
          refine ⟨0, ?_⟩
          unfold Pool.step
          simp only [htodo, hj, if_true, hst]
          simp
        | notStarted => exact absurd hst (nA _)
        | running =>
          exfalso
          have hq := nB _ hst
          have hc := h.cons
          rw [htodo, hq, List.append_nil, List.append_nil] at hc
          have hp : poisons (p.log.map (·.2)) = w := by rw [hc, poisons_allItems]
          have hf : p.wpc.countP (· == .finished) = p.wpc.length := by rw [← h.fin, hp, h.wlen]
          have := finished_of_count hf hst
          cases this
    · -- the user thread has finished; some worker has not
      exfalso
      have hjw : p.joined = p.wpc.length := by have := h.jn; have := h.wlen; omega
      have hall : p.wpc.all (· == .finished) = false := by
        simpa [Pool.allDone, Pool.mainDone, htodo, hjw] using hnd
      have hex : ∃ i : Nat, p.wpc[i]? = some .running := by
        apply Classical.byContradiction
        intro hno
        have hf := all_finished_of_none nA (fun i e => hno ⟨i, e⟩)
        rw [List.countP_eq_length] at hf
        have : p.wpc.all (· == .finished) = true := List.all_eq_true.mpr hf
        rw [this] at hall; cases hall
      obtain ⟨i, hi⟩ := hex
      have hq := nB i hi
      have hc := h.cons
      rw [htodo, hq, List.append_nil, List.append_nil] at hc
      have hp : poisons (p.log.map (·.2)) = w := by rw [hc, poisons_allItems]
      have hf : p.wpc.countP (· == .finished) = p.wpc.length := by rw [← h.fin, hp, h.wlen]
      have := finished_of_count hf hi
      cases this

theorem pool_measure_step {w : Nat} {reqs : List Nat} {p p' : Pool} {tid : Nat} (h : PInv w reqs p)
    (hs : p.step tid = some p') : p'.measure < p.measure := by
  unfold Pool.step at hs
  cases tid with
  | zero =>
    simp only at hs
    cases htodo : p.todo with
    | cons x rest =>
      simp only [htodo] at hs
      by_cases hq : p.q.length < p.cap
      · simp [hq] at hs; subst hs; simp [Pool.measure, htodo]; omega
      · simp [hq] at hs
    | nil =>
      simp only [htodo] at hs
      by_cases hj : p.joined < p.wpc.length
      · simp only [hj, if_true] at hs
        cases hw : p.wpc[p.joined]? with
        | none => simp [hw] at hs
        | some st =>
          cases st <;> simp [hw] at hs
          subst hs; simp [Pool.measure, htodo]; omega
      · simp [hj] at hs
  | succ i =>
    simp only at hs
    cases hw : p.wpc[i]? with
    | none => simp [hw] at hs
    | some st =>
      cases st with
      | notStarted =>
        simp [hw] at hs; subst hs
        have hc := countP_set' (fun x => x == WPC.notStarted) hw WPC.running
        simp at hc
        simp [Pool.measure]; omega
      | finished => simp [hw] at hs
      | running =>
        simp only [hw] at hs
        cases hq : p.q with
        | nil => simp [hq] at hs
        | cons x q' =>
          cases x with
          | poison =>
            simp [hq] at hs; subst hs
            have hc := countP_set' (fun x => x == WPC.notStarted) hw WPC.finished
            simp at hc
            simp [Pool.measure, hq]; omega
          | val v =>
            simp [hq] at hs; subst hs
            simp [Pool.measure, hq]

theorem pool_step_cap {p p' : Pool} {tid : Nat} (hs : p.step tid = some p') : p'.cap = p.cap := by
  unfold Pool.step at hs
  repeat' split at hs
  all_goals first
    | (cases hs; rfl)
    | (simp at hs)

end KV.Chain
