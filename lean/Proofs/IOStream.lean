import Proofs.IO
/-! FileStream (util/file_stream.hh): nothing is lost, duplicated or reordered. -/
namespace KV.IO

/-- the stream invariant relative to `total` = concatenation of the arguments so far -/
def SInv (r : SRun) (total : Bytes) : Prop :=
  (r.res = .ok → r.sink ++ r.st.buf = total) ∧ (r.res ≠ .ok → r.sink <+: total)

theorem prefix_append_right {a b : Bytes} (c : Bytes) (h : a <+: b) : a <+: b ++ c := by
  obtain ⟨t, ht⟩ := h
  exact ⟨t ++ c, by rw [← List.append_assoc, ht]⟩

theorem SInv.weaken {r : SRun} {total : Bytes} (h : SInv r total) (hne : r.res ≠ .ok) (c : Bytes) :
    SInv r (total ++ c) :=
  ⟨fun hh => absurd hh hne, fun _ => prefix_append_right _ (h.2 hne)⟩

@[simp] theorem absorb_cap (r : SRun) (o : Out) : (r.absorb o).st = r.st := rfl
@[simp] theorem absorb_res (r : SRun) (o : Out) : (r.absorb o).res = o.res := rfl
@[simp] theorem absorb_sink (r : SRun) (o : Out) : (r.absorb o).sink = r.sink ++ o.moved := rfl
@[simp] theorem setBuf_cap (r : SRun) (b : Bytes) : (r.setBuf b).st.cap = r.st.cap := rfl
@[simp] theorem setBuf_buf (r : SRun) (b : Bytes) : (r.setBuf b).st.buf = b := rfl
@[simp] theorem setBuf_res (r : SRun) (b : Bytes) : (r.setBuf b).res = r.res := rfl
@[simp] theorem setBuf_sink (r : SRun) (b : Bytes) : (r.setBuf b).sink = r.sink := rfl

/-- absorbing a `WriteOrThrow` of `data` when everything before is accounted for -/
theorem absorb_write_inv (orc fuel) (r : SRun) (data total : Bytes) (hs : r.sink = total) :
    let o := writeOrThrow orc fuel r.next data
    (o.res = .ok → (r.absorb o).sink = total ++ data) ∧ (o.res ≠ .ok → (r.absorb o).sink <+: total ++ data) := by
  have hsp := write_split orc fuel r.next data
  have hr := write_ok_rest orc fuel r.next data
  refine ⟨fun hok => ?_, fun _ => ?_⟩
  · have hm : (writeOrThrow orc fuel r.next data).moved = data := by
      have := hr hok; rw [this] at hsp; simpa using hsp
    simp [hm, hs]
  · refine ⟨(writeOrThrow orc fuel r.next data).rest, ?_⟩
    simp only [absorb_sink, List.append_assoc, hsp, hs]

theorem sFlush_cap (orc fuel) (r : SRun) : (sFlush orc fuel r).st.cap = r.st.cap := by
  unfold sFlush
  split
  · rfl
  · split <;> simp

theorem sFlush_inv (orc fuel) (r : SRun) (total : Bytes) (h : SInv r total) (hok : r.res = .ok) :
    SInv (sFlush orc fuel r) total ∧ ((sFlush orc fuel r).res = .ok → (sFlush orc fuel r).st.buf = []) := by
  unfold sFlush
  split
  · rename_i hb; exact ⟨h, fun _ => hb⟩
  · have ht := h.1 hok
    -- view the state as "sink accounts for `r.sink`, then write `buf`"
    have key := absorb_write_inv orc fuel r r.st.buf r.sink rfl
    rw [ht] at key
    split
    · rename_i hres
      refine ⟨⟨fun _ => ?_, fun hne => ?_⟩, fun _ => rfl⟩
      · simp only [setBuf_sink, setBuf_buf, List.append_nil]; exact key.1 hres
      · simp only [setBuf_res, absorb_res] at hne; exact absurd hres hne
    · rename_i hres
      refine ⟨⟨fun h' => ?_, fun _ => key.2 hres⟩, fun h' => ?_⟩
      · simp only [absorb_res] at h'; exact absurd h' hres
      · simp only [absorb_res] at h'; exact absurd h' hres

theorem sWriteAfterFlush_cap (orc fuel) (r1 : SRun) (data : Bytes) :
    (sWriteAfterFlush orc fuel r1 data).st.cap = r1.st.cap := by
  unfold sWriteAfterFlush
  split
  · rfl
  · split <;> simp

theorem sWrite_cap (orc fuel) (r : SRun) (data : Bytes) : (sWrite orc fuel r data).st.cap = r.st.cap := by
  unfold sWrite
  split
  · simp
  · rw [sWriteAfterFlush_cap, sFlush_cap]

theorem sAppendIfOk_cap (r1 : SRun) (s : Bytes) : (sAppendIfOk r1 s).st.cap = r1.st.cap := by
  unfold sAppendIfOk; split <;> simp

theorem sInplace_cap (orc fuel) (r : SRun) (amount : Nat) (s : Bytes) :
    (sInplace orc fuel r amount s).st.cap = r.st.cap := by
  unfold sInplace
  rw [sAppendIfOk_cap]
  split
  · exact sFlush_cap orc fuel r
  · rfl

theorem sStep_cap (orc fuel) (r : SRun) (op : SOp) : (sStep orc fuel r op).st.cap = r.st.cap := by
  unfold sStep
  split
  · rfl
  · cases op with
    | flush => exact sFlush_cap orc fuel r
    | write data => exact sWrite_cap orc fuel r data
    | inplace amount s => exact sInplace_cap orc fuel r amount s

theorem sAppendIfOk_inv (r1 : SRun) (s total : Bytes) (h : SInv r1 total) : SInv (sAppendIfOk r1 s) (total ++ s) := by
  unfold sAppendIfOk
  split
  · rename_i hne; exact h.weaken hne s
  · rename_i hok'
    have hok : r1.res = .ok := by simpa using hok'
    refine ⟨fun _ => ?_, fun hne => absurd hok (by simpa using hne)⟩
    simp only [setBuf_sink, setBuf_buf, ← List.append_assoc, h.1 hok]

theorem sWriteAfterFlush_inv (orc fuel) (r1 : SRun) (data total : Bytes) (h : SInv r1 total)
    (hb : r1.res = .ok → r1.st.buf = []) : SInv (sWriteAfterFlush orc fuel r1 data) (total ++ data) := by
  unfold sWriteAfterFlush
  split
  · rename_i hne; exact h.weaken hne data
  · rename_i hok'
    have hok : r1.res = .ok := by simpa using hok'
    have hbuf := hb hok
    have ht := h.1 hok
    rw [hbuf, List.append_nil] at ht
    split
    · refine ⟨fun _ => ?_, fun hne => absurd hok (by simpa using hne)⟩
      simp only [setBuf_sink, setBuf_buf, hbuf, List.nil_append, ht]
    · have key := absorb_write_inv orc fuel r1 data total ht
      refine ⟨fun hres => ?_, fun hne => key.2 (by simpa using hne)⟩
      simp only [absorb_res] at hres
      simp only [absorb_cap, hbuf, List.append_nil]
      exact key.1 hres

theorem sWrite_inv (orc fuel) (r : SRun) (data total : Bytes) (h : SInv r total) (hok : r.res = .ok) :
    SInv (sWrite orc fuel r data) (total ++ data) := by
  unfold sWrite
  split
  · refine ⟨fun _ => ?_, fun hne => absurd hok (by simpa using hne)⟩
    simp only [setBuf_sink, setBuf_buf, ← List.append_assoc, h.1 hok]
  · have hf := sFlush_inv orc fuel r total h hok
    exact sWriteAfterFlush_inv orc fuel _ data total hf.1 hf.2

theorem sInplace_inv (orc fuel) (r : SRun) (amount : Nat) (s total : Bytes) (h : SInv r total)
    (hok : r.res = .ok) : SInv (sInplace orc fuel r amount s) (total ++ s) := by
  unfold sInplace
  apply sAppendIfOk_inv
  split
  · exact (sFlush_inv orc fuel r total h hok).1
  · exact h

/-- one operation preserves the invariant (no precondition on sizes is needed for *content*) -/
theorem sStep_inv (orc fuel) (r : SRun) (op : SOp) (total : Bytes) (h : SInv r total) :
    SInv (sStep orc fuel r op) (total ++ op.arg) := by
  unfold sStep
  split
  · rename_i hne; exact h.weaken hne _
  · rename_i hok0
    have hok : r.res = .ok := by simpa using hok0
    cases op with
    | flush =>
      simp only [SOp.arg, List.append_nil]
      exact (sFlush_inv orc fuel r total h hok).1
    | write data => exact sWrite_inv orc fuel r data total h hok
    | inplace amount s => exact sInplace_inv orc fuel r amount s total h hok

theorem foldl_inv (orc fuel) : ∀ (ops : List SOp) (r : SRun) (total : Bytes), SInv r total →
    SInv (ops.foldl (sStep orc fuel) r) (total ++ (ops.map SOp.arg).flatten) := by
  intro ops
  induction ops with
  | nil => intro r total h; simpa using h
  | cons op ops ih =>
    intro r total h
    simp only [List.foldl_cons, List.map_cons, List.flatten_cons, ← List.append_assoc]
    exact ih _ _ (sStep_inv orc fuel r op total h)

theorem foldl_cap (orc fuel) : ∀ (ops : List SOp) (r : SRun),
    (ops.foldl (sStep orc fuel) r).st.cap = r.st.cap := by
  intro ops
  induction ops with
  | nil => intro r; rfl
  | cons op ops ih => intro r; simp only [List.foldl_cons, ih, sStep_cap]

/-- an operation respects the buffer when in-place reservations are honest and fit -/
def SOp.fits (cap : Nat) : SOp → Prop
  | .inplace amount s => s.length ≤ amount ∧ amount ≤ cap
  | _ => True

theorem sFlush_buf_le (orc fuel) (r : SRun) : (sFlush orc fuel r).st.buf.length ≤ r.st.buf.length := by
  unfold sFlush
  split
  · exact Nat.le_refl _
  · split
    · simp
    · exact Nat.le_refl _

theorem sFlush_ok_buf (orc fuel) (r : SRun) (h : (sFlush orc fuel r).res = .ok) :
    (sFlush orc fuel r).st.buf = [] := by
  unfold sFlush at h ⊢
  split
  · assumption
  · split
    · rfl
    · rename_i h1 h2
      rw [if_neg h1, if_neg h2] at h
      simp only [absorb_res] at h; exact absurd h h2

/-- the buffer never exceeds its capacity (the `assert(current_ + amount <= end_)` of `Ensure`) -/
theorem sStep_bounded (orc fuel) (r : SRun) (op : SOp) (hfit : op.fits r.st.cap)
    (hb : r.st.buf.length ≤ r.st.cap) : (sStep orc fuel r op).st.buf.length ≤ r.st.cap := by
  unfold sStep
  split
  · exact hb
  · cases op with
    | flush => exact Nat.le_trans (sFlush_buf_le orc fuel r) hb
    | write data =>
      simp only []
      unfold sWrite
      split
      · simpa using ‹_›
      · unfold sWriteAfterFlush
        split
        · exact Nat.le_trans (sFlush_buf_le orc fuel r) hb
        · split
          · rename_i h; simpa [sFlush_cap] using h
          · exact Nat.le_trans (sFlush_buf_le orc fuel r) hb
    | inplace amount s =>
      simp only [SOp.fits] at hfit
      simp only []
      unfold sInplace sAppendIfOk
      split
      · split
        · exact Nat.le_trans (sFlush_buf_le orc fuel r) hb
        · rename_i hok1'
          have hok1 : (sFlush orc fuel r).res = .ok := by simpa using hok1'
          simp only [setBuf_buf, sFlush_ok_buf orc fuel r hok1, List.nil_append]
          omega
      · simp only [setBuf_buf, List.length_append]; omega

end KV.IO
