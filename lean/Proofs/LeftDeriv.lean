import Proofs.LeftNT5
import Proofs.TableBuild
/-! From the two `Frag` lemmas to whole derivations: induction over arbitrary n-ary derivation trees, with and
without `BeginSentence`; the table built from an ARPA model satisfies `Hyp`. -/
namespace KV.Left
open KV.Arpa KV.Table KV.State KV.Score

variable {a : Arpa} {T : Table}

/-- every word of the derivation is in the vocabulary (`Index` maps everything else to `<unk>`, which is) -/
def ValidWords (a : Arpa) (ws : List Word) : Prop := ∀ w ∈ ws, a.gram [w] ≠ none

theorem init_frag (H : Hyp a T) (R : Ptr → Rat) : Frag a T R [] 0 RS.init := by
  refine ⟨⟨Nat.le_refl _, Nat.zero_le _, rfl, rfl, fun k h1 h2 => by simp at h2; simp [RS.init] at h1; omega⟩, ⟨rfl, rfl⟩,
    Nat.le_refl _, Nat.zero_le _, rfl, fun i hi => by omega, ?_, fun _ => ⟨rfl, rfl⟩, fun h => by simp [RS.init] at h⟩
  simp [RS.init, restSum, specSeq]; grind

/-- the "began" invariant: complete left state, exact history `h0`, everything so far scored exactly -/
structure FragB (a : Arpa) (h0 ws : List Word) (p0 : Rat) (left0 : LeftSt) (rs : RS) : Prop where
  done : rs.leftDone = true
  left_eq : rs.out.left = left0
  right_for : StateFor a (ws.reverse ++ h0) rs.out.right
  right_norm : NormS rs.out.right
  prob_eq : rs.prob = p0 + specSeq a h0 ws

theorem terminal_done (H : Hyp a T) (R : Ptr → Rat) {h0 ws : List Word} {p0 : Rat} {l0 : LeftSt} {rs : RS}
    (B : FragB a h0 ws p0 l0 rs) (w : Word) (hw : a.gram [w] ≠ none) :
    FragB a h0 (ws ++ [w]) p0 l0 (terminal T R rs w) := by
  have hsim := fullScore_sim T R rs.out.right w
  have hstep := step H.wf H.tf B.right_for hw
  have hst : StateFor a (w :: (ws.reverse ++ h0)) (fullScore (restSearch T R) rs.out.right w).2 := by rw [hsim.2]; exact hstep.2
  obtain ⟨hnorm, hst'⟩ := normS_of_stateFor hst
  unfold terminal
  simp only [B.done, if_true]
  refine ⟨rfl, B.left_eq, by simpa using hst', hnorm, ?_⟩
  show rs.prob + (fullScore (restSearch T R) rs.out.right w).1.prob = _
  rw [hsim.1, hstep.1, B.prob_eq, specSeq_append]
  simp only [specSeq]; grind

theorem ValidWords.append_left {ws1 ws2 : List Word} (h : ValidWords a (ws1 ++ ws2)) : ValidWords a ws1 :=
  fun w hw => h w (List.mem_append_left _ hw)
theorem ValidWords.append_right {ws1 ws2 : List Word} (h : ValidWords a (ws1 ++ ws2)) : ValidWords a ws2 :=
  fun w hw => h w (List.mem_append_right _ hw)

mutual
/-- applying any item to a fragment gives the fragment of the concatenation -/
theorem applyItem_frag (H : Hyp a T) (R : Ptr → Rat) :
    ∀ (i : Item) {ws : List Word} {L : Nat} {rs : RS}, Frag a T R ws L rs → ValidWords a i.yield →
      ∃ L', Frag a T R (ws ++ i.yield) L' (applyItem T R rs i)
  | .term w, ws, L, rs, F, hv => by
    simp only [applyItem, Item.yield]
    exact terminal_frag_aux H R F w (hv w (by simp [Item.yield]))
  | .nt r, ws, L, rs, F, hv => by
    simp only [applyItem, Item.yield]
    obtain ⟨L2, F2⟩ := applyRule_frag H R r (init_frag H R) (by simpa [Item.yield] using hv)
    have G := finish_frag H R F2
    simp only [List.nil_append] at G
    exact nonTerminal_frag_aux H R F G
theorem applyRule_frag (H : Hyp a T) (R : Ptr → Rat) :
    ∀ (r : Rule) {ws : List Word} {L : Nat} {rs : RS}, Frag a T R ws L rs → ValidWords a r.yield →
      ∃ L', Frag a T R (ws ++ r.yield) L' (applyRule T R rs r)
  | .nil, ws, L, rs, F, _ => by
    simp only [applyRule, Rule.yield, List.append_nil]; exact ⟨L, F⟩
  | .cons i r, ws, L, rs, F, hv => by
    simp only [applyRule, Rule.yield]
    obtain ⟨L1, F1⟩ := applyItem_frag H R i F (ValidWords.append_left (by simpa [Rule.yield] using hv))
    obtain ⟨L2, F2⟩ := applyRule_frag H R r F1 (ValidWords.append_right (by simpa [Rule.yield] using hv))
    rw [List.append_assoc] at F2
    exact ⟨L2, F2⟩
end

mutual
theorem applyItem_done (H : Hyp a T) (R : Ptr → Rat) :
    ∀ (i : Item) {h0 ws : List Word} {p0 : Rat} {l0 : LeftSt} {rs : RS}, FragB a h0 ws p0 l0 rs → ValidWords a i.yield →
      FragB a h0 (ws ++ i.yield) p0 l0 (applyItem T R rs i)
  | .term w, h0, ws, p0, l0, rs, B, hv => by
    simp only [applyItem, Item.yield]
    exact terminal_done H R B w (hv w (by simp [Item.yield]))
  | .nt r, h0, ws, p0, l0, rs, B, hv => by
    simp only [applyItem, Item.yield]
    obtain ⟨L2, F2⟩ := applyRule_frag H R r (init_frag H R) (by simpa [Item.yield] using hv)
    have G := finish_frag H R F2
    simp only [List.nil_append] at G
    obtain ⟨h1, h2, h3, h4, h5⟩ := nonTerminal_done H R G B.done B.right_for B.right_norm
    refine ⟨h1, by rw [h2]; exact B.left_eq, by simpa using h3, h4, ?_⟩
    rw [h5, B.prob_eq, specSeq_append]; grind
theorem applyRule_done (H : Hyp a T) (R : Ptr → Rat) :
    ∀ (r : Rule) {h0 ws : List Word} {p0 : Rat} {l0 : LeftSt} {rs : RS}, FragB a h0 ws p0 l0 rs → ValidWords a r.yield →
      FragB a h0 (ws ++ r.yield) p0 l0 (applyRule T R rs r)
  | .nil, h0, ws, p0, l0, rs, B, _ => by
    simp only [applyRule, Rule.yield, List.append_nil]; exact B
  | .cons i r, h0, ws, p0, l0, rs, B, hv => by
    simp only [applyRule, Rule.yield]
    have B1 := applyItem_done H R i B (ValidWords.append_left (by simpa [Rule.yield] using hv))
    have B2 := applyRule_done H R r B1 (ValidWords.append_right (by simpa [Rule.yield] using hv))
    rw [List.append_assoc] at B2
    exact B2
end

/-- `BeginSentence()` establishes the began invariant -/
theorem begin_fragB (H : Hyp a T) (R : Ptr → Rat) (bos : Word) :
    FragB a [bos] [] 0 {} (beginSentence T R bos RS.init) := by
  have hN := H.wf.order_ge
  refine ⟨rfl, rfl, ?_, ⟨rfl, rfl⟩, by simp [beginSentence, RS.init, specSeq]; grind⟩
  show StateFor a [bos] (beginSentenceState (restSearch T R) bos)
  refine ⟨Nat.le_refl _, by show 1 ≤ a.order - 1; omega, rfl, ?_, fun k h1 h2 => by
    simp [beginSentenceState] at h1; simp at h2; omega⟩
  show [((restSearch T R).lookupUnigram bos).1.backoff] = [a.boW [bos]]
  rw [← H.tf.bo_eq H.wf]
  obtain ⟨o, ho⟩ : ∃ o, T.lookup [bos] = o := ⟨_, rfl⟩
  simp only [restSearch, foundOf, Table.bo, ho]
  cases o <;> simp [toFound, notFound]

/-- with `Rest() = Prob()` the rest costs of the left state are the null-context scores of its words -/
theorem restSum_noRest (H : Hyp a T) (ws : List Word) :
    ∀ L, L ≤ ws.length → L ≤ a.order - 1 → (∀ i, i < L → T.xl (pre ws i) = true) →
      restSum (noRest T) ws L = specSeq a [] (ws.take L) := by
  intro L
  induction L with
  | zero => intro _ _ _; simp [restSum, specSeq]
  | succ L ih =>
    intro h1 h2 hx
    obtain ⟨t, ht, _⟩ := xl_lookup (hx L (by omega))
    have hp := pre_prob H ws L (by omega) (by omega) ht
    simp only [restSum]
    rw [ih (by omega) (by omega) (fun i hi => hx i (by omega)), List.take_succ_eq_append_getElem (by omega), specSeq_append]
    simp only [specSeq, noRest, ht, hp, gm1, List.append_nil]
    grind

/-! ### the table built from an ARPA model -/

theorem isContext_of_entry (a : Arpa) (g : List Word) (y : Word) (h : (build a).lookup (y :: g) ≠ none) : isContext a g = true := by
  rw [build_lookup_ne_none] at h
  unfold isContext
  rw [List.any_eq_true]
  rcases h.2 with hr | hx
  · obtain ⟨e, he⟩ := Option.ne_none_iff_exists'.mp hr
    exact ⟨(y :: g, e), lookup_some_mem _ _ _ he, by simp⟩
  · obtain ⟨p, hp, hl, hpre⟩ := (extendsLeft_iff _ _).mp hx
    obtain ⟨e, he⟩ := Option.ne_none_iff_exists'.mp hp
    refine ⟨(p, e), lookup_some_mem _ _ _ he, ?_⟩
    obtain ⟨s, hs⟩ := hpre
    subst hs
    simp only [List.length_cons, List.length_append] at hl
    simp only [List.cons_append, List.tail_cons, List.length_cons, List.length_append, Bool.and_eq_true, decide_eq_true_eq,
      List.isPrefixOf_iff_prefix]
    exact ⟨by omega, List.prefix_append _ _⟩

/-- the table of probing and of the repaired trie builder (no mark is lost) satisfies `Hyp` -/
theorem hyp_build (a : Arpa) (wf : WellFormed a)
    (premise : ∀ g e, a.gram g = some e → e.backoff ≠ 0 → ∃ y, a.gram (y :: g) ≠ none) : Hyp a (build a) := by
  refine ⟨wf, build_tableFor a wf _, ?_, premise⟩
  intro g y hg h
  have hctx := isContext_of_entry a g y h
  have hin : (build a).lookup g ≠ none := by
    have := (build_tableFor a wf (fun _ => false)).prefix_closed
    have h2 : (build a).lookup (y :: g) ≠ none := h
    -- the context of a table entry is a table entry: real contexts are present, blanks are prefixes of real n-grams
    rw [build_lookup_ne_none] at h2 ⊢
    refine ⟨hg, ?_⟩
    rcases h2.2 with hr | hx
    · exact Or.inl (wf.ctx_present y g hg hr)
    · obtain ⟨p, hp, hl, hpre⟩ := (extendsLeft_iff _ _).mp hx
      obtain ⟨s, hs⟩ := hpre
      subst hs
      have hreal : a.gram (g ++ s) ≠ none := wf.ctx_present y (g ++ s) (by simp [hg]) (by simpa using hp)
      by_cases hsn : s = []
      · subst hsn; simp at hl
      · right
        rw [extendsLeft_iff]
        exact ⟨g ++ s, hreal, by
          simp only [List.length_append]
          have : 0 < s.length := List.length_pos_iff.mpr hsn
          omega, List.prefix_append _ _⟩
  cases g with
  | nil => exact absurd rfl hg
  | cons w ctx =>
    unfold Table.xr
    simp only [build]
    cases hgr : a.gram (w :: ctx) with
    | some e => simp [hctx]
    | none =>
      have hx : extendsLeft a (w :: ctx) = true := by
        rw [build_lookup_ne_none] at hin
        rcases hin.2 with h' | h'
        · exact absurd hgr h'
        · exact h'
      simp [hx, hctx]

end KV.Left
