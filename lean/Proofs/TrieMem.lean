import Model.TrieLM
/-! Memory built by OR-ing disjoint bit fields: every field reads back (the frame argument for any number of writes). -/
namespace KV.TrieLM

def Field.Disj (a b : Field) : Prop := a.off + a.len ≤ b.off ∨ b.off + b.len ≤ a.off

theorem testBit_orFields (fs : List Field) : ∀ m k, (orFields m fs).testBit k =
    (m.testBit k || fs.any (fun f => decide (f.off ≤ k) && f.val.testBit (k - f.off))) := by
  induction fs with
  | nil => intro m k; simp [orFields]
  | cons f fs ih =>
    intro m k
    have : orFields m (f :: fs) = orFields (m ||| (f.val <<< f.off)) fs := rfl
    rw [this, ih, Nat.testBit_or, Nat.testBit_shiftLeft]
    simp [Bool.or_assoc]

theorem pairwise_mem {α} {R : α → α → Prop} (hs : ∀ a b, R a b → R b a) {l : List α} (h : l.Pairwise R) :
    ∀ a ∈ l, ∀ b ∈ l, a = b ∨ R a b := by
  induction l with
  | nil => intro a ha; simp at ha
  | cons x xs ih =>
    have hp := List.pairwise_cons.mp h
    intro a ha b hb
    rcases List.mem_cons.mp ha with ha | ha <;> rcases List.mem_cons.mp hb with hb | hb
    · left; rw [ha, hb]
    · right; rw [ha]; exact hp.1 b hb
    · right; rw [hb]; exact hs _ _ (hp.1 a ha)
    · exact ih hp.2 a ha b hb

theorem testBit_ge_of_lt {v len j : Nat} (hv : v < 2^len) (hj : len ≤ j) : v.testBit j = false :=
  Nat.testBit_lt_two_pow (Nat.lt_of_lt_of_le hv (Nat.pow_le_pow_right (by decide) hj))

/-- **frame + read-back, for any number of writes**: in a memory built by OR-ing pairwise disjoint fields (each value
fitting its width) into zero, every field reads back its value — later and earlier writes do not disturb it. -/
theorem orFields_read (fs : List Field) (hd : fs.Pairwise Field.Disj) (hv : ∀ f ∈ fs, f.val < 2^f.len)
    (f : Field) (hf : f ∈ fs) : (orFields 0 fs >>> f.off) % 2^f.len = f.val := by
  apply Nat.eq_of_testBit_eq
  intro j
  rw [Nat.testBit_mod_two_pow, Nat.testBit_shiftRight, testBit_orFields]
  simp only [Nat.zero_testBit, Bool.false_or]
  by_cases hj : j < f.len
  · simp only [hj, decide_true, Bool.true_and]
    cases hb : f.val.testBit j with
    | true =>
      rw [List.any_eq_true]
      exact ⟨f, hf, by simp [hb]⟩
    | false =>
      rw [List.any_eq_false]
      intro g hg
      rcases pairwise_mem (fun a b h => Or.symm h) hd f hf g hg with heq | hdis
      · subst heq; simp [hb]
      · by_cases hle : g.off ≤ f.off + j
        · have : g.val.testBit (f.off + j - g.off) = false := by
            apply testBit_ge_of_lt (hv g hg)
            rcases hdis with h | h <;> omega
          simp [this]
        · simp [hle]
  · simp only [hj, decide_false, Bool.false_and]
    exact (testBit_ge_of_lt (hv f hf) (by omega)).symm

/-- read-back with a per-field hypothesis: every other field of the list is equal to `f` or disjoint from it -/
theorem orFields_read_of (fs : List Field) (hv : ∀ g ∈ fs, g.val < 2^g.len)
    (f : Field) (hf : f ∈ fs) (hd : ∀ g ∈ fs, g = f ∨ Field.Disj f g) : (orFields 0 fs >>> f.off) % 2^f.len = f.val := by
  apply Nat.eq_of_testBit_eq
  intro j
  rw [Nat.testBit_mod_two_pow, Nat.testBit_shiftRight, testBit_orFields]
  simp only [Nat.zero_testBit, Bool.false_or]
  by_cases hj : j < f.len
  · simp only [hj, decide_true, Bool.true_and]
    cases hb : f.val.testBit j with
    | true =>
      rw [List.any_eq_true]
      exact ⟨f, hf, by simp [hb]⟩
    | false =>
      rw [List.any_eq_false]
      intro g hg
      rcases hd g hg with heq | hdis
      · subst heq; simp [hb]
      · by_cases hle : g.off ≤ f.off + j
        · have : g.val.testBit (f.off + j - g.off) = false := by
            apply testBit_ge_of_lt (hv g hg)
            rcases hdis with h | h <;> omega
          simp [this]
        · simp [hle]
  · simp only [hj, decide_false, Bool.false_and]
    exact (testBit_ge_of_lt (hv f hf) (by omega)).symm

structure RegionSpec.OK (R : RegionSpec) : Prop where
  slot_in : ∀ s, s < R.slots.length → R.slotOff s + R.slotLen s ≤ R.stride
  slot_disj : ∀ s s', s < s' → s' < R.slots.length → R.slotOff s + R.slotLen s ≤ R.slotOff s'
  fits : ∀ i s v, i < R.nrec → s < R.slots.length → R.val i s = some v → v < 2^(R.slotLen s)

theorem RegionSpec.mem_fields (R : RegionSpec) (g : Field) :
    g ∈ R.fields ↔ ∃ i s v, i < R.nrec ∧ s < R.slots.length ∧ R.val i s = some v ∧ g = R.fieldAt i s v := by
  unfold RegionSpec.fields
  simp only [List.mem_flatMap, List.mem_range, List.mem_filterMap, Option.map_eq_some_iff]
  constructor
  · rintro ⟨i, hi, s, hs, v, hv, rfl⟩; exact ⟨i, s, v, hi, hs, hv, rfl⟩
  · rintro ⟨i, s, v, hi, hs, hv, rfl⟩; exact ⟨i, hi, s, hs, v, hv, rfl⟩

/-- extent of a field inside its record and region -/
theorem RegionSpec.field_extent (R : RegionSpec) (ok : R.OK) (i s v : Nat) (hi : i < R.nrec) (hs : s < R.slots.length) :
    R.base + i * R.stride ≤ (R.fieldAt i s v).off ∧
    (R.fieldAt i s v).off + (R.fieldAt i s v).len ≤ R.base + (i + 1) * R.stride ∧
    R.base + (i + 1) * R.stride ≤ R.base + R.nrec * R.stride := by
  have h1 := ok.slot_in s hs
  have h2 : (i + 1) * R.stride ≤ R.nrec * R.stride := Nat.mul_le_mul_right _ hi
  simp only [RegionSpec.fieldAt, Nat.succ_mul]
  refine ⟨by omega, by omega, ?_⟩
  rw [Nat.succ_mul] at h2; omega

theorem RegionSpec.disj_same (R : RegionSpec) (ok : R.OK) (i s v i' s' v' : Nat) (hi : i < R.nrec) (hi' : i' < R.nrec)
    (hs : s < R.slots.length) (hs' : s' < R.slots.length) (hne : i ≠ i' ∨ s ≠ s') :
    Field.Disj (R.fieldAt i s v) (R.fieldAt i' s' v') := by
  obtain ⟨a1, a2, _⟩ := R.field_extent ok i s v hi hs
  obtain ⟨b1, b2, _⟩ := R.field_extent ok i' s' v' hi' hs'
  unfold Field.Disj
  rcases Nat.lt_trichotomy i i' with h | h | h
  · have : (i + 1) * R.stride ≤ i' * R.stride := Nat.mul_le_mul_right _ h
    left; omega
  · subst h
    have hss : s ≠ s' := by rcases hne with h | h; exact absurd rfl h; exact h
    rcases Nat.lt_or_gt_of_ne hss with h | h
    · left; have := ok.slot_disj s s' h hs'; simp only [RegionSpec.fieldAt]; omega
    · right; have := ok.slot_disj s' s h hs; simp only [RegionSpec.fieldAt]; omega
  · have : (i' + 1) * R.stride ≤ i * R.stride := Nat.mul_le_mul_right _ h
    right; omega

/-- region `R` ends before region `R'` begins -/
def RegionSpec.Before (R R' : RegionSpec) : Prop := R.base + R.nrec * R.stride ≤ R'.base

/-- **regions_read**: in a memory assembled from regions of fixed-stride records whose bit extents follow one another, every
written slot reads back its value. -/
theorem regions_read (Rs : List RegionSpec) (hok : ∀ R ∈ Rs, R.OK) (hord : Rs.Pairwise RegionSpec.Before)
    (R : RegionSpec) (hR : R ∈ Rs) (i s v : Nat) (hi : i < R.nrec) (hs : s < R.slots.length) (hv : R.val i s = some v) :
    (orFields 0 (allFields Rs) >>> (R.base + i * R.stride + R.slotOff s)) % 2^(R.slotLen s) = v := by
  have key := orFields_read_of (allFields Rs) ?_ (R.fieldAt i s v) ?_ ?_
  · exact key
  · intro g hg
    simp only [allFields, List.mem_flatMap] at hg
    obtain ⟨R', hR', hg⟩ := hg
    obtain ⟨i', s', v', hi', hs', hv', rfl⟩ := (R'.mem_fields g).mp hg
    exact (hok R' hR').fits i' s' v' hi' hs' hv'
  · simp only [allFields, List.mem_flatMap]
    exact ⟨R, hR, (R.mem_fields _).mpr ⟨i, s, v, hi, hs, hv, rfl⟩⟩
  · intro g hg
    simp only [allFields, List.mem_flatMap] at hg
    obtain ⟨R', hR', hg⟩ := hg
    obtain ⟨i', s', v', hi', hs', hv', rfl⟩ := (R'.mem_fields g).mp hg
    have hsym : ∀ a b : RegionSpec, (a.Before b ∨ b.Before a) → (b.Before a ∨ a.Before b) := fun a b h => Or.symm h
    have hp : Rs.Pairwise (fun a b => a.Before b ∨ b.Before a) := hord.imp (fun h => Or.inl h)
    rcases pairwise_mem hsym hp R hR R' hR' with e | e | e
    · subst e
      by_cases hsame : i = i' ∧ s = s'
      · obtain ⟨e1, e2⟩ := hsame
        subst e1; subst e2
        rw [hv] at hv'
        left; rw [Option.some.inj hv']
      · right
        exact R.disj_same (hok R hR) i s v i' s' v' hi hi' hs hs' (by
          by_cases h : i = i'
          · right; intro h2; exact hsame ⟨h, h2⟩
          · left; exact h)
    · right
      obtain ⟨_, a2, a3⟩ := R.field_extent (hok R hR) i s v hi hs
      obtain ⟨b1, _, _⟩ := R'.field_extent (hok R' hR') i' s' v' hi' hs'
      have h2 : R'.base ≤ R'.base + i' * R'.stride := Nat.le_add_right _ _
      unfold RegionSpec.Before at e
      left; omega
    · right
      obtain ⟨a1, _, _⟩ := R.field_extent (hok R hR) i s v hi hs
      obtain ⟨_, b2, b3⟩ := R'.field_extent (hok R' hR') i' s' v' hi' hs'
      have h2 : R.base ≤ R.base + i * R.stride := Nat.le_add_right _ _
      unfold RegionSpec.Before at e
      right; omega


end KV.TrieLM
