import Model.TrieLM
/-! Memory built by OR-ing disjoint bit fields: every field reads back (the frame argument for any number of writes). -/
namespace KV.TrieLM

/-- a bit field: offset, width, value -/
structure Field where
  off : Nat
  len : Nat
  val : Nat
  deriving DecidableEq, Repr

def Field.Disj (a b : Field) : Prop := a.off + a.len ≤ b.off ∨ b.off + b.len ≤ a.off

/-- memory obtained by OR-ing fields into `m` (what a sequence of `Write*` calls does to zero-initialised memory) -/
def orFields (m : Nat) (fs : List Field) : Nat := fs.foldl (fun m f => m ||| (f.val <<< f.off)) m

theorem testBit_orFields (fs : List Field) : ∀ m k, (orFields m fs).testBit k =
    (m.testBit k || fs.any (fun f => decide (f.off ≤ k) && f.val.testBit (k - f.off))) := by
  induction fs with
  | nil => intro m k; simp [orFields]
  | cons f fs ih =>
    intro m k
    have : orFields m (f :: fs) = orFields (m ||| (f.val <<< f.off)) fs := rfl
    rw [this, ih, Nat.testBit_or, Nat.testBit_shiftLeft]
    simp [Bool.or_assoc]

theorem pairwise_mem {α} {R : α → α → Prop} (hs : ∀ a b, R a b → R b a) {l : List α} (h : l.Pairwise R) :
    ∀ a ∈ l, ∀ b ∈ l, a = b ∨ R a b := by
  induction l with
  | nil => intro a ha; simp at ha
  | cons x xs ih =>
    have hp := List.pairwise_cons.mp h
    intro a ha b hb
    rcases List.mem_cons.mp ha with ha | ha <;> rcases List.mem_cons.mp hb with hb | hb
    · left; rw [ha, hb]
    · right; rw [ha]; exact hp.1 b hb
    · right; rw [hb]; exact hs _ _ (hp.1 a ha)
    · exact ih hp.2 a ha b hb

theorem testBit_ge_of_lt {v len j : Nat} (hv : v < 2^len) (hj : len ≤ j) : v.testBit j = false :=
  Nat.testBit_lt_two_pow (Nat.lt_of_lt_of_le hv (Nat.pow_le_pow_right (by decide) hj))

/-- **frame + read-back, for any number of writes**: in a memory built by OR-ing pairwise disjoint fields (each value
fitting its width) into zero, every field reads back its value — later and earlier writes do not disturb it. -/
theorem orFields_read (fs : List Field) (hd : fs.Pairwise Field.Disj) (hv : ∀ f ∈ fs, f.val < 2^f.len)
    (f : Field) (hf : f ∈ fs) : (orFields 0 fs >>> f.off) % 2^f.len = f.val := by
  apply Nat.eq_of_testBit_eq
  intro j
  rw [Nat.testBit_mod_two_pow, Nat.testBit_shiftRight, testBit_orFields]
  simp only [Nat.zero_testBit, Bool.false_or]
  by_cases hj : j < f.len
  · simp only [hj, decide_true, Bool.true_and]
    cases hb : f.val.testBit j with
    | true =>
      rw [List.any_eq_true]
      exact ⟨f, hf, by simp [hb]⟩
    | false =>
      rw [List.any_eq_false]
      intro g hg
      rcases pairwise_mem (fun a b h => Or.symm h) hd f hf g hg with heq | hdis
      · subst heq; simp [hb]
      · by_cases hle : g.off ≤ f.off + j
        · have : g.val.testBit (f.off + j - g.off) = false := by
            apply testBit_ge_of_lt (hv g hg)
            rcases hdis with h | h <;> omega
          simp [this]
        · simp [hle]
  · simp only [hj, decide_false, Bool.false_and]
    exact (testBit_ge_of_lt (hv f hf) (by omega)).symm

end KV.TrieLM
